/-
C14, long table of an INCREMENTAL triangle with scalar values: one row per cell and field; the reader
adds each row's field to the cell at the row's coordinates incl. prev_evaluation_date
(`fromLong_toLong_incremental`). The first part repeats the row lemmas of `FrameLong.lean` for the
four-column base dict (generated from them by renaming).
-/
import Bermuda.Lemmas.FrameWideIncr
namespace Bermuda.Frame
open Bermuda Bermuda.Spec.C14 Std Bermuda.JoinL Bermuda.GroupL

/-! ### incremental long rows (the lemmas of `FrameLong.lean` with the four-column base dict) -/

structure ILRowCtx (c : Cell) (N DK LK : List String) : Prop where
  kind : c.kind = .incremental
  prev : c.prev = some (prevOf c)
  nN : N.Nodup
  nsub : ∀ n ∈ N, n ∈ sixNames ∨ n ∈ DK ∨ n ∈ LK
  nfull : ∀ k, k ∉ N → Row.col (flatDict c.md) k = MVal.none
  names : LongNames DK LK

theorem iget?_longRow_other {c : Cell} {N DK LK : List String} (h : ILRowCtx c N DK LK) (i : Nat)
    (kv : String × Rat) {k : String} (hk : k ∉ ["scenario", "field", "value"]) :
    Dict.get? (longRow c N i kv) k =
      (if k ∈ N then some (Row.col (flatDict c.md) k) else none).or (Dict.get? (incBase c (prevOf c)) k) := by
  rw [longRow_eq, Dict.get?_union _ _ (lastThree_wf _ _ _)]
  have : Dict.get? (lastThree (if ((Dict.get? c.values kv.1).map isConstantField).getD false then MVal.none
        else MVal.num ((i : Nat) + 1 : Nat)) kv.1 kv.2) k = none := by
    rw [Dict.get?_eq_none_iff]
    simpa [lastThree, Dict.keys] using hk
  rw [this, Option.none_or, Dict.get?_union _ _ (metadataDict_wf c h.nN), get?_metadataDict,
    baseDict_inc h.kind h.prev]

theorem icol_longRow_md {c : Cell} {N DK LK : List String} (h : ILRowCtx c N DK LK) (i : Nat)
    (kv : String × Rat) {k : String} (hk : k ∈ sixNames ∨ k ∈ DK ∨ k ∈ LK) :
    Row.col (longRow c N i kv) k = Row.col (flatDict c.md) k := by
  have hnot : k ∉ ["scenario", "field", "value"] ∧ Dict.get? (incBase c (prevOf c)) k = none := by
    rcases hk with h6 | hd
    · simp only [sixNames, List.mem_cons, List.not_mem_nil, or_false] at h6
      rcases h6 with rfl | rfl | rfl | rfl | rfl | rfl <;> exact ⟨by decide, by simp [incBase, Dict.get?]⟩
    · obtain ⟨h1, h2, h3⟩ := h.names.core k hd
      constructor
      · simp only [List.mem_cons, List.not_mem_nil, or_false, not_or]
        exact ⟨fun he => h1 (he ▸ by decide), h2, h3⟩
      · rw [Dict.get?_eq_none_iff]
        intro hm
        apply h1
        simp only [incBase, Dict.keys, List.map_cons, List.map_nil, List.mem_cons, List.not_mem_nil, or_false] at hm
        rcases hm with rfl | rfl | rfl | rfl <;> decide
  unfold Row.col
  rw [iget?_longRow_other h i kv hnot.1, hnot.2]
  by_cases hn : k ∈ N
  · simp [hn, Row.col]
  · rw [if_neg hn]
    have := h.nfull k hn
    unfold Row.col at this
    simp [this]



/-- `WFcsv` for the long form, incremental triangles with scalar values -/
structure WFlongIncr (t : List Cell) (DK LK : List String) : Prop where
  ne : t ≠ []
  sorted : t.Pairwise (fun a b => Cell.cmp a b = .lt)
  inc : ∀ c ∈ t, c.kind = .incremental ∧ c.prev.isSome = true
  dates : ∀ c ∈ t, c.datesOk = true
  md : ∀ c ∈ t, MdOKL c.md DK LK
  names : LongNames DK LK
  cells : ∀ c ∈ t, CellOKL c (sampleCount c) ∧ c.values ≠ []
  one : ∀ c ∈ t, sampleCount c = 1
  inj : (t.map fun c => (mergeCell c).coord).Nodup

theorem WFlongIncr.prev {t : List Cell} {DK LK : List String} (h : WFlongIncr t DK LK) {c : Cell} (hc : c ∈ t) :
    c.prev = some (prevOf c) := by
  obtain ⟨p, hp⟩ := Option.isSome_iff_exists.mp (h.inc c hc).2
  simp [prevOf, hp]

theorem WFlongIncr.rowCtx {t : List Cell} {DK LK : List String} (h : WFlongIncr t DK LK) {c : Cell} (hc : c ∈ t) :
    ILRowCtx c (allMetadataNames t) DK LK where
  kind := (h.inc c hc).1
  prev := h.prev hc
  nN := allMetadataNames_nodup t
  nsub := by
    intro n hn
    obtain ⟨c', hc', hn'⟩ := mem_allMetadataNames.mp hn
    rcases (keys_flat c'.md n).mp (nonNoneNames_sub hn') with h6 | hd | hl
    · exact Or.inl h6
    · exact Or.inr (Or.inl ((h.md c' hc').dkeys n hd))
    · exact Or.inr (Or.inr ((h.md c' hc').lkeys n hl))
  nfull := by
    intro k hk
    apply Classical.byContradiction
    intro hne
    exact hk (mem_allMetadataNames.mpr ⟨c, hc, mem_nonNoneNames hne⟩)
  names := h.names


section ilrows
variable {t : List Cell} {DK LK : List String} (h : WFlongIncr t DK LK) {c : Cell} (hc : c ∈ t)
  {E : Row → Row} (hE : KeepsOthers E) (i : Nat) (kv : String × Rat)
include h hc hE

theorem ilcol_md {k : String} (hk : k ∈ sixNames ∨ k ∈ DK ∨ k ∈ LK) :
    Row.col (E (longRow c (allMetadataNames t) i kv)) k = Row.col (flatDict c.md) k := by
  have hne : k ≠ "scenario" := by
    rcases hk with h6 | hd
    · intro he; subst he; revert h6; decide
    · exact not_core_ne_scenario (h.names.core k hd).1
  unfold Row.col
  rw [hE _ _ hne]
  exact icol_longRow_md (h.rowCtx hc) i kv hk

theorem ilget_coord {k : String} (hk : k ∈ ["period_start", "period_end", "evaluation_date", "prev_evaluation_date"]) :
    Dict.get? (E (longRow c (allMetadataNames t) i kv)) k = Dict.get? (incBase c (prevOf c)) k := by
  have hne : k ≠ "scenario" := by intro he; subst he; revert hk; decide
  have hnot : k ∉ ["scenario", "field", "value"] := by
    simp only [List.mem_cons, List.not_mem_nil, or_false] at hk ⊢
    rcases hk with rfl | rfl | rfl | rfl <;> decide
  rw [hE _ _ hne, iget?_longRow_other (h.rowCtx hc) i kv hnot]
  have hn : k ∉ allMetadataNames t := by
    intro hn
    rcases (h.rowCtx hc).nsub k hn with h6 | hd
    · simp only [sixNames, List.mem_cons, List.not_mem_nil, or_false] at h6 hk
      rcases h6 with rfl | rfl | rfl | rfl | rfl | rfl <;> simp at hk
    · apply (h.names.core k hd).1
      simp only [coreNames, List.mem_append, List.mem_cons, List.not_mem_nil, or_false] at hk ⊢
      rcases hk with rfl | rfl | rfl | rfl <;> simp
  rw [if_neg hn]
  rfl

theorem ilget_field :
    Dict.get? (E (longRow c (allMetadataNames t) i kv)) "field" = some (MVal.str kv.1) ∧
    Dict.get? (E (longRow c (allMetadataNames t) i kv)) "value" = some (MVal.num kv.2) := by
  constructor
  · rw [hE _ _ (by decide), longRow_eq, Dict.get?_union _ _ (lastThree_wf _ _ _)]
    simp [lastThree, Dict.get?]
  · rw [hE _ _ (by decide), longRow_eq, Dict.get?_union _ _ (lastThree_wf _ _ _)]
    simp [lastThree, Dict.get?]

end ilrows


section iltable
variable {t : List Cell} {DK LK : List String} (h : WFlongIncr t DK LK) {E : Row → Row} (hE : KeepsOthers E)
include h hE

theorem ildetailCols_sub {k : String} (hk : k ∈ ldetailCols t E) : k ∈ DK ∨ k ∈ LK := by
  obtain ⟨hcol, hcore, hf, hv⟩ := mem_ldetailCols.mp hk
  obtain ⟨r, hr, hkr⟩ := mem_colsOf.mp hcol
  obtain ⟨c, hc, i, _, kv, _, rfl⟩ := mem_lrows.mp hr
  have hne : k ≠ "scenario" := by intro he; subst he; exact hcore (by decide)
  have hget : Dict.get? (E (longRow c (allMetadataNames t) i (kv.1, qAt kv.2 i))) k ≠ none := by
    intro hn; exact (Dict.get?_eq_none_iff.mp hn) hkr
  rw [hE _ _ hne, iget?_longRow_other (h.rowCtx hc) i _ (by
    simp only [List.mem_cons, List.not_mem_nil, or_false, not_or]; exact ⟨hne, hf, hv⟩)] at hget
  by_cases hn : k ∈ allMetadataNames t
  · rcases (h.rowCtx hc).nsub k hn with h6 | hd
    · exact absurd (six_sub_coreSet k h6) hcore
    · exact hd
  · rw [if_neg hn, Option.none_or] at hget
    exfalso
    apply hcore
    have : k ∈ Dict.keys (incBase c (prevOf c)) := by
      apply Classical.byContradiction
      intro hnk; exact hget (Dict.get?_eq_none_iff.mpr hnk)
    simp only [incBase, Dict.keys, List.map_cons, List.map_nil, List.mem_cons, List.not_mem_nil, or_false] at this
    rcases this with rfl | rfl | rfl | rfl <;> decide

theorem ildetailCols_of_nonNone {c : Cell} (hc : c ∈ t) {k : String} (hk : k ∈ DK ∨ k ∈ LK)
    (hv : Row.col (flatDict c.md) k ≠ MVal.none) : k ∈ ldetailCols t E := by
  obtain ⟨h1, h2, h3⟩ := h.names.core k hk
  refine mem_ldetailCols.mpr ⟨?_, fun hcs => h1 (coreSet_sub k hcs), h2, h3⟩
  obtain ⟨hok, hne⟩ := h.cells c hc
  obtain ⟨kv, hkv⟩ := List.exists_mem_of_ne_nil _ hne
  have hr : E (longRow c (allMetadataNames t) 0 (kv.1, qAt kv.2 0)) ∈ lrows t E :=
    mem_lrows.mpr ⟨c, hc, 0, hok.pos, kv, hkv, rfl⟩
  refine mem_colsOf.mpr ⟨_, hr, ?_⟩
  have := ilcol_md h hc hE 0 (kv.1, qAt kv.2 0) (Or.inr hk)
  unfold Row.col at this
  cases hg : Dict.get? (E (longRow c (allMetadataNames t) 0 (kv.1, qAt kv.2 0))) k with
  | none =>
    exfalso
    rw [hg] at this
    apply hv
    unfold Row.col
    rw [← this]; rfl
  | some v => exact mem_keys_of_get? hg

/-- a row whose metadata columns carry the flat metadata of a cell of the triangle reads back as
that cell's metadata with the loss details folded into the details -/
theorem irowMetadata_long {c : Cell} (hc : c ∈ t) {r : Row}
    (hcol : ∀ k, k ∈ sixNames ∨ k ∈ ldetailCols t E → Row.col r k = Row.col (flatDict c.md) k) :
    rowMetadata r (ldetailCols t E) [] = mergeLossDetails c.md := by
  have hm := h.md c hc
  have hsixnone : ∀ k ∈ sixNames, Dict.get? c.md.details k = none ∧ Dict.get? c.md.lossDetails k = none := by
    intro k hk
    constructor
    · rw [Dict.get?_eq_none_iff]; intro hkk
      exact (h.names.core k (Or.inl (hm.dkeys k hkk))).1 (six_core hk)
    · rw [Dict.get?_eq_none_iff]; intro hkk
      exact (h.names.core k (Or.inr (hm.lkeys k hkk))).1 (six_core hk)
  apply rowMetadata_merged _ hm.rb
  · -- details
    apply rowDetails_perm
    · exact List.Nodup.sublist List.filter_sublist (colsOf_nodup _)
    · unfold Dict.keys
      rw [List.map_append, List.nodup_append]
      refine ⟨dictCanon_wf hm.canon.1, dictCanon_wf hm.canon.2, ?_⟩
      intro a ha b hb he
      subst he
      exact h.names.dl a (hm.dkeys a ha) (hm.lkeys a hb)
    · intro p hp
      rcases List.mem_append.mp hp with hp | hp
      · exact hm.dvals p hp
      · exact hm.lvals p hp
    · intro k hk
      have hk' : k ∈ Dict.keys c.md.details ∨ k ∈ Dict.keys c.md.lossDetails := by
        simpa [Dict.keys, List.map_append] using hk
      have hDL : k ∈ DK ∨ k ∈ LK := by
        rcases hk' with h1 | h1
        · exact Or.inl (hm.dkeys k h1)
        · exact Or.inr (hm.lkeys k h1)
      apply ildetailCols_of_nonNone h hE hc hDL
      unfold Row.col
      rw [get?_flat c.md hm.canon]
      rcases hk' with h1 | h1
      · obtain ⟨v, hv⟩ := get?_some_of_mem_keys h1
        have hl : Dict.get? c.md.lossDetails k = none := by
          rw [Dict.get?_eq_none_iff]; intro hkl
          exact h.names.dl k (hm.dkeys k h1) (hm.lkeys k hkl)
        rw [hl, hv]
        simpa using hm.dvals (k, v) (get?_mem hv)
      · obtain ⟨v, hv⟩ := get?_some_of_mem_keys h1
        rw [hv]
        simpa using hm.lvals (k, v) (get?_mem hv)
    · intro k hk
      rw [hcol k (Or.inr hk)]
      have hDL := ildetailCols_sub h hE hk
      have h6 : Dict.get? (sixDict c.md) k = none := by
        rw [Dict.get?_eq_none_iff]; intro hkk
        have : k ∈ sixNames := by
          simp only [sixDict, Dict.keys, List.map_cons, List.map_nil, List.mem_cons, List.not_mem_nil,
            or_false] at hkk
          rcases hkk with hh | hh | hh | hh | hh | hh <;> simp [sixNames, hh]
        exact (h.names.core k hDL).1 (six_core this)
      unfold Row.col
      rw [get?_flat c.md hm.canon, h6, get?_append]
      rcases hDL with hd | hl
      · have : Dict.get? c.md.lossDetails k = none := by
          rw [Dict.get?_eq_none_iff]; intro hkl; exact h.names.dl k hd (hm.lkeys k hkl)
        rw [this]
        cases Dict.get? c.md.details k <;> rfl
      · have : Dict.get? c.md.details k = none := by
          rw [Dict.get?_eq_none_iff]; intro hkd; exact h.names.dl k (hm.dkeys k hkd) hl
        rw [this]
        cases Dict.get? c.md.lossDetails k <;> rfl
  · intro k hk
    rw [hcol k (Or.inl hk)]
    unfold Row.col
    rw [get?_flat c.md hm.canon, (hsixnone k hk).1, (hsixnone k hk).2]
    rfl

end iltable


/-! ### reading the incremental long table: one row = one field of one cell -/

def ipartial (c : Cell) (vals : Dict Val) : Cell :=
  { kind := .incremental, ps := c.ps, pe := c.pe, ev := c.ev, prev := some (prevOf c), values := vals,
    md := mergeLossDetails c.md }

/-- what the long reader makes of an incremental cell: 0-d float arrays, loss details folded -/
def ilrecon (c : Cell) : Cell :=
  ipartial c (c.values.map fun kv => (kv.1, Val.arr false [] [qAt kv.2 0]))

theorem ipartial_coord (c : Cell) (vals : Dict Val) (hp : c.prev = some (prevOf c)) :
    (ipartial c vals).coord = (mergeCell c).coord := by
  simp [ipartial, mergeCell, Cell.coord, ← hp]

theorem iaddField_new {acc : List Cell} {c : Cell} {f : String} {v : Val} (hk : c.kind = .incremental)
    (hp : c.prev = some (prevOf c)) (hd : c.datesOk = true)
    (hno : ∀ x ∈ acc, x.coord ≠ (mergeCell c).coord) :
    addField acc (ipartial c []) f v = .ok (acc ++ [ipartial c [(f, v)]]) := by
  unfold addField
  have hany : ¬ (acc.any (·.coord == (ipartial c []).coord) = true) := by
    intro ha
    obtain ⟨x, hx, hxc⟩ := List.any_eq_true.mp ha
    rw [ipartial_coord c [] hp] at hxc
    exact hno x hx (by simpa using hxc)
  rw [if_neg hany]
  have hdo : ({ ipartial c [] with values := [(f, v)] } : Cell).datesOk = true := by
    unfold Cell.datesOk at hd ⊢
    simp only [ipartial]
    rw [hk, hp] at hd
    exact hd
  unfold Cell.mk?
  rw [if_pos hdo]
  rfl

theorem iaddField_more {pre : List Cell} {c : Cell} {vals : Dict Val} {f : String} {v : Val}
    (hp : c.prev = some (prevOf c)) (hno : ∀ x ∈ pre, x.coord ≠ (mergeCell c).coord)
    (hf : f ∉ Dict.keys vals) :
    addField (pre ++ [ipartial c vals]) (ipartial c []) f v =
      .ok (pre ++ [ipartial c (vals ++ [(f, v)])]) := by
  unfold addField
  have hco : (ipartial c []).coord = (mergeCell c).coord := ipartial_coord c [] hp
  have hany : (pre ++ [ipartial c vals]).any (·.coord == (ipartial c []).coord) = true := by
    rw [List.any_append]
    simp [hco, ipartial_coord c vals hp]
  rw [if_pos hany]
  have hpre : pre.mapM (addFieldTo (ipartial c []) f v) = .ok pre := by
    have := mapM_ok_of_forall (addFieldTo (ipartial c []) f v) id pre (by
      intro x hx
      unfold addFieldTo
      have : (x.coord == (ipartial c []).coord) = false := by
        apply beq_false_of_ne; rw [hco]; exact hno x hx
      rw [this]; rfl)
    simpa using this
  rw [List.mapM_append, hpre]
  simp only [bind, Except.bind, List.mapM_cons, List.mapM_nil, pure, Except.pure]
  unfold addFieldTo
  have h1 : ((ipartial c vals).coord == (ipartial c []).coord) = true := by
    simp [hco, ipartial_coord c vals hp]
  have h2 : ((ipartial c vals).values.contains f) = false := by
    have : Dict.contains vals f = false := by
      cases hcn : Dict.contains vals f with
      | false => rfl
      | true => exact absurd ((Dict.contains_eq vals f).symm ▸ hcn |> fun h' => List.contains_iff_mem.mp h') hf
    simpa [ipartial] using this
  rw [h1, h2]
  rfl

section ilfold
variable {t : List Cell} {DK LK : List String} (h : WFlongIncr t DK LK) {E : Row → Row} (hE : KeepsOthers E)
include h hE

def irowOf (t : List Cell) (E : Row → Row) (c : Cell) (kv : String × Val) : Row :=
  E (longRow c (allMetadataNames t) 0 (kv.1, qAt kv.2 0))

theorem longIncrStep_row (acc : List Cell) {c : Cell} (hc : c ∈ t) (kv : String × Val) :
    longIncrStep (ldetailCols t E) [] acc (irowOf t E c kv) =
      addField acc (ipartial c []) kv.1 (Val.arr false [] [qAt kv.2 0]) := by
  unfold irowOf
  have d1 : Row.col (E (longRow c (allMetadataNames t) 0 (kv.1, qAt kv.2 0))) "period_start" = .date c.ps := by
    unfold Row.col; rw [ilget_coord h hc hE 0 _ (by simp)]; simp [incBase, Dict.get?]
  have d2 : Row.col (E (longRow c (allMetadataNames t) 0 (kv.1, qAt kv.2 0))) "period_end" = .date c.pe := by
    unfold Row.col; rw [ilget_coord h hc hE 0 _ (by simp)]; simp [incBase, Dict.get?]
  have d3 : Row.col (E (longRow c (allMetadataNames t) 0 (kv.1, qAt kv.2 0))) "evaluation_date" = .date c.ev := by
    unfold Row.col; rw [ilget_coord h hc hE 0 _ (by simp)]; simp [incBase, Dict.get?]
  have d4 : Row.col (E (longRow c (allMetadataNames t) 0 (kv.1, qAt kv.2 0))) "prev_evaluation_date" = .date (prevOf c) := by
    unfold Row.col; rw [ilget_coord h hc hE 0 _ (by simp)]; simp [incBase, Dict.get?]
  have d5 : Row.col (E (longRow c (allMetadataNames t) 0 (kv.1, qAt kv.2 0))) "field" = .str kv.1 := by
    unfold Row.col; rw [(ilget_field h hc hE 0 (kv.1, qAt kv.2 0)).1]; rfl
  have d6 : Row.col (E (longRow c (allMetadataNames t) 0 (kv.1, qAt kv.2 0))) "value" = .num (qAt kv.2 0) := by
    unfold Row.col; rw [(ilget_field h hc hE 0 (kv.1, qAt kv.2 0)).2]; rfl
  have hmd : rowMetadata (E (longRow c (allMetadataNames t) 0 (kv.1, qAt kv.2 0))) (ldetailCols t E) [] =
      mergeLossDetails c.md := by
    apply irowMetadata_long h hE hc
    intro k' hk'
    apply ilcol_md h hc hE 0 _
    rcases hk' with h6 | hd
    · exact Or.inl h6
    · exact Or.inr (ildetailCols_sub h hE hd)
  unfold longIncrStep
  rw [d1, d2, d3, d4, d5, d6, hmd]
  simp only [mvalDate?, Except.bind, mvalNum?, Option.map_some, longAdd]
  rfl

theorem ifold_fields {c : Cell} (hc : c ∈ t) (pre : List Cell)
    (hno : ∀ x ∈ pre, x.coord ≠ (mergeCell c).coord) :
    ∀ (rest : List (String × Val)) (vals : Dict Val),
      ((Dict.keys vals ++ rest.map (·.1)).Nodup) →
      (rest.map (irowOf t E c)).foldlM (longIncrStep (ldetailCols t E) []) (pre ++ [ipartial c vals]) =
        .ok (pre ++ [ipartial c (vals ++ rest.map fun kv => (kv.1, Val.arr false [] [qAt kv.2 0]))])
  | [], vals, _ => by simp [pure, Except.pure]
  | kv :: rest, vals, hnd => by
    rw [List.map_cons, List.foldlM_cons, longIncrStep_row h hE _ hc kv]
    have hf : kv.1 ∉ Dict.keys vals := by
      intro hk
      rw [List.nodup_append] at hnd
      exact hnd.2.2 kv.1 hk kv.1 (by simp) rfl
    rw [iaddField_more (h.prev hc) hno hf]
    simp only [bind, Except.bind]
    rw [ifold_fields hc pre hno rest (vals ++ [(kv.1, Val.arr false [] [qAt kv.2 0])]) (by
        simp only [Dict.keys, List.map_append, List.map_cons, List.map_nil, List.append_assoc,
          List.singleton_append] at hnd ⊢
        exact hnd)]
    simp [List.append_assoc]

theorem ifold_cell {c : Cell} (hc : c ∈ t) (pre : List Cell)
    (hno : ∀ x ∈ pre, x.coord ≠ (mergeCell c).coord) :
    (c.values.map (irowOf t E c)).foldlM (longIncrStep (ldetailCols t E) []) pre = .ok (pre ++ [ilrecon c]) := by
  obtain ⟨hok, hne⟩ := h.cells c hc
  cases hv : c.values with
  | nil => exact absurd hv hne
  | cons kv rest =>
    rw [List.map_cons, List.foldlM_cons, longIncrStep_row h hE _ hc kv,
      iaddField_new (h.inc c hc).1 (h.prev hc) (h.dates c hc) hno]
    simp only [bind, Except.bind]
    have hnd := hok.nodup
    rw [hv] at hnd
    rw [ifold_fields h hE hc pre hno rest [(kv.1, Val.arr false [] [qAt kv.2 0])] (by simpa [Dict.keys] using hnd)]
    simp [ilrecon, hv]

theorem ifold_cells : ∀ (suffix pre : List Cell), (∀ c ∈ suffix, c ∈ t) → (∀ c ∈ pre, c ∈ t) →
    ((pre.map fun c => (mergeCell c).coord) ++ (suffix.map fun c => (mergeCell c).coord)).Nodup →
    ((suffix.map fun c => c.values.map (irowOf t E c)).flatten).foldlM
      (longIncrStep (ldetailCols t E) []) (pre.map ilrecon) = .ok ((pre ++ suffix).map ilrecon)
  | [], pre, _, _, _ => by simp [pure, Except.pure]
  | c :: rest, pre, hmem, hpre, hnd => by
    have hc : c ∈ t := hmem c List.mem_cons_self
    rw [List.map_cons, List.flatten_cons, List.foldlM_append]
    have hno : ∀ x ∈ pre.map ilrecon, x.coord ≠ (mergeCell c).coord := by
      intro x hx
      obtain ⟨p, hp, rfl⟩ := List.mem_map.mp hx
      have : (ilrecon p).coord = (mergeCell p).coord := ipartial_coord p _ (h.prev (hpre p hp))
      rw [this]
      intro he
      rw [List.nodup_append] at hnd
      exact hnd.2.2 _ (List.mem_map_of_mem hp) _ (List.mem_map.mpr ⟨c, List.mem_cons_self, rfl⟩) he
    rw [ifold_cell h hE hc (pre.map ilrecon) hno]
    simp only [bind, Except.bind]
    have := ifold_cells rest (pre ++ [c]) (fun x hx => hmem x (List.mem_cons_of_mem _ hx))
      (by
        intro x hx
        rcases List.mem_append.mp hx with h1 | h1
        · exact hpre x h1
        · simp only [List.mem_singleton] at h1; rw [h1]; exact hc)
      (by simpa [List.append_assoc] using hnd)
    simp only [List.map_append, List.map_cons, List.map_nil, List.append_assoc, List.singleton_append] at this ⊢
    exact this

end ilfold


section iltable2
variable {t : List Cell} {DK LK : List String} (h : WFlongIncr t DK LK)
include h

theorem lblock_one (E : Row → Row) {c : Cell} (hc : c ∈ t) : lblock t E c = c.values.map (irowOf t E c) := by
  unfold lblock
  rw [h.one c hc]
  simp [irowOf]

theorem toLongRows_incr :
    ∃ E : Row → Row, KeepsOthers E ∧ toLongRows t = .ok (mkTable (lrows t E)) := by
  unfold toLongRows
  have hblocks : t.mapM (fun c => cellLongRows c (allMetadataNames t)) = .ok (t.map (lblock t id)) := by
    apply mapM_ok_of_forall
    intro c hc
    exact cellLongRows_ok (h.cells c hc).1
  rw [hblocks]
  simp only [Except.bind]
  change ∃ E, KeepsOthers E ∧ (dropConstantScenario (lrows t id)).map mkTable = _
  have hex : ∃ r, r ∈ lrows t id := by
    obtain ⟨c, hc⟩ := List.exists_mem_of_ne_nil _ h.ne
    obtain ⟨hok, hne⟩ := h.cells c hc
    obtain ⟨kv, hkv⟩ := List.exists_mem_of_ne_nil _ hne
    exact ⟨_, mem_lrows.mpr ⟨c, hc, 0, hok.pos, kv, hkv, rfl⟩⟩
  unfold dropConstantScenario
  cases hrows : lrows t id with
  | nil => obtain ⟨r, hr⟩ := hex; rw [hrows] at hr; cases hr
  | cons r rest =>
    simp only
    rw [← hrows]
    by_cases hconst : scenarioConstant (lrows t id) r = true
    · rw [if_pos hconst]
      refine ⟨eraseScenario, keepsOthers_erase, ?_⟩
      simp only [Except.map]
      congr 2
      simp [lrows, List.map_flatten, List.map_map, Function.comp_def, lblock_map]
    · rw [if_neg hconst]
      exact ⟨id, keepsOthers_id, rfl⟩

theorem canonCell_ilrecon {c : Cell} (hc : c ∈ t) : canonCell (ilrecon c) = canonCell (mergeCell c) := by
  unfold canonCell
  simp only [ilrecon, ipartial, mergeCell, (h.inc c hc).1, ← h.prev hc]
  congr 2
  rw [List.map_map]
  apply List.map_congr_left
  intro kv hkv
  obtain ⟨data, hd, hlen⟩ := (h.cells c hc).1.vals kv hkv
  rw [h.one c hc] at hlen
  simp only [Function.comp]
  match data, hlen with
  | [q], _ =>
    have hq : qAt kv.2 0 = q := by simp [qAt, hd]
    rw [hq]
    have : numV kv.2 = NumV.scalar q := by
      cases hv : kv.2 with
      | none => rw [hv] at hd; simp [valData] at hd
      | int i => rw [hv] at hd; simp only [valData, Option.some.injEq, List.cons.injEq, and_true] at hd; rw [← hd]; rfl
      | flt q' => rw [hv] at hd; simp only [valData, Option.some.injEq, List.cons.injEq, and_true] at hd; rw [← hd]; rfl
      | arr a b d =>
        rw [hv] at hd
        simp only [valData] at hd
        split at hd
        · simp only [Option.some.injEq] at hd; subst hd; rfl
        · cases hd
    rw [this]
    rfl

/-- **fromLong_toLong, incremental triangles with scalar values**: one row per cell and field, and
the reader adds each row's field to the cell at the row's coordinates (previous evaluation date
included); loss details come back as details. -/
theorem fromLong_toLong_incremental :
    okAnd (fun out => longSpec t out && slicesSpec true t out)
      ((toLongRows t).bind fun tb => fromLongRows tb []) = true := by
  obtain ⟨E, hE, hw⟩ := toLongRows_incr h
  rw [hw]
  simp only [Except.bind]
  have hprev : (mkTable (lrows t E)).cols.contains "prev_evaluation_date" = true := by
    obtain ⟨c, hc⟩ := List.exists_mem_of_ne_nil _ h.ne
    obtain ⟨hok, hne⟩ := h.cells c hc
    obtain ⟨kv, hkv⟩ := List.exists_mem_of_ne_nil _ hne
    apply List.contains_iff_mem.mpr
    refine mem_colsOf.mpr ⟨_, mem_lrows.mpr ⟨c, hc, 0, hok.pos, kv, hkv, rfl⟩, ?_⟩
    have := ilget_coord h hc hE 0 (kv.1, qAt kv.2 0) (k := "prev_evaluation_date") (by simp)
    have hb : Dict.get? (incBase c (prevOf c)) "prev_evaluation_date" = some (.date (prevOf c)) := by
      simp [incBase, Dict.get?]
    rw [hb] at this
    exact mem_keys_of_get? this
  unfold fromLongRows
  rw [if_pos hprev]
  unfold fromLongIncr
  have hrows : (mkTable (lrows t E)).rows = (t.map fun c => c.values.map (irowOf t E c)).flatten := by
    show lrows t E = _
    unfold lrows
    congr 1
    apply List.map_congr_left
    intro c hc
    exact lblock_one h E hc
  show okAnd _ (((mkTable (lrows t E)).rows.foldlM (longIncrStep (ldetailCols t E) []) []).bind Triangle.ofCells) = true
  rw [hrows]
  have hfold := ifold_cells h hE t [] (fun c hc => hc) (by intro c hc; cases hc) (by simpa using h.inj)
  simp only [List.map_nil, List.nil_append] at hfold
  rw [hfold]
  simp only [Except.bind]
  have hk : kindsConsistent (t.map ilrecon) = true := by
    unfold kindsConsistent
    simp [ilrecon, ipartial]
  unfold Triangle.ofCells
  rw [if_pos hk]
  have hr1 : (t.map ilrecon).mergeSort Cell.le =
      (t.mergeSort fun a b => Cell.le (mergeCell a) (mergeCell b)).map ilrecon := by
    symm
    apply List.map_mergeSort
    intro a ha b hb
    simp only [Cell.le, Cell.cmp, compareLex, cmpOn, ilrecon, ipartial, mergeCell, ← h.prev ha, ← h.prev hb]
  have hr2 : (t.map fun c => { c with md := mergeLossDetails c.md }).mergeSort Cell.le =
      (t.mergeSort fun a b => Cell.le (mergeCell a) (mergeCell b)).map mergeCell := by
    symm
    apply List.map_mergeSort
    intro a _ b _
    rfl
  have hperm : (t.mergeSort fun a b => Cell.le (mergeCell a) (mergeCell b)).Perm t := List.mergeSort_perm _ _
  have hcanon : ((t.mergeSort fun a b => Cell.le (mergeCell a) (mergeCell b)).map ilrecon).map canonCell =
      ((t.mergeSort fun a b => Cell.le (mergeCell a) (mergeCell b)).map mergeCell).map canonCell := by
    rw [List.map_map, List.map_map]
    apply List.map_congr_left
    intro c hc
    exact canonCell_ilrecon h (hperm.mem_iff.mp hc)
  simp only [okAnd, longSpec, sameNumeric, hr1, hr2, hcanon, beq_self_eq_true, Bool.true_and]
  unfold slicesSpec
  simp only [if_true]
  have hmds : ((t.mergeSort fun a b => Cell.le (mergeCell a) (mergeCell b)).map ilrecon).map (·.md) =
      (t.mergeSort fun a b => Cell.le (mergeCell a) (mergeCell b)).map fun c => mergeLossDetails c.md := by
    rw [List.map_map]; rfl
  rw [hmds]
  have hmem : ∀ m, m ∈ ((t.mergeSort fun a b => Cell.le (mergeCell a) (mergeCell b)).map
      fun c => mergeLossDetails c.md).eraseDups ↔ m ∈ (t.map fun c => mergeLossDetails c.md).eraseDups := by
    intro m
    rw [List.mem_eraseDups, List.mem_eraseDups]
    exact (hperm.map _).mem_iff
  have hlen : ((t.map fun c => mergeLossDetails c.md).eraseDups).length =
      (((t.mergeSort fun a b => Cell.le (mergeCell a) (mergeCell b)).map
        fun c => mergeLossDetails c.md).eraseDups).length := by
    apply List.Perm.length_eq
    rw [List.perm_ext_iff_of_nodup (nodup_eraseDups' _) (nodup_eraseDups' _)]
    intro m; exact (hmem m).symm
  simp only [Bool.and_eq_true, beq_iff_eq, List.all_eq_true, List.contains_iff_mem]
  exact ⟨⟨hlen, fun m hm => (hmem m).mpr hm⟩, fun m hm => (hmem m).mp hm⟩

end iltable2

end Bermuda.Frame
