/-
C14, Matrix form: a cumulative month-aligned triangle on the grid of a `MatrixIndex` goes into the
matrix (`toMatrixWith`) and comes back (`fromMatrix`) as the same cells, numbers as floats
(`fromMatrix_toMatrixWith`). Positions (slice, period, development) are injective on a strictly
sorted triangle, so every matrix entry is found again; `matrix_to_triangle` spaces the development
axis by `min(exp, dev)` like `MatrixIndex._resolve_dev_ndx` (D10). The inference of the two
resolutions (gcd of differences) is NOT part of the theorem: the index is a parameter and the
triangle is assumed to lie on its grid (that the inferred index does put a contiguous triangle on
its grid is `matrixIndex_onGrid`, Lemmas/FrameMatrixIndex.lean).
-/
import Bermuda.Lemmas.FrameArray
namespace Bermuda.Frame
open Bermuda Bermuda.Spec.C14 Std

/-! ### a triangle on the grid of a matrix index -/

structure GridCell (c : Cell) (ix : MatrixIndex) : Prop where
  notInc : c.kind ≠ .incremental
  prev : c.prev = none
  dates : c.datesOk = true
  canon : c.md.Canon
  psv : c.ps.valid = true
  ps1 : c.ps.d = 1
  pev : c.pe.valid = true
  pee : c.pe.isMonthEnd = true
  evv : c.ev.valid = true
  eve : c.ev.isMonthEnd = true
  j : ∃ j : Nat, monthToId c.ps = ix.expOrigin + (j : Int) * ix.expResolution
  pe : monthToId c.pe = monthToId c.ps + ix.expResolution - 1
  k : ∃ k : Nat, lagOf c = ix.devOrigin + (k : Int) * devSpacing ix
  vals : ∀ kv ∈ c.values, (scalarNum? kv.2).isSome = true
  nodup : (Dict.keys c.values).Nodup
  vne : c.values ≠ []

/-- a month-aligned cumulative triangle whose periods and development lags lie on the grid of the
index `ix` (period starts every `expResolution` months from the origin, lags every
`min(expResolution, devResolution)` months from the smallest) -/
structure OnGrid (t : List Cell) (ix : MatrixIndex) : Prop where
  ne : t ≠ []
  sorted : t.Pairwise (fun a b => Cell.cmp a b = .lt)
  kinds : kindsConsistent t = true
  slices : ix.slices = Triangle.metadata t
  fields : ix.fields = sortStrings (allFields t)
  e1 : 1 ≤ ix.expResolution
  s1 : 1 ≤ devSpacing ix
  cell : ∀ c ∈ t, GridCell c ix

def jOf (ix : MatrixIndex) (c : Cell) : Nat := ((monthToId c.ps - ix.expOrigin) / ix.expResolution).toNat
def kOf (ix : MatrixIndex) (c : Cell) : Nat := ((lagOf c - ix.devOrigin) / devSpacing ix).toNat

section grid
variable {t : List Cell} {ix : MatrixIndex} (h : OnGrid t ix)
include h

theorem grid_j {c : Cell} (hc : c ∈ t) : monthToId c.ps = ix.expOrigin + (jOf ix c : Int) * ix.expResolution := by
  obtain ⟨j, hj⟩ := (h.cell c hc).j
  have he : ix.expResolution ≠ 0 := by have := h.e1; omega
  have : (monthToId c.ps - ix.expOrigin) / ix.expResolution = j := by
    rw [hj, show ix.expOrigin + (j : Int) * ix.expResolution - ix.expOrigin = (j : Int) * ix.expResolution by omega,
      Int.mul_ediv_cancel _ he]
  unfold jOf
  rw [this, hj]
  simp

theorem grid_k {c : Cell} (hc : c ∈ t) : lagOf c = ix.devOrigin + (kOf ix c : Int) * devSpacing ix := by
  obtain ⟨k, hk⟩ := (h.cell c hc).k
  have hs : devSpacing ix ≠ 0 := by have := h.s1; omega
  have : (lagOf c - ix.devOrigin) / devSpacing ix = k := by
    rw [hk, show ix.devOrigin + (k : Int) * devSpacing ix - ix.devOrigin = (k : Int) * devSpacing ix by omega,
      Int.mul_ediv_cancel _ hs]
  unfold kOf
  rw [this, hk]
  simp

theorem expNdx_cell {c : Cell} (hc : c ∈ t) : ix.expNdx c.ps = .ok (jOf ix c) := by
  have he : ix.expResolution ≠ 0 := by have := h.e1; omega
  unfold MatrixIndex.expNdx
  have hn : (monthToId c.ps - ix.expOrigin) / ix.expResolution = (jOf ix c : Int) := by
    rw [grid_j h hc, show ix.expOrigin + (jOf ix c : Int) * ix.expResolution - ix.expOrigin =
      (jOf ix c : Int) * ix.expResolution by omega, Int.mul_ediv_cancel _ he]
  simp only [hn]
  have : ¬ ((jOf ix c : Int) < 0) := by omega
  rw [if_neg this]
  simp

theorem devLag_cell {c : Cell} (hc : c ∈ t) : c.devLag .month = ((lagOf c : Int) : Rat) := by
  unfold Cell.devLag calculateDevLag
  simp only
  rw [devLag_monthEnds (h.cell c hc).pee (h.cell c hc).eve]
  rfl

theorem devNdx_lag {c : Cell} (hc : c ∈ t) : ix.devNdx ((lagOf c : Int) : Rat) = .ok (kOf ix c) := by
  have hs : (devSpacing ix : Rat) ≠ 0 := by
    have := h.s1
    have : devSpacing ix ≠ 0 := by omega
    exact_mod_cast this
  unfold MatrixIndex.devNdx
  have hmin : (min ix.devResolution ix.expResolution : Int) = devSpacing ix := by
    unfold devSpacing; exact min_comm _ _
  have hq : (((lagOf c : Int) : Rat) - (ix.devOrigin : Rat)) / ((min ix.devResolution ix.expResolution : Int) : Rat) =
      ((kOf ix c : Int) : Rat) := by
    rw [hmin, grid_k h hc]
    push_cast
    field_simp
    ring
  simp only [hq, truncInt_intCast]
  have : ¬ ((kOf ix c : Int) < 0) := by omega
  rw [if_neg this]
  simp

end grid


/-! ### generic facts: maxima, indices in duplicate-free lists -/

theorem foldl_max_spec : ∀ (l : List Rat) (init : Rat),
    (l.foldl (fun m x => if m < x then x else m) init = init ∨
      l.foldl (fun m x => if m < x then x else m) init ∈ l) ∧
    init ≤ l.foldl (fun m x => if m < x then x else m) init ∧
    ∀ x ∈ l, x ≤ l.foldl (fun m x => if m < x then x else m) init
  | [], init => by simp
  | a :: rest, init => by
    rw [List.foldl_cons]
    have ih := foldl_max_spec rest (if init < a then a else init)
    obtain ⟨h1, h2, h3⟩ := ih
    by_cases hlt : init < a
    · simp only [hlt, if_true] at h1 h2 h3 ⊢
      refine ⟨?_, _root_.le_trans (_root_.le_of_lt hlt) h2, ?_⟩
      · rcases h1 with h1 | h1
        · right; rw [h1]; exact List.mem_cons_self
        · right; exact List.mem_cons_of_mem _ h1
      · intro x hx
        rcases List.mem_cons.mp hx with rfl | hx
        · exact h2
        · exact h3 x hx
    · simp only [hlt, if_false] at h1 h2 h3 ⊢
      refine ⟨?_, h2, ?_⟩
      · rcases h1 with h1 | h1
        · left; exact h1
        · right; exact List.mem_cons_of_mem _ h1
      · intro x hx
        rcases List.mem_cons.mp hx with rfl | hx
        · exact _root_.le_trans (_root_.not_lt.mp hlt) h2
        · exact h3 x hx

theorem maxLagOf_spec (t : List Cell) (hne : t ≠ []) :
    (∃ c ∈ t, maxLagOf t = c.devLag .month) ∧ ∀ c ∈ t, c.devLag .month ≤ maxLagOf t := by
  unfold maxLagOf
  cases t with
  | nil => exact absurd rfl hne
  | cons c0 rest =>
    simp only [List.map_cons, List.headD_cons]
    obtain ⟨h1, h2, h3⟩ := foldl_max_spec (c0.devLag .month :: rest.map fun c => c.devLag .month) (c0.devLag .month)
    constructor
    · rcases h1 with h1 | h1
      · exact ⟨c0, List.mem_cons_self, h1⟩
      · rcases List.mem_cons.mp h1 with h1 | h1
        · exact ⟨c0, List.mem_cons_self, h1⟩
        · obtain ⟨c, hc, hcl⟩ := List.mem_map.mp h1
          exact ⟨c, List.mem_cons_of_mem _ hc, hcl.symm⟩
    · intro c hc
      rcases List.mem_cons.mp hc with rfl | hc
      · exact h3 _ List.mem_cons_self
      · exact h3 _ (List.mem_cons_of_mem _ (List.mem_map_of_mem hc))

theorem indexOf?_mem {α : Type} [BEq α] [LawfulBEq α] {l : List α} {a : α} (h : a ∈ l) :
    indexOf? l a = some (l.findIdx (· == a)) ∧ ∃ hlt : l.findIdx (· == a) < l.length,
      l[l.findIdx (· == a)] = a := by
  have hlt : l.findIdx (· == a) < l.length := List.findIdx_lt_length_of_exists ⟨a, h, by simp⟩
  refine ⟨by unfold indexOf?; simp [hlt], hlt, ?_⟩
  have := List.findIdx_getElem (p := (· == a)) (w := hlt)
  simpa using this

theorem findIdx_inj {α : Type} [BEq α] [LawfulBEq α] {l : List α} {a b : α} (ha : a ∈ l) (hb : b ∈ l)
    (he : l.findIdx (· == a) = l.findIdx (· == b)) : a = b := by
  obtain ⟨_, h1, e1⟩ := indexOf?_mem ha
  obtain ⟨_, h2, e2⟩ := indexOf?_mem hb
  rw [← e1, ← e2]
  simp only [he]

theorem pairwise_last {α : Type} {R : α → α → Prop} {l : List α} (hp : l.Pairwise R) {x last : α}
    (hl : l.getLast? = some last) (hx : x ∈ l) : x = last ∨ R x last := by
  obtain ⟨hne, rfl⟩ : ∃ hne : l ≠ [], l.getLast hne = last := by
    cases l with
    | nil => simp at hl
    | cons a t => exact ⟨by simp, by simpa [List.getLast?_eq_some_getLast] using hl⟩
  have hsplit := List.dropLast_concat_getLast hne
  rw [← hsplit] at hx hp
  rcases List.mem_append.mp hx with h1 | h1
  · right
    exact (List.pairwise_append.mp hp).2.2 x h1 _ (by simp)
  · left; simpa using h1

theorem monthToId_mono {a b : Date} (ha : a.valid = true) (hb : b.valid = true)
    (h : Date.cmp a b ≠ .gt) : monthToId a ≤ monthToId b := by
  obtain ⟨a1, a2, _, _⟩ := (valid_iff a).mp ha
  obtain ⟨b1, b2, _, _⟩ := (valid_iff b).mp hb
  unfold Date.cmp at h
  simp only [compareLex, cmpOn] at h
  unfold monthToId
  by_cases hy : a.y < b.y
  · omega
  · by_cases hy2 : a.y = b.y
    · have : compare a.y b.y = .eq := by rw [hy2]; exact Std.compare_eq_iff_eq.mpr rfl
      rw [this] at h
      by_cases hm : a.m ≤ b.m
      · omega
      · exfalso
        have : compare a.m b.m = .gt := by
          rw [Nat.compare_eq_gt]; omega
        rw [this] at h
        simp at h
    · exfalso
      have : compare a.y b.y = .gt := by
        rw [Int.compare_eq_gt]; omega
      rw [this] at h
      simp at h


/-! ### the matrix written for a triangle on the grid -/

def siOf (ix : MatrixIndex) (c : Cell) : Nat := ix.slices.findIdx (· == c.md)
def fiOf (ix : MatrixIndex) (f : String) : Nat := ix.fields.findIdx (· == f)
def qOf (v : Val) : Rat := (scalarNum? v).getD 0

def gridEntries (ix : MatrixIndex) (c : Cell) : List ((Nat × Nat × Nat × Nat) × Rat) :=
  c.values.map fun kv => ((siOf ix c, fiOf ix kv.1, jOf ix c, kOf ix c), qOf kv.2)

section grid2
variable {t : List Cell} {ix : MatrixIndex} (h : OnGrid t ix)
include h

theorem md_mem_slices {c : Cell} (hc : c ∈ t) : c.md ∈ ix.slices := by
  rw [h.slices]
  unfold Triangle.metadata
  exact (List.mergeSort_perm _ _).mem_iff.mpr (Units.mem_metasOf.mpr ⟨c, hc, rfl⟩)

theorem field_mem_fields {c : Cell} (hc : c ∈ t) {kv : String × Val} (hkv : kv ∈ c.values) :
    kv.1 ∈ ix.fields := by
  rw [h.fields]
  unfold sortStrings
  exact (List.mergeSort_perm _ _).mem_iff.mpr (mem_allFields.mpr ⟨c, hc, List.mem_map_of_mem hkv⟩)

theorem cellEntries_grid {c : Cell} (hc : c ∈ t) : cellEntries ix c = .ok (gridEntries ix c) := by
  unfold cellEntries
  rw [(indexOf?_mem (md_mem_slices h hc)).1]
  simp only
  rw [expNdx_cell h hc, devLag_cell h hc, devNdx_lag h hc]
  simp only [Except.bind]
  unfold gridEntries
  apply mapM_ok_of_forall
  intro kv hkv
  unfold cellEntry
  rw [(indexOf?_mem (field_mem_fields h hc hkv)).1]
  simp only
  obtain ⟨q, hq⟩ := Option.isSome_iff_exists.mp ((h.cell c hc).vals kv hkv)
  simp [hq, siOf, fiOf, qOf]

/-- cells of the triangle at the same (slice, period, development) position coincide -/
theorem position_inj {a b : Cell} (ha : a ∈ t) (hb : b ∈ t) (hs : siOf ix a = siOf ix b)
    (hj : jOf ix a = jOf ix b) (hk : kOf ix a = kOf ix b) : a = b := by
  have ga := h.cell a ha
  have gb := h.cell b hb
  have hmd : a.md = b.md := findIdx_inj (md_mem_slices h ha) (md_mem_slices h hb) hs
  have hpsid : monthToId a.ps = monthToId b.ps := by rw [grid_j h ha, grid_j h hb, hj]
  have firstEq : ∀ d : Date, d.valid = true → d.d = 1 → d = ⟨yearOf (monthToId d), monthOf (monthToId d), 1⟩ := by
    intro d hv hd
    rw [yearOf_monthToId hv, monthOf_monthToId hv, ← hd]
  have hps : a.ps = b.ps := by
    rw [firstEq a.ps ga.psv ga.ps1, firstEq b.ps gb.psv gb.ps1, hpsid]
  have hpeid : monthToId a.pe = monthToId b.pe := by rw [ga.pe, gb.pe, hpsid]
  have hpe : a.pe = b.pe := by
    rw [← monthEndOf_monthToId ga.pev ga.pee, ← monthEndOf_monthToId gb.pev gb.pee, hpeid]
  have hlag : lagOf a = lagOf b := by rw [grid_k h ha, grid_k h hb, hk]
  have hevid : monthToId a.ev = monthToId b.ev := by unfold lagOf at hlag; omega
  have hev : a.ev = b.ev := by
    rw [← monthEndOf_monthToId ga.evv ga.eve, ← monthEndOf_monthToId gb.evv gb.eve, hevid]
  have hcmp : Cell.cmp a b = .eq := by
    rw [Cell.cmp_eq_eq ga.canon gb.canon]
    simp [Cell.coord, hps, hpe, hev, hmd, ga.prev, gb.prev]
  apply Classical.byContradiction
  intro hne
  obtain ⟨i, hi, rfl⟩ := List.getElem_of_mem ha
  obtain ⟨j, hj', rfl⟩ := List.getElem_of_mem hb
  have hij : i ≠ j := fun he => hne (by subst he; rfl)
  rcases Nat.lt_or_gt_of_ne hij with hlt | hgt
  · have := List.pairwise_iff_getElem.mp h.sorted i j hi hj' hlt
    rw [hcmp] at this; cases this
  · have := List.pairwise_iff_getElem.mp h.sorted j i hj' hi hgt
    rw [OrientedCmp.eq_swap (cmp := Cell.cmp), hcmp] at this
    cases this

theorem lastPeriod_spec :
    ∃ cl ∈ t, lastPeriodStart t = cl.ps ∧ ∀ c ∈ t, jOf ix c ≤ jOf ix cl := by
  unfold lastPeriodStart
  have hper : periodsOf t ≠ [] := by
    obtain ⟨c, hc⟩ := List.exists_mem_of_ne_nil _ h.ne
    intro he
    have : (c.ps, c.pe) ∈ periodsOf t := by
      unfold periodsOf
      rw [(List.mergeSort_perm _ _).mem_iff, List.mem_eraseDups]
      exact List.mem_map_of_mem hc
    rw [he] at this; cases this
  obtain ⟨pl, hpl⟩ : ∃ pl, (periodsOf t).getLast? = some pl := by
    cases hg : (periodsOf t).getLast? with
    | none => exact absurd (List.getLast?_eq_none_iff.mp hg) hper
    | some pl => exact ⟨pl, rfl⟩
  have hplm : pl ∈ periodsOf t := List.mem_of_getLast? hpl
  have hmem : ∀ p, p ∈ periodsOf t ↔ ∃ c ∈ t, (c.ps, c.pe) = p := by
    intro p
    unfold periodsOf
    rw [(List.mergeSort_perm _ _).mem_iff, List.mem_eraseDups, List.mem_map]
  obtain ⟨cl, hcl, hclp⟩ := (hmem pl).mp hplm
  refine ⟨cl, hcl, by rw [hpl]; simp [← hclp], ?_⟩
  intro c hc
  have hcp : (c.ps, c.pe) ∈ periodsOf t := (hmem _).mpr ⟨c, hc, rfl⟩
  have hsorted : (periodsOf t).Pairwise (fun a b =>
      leOf (compareLex (cmpOn (fun p : Date × Date => p.1) Date.cmp) (cmpOn (fun p : Date × Date => p.2) Date.cmp)) a b = true) := by
    unfold periodsOf
    exact sorted_mergeSort _
  have hle : Date.cmp c.ps cl.ps ≠ .gt := by
    rcases pairwise_last hsorted hpl hcp with he | hR
    · rw [← hclp] at he
      have : c.ps = cl.ps := (Prod.ext_iff.mp he).1
      rw [this, ReflCmp.compare_self (cmp := Date.cmp)]; simp
    · rw [← hclp] at hR
      unfold leOf at hR
      simp only [compareLex, cmpOn] at hR
      intro hgt
      rw [hgt] at hR
      simp at hR
  have hid := monthToId_mono (h.cell c hc).psv (h.cell cl hcl).psv hle
  rw [grid_j h hc, grid_j h hcl] at hid
  have he := h.e1
  have : (jOf ix c : Int) * ix.expResolution ≤ (jOf ix cl : Int) * ix.expResolution := by omega
  have := Int.le_of_mul_le_mul_right this (by omega)
  omega

theorem maxLag_spec :
    ∃ cm ∈ t, maxLagOf t = ((lagOf cm : Int) : Rat) ∧ ∀ c ∈ t, kOf ix c ≤ kOf ix cm := by
  obtain ⟨⟨cm, hcm, hmax⟩, hall⟩ := maxLagOf_spec t h.ne
  refine ⟨cm, hcm, by rw [hmax, devLag_cell h hcm], ?_⟩
  intro c hc
  have := hall c hc
  rw [hmax, devLag_cell h hc, devLag_cell h hcm] at this
  have hl : lagOf c ≤ lagOf cm := by exact_mod_cast this
  rw [grid_k h hc, grid_k h hcm] at hl
  have hs := h.s1
  have : (kOf ix c : Int) * devSpacing ix ≤ (kOf ix cm : Int) * devSpacing ix := by omega
  have := Int.le_of_mul_le_mul_right this (by omega)
  omega

end grid2


def gridMatrix (ix : MatrixIndex) (t : List Cell) (jmax kmax : Nat) : Matrix :=
  { index := ix, nPeriods := jmax + 1, nDevs := kmax + 1, entries := (t.map (gridEntries ix)).flatten,
    incremental := false }

section grid3
variable {t : List Cell} {ix : MatrixIndex} (h : OnGrid t ix)
include h

theorem not_incremental : firstIsIncremental t = false := by
  cases ht : t with
  | nil => rfl
  | cons c rest =>
    have := (h.cell c (by rw [ht]; exact List.mem_cons_self)).notInc
    simp only [firstIsIncremental]
    cases hk : c.kind <;> simp_all

theorem toMatrixWith_grid :
    ∃ jmax kmax, toMatrixWith ix t = .ok (gridMatrix ix t jmax kmax) ∧
      (∀ c ∈ t, jOf ix c ≤ jmax) ∧ (∀ c ∈ t, kOf ix c ≤ kmax) := by
  obtain ⟨cl, hcl, hlast, hjmax⟩ := lastPeriod_spec h
  obtain ⟨cm, hcm, hmaxl, hkmax⟩ := maxLag_spec h
  refine ⟨jOf ix cl, kOf ix cm, ?_, hjmax, hkmax⟩
  unfold toMatrixWith
  rw [hlast, expNdx_cell h hcl, hmaxl, devNdx_lag h hcm]
  simp only [Except.bind]
  rw [mapM_ok_of_forall (cellEntries ix) (gridEntries ix) t (fun c hc => cellEntries_grid h hc)]
  simp only
  have hb : ((t.map (gridEntries ix)).flatten.any
      (fun e => decide (e.1.2.2.1 > jOf ix cl) || decide (e.1.2.2.2 > kOf ix cm))) = false := by
    rw [List.any_eq_false]
    intro e he
    obtain ⟨l, hl, hel⟩ := List.mem_flatten.mp he
    obtain ⟨c, hc, rfl⟩ := List.mem_map.mp hl
    obtain ⟨kv, _, rfl⟩ := List.mem_map.mp hel
    have h1 := hjmax c hc
    have h2 := hkmax c hc
    simp only [Bool.or_eq_true, decide_eq_true_eq, not_or, Nat.not_lt, gt_iff_lt]
    omega
  rw [hb, not_incremental h]
  rfl

/-- the entry of field `kv` of cell `c` is the only one at its position -/
theorem get?_grid (jmax kmax : Nat) {c : Cell} (hc : c ∈ t) (f : String) (hf : f ∈ ix.fields) :
    (gridMatrix ix t jmax kmax).get? (siOf ix c, fiOf ix f, jOf ix c, kOf ix c) =
      (Dict.get? c.values f).bind scalarNum? := by
  unfold Matrix.get? gridMatrix
  simp only
  -- every entry at this position comes from cell `c` and field `f`
  have hpos : ∀ e ∈ (t.map (gridEntries ix)).flatten, e.1 = (siOf ix c, fiOf ix f, jOf ix c, kOf ix c) →
      ∃ v, (f, v) ∈ c.values ∧ e.2 = qOf v := by
    intro e he hep
    obtain ⟨l, hl, hel⟩ := List.mem_flatten.mp he
    obtain ⟨c', hc', rfl⟩ := List.mem_map.mp hl
    obtain ⟨kv, hkv, rfl⟩ := List.mem_map.mp hel
    simp only [Prod.mk.injEq] at hep
    obtain ⟨h1, h2, h3, h4⟩ := hep
    have hcc : c' = c := position_inj h hc' hc h1 h3 h4
    subst hcc
    have hff : kv.1 = f := findIdx_inj (field_mem_fields h hc' hkv) hf h2
    exact ⟨kv.2, by rw [← hff]; exact hkv, rfl⟩
  cases hg : Dict.get? c.values f with
  | none =>
    simp only [Option.bind_none]
    cases hfind : (t.map (gridEntries ix)).flatten.reverse.find? (·.1 == (siOf ix c, fiOf ix f, jOf ix c, kOf ix c)) with
    | none => rfl
    | some e =>
      exfalso
      have hm := List.mem_reverse.mp (List.mem_of_find?_eq_some hfind)
      have hk : e.1 = (siOf ix c, fiOf ix f, jOf ix c, kOf ix c) := by simpa using List.find?_some hfind
      obtain ⟨v, hv, _⟩ := hpos e hm hk
      exact (Dict.get?_eq_none_iff.mp hg) (List.mem_map_of_mem hv)
  | some v =>
    have hvm : (f, v) ∈ c.values := get?_mem hg
    obtain ⟨q, hq⟩ := Option.isSome_iff_exists.mp ((h.cell c hc).vals (f, v) hvm)
    simp only [Option.bind_some, hq]
    have hmem : ((siOf ix c, fiOf ix f, jOf ix c, kOf ix c), q) ∈ (t.map (gridEntries ix)).flatten.reverse := by
      rw [List.mem_reverse]
      refine List.mem_flatten.mpr ⟨_, List.mem_map_of_mem hc, List.mem_map.mpr ⟨(f, v), hvm, ?_⟩⟩
      simp [qOf, hq]
    cases hfind : (t.map (gridEntries ix)).flatten.reverse.find? (·.1 == (siOf ix c, fiOf ix f, jOf ix c, kOf ix c)) with
    | none =>
      exfalso
      have := List.find?_eq_none.mp hfind _ hmem
      simp at this
    | some e =>
      have hm := List.mem_reverse.mp (List.mem_of_find?_eq_some hfind)
      have hk : e.1 = (siOf ix c, fiOf ix f, jOf ix c, kOf ix c) := by simpa using List.find?_some hfind
      obtain ⟨v', hv', he2⟩ := hpos e hm hk
      have hvv : v' = v := by
        have h1 := get?_of_mem_nodup (h.cell c hc).nodup hv'
        simp only at h1
        rw [hg] at h1
        exact (Option.some.inj h1).symm
      simp [he2, hvv, qOf, hq]

end grid3


/-! ### reading the matrix back -/

theorem mem_zip_range {α : Type} (l : List α) (a : Nat) (b : α) :
    (a, b) ∈ List.zip (List.range l.length) l ↔ l[a]? = some b := by
  rw [List.mem_iff_getElem]
  constructor
  · rintro ⟨i, hi, he⟩
    simp only [List.length_zip, List.length_range, Nat.min_self] at hi
    rw [List.getElem_zip] at he
    simp only [List.getElem_range, Prod.mk.injEq] at he
    obtain ⟨rfl, rfl⟩ := he
    exact List.getElem?_eq_getElem hi
  · intro hb
    have hlt : a < l.length := by
      apply Classical.byContradiction
      intro hn
      rw [List.getElem?_eq_none (by omega)] at hb
      cases hb
    refine ⟨a, by simp [hlt], ?_⟩
    rw [List.getElem_zip]
    simp only [List.getElem_range, Prod.mk.injEq, true_and]
    rw [List.getElem?_eq_getElem hlt] at hb
    exact Option.some.inj hb

section grid4
variable {t : List Cell} {ix : MatrixIndex} (h : OnGrid t ix) (jmax kmax : Nat)
include h

theorem fields_nodup : ix.fields.Nodup := by
  rw [h.fields]
  unfold sortStrings
  exact (List.mergeSort_perm _ _).nodup_iff.mpr (allFields_nodup t)

theorem slices_nodup : ix.slices.Nodup := by
  rw [h.slices]
  unfold Triangle.metadata
  exact (List.mergeSort_perm _ _).nodup_iff.mpr (Units.metasOf_nodup t)

theorem fiOf_getElem {fi : Nat} {f : String} (hf : ix.fields[fi]? = some f) : fiOf ix f = fi := by
  have hlt : fi < ix.fields.length := by
    apply Classical.byContradiction
    intro hn
    rw [List.getElem?_eq_none (by omega)] at hf
    cases hf
  rw [List.getElem?_eq_getElem hlt] at hf
  have hfe : ix.fields[fi] = f := Option.some.inj hf
  have hmem : f ∈ ix.fields := hfe ▸ List.getElem_mem hlt
  obtain ⟨_, hlt2, he⟩ := indexOf?_mem hmem
  unfold fiOf
  exact (List.Nodup.getElem_inj_iff (fields_nodup h)).mp (he.trans hfe.symm)

/-- the values found at the position of a cell: exactly the cell's fields, as floats -/
theorem mem_matrixValues_cell {c : Cell} (hc : c ∈ t) {p : String × Val} :
    p ∈ matrixValues (gridMatrix ix t jmax kmax) (siOf ix c) (jOf ix c) (kOf ix c) ↔
      ∃ v, (p.1, v) ∈ c.values ∧ p.2 = Val.flt (qOf v) := by
  unfold matrixValues
  rw [List.mem_filterMap]
  constructor
  · rintro ⟨⟨fi, f⟩, hz, hp⟩
    have hf : ix.fields[fi]? = some f := (mem_zip_range ix.fields fi f).mp hz
    have hfm : f ∈ ix.fields := List.mem_of_getElem? hf
    simp only [gridMatrix] at hp
    have hfi := fiOf_getElem h hf
    rw [← hfi] at hp
    have hget := get?_grid h jmax kmax hc f hfm
    simp only [gridMatrix] at hget
    rw [hget] at hp
    cases hg : Dict.get? c.values f with
    | none => simp [hg] at hp
    | some v =>
      have hvm := get?_mem hg
      obtain ⟨q, hq⟩ := Option.isSome_iff_exists.mp ((h.cell c hc).vals (f, v) hvm)
      simp only [hg, Option.bind_some, hq, Option.map_some, Option.some.injEq] at hp
      refine ⟨v, by rw [← hp]; exact hvm, by rw [← hp]; simp [qOf, hq]⟩
  · rintro ⟨v, hv, hp2⟩
    have hfm : p.1 ∈ ix.fields := field_mem_fields h hc (kv := (p.1, v)) hv
    obtain ⟨_, hlt, he⟩ := indexOf?_mem hfm
    have hz : (fiOf ix p.1, p.1) ∈ List.zip (List.range ix.fields.length) ix.fields := by
      apply (mem_zip_range _ _ _).mpr
      unfold fiOf; rw [List.getElem?_eq_getElem hlt, he]
    refine ⟨(fiOf ix p.1, p.1), hz, ?_⟩
    have hget := get?_grid h jmax kmax hc p.1 hfm
    rw [hget, get?_of_mem_nodup (h.cell c hc).nodup (p := (p.1, v)) hv]
    obtain ⟨q, hq⟩ := Option.isSome_iff_exists.mp ((h.cell c hc).vals (p.1, v) hv)
    simp only [Option.bind_some, hq, Option.map_some, Option.some.injEq]
    apply Prod.ext
    · rfl
    · rw [hp2]; simp [qOf, hq]

/-- a position holding a value is the position of a cell of the triangle -/
theorem matrixValues_ne_nil {i j k : Nat} (hne : matrixValues (gridMatrix ix t jmax kmax) i j k ≠ []) :
    ∃ c ∈ t, siOf ix c = i ∧ jOf ix c = j ∧ kOf ix c = k := by
  obtain ⟨p, hp⟩ := List.exists_mem_of_ne_nil _ hne
  unfold matrixValues at hp
  obtain ⟨⟨fi, f⟩, _, hq⟩ := List.mem_filterMap.mp hp
  cases hg : (gridMatrix ix t jmax kmax).get? (i, fi, j, k) with
  | none => simp [hg] at hq
  | some q =>
    unfold Matrix.get? at hg
    cases hfind : (gridMatrix ix t jmax kmax).entries.reverse.find? (·.1 == (i, fi, j, k)) with
    | none => simp [hfind] at hg
    | some e =>
      have hm := List.mem_reverse.mp (List.mem_of_find?_eq_some hfind)
      have hk : e.1 = (i, fi, j, k) := by simpa using List.find?_some hfind
      simp only [gridMatrix] at hm
      obtain ⟨l, hl, hel⟩ := List.mem_flatten.mp hm
      obtain ⟨c, hc, rfl⟩ := List.mem_map.mp hl
      obtain ⟨kv, _, rfl⟩ := List.mem_map.mp hel
      simp only [Prod.mk.injEq] at hk
      exact ⟨c, hc, hk.1, hk.2.2.1, hk.2.2.2⟩

end grid4


/-- what the matrix gives back for a cell -/
def mrecon (M : Matrix) (ix : MatrixIndex) (c : Cell) : Cell :=
  { kind := .cumulative, ps := c.ps, pe := c.pe, ev := c.ev, prev := none,
    values := matrixValues M (siOf ix c) (jOf ix c) (kOf ix c), md := c.md }

def triples (I J K : Nat) : List (Nat × Nat × Nat) :=
  (List.range I).flatMap fun i => (List.range J).flatMap fun j => (List.range K).map fun k => (i, j, k)

theorem mem_triples {I J K : Nat} {p : Nat × Nat × Nat} :
    p ∈ triples I J K ↔ p.1 < I ∧ p.2.1 < J ∧ p.2.2 < K := by
  unfold triples
  simp only [List.mem_flatMap, List.mem_map, List.mem_range]
  constructor
  · rintro ⟨i, hi, j, hj, k, hk, rfl⟩; exact ⟨hi, hj, hk⟩
  · rintro ⟨hi, hj, hk⟩; exact ⟨p.1, hi, p.2.1, hj, p.2.2, hk, rfl⟩

theorem triples_nodup (I J K : Nat) : (triples I J K).Nodup := by
  unfold triples
  rw [List.nodup_flatMap]
  constructor
  · intro i _
    rw [List.nodup_flatMap]
    constructor
    · intro j _
      exact List.Nodup.map_on (fun a _ b _ hab => by simpa using hab) List.nodup_range
    · refine (List.nodup_range (n := J)).imp ?_
      intro a b hab x hx hx'
      obtain ⟨k, _, rfl⟩ := List.mem_map.mp hx
      obtain ⟨k', _, he⟩ := List.mem_map.mp hx'
      simp only [Prod.mk.injEq] at he
      exact hab he.2.1.symm
  · refine (List.nodup_range (n := I)).imp ?_
    intro a b hab x hx hx'
    obtain ⟨j, _, hxj⟩ := List.mem_flatMap.mp hx
    obtain ⟨k, _, rfl⟩ := List.mem_map.mp hxj
    obtain ⟨j', _, hxj'⟩ := List.mem_flatMap.mp hx'
    obtain ⟨k', _, he⟩ := List.mem_map.mp hxj'
    simp only [Prod.mk.injEq] at he
    exact hab he.1.symm

theorem nested_eq_triples {β : Type} (g : Nat → Nat → Nat → β) (I J K : Nat) :
    (((List.range I).map fun i => (List.range J).map fun j => (List.range K).map fun k => g i j k).flatten.flatten) =
      (triples I J K).map fun p => g p.1 p.2.1 p.2.2 := by
  unfold triples
  rw [List.flatten_flatten, List.map_map]
  simp only [List.map_map, Function.comp_def, List.flatMap_def, List.map_flatten]

section grid5
variable {t : List Cell} {ix : MatrixIndex} (h : OnGrid t ix) (jmax kmax : Nat)
  (hj : ∀ c ∈ t, jOf ix c ≤ jmax) (hk : ∀ c ∈ t, kOf ix c ≤ kmax)
include h hj hk

theorem grid_dates {c : Cell} (hc : c ∈ t) :
    idToMonth (ix.expOrigin + (jOf ix c : Int) * ix.expResolution) = c.ps ∧
    idToMonth (ix.expOrigin + ((jOf ix c : Int) + 1) * ix.expResolution - 1) false = c.pe ∧
    addMonths c.pe (matrixLag ix (kOf ix c)) = c.ev := by
  have g := h.cell c hc
  refine ⟨?_, ?_, ?_⟩
  · rw [← grid_j h hc, idToMonth_true, yearOf_monthToId g.psv, monthOf_monthToId g.psv, ← g.ps1]
  · rw [idToMonth_false]
    have : ix.expOrigin + ((jOf ix c : Int) + 1) * ix.expResolution - 1 = monthToId c.pe := by
      rw [g.pe, grid_j h hc]; ring
    rw [this]
    exact monthEndOf_monthToId g.pev g.pee
  · unfold matrixLag
    rw [← grid_k h hc, addMonths_monthEnd_all c.pe (lagOf c) g.pee]
    unfold lagOf
    rw [show monthToId c.pe + (monthToId c.ev - monthToId c.pe) = monthToId c.ev by omega]
    exact monthEndOf_monthToId g.evv g.eve

theorem matrixCell_cell {c : Cell} (hc : c ∈ t) :
    matrixCell (gridMatrix ix t jmax kmax) (siOf ix c) (jOf ix c) (kOf ix c) =
      .ok (some (mrecon (gridMatrix ix t jmax kmax) ix c)) := by
  have g := h.cell c hc
  obtain ⟨d1, d2, d3⟩ := grid_dates h jmax kmax hj hk hc
  have hvne : (matrixValues (gridMatrix ix t jmax kmax) (siOf ix c) (jOf ix c) (kOf ix c)).isEmpty = false := by
    obtain ⟨kv, hkv⟩ := List.exists_mem_of_ne_nil _ g.vne
    have : (kv.1, Val.flt (qOf kv.2)) ∈ matrixValues (gridMatrix ix t jmax kmax) (siOf ix c) (jOf ix c) (kOf ix c) :=
      (mem_matrixValues_cell h jmax kmax hc).mpr ⟨kv.2, hkv, rfl⟩
    cases hm : matrixValues (gridMatrix ix t jmax kmax) (siOf ix c) (jOf ix c) (kOf ix c) with
    | nil => rw [hm] at this; cases this
    | cons a l => rfl
  have hmd : ix.slices[siOf ix c]?.getD {} = c.md := by
    obtain ⟨_, hlt, he⟩ := indexOf?_mem (md_mem_slices h hc)
    unfold siOf
    rw [List.getElem?_eq_getElem hlt, he]; rfl
  unfold matrixCell
  simp only [hvne, Bool.false_eq_true, if_false]
  have hinc : (gridMatrix ix t jmax kmax).incremental = false := rfl
  have hidx : (gridMatrix ix t jmax kmax).index = ix := rfl
  simp only [hinc, Bool.not_false, if_true, hidx, d1, d2, d3, hmd]
  have hd : (mrecon (gridMatrix ix t jmax kmax) ix c).datesOk = true := by
    have hdo := g.dates
    unfold Cell.datesOk at hdo ⊢
    simp only [mrecon]
    rw [g.prev] at hdo
    have := g.notInc
    cases hck : c.kind <;> simp_all
  show Except.map some (Cell.mk? (mrecon (gridMatrix ix t jmax kmax) ix c)) = _
  unfold Cell.mk?
  rw [if_pos hd]
  rfl

theorem matrixCell_pos (i j k : Nat) :
    ∃ o, matrixCell (gridMatrix ix t jmax kmax) i j k = .ok o ∧
      ∀ x, o = some x → ∃ c ∈ t, siOf ix c = i ∧ jOf ix c = j ∧ kOf ix c = k ∧
        x = mrecon (gridMatrix ix t jmax kmax) ix c := by
  by_cases hne : matrixValues (gridMatrix ix t jmax kmax) i j k = []
  · refine ⟨none, ?_, by intro x hx; cases hx⟩
    unfold matrixCell
    simp [hne]
  · obtain ⟨c, hc, rfl, rfl, rfl⟩ := matrixValues_ne_nil h jmax kmax hne
    refine ⟨_, matrixCell_cell h jmax kmax hj hk hc, ?_⟩
    intro x hx
    exact ⟨c, hc, rfl, rfl, rfl, (Option.some.inj hx).symm⟩

end grid5


section grid6
variable {t : List Cell} {ix : MatrixIndex} (h : OnGrid t ix) (jmax kmax : Nat)
  (hj : ∀ c ∈ t, jOf ix c ≤ jmax) (hk : ∀ c ∈ t, kOf ix c ≤ kmax)
include h hj hk

/-- the pure content of `matrixCell` on the written matrix -/
def cellAt (M : Matrix) (ix : MatrixIndex) (t : List Cell) (p : Nat × Nat × Nat) : Option Cell :=
  (t.find? fun c => siOf ix c == p.1 && jOf ix c == p.2.1 && kOf ix c == p.2.2).map (mrecon M ix)

theorem matrixCell_eq_cellAt (p : Nat × Nat × Nat) :
    matrixCell (gridMatrix ix t jmax kmax) p.1 p.2.1 p.2.2 =
      .ok (cellAt (gridMatrix ix t jmax kmax) ix t p) := by
  unfold cellAt
  cases hf : t.find? (fun c => siOf ix c == p.1 && jOf ix c == p.2.1 && kOf ix c == p.2.2) with
  | some c =>
    have hc := List.mem_of_find?_eq_some hf
    have hp := List.find?_some hf
    simp only [Bool.and_eq_true, beq_iff_eq] at hp
    obtain ⟨⟨h1, h2⟩, h3⟩ := hp
    rw [← h1, ← h2, ← h3]
    exact matrixCell_cell h jmax kmax hj hk hc
  | none =>
    obtain ⟨o, ho, hox⟩ := matrixCell_pos h jmax kmax hj hk p.1 p.2.1 p.2.2
    rw [ho]
    cases o with
    | none => rfl
    | some x =>
      exfalso
      obtain ⟨c, hc, h1, h2, h3, _⟩ := hox x rfl
      have := List.find?_eq_none.mp hf c hc
      simp [h1, h2, h3] at this

theorem fromMatrix_grid_cells :
    ((List.range ix.slices.length).mapM fun i =>
      (List.range (jmax + 1)).mapM fun j =>
        (List.range (kmax + 1)).mapM fun k => matrixCell (gridMatrix ix t jmax kmax) i j k) =
    .ok ((List.range ix.slices.length).map fun i => (List.range (jmax + 1)).map fun j =>
      (List.range (kmax + 1)).map fun k => cellAt (gridMatrix ix t jmax kmax) ix t (i, j, k)) := by
  apply mapM_ok_of_forall
  intro i _
  apply mapM_ok_of_forall
  intro j _
  apply mapM_ok_of_forall
  intro k _
  exact matrixCell_eq_cellAt h jmax kmax hj hk (i, j, k)

theorem mrecon_inj {a b : Cell} (ha : a ∈ t) (hb : b ∈ t)
    (he : mrecon (gridMatrix ix t jmax kmax) ix a = mrecon (gridMatrix ix t jmax kmax) ix b) : a = b := by
  have hps : a.ps = b.ps := by have := congrArg Cell.ps he; simpa [mrecon] using this
  have hpe : a.pe = b.pe := by have := congrArg Cell.pe he; simpa [mrecon] using this
  have hev : a.ev = b.ev := by have := congrArg Cell.ev he; simpa [mrecon] using this
  have hmd : a.md = b.md := by have := congrArg Cell.md he; simpa [mrecon] using this
  apply position_inj h ha hb
  · unfold siOf; rw [hmd]
  · unfold jOf; rw [hps]
  · unfold kOf lagOf; rw [hev, hpe]

def matrixCells (ix : MatrixIndex) (t : List Cell) (jmax kmax : Nat) : List Cell :=
  (triples ix.slices.length (jmax + 1) (kmax + 1)).filterMap (cellAt (gridMatrix ix t jmax kmax) ix t)

theorem mem_matrixCells {x : Cell} :
    x ∈ matrixCells ix t jmax kmax ↔ ∃ c ∈ t, x = mrecon (gridMatrix ix t jmax kmax) ix c := by
  unfold matrixCells
  rw [List.mem_filterMap]
  constructor
  · rintro ⟨p, _, hp⟩
    unfold cellAt at hp
    cases hf : t.find? (fun c => siOf ix c == p.1 && jOf ix c == p.2.1 && kOf ix c == p.2.2) with
    | none => simp [hf] at hp
    | some c =>
      simp only [hf, Option.map_some, Option.some.injEq] at hp
      exact ⟨c, List.mem_of_find?_eq_some hf, hp.symm⟩
  · rintro ⟨c, hc, rfl⟩
    refine ⟨(siOf ix c, jOf ix c, kOf ix c), mem_triples.mpr ⟨?_, ?_, ?_⟩, ?_⟩
    · exact (indexOf?_mem (md_mem_slices h hc)).2.1
    · have := hj c hc; simp only; omega
    · have := hk c hc; simp only; omega
    · unfold cellAt
      cases hf : t.find? (fun c' => siOf ix c' == (siOf ix c, jOf ix c, kOf ix c).1 &&
          jOf ix c' == (siOf ix c, jOf ix c, kOf ix c).2.1 && kOf ix c' == (siOf ix c, jOf ix c, kOf ix c).2.2) with
      | none =>
        have := List.find?_eq_none.mp hf c hc
        simp at this
      | some c' =>
        have hc' := List.mem_of_find?_eq_some hf
        have hp := List.find?_some hf
        simp only [Bool.and_eq_true, beq_iff_eq] at hp
        have : c' = c := position_inj h hc' hc hp.1.1 hp.1.2 hp.2
        rw [this]; rfl

theorem matrixCells_nodup : (matrixCells ix t jmax kmax).Nodup := by
  unfold matrixCells
  apply List.Nodup.filterMap _ (triples_nodup _ _ _)
  intro p p' x hx hx'
  have key : ∀ q : Nat × Nat × Nat, x ∈ cellAt (gridMatrix ix t jmax kmax) ix t q →
      ∃ c ∈ t, x = mrecon (gridMatrix ix t jmax kmax) ix c ∧ q = (siOf ix c, jOf ix c, kOf ix c) := by
    intro q hq
    unfold cellAt at hq
    cases hf : t.find? (fun c => siOf ix c == q.1 && jOf ix c == q.2.1 && kOf ix c == q.2.2) with
    | none => simp [hf] at hq
    | some c =>
      simp only [hf, Option.map_some, Option.mem_def, Option.some.injEq] at hq
      have hp := List.find?_some hf
      simp only [Bool.and_eq_true, beq_iff_eq] at hp
      exact ⟨c, List.mem_of_find?_eq_some hf, hq.symm, by rw [hp.1.1, hp.1.2, hp.2]⟩
  obtain ⟨c, hc, rfl, rfl⟩ := key p hx
  obtain ⟨c', hc', he, rfl⟩ := key p' hx'
  rw [mrecon_inj h jmax kmax hj hk hc hc' he]

end grid6


section grid7
variable {t : List Cell} {ix : MatrixIndex} (h : OnGrid t ix)
include h

theorem cmp_mrecon (M : Matrix) {a b : Cell} (ha : a ∈ t) (hb : b ∈ t) :
    Cell.cmp (mrecon M ix a) (mrecon M ix b) = Cell.cmp a b := by
  simp only [Cell.cmp, compareLex, cmpOn, mrecon, (h.cell a ha).prev, (h.cell b hb).prev]

theorem canonCell_mrecon (jmax kmax : Nat) {c : Cell} (hc : c ∈ t) :
    canonCell (mrecon (gridMatrix ix t jmax kmax) ix c) = canonCell c := by
  have g := h.cell c hc
  have hkind : typedKind CellKind.cumulative = typedKind c.kind := by
    have := g.notInc
    cases hck : c.kind <;> simp_all [typedKind]
  unfold canonCell
  simp only [mrecon, g.prev, hkind]
  congr 1
  -- the values: same fields, same numbers, any order
  have hperm : ((matrixValues (gridMatrix ix t jmax kmax) (siOf ix c) (jOf ix c) (kOf ix c)).map
      fun kv => (kv.1, numV kv.2)).Perm (c.values.map fun kv => (kv.1, numV kv.2)) := by
    have hkeys : ((matrixValues (gridMatrix ix t jmax kmax) (siOf ix c) (jOf ix c) (kOf ix c)).map (·.1)).Sublist ix.fields := by
      unfold matrixValues
      generalize (gridMatrix ix t jmax kmax).get? = G
      have : ∀ (l : List String) (s : Nat),
          (((List.zip (List.range' s l.length) l).filterMap fun p =>
            (G (siOf ix c, p.1, jOf ix c, kOf ix c)).map fun q => (p.2, Val.flt q)).map (·.1)).Sublist l := by
        intro l
        induction l with
        | nil => intro s; simp
        | cons a l ih =>
          intro s
          simp only [List.length_cons, List.range'_succ, List.zip_cons_cons, List.filterMap_cons]
          cases hG : G (siOf ix c, s, jOf ix c, kOf ix c) with
          | none => simp only [Option.map_none]; exact List.Sublist.cons _ (ih (s + 1))
          | some q => simp only [Option.map_some, List.map_cons]; exact List.Sublist.cons_cons _ (ih (s + 1))
      have h0 := this ix.fields 0
      rw [← List.range_eq_range'] at h0
      exact h0
    have hnd1 : ((matrixValues (gridMatrix ix t jmax kmax) (siOf ix c) (jOf ix c) (kOf ix c)).map
        fun kv => (kv.1, numV kv.2)).Nodup := by
      apply List.Nodup.of_map (fun p : String × NumV => p.1)
      rw [List.map_map]
      exact List.Nodup.sublist hkeys (fields_nodup h)
    have hnd2 : (c.values.map fun kv => (kv.1, numV kv.2)).Nodup := by
      apply List.Nodup.of_map (fun p : String × NumV => p.1)
      rw [List.map_map]
      exact g.nodup
    rw [List.perm_ext_iff_of_nodup hnd1 hnd2]
    intro p
    simp only [List.mem_map]
    constructor
    · rintro ⟨kv, hkv, rfl⟩
      obtain ⟨v, hv, hv2⟩ := (mem_matrixValues_cell h jmax kmax hc).mp hkv
      refine ⟨(kv.1, v), hv, ?_⟩
      obtain ⟨q, hq⟩ := Option.isSome_iff_exists.mp (g.vals (kv.1, v) hv)
      simp only [hv2, qOf, hq, Option.getD_some]
      have : numV v = numV (Val.flt q) := by
        cases v with
        | none => simp [scalarNum?] at hq
        | int i => simp only [scalarNum?, Option.some.injEq] at hq; rw [← hq]; rfl
        | flt q' => simp only [scalarNum?, Option.some.injEq] at hq; rw [← hq]
        | arr a b d =>
          match d, hq with
          | [q'], hq => simp only [scalarNum?, Option.some.injEq] at hq; rw [← hq]; rfl
      rw [this]
    · rintro ⟨kv, hkv, rfl⟩
      obtain ⟨q, hq⟩ := Option.isSome_iff_exists.mp (g.vals kv hkv)
      refine ⟨(kv.1, Val.flt (qOf kv.2)), (mem_matrixValues_cell h jmax kmax hc).mpr ⟨kv.2, hkv, rfl⟩, ?_⟩
      simp only [qOf, hq, Option.getD_some]
      have : numV kv.2 = numV (Val.flt q) := by
        cases hv : kv.2 with
        | none => rw [hv] at hq; simp [scalarNum?] at hq
        | int i => rw [hv] at hq; simp only [scalarNum?, Option.some.injEq] at hq; rw [← hq]; rfl
        | flt q' => rw [hv] at hq; simp only [scalarNum?, Option.some.injEq] at hq; rw [← hq]
        | arr a b d =>
          rw [hv] at hq
          match d, hq with
          | [q'], hq => simp only [scalarNum?, Option.some.injEq] at hq; rw [← hq]; rfl
      rw [this]
  apply mergeSort_perm_invariant (cmp := cmpOn (fun p : String × NumV => p.1) compare) hperm
  intro a b ha hb hab
  have hab' : a.1 = b.1 := by
    simp only [cmpOn] at hab
    exact Std.compare_eq_iff_eq.mp hab
  have hnd : (((matrixValues (gridMatrix ix t jmax kmax) (siOf ix c) (jOf ix c) (kOf ix c)).map
      fun kv => (kv.1, numV kv.2)).map (·.1)).Nodup := by
    have := hperm.map (fun p : String × NumV => p.1)
    rw [this.nodup_iff, List.map_map]
    exact g.nodup
  exact (List.inj_on_of_nodup_map hnd) ha hb hab'

/-- **fromMatrix_toMatrix**, for a given index: a cumulative triangle on the index grid goes into
the matrix and comes back as the same cells (numbers as floats). -/
theorem fromMatrix_toMatrixWith :
    okAnd (backSpec t) ((toMatrixWith ix t).bind fromMatrix) = true := by
  obtain ⟨jmax, kmax, hM, hj, hk⟩ := toMatrixWith_grid h
  rw [hM]
  simp only [Except.bind]
  unfold fromMatrix
  have hidx : (gridMatrix ix t jmax kmax).index = ix := rfl
  have hnp : (gridMatrix ix t jmax kmax).nPeriods = jmax + 1 := rfl
  have hnd : (gridMatrix ix t jmax kmax).nDevs = kmax + 1 := rfl
  rw [hidx, hnp, hnd, fromMatrix_grid_cells h jmax kmax hj hk]
  simp only [Except.bind]
  rw [nested_eq_triples (fun i j k => cellAt (gridMatrix ix t jmax kmax) ix t (i, j, k)), List.filterMap_map]
  change okAnd (backSpec t) (Triangle.ofCells (matrixCells ix t jmax kmax)) = true
  have hperm : (matrixCells ix t jmax kmax).Perm (t.map (mrecon (gridMatrix ix t jmax kmax) ix)) := by
    have htn : t.Nodup := by
      refine h.sorted.imp ?_
      intro a b hab he
      subst he
      rw [ReflCmp.compare_self (cmp := Cell.cmp)] at hab
      cases hab
    rw [List.perm_ext_iff_of_nodup (matrixCells_nodup h jmax kmax hj hk)
      (List.Nodup.map_on (fun a ha b hb he => mrecon_inj h jmax kmax hj hk ha hb he) htn)]
    intro x
    rw [mem_matrixCells h jmax kmax hj hk, List.mem_map]
    constructor
    · rintro ⟨c, hc, rfl⟩; exact ⟨c, hc, rfl⟩
    · rintro ⟨c, hc, rfl⟩; exact ⟨c, hc, rfl⟩
  have hsorted : (t.map (mrecon (gridMatrix ix t jmax kmax) ix)).Pairwise (fun a b => Cell.le a b = true) := by
    rw [List.pairwise_map]
    have hs : t.Pairwise (fun a b => a ∈ t ∧ b ∈ t ∧ Cell.cmp a b = .lt) := by
      rw [List.pairwise_iff_getElem]
      intro i j hi hj' hij
      exact ⟨List.getElem_mem hi, List.getElem_mem hj', List.pairwise_iff_getElem.mp h.sorted i j hi hj' hij⟩
    refine hs.imp ?_
    intro a b ⟨ha, hb, hlt⟩
    unfold Cell.le; rw [cmp_mrecon h _ ha hb, hlt]; rfl
  have hkc : kindsConsistent (matrixCells ix t jmax kmax) = true := by
    unfold kindsConsistent
    have : (matrixCells ix t jmax kmax).all (·.kind == .cumulative) = true := by
      rw [List.all_eq_true]
      intro x hx
      obtain ⟨c, _, rfl⟩ := (mem_matrixCells h jmax kmax hj hk).mp hx
      rfl
    simp [this]
  unfold Triangle.ofCells
  rw [if_pos hkc]
  have hsort : (matrixCells ix t jmax kmax).mergeSort Cell.le = t.map (mrecon (gridMatrix ix t jmax kmax) ix) := by
    have := mergeSort_perm_invariant (cmp := Cell.cmp) hperm (by
      intro a b ha hb hab
      obtain ⟨x, hx, rfl⟩ := (mem_matrixCells h jmax kmax hj hk).mp ha
      obtain ⟨y, hy, rfl⟩ := (mem_matrixCells h jmax kmax hj hk).mp hb
      rw [cmp_mrecon h _ hx hy] at hab
      have : x = y := by
        apply Classical.byContradiction
        intro hne
        obtain ⟨i, hi, rfl⟩ := List.getElem_of_mem hx
        obtain ⟨j, hj', rfl⟩ := List.getElem_of_mem hy
        have hij : i ≠ j := fun he => hne (by subst he; rfl)
        rcases Nat.lt_or_gt_of_ne hij with hlt | hgt
        · have := List.pairwise_iff_getElem.mp h.sorted i j hi hj' hlt
          rw [hab] at this; cases this
        · have := List.pairwise_iff_getElem.mp h.sorted j i hj' hi hgt
          rw [OrientedCmp.eq_swap (cmp := Cell.cmp), hab] at this
          cases this
      rw [this])
    show (matrixCells ix t jmax kmax).mergeSort (leOf Cell.cmp) = _
    rw [this]
    exact List.mergeSort_of_pairwise hsorted
  rw [hsort]
  simp only [okAnd, backSpec, sameNumeric, List.map_map]
  rw [beq_iff_eq]
  apply List.map_congr_left
  intro c hc
  exact canonCell_mrecon h jmax kmax hc

end grid7

end Bermuda.Frame
