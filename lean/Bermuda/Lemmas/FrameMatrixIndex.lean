/-
C14, Matrix form: the index INFERRED by `MatrixIndex.from_triangle` (`MatrixIndex.ofTriangle`: origins
are minima, resolutions are the gcd of the differences of the sorted distinct period boundaries and
of the sorted distinct evaluation months) puts a month-aligned triangle with periods of one length
`e`, starts a multiple of `e` apart, on its grid (`matrixIndex_onGrid`): the gcd of the boundary
differences IS `e` (`periodResolution_contiguous`), both resolutions are positive, the origins are
attained minima. The development lags must be congruent modulo `min(exp, dev)`; that holds by itself
when one resolution divides the other (`lags_congruent_of_dvd`).
(The gcd-fold lemmas are those of Lemmas/Accessors.lean, agent c11c13, restated here for this
model's `multiGcd`: the two models of the inference are different definitions and importing both
into one namespace makes `diffs`/`multiGcd` ambiguous.)
-/
import Bermuda.Lemmas.FrameMatrix
namespace Bermuda.Frame
open Bermuda Bermuda.Spec.C14 Std

/-! ### sorted integer lists and their differences -/

theorem mem_sortInts {l : List Int} {x : Int} : x ∈ sortInts l ↔ x ∈ l := by
  unfold sortInts; exact List.mem_mergeSort

theorem sortInts_sorted (l : List Int) : (sortInts l).Pairwise (fun a b => a ≤ b) := by
  have := List.pairwise_mergeSort (le := fun a b : Int => decide (a ≤ b))
    (fun a b c h1 h2 => by simp only [decide_eq_true_eq] at *; omega)
    (fun a b => by simp only [Bool.or_eq_true, decide_eq_true_eq]; omega) l
  unfold sortInts
  exact this.imp (fun h => by simpa using h)

theorem sortInts_strict {l : List Int} (hn : l.Nodup) : (sortInts l).Pairwise (fun a b => a < b) := by
  have hs := sortInts_sorted l
  have hn' : (sortInts l).Nodup := by
    unfold sortInts
    exact (List.mergeSort_perm l _).nodup_iff.mpr hn
  exact (hs.and hn').imp (fun ⟨h1, h2⟩ => by omega)

theorem diffs_cons_cons (a b : Int) (l : List Int) : diffs (a :: b :: l) = (b - a) :: diffs (b :: l) := rfl

theorem diffs_pos : ∀ {l : List Int}, l.Pairwise (fun a b => a < b) → ∀ d ∈ diffs l, 0 < d
  | [], _, d, hd => by simp [diffs] at hd
  | [_], _, d, hd => by simp [diffs] at hd
  | a :: b :: l, hp, d, hd => by
    rw [diffs_cons_cons] at hd
    rcases List.mem_cons.mp hd with rfl | hd
    · have := (List.pairwise_cons.mp hp).1 b (by simp); omega
    · exact diffs_pos (List.pairwise_cons.mp hp).2 d hd

/-- a common divisor of all differences of members divides every consecutive difference -/
theorem dvd_diffs_of_dvd_sub {g : Int} : ∀ {l : List Int}, (∀ x ∈ l, ∀ y ∈ l, g ∣ y - x) → ∀ d ∈ diffs l, g ∣ d
  | [], _, d, hd => by simp [diffs] at hd
  | [_], _, d, hd => by simp [diffs] at hd
  | a :: b :: l, h, d, hd => by
    rw [diffs_cons_cons] at hd
    rcases List.mem_cons.mp hd with rfl | hd
    · exact h a (by simp) b (by simp)
    · exact dvd_diffs_of_dvd_sub (fun x hx y hy => h x (List.mem_cons_of_mem _ hx) y (List.mem_cons_of_mem _ hy)) d hd

/-- a divisor of every consecutive difference divides the distance of any member to the head -/
theorem dvd_sub_head {g : Int} : ∀ (l : List Int) (a : Int), (∀ d ∈ diffs (a :: l), g ∣ d) → ∀ x ∈ a :: l, g ∣ x - a
  | [], a, _, x, hx => by
    have : x = a := by simpa using hx
    subst this; simp
  | b :: l, a, h, x, hx => by
    rw [diffs_cons_cons] at h
    rcases List.mem_cons.mp hx with rfl | hx
    · simp
    · have h1 := dvd_sub_head l b (fun d hd => h d (List.mem_cons_of_mem _ hd)) x hx
      have h2 := h (b - a) (by simp)
      have : x - a = (x - b) + (b - a) := by omega
      rw [this]; exact Int.dvd_add h1 h2

theorem dvd_sub_of_dvd_diffs {g : Int} {l : List Int} (h : ∀ d ∈ diffs l, g ∣ d) :
    ∀ x ∈ l, ∀ y ∈ l, g ∣ y - x := by
  intro x hx y hy
  cases l with
  | nil => simp at hx
  | cons a l =>
    have h1 := dvd_sub_head l a h x hx
    have h2 := dvd_sub_head l a h y hy
    have : y - x = (y - a) - (x - a) := by omega
    rw [this]; exact Int.dvd_sub h2 h1

/-! ### `multiGcd` -/

theorem foldl_gcd_dvd (rest : List Int) (g : Int) :
    (rest.foldl (fun r z => (Int.gcd r z : Int)) g ∣ g) ∧
    ∀ x ∈ rest, rest.foldl (fun r z => (Int.gcd r z : Int)) g ∣ x := by
  induction rest generalizing g with
  | nil => simp
  | cons z rest ih =>
    simp only [List.foldl_cons]
    obtain ⟨h1, h2⟩ := ih (Int.gcd g z : Int)
    refine ⟨Int.dvd_trans h1 (Int.gcd_dvd_left _ _), ?_⟩
    intro x hx
    rcases List.mem_cons.mp hx with rfl | hx
    · exact Int.dvd_trans h1 (Int.gcd_dvd_right _ _)
    · exact h2 x hx

theorem dvd_foldl_gcd (rest : List Int) (g d : Int) (hg : d ∣ g) (hr : ∀ x ∈ rest, d ∣ x) :
    d ∣ rest.foldl (fun r z => (Int.gcd r z : Int)) g := by
  induction rest generalizing g with
  | nil => simpa using hg
  | cons z rest ih =>
    simp only [List.foldl_cons]
    exact ih _ (Int.dvd_coe_gcd hg (hr z (by simp))) (fun x hx => hr x (by simp [hx]))

theorem multiGcd_dvd {ds : List Int} {r : Int} (h : multiGcd ds = some r) : ∀ d ∈ ds, r ∣ d := by
  cases ds with
  | nil => simp [multiGcd] at h
  | cons x rest =>
    simp only [multiGcd, Option.some.injEq] at h
    subst h
    obtain ⟨h1, h2⟩ := foldl_gcd_dvd rest x
    intro d hd
    rcases List.mem_cons.mp hd with rfl | hd
    · exact h1
    · exact h2 d hd

theorem dvd_multiGcd {ds : List Int} {r g : Int} (h : multiGcd ds = some r) (hg : ∀ d ∈ ds, g ∣ d) : g ∣ r := by
  cases ds with
  | nil => simp [multiGcd] at h
  | cons x rest =>
    simp only [multiGcd, Option.some.injEq] at h
    subst h
    exact dvd_foldl_gcd rest x g (hg x (by simp)) (fun y hy => hg y (List.mem_cons_of_mem _ hy))

theorem foldl_gcd_pos (rest : List Int) (g : Int) (hg : 0 < g) :
    0 < rest.foldl (fun r z => (Int.gcd r z : Int)) g := by
  induction rest generalizing g with
  | nil => simpa using hg
  | cons z rest ih =>
    simp only [List.foldl_cons]
    apply ih
    have : 0 < Int.gcd g z := Int.gcd_pos_of_ne_zero_left _ (by omega)
    exact_mod_cast this

theorem multiGcd_pos {ds : List Int} {r : Int} (h : multiGcd ds = some r) (hp : ∀ d ∈ ds, 0 < d) : 0 < r := by
  cases ds with
  | nil => simp [multiGcd] at h
  | cons x rest =>
    simp only [multiGcd, Option.some.injEq] at h
    subst h
    exact foldl_gcd_pos rest x (hp x (by simp))

/-! ### `minInt` -/

theorem minInt_foldl (f : Option Int → Int → Option Int) (hf : ∀ y x, f (some y) x = some (min x y))
    (l : List Int) (m : Int) :
    ∃ r, l.foldl f (some m) = some r ∧ (r = m ∨ r ∈ l) ∧ r ≤ m ∧ ∀ x ∈ l, r ≤ x := by
  induction l generalizing m with
  | nil => exact ⟨m, rfl, Or.inl rfl, Int.le_refl _, by simp⟩
  | cons a l ih =>
    simp only [List.foldl_cons, hf]
    obtain ⟨r, h1, h2, h3, h4⟩ := ih (min a m)
    refine ⟨r, h1, ?_, by omega, ?_⟩
    · rcases h2 with h2 | h2
      · rcases Int.le_total a m with h | h
        · right; rw [h2, Int.min_eq_left h]; simp
        · left; rw [h2, Int.min_eq_right h]
      · right; exact List.mem_cons_of_mem _ h2
    · intro x hx
      rcases List.mem_cons.mp hx with rfl | hx
      · omega
      · exact h4 x hx

theorem minInt_foldl' {f : Option Int → Int → Option Int} {l : List Int} {m r : Int}
    (h : l.foldl f (some m) = some r) (hf : ∀ y x, f (some y) x = some (min x y)) :
    (r = m ∨ r ∈ l) ∧ r ≤ m ∧ ∀ x ∈ l, r ≤ x := by
  obtain ⟨r', h1, h2⟩ := minInt_foldl f hf l m
  rw [h1] at h
  have : r' = r := by simpa using h
  subst this
  exact h2

theorem minInt_spec {l : List Int} {m : Int} (h : minInt l = some m) : m ∈ l ∧ ∀ x ∈ l, m ≤ x := by
  cases l with
  | nil => simp [minInt] at h
  | cons a l =>
    unfold minInt at h
    rw [List.foldl_cons] at h
    obtain ⟨h2, h3, h4⟩ := minInt_foldl' h (fun _ _ => rfl)
    refine ⟨?_, ?_⟩
    · rcases h2 with h2 | h2
      · rw [h2]; simp
      · exact List.mem_cons_of_mem _ h2
    · intro x hx
      rcases List.mem_cons.mp hx with rfl | hx
      · exact h3
      · exact h4 x hx

/-! ### period boundaries and the inferred resolutions -/

theorem mem_periodsOf' {t : List Cell} {p : Date × Date} : p ∈ periodsOf t ↔ ∃ c ∈ t, (c.ps, c.pe) = p := by
  unfold periodsOf
  rw [(List.mergeSort_perm _ _).mem_iff, List.mem_eraseDups, List.mem_map]

/-- the sorted distinct period boundaries (starts, and the months after the ends) -/
def boundaries (t : List Cell) : List Int :=
  sortInts (((periodsOf t).map fun p => monthToId p.1) ++ ((periodsOf t).map fun p => monthToId p.2 + 1)).eraseDups

theorem periodResolution_eq (t : List Cell) : periodResolution t = multiGcd (diffs (boundaries t)) := rfl

theorem mem_boundaries {t : List Cell} {x : Int} :
    x ∈ boundaries t ↔ ∃ c ∈ t, x = monthToId c.ps ∨ x = monthToId c.pe + 1 := by
  unfold boundaries
  rw [mem_sortInts, List.mem_eraseDups, List.mem_append, List.mem_map, List.mem_map]
  constructor
  · rintro (⟨p, hp, rfl⟩ | ⟨p, hp, rfl⟩)
    · obtain ⟨c, hc, rfl⟩ := mem_periodsOf'.mp hp
      exact ⟨c, hc, Or.inl rfl⟩
    · obtain ⟨c, hc, rfl⟩ := mem_periodsOf'.mp hp
      exact ⟨c, hc, Or.inr rfl⟩
  · rintro ⟨c, hc, rfl | rfl⟩
    · exact Or.inl ⟨(c.ps, c.pe), mem_periodsOf'.mpr ⟨c, hc, rfl⟩, rfl⟩
    · exact Or.inr ⟨(c.ps, c.pe), mem_periodsOf'.mpr ⟨c, hc, rfl⟩, rfl⟩

theorem boundaries_strict (t : List Cell) : (boundaries t).Pairwise (fun a b => a < b) :=
  sortInts_strict (nodup_eraseDups' _)

/-- periods of `e` months whose starts are a multiple of `e` months apart (contiguous periods, or
with gaps of whole periods) -/
structure Contiguous (t : List Cell) (e : Int) : Prop where
  pos : 1 ≤ e
  len : ∀ c ∈ t, monthToId c.pe = monthToId c.ps + e - 1
  step : ∀ a ∈ t, ∀ b ∈ t, e ∣ monthToId b.ps - monthToId a.ps

theorem boundaries_congr {t : List Cell} {e : Int} (hc : Contiguous t e) :
    ∀ x ∈ boundaries t, ∀ y ∈ boundaries t, e ∣ y - x := by
  intro x hx y hy
  obtain ⟨a, ha, hxa⟩ := mem_boundaries.mp hx
  obtain ⟨b, hb, hyb⟩ := mem_boundaries.mp hy
  have hs := hc.step a ha b hb
  have la := hc.len a ha
  have lb := hc.len b hb
  have he : e ∣ e := Int.dvd_refl e
  rcases hxa with rfl | rfl <;> rcases hyb with rfl | rfl
  · exact hs
  · have : monthToId b.pe + 1 - monthToId a.ps = (monthToId b.ps - monthToId a.ps) + e := by omega
    rw [this]; exact Int.dvd_add hs he
  · have : monthToId b.ps - (monthToId a.pe + 1) = (monthToId b.ps - monthToId a.ps) - e := by omega
    rw [this]; exact Int.dvd_sub hs he
  · have : monthToId b.pe + 1 - (monthToId a.pe + 1) = monthToId b.ps - monthToId a.ps := by omega
    rw [this]; exact hs

/-- the gcd inference finds the period length -/
theorem periodResolution_contiguous {t : List Cell} {e r : Int} (hne : t ≠ []) (hc : Contiguous t e)
    (h : periodResolution t = some r) : r = e := by
  rw [periodResolution_eq] at h
  have hpos : 0 < r := multiGcd_pos h (diffs_pos (boundaries_strict t))
  have h1 : e ∣ r := dvd_multiGcd h (dvd_diffs_of_dvd_sub (boundaries_congr hc))
  have h2 : r ∣ e := by
    obtain ⟨c, hcm⟩ := List.exists_mem_of_ne_nil _ hne
    have := dvd_sub_of_dvd_diffs (multiGcd_dvd h) (monthToId c.ps) (mem_boundaries.mpr ⟨c, hcm, Or.inl rfl⟩)
      (monthToId c.pe + 1) (mem_boundaries.mpr ⟨c, hcm, Or.inr rfl⟩)
    have l := hc.len c hcm
    have he : monthToId c.pe + 1 - monthToId c.ps = e := by omega
    rwa [he] at this
  have := hc.pos
  exact Int.dvd_antisymm (by omega) (by omega) h2 h1

theorem evalDateResolution_pos {t : List Cell} {r : Int} (h : evalDateResolution t = some r) : 0 < r := by
  unfold evalDateResolution at h
  exact multiGcd_pos h (diffs_pos (sortInts_strict (nodup_eraseDups' _)))

/-- the inferred evaluation resolution divides the distance of any two evaluation months -/
theorem evalDateResolution_dvd {t : List Cell} {r : Int} (h : evalDateResolution t = some r) :
    ∀ a ∈ t, ∀ b ∈ t, r ∣ monthToId b.ev - monthToId a.ev := by
  unfold evalDateResolution at h
  intro a ha b hb
  refine dvd_sub_of_dvd_diffs (multiGcd_dvd h) _ ?_ _ ?_
  · rw [mem_sortInts, List.mem_eraseDups]; exact List.mem_map_of_mem ha
  · rw [mem_sortInts, List.mem_eraseDups]; exact List.mem_map_of_mem hb

theorem nat_multiple {x o s : Int} (hs : 1 ≤ s) (hle : o ≤ x) (hd : s ∣ x - o) :
    ∃ k : Nat, x = o + (k : Int) * s := by
  obtain ⟨q, hq⟩ := hd
  have hq0 : 0 ≤ q := by
    by_contra hneg
    have h1 : q ≤ -1 := by omega
    have h2 : s * q ≤ s * (-1) := Int.mul_le_mul_of_nonneg_left h1 (by omega)
    omega
  refine ⟨q.toNat, ?_⟩
  rw [Int.toNat_of_nonneg hq0, Int.mul_comm]
  omega

/-! ### the inferred index puts the triangle on its grid -/

/-- the part of `GridCell` that does not mention the index -/
structure MonthCell (c : Cell) : Prop where
  notInc : c.kind ≠ .incremental
  prev : c.prev = none
  dates : c.datesOk = true
  canon : c.md.Canon
  psv : c.ps.valid = true
  ps1 : c.ps.d = 1
  pev : c.pe.valid = true
  pee : c.pe.isMonthEnd = true
  evv : c.ev.valid = true
  eve : c.ev.isMonthEnd = true
  vals : ∀ kv ∈ c.values, (scalarNum? kv.2).isSome = true
  nodup : (Dict.keys c.values).Nodup
  vne : c.values ≠ []

theorem truncLag_monthCell {c : Cell} (h : MonthCell c) : truncInt (c.devLag .month) = lagOf c := by
  have : c.devLag .month = ((lagOf c : Int) : Rat) := by
    unfold Cell.devLag calculateDevLag
    simp only
    rw [devLag_monthEnds h.pee h.eve]
    rfl
  rw [this, truncInt_intCast]

theorem matrixIndex_onGrid {t : List Cell} {ix : MatrixIndex} {e : Int} (hne : t ≠ [])
    (hsorted : t.Pairwise (fun a b => Cell.cmp a b = .lt)) (hkinds : kindsConsistent t = true)
    (hcell : ∀ c ∈ t, MonthCell c) (hc : Contiguous t e)
    (hix : MatrixIndex.ofTriangle t = .ok ix)
    (hk : ∀ a ∈ t, ∀ b ∈ t, devSpacing ix ∣ lagOf b - lagOf a) : OnGrid t ix := by
  unfold MatrixIndex.ofTriangle at hix
  split at hix
  case h_1 eo er dor dr h1 h2 h3 h4 =>
    injection hix with hix
    have f1 : ix.expOrigin = eo := by rw [← hix]
    have f2 : ix.expResolution = er := by rw [← hix]
    have f3 : ix.devOrigin = dor := by rw [← hix]
    have f4 : ix.devResolution = dr := by rw [← hix]
    have f5 : devSpacing ix = min er dr := by unfold devSpacing; rw [f2, f4]
    have her : er = e := periodResolution_contiguous hne hc h2
    have hdr : 0 < dr := evalDateResolution_pos h4
    have hpos := hc.pos
    have hsp : 1 ≤ devSpacing ix := by
      rw [f5]; omega
    obtain ⟨heo_mem, heo_le⟩ := minInt_spec h1
    obtain ⟨hdo_mem, hdo_le⟩ := minInt_spec h3
    obtain ⟨c0, hc0, hc0e⟩ := List.mem_map.mp heo_mem
    obtain ⟨c1, hc1, hc1e⟩ := List.mem_map.mp hdo_mem
    rw [truncLag_monthCell (hcell c1 hc1)] at hc1e
    refine { ne := hne, sorted := hsorted, kinds := hkinds, slices := by rw [← hix], fields := by rw [← hix],
             e1 := by rw [f2]; omega, s1 := hsp, cell := ?_ }
    intro c hcm
    have m := hcell c hcm
    have hj : ∃ j : Nat, monthToId c.ps = ix.expOrigin + (j : Int) * ix.expResolution := by
      rw [f1, f2, her]
      refine nat_multiple hpos (heo_le _ (List.mem_map_of_mem hcm)) ?_
      rw [← hc0e]; exact hc.step c0 hc0 c hcm
    have hpe : monthToId c.pe = monthToId c.ps + ix.expResolution - 1 := by
      rw [f2, her]; exact hc.len c hcm
    have hkk : ∃ k : Nat, lagOf c = ix.devOrigin + (k : Int) * devSpacing ix := by
      refine nat_multiple hsp ?_ ?_
      · have := hdo_le _ (List.mem_map_of_mem (f := fun c => truncInt (c.devLag .month)) hcm)
        rw [truncLag_monthCell m] at this
        rw [f3]; exact this
      · have := hk c1 hc1 c hcm
        rw [hc1e] at this
        rw [f3]; exact this
    exact { notInc := m.notInc, prev := m.prev, dates := m.dates, canon := m.canon, psv := m.psv, ps1 := m.ps1,
            pev := m.pev, pee := m.pee, evv := m.evv, eve := m.eve, j := hj, pe := hpe, k := hkk,
            vals := m.vals, nodup := m.nodup, vne := m.vne }
  all_goals cases hix

/-- the lag condition holds by itself when one of the two inferred resolutions divides the other
(the usual case: yearly periods seen quarterly, quarterly periods seen quarterly, …) -/
theorem lags_congruent_of_dvd {t : List Cell} {ix : MatrixIndex} {e : Int} (hne : t ≠ [])
    (hc : Contiguous t e) (hix : MatrixIndex.ofTriangle t = .ok ix)
    (hd : ix.devResolution ∣ ix.expResolution ∨ ix.expResolution ∣ ix.devResolution) :
    ∀ a ∈ t, ∀ b ∈ t, devSpacing ix ∣ lagOf b - lagOf a := by
  unfold MatrixIndex.ofTriangle at hix
  split at hix
  case h_1 eo er dor dr h1 h2 h3 h4 =>
    injection hix with hix
    have f1 : ix.expOrigin = eo := by rw [← hix]
    have f2 : ix.expResolution = er := by rw [← hix]
    have f3 : ix.devOrigin = dor := by rw [← hix]
    have f4 : ix.devResolution = dr := by rw [← hix]
    have f5 : devSpacing ix = min er dr := by unfold devSpacing; rw [f2, f4]
    have her : er = e := periodResolution_contiguous hne hc h2
    have hdr : 0 < dr := evalDateResolution_pos h4
    have hpos := hc.pos
    rw [f2, f4, her] at hd
    rw [f5, her]
    intro a ha b hb
    have hev := evalDateResolution_dvd h4 a ha b hb
    have hps := hc.step a ha b hb
    have la := hc.len a ha
    have lb := hc.len b hb
    have hlag : lagOf b - lagOf a = (monthToId b.ev - monthToId a.ev) - (monthToId b.ps - monthToId a.ps) := by
      unfold lagOf; omega
    rw [hlag]
    rcases hd with hd | hd
    · have hle : dr ≤ e := Int.le_of_dvd (by omega) hd
      rw [Int.min_eq_right hle]
      exact Int.dvd_sub hev (Int.dvd_trans hd hps)
    · have hle : e ≤ dr := Int.le_of_dvd hdr hd
      rw [Int.min_eq_left hle]
      exact Int.dvd_sub (Int.dvd_trans hd hev) hps
  all_goals cases hix

end Bermuda.Frame
