/-
C14, Matrix form: `MatrixIndex.from_triangle` SUCCEEDS on every non-empty triangle with contiguous periods and
at least two evaluation months (`ofTriangle_ok`) — with a single evaluation month the library itself refuses
("Must supply eval_resolution") —, its resolutions are the common period length and the gcd of the
evaluation-month gaps (`ofTriangle_resolutions`), and `is_triangle_monthly` follows from `MonthCell`.
-/
import Bermuda.Lemmas.FrameMatrixIndex
namespace Bermuda.Frame
open Bermuda Bermuda.Spec.C14 Std

theorem minInt_some {l : List Int} (h : l ≠ []) : ∃ m, minInt l = some m := by
  cases l with
  | nil => exact absurd rfl h
  | cons a l =>
    unfold minInt
    rw [List.foldl_cons]
    obtain ⟨r, hr, _⟩ := minInt_foldl (fun m x => match m with | none => some x | some y => some (min x y))
      (fun _ _ => rfl) l a
    exact ⟨r, hr⟩

theorem two_le_length {α : Type} {l : List α} {a b : α} (ha : a ∈ l) (hb : b ∈ l) (hne : a ≠ b) : 2 ≤ l.length := by
  match l, ha, hb with
  | [x], ha, hb =>
    simp only [List.mem_singleton] at ha hb
    exact absurd (ha.trans hb.symm) hne
  | _ :: _ :: _, _, _ => simp

theorem multiGcd_diffs_some {l : List Int} (h : 2 ≤ l.length) : ∃ r, multiGcd (diffs l) = some r := by
  match l, h with
  | a :: b :: rest, _ =>
    rw [diffs_cons_cons]
    exact ⟨_, rfl⟩

theorem periodResolution_some {t : List Cell} {e : Int} (hne : t ≠ []) (hc : Contiguous t e) :
    periodResolution t = some e := by
  obtain ⟨c, hcm⟩ := List.exists_mem_of_ne_nil _ hne
  have h1 : monthToId c.ps ∈ boundaries t := mem_boundaries.mpr ⟨c, hcm, Or.inl rfl⟩
  have h2 : monthToId c.pe + 1 ∈ boundaries t := mem_boundaries.mpr ⟨c, hcm, Or.inr rfl⟩
  have hl := hc.len c hcm
  have hp := hc.pos
  obtain ⟨r, hr⟩ := multiGcd_diffs_some (two_le_length h1 h2 (by omega))
  rw [periodResolution_eq, hr]
  rw [← periodResolution_eq] at hr
  rw [periodResolution_contiguous hne hc hr]

theorem evalDateResolution_some {t : List Cell} {a b : Cell} (ha : a ∈ t) (hb : b ∈ t)
    (hne : monthToId a.ev ≠ monthToId b.ev) : ∃ d, evalDateResolution t = some d := by
  unfold evalDateResolution
  apply multiGcd_diffs_some
  refine two_le_length (a := monthToId a.ev) (b := monthToId b.ev) ?_ ?_ hne
  · rw [mem_sortInts, List.mem_eraseDups]; exact List.mem_map_of_mem ha
  · rw [mem_sortInts, List.mem_eraseDups]; exact List.mem_map_of_mem hb

/-- **totality of the index inference** on the stated domain -/
theorem ofTriangle_ok {t : List Cell} {e : Int} (hne : t ≠ []) (hc : Contiguous t e)
    (hev : ∃ a ∈ t, ∃ b ∈ t, monthToId a.ev ≠ monthToId b.ev) :
    ∃ ix d, MatrixIndex.ofTriangle t = .ok ix ∧ evalDateResolution t = some d ∧
      ix.expResolution = e ∧ ix.devResolution = d := by
  obtain ⟨a, ha, b, hb, hab⟩ := hev
  obtain ⟨d, hd⟩ := evalDateResolution_some ha hb hab
  obtain ⟨eo, heo⟩ := minInt_some (l := t.map fun c => monthToId c.ps) (by simpa using hne)
  obtain ⟨dor, hdo⟩ := minInt_some (l := t.map fun c => truncInt (c.devLag .month)) (by simpa using hne)
  refine ⟨{ slices := Triangle.metadata t, fields := sortStrings (allFields t), expOrigin := eo, devOrigin := dor,
            expResolution := e, devResolution := d }, d, ?_, hd, rfl, rfl⟩
  unfold MatrixIndex.ofTriangle
  rw [heo, periodResolution_some hne hc, hdo, hd]

theorem isMonthly_of_monthCell {t : List Cell} (h : ∀ c ∈ t, MonthCell c) : isMonthly t = true := by
  unfold isMonthly
  rw [List.all_eq_true]
  intro c hc
  have m := h c hc
  simp [m.ps1, m.pee, m.eve]

end Bermuda.Frame
