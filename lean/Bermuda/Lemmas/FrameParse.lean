/-
C14, `parse_date` (io/array.py) on the documented spellings: `YYYY`, `YYYYQn`, `YYYYHn`, `YYYY-MM`,
`YYYY-MM-DD` give the first day of that year / quarter / half-year / month, resp. that day; what the model
refuses (`ValueError`). Statements are about `parseDateChars`, the characters of the stripped text
(`parseDate s = parseDateChars s.trimAscii.toString.toList`); the stripping itself is exercised by the
kernel-evaluated examples and the correspondence.
-/
import Bermuda.Lemmas.DateUtils
import Bermuda.Model.FrameStatics
namespace Bermuda.Frame
open Bermuda

def digitChar (k : Nat) : Char := Char.ofNat (48 + k)

theorem digitChar_spec : ∀ k : Fin 10, (digitChar k.val).isDigit = true ∧ (digitChar k.val).toNat - 48 = k.val := by
  decide

theorem dc {k : Nat} (h : k < 10) : (digitChar k).isDigit = true ∧ (digitChar k).toNat - 48 = k :=
  digitChar_spec ⟨k, h⟩

def year4 (y : Nat) : List Char := [digitChar (y / 1000), digitChar (y / 100 % 10), digitChar (y / 10 % 10), digitChar (y % 10)]

theorem digitsVal4 (a b c d : Char) : digitsVal [a, b, c, d] =
    (((a.toNat - 48) * 10 + (b.toNat - 48)) * 10 + (c.toNat - 48)) * 10 + (d.toNat - 48) := by
  simp [digitsVal]

theorem digits_year4 {y : Nat} (h : y < 10000) : digits? (year4 y) = some y := by
  have h1 := dc (k := y / 1000) (by omega)
  have h2 := dc (k := y / 100 % 10) (by omega)
  have h3 := dc (k := y / 10 % 10) (by omega)
  have h4 := dc (k := y % 10) (by omega)
  unfold digits? year4
  simp only [List.isEmpty_cons, List.all_cons, List.all_nil, h1.1, h2.1, h3.1, h4.1, Bool.and_self, Bool.not_true,
    Bool.or_self, Bool.false_eq_true, if_false]
  rw [digitsVal4, h1.2, h2.2, h3.2, h4.2]
  congr 1
  omega

theorem digitsVal1 (a : Char) : digitsVal [a] = a.toNat - 48 := by simp [digitsVal]

theorem digitsVal2 (a b : Char) : digitsVal [a, b] = (a.toNat - 48) * 10 + (b.toNat - 48) := by simp [digitsVal]

theorem digits_one {k : Nat} (h : k < 10) : digits? [digitChar k] = some k := by
  have h1 := dc h
  unfold digits?
  simp only [List.isEmpty_cons, List.all_cons, List.all_nil, h1.1, Bool.and_self, Bool.not_true, Bool.or_self,
    Bool.false_eq_true, if_false]
  rw [digitsVal1, h1.2]

theorem digits_two {m : Nat} (h : m < 100) : digits? [digitChar (m / 10), digitChar (m % 10)] = some m := by
  have h1 := dc (k := m / 10) (by omega)
  have h2 := dc (k := m % 10) (by omega)
  unfold digits?
  simp only [List.isEmpty_cons, List.all_cons, List.all_nil, h1.1, h2.1, Bool.and_self, Bool.not_true, Bool.or_self,
    Bool.false_eq_true, if_false]
  rw [digitsVal2, h1.2, h2.2]
  congr 1
  omega

theorem mkDate_ok {y m d : Nat} (hy : 1 ≤ y ∧ y ≤ 9999) (hv : (⟨(y : Int), m, d⟩ : Date).valid = true) :
    mkDate? y m d = .ok ⟨(y : Int), m, d⟩ := by
  unfold mkDate?
  have h1 : decide (1 ≤ y) = true := by simp [hy.1]
  have h2 : decide (y ≤ 9999) = true := by simp [hy.2]
  simp only [h1, h2, hv, Bool.and_self, if_true]

theorem first_valid (y : Int) {m : Nat} (hm : 1 ≤ m ∧ m ≤ 12) : (⟨y, m, 1⟩ : Date).valid = true := by
  rw [valid_iff]
  have := dim_pos y m
  exact ⟨hm.1, hm.2, Nat.le_refl 1, this⟩

/-- **`YYYY`** → 1 January of that year -/
theorem parseDate_year {y : Nat} (hy : 1 ≤ y ∧ y ≤ 9999) : parseDateChars (year4 y) = .ok ⟨(y : Int), 1, 1⟩ := by
  have hd := digits_year4 (y := y) (by omega)
  unfold year4 at hd ⊢
  simp only [parseDateChars, hd]
  exact mkDate_ok hy (first_valid _ (by omega))

/-- **`YYYYQn`** (n = 1 … 4) → the first day of that quarter -/
theorem parseDate_quarter {y q : Nat} (hy : 1 ≤ y ∧ y ≤ 9999) (hq : 1 ≤ q ∧ q ≤ 4) :
    parseDateChars (year4 y ++ ['Q', digitChar q]) = .ok ⟨(y : Int), (q - 1) * 3 + 1, 1⟩ := by
  have hd := digits_year4 (y := y) (by omega)
  have hq1 := digits_one (k := q) (by omega)
  unfold year4 at hd ⊢
  simp only [List.cons_append, List.nil_append, parseDateChars, hd, hq1]
  have : (decide (1 ≤ q) && decide (q ≤ 4)) = true := by simp [hq.1, hq.2]
  rw [if_pos this]
  exact mkDate_ok hy (first_valid _ (by omega))

/-- … and refuses another quarter digit -/
theorem parseDate_quarter_refused {y q : Nat} (hy : y < 10000) (hq : q < 10) (hbad : q = 0 ∨ 5 ≤ q) :
    parseDateChars (year4 y ++ ['Q', digitChar q]) = .error .valueError := by
  have hd := digits_year4 (y := y) hy
  have hq1 := digits_one (k := q) hq
  unfold year4 at hd ⊢
  simp only [List.cons_append, List.nil_append, parseDateChars, hd, hq1]
  have : ¬ (decide (1 ≤ q) && decide (q ≤ 4)) = true := by
    simp only [Bool.and_eq_true, decide_eq_true_eq]; omega
  rw [if_neg this]

/-- **`YYYYHn`** (n = 1, 2) → 1 January / 1 July -/
theorem parseDate_half {y n : Nat} (hy : 1 ≤ y ∧ y ≤ 9999) (hn : 1 ≤ n ∧ n ≤ 2) :
    parseDateChars (year4 y ++ ['H', digitChar n]) = .ok ⟨(y : Int), if n = 1 then 1 else 7, 1⟩ := by
  have hd := digits_year4 (y := y) (by omega)
  have hq1 := digits_one (k := n) (by omega)
  unfold year4 at hd ⊢
  simp only [List.cons_append, List.nil_append, parseDateChars, hd, hq1]
  have : (decide (1 ≤ n) && decide (n ≤ 2)) = true := by simp [hn.1, hn.2]
  rw [if_pos this]
  have hm : (if (n == 1) = true then 1 else 7) = (if n = 1 then 1 else 7 : Nat) := by
    by_cases h1 : n = 1 <;> simp [h1]
  rw [hm]
  refine mkDate_ok hy (first_valid _ ?_)
  by_cases h1 : n = 1 <;> simp [h1]

theorem parseDate_half_refused {y n : Nat} (hy : y < 10000) (hn : n < 10) (hbad : n = 0 ∨ 3 ≤ n) :
    parseDateChars (year4 y ++ ['H', digitChar n]) = .error .valueError := by
  have hd := digits_year4 (y := y) hy
  have hq1 := digits_one (k := n) hn
  unfold year4 at hd ⊢
  simp only [List.cons_append, List.nil_append, parseDateChars, hd, hq1]
  have : ¬ (decide (1 ≤ n) && decide (n ≤ 2)) = true := by
    simp only [Bool.and_eq_true, decide_eq_true_eq]; omega
  rw [if_neg this]

/-- **`YYYY-MM`** → the first day of that month -/
theorem parseDate_month {y m : Nat} (hy : 1 ≤ y ∧ y ≤ 9999) (hm : 1 ≤ m ∧ m ≤ 12) :
    parseDateChars (year4 y ++ ['-', digitChar (m / 10), digitChar (m % 10)]) = .ok ⟨(y : Int), m, 1⟩ := by
  have hd := digits_year4 (y := y) (by omega)
  have hm2 := digits_two (m := m) (by omega)
  unfold year4 at hd ⊢
  simp only [List.cons_append, List.nil_append, parseDateChars, hd, hm2]
  exact mkDate_ok hy (first_valid _ hm)

/-- **`YYYY-MM-DD`** → that day (any valid date of the years 1 … 9999) -/
theorem parseDate_iso {y m d : Nat} (hy : 1 ≤ y ∧ y ≤ 9999) (hv : (⟨(y : Int), m, d⟩ : Date).valid = true) :
    parseDateChars (year4 y ++ ['-', digitChar (m / 10), digitChar (m % 10), '-', digitChar (d / 10), digitChar (d % 10)]) =
      .ok ⟨(y : Int), m, d⟩ := by
  obtain ⟨_, h2, _, h4⟩ := (valid_iff _).mp hv
  have hdim := dim_bounds (y : Int) m
  have hd := digits_year4 (y := y) (by omega)
  have hm2 := digits_two (m := m) (by simp only at h2; omega)
  have hd2 := digits_two (m := d) (by simp only at h4; omega)
  unfold year4 at hd ⊢
  simp only [List.cons_append, List.nil_append, parseDateChars, hd, hm2, hd2]
  exact mkDate_ok hy hv

/-- … and refuses a day that does not exist (`2021-02-30`) or a month outside 1 … 12 -/
theorem parseDate_iso_refused {y m d : Nat} (hy : y < 10000) (hm : m < 100) (hd' : d < 100)
    (hv : (⟨(y : Int), m, d⟩ : Date).valid = false) :
    parseDateChars (year4 y ++ ['-', digitChar (m / 10), digitChar (m % 10), '-', digitChar (d / 10), digitChar (d % 10)]) =
      .error .valueError := by
  have hd := digits_year4 (y := y) hy
  have hm2 := digits_two (m := m) hm
  have hd2 := digits_two (m := d) hd'
  unfold year4 at hd ⊢
  simp only [List.cons_append, List.nil_append, parseDateChars, hd, hm2, hd2]
  unfold mkDate?
  simp [hv]

/-- every text whose stripped length is not 4, 6, 7 or 10 is refused -/
theorem parseDate_length_refused {cs : List Char} (h : cs.length ≠ 4 ∧ cs.length ≠ 6 ∧ cs.length ≠ 7 ∧ cs.length ≠ 10) :
    parseDateChars cs = .error .valueError := by
  unfold parseDateChars
  split <;> simp_all

/-- a year that is not four digits is refused -/
theorem parseDate_year_nondigit {a b c d : Char} (h : ([a, b, c, d].all Char.isDigit) = false) :
    parseDateChars [a, b, c, d] = .error .valueError := by
  have : digits? [a, b, c, d] = none := by
    unfold digits?
    simp only [h, Bool.not_false, Bool.or_true, if_true]
  simp only [parseDateChars, this]

/-- concrete texts (kernel-evaluated on their characters; the stripping of blanks by `parseDate` itself is
exercised by the correspondence only) -/
theorem parseDate_examples :
    parseDateChars ['2', '0', '2', '0', 'Q', '3'] = .ok ⟨2020, 7, 1⟩ ∧
    parseDateChars ['2', '0', '2', '1', 'H', '2'] = .ok ⟨2021, 7, 1⟩ ∧
    parseDateChars ['1', '9', '9', '9'] = .ok ⟨1999, 1, 1⟩ ∧
    parseDateChars ['2', '0', '2', '0', '-', '0', '2', '-', '2', '9'] = .ok ⟨2020, 2, 29⟩ ∧
    parseDateChars ['2', '0', '2', '1', '-', '0', '2', '-', '3', '0'] = .error .valueError ∧
    parseDateChars ['2', '0', '2', '0', 'H', '3'] = .error .valueError ∧
    parseDateChars ['a', 'b', 'c'] = .error .valueError := by
  decide +kernel

end Bermuda.Frame
