/-
C14, rich matrix: a month-aligned triangle on the grid of a `MatrixIndex` — cumulative or incremental,
any values (numbers, `None`, sample arrays), any duplicate-free non-empty field list — goes into the
object array (`toRichWith`) and comes back (`fromRich`) as exactly the cells that hold a value of an
index field (`fromRich_toRichWith`): same order, coordinates, class, slice metadata; values in index
order, Python kind / dtype / shape kept, a size-1 array as its float.
-/
import Bermuda.Lemmas.FrameGrid
namespace Bermuda.Frame
open Bermuda Bermuda.Spec.C14 Std

/-- the previous evaluation date `rich_matrix_to_triangle` gives an incremental cell -/
def gridPrev (ix : MatrixIndex) (c : Cell) : Date :=
  if kOf ix c = 0 then c.ps.pred else addMonths c.pe (matrixLag ix (kOf ix c - 1))

structure RichCell (c : Cell) (ix : MatrixIndex) (inc : Bool) : Prop where
  pos : PosCell c ix
  kind : if inc = true then c.kind = .incremental else c.kind ≠ .incremental
  prev : c.prev = if inc = true then some (gridPrev ix c) else none
  nodup : (Dict.keys c.values).Nodup

/-- a month-aligned triangle on the grid of `ix`: cumulative (no previous dates) or incremental with
every previous evaluation date one development step before the evaluation date (the eve of the period
start for the first step); values are arbitrary; `ix.fields` any duplicate-free non-empty list -/
structure RichGrid (t : List Cell) (ix : MatrixIndex) : Prop where
  ne : t ≠ []
  sorted : t.Pairwise (fun a b => Cell.cmp a b = .lt)
  slices : ix.slices = Triangle.metadata t
  e1 : 1 ≤ ix.expResolution
  s1 : 1 ≤ devSpacing ix
  fieldsNodup : ix.fields.Nodup
  fieldsNe : ix.fields ≠ []
  cell : ∀ c ∈ t, RichCell c ix (firstIsIncremental t)

theorem RichGrid.pos {t : List Cell} {ix : MatrixIndex} (h : RichGrid t ix) : PosGrid t ix where
  ne := h.ne
  sorted := h.sorted
  slices := h.slices
  e1 := h.e1
  s1 := h.s1
  cell := fun c hc => (h.cell c hc).pos
  prevEq := by
    intro a ha b hb hps hpe hev
    rw [(h.cell a ha).prev, (h.cell b hb).prev]
    have : gridPrev ix a = gridPrev ix b := by
      unfold gridPrev kOf lagOf
      rw [hps, hpe, hev]
    rw [this]

/-! ### what is written -/

theorem expNdx_pe {t : List Cell} {ix : MatrixIndex} (h : PosGrid t ix) {c : Cell} (hc : c ∈ t) :
    ix.expNdx c.pe = .ok (jOf ix c) := by
  have he := h.e1
  unfold MatrixIndex.expNdx
  have hn : (monthToId c.pe - ix.expOrigin) / ix.expResolution = (jOf ix c : Int) := by
    rw [(h.cell c hc).pe, pos_grid_j h hc]
    have : ix.expOrigin + (jOf ix c : Int) * ix.expResolution + ix.expResolution - 1 - ix.expOrigin =
        (ix.expResolution - 1) + ix.expResolution * (jOf ix c : Int) := by
      rw [Int.mul_comm]; omega
    rw [this, Int.add_mul_ediv_left _ _ (by omega : ix.expResolution ≠ 0),
      Int.ediv_eq_zero_of_lt (by omega) (by omega)]
    omega
  simp only [hn]
  have : ¬ ((jOf ix c : Int) < 0) := by omega
  rw [if_neg this]
  simp

/-- the item of one field of one cell -/
def gridItem (ix : MatrixIndex) (c : Cell) (kv : String × Val) : Option RichItem :=
  if ix.fields.contains kv.1 then
    some { si := siOf ix c, fi := fiOf ix kv.1, s := jOf ix c, e := jOf ix c, d := kOf ix c, pv := richValue kv.2 }
  else none

def plainAssign (it : RichItem) : Pos × Option RVal := ((it.si, it.fi, it.s, it.d), richPlain it.pv)

theorem antiDiag_self (j k : Nat) : antiDiag j j k = [(j, k)] := by
  unfold antiDiag
  have : j + 1 - j = 1 := by omega
  rw [this]
  simp [List.range_succ]

theorem itemsAssigns_single : ∀ (its : List RichItem) (id : Nat), (∀ it ∈ its, it.s = it.e) →
    itemsAssigns its id = its.map plainAssign
  | [], _, _ => rfl
  | it :: rest, id, h => by
    have hse : it.s = it.e := h it List.mem_cons_self
    have hb : (it.s == it.e) = true := by rw [hse]; exact beq_self_eq_true _
    unfold itemsAssigns
    rw [itemsAssigns_single rest _ (fun x hx => h x (List.mem_cons_of_mem _ hx))]
    simp only [itemAssigns, hb, if_true, List.map_cons, plainAssign]
    rfl

/-- all assignments of the filling loop for a triangle on the grid -/
def gridAssigns (ix : MatrixIndex) (t : List Cell) : List (Pos × Option RVal) :=
  ((t.map fun c => c.values.filterMap (gridItem ix c)).flatten).map plainAssign

theorem mem_holes {nS nF nP nD : Nat} {cov : List (Nat × Nat × Nat)} {as : List (Pos × Option RVal)} {p : Pos}
    (hp : p ∈ holes nS nF nP nD cov as) : lastAssign as p = none := by
  unfold holes at hp
  simp only [List.mem_flatMap, List.mem_range] at hp
  obtain ⟨i, _, j, _, k, _, hp⟩ := hp
  split at hp
  · obtain ⟨f, _, hf⟩ := List.mem_filterMap.mp hp
    split at hf
    · rename_i hnone
      cases hf
      exact Option.isNone_iff_eq_none.mp hnone
    · cases hf
  · cases hp

section rich1
variable {t : List Cell} {ix : MatrixIndex} (h : RichGrid t ix)
include h

theorem cellItems_grid {jmax kmax : Nat} {c : Cell} (hc : c ∈ t) (hj : jOf ix c ≤ jmax) (hk : kOf ix c ≤ kmax) :
    cellItems ix ix.fields (jmax + 1) (kmax + 1) c = .ok (c.values.filterMap (gridItem ix c)) := by
  unfold cellItems
  rw [mapM_ok_of_forall _ (gridItem ix c)]
  · show Except.ok (List.filterMap id (List.map (gridItem ix c) c.values)) = _
    rw [List.filterMap_map]
    rfl
  · intro kv _
    unfold richItem gridItem
    by_cases hf : ix.fields.contains kv.1 = true
    · have hfm : kv.1 ∈ ix.fields := by simpa using hf
      simp only [hf, Bool.not_true, Bool.false_eq_true, if_false, if_true]
      rw [(indexOf?_mem (pos_md_mem_slices h.pos hc)).1, (indexOf?_mem hfm).1]
      simp only
      rw [pos_expNdx_cell h.pos hc, pos_devLag_cell h.pos hc, pos_devNdx_lag h.pos hc, expNdx_pe h.pos hc]
      simp only [Except.bind, antiDiag_self]
      have : ([(jOf ix c, kOf ix c)].any fun p => decide (p.1 ≥ jmax + 1) || decide (p.2 ≥ kmax + 1)) = false := by
        simp only [List.any_cons, List.any_nil, Bool.or_false, Bool.or_eq_false_iff, decide_eq_false_iff_not]
        omega
      rw [this]
      rfl
    · simp only [hf, Bool.not_false, if_true]
      simp

/-- the matrix `triangle_to_rich_matrix` builds: the cells' values plus `MissingValue`s at positions
that hold nothing -/
theorem toRichWith_grid :
    ∃ jmax kmax hs, toRichWith ix ix.fields t =
        .ok { index := ix, nPeriods := jmax + 1, nDevs := kmax + 1,
              assigns := gridAssigns ix t ++ missingAssigns hs, incremental := firstIsIncremental t } ∧
      (∀ p ∈ hs, lastAssign (gridAssigns ix t) p = none) ∧
      (∀ c ∈ t, jOf ix c ≤ jmax) ∧ (∀ c ∈ t, kOf ix c ≤ kmax) := by
  obtain ⟨cl, hcl, hlast, hjmax⟩ := pos_lastPeriod_spec h.pos
  obtain ⟨cm, hcm, hmaxl, hkmax⟩ := pos_maxLag_spec h.pos
  obtain ⟨f0, frest, hfs⟩ : ∃ f0 frest, ix.fields = f0 :: frest := by
    cases hf : ix.fields with
    | nil => exact absurd hf h.fieldsNe
    | cons a l => exact ⟨a, l, rfl⟩
  have hitems : t.mapM (cellItems ix ix.fields (jOf ix cl + 1) (kOf ix cm + 1)) =
      .ok (t.map fun c => c.values.filterMap (gridItem ix c)) :=
    mapM_ok_of_forall _ _ t (fun c hc => cellItems_grid h hc (hjmax c hc) (hkmax c hc))
  have hsingle : ∀ it ∈ (t.map fun c => c.values.filterMap (gridItem ix c)).flatten, it.s = it.e := by
    intro it hit
    obtain ⟨l, hl, hil⟩ := List.mem_flatten.mp hit
    obtain ⟨c, _, rfl⟩ := List.mem_map.mp hl
    obtain ⟨kv, _, hkv⟩ := List.mem_filterMap.mp hil
    unfold gridItem at hkv
    split at hkv
    · cases hkv; rfl
    · cases hkv
  refine ⟨jOf ix cl, kOf ix cm,
    holes ix.slices.length ix.fields.length (jOf ix cl + 1) (kOf ix cm + 1)
      ((t.map fun c => c.values.filterMap (gridItem ix c)).flatten.flatMap itemCovered) (gridAssigns ix t),
    ?_, fun p hp => mem_holes hp, hjmax, hkmax⟩
  unfold toRichWith
  have hc0 : ix.fields.contains f0 = true := by rw [hfs]; simp
  conv => lhs; rw [hfs]
  simp only
  rw [← hfs, hc0]
  simp only [Bool.not_true, Bool.false_eq_true, if_false]
  rw [hlast, pos_expNdx_cell h.pos hcl, hmaxl, pos_devNdx_lag h.pos hcm]
  simp only [Except.bind]
  rw [hitems]
  simp only
  rw [itemsAssigns_single _ 0 hsingle]
  rfl

end rich1

/-! ### what is found -/

theorem back_richPlain (v : Val) : RVal.back? (richPlain (richValue v)) = backVal v := by
  cases v with
  | none => rfl
  | int i => rfl
  | flt q => rfl
  | arr a sh d =>
    match d with
    | [] => rfl
    | [q] => rfl
    | _ :: _ :: _ => rfl

theorem back_bind (o : Option Val) :
    RVal.back? (o.bind fun v => richPlain (richValue v)) = o.bind backVal := by
  cases o with
  | none => rfl
  | some v => exact back_richPlain v

/-- `MissingValue`s put where nothing is do not change what comes back -/
theorem back_append_missing {A : List (Pos × Option RVal)} {hs : List Pos}
    (hhs : ∀ p ∈ hs, lastAssign A p = none) (p : Pos) :
    RVal.back? (lastAssign (A ++ missingAssigns hs) p) = RVal.back? (lastAssign A p) := by
  unfold lastAssign
  rw [List.reverse_append, List.find?_append]
  cases hfind : (missingAssigns hs).reverse.find? (·.1 == p) with
  | none => simp
  | some e =>
    have hm := List.mem_reverse.mp (List.mem_of_find?_eq_some hfind)
    have hk : e.1 = p := by simpa using List.find?_some hfind
    unfold missingAssigns at hm
    obtain ⟨z, hz, rfl⟩ := List.mem_map.mp hm
    have hzm : z.1 ∈ hs := (List.of_mem_zip hz).1
    have := hhs z.1 hzm
    simp only at hk
    rw [hk] at this
    unfold lastAssign at this
    rw [this]
    simp [RVal.back?]

theorem mem_gridAssigns {t : List Cell} {ix : MatrixIndex} {e : Pos × Option RVal} :
    e ∈ gridAssigns ix t ↔ ∃ c ∈ t, ∃ kv ∈ c.values, kv.1 ∈ ix.fields ∧
      e = ((siOf ix c, fiOf ix kv.1, jOf ix c, kOf ix c), richPlain (richValue kv.2)) := by
  unfold gridAssigns
  constructor
  · intro he
    obtain ⟨it, hit, rfl⟩ := List.mem_map.mp he
    obtain ⟨l, hl, hil⟩ := List.mem_flatten.mp hit
    obtain ⟨c, hc, rfl⟩ := List.mem_map.mp hl
    obtain ⟨kv, hkv, hit⟩ := List.mem_filterMap.mp hil
    unfold gridItem at hit
    split at hit
    · rename_i hf
      cases hit
      exact ⟨c, hc, kv, hkv, by simpa using hf, rfl⟩
    · cases hit
  · rintro ⟨c, hc, kv, hkv, hf, rfl⟩
    have hcont : ix.fields.contains kv.1 = true := by simpa using hf
    refine List.mem_map.mpr ⟨(⟨siOf ix c, fiOf ix kv.1, jOf ix c, jOf ix c, kOf ix c, richValue kv.2⟩ : RichItem), ?_, rfl⟩
    refine List.mem_flatten.mpr ⟨_, List.mem_map.mpr ⟨c, hc, rfl⟩, List.mem_filterMap.mpr ⟨kv, hkv, ?_⟩⟩
    unfold gridItem
    rw [if_pos hcont]

section rich2
variable {t : List Cell} {ix : MatrixIndex} (h : RichGrid t ix)
include h

/-- at the position of cell `c` and index field `f`: the value of `f` in `c`, if it has one -/
theorem lastAssign_cell {c : Cell} (hc : c ∈ t) {f : String} (hf : f ∈ ix.fields) :
    lastAssign (gridAssigns ix t) (siOf ix c, fiOf ix f, jOf ix c, kOf ix c) =
      (Dict.get? c.values f).bind fun v => richPlain (richValue v) := by
  have hpos : ∀ e ∈ gridAssigns ix t, e.1 = (siOf ix c, fiOf ix f, jOf ix c, kOf ix c) →
      ∃ v, (f, v) ∈ c.values ∧ e.2 = richPlain (richValue v) := by
    intro e he hep
    obtain ⟨c', hc', kv, hkv, hkf, rfl⟩ := mem_gridAssigns.mp he
    simp only [Prod.mk.injEq] at hep
    obtain ⟨h1, h2, h3, h4⟩ := hep
    have hcc : c' = c := pos_position_inj h.pos hc' hc h1 h3 h4
    subst hcc
    have hff : kv.1 = f := findIdx_inj hkf hf h2
    exact ⟨kv.2, by rw [← hff]; exact hkv, rfl⟩
  unfold lastAssign
  cases hg : Dict.get? c.values f with
  | none =>
    simp only [Option.bind_none]
    cases hfind : (gridAssigns ix t).reverse.find? (·.1 == (siOf ix c, fiOf ix f, jOf ix c, kOf ix c)) with
    | none => rfl
    | some e =>
      exfalso
      have hm := List.mem_reverse.mp (List.mem_of_find?_eq_some hfind)
      have hk : e.1 = (siOf ix c, fiOf ix f, jOf ix c, kOf ix c) := by simpa using List.find?_some hfind
      obtain ⟨v, hv, _⟩ := hpos e hm hk
      exact (Dict.get?_eq_none_iff.mp hg) (List.mem_map_of_mem hv)
  | some v =>
    have hvm : (f, v) ∈ c.values := get?_mem hg
    simp only [Option.bind_some]
    have hmem : ((siOf ix c, fiOf ix f, jOf ix c, kOf ix c), richPlain (richValue v)) ∈ (gridAssigns ix t).reverse := by
      rw [List.mem_reverse]
      exact mem_gridAssigns.mpr ⟨c, hc, (f, v), hvm, hf, rfl⟩
    cases hfind : (gridAssigns ix t).reverse.find? (·.1 == (siOf ix c, fiOf ix f, jOf ix c, kOf ix c)) with
    | none =>
      exfalso
      have := List.find?_eq_none.mp hfind _ hmem
      simp at this
    | some e =>
      have hm := List.mem_reverse.mp (List.mem_of_find?_eq_some hfind)
      have hk : e.1 = (siOf ix c, fiOf ix f, jOf ix c, kOf ix c) := by simpa using List.find?_some hfind
      obtain ⟨v', hv', he2⟩ := hpos e hm hk
      have hvv : v' = v := by
        have h1 := get?_of_mem_nodup (h.cell c hc).nodup hv'
        simp only at h1
        rw [hg] at h1
        exact (Option.some.inj h1).symm
      simp [he2, hvv]

omit h in
/-- nothing is assigned at a position that is not the position of a cell -/
theorem lastAssign_elsewhere {i fi j k : Nat}
    (hno : ∀ c ∈ t, ¬ (siOf ix c = i ∧ jOf ix c = j ∧ kOf ix c = k)) :
    lastAssign (gridAssigns ix t) (i, fi, j, k) = none := by
  unfold lastAssign
  cases hfind : (gridAssigns ix t).reverse.find? (·.1 == (i, fi, j, k)) with
  | none => rfl
  | some e =>
    exfalso
    have hm := List.mem_reverse.mp (List.mem_of_find?_eq_some hfind)
    have hk : e.1 = (i, fi, j, k) := by simpa using List.find?_some hfind
    obtain ⟨c, hc, kv, _, _, rfl⟩ := mem_gridAssigns.mp hm
    simp only [Prod.mk.injEq] at hk
    exact hno c hc ⟨hk.1, hk.2.2.1, hk.2.2.2⟩

end rich2

/-! ### reading the matrix back -/

/-- the matrix written for a triangle on the grid -/
def richGridMatrix (ix : MatrixIndex) (t : List Cell) (jmax kmax : Nat) (hs : List Pos) : RichMatrix :=
  { index := ix, nPeriods := jmax + 1, nDevs := kmax + 1, assigns := gridAssigns ix t ++ missingAssigns hs,
    incremental := firstIsIncremental t }

theorem filterMap_zip_range {α β : Type} (l : List α) (g : Nat × α → Option β) (g' : α → Option β)
    (hg : ∀ i a, l[i]? = some a → g (i, a) = g' a) :
    (List.zip (List.range l.length) l).filterMap g = l.filterMap g' := by
  have h1 : (List.zip (List.range l.length) l).filterMap g =
      (List.zip (List.range l.length) l).filterMap (fun p => g' p.2) := by
    apply List.filterMap_congr
    intro p hp
    exact hg p.1 p.2 ((mem_zip_range l p.1 p.2).mp hp)
  rw [h1]
  have h2 : ((List.zip (List.range l.length) l).map Prod.snd).filterMap g' =
      (List.zip (List.range l.length) l).filterMap (fun p => g' p.2) := by
    rw [List.filterMap_map]; rfl
  rw [← h2, List.map_snd_zip (by simp)]

theorem findIdx_getElem_nodup {l : List String} (hnd : l.Nodup) {i : Nat} {f : String} (hf : l[i]? = some f) :
    l.findIdx (· == f) = i := by
  have hlt : i < l.length := by
    apply Classical.byContradiction
    intro hn
    rw [List.getElem?_eq_none (by omega)] at hf
    cases hf
  rw [List.getElem?_eq_getElem hlt] at hf
  have hfe : l[i] = f := Option.some.inj hf
  have hmem : f ∈ l := hfe ▸ List.getElem_mem hlt
  obtain ⟨_, hlt2, he⟩ := indexOf?_mem hmem
  exact (List.Nodup.getElem_inj_iff hnd).mp (he.trans hfe.symm)

theorem pos_grid_dates {t : List Cell} {ix : MatrixIndex} (h : PosGrid t ix) {c : Cell} (hc : c ∈ t) :
    idToMonth (ix.expOrigin + (jOf ix c : Int) * ix.expResolution) = c.ps ∧
    idToMonth (ix.expOrigin + ((jOf ix c : Int) + 1) * ix.expResolution - 1) false = c.pe ∧
    addMonths c.pe (matrixLag ix (kOf ix c)) = c.ev := by
  have g := h.cell c hc
  refine ⟨?_, ?_, ?_⟩
  · rw [← pos_grid_j h hc, idToMonth_true, yearOf_monthToId g.psv, monthOf_monthToId g.psv, ← g.ps1]
  · rw [idToMonth_false]
    have : ix.expOrigin + ((jOf ix c : Int) + 1) * ix.expResolution - 1 = monthToId c.pe := by
      rw [g.pe, pos_grid_j h hc]; ring
    rw [this]
    exact monthEndOf_monthToId g.pev g.pee
  · unfold matrixLag
    rw [← pos_grid_k h hc, addMonths_monthEnd_all c.pe (lagOf c) g.pee]
    unfold lagOf
    rw [show monthToId c.pe + (monthToId c.ev - monthToId c.pe) = monthToId c.ev by omega]
    exact monthEndOf_monthToId g.evv g.eve

section rich3
variable {t : List Cell} {ix : MatrixIndex} (h : RichGrid t ix) (jmax kmax : Nat) (hs : List Pos)
  (hhs : ∀ p ∈ hs, lastAssign (gridAssigns ix t) p = none)
include h hhs

/-- **every observed value lands at the index `MatrixIndex` resolves** (and comes back as `backVal`) -/
theorem back_get_cell {c : Cell} (hc : c ∈ t) {f : String} (hf : f ∈ ix.fields) :
    RVal.back? ((richGridMatrix ix t jmax kmax hs).get? (siOf ix c, fiOf ix f, jOf ix c, kOf ix c)) =
      (Dict.get? c.values f).bind backVal := by
  unfold RichMatrix.get? richGridMatrix
  simp only
  rw [back_append_missing hhs, lastAssign_cell h hc hf, back_bind]

omit h in
/-- **nothing else is non-missing** -/
theorem back_get_elsewhere {i fi j k : Nat}
    (hno : ∀ c ∈ t, ¬ (siOf ix c = i ∧ jOf ix c = j ∧ kOf ix c = k)) :
    RVal.back? ((richGridMatrix ix t jmax kmax hs).get? (i, fi, j, k)) = none := by
  unfold RichMatrix.get? richGridMatrix
  simp only
  rw [back_append_missing hhs, lastAssign_elsewhere hno]
  rfl

theorem richValues_cell {c : Cell} (hc : c ∈ t) :
    richValues (richGridMatrix ix t jmax kmax hs) (siOf ix c) (jOf ix c) (kOf ix c) = backValues ix.fields c := by
  unfold richValues backValues
  have hidx : (richGridMatrix ix t jmax kmax hs).index = ix := rfl
  rw [hidx]
  apply filterMap_zip_range
  intro i f hif
  have hfm : f ∈ ix.fields := List.mem_of_getElem? hif
  have hfi : fiOf ix f = i := findIdx_getElem_nodup h.fieldsNodup hif
  simp only
  rw [← hfi, back_get_cell h jmax kmax hs hhs hc hfm]

omit h in
theorem richValues_elsewhere {i j k : Nat}
    (hno : ∀ c ∈ t, ¬ (siOf ix c = i ∧ jOf ix c = j ∧ kOf ix c = k)) :
    richValues (richGridMatrix ix t jmax kmax hs) i j k = [] := by
  unfold richValues
  rw [List.filterMap_eq_nil_iff]
  intro p _
  rw [back_get_elsewhere jmax kmax hs hhs hno]
  rfl

theorem richCell_cell {c : Cell} (hc : c ∈ t) :
    richCell (richGridMatrix ix t jmax kmax hs) (siOf ix c) (jOf ix c) (kOf ix c) =
      .ok (richBack ix.fields c) := by
  have g := h.cell c hc
  obtain ⟨d1, d2, d3⟩ := pos_grid_dates h.pos hc
  have hmd : ix.slices[siOf ix c]?.getD {} = c.md := by
    obtain ⟨_, hlt, he⟩ := indexOf?_mem (pos_md_mem_slices h.pos hc)
    unfold siOf
    rw [List.getElem?_eq_getElem hlt, he]; rfl
  unfold richCell
  have hidx : (richGridMatrix ix t jmax kmax hs).index = ix := rfl
  have hinc : (richGridMatrix ix t jmax kmax hs).incremental = firstIsIncremental t := rfl
  simp only [hidx, hinc, richValues_cell h jmax kmax hs hhs hc, d1, d2, d3, hmd]
  unfold richBack
  cases hb : backValues ix.fields c with
  | nil => simp
  | cons a l =>
    simp only [List.isEmpty_cons, Bool.false_eq_true, if_false]
    cases hi : firstIsIncremental t with
    | false =>
      have hk := g.kind
      have hp := g.prev
      rw [hi] at hk hp
      simp only [Bool.false_eq_true, if_false] at hk hp
      have hkind : typedKind c.kind = .cumulative := by
        cases hck : c.kind <;> simp_all [typedKind]
      simp only [Bool.not_false, if_true]
      have heq : ({ kind := .cumulative, ps := c.ps, pe := c.pe, ev := c.ev, values := a :: l, md := c.md } : Cell) =
          { c with kind := typedKind c.kind, values := a :: l } := by
        rw [hkind]
        show Cell.mk _ _ _ _ none _ _ = Cell.mk _ _ _ _ c.prev _ _
        rw [hp]
      rw [heq]
      have hd : ({ c with kind := typedKind c.kind, values := a :: l } : Cell).datesOk = true := by
        have hdo := g.pos.dates
        unfold Cell.datesOk at hdo ⊢
        simp only [hkind, hp] at hdo ⊢
        cases hck : c.kind <;> simp_all
      unfold Cell.mk?
      rw [if_pos hd]
      rfl
    | true =>
      have hk := g.kind
      have hp := g.prev
      rw [hi] at hk hp
      simp only [if_true] at hk hp
      have hkind : typedKind c.kind = .incremental := by rw [hk]; rfl
      simp only [Bool.not_true, Bool.false_eq_true, if_false]
      have hprev : (if (kOf ix c == 0) = true then c.ps.pred else addMonths c.pe (matrixLag ix (kOf ix c - 1))) =
          gridPrev ix c := by
        unfold gridPrev
        by_cases hz : kOf ix c = 0
        · simp [hz]
        · simp [hz]
      rw [hprev]
      have heq : ({ kind := .incremental, ps := c.ps, pe := c.pe, ev := c.ev, prev := some (gridPrev ix c),
                    values := a :: l, md := c.md } : Cell) =
          { c with kind := typedKind c.kind, values := a :: l } := by
        rw [hkind]
        show Cell.mk _ _ _ _ (some (gridPrev ix c)) _ _ = Cell.mk _ _ _ _ c.prev _ _
        rw [hp]
      rw [heq]
      have hd : ({ c with kind := typedKind c.kind, values := a :: l } : Cell).datesOk = true := by
        have hdo := g.pos.dates
        unfold Cell.datesOk at hdo ⊢
        simp only [hkind]
        simp only [hk] at hdo
        exact hdo
      unfold Cell.mk?
      rw [if_pos hd]
      rfl

omit h in
theorem richCell_elsewhere {i j k : Nat}
    (hno : ∀ c ∈ t, ¬ (siOf ix c = i ∧ jOf ix c = j ∧ kOf ix c = k)) :
    richCell (richGridMatrix ix t jmax kmax hs) i j k = .ok none := by
  unfold richCell
  simp only [richValues_elsewhere jmax kmax hs hhs hno]
  simp

end rich3

/-! ### the round trip -/

/-- the pure content of `richCell` on the written matrix -/
def richCellAt (ix : MatrixIndex) (t : List Cell) (p : Nat × Nat × Nat) : Option Cell :=
  (t.find? fun c => siOf ix c == p.1 && jOf ix c == p.2.1 && kOf ix c == p.2.2).bind (richBack ix.fields)

theorem richBack_coords {F : List String} {c x : Cell} (hx : richBack F c = some x) :
    x.ps = c.ps ∧ x.pe = c.pe ∧ x.ev = c.ev ∧ x.md = c.md ∧ x.prev = c.prev ∧ x.kind = typedKind c.kind := by
  unfold richBack at hx
  split at hx
  · cases hx
  · cases hx
    exact ⟨rfl, rfl, rfl, rfl, rfl, rfl⟩

theorem cmp_richBack {F : List String} {a b x y : Cell} (hx : richBack F a = some x) (hy : richBack F b = some y) :
    Cell.cmp x y = Cell.cmp a b := by
  obtain ⟨a1, a2, a3, a4, a5, _⟩ := richBack_coords hx
  obtain ⟨b1, b2, b3, b4, b5, _⟩ := richBack_coords hy
  simp only [Cell.cmp, compareLex, cmpOn, a1, a2, a3, a4, a5, b1, b2, b3, b4, b5]

theorem sorted_eq_of_cmp_eq {t : List Cell} (hs : t.Pairwise (fun a b => Cell.cmp a b = .lt)) {x y : Cell}
    (hx : x ∈ t) (hy : y ∈ t) (hab : Cell.cmp x y = .eq) : x = y := by
  apply Classical.byContradiction
  intro hne
  obtain ⟨i, hi, rfl⟩ := List.getElem_of_mem hx
  obtain ⟨j, hj', rfl⟩ := List.getElem_of_mem hy
  have hij : i ≠ j := fun he => hne (by subst he; rfl)
  rcases Nat.lt_or_gt_of_ne hij with hlt | hgt
  · have := List.pairwise_iff_getElem.mp hs i j hi hj' hlt
    rw [hab] at this; cases this
  · have := List.pairwise_iff_getElem.mp hs j i hj' hi hgt
    rw [OrientedCmp.eq_swap (cmp := Cell.cmp), hab] at this
    cases this

section rich4
variable {t : List Cell} {ix : MatrixIndex} (h : RichGrid t ix) (jmax kmax : Nat) (hs : List Pos)
  (hhs : ∀ p ∈ hs, lastAssign (gridAssigns ix t) p = none)
  (hj : ∀ c ∈ t, jOf ix c ≤ jmax) (hk : ∀ c ∈ t, kOf ix c ≤ kmax)
include h hhs

theorem richCell_eq_cellAt (p : Nat × Nat × Nat) :
    richCell (richGridMatrix ix t jmax kmax hs) p.1 p.2.1 p.2.2 = .ok (richCellAt ix t p) := by
  unfold richCellAt
  cases hf : t.find? (fun c => siOf ix c == p.1 && jOf ix c == p.2.1 && kOf ix c == p.2.2) with
  | some c =>
    have hc := List.mem_of_find?_eq_some hf
    have hp := List.find?_some hf
    simp only [Bool.and_eq_true, beq_iff_eq] at hp
    obtain ⟨⟨h1, h2⟩, h3⟩ := hp
    rw [← h1, ← h2, ← h3]
    exact richCell_cell h jmax kmax hs hhs hc
  | none =>
    apply richCell_elsewhere jmax kmax hs hhs
    intro c hc hpos
    have := List.find?_eq_none.mp hf c hc
    simp [hpos.1, hpos.2.1, hpos.2.2] at this

theorem fromRich_grid_cells :
    ((List.range ix.slices.length).mapM fun i =>
      (List.range (jmax + 1)).mapM fun j =>
        (List.range (kmax + 1)).mapM fun k => richCell (richGridMatrix ix t jmax kmax hs) i j k) =
    .ok ((List.range ix.slices.length).map fun i => (List.range (jmax + 1)).map fun j =>
      (List.range (kmax + 1)).map fun k => richCellAt ix t (i, j, k)) := by
  apply mapM_ok_of_forall
  intro i _
  apply mapM_ok_of_forall
  intro j _
  apply mapM_ok_of_forall
  intro k _
  exact richCell_eq_cellAt h jmax kmax hs hhs (i, j, k)

omit hhs in
theorem richBack_inj {a b x : Cell} (ha : a ∈ t) (hb : b ∈ t) (hx : richBack ix.fields a = some x)
    (hy : richBack ix.fields b = some x) : a = b := by
  apply sorted_eq_of_cmp_eq h.sorted ha hb
  rw [← cmp_richBack hx hy]
  exact ReflCmp.compare_self (cmp := Cell.cmp)

end rich4

def richCells (ix : MatrixIndex) (t : List Cell) (jmax kmax : Nat) : List Cell :=
  (triples ix.slices.length (jmax + 1) (kmax + 1)).filterMap (richCellAt ix t)

section rich5
variable {t : List Cell} {ix : MatrixIndex} (h : RichGrid t ix) (jmax kmax : Nat)
  (hj : ∀ c ∈ t, jOf ix c ≤ jmax) (hk : ∀ c ∈ t, kOf ix c ≤ kmax)
include h hj hk

omit h hj hk in
theorem cellAt_spec {p : Nat × Nat × Nat} {x : Cell} (hx : richCellAt ix t p = some x) :
    ∃ c ∈ t, richBack ix.fields c = some x ∧ p = (siOf ix c, jOf ix c, kOf ix c) := by
  unfold richCellAt at hx
  cases hf : t.find? (fun c => siOf ix c == p.1 && jOf ix c == p.2.1 && kOf ix c == p.2.2) with
  | none => simp [hf] at hx
  | some c =>
    simp only [hf, Option.bind_some] at hx
    have hp := List.find?_some hf
    simp only [Bool.and_eq_true, beq_iff_eq] at hp
    exact ⟨c, List.mem_of_find?_eq_some hf, hx, by rw [hp.1.1, hp.1.2, hp.2]⟩

theorem mem_richCells {x : Cell} :
    x ∈ richCells ix t jmax kmax ↔ ∃ c ∈ t, richBack ix.fields c = some x := by
  unfold richCells
  rw [List.mem_filterMap]
  constructor
  · rintro ⟨p, _, hp⟩
    obtain ⟨c, hc, hx, _⟩ := cellAt_spec hp
    exact ⟨c, hc, hx⟩
  · rintro ⟨c, hc, hx⟩
    refine ⟨(siOf ix c, jOf ix c, kOf ix c), mem_triples.mpr ⟨?_, ?_, ?_⟩, ?_⟩
    · exact (indexOf?_mem (pos_md_mem_slices h.pos hc)).2.1
    · have := hj c hc; simp only; omega
    · have := hk c hc; simp only; omega
    · unfold richCellAt
      cases hf : t.find? (fun c' => siOf ix c' == (siOf ix c, jOf ix c, kOf ix c).1 &&
          jOf ix c' == (siOf ix c, jOf ix c, kOf ix c).2.1 && kOf ix c' == (siOf ix c, jOf ix c, kOf ix c).2.2) with
      | none =>
        have := List.find?_eq_none.mp hf c hc
        simp at this
      | some c' =>
        have hc' := List.mem_of_find?_eq_some hf
        have hp := List.find?_some hf
        simp only [Bool.and_eq_true, beq_iff_eq] at hp
        have : c' = c := pos_position_inj h.pos hc' hc hp.1.1 hp.1.2 hp.2
        rw [this]
        exact hx

omit hj hk in
theorem richCells_nodup : (richCells ix t jmax kmax).Nodup := by
  unfold richCells
  apply List.Nodup.filterMap _ (triples_nodup _ _ _)
  intro p p' x hx hx'
  obtain ⟨c, hc, hb, rfl⟩ := cellAt_spec hx
  obtain ⟨c', hc', hb', rfl⟩ := cellAt_spec hx'
  rw [richBack_inj h hc hc' hb hb']

end rich5

/-- **fromRich_toRich**, for a given index: a triangle on the index grid goes into the rich matrix and
comes back as exactly its cells that hold a value of an index field. -/
theorem fromRich_toRichWith {t : List Cell} {ix : MatrixIndex} (h : RichGrid t ix) :
    (toRichWith ix ix.fields t).bind fromRich = .ok (t.filterMap (richBack ix.fields)) := by
  obtain ⟨jmax, kmax, hs, hM, hhs, hj, hk⟩ := toRichWith_grid h
  rw [hM]
  simp only [Except.bind]
  change fromRich (richGridMatrix ix t jmax kmax hs) = _
  unfold fromRich
  have hidx : (richGridMatrix ix t jmax kmax hs).index = ix := rfl
  have hnp : (richGridMatrix ix t jmax kmax hs).nPeriods = jmax + 1 := rfl
  have hnd : (richGridMatrix ix t jmax kmax hs).nDevs = kmax + 1 := rfl
  rw [hidx, hnp, hnd, fromRich_grid_cells h jmax kmax hs hhs]
  simp only [Except.bind]
  rw [nested_eq_triples (fun i j k => richCellAt ix t (i, j, k)), List.filterMap_map]
  change Triangle.ofCells (richCells ix t jmax kmax) = _
  -- the cells that come back, in triangle order
  have hpw : (t.filterMap (richBack ix.fields)).Pairwise (fun a b => Cell.cmp a b = .lt) := by
    have hs' : t.Pairwise (fun a b => a ∈ t ∧ b ∈ t ∧ Cell.cmp a b = .lt) := by
      rw [List.pairwise_iff_getElem]
      intro i j hi hj' hij
      exact ⟨List.getElem_mem hi, List.getElem_mem hj', List.pairwise_iff_getElem.mp h.sorted i j hi hj' hij⟩
    refine List.Pairwise.filterMap _ ?_ hs'
    intro a a' ⟨_, _, hlt⟩ b hb b' hb'
    rw [cmp_richBack (Option.mem_def.mp hb) (Option.mem_def.mp hb'), hlt]
  have hnodupR : (t.filterMap (richBack ix.fields)).Nodup := by
    refine hpw.imp ?_
    intro a b hab he
    subst he
    rw [ReflCmp.compare_self (cmp := Cell.cmp)] at hab
    cases hab
  have hperm : (richCells ix t jmax kmax).Perm (t.filterMap (richBack ix.fields)) := by
    rw [List.perm_ext_iff_of_nodup (richCells_nodup h jmax kmax) hnodupR]
    intro x
    rw [mem_richCells h jmax kmax hj hk, List.mem_filterMap]
  have hkc : kindsConsistent (richCells ix t jmax kmax) = true := by
    unfold kindsConsistent
    cases hi : firstIsIncremental t with
    | false =>
      have : (richCells ix t jmax kmax).all (·.kind == .cumulative) = true := by
        rw [List.all_eq_true]
        intro x hx
        obtain ⟨c, hc, hb⟩ := (mem_richCells h jmax kmax hj hk).mp hx
        have hkk := (h.cell c hc).kind
        rw [hi] at hkk
        simp only [Bool.false_eq_true, if_false] at hkk
        rw [(richBack_coords hb).2.2.2.2.2]
        cases hck : c.kind <;> simp_all [typedKind]
      simp [this]
    | true =>
      have : (richCells ix t jmax kmax).all (·.kind == .incremental) = true := by
        rw [List.all_eq_true]
        intro x hx
        obtain ⟨c, hc, hb⟩ := (mem_richCells h jmax kmax hj hk).mp hx
        have hkk := (h.cell c hc).kind
        rw [hi] at hkk
        simp only [if_true] at hkk
        rw [(richBack_coords hb).2.2.2.2.2, hkk]
        rfl
      simp [this]
  unfold Triangle.ofCells
  rw [if_pos hkc]
  have hsort : (richCells ix t jmax kmax).mergeSort Cell.le = t.filterMap (richBack ix.fields) := by
    have := mergeSort_perm_invariant (cmp := Cell.cmp) hperm (by
      intro a b ha hb hab
      obtain ⟨x, hx, hbx⟩ := (mem_richCells h jmax kmax hj hk).mp ha
      obtain ⟨y, hy, hby⟩ := (mem_richCells h jmax kmax hj hk).mp hb
      rw [cmp_richBack hbx hby] at hab
      have : x = y := sorted_eq_of_cmp_eq h.sorted hx hy hab
      subst this
      rw [hbx] at hby
      exact Option.some.inj hby)
    show (richCells ix t jmax kmax).mergeSort (leOf Cell.cmp) = _
    rw [this]
    apply List.mergeSort_of_pairwise
    refine hpw.imp ?_
    intro a b hlt
    unfold leOf; rw [hlt]; rfl
  rw [hsort]

/-! ### the public call, the inferred index, the Spec bridge -/

theorem richSpec_iff {F : List String} {t out : List Cell} :
    richSpec F t out = true ↔ out = t.filterMap (richBack F) := by
  unfold richSpec
  exact beq_iff_eq

theorem isMonthly_of_pos {t : List Cell} {ix : MatrixIndex} (h : PosGrid t ix) : isMonthly t = true := by
  unfold isMonthly
  rw [List.all_eq_true]
  intro c hc
  have g := h.cell c hc
  simp [g.ps1, g.pee, g.eve]

/-- `triangle_to_rich_matrix(tri, eval_resolution, fields)` / `rich_matrix_to_triangle` whenever the index
built by `MatrixIndex.from_triangle` puts the triangle on its grid (`fields` not the empty list) -/
theorem fromRich_toRich_of_index {t : List Cell} {ix : MatrixIndex} {evalRes : Option Int}
    {fields : Option (List String)} (hf : fields ≠ some [])
    (hix : MatrixIndex.ofTriangleWith t evalRes fields = .ok ix) (h : RichGrid t ix) :
    (toRich t evalRes fields).bind fromRich = .ok (t.filterMap (richBack ix.fields)) := by
  have hne : t.isEmpty = false := by
    cases ht : t with
    | nil => exact absurd ht h.ne
    | cons a l => rfl
  have hlocal : localFields t fields = ix.fields := by
    unfold MatrixIndex.ofTriangleWith at hix
    split at hix
    · rename_i e1 e2 e3
      cases hi : indexFields t fields with
      | error e => simp [hi, Except.bind] at hix
      | ok fs =>
        simp only [hi, Except.bind] at hix
        cases hd : indexDevResolution (evalDateResolution t) evalRes with
        | error e => simp [hd] at hix
        | ok d =>
          simp only [hd] at hix
          cases hix
          simp only
          unfold indexFields at hi
          unfold localFields
          match fields, hf, hi with
          | some (f :: fs'), _, hi => cases hi; rfl
          | none, _, hi =>
            simp only at hi
            split at hi
            · cases hi
            · cases hi; rfl
    all_goals cases hix
  unfold toRich
  simp only [hne, isMonthly_of_pos h.pos, Bool.not_true, Bool.false_eq_true, if_false, hix, Except.bind, hlocal]
  exact fromRich_toRichWith h

/-- the default call builds the index `MatrixIndex.ofTriangle` of the plain Matrix form -/
theorem ofTriangleWith_default {t : List Cell} {ix : MatrixIndex} (hix : MatrixIndex.ofTriangle t = .ok ix)
    (hd : ix.devResolution ≠ 0) (hf : ix.fields ≠ []) : MatrixIndex.ofTriangleWith t none none = .ok ix := by
  unfold MatrixIndex.ofTriangle at hix
  unfold MatrixIndex.ofTriangleWith
  split at hix
  · rename_i eo er dor dr h1 h2 h3 h4
    cases hix
    simp only at hd hf
    rw [h1, h2, h3]
    simp only
    have hfs : indexFields t none = .ok (sortStrings (allFields t)) := by
      unfold indexFields
      cases hs : sortStrings (allFields t) with
      | nil => exact absurd hs hf
      | cons a l => rfl
    have hdr : indexDevResolution (evalDateResolution t) none = .ok dr := by
      unfold indexDevResolution
      rw [h4]
      have : (some dr : Option Int).filter (· != 0) = some dr := by
        simp [Option.filter, hd]
      simp [this]
    rw [hfs, hdr]
    rfl
  all_goals cases hix

theorem OnGrid.rich {t : List Cell} {ix : MatrixIndex} (h : OnGrid t ix) : RichGrid t ix where
  ne := h.ne
  sorted := h.sorted
  slices := h.slices
  e1 := h.e1
  s1 := h.s1
  fieldsNodup := fields_nodup h
  fieldsNe := by
    obtain ⟨c, hc⟩ := List.exists_mem_of_ne_nil _ h.ne
    obtain ⟨kv, hkv⟩ := List.exists_mem_of_ne_nil _ (h.cell c hc).vne
    intro he
    have := field_mem_fields h hc hkv
    rw [he] at this
    cases this
  cell := by
    intro c hc
    have g := h.cell c hc
    rw [not_incremental h]
    exact { pos := (h.pos.cell c hc), kind := by simpa using g.notInc, prev := by simpa using g.prev,
            nodup := g.nodup }

/-! ### structure of the written matrix -/

theorem lastAssign_append_missing {A : List (Pos × Option RVal)} {hs : List Pos}
    (hhs : ∀ p ∈ hs, lastAssign A p = none) (p : Pos) :
    lastAssign (A ++ missingAssigns hs) p = lastAssign A p ∨
      (lastAssign A p = none ∧ ∃ id, lastAssign (A ++ missingAssigns hs) p = some (.missing id)) := by
  unfold lastAssign
  rw [List.reverse_append, List.find?_append]
  cases hfind : (missingAssigns hs).reverse.find? (·.1 == p) with
  | none => left; simp
  | some e =>
    right
    have hm := List.mem_reverse.mp (List.mem_of_find?_eq_some hfind)
    have hk : e.1 = p := by simpa using List.find?_some hfind
    unfold missingAssigns at hm
    obtain ⟨z, hz, rfl⟩ := List.mem_map.mp hm
    have hzm : z.1 ∈ hs := (List.of_mem_zip hz).1
    have := hhs z.1 hzm
    simp only at hk
    rw [hk] at this
    unfold lastAssign at this
    exact ⟨this, z.2, by simp⟩

/-- the value entry a cell value asks for (`None` asks for nothing) -/
def wanted (c : Cell) (f : String) : Option RVal := (Dict.get? c.values f).bind fun v => richPlain (richValue v)

/-- **placement.** The rich matrix of a triangle on the grid: dimensions hold every cell; every value
of an index field is stored — as the plain number or the `PredictedValue` — at the position
`(slice, field, period, development)` the index resolves for its cell; and every other non-`None`
entry is a `MissingValue`. -/
theorem toRichWith_placement {t : List Cell} {ix : MatrixIndex} (h : RichGrid t ix) :
    ∃ M, toRichWith ix ix.fields t = .ok M ∧ M.index = ix ∧ M.incremental = firstIsIncremental t ∧
      (∀ c ∈ t, jOf ix c < M.nPeriods ∧ kOf ix c < M.nDevs) ∧
      (∀ c ∈ t, ∀ f ∈ ix.fields, ∀ v, wanted c f = some v →
        M.get? (siOf ix c, fiOf ix f, jOf ix c, kOf ix c) = some v) ∧
      (∀ p v, M.get? p = some v → (∃ id, v = .missing id) ∨
        ∃ c ∈ t, ∃ f ∈ ix.fields, p = (siOf ix c, fiOf ix f, jOf ix c, kOf ix c) ∧ wanted c f = some v) := by
  obtain ⟨jmax, kmax, hs, hM, hhs, hj, hk⟩ := toRichWith_grid h
  refine ⟨_, hM, rfl, rfl, ?_, ?_, ?_⟩
  · intro c hc
    have := hj c hc
    have := hk c hc
    simp only
    omega
  · intro c hc f hf v hv
    unfold RichMatrix.get?
    simp only
    rcases lastAssign_append_missing hhs (siOf ix c, fiOf ix f, jOf ix c, kOf ix c) with h1 | ⟨h1, _⟩
    · rw [h1, lastAssign_cell h hc hf]; exact hv
    · rw [lastAssign_cell h hc hf] at h1
      unfold wanted at hv
      rw [h1] at hv; cases hv
  · intro p v hv
    unfold RichMatrix.get? at hv
    simp only at hv
    rcases lastAssign_append_missing hhs p with h1 | ⟨_, id, h2⟩
    · right
      rw [h1] at hv
      have hv' := hv
      unfold lastAssign at hv'
      cases hfind : (gridAssigns ix t).reverse.find? (·.1 == p) with
      | none => simp [hfind] at hv'
      | some e =>
        have hm := List.mem_reverse.mp (List.mem_of_find?_eq_some hfind)
        have hk' : e.1 = p := by simpa using List.find?_some hfind
        obtain ⟨c, hc, kv, _, hkf, rfl⟩ := mem_gridAssigns.mp hm
        simp only at hk'
        refine ⟨c, hc, kv.1, hkf, hk'.symm, ?_⟩
        have := lastAssign_cell h hc hkf
        rw [hk'] at this
        unfold wanted
        rw [← this]
        exact hv
    · left
      rw [h2] at hv
      exact ⟨id, (Option.some.inj hv).symm⟩

end Bermuda.Frame
