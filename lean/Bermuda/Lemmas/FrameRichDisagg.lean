/-
C14, rich matrix — the parts of `triangle_to_rich_matrix` beyond the single-step grid:
* the anti-diagonal of a cell whose period spans several index periods, and the exact `IndexError`
  condition (`richItem_spec`, `antiDiag_outside_iff`);
* the ids of `DisaggregatedValue` / `DisaggregatedPredictedValue`: one id per (cell, field) item whose
  period spans several index periods, numbered 0, 1, 2, … in program order, shared by all entries of that
  item (`itemsAssigns_spec`);
* the `MissingValue`s: exactly one per position that is covered, inside the array and still `None` after the
  filling loop, numbered 0, 1, 2, … in the scan order slice, period, development, field
  (`mem_holes_iff`, `holes_sorted`, `missingAssigns_getElem`, `toRichWith_shape`);
* `rich_matrix_to_triangle` ignores missing and disaggregated entries (`back?_not_value`).
-/
import Bermuda.Lemmas.FrameRich
namespace Bermuda.Frame
open Bermuda Bermuda.Spec.C14 Std

/-! ### the anti-diagonal and the `IndexError` -/

theorem mem_antiDiag {s e d : Nat} {p : Nat × Nat} :
    p ∈ antiDiag s e d ↔ ∃ i, i ≤ e - s ∧ s ≤ e ∧ p = (e - i, d + i) := by
  unfold antiDiag
  simp only [List.mem_map, List.mem_range]
  constructor
  · rintro ⟨i, hi, rfl⟩
    exact ⟨i, by omega, by omega, rfl⟩
  · rintro ⟨i, hi, hse, rfl⟩
    exact ⟨i, by omega, rfl⟩

theorem antiDiag_length (s e d : Nat) : (antiDiag s e d).length = e + 1 - s := by
  unfold antiDiag; simp

/-- every entry of the anti-diagonal of `(s, e, d)` lies in periods `s … e`, one development step later
per period earlier -/
theorem antiDiag_range {s e d : Nat} {p : Nat × Nat} (hp : p ∈ antiDiag s e d) :
    s ≤ p.1 ∧ p.1 ≤ e ∧ p.1 + p.2 = e + d := by
  obtain ⟨i, hi, hse, rfl⟩ := mem_antiDiag.mp hp
  simp only
  omega

/-- **the `IndexError` condition**: some mark of the anti-diagonal falls outside an `nP × nD` array iff the
cell's last period index is outside, or its first period's development index `d + (e - s)` is -/
theorem antiDiag_outside_iff (s e d nP nD : Nat) :
    ((antiDiag s e d).any fun p => decide (p.1 ≥ nP) || decide (p.2 ≥ nD)) = true ↔
      s ≤ e ∧ (nP ≤ e ∨ nD ≤ d + (e - s)) := by
  rw [List.any_eq_true]
  constructor
  · rintro ⟨p, hp, hout⟩
    obtain ⟨i, hi, hse, rfl⟩ := mem_antiDiag.mp hp
    simp only [Bool.or_eq_true, decide_eq_true_eq] at hout
    refine ⟨hse, ?_⟩
    rcases hout with h | h
    · left; omega
    · right; omega
  · rintro ⟨hse, h | h⟩
    · exact ⟨(e, d), mem_antiDiag.mpr ⟨0, by omega, hse, by simp⟩, by simp; left; exact h⟩
    · refine ⟨(s, d + (e - s)), mem_antiDiag.mpr ⟨e - s, by omega, hse, ?_⟩, by simp; right; exact h⟩
      simp only [Prod.mk.injEq, and_true]
      omega

/-- **one field of one cell**, once the four index look-ups succeed: `IndexError` exactly under the
condition above, else the item with the resolved indices -/
theorem richItem_spec {ix : MatrixIndex} {fields : List String} {nP nD : Nat} {c : Cell} {kv : String × Val}
    {si fi s d e : Nat} (hf : fields.contains kv.1 = true)
    (hsi : indexOf? ix.slices c.md = some si) (hfi : indexOf? ix.fields kv.1 = some fi)
    (hs : ix.expNdx c.ps = .ok s) (hd : ix.devNdx (c.devLag .month) = .ok d) (he : ix.expNdx c.pe = .ok e) :
    richItem ix fields nP nD c kv =
      if s ≤ e ∧ (nP ≤ e ∨ nD ≤ d + (e - s)) then .error .indexError
      else .ok (some { si := si, fi := fi, s := s, e := e, d := d, pv := richValue kv.2 }) := by
  unfold richItem
  simp only [hf, Bool.not_true, Bool.false_eq_true, if_false, hsi, hfi, hs, hd, he, Except.bind]
  by_cases hout : s ≤ e ∧ (nP ≤ e ∨ nD ≤ d + (e - s))
  · rw [if_pos hout, if_pos ((antiDiag_outside_iff s e d nP nD).mpr hout)]
  · rw [if_neg hout]
    have : ¬ ((antiDiag s e d).any fun p => decide (p.1 ≥ nP) || decide (p.2 ≥ nD)) = true :=
      fun h => hout ((antiDiag_outside_iff s e d nP nD).mp h)
    rw [if_neg this]

/-- a field outside `fields` is skipped -/
theorem richItem_skipped {ix : MatrixIndex} {fields : List String} {nP nD : Nat} {c : Cell} {kv : String × Val}
    (hf : fields.contains kv.1 = false) : richItem ix fields nP nD c kv = .ok none := by
  unfold richItem
  simp only [hf, Bool.not_false, if_true]

/-! ### disaggregation ids -/

/-- is the item disaggregated (its period spans several index periods)? -/
def RichItem.spans (it : RichItem) : Bool := !(it.s == it.e)

/-- `next_disagg_id` before each item: the number of spanning items before it (from `id`) -/
def disaggIds : List RichItem → Nat → List Nat
  | [], _ => []
  | it :: rest, id => id :: disaggIds rest (if it.s == it.e then id else id + 1)

theorem disaggIds_length : ∀ (its : List RichItem) (id : Nat), (disaggIds its id).length = its.length
  | [], _ => rfl
  | it :: rest, id => by simp [disaggIds, disaggIds_length rest]

/-- **the ids are the running count of spanning items** -/
theorem disaggIds_getElem : ∀ (its : List RichItem) (id n : Nat) (h : n < (disaggIds its id).length),
    (disaggIds its id)[n] = id + ((its.take n).filter RichItem.spans).length
  | it :: rest, id, 0, _ => by simp [disaggIds]
  | it :: rest, id, n + 1, h => by
    simp only [disaggIds, List.getElem_cons_succ, List.take_succ_cons, List.filter_cons]
    rw [disaggIds_getElem rest _ n (by simpa [disaggIds] using h)]
    by_cases hse : (it.s == it.e) = true
    · simp [RichItem.spans, hse]
    · simp only [Bool.not_eq_true] at hse
      simp [RichItem.spans, hse]
      omega

/-- **the filling loop**: every item writes its own assignments with the id it found -/
theorem itemsAssigns_spec : ∀ (its : List RichItem) (id : Nat),
    itemsAssigns its id = ((its.zip (disaggIds its id)).map fun p => itemAssigns p.1 p.2).flatten
  | [], _ => rfl
  | it :: rest, id => by
    simp only [itemsAssigns, disaggIds, List.zip_cons_cons, List.map_cons, List.flatten_cons]
    rw [itemsAssigns_spec rest]

/-- a single-step item writes ONE entry: the value itself (or `None`) -/
theorem itemAssigns_single {it : RichItem} (h : it.spans = false) (id : Nat) :
    itemAssigns it id = [((it.si, it.fi, it.s, it.d), richPlain it.pv)] := by
  unfold RichItem.spans at h
  have : (it.s == it.e) = true := by simpa using h
  unfold itemAssigns
  rw [if_pos this]

/-- a spanning item writes its anti-diagonal, every entry the SAME disaggregated value with the item's id:
`DisaggregatedPredictedValue(id, array)` for a sample array, `DisaggregatedValue(id, value)` otherwise
(also for `None`) -/
theorem itemAssigns_spans {it : RichItem} (h : it.spans = true) (id : Nat) :
    itemAssigns it id = (antiDiag it.s it.e it.d).map fun p =>
      ((it.si, it.fi, p.1, p.2),
       some (if it.pv.1 then RVal.disaggPred id it.pv.2 else RVal.disagg id it.pv.2)) := by
  unfold RichItem.spans at h
  have : ¬ (it.s == it.e) = true := by simpa using h
  unfold itemAssigns
  rw [if_neg this]

/-- the entries an item writes all carry its id (or are plain) -/
theorem itemAssigns_ids {it : RichItem} {id : Nat} {e : Pos × Option RVal} (he : e ∈ itemAssigns it id) :
    (it.spans = false ∧ e.2 = richPlain it.pv) ∨
    (it.spans = true ∧ (e.2 = some (.disagg id it.pv.2) ∨ e.2 = some (.disaggPred id it.pv.2))) := by
  cases hsp : it.spans with
  | false =>
    rw [itemAssigns_single hsp] at he
    left
    simp only [List.mem_singleton] at he
    exact ⟨rfl, by rw [he]⟩
  | true =>
    rw [itemAssigns_spans hsp] at he
    right
    obtain ⟨p, _, rfl⟩ := List.mem_map.mp he
    refine ⟨rfl, ?_⟩
    cases it.pv.1 <;> simp

/-! ### `MissingValue`s -/

/-- the scan order of the missing-value loop: slice, period, development, field -/
def scanLt (p q : Pos) : Prop :=
  p.1 < q.1 ∨ (p.1 = q.1 ∧ (p.2.2.1 < q.2.2.1 ∨ (p.2.2.1 = q.2.2.1 ∧
    (p.2.2.2 < q.2.2.2 ∨ (p.2.2.2 = q.2.2.2 ∧ p.2.1 < q.2.1)))))

/-- **which positions get a `MissingValue`**: inside the array, covered by some cell, still `None` -/
theorem mem_holes_iff {nS nF nP nD : Nat} {cov : List (Nat × Nat × Nat)} {as : List (Pos × Option RVal)} {p : Pos} :
    p ∈ holes nS nF nP nD cov as ↔
      p.1 < nS ∧ p.2.1 < nF ∧ p.2.2.1 < nP ∧ p.2.2.2 < nD ∧ (p.1, p.2.2.1, p.2.2.2) ∈ cov ∧
        lastAssign as p = none := by
  unfold holes
  simp only [List.mem_flatMap, List.mem_range]
  constructor
  · rintro ⟨i, hi, j, hj, k, hk, hp⟩
    split at hp
    · rename_i hc
      obtain ⟨f, hf, hpf⟩ := List.mem_filterMap.mp hp
      split at hpf
      · rename_i hnone
        cases hpf
        exact ⟨hi, List.mem_range.mp hf, hj, hk, by simpa using hc, Option.isNone_iff_eq_none.mp hnone⟩
      · cases hpf
    · cases hp
  · rintro ⟨h1, h2, h3, h4, h5, h6⟩
    obtain ⟨i, f, j, k⟩ := p
    refine ⟨i, h1, j, h3, k, h4, ?_⟩
    have hc : cov.contains (i, j, k) = true := by simpa using h5
    rw [if_pos hc]
    refine List.mem_filterMap.mpr ⟨f, List.mem_range.mpr h2, ?_⟩
    rw [h6]
    rfl

theorem pairwise_range_lt (n : Nat) : (List.range n).Pairwise (· < ·) := by
  simpa using List.pairwise_lt_range (n := n)

/-- **the scan order**: the holes come out sorted by slice, period, development, field (hence without
repetition) -/
theorem holes_sorted (nS nF nP nD : Nat) (cov : List (Nat × Nat × Nat)) (as : List (Pos × Option RVal)) :
    (holes nS nF nP nD cov as).Pairwise scanLt := by
  unfold holes
  rw [List.pairwise_flatMap]
  constructor
  · intro i _
    rw [List.pairwise_flatMap]
    constructor
    · intro j _
      rw [List.pairwise_flatMap]
      constructor
      · intro k _
        split
        · rw [List.pairwise_filterMap]
          refine (pairwise_range_lt nF).imp ?_
          intro f f' hff p hp q hq
          split at hp <;> cases hp
          split at hq <;> cases hq
          unfold scanLt
          right; refine ⟨rfl, ?_⟩; right; refine ⟨rfl, ?_⟩; right; exact ⟨rfl, hff⟩
        · exact List.Pairwise.nil
      · refine (pairwise_range_lt nD).imp ?_
        intro k k' hkk p hp q hq
        split at hp
        · split at hq
          · obtain ⟨f, _, hpf⟩ := List.mem_filterMap.mp hp
            obtain ⟨f', _, hqf⟩ := List.mem_filterMap.mp hq
            split at hpf <;> cases hpf
            split at hqf <;> cases hqf
            unfold scanLt
            right; refine ⟨rfl, ?_⟩; right; refine ⟨rfl, ?_⟩; left; exact hkk
          · cases hq
        · cases hp
    · refine (pairwise_range_lt nP).imp ?_
      intro j j' hjj p hp q hq
      obtain ⟨k, _, hp⟩ := List.mem_flatMap.mp hp
      obtain ⟨k', _, hq⟩ := List.mem_flatMap.mp hq
      split at hp
      · split at hq
        · obtain ⟨f, _, hpf⟩ := List.mem_filterMap.mp hp
          obtain ⟨f', _, hqf⟩ := List.mem_filterMap.mp hq
          split at hpf <;> cases hpf
          split at hqf <;> cases hqf
          unfold scanLt
          right; refine ⟨rfl, ?_⟩; left; exact hjj
        · cases hq
      · cases hp
  · refine (pairwise_range_lt nS).imp ?_
    intro i i' hii p hp q hq
    obtain ⟨j, _, hp⟩ := List.mem_flatMap.mp hp
    obtain ⟨k, _, hp⟩ := List.mem_flatMap.mp hp
    obtain ⟨j', _, hq⟩ := List.mem_flatMap.mp hq
    obtain ⟨k', _, hq⟩ := List.mem_flatMap.mp hq
    split at hp
    · split at hq
      · obtain ⟨f, _, hpf⟩ := List.mem_filterMap.mp hp
        obtain ⟨f', _, hqf⟩ := List.mem_filterMap.mp hq
        split at hpf <;> cases hpf
        split at hqf <;> cases hqf
        unfold scanLt
        left; exact hii
      · cases hq
    · cases hp

theorem scanLt_irrefl (p : Pos) : ¬ scanLt p p := by
  unfold scanLt
  omega

theorem holes_nodup (nS nF nP nD : Nat) (cov : List (Nat × Nat × Nat)) (as : List (Pos × Option RVal)) :
    (holes nS nF nP nD cov as).Nodup := by
  refine (holes_sorted nS nF nP nD cov as).imp ?_
  intro a b hab he
  subst he
  exact scanLt_irrefl a hab

/-- **the ids**: the `n`-th hole (scan order) gets `MissingValue(n)` -/
theorem missingAssigns_getElem (hs : List Pos) (n : Nat) (h : n < hs.length) :
    (missingAssigns hs)[n]'(by simp [missingAssigns, h]) = (hs[n], some (RVal.missing n)) := by
  unfold missingAssigns
  simp

theorem missingAssigns_length (hs : List Pos) : (missingAssigns hs).length = hs.length := by
  simp [missingAssigns]

/-- what the array holds at the `n`-th hole in the end: `MissingValue(n)` -/
theorem lastAssign_hole {A : List (Pos × Option RVal)} {hs : List Pos} (hnd : hs.Nodup) (n : Nat) (h : n < hs.length) :
    lastAssign (A ++ missingAssigns hs) hs[n] = some (RVal.missing n) := by
  unfold lastAssign
  rw [List.reverse_append, List.find?_append]
  have hmem : (hs[n], some (RVal.missing n)) ∈ (missingAssigns hs).reverse := by
    rw [List.mem_reverse, ← missingAssigns_getElem hs n h]
    exact List.getElem_mem _
  cases hfind : (missingAssigns hs).reverse.find? (·.1 == hs[n]) with
  | none =>
    exfalso
    have := List.find?_eq_none.mp hfind _ hmem
    simp at this
  | some e =>
    have hm := List.mem_reverse.mp (List.mem_of_find?_eq_some hfind)
    have hk : e.1 = hs[n] := by simpa using List.find?_some hfind
    obtain ⟨m, hm', rfl⟩ := List.getElem_of_mem hm
    have hmlt : m < hs.length := by simpa [missingAssigns_length] using hm'
    rw [missingAssigns_getElem hs m hmlt] at hk ⊢
    simp only at hk
    have : m = n := (List.Nodup.getElem_inj_iff hnd).mp hk
    subst this
    simp

/-- **shape of the result of `triangle_to_rich_matrix`** for ANY triangle the function accepts (periods
of one or several index periods): the assignments of the filling loop — numbered as `itemsAssigns_spec`
says — followed by one `MissingValue` per hole of `mem_holes_iff`, ids 0, 1, 2, … in scan order. -/
theorem toRichWith_shape {ix : MatrixIndex} {fields : List String} {t : List Cell} {M : RichMatrix}
    (h : toRichWith ix fields t = .ok M) :
    ∃ (items : List RichItem) (hs : List Pos),
      M.assigns = itemsAssigns items 0 ++ missingAssigns hs ∧
      hs = holes ix.slices.length fields.length M.nPeriods M.nDevs (items.flatMap itemCovered) (itemsAssigns items 0) ∧
      hs.Pairwise scanLt ∧
      (∀ n (hn : n < hs.length), M.get? hs[n] = some (RVal.missing n)) ∧
      M.index = ix ∧ M.incremental = firstIsIncremental t := by
  unfold toRichWith at h
  split at h
  · cases h
  · rename_i f0 frest
    split at h
    · cases h
    · cases hP : ix.expNdx (lastPeriodStart t) with
      | error e => simp [hP, Except.bind] at h
      | ok maxP =>
        cases hD : ix.devNdx (maxLagOf t) with
        | error e => simp [hP, hD, Except.bind] at h
        | ok maxD =>
          cases hI : t.mapM (cellItems ix (f0 :: frest) (maxP + 1) (maxD + 1)) with
          | error e => simp [hP, hD, hI, Except.bind] at h
          | ok items =>
            simp only [hP, hD, hI, Except.bind] at h
            cases h
            refine ⟨items.flatten, _, rfl, rfl, holes_sorted _ _ _ _ _ _, ?_, rfl, rfl⟩
            intro n hn
            exact lastAssign_hole (holes_nodup _ _ _ _ _ _) n hn

/-! ### reading back -/

/-- `rich_matrix_to_triangle` takes nothing from missing or disaggregated entries: a cell whose period
spans several index periods does not come back from its disaggregated entries -/
theorem back?_not_value (id : Nat) (v : Val) :
    RVal.back? (some (.missing id)) = none ∧ RVal.back? (some (.disagg id v)) = none ∧
    RVal.back? (some (.disaggPred id v)) = none ∧ RVal.back? none = none := ⟨rfl, rfl, rfl, rfl⟩

end Bermuda.Frame
