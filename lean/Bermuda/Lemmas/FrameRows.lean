/-
C14, "the files have one row per cell and scenario (wide) or per cell, field and scenario (long)":
the written tables listed row by row over the index sets `Spec.cellScenarios` / `Spec.cellScenarioFields`
(stated on the cells alone), hence their lengths `Spec.wideRows` / `Spec.longRows`; every row carries its
cell's group key (injective on the cells) and its scenario number.
-/
import Bermuda.Lemmas.FrameLong
namespace Bermuda.Frame
open Bermuda Bermuda.Spec.C14 Std

theorem foldl_max_const {n : Nat} (hn : 1 ≤ n) : ∀ (l : List Nat) (a : Nat), (∀ x ∈ l, x = n) → (a = 1 ∨ a = n) →
    (l ≠ [] ∨ a = n) → l.foldl max a = n
  | [], a, _, _, hne => by
    rcases hne with h | h
    · exact absurd rfl h
    · exact h
  | x :: l, a, hall, ha, _ => by
    rw [List.foldl_cons]
    have hx : x = n := hall x List.mem_cons_self
    have : max a x = n := by
      rcases ha with h | h <;> subst hx <;> subst h <;> simp [Nat.max_def] <;> omega
    rw [this]
    exact foldl_max_const hn l n (fun y hy => hall y (List.mem_cons_of_mem _ hy)) (Or.inr rfl) (Or.inr rfl)

theorem numCount_of_valData {v : Val} {data : List Rat} (h : valData v = some data) : numCount v = data.length := by
  cases v with
  | none => simp [valData] at h
  | int i => simp only [valData, Option.some.injEq] at h; subst h; rfl
  | flt q => simp only [valData, Option.some.injEq] at h; subst h; rfl
  | arr a sh d =>
    simp only [valData] at h
    split at h
    · simp only [Option.some.injEq] at h; subst h; rfl
    · cases h

/-- on a cell the tabular forms can hold, the scenario count of the property is the common sample count -/
theorem scenarioCount_eq {c : Cell} {F : List String} (h : CellOK c F (sampleCount c)) :
    scenarioCount c = sampleCount c := by
  unfold scenarioCount
  apply foldl_max_const h.pos
  · intro x hx
    obtain ⟨kv, hkv, rfl⟩ := List.mem_map.mp hx
    obtain ⟨data, hd, hl⟩ := h.vals kv hkv
    rw [numCount_of_valData hd, hl]
  · left; rfl
  · cases hv : c.values with
    | nil => right; simp [sampleCount, hv]
    | cons a l => left; simp

theorem valuedFields_eq {c : Cell} {F : List String} {n : Nat} (h : CellOK c F n) :
    valuedFields c = Dict.keys c.values := by
  unfold valuedFields Dict.keys
  congr 1
  apply List.filter_eq_self.mpr
  intro kv hkv
  obtain ⟨data, hd, _⟩ := h.vals kv hkv
  cases hv : kv.2 with
  | none => rw [hv] at hd; simp [valData] at hd
  | int i => rfl
  | flt q => rfl
  | arr a sh d => rfl

theorem sum_map_congr {α : Type} {f g : α → Nat} : ∀ {l : List α}, (∀ a ∈ l, f a = g a) → (l.map f).sum = (l.map g).sum
  | [], _ => rfl
  | a :: l, h => by
    simp only [List.map_cons, List.sum_cons]
    rw [h a List.mem_cons_self, sum_map_congr (fun b hb => h b (List.mem_cons_of_mem _ hb))]

theorem length_flatMap_sum {α β : Type} (f : α → List β) : ∀ l : List α, (l.flatMap f).length = (l.map fun a => (f a).length).sum
  | [] => rfl
  | a :: l => by simp [List.flatMap_cons, length_flatMap_sum f l]

/-- the row written for (cell, scenario) -/
def wideRowOf (t : List Cell) (E : Row → Row) (p : Cell × Nat) : Row :=
  E (wideRow p.1 (allMetadataNames t) (p.2, fieldDictPure p.1 (allFields t) p.2))

theorem wblocks_listing {t : List Cell} {D L : List String} (h : WFwide t D L) (E : Row → Row) :
    (t.map (wblock t E)).flatten = (cellScenarios t).map (wideRowOf t E) := by
  unfold cellScenarios
  rw [List.map_flatMap, ← List.flatMap_def]
  apply List.flatMap_congr
  intro c hc
  rw [scenarioCount_eq (h.cells c hc)]
  simp [wblock, wideRowOf, List.map_map, Function.comp_def]

theorem cellScenarios_length (t : List Cell) : (cellScenarios t).length = wideRows t := by
  unfold cellScenarios wideRows
  rw [length_flatMap_sum]
  simp

/-- **wide table, row by row**: the rows are the images of the (cell, scenario) pairs in order; the row of
`(c, i)` carries the group key of `c` (coordinates + all metadata / detail columns — injective on the cells,
`cellKey_inj`) and, while the scenario column is kept, scenario `i + 1`; the scenario column is dropped only
when every cell has one scenario. So rows and (cell, scenario) pairs correspond one to one. -/
theorem wide_rows_listing {t : List Cell} {D L : List String} (h : WFwide t D L) :
    ∃ (tb : Table) (E : Row → Row), toWideRows t = .ok tb ∧
      tb.rows = (cellScenarios t).map (wideRowOf t E) ∧ tb.rows.length = wideRows t ∧
      (∀ p ∈ cellScenarios t, p.1 ∈ t ∧ ∀ cols : List String,
        (∀ k ∈ ["period_start", "period_end", "evaluation_date"], cols.contains k = true) →
        wideKey cols D L (wideRowOf t E p) = cellKey p.1 D L) ∧
      ((E = id ∧ ∀ p ∈ cellScenarios t, Row.col (wideRowOf t E p) "scenario" = MVal.num ((p.2 + 1 : Nat) : Rat)) ∨
        ∀ c ∈ t, scenarioCount c = 1) := by
  obtain ⟨E, hE, hok, hmode⟩ := toWideRows_ok h
  have hmem : ∀ p ∈ cellScenarios t, p.1 ∈ t := by
    intro p hp
    unfold cellScenarios at hp
    obtain ⟨c, hc, hp⟩ := List.mem_flatMap.mp hp
    obtain ⟨i, _, rfl⟩ := List.mem_map.mp hp
    exact hc
  refine ⟨_, E, hok, ?_, ?_, ?_, ?_⟩
  · simp only [mkTable]
    exact wblocks_listing h E
  · simp only [mkTable]
    rw [wblocks_listing h E, List.length_map, cellScenarios_length]
  · intro p hp
    refine ⟨hmem p hp, ?_⟩
    intro cols hcols
    exact wideKey_row h (hmem p hp) hE p.2 cols hcols
  · rcases hmode with ⟨hid, _⟩ | hone
    · left
      refine ⟨hid, ?_⟩
      intro p hp
      subst hid
      exact scenario_row h (hmem p hp) p.2
    · right
      intro c hc
      rw [scenarioCount_eq (h.cells c hc)]
      exact hone c hc

/-! ### long -/

/-- the row written for (cell, scenario, field) -/
def longRowOf (t : List Cell) (E : Row → Row) (p : Cell × Nat × String) : Row :=
  E (longRow p.1 (allMetadataNames t) p.2.1 (p.2.2, qAt ((Dict.get? p.1.values p.2.2).getD .none) p.2.1))

theorem cellScenarioFields_length (t : List Cell) : (cellScenarioFields t).length = longRows t := by
  unfold cellScenarioFields longRows
  rw [length_flatMap_sum]
  apply sum_map_congr
  intro c _
  rw [length_flatMap_sum]
  simp

theorem lrows_listing {t : List Cell} {DK LK : List String} (h : WFlong t DK LK) (E : Row → Row) :
    lrows t E = (cellScenarioFields t).map (longRowOf t E) := by
  unfold lrows cellScenarioFields
  rw [List.map_flatMap, ← List.flatMap_def]
  apply List.flatMap_congr
  intro c hc
  have hok := (h.cells c hc).1
  rw [scenarioCount_eq hok.toOK, valuedFields_eq hok.toOK]
  unfold lblock
  rw [List.map_flatMap]
  apply List.flatMap_congr
  intro i _
  unfold Dict.keys
  rw [List.map_map, List.map_map]
  apply List.map_congr_left
  intro kv hkv
  simp only [Function.comp, longRowOf]
  have := get?_of_mem_nodup hok.nodup hkv
  rw [this]
  rfl

/-- **long table, row by row**: the rows are the images of the (cell, scenario, field) triples in order -/
theorem long_rows_listing {t : List Cell} {DK LK : List String} (h : WFlong t DK LK) :
    ∃ (tb : Table) (E : Row → Row), toLongRows t = .ok tb ∧
      tb.rows = (cellScenarioFields t).map (longRowOf t E) ∧ tb.rows.length = longRows t := by
  obtain ⟨E, _, hok, _⟩ := toLongRows_ok h
  refine ⟨_, E, hok, ?_, ?_⟩
  · simp only [mkTable]
    exact lrows_listing h E
  · simp only [mkTable]
    rw [lrows_listing h E, List.length_map, cellScenarioFields_length]

/-- a triangle of non-incremental cells is not incremental (helper of `fromWideFrame_toWideFrame`) -/
theorem firstIsIncremental_false_of_cum {t : List Cell} (h : ∀ c ∈ t, c.kind ≠ .incremental ∧ c.prev = none) :
    firstIsIncremental t = false := by
  cases t with
  | nil => rfl
  | cons c rest =>
    have := (h c List.mem_cons_self).1
    simp only [firstIsIncremental]
    cases hk : c.kind <;> simp_all


end Bermuda.Frame
