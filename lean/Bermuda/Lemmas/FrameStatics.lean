/-
C14, the rest of `io/array.py`: the statics reader builds one cumulative cell per row
(`fromStatics_frame`), with the period resolution given or inferred as `days // 30` of the first gap
— which is the month distance except for a February start (`statics_inference_table`) —; the right-edge
frame without its evaluation column is a statics frame of the right edge (`fromStatics_edgeRows`).
-/
import Bermuda.Lemmas.FrameArray
import Bermuda.Model.FrameStatics
namespace Bermuda.Frame
open Bermuda Bermuda.Spec.C14 Std

def staticsRowOf (p : Date × Dict Val) : StaticsRow := { period := .date p.1, entries := p.2 }

/-- the cell a statics row stands for -/
def staticsExpected (md : Metadata) (res : Int) (ev : Date) (p : Date × Dict Val) : Cell :=
  { kind := .cumulative, ps := p.1, pe := periodEndOf p.1 res, ev := ev, values := p.2, md := md }

/-- a statics frame: first-of-month periods from 1970 on, strictly ascending; `res ≥ 1`; the
constructor's date rules hold for every row (evaluation date not before a period start, not
`date.max`) -/
structure StaticsFrame (rows : List (Date × Dict Val)) (res : Int) (ev : Date) (md : Metadata) : Prop where
  res1 : 1 ≤ res
  first : ∀ p ∈ rows, p.1.valid = true ∧ p.1.d = 1 ∧ 0 ≤ monthToId p.1
  asc : rows.Pairwise (fun a b => Date.cmp a.1 b.1 = .lt)
  dates : ∀ p ∈ rows, (staticsExpected md res ev p).datesOk = true

theorem zip_fst_snd {α β : Type} : ∀ l : List (α × β), (l.map (·.1)).zip (l.map (·.2)) = l
  | [] => rfl
  | a :: l => by simp [zip_fst_snd l]

theorem staticsCell_ok {rows : List (Date × Dict Val)} {res : Int} {ev : Date} {md : Metadata}
    (h : StaticsFrame rows res ev md) {p : Date × Dict Val} (hp : p ∈ rows) :
    staticsCell md res ev p = .ok (staticsExpected md res ev p) := by
  obtain ⟨hv, hd, h0⟩ := h.first p hp
  have hpe : (addMonths p.1 (res : Rat)).pred = periodEndOf p.1 res := by
    rw [periodEnd_of_first p.1 hv hd res (by have := h.res1; omega)]
    unfold periodEndOf
    rw [idToMonth_false]
  unfold staticsCell
  rw [hpe]
  change Cell.mk? (staticsExpected md res ev p) = _
  unfold Cell.mk?
  rw [if_pos (h.dates p hp)]

/-- **statics reader** (`period_resolution` and `evaluation_date` given): one `CumulativeCell` per row,
in row order -/
theorem fromStatics_frame {rows : List (Date × Dict Val)} {res : Int} {ev : Date} {md : Metadata}
    (h : StaticsFrame rows res ev md) :
    fromStatics (rows.map staticsRowOf) (some ev) (some res) md = .ok (rows.map (staticsExpected md res ev)) := by
  unfold fromStatics
  have hparse : (rows.map staticsRowOf).mapM (fun (r : StaticsRow) => r.period.parse) = .ok (rows.map (·.1)) := by
    rw [mapM_ok_of_forall _ (fun r : StaticsRow => match r.period with | .date d => d | .text _ => Date.min)]
    · rw [List.map_map]; rfl
    · intro r hr
      obtain ⟨p, _, rfl⟩ := List.mem_map.mp hr
      rfl
  rw [hparse]
  simp only [Except.bind, staticsResolution, staticsEvaluation]
  have hent : (rows.map staticsRowOf).map (·.entries) = rows.map (·.2) := by
    rw [List.map_map]; rfl
  rw [hent, zip_fst_snd, mapM_ok_of_forall _ (staticsExpected md res ev) rows (fun p hp => staticsCell_ok h hp)]
  simp only
  unfold Triangle.ofCells
  have hkc : kindsConsistent (rows.map (staticsExpected md res ev)) = true := by
    unfold kindsConsistent
    have : (rows.map (staticsExpected md res ev)).all (·.kind == .cumulative) = true := by
      rw [List.all_eq_true]
      intro x hx
      obtain ⟨p, _, rfl⟩ := List.mem_map.mp hx
      rfl
    simp [this]
  rw [if_pos hkc]
  congr 1
  apply List.mergeSort_of_pairwise
  rw [List.pairwise_map]
  refine h.asc.imp ?_
  intro a b hab
  unfold Cell.le Cell.cmp
  simp only [compareLex, cmpOn, staticsExpected]
  rw [ReflCmp.compare_self (cmp := Metadata.cmp), hab]
  rfl

/-- … and with the period resolution INFERRED (`days // 30` of the first gap), whenever that quotient is
the resolution meant -/
theorem fromStatics_frame_inferred {rows : List (Date × Dict Val)} {res : Int} {ev : Date} {md : Metadata}
    (h : StaticsFrame rows res ev md)
    (hp : ∃ p0 p1 rest, rows = p0 :: p1 :: rest ∧ (p1.1.ordinal - p0.1.ordinal) / 30 = res) :
    fromStatics (rows.map staticsRowOf) (some ev) none md = .ok (rows.map (staticsExpected md res ev)) := by
  rw [← fromStatics_frame h]
  obtain ⟨p0, p1, rest, hrows, hq⟩ := hp
  unfold fromStatics
  have hparse : (rows.map staticsRowOf).mapM (fun (r : StaticsRow) => r.period.parse) = .ok (rows.map (·.1)) := by
    rw [mapM_ok_of_forall _ (fun r : StaticsRow => match r.period with | .date d => d | .text _ => Date.min)]
    · rw [List.map_map]; rfl
    · intro r hr
      obtain ⟨p, _, rfl⟩ := List.mem_map.mp hr
      rfl
  rw [hparse]
  simp only [Except.bind]
  have : staticsResolution (rows.map (·.1)) none = .ok res := by
    rw [hrows]
    simp only [List.map_cons, staticsResolution, hq]
  rw [this]
  rfl

/-! ### where the inference `days // 30` is the month distance -/

def firstOf (y : Int) (m0 : Nat) : Date := ⟨y + (m0 / 12 : Nat), m0 % 12 + 1, 1⟩

/-- the inferred resolution of two consecutive periods `res` months apart, the first starting in month
`m0 + 1` of year `y` -/
def inferredFor (y : Int) (m0 : Nat) (res : Nat) : Except Err Int :=
  staticsResolution [firstOf y m0, firstOf y (m0 + res)] none

/-- over a leap and a non-leap year, every start month and the resolutions 1/3/6/12: `days // 30` is
the month distance EXCEPT for monthly periods starting in February (0: the reader then refuses the
frame, `period_end` before `period_start`) and quarterly periods starting 1 February of a non-leap
year (89 days: 2 — periods of two months, silently). -/
theorem statics_inference_table :
    ([2021, 2024].all fun (y : Int) => (List.range 12).all fun m0 => [1, 3, 6, 12].all fun res =>
      decide (inferredFor y m0 res = .ok
        (if res = 1 ∧ m0 = 1 then 0 else if res = 3 ∧ m0 = 1 ∧ y = 2021 then 2 else (res : Int)))) = true := by
  decide +kernel

/-- monthly periods from February with the resolution inferred are refused -/
theorem statics_february_refused :
    staticsResolution [⟨2021, 2, 1⟩, ⟨2021, 3, 1⟩] none = .ok 0 ∧
    staticsCell {} 0 ⟨2021, 3, 31⟩ (⟨2021, 2, 1⟩, [("earned_premium", .int 100)]) = .error .valueError := by
  decide +kernel

/-! ### the right-edge frame read back as a statics frame -/

def edgePair (r : EdgeRow) : Date × Dict Val := (r.period, r.entries)

/-- the rows of the right-edge frame of a triangle whose right edge `E` is regular (periods of `res`
months, ONE evaluation date, cumulative) — the `evaluation_date` column dropped — are a statics frame
that reads back as `E` -/
theorem fromStatics_edgeRows {E : List Cell} {res : Int} {ev : Date} {md : Metadata}
    (h : StaticsFrame (E.map fun c => edgePair (edgeRow c)) res ev md)
    (hE : ∀ c ∈ E, c.kind = .cumulative ∧ c.prev = none ∧ c.pe = periodEndOf c.ps res ∧ c.ev = ev ∧ c.md = md) :
    fromStatics ((E.map edgeRow).map fun r => staticsRowOf (edgePair r)) (some ev) (some res) md = .ok E := by
  have := fromStatics_frame h
  rw [List.map_map] at this
  rw [List.map_map]
  rw [show ((fun r => staticsRowOf (edgePair r)) ∘ edgeRow) = (staticsRowOf ∘ fun c => edgePair (edgeRow c)) from rfl, this]
  congr 1
  rw [List.map_map]
  conv => rhs; rw [← List.map_id E]
  apply List.map_congr_left
  intro c hc
  obtain ⟨h1, h2, h3, h4, h5⟩ := hE c hc
  simp only [Function.comp, staticsExpected, edgePair, edgeRow, id]
  rw [← h3, ← h4, ← h5]
  show Cell.mk _ _ _ _ none _ _ = c
  rw [← h1, ← h2]

end Bermuda.Frame
