/-
C14, wide table of a cumulative triangle: `fromWideRows (toWideRows t) = t` up to the numeric
comparison of `Spec/C14.lean` (`fromWide_toWide`). Structure: (1) what the writer produces for one
cell (`cellWideRows_ok`), (2) looking columns up in a written row (`Dict.union` override order and
the disjointness of names), (3) a row's metadata columns read back give the cell's metadata
(`rowMetadata_of_cols`), (4) the group key — built from the GENERATED key list — is a function of the
cell and injective on a strictly sorted triangle, so `groupBy` returns exactly the cells' blocks
(`groupBy_blocks`), (5) one block read back (`wideGroupCell_block`): scenario sort is the identity,
samples come back in order, (6) the constructor leaves the order alone.
-/
import Mathlib.Data.List.Nodup
import Bermuda.Lemmas.Frame
import Bermuda.Lemmas.Join
import Bermuda.Lemmas.Units
import Bermuda.Lemmas.JsonIOGroup
namespace Bermuda.Frame
open Bermuda Bermuda.Spec.C14 Std Bermuda.GroupL

/-! ### first-appearance unions (`addNew`) -/

theorem addNew_spec (xs : List String) : ∀ acc : List String,
    (acc.Nodup → (addNew acc xs).Nodup) ∧ ∀ x, x ∈ addNew acc xs ↔ x ∈ acc ∨ x ∈ xs := by
  unfold addNew
  induction xs with
  | nil => intro acc; simp
  | cons a t ih =>
    intro acc
    simp only [List.foldl_cons]
    by_cases h : acc.contains a = true
    · rw [if_pos h]
      have ha : a ∈ acc := List.contains_iff_mem.mp h
      refine ⟨(ih acc).1, ?_⟩
      intro x
      rw [(ih acc).2 x]
      constructor
      · rintro (h1 | h1)
        · exact Or.inl h1
        · exact Or.inr (List.mem_cons_of_mem _ h1)
      · rintro (h1 | h1)
        · exact Or.inl h1
        · rcases List.mem_cons.mp h1 with rfl | h2
          · exact Or.inl ha
          · exact Or.inr h2
    · rw [if_neg h]
      have ha : a ∉ acc := fun hm => h (List.contains_iff_mem.mpr hm)
      refine ⟨?_, ?_⟩
      · intro hn
        apply (ih (acc ++ [a])).1
        rw [List.nodup_append]
        exact ⟨hn, by simp, by intro x hx y hy; simp at hy; subst hy; intro he; exact ha (he ▸ hx)⟩
      · intro x
        rw [(ih (acc ++ [a])).2 x]
        simp only [List.mem_append, List.mem_cons, List.not_mem_nil, or_false]
        constructor
        · rintro ((h1 | h1) | h1)
          · exact Or.inl h1
          · exact Or.inr (Or.inl h1)
          · exact Or.inr (Or.inr h1)
        · rintro (h1 | h1 | h1)
          · exact Or.inl (Or.inl h1)
          · exact Or.inl (Or.inr h1)
          · exact Or.inr h1

theorem foldl_addNew_spec {α : Type} (f : α → List String) : ∀ (l : List α) (acc : List String),
    (acc.Nodup → (l.foldl (fun a m => addNew a (f m)) acc).Nodup) ∧
    ∀ x, x ∈ l.foldl (fun a m => addNew a (f m)) acc ↔ x ∈ acc ∨ ∃ m ∈ l, x ∈ f m
  | [], acc => by simp
  | m :: rest, acc => by
    simp only [List.foldl_cons]
    have h1 := addNew_spec (f m) acc
    have h2 := foldl_addNew_spec f rest (addNew acc (f m))
    refine ⟨fun hn => h2.1 (h1.1 hn), ?_⟩
    intro x
    rw [h2.2 x, h1.2 x]
    simp only [List.mem_cons, exists_eq_or_imp]
    constructor
    · rintro ((h | h) | h)
      · exact Or.inl h
      · exact Or.inr (Or.inl h)
      · exact Or.inr (Or.inr h)
    · rintro (h | h | h)
      · exact Or.inl (Or.inl h)
      · exact Or.inl (Or.inr h)
      · exact Or.inr h

theorem allFields_nodup (t : List Cell) : (allFields t).Nodup :=
  (foldl_addNew_spec (fun c : Cell => Dict.keys c.values) t []).1 List.nodup_nil

theorem mem_allFields {t : List Cell} {f : String} :
    f ∈ allFields t ↔ ∃ c ∈ t, f ∈ Dict.keys c.values := by
  have := (foldl_addNew_spec (fun c : Cell => Dict.keys c.values) t []).2 f
  simpa [allFields] using this

def nonNoneNames (m : Metadata) : List String :=
  (flatDict m).filterMap fun kv => if kv.2 == .none then none else some kv.1

theorem allMetadataNames_nodup (t : List Cell) : (allMetadataNames t).Nodup :=
  (foldl_addNew_spec nonNoneNames (Triangle.metadata t) []).1 List.nodup_nil

theorem mem_allMetadataNames {t : List Cell} {n : String} :
    n ∈ allMetadataNames t ↔ ∃ c ∈ t, n ∈ nonNoneNames c.md := by
  have := (foldl_addNew_spec nonNoneNames (Triangle.metadata t) []).2 n
  simp only [List.not_mem_nil, false_or] at this
  unfold allMetadataNames
  rw [show (fun acc m => addNew acc ((flatDict m).filterMap fun kv => if kv.2 == .none then none else some kv.1)) =
    (fun a m => addNew a (nonNoneNames m)) from rfl, this]
  unfold Triangle.metadata
  constructor
  · rintro ⟨m, hm, hn⟩
    have hm' : m ∈ metasOf t := (List.mergeSort_perm _ _).mem_iff.mp hm
    obtain ⟨c, hc, rfl⟩ := Units.mem_metasOf.mp hm'
    exact ⟨c, hc, hn⟩
  · rintro ⟨c, hc, hn⟩
    exact ⟨c.md, (List.mergeSort_perm _ _).mem_iff.mpr (Units.mem_metasOf.mpr ⟨c, hc, rfl⟩), hn⟩


/-! ### the flat metadata dict and reading a row's metadata back -/

def sixNames : List String :=
  ["risk_basis", "country", "currency", "reinsurance_basis", "loss_definition", "per_occurrence_limit"]

def coreNames : List String :=
  ["period_start", "period_end", "evaluation_date", "prev_evaluation_date", "scenario"] ++ sixNames

def sixDict (m : Metadata) : Row :=
  [("currency", optStr m.currency), ("country", optStr m.country),
   ("risk_basis", optStr m.riskBasis), ("reinsurance_basis", optStr m.reinsuranceBasis),
   ("loss_definition", optStr m.lossDefinition), ("per_occurrence_limit", optNum m.limit)]

theorem flatDict_eq (m : Metadata) :
    flatDict m = Dict.union (Dict.union (sixDict m) m.details) m.lossDetails := rfl

def strictKeys (l : List String) : Prop := l.Pairwise (fun a b => compare a b = .lt)

theorem strictKeys_nodup {l : List String} (h : strictKeys l) : l.Nodup := by
  unfold strictKeys at h
  refine h.imp ?_
  intro a b hab he
  subst he
  simp at hab

theorem dictCanon_wf {d : Dict MVal} (h : DictCanon d) : d.WF := by
  unfold Dict.WF Dict.keys
  apply strictKeys_nodup
  unfold strictKeys
  rw [List.pairwise_map]
  exact h

theorem get?_flat (m : Metadata) (hc : m.Canon) (k : String) :
    Dict.get? (flatDict m) k =
      (Dict.get? m.lossDetails k).or ((Dict.get? m.details k).or (Dict.get? (sixDict m) k)) := by
  rw [flatDict_eq, Dict.get?_union _ _ (dictCanon_wf hc.2), Dict.get?_union _ _ (dictCanon_wf hc.1)]

theorem keys_flat (m : Metadata) (k : String) :
    k ∈ Dict.keys (flatDict m) ↔ k ∈ sixNames ∨ k ∈ Dict.keys m.details ∨ k ∈ Dict.keys m.lossDetails := by
  rw [flatDict_eq, Dict.mem_keys_union, Dict.mem_keys_union]
  have : k ∈ Dict.keys (sixDict m) ↔ k ∈ sixNames := by
    simp only [sixDict, Dict.keys, sixNames, List.map_cons, List.map_nil, List.mem_cons, List.not_mem_nil,
      or_false]
    constructor <;> (intro h; rcases h with h | h | h | h | h | h <;> simp [h])
  rw [this, or_assoc]

/-- strictly sorted dict read through a strictly sorted superset of its keys -/
theorem filterMap_sorted_keys (g : String → MVal → Option (String × MVal))
    (hg : ∀ k v, v ≠ MVal.none → g k v = some (k, v)) :
    ∀ (S : List String) (d : Dict MVal), strictKeys S → DictCanon d →
      (∀ p ∈ d, p.2 ≠ MVal.none) → (∀ k ∈ Dict.keys d, k ∈ S) →
      S.filterMap (fun c => (Dict.get? d c).bind (g c)) = d
  | [], d, _, _, _, hk => by
    cases d with
    | nil => rfl
    | cons p d' => exact absurd (hk p.1 (by simp [Dict.keys])) (by simp)
  | s :: S', d, hS, hd, hv, hk => by
    have hS' : strictKeys S' := (List.pairwise_cons.mp hS).2
    have hlt : ∀ x ∈ S', compare s x = .lt := (List.pairwise_cons.mp hS).1
    cases d with
    | nil =>
      simp only [List.filterMap_cons, Dict.get?_nil_j, Option.bind_none]
      exact filterMap_sorted_keys g hg S' [] hS' hd hv (by intro k hk'; cases hk')
    | cons p d' =>
      have hd' : DictCanon d' := (List.pairwise_cons.mp hd).2
      have hplt : ∀ q ∈ d', compare p.1 q.1 = .lt := (List.pairwise_cons.mp hd).1
      have hpS : p.1 ∈ s :: S' := hk p.1 (by simp [Dict.keys])
      by_cases hsp : s = p.1
      · -- the head of S is the head key
        have hget : Dict.get? (p :: d') s = some p.2 := by rw [Dict.get?_cons_j]; simp [hsp]
        simp only [List.filterMap_cons, hget, Option.bind_some, hg s p.2 (hv p List.mem_cons_self)]
        have hrest : S'.filterMap (fun c => (Dict.get? (p :: d') c).bind (g c)) =
            S'.filterMap (fun c => (Dict.get? d' c).bind (g c)) := by
          apply filterMap_congr'
          intro c hc
          rw [Dict.get?_cons_j]
          have : (p.1 == c) = false := by
            apply beq_false_of_ne
            intro he
            have := hlt c hc
            rw [hsp, he] at this
            simp at this
          simp [this]
        rw [hrest, filterMap_sorted_keys g hg S' d' hS' hd' (fun q hq => hv q (List.mem_cons_of_mem _ hq))]
        · rw [hsp]
        · intro k hk'
          obtain ⟨q, hq, rfl⟩ := List.mem_map.mp hk'
          have hkS := hk q.1 (by simp only [Dict.keys, List.map_cons, List.mem_cons]; exact Or.inr (List.mem_map_of_mem hq))
          rcases List.mem_cons.mp hkS with he | h'
          · have := hplt q hq
            rw [← hsp, ← he] at this
            simp at this
          · exact h'
      · -- the head of S is smaller than every key
        have hpS' : p.1 ∈ S' := by
          rcases List.mem_cons.mp hpS with he | h'
          · exact absurd he.symm hsp
          · exact h'
        have hsp' : compare s p.1 = .lt := hlt _ hpS'
        have hnone : Dict.get? (p :: d') s = none := by
          rw [Dict.get?_eq_none_iff]
          intro hm
          obtain ⟨q, hq, hqs⟩ := List.mem_map.mp hm
          rcases List.mem_cons.mp hq with rfl | hq'
          · exact hsp hqs.symm
          · have h1 := hplt q hq'
            rw [hqs] at h1
            have h2 := hsp'
            rw [OrientedCmp.eq_swap (cmp := (compare : String → String → Ordering)), h1] at h2
            simp at h2
        simp only [List.filterMap_cons, hnone, Option.bind_none]
        apply filterMap_sorted_keys g hg S' (p :: d') hS' hd hv
        intro k hk'
        rcases List.mem_cons.mp (hk k hk') with he | h'
        · exfalso
          subst he
          exact (Dict.get?_eq_none_iff.mp hnone) hk'
        · exact h'


structure MdOK (m : Metadata) (D L : List String) : Prop where
  canon : m.Canon
  rb : m.riskBasis.isSome = true
  dvals : ∀ p ∈ m.details, p.2 ≠ MVal.none
  lvals : ∀ p ∈ m.lossDetails, p.2 ≠ MVal.none
  dkeys : ∀ k ∈ Dict.keys m.details, k ∈ D ∧ k ∉ L
  lkeys : ∀ k ∈ Dict.keys m.lossDetails, k ∈ L

structure NamesOK (D L F : List String) : Prop where
  dsorted : D.Nodup
  lsorted : L.Nodup
  lsub : ∀ k ∈ L, k ∈ D
  dcore : ∀ k ∈ D, k ∉ coreNames ∧ k ∉ F
  fcore : ∀ f ∈ F, f ∉ coreNames

theorem col_flat_six {m : Metadata} {D L F : List String} (hm : MdOK m D L) (hn : NamesOK D L F)
    {k : String} (hk : k ∈ sixNames) : Row.col (flatDict m) k = Row.col (sixDict m) k := by
  have hkc : k ∈ coreNames := by simp only [coreNames, List.mem_append]; exact Or.inr hk
  have h1 : Dict.get? m.lossDetails k = none := by
    rw [Dict.get?_eq_none_iff]; intro h
    exact (hn.dcore k (hn.lsub k (hm.lkeys k h))).1 hkc
  have h2 : Dict.get? m.details k = none := by
    rw [Dict.get?_eq_none_iff]; intro h
    exact (hn.dcore k (hm.dkeys k h).1).1 hkc
  unfold Row.col
  rw [get?_flat m hm.canon, h1, h2]; rfl

theorem col_flat_detail {m : Metadata} {D L F : List String} (hm : MdOK m D L) (hn : NamesOK D L F)
    {k : String} (hk : k ∈ D) (hkl : k ∉ L) :
    Dict.get? (flatDict m) k = Dict.get? m.details k := by
  have h1 : Dict.get? m.lossDetails k = none := by
    rw [Dict.get?_eq_none_iff]; intro h; exact hkl (hm.lkeys k h)
  have h3 : Dict.get? (sixDict m) k = none := by
    rw [Dict.get?_eq_none_iff]; intro h
    have : k ∈ sixNames := by
      simp only [sixDict, Dict.keys, List.map_cons, List.map_nil, List.mem_cons, List.not_mem_nil, or_false] at h
      rcases h with h | h | h | h | h | h <;> simp [sixNames, h]
    exact (hn.dcore k hk).1 (by simp only [coreNames, List.mem_append]; exact Or.inr this)
  rw [get?_flat m hm.canon, h1, h3]
  cases Dict.get? m.details k <;> rfl

theorem col_flat_loss {m : Metadata} {D L F : List String} (hm : MdOK m D L) (hn : NamesOK D L F)
    {k : String} (hk : k ∈ L) :
    Dict.get? (flatDict m) k = Dict.get? m.lossDetails k := by
  have h2 : Dict.get? m.details k = none := by
    rw [Dict.get?_eq_none_iff]; intro h; exact (hm.dkeys k h).2 hk
  have h3 : Dict.get? (sixDict m) k = none := by
    rw [Dict.get?_eq_none_iff]; intro h
    have : k ∈ sixNames := by
      simp only [sixDict, Dict.keys, List.map_cons, List.map_nil, List.mem_cons, List.not_mem_nil, or_false] at h
      rcases h with h | h | h | h | h | h <;> simp [sixNames, h]
    exact (hn.dcore k (hn.lsub k hk)).1 (by simp only [coreNames, List.mem_append]; exact Or.inr this)
  rw [get?_flat m hm.canon, h2, h3]
  cases Dict.get? m.lossDetails k <;> rfl

theorem strictKeys_filter {S : List String} (h : strictKeys S) (p : String → Bool) :
    strictKeys (S.filter p) := List.Pairwise.sublist List.filter_sublist h

theorem rowDetails_eq {r : Row} {d : Dict MVal} {S : List String} (hS : strictKeys S) (hd : DictCanon d)
    (hv : ∀ p ∈ d, p.2 ≠ MVal.none) (hk : ∀ k ∈ Dict.keys d, k ∈ S)
    (hcol : ∀ k ∈ S, Row.col r k = (Dict.get? d k).getD .none) : rowDetails r S = d := by
  unfold rowDetails
  have : S.filterMap (rowDetail r) =
      S.filterMap (fun c => (Dict.get? d c).bind (fun v => match v with | .none => none | v => some (c, v))) := by
    apply filterMap_congr'
    intro c hc
    unfold rowDetail
    rw [hcol c hc]
    cases Dict.get? d c with
    | none => rfl
    | some v => cases v <;> rfl
  rw [this, filterMap_sorted_keys (fun c v => match v with | .none => none | v => some (c, v))
    (by intro k v hv; cases v <;> simp at hv ⊢) S d hS hd hv hk]
  exact sortItems_of_canon hd

theorem sortStrings_strict {S : List String} (hn : S.Nodup) : strictKeys (sortStrings S) := by
  unfold strictKeys sortStrings
  have hs := sorted_mergeSort (cmp := (compare : String → String → Ordering)) S
  have hnd : (S.mergeSort fun a b => compare a b != .gt).Nodup := (List.mergeSort_perm _ _).nodup_iff.mpr hn
  rw [List.pairwise_iff_getElem] at hs ⊢
  intro i j hi hj hij
  have h1 := hs i j hi hj hij
  have hne : (S.mergeSort fun a b => compare a b != .gt)[i] ≠ (S.mergeSort fun a b => compare a b != .gt)[j] := by
    intro he
    have := (List.Nodup.getElem_inj_iff hnd).mp he
    omega
  unfold leOf at h1
  cases hc : compare (S.mergeSort fun a b => compare a b != .gt)[i] (S.mergeSort fun a b => compare a b != .gt)[j] with
  | lt => rfl
  | eq => exact absurd (Std.compare_eq_iff_eq.mp hc) hne
  | gt => rw [hc] at h1; simp at h1

/-- `rowDetails_eq` for a column list that is merely duplicate-free (any order): the reader sorts the
detail items, so the order of the detail columns handed to it does not matter -/
theorem rowDetails_eq_nodup {r : Row} {d : Dict MVal} {S : List String} (hS : S.Nodup) (hd : DictCanon d)
    (hv : ∀ p ∈ d, p.2 ≠ MVal.none) (hk : ∀ k ∈ Dict.keys d, k ∈ S)
    (hcol : ∀ k ∈ S, Row.col r k = (Dict.get? d k).getD .none) : rowDetails r S = d := by
  have hperm : (sortStrings S).Perm S := List.mergeSort_perm _ _
  rw [← rowDetails_eq (S := sortStrings S) (sortStrings_strict hS) hd hv
    (fun k hk' => hperm.mem_iff.mpr (hk k hk')) (fun k hk' => hcol k (hperm.mem_iff.mp hk'))]
  unfold rowDetails sortItems
  exact mergeSort_perm_invariant (cmp := itemCmp) (hperm.symm.filterMap _)
    (fun a b _ _ hab => itemCmp_eq_eq.mp hab)

/-- a row that carries the flat metadata of `m` in its metadata columns reads back as `m` -/
theorem rowMetadata_of_cols {r : Row} {m : Metadata} {D L F : List String} (hm : MdOK m D L)
    (hn : NamesOK D L F) (h : ∀ k ∈ sixNames ++ D, Row.col r k = Row.col (flatDict m) k) :
    rowMetadata r D L = m := by
  have six : ∀ k ∈ sixNames, Row.col r k = Row.col (sixDict m) k := by
    intro k hk; rw [h k (List.mem_append_left _ hk), col_flat_six hm hn hk]
  have e1 := six "risk_basis" (by decide)
  have e2 := six "country" (by decide)
  have e3 := six "currency" (by decide)
  have e4 := six "reinsurance_basis" (by decide)
  have e5 := six "loss_definition" (by decide)
  have e6 := six "per_occurrence_limit" (by decide)
  have hdet : rowDetails r (D.filter (!L.contains ·)) = m.details := by
    apply rowDetails_eq_nodup (hn.dsorted.sublist List.filter_sublist) hm.canon.1 hm.dvals
    · intro k hk
      obtain ⟨h1, h2⟩ := hm.dkeys k hk
      exact List.mem_filter.mpr ⟨h1, by simpa using h2⟩
    · intro k hk
      obtain ⟨h1, h2⟩ := List.mem_filter.mp hk
      have h2' : k ∉ L := by simpa using h2
      rw [h k (List.mem_append_right _ h1)]
      unfold Row.col
      rw [col_flat_detail hm hn h1 h2']
  have hloss : rowDetails r L = m.lossDetails := by
    apply rowDetails_eq_nodup hn.lsorted hm.canon.2 hm.lvals hm.lkeys
    intro k hk
    rw [h k (List.mem_append_right _ (hn.lsub k hk))]
    unfold Row.col
    rw [col_flat_loss hm hn hk]
  obtain ⟨rb, hrb⟩ := Option.isSome_iff_exists.mp hm.rb
  unfold rowMetadata
  rw [hdet, hloss]
  unfold rowStr
  rw [e1, e2, e3, e4, e5, e6]
  cases m with
  | mk rb' co cu re ld lim det ldet =>
    simp only at hrb
    subst hrb
    simp only [sixDict, Row.col, Dict.get?, List.find?_cons]
    cases co <;> cases cu <;> cases re <;> cases ld <;> cases lim <;> simp [optStr, optNum, mvalNum?]


/-! ### what the wide writer produces for one cell -/

def valData : Val → Option (List Rat)
  | .none => none
  | .int i => some [(i : Rat)]
  | .flt q => some [q]
  | .arr _ shape data => if shape.length ≤ 1 then some data else none

/-- a cell the tabular forms can hold: every value numeric with one common sample count `n`;
a sampled cell (`n ≥ 2`) has at least one of the triangle's fields (cells may carry DIFFERENT field sets) -/
structure CellOK (c : Cell) (F : List String) (n : Nat) : Prop where
  pos : 1 ≤ n
  vals : ∀ kv ∈ c.values, ∃ data, valData kv.2 = some data ∧ data.length = n
  full : 2 ≤ n → ∃ f ∈ F, f ∈ Dict.keys c.values
  nodup : (Dict.keys c.values).Nodup

theorem mapM_ok_of_forall {α β ε : Type} (f : α → Except ε β) (g : α → β) :
    ∀ l : List α, (∀ a ∈ l, f a = .ok (g a)) → l.mapM f = .ok (l.map g)
  | [], _ => rfl
  | a :: t, h => by
    rw [List.mapM_cons, h a List.mem_cons_self,
      mapM_ok_of_forall f g t (fun x hx => h x (List.mem_cons_of_mem _ hx))]
    rfl

theorem get?_mem {α : Type} {d : Dict α} {k : String} {v : α} (h : Dict.get? d k = some v) : (k, v) ∈ d := by
  unfold Dict.get? at h
  cases hf : d.find? (·.1 == k) with
  | none => simp [hf] at h
  | some p =>
    simp only [hf, Option.map_some, Option.some.injEq] at h
    have h1 := List.find?_some hf
    have h2 := List.mem_of_find?_eq_some hf
    simp only [beq_iff_eq] at h1
    rw [← h1, ← h]; exact h2

theorem replicate_eraseDups (n k : Nat) : (List.replicate (k + 1) n).eraseDups = [n] := by
  induction k with
  | zero => simp [List.eraseDups_cons]
  | succ k ih => rw [List.replicate_succ, List.eraseDups_cons]; simp

theorem pickLength_mixed {n : Nat} (hn : 1 ≤ n) : ∀ (l : List Nat), (∀ x ∈ l, x = n ∨ x = 1) →
    (2 ≤ n → n ∈ l) → pickLength l = .ok n := by
  intro l hall hmem
  unfold pickLength
  by_cases h2 : 2 ≤ n
  · have hne1 : (n != 1) = true := by simp; omega
    have hl' : ∀ x ∈ l.filter (· != 1), x = n := by
      intro x hx
      obtain ⟨hx1, hx2⟩ := List.mem_filter.mp hx
      rcases hall x hx1 with h | h
      · exact h
      · subst h; simp at hx2
    have hin : n ∈ l.filter (· != 1) := List.mem_filter.mpr ⟨hmem h2, hne1⟩
    have hrep : l.filter (· != 1) = List.replicate (l.filter (· != 1)).length n :=
      List.eq_replicate_iff.mpr ⟨rfl, hl'⟩
    obtain ⟨k, hk⟩ : ∃ k, (l.filter (· != 1)).length = k + 1 := by
      cases hf : l.filter (· != 1) with
      | nil => rw [hf] at hin; cases hin
      | cons a t => exact ⟨t.length, rfl⟩
    rw [hrep, hk, replicate_eraseDups]
  · have h1 : n = 1 := by omega
    subst h1
    have hf : l.filter (· != 1) = [] := by
      rw [List.filter_eq_nil_iff]
      intro x hx
      rcases hall x hx with h | h <;> simp [h]
    rw [hf]; rfl

theorem commonFieldLength_ok {c : Cell} {F : List String} {n : Nat} (h : CellOK c F n) :
    commonFieldLength c F = .ok n := by
  unfold commonFieldLength
  have hl : F.mapM (fieldLen c) = .ok (F.map fun f => if (Dict.keys c.values).contains f then n else 1) := by
    apply mapM_ok_of_forall
    intro f hf
    cases hg : Dict.get? c.values f with
    | none =>
      have : (Dict.keys c.values).contains f = false := by
        have := Dict.get?_eq_none_iff.mp hg
        simpa using this
      simp only [fieldLen, hg, this]
      rfl
    | some v =>
      have hk : (Dict.keys c.values).contains f = true := by
        have := List.mem_map_of_mem (f := Prod.fst) (get?_mem hg)
        simpa [Dict.keys] using this
      simp only [hk, if_true]
      obtain ⟨data, hd, hlen⟩ := h.vals (f, v) (get?_mem hg)
      cases v with
      | none => simp [valData] at hd
      | int i =>
        simp only [valData, Option.some.injEq] at hd; subst hd; simp at hlen; subst hlen
        simp [fieldLen, hg]
      | flt q =>
        simp only [valData, Option.some.injEq] at hd; subst hd; simp at hlen; subst hlen
        simp [fieldLen, hg]
      | arr isInt shape data' =>
        simp only [valData] at hd
        split at hd
        · rename_i hs
          simp only [Option.some.injEq] at hd; subst hd
          have : ¬ shape.length > 1 := by omega
          simp only [fieldLen, hg, this, if_false, hlen]
        · cases hd
  rw [hl]
  simp only [Except.bind]
  apply pickLength_mixed h.pos
  · intro x hx
    obtain ⟨f, _, rfl⟩ := List.mem_map.mp hx
    by_cases hc : (Dict.keys c.values).contains f = true
    · left; rw [if_pos hc]
    · right; rw [if_neg hc]
  · intro h2
    obtain ⟨f, hf, hk⟩ := h.full h2
    refine List.mem_map.mpr ⟨f, hf, ?_⟩
    have : (Dict.keys c.values).contains f = true := by simpa using hk
    rw [if_pos this]

/-- the entry of field `f` in scenario `i` -/
def pureEntry (c : Cell) (i : Nat) (f : String) : Option (String × Rat) :=
  ((Dict.get? c.values f).bind fun v => (valData v).bind (·[i]?)).map fun q => (f, q)

theorem fieldEntryAt_ok {c : Cell} {F : List String} {n : Nat} (h : CellOK c F n) {i : Nat} (hi : i < n)
    (f : String) : fieldEntryAt c i f = .ok (pureEntry c i f) := by
  unfold fieldEntryAt pureEntry
  cases hg : Dict.get? c.values f with
  | none => rfl
  | some v =>
    obtain ⟨data, hd, hlen⟩ := h.vals (f, v) (get?_mem hg)
    cases v with
    | none => simp [valData] at hd
    | int q =>
      simp only [valData, Option.some.injEq] at hd; subst hd
      simp at hlen; subst hlen
      have : i = 0 := by omega
      subst this; rfl
    | flt q =>
      simp only [valData, Option.some.injEq] at hd; subst hd
      simp at hlen; subst hlen
      have : i = 0 := by omega
      subst this; rfl
    | arr isInt shape data' =>
      simp only [valData] at hd ⊢
      split at hd
      · rename_i hs
        simp only [Option.some.injEq] at hd; subst hd
        simp only [hs, if_true, Option.bind_some, fieldEntry]
        by_cases h1 : data'.length > 1
        · simp [h1, Except.map]
        · have hn1 : n = 1 := by omega
          subst hn1
          have hi0 : i = 0 := by omega
          subst hi0
          match data', hlen with
          | [q], _ => simp [Except.map]
      · cases hd

def fieldDictPure (c : Cell) (F : List String) (i : Nat) : Dict Rat := F.filterMap (pureEntry c i)

theorem cleanFieldDicts_ok {c : Cell} {F : List String} {n : Nat} (h : CellOK c F n) :
    cleanFieldDicts c F = .ok ((List.range n).map (fieldDictPure c F)) := by
  unfold cleanFieldDicts
  rw [commonFieldLength_ok h]
  show (List.range n).mapM (fieldDictAt c F) = _
  apply mapM_ok_of_forall
  intro i hi
  unfold fieldDictAt fieldDictPure
  rw [mapM_ok_of_forall (fieldEntryAt c i) (pureEntry c i) F
    (fun f _ => fieldEntryAt_ok h (List.mem_range.mp hi) f)]
  simp [Except.map, List.filterMap_map]

theorem zip_range_map {β : Type} (f : Nat → β) (n : Nat) :
    (List.range ((List.range n).map f).length).zip ((List.range n).map f) =
      (List.range n).map fun i => (i, f i) := by
  simp only [List.length_map, List.length_range]
  rw [List.zip_map_right]
  have : (List.range n).zip (List.range n) = (List.range n).map fun i => (i, i) := by
    rw [List.zip_eq_zipWith]
    generalize List.range n = l
    induction l with
    | nil => rfl
    | cons a t ih => simp [ih]
  rw [this, List.map_map]
  rfl

theorem cellWideRows_ok {c : Cell} {N F : List String} {n : Nat} (h : CellOK c F n) :
    cellWideRows c N F = .ok ((List.range n).map fun i => wideRow c N (i, fieldDictPure c F i)) := by
  unfold cellWideRows
  rw [cleanFieldDicts_ok h]
  simp only [Except.map]
  rw [zip_range_map, List.map_map]
  rfl


/-! ### looking a column up in a written row -/

theorem get?_metadataDict (c : Cell) (N : List String) (k : String) :
    Dict.get? (metadataDict c N) k = if k ∈ N then some (Row.col (flatDict c.md) k) else none := by
  unfold metadataDict
  induction N with
  | nil => simp [Dict.get?_nil_j]
  | cons a t ih =>
    rw [List.map_cons, Dict.get?_cons_j, ih]
    by_cases h : a = k
    · subst h; simp
    · have : (a == k) = false := by simpa using h
      simp only [this, Bool.false_eq_true, if_false, List.mem_cons]
      have : ¬ k = a := fun he => h he.symm
      simp [this]

theorem metadataDict_wf (c : Cell) {N : List String} (h : N.Nodup) : (metadataDict c N).WF := by
  unfold Dict.WF Dict.keys metadataDict
  rw [List.map_map]
  simpa [Function.comp_def] using h

theorem keys_numMap (fd : Dict Rat) : Dict.keys (fd.map fun kv => (kv.1, MVal.num kv.2)) = Dict.keys fd := by
  simp [Dict.keys, List.map_map, Function.comp_def]

theorem get?_numMap (fd : Dict Rat) (k : String) :
    Dict.get? (fd.map fun kv => (kv.1, MVal.num kv.2)) k = (Dict.get? fd k).map MVal.num := by
  induction fd with
  | nil => rfl
  | cons a t ih =>
    rw [List.map_cons, Dict.get?_cons_j, Dict.get?_cons_j, ih]
    cases a.1 == k <;> rfl

/-- not incremental: the base dict is the three coordinate columns -/
def cumBase (c : Cell) : Row :=
  [("period_start", MVal.date c.ps), ("period_end", .date c.pe), ("evaluation_date", .date c.ev)]

theorem baseDict_cum {c : Cell} (h : c.prev = none) : baseDict c = cumBase c := by
  unfold baseDict cumBase
  rw [h]
  cases c.kind <;> rfl

structure RowCtx (c : Cell) (N F D L : List String) (fd : Dict Rat) : Prop where
  prev : c.prev = none
  nN : N.Nodup
  nsub : ∀ n ∈ N, n ∈ sixNames ∨ n ∈ D
  nfull : ∀ k, k ∈ sixNames ∨ k ∈ D → k ∉ N → Row.col (flatDict c.md) k = MVal.none
  fdn : (Dict.keys fd).Nodup
  fdsub : ∀ f ∈ Dict.keys fd, f ∈ F
  names : NamesOK D L F

theorem six_core {k : String} (h : k ∈ sixNames) : k ∈ coreNames := by
  simp only [coreNames, List.mem_append]; exact Or.inr h

theorem RowCtx.notN_of_field {c : Cell} {N F D L : List String} {fd : Dict Rat} (h : RowCtx c N F D L fd)
    {k : String} (hk : k ∈ F ∨ k ∈ ["period_start", "period_end", "evaluation_date", "prev_evaluation_date", "scenario"]) :
    k ∉ N := by
  intro hn
  rcases h.nsub k hn with h6 | hd
  · rcases hk with hf | hc
    · exact h.names.fcore k hf (six_core h6)
    · simp only [sixNames, List.mem_cons, List.not_mem_nil, or_false] at h6 hc
      rcases h6 with rfl | rfl | rfl | rfl | rfl | rfl <;> simp at hc
  · rcases hk with hf | hc
    · exact (h.names.dcore k hd).2 hf
    · exact (h.names.dcore k hd).1 (by simp only [coreNames, List.mem_append]; exact Or.inl hc)

theorem col_wideRow_md {c : Cell} {N F D L : List String} {fd : Dict Rat} (h : RowCtx c N F D L fd)
    (i : Nat) {k : String} (hk : k ∈ sixNames ∨ k ∈ D) :
    Row.col (wideRow c N (i, fd)) k = Row.col (flatDict c.md) k := by
  unfold wideRow Row.col
  rw [Dict.get?_union _ _ (metadataDict_wf c h.nN), get?_metadataDict]
  by_cases hn : k ∈ N
  · simp [hn, Row.col]
  · rw [if_neg hn]
    have hcore : k ∉ ["period_start", "period_end", "evaluation_date", "scenario"] ∧ k ∉ F := by
      rcases hk with h6 | hd
      · constructor
        · simp only [sixNames, List.mem_cons, List.not_mem_nil, or_false] at h6
          rcases h6 with rfl | rfl | rfl | rfl | rfl | rfl <;> decide
        · intro hf; exact h.names.fcore k hf (six_core h6)
      · constructor
        · intro hc
          apply (h.names.dcore k hd).1
          simp only [coreNames, List.mem_append, List.mem_cons, List.not_mem_nil, or_false] at hc ⊢
          rcases hc with rfl | rfl | rfl | rfl <;> simp
        · exact (h.names.dcore k hd).2
    have h1 : Dict.get? (fd.map fun kv => (kv.1, MVal.num kv.2)) k = none := by
      rw [Dict.get?_eq_none_iff, keys_numMap]
      intro hm; exact hcore.2 (h.fdsub k hm)
    have h2 : Dict.get? (baseDict c ++ [("scenario", MVal.num ((i : Nat) + 1 : Nat))]) k = none := by
      rw [Dict.get?_eq_none_iff, baseDict_cum h.prev]
      intro hm
      apply hcore.1
      simpa [cumBase, Dict.keys] using hm
    have hwf : Dict.WF (fd.map fun kv => (kv.1, MVal.num kv.2)) := by
      unfold Dict.WF; rw [keys_numMap]; exact h.fdn
    rw [Dict.get?_union _ _ hwf, h1, h2]
    have := h.nfull k hk hn
    unfold Row.col at this
    simp [this]

theorem col_wideRow_other {c : Cell} {N F D L : List String} {fd : Dict Rat} (h : RowCtx c N F D L fd)
    (i : Nat) {k : String}
    (hk : k ∈ F ∨ k ∈ ["period_start", "period_end", "evaluation_date", "prev_evaluation_date", "scenario"]) :
    Dict.get? (wideRow c N (i, fd)) k =
      ((Dict.get? fd k).map MVal.num).or
        (Dict.get? (cumBase c ++ [("scenario", MVal.num ((i : Nat) + 1 : Nat))]) k) := by
  unfold wideRow
  have hwf : Dict.WF (fd.map fun kv => (kv.1, MVal.num kv.2)) := by
    unfold Dict.WF; rw [keys_numMap]; exact h.fdn
  rw [Dict.get?_union _ _ (metadataDict_wf c h.nN), get?_metadataDict, if_neg (h.notN_of_field hk),
    Dict.get?_union _ _ hwf, get?_numMap, baseDict_cum h.prev]
  rfl


/-! ### reading one field of one cell's rows back -/

def reconVal (data : List Rat) : Val :=
  match data with
  | [q] => .flt q
  | _ => .arr false [data.length] data

def reconField (c : Cell) (f : String) : Option (String × Val) :=
  ((Dict.get? c.values f).bind valData).map fun data => (f, reconVal data)

theorem numV_reconVal {v : Val} {data : List Rat} (h : valData v = some data) (hne : data ≠ []) :
    numV (reconVal data) = numV v := by
  cases v with
  | none => simp [valData] at h
  | int i => simp only [valData, Option.some.injEq] at h; subst h; rfl
  | flt q => simp only [valData, Option.some.injEq] at h; subst h; rfl
  | arr isInt shape data' =>
    simp only [valData] at h
    split at h
    · simp only [Option.some.injEq] at h; subst h
      match data', hne with
      | [q], _ => rfl
      | a :: b :: rest, _ => rfl
    · cases h

theorem get?_filterMap_keyed {β : Type} (g : String → Option (String × β))
    (hg : ∀ f p, g f = some p → p.1 = f) : ∀ (F : List String), F.Nodup → ∀ f ∈ F,
    Dict.get? (F.filterMap g) f = (g f).map (·.2)
  | [], _, f, hf => by cases hf
  | a :: t, hn, f, hf => by
    simp only [List.nodup_cons] at hn
    rw [List.filterMap_cons]
    by_cases hfa : f = a
    · subst hfa
      cases hga : g f with
      | none =>
        simp only [Option.map_none]
        rw [Dict.get?_eq_none_iff]
        intro hm
        obtain ⟨p, hp, hpf⟩ := List.mem_map.mp hm
        obtain ⟨x, hx, hgx⟩ := List.mem_filterMap.mp hp
        have := hg x p hgx
        rw [hpf] at this
        exact hn.1 (this ▸ hx)
      | some p =>
        simp only [Option.map_some]
        rw [Dict.get?_cons_j]
        simp [hg f p hga]
    · have hft : f ∈ t := by
        rcases List.mem_cons.mp hf with h | h
        · exact absurd h hfa
        · exact h
      have ih := get?_filterMap_keyed g hg t hn.2 f hft
      cases hga : g a with
      | none => simpa using ih
      | some p =>
        simp only
        rw [Dict.get?_cons_j]
        have : (p.1 == f) = false := by
          apply beq_false_of_ne
          rw [hg a p hga]; exact fun h => hfa h.symm
        simp [this, ih]

theorem pureEntry_fst (c : Cell) (i : Nat) (f : String) (p : String × Rat) (h : pureEntry c i f = some p) :
    p.1 = f := by
  unfold pureEntry at h
  cases hx : ((Dict.get? c.values f).bind fun v => (valData v).bind (·[i]?)) with
  | none => simp [hx] at h
  | some q => simp only [hx, Option.map_some, Option.some.injEq] at h; rw [← h]

theorem get?_fieldDictPure (c : Cell) {F : List String} (hF : F.Nodup) (i : Nat) {f : String} (hf : f ∈ F) :
    Dict.get? (fieldDictPure c F i) f = (Dict.get? c.values f).bind fun v => (valData v).bind (·[i]?) := by
  unfold fieldDictPure
  rw [get?_filterMap_keyed (pureEntry c i) (pureEntry_fst c i) F hF f hf]
  unfold pureEntry
  cases ((Dict.get? c.values f).bind fun v => (valData v).bind (·[i]?)) <;> rfl

theorem keys_fieldDictPure (c : Cell) (F : List String) (i : Nat) :
    (Dict.keys (fieldDictPure c F i)).Sublist F := by
  unfold fieldDictPure Dict.keys
  induction F with
  | nil => simp
  | cons a t ih =>
    rw [List.filterMap_cons]
    cases hp : pureEntry c i a with
    | none => exact List.Sublist.cons _ ih
    | some p =>
      simp only [List.map_cons]
      rw [pureEntry_fst c i a p hp]
      exact List.Sublist.cons_cons _ ih

theorem filterMap_id_getElem (data : List Rat) :
    ((List.range data.length).map fun i => data[i]?).filterMap id = data := by
  induction data with
  | nil => rfl
  | cons a t ih =>
    rw [List.length_cons, List.range_succ_eq_map, List.map_cons, List.filterMap_cons]
    simp only [List.getElem?_cons_zero, id_eq, List.map_map, List.cons.injEq, true_and]
    conv => rhs; rw [← ih]
    congr 1

theorem assembleField_two (f : String) (es : List (Option Rat)) (h : 2 ≤ es.length) :
    assembleField f es = if es.all Option.isNone then .ok none
      else if es.all Option.isSome then .ok (some (f, Val.arr false [es.length] (es.filterMap id)))
      else .error .typeError := by
  match es, h with
  | a :: b :: rest, _ => rfl

/-- **one field of one written block, read back** -/
theorem groupFieldVal_block {c : Cell} {F : List String} {n : Nat} (h : CellOK c F n) (hF : F.Nodup)
    (g : List Row) (f : String) (hf : f ∈ F) (hlen : g.length = n)
    (hcol : ∀ i (hi : i < g.length), mvalNum? (Row.col g[i] f) = Dict.get? (fieldDictPure c F i) f) :
    groupFieldVal g f = .ok (reconField c f) := by
  have hes : g.map (fun row => mvalNum? (Row.col row f)) =
      (List.range n).map fun i => (Dict.get? c.values f).bind fun v => (valData v).bind (·[i]?) := by
    apply List.ext_getElem
    · simp [hlen]
    · intro i h1 h2
      simp only [List.getElem_map, List.getElem_range]
      rw [hcol i (by simpa using h1), get?_fieldDictPure c hF i hf]
  unfold groupFieldVal
  rw [hes]
  unfold reconField
  cases hg : Dict.get? c.values f with
  | none =>
    simp only [Option.bind_none, Option.map_none]
    by_cases h2 : 2 ≤ n
    · match n, h2 with
      | k + 2, _ =>
        rw [assembleField_two _ _ (by simp)]
        have : (((List.range (k + 2)).map fun _ => (none : Option Rat)).all Option.isNone) = true := by simp
        rw [if_pos this]
    · have h1 : n = 1 := by have := h.pos; omega
      subst h1
      simp [assembleField]
  | some v =>
    obtain ⟨data, hd, hdl⟩ := h.vals (f, v) (get?_mem hg)
    simp only [Option.bind_some, hd, Option.map_some]
    by_cases h2 : 2 ≤ n
    · -- samples
      match n, h2, hdl with
      | k + 2, _, hdl =>
        have hall : (((List.range (k + 2)).map fun i => data[i]?).all Option.isSome) = true := by
          rw [List.all_eq_true]
          intro o ho
          obtain ⟨i, hi, rfl⟩ := List.mem_map.mp ho
          have : i < data.length := by rw [hdl]; exact List.mem_range.mp hi
          simp [List.getElem?_eq_getElem this]
        have hnn : (((List.range (k + 2)).map fun i => data[i]?).all Option.isNone) = false := by
          rw [List.all_eq_false]
          refine ⟨data[0]?, List.mem_map.mpr ⟨0, by simp, rfl⟩, ?_⟩
          have h0 : 0 < data.length := by omega
          simp [List.getElem?_eq_getElem h0]
        rw [assembleField_two _ _ (by simp), hnn]
        simp only [Bool.false_eq_true, if_false]
        rw [if_pos hall]
        have hes2 : ((List.range (k + 2)).map fun i => data[i]?) = (List.range data.length).map fun i => data[i]? := by
          rw [hdl]
        rw [hes2, filterMap_id_getElem]
        have : reconVal data = Val.arr false [data.length] data := by
          match data, hdl with
          | a :: b :: rest, _ => rfl
        rw [this]
        simp
    · have h1 : n = 1 := by have := h.pos; omega
      subst h1
      match data, hdl with
      | [q], _ => simp [reconVal, assembleField]


/-! ### the well-formedness of a triangle for the wide form, and what follows for its rows -/

def sampleCount (c : Cell) : Nat :=
  match c.values with
  | [] => 1
  | kv :: _ => ((valData kv.2).map List.length).getD 1

/-- `WFcsv` for the wide form, cumulative triangles: a non-empty strictly sorted triangle of
`Cell`s / `CumulativeCell`s, table-safe metadata and column names, every cell all-scalar or
all-sample -/
structure WFwide (t : List Cell) (D L : List String) : Prop where
  ne : t ≠ []
  sorted : t.Pairwise (fun a b => Cell.cmp a b = .lt)
  cum : ∀ c ∈ t, c.kind ≠ .incremental ∧ c.prev = none
  dates : ∀ c ∈ t, c.datesOk = true
  md : ∀ c ∈ t, MdOK c.md D L
  names : NamesOK D L (allFields t)
  cells : ∀ c ∈ t, CellOK c (allFields t) (sampleCount c)

theorem mem_nonNoneNames {m : Metadata} {k : String} (h : Row.col (flatDict m) k ≠ MVal.none) :
    k ∈ nonNoneNames m := by
  unfold Row.col at h
  cases hg : Dict.get? (flatDict m) k with
  | none => simp [hg] at h
  | some v =>
    simp only [hg, Option.getD_some] at h
    unfold nonNoneNames
    refine List.mem_filterMap.mpr ⟨(k, v), get?_mem hg, ?_⟩
    have : (v == MVal.none) = false := by simpa using h
    simp [this]

theorem nonNoneNames_sub {m : Metadata} {k : String} (h : k ∈ nonNoneNames m) :
    k ∈ Dict.keys (flatDict m) := by
  unfold nonNoneNames at h
  obtain ⟨kv, hkv, hk⟩ := List.mem_filterMap.mp h
  split at hk
  · cases hk
  · simp only [Option.some.injEq] at hk
    rw [← hk]; exact List.mem_map_of_mem hkv

theorem WFwide.rowCtx {t : List Cell} {D L : List String} (h : WFwide t D L) {c : Cell} (hc : c ∈ t)
    (i : Nat) : RowCtx c (allMetadataNames t) (allFields t) D L (fieldDictPure c (allFields t) i) where
  prev := (h.cum c hc).2
  nN := allMetadataNames_nodup t
  nsub := by
    intro n hn
    obtain ⟨c', hc', hn'⟩ := mem_allMetadataNames.mp hn
    rcases (keys_flat c'.md n).mp (nonNoneNames_sub hn') with h6 | hd | hl
    · exact Or.inl h6
    · exact Or.inr ((h.md c' hc').dkeys n hd).1
    · exact Or.inr (h.names.lsub n ((h.md c' hc').lkeys n hl))
  nfull := by
    intro k _ hk
    apply Classical.byContradiction
    intro hne
    exact hk (mem_allMetadataNames.mpr ⟨c, hc, mem_nonNoneNames hne⟩)
  fdn := List.Nodup.sublist (keys_fieldDictPure c _ i) (allFields_nodup t)
  fdsub := fun f hf => (keys_fieldDictPure c _ i).subset hf
  names := h.names

/-- a row transformation that only touches the `scenario` column (`id` or `eraseScenario`) -/
def KeepsOthers (E : Row → Row) : Prop := ∀ r k, k ≠ "scenario" → Dict.get? (E r) k = Dict.get? r k

theorem keepsOthers_id : KeepsOthers id := fun _ _ _ => rfl

theorem keepsOthers_erase : KeepsOthers eraseScenario := by
  intro r k hk
  unfold eraseScenario
  have := Dict.get?_filter_j r (fun s => s != "scenario") k
  rw [this]
  have : (k != "scenario") = true := by simpa using hk
  rw [if_pos this]

theorem not_core_ne_scenario {k : String} (h : k ∉ coreNames) : k ≠ "scenario" := by
  intro he; subst he; exact h (by decide)

section rows
variable {t : List Cell} {D L : List String} (h : WFwide t D L) {c : Cell} (hc : c ∈ t)
  {E : Row → Row} (hE : KeepsOthers E) (i : Nat)
include h hc hE

theorem col_row_md {k : String} (hk : k ∈ sixNames ∨ k ∈ D) :
    Row.col (E (wideRow c (allMetadataNames t) (i, fieldDictPure c (allFields t) i))) k =
      Row.col (flatDict c.md) k := by
  have hne : k ≠ "scenario" := by
    rcases hk with h6 | hd
    · intro he; subst he; revert h6; decide
    · exact not_core_ne_scenario (h.names.dcore k hd).1
  unfold Row.col
  rw [hE _ _ hne]
  exact col_wideRow_md (h.rowCtx hc i) i hk

theorem get?_row_coord {k : String} (hk : k ∈ ["period_start", "period_end", "evaluation_date", "prev_evaluation_date"]) :
    Dict.get? (E (wideRow c (allMetadataNames t) (i, fieldDictPure c (allFields t) i))) k =
      Dict.get? (cumBase c) k := by
  have hne : k ≠ "scenario" := by intro he; subst he; revert hk; decide
  have hk' : k ∈ allFields t ∨ k ∈ ["period_start", "period_end", "evaluation_date", "prev_evaluation_date", "scenario"] := by
    right
    simp only [List.mem_cons, List.not_mem_nil, or_false] at hk ⊢
    rcases hk with rfl | rfl | rfl | rfl <;> simp
  rw [hE _ _ hne, col_wideRow_other (h.rowCtx hc i) i hk']
  have hnf : Dict.get? (fieldDictPure c (allFields t) i) k = none := by
    rw [Dict.get?_eq_none_iff]
    intro hm
    have := (h.rowCtx hc i).fdsub k hm
    exact h.names.fcore k this (by
      simp only [coreNames, List.mem_append, List.mem_cons, List.not_mem_nil, or_false] at hk ⊢
      rcases hk with rfl | rfl | rfl | rfl <;> simp)
  rw [hnf]
  simp only [Option.map_none, Option.none_or]
  simp only [List.mem_cons, List.not_mem_nil, or_false] at hk
  rcases hk with rfl | rfl | rfl | rfl <;> simp [cumBase, Dict.get?]

theorem num_row_field {f : String} (hf : f ∈ allFields t) :
    mvalNum? (Row.col (E (wideRow c (allMetadataNames t) (i, fieldDictPure c (allFields t) i))) f) =
      Dict.get? (fieldDictPure c (allFields t) i) f := by
  have hcore := h.names.fcore f hf
  have hne : f ≠ "scenario" := not_core_ne_scenario hcore
  unfold Row.col
  rw [hE _ _ hne, col_wideRow_other (h.rowCtx hc i) i (Or.inl hf)]
  have hb : Dict.get? (cumBase c ++ [("scenario", MVal.num ((i : Nat) + 1 : Nat))]) f = none := by
    rw [Dict.get?_eq_none_iff]
    intro hm
    apply hcore
    simp only [cumBase, Dict.keys, List.map_append, List.map_cons, List.map_nil, List.mem_append, List.mem_cons,
      List.not_mem_nil, or_false] at hm
    simp only [coreNames, List.mem_append, List.mem_cons, List.not_mem_nil, or_false]
    rcases hm with (h1 | h1 | h1) | h1 <;> simp [h1]
  rw [hb]
  cases Dict.get? (fieldDictPure c (allFields t) i) f <;> rfl

theorem rowMetadata_row :
    rowMetadata (E (wideRow c (allMetadataNames t) (i, fieldDictPure c (allFields t) i))) D L = c.md := by
  apply rowMetadata_of_cols (h.md c hc) h.names
  intro k hk
  exact col_row_md h hc hE i (List.mem_append.mp hk)

end rows


/-! ### the group key of a written row is a function of its cell -/

/-- every key of reader `fn` in the GENERATED table is one of `allowed` -/
def keysWithin (fn : String) (allowed : List String) : Bool :=
  match Generated.FrameKeys.groupByKeys.find? (·.1 == fn) with
  | some (_, ks) => ks.all allowed.contains
  | none => false

theorem mem_groupCols_within {fn : String} {allowed : List String} (h : keysWithin fn allowed = true)
    {D L : List String} {x : String} (hx : x ∈ groupCols fn D L) :
    ∃ k ∈ allowed, x ∈ expandKey D L k := by
  unfold keysWithin at h
  unfold groupCols at hx
  split at h
  · rename_i fn' ks heq
    rw [heq] at hx
    obtain ⟨k, hk, hxk⟩ := List.mem_flatMap.mp hx
    exact ⟨k, List.contains_iff_mem.mp (List.all_eq_true.mp h k hk), hxk⟩
  · cases h

theorem wide_keys_within : keysWithin "wide_data_frame_to_triangle" requiredKeys = true := by decide
theorem wide_keys_cover : keysCover "wide_data_frame_to_triangle" = true := by decide

theorem mem_wideCols {D L : List String} {x : String}
    (hx : x ∈ groupCols "wide_data_frame_to_triangle" D L) :
    x ∈ ["period_start", "period_end", "evaluation_date"] ∨ x ∈ sixNames ∨ x ∈ D ∨ x ∈ L := by
  obtain ⟨k, hk, hxk⟩ := mem_groupCols_within wide_keys_within hx
  simp only [requiredKeys, List.mem_cons, List.not_mem_nil, or_false] at hk
  rcases hk with rfl | rfl | rfl | rfl | rfl | rfl | rfl | rfl | rfl | rfl | rfl <;>
    simp [expandKey] at hxk <;> simp [hxk, sixNames]

def cellKeyVal (c : Cell) (k : String) : MVal :=
  match Dict.get? (cumBase c) k with
  | some v => v
  | none => Row.col (flatDict c.md) k

def cellKey (c : Cell) (D L : List String) : List MVal :=
  (groupCols "wide_data_frame_to_triangle" D L).map (cellKeyVal c)

theorem cellKeyVal_md {t : List Cell} {D L : List String} (h : WFwide t D L) (c : Cell) {k : String}
    (hk : k ∈ sixNames ∨ k ∈ D) : cellKeyVal c k = Row.col (flatDict c.md) k := by
  unfold cellKeyVal
  have : Dict.get? (cumBase c) k = none := by
    rw [Dict.get?_eq_none_iff]
    intro hm
    simp only [cumBase, Dict.keys, List.map_cons, List.map_nil, List.mem_cons, List.not_mem_nil, or_false] at hm
    rcases hk with h6 | hd
    · simp only [sixNames, List.mem_cons, List.not_mem_nil, or_false] at h6
      rcases h6 with rfl | rfl | rfl | rfl | rfl | rfl <;> simp at hm
    · apply (h.names.dcore k hd).1
      simp only [coreNames, List.mem_append, List.mem_cons, List.not_mem_nil, or_false]
      rcases hm with rfl | rfl | rfl <;> simp
  rw [this]

section keyrows
variable {t : List Cell} {D L : List String} (h : WFwide t D L) {c : Cell} (hc : c ∈ t)
  {E : Row → Row} (hE : KeepsOthers E) (i : Nat) (cols : List String)
  (hcols : ∀ k ∈ ["period_start", "period_end", "evaluation_date"], cols.contains k = true)
include h hc hE hcols

theorem wideKey_row :
    wideKey cols D L (E (wideRow c (allMetadataNames t) (i, fieldDictPure c (allFields t) i))) =
      cellKey c D L := by
  unfold wideKey cellKey
  apply List.map_congr_left
  intro k hk
  unfold keyEntry
  rcases mem_wideCols hk with hco | hrest
  · rw [if_pos (hcols k hco)]
    unfold Row.col cellKeyVal
    rw [get?_row_coord h hc hE i (by
      simp only [List.mem_cons, List.not_mem_nil, or_false] at hco ⊢
      rcases hco with rfl | rfl | rfl <;> simp)]
    simp only [List.mem_cons, List.not_mem_nil, or_false] at hco
    rcases hco with rfl | rfl | rfl <;> simp [cumBase, Dict.get?]
  · have hk' : k ∈ sixNames ∨ k ∈ D := by
      rcases hrest with h6 | hd | hl
      · exact Or.inl h6
      · exact Or.inr hd
      · exact Or.inr (h.names.lsub k hl)
    rw [rowMetadata_row h hc hE i, col_row_md h hc hE i hk', cellKeyVal_md h c hk']
    simp

end keyrows

theorem mem_wideCols_of {D L : List String} {k : String}
    (hk : k ∈ ["period_start", "period_end", "evaluation_date"] ∨ k ∈ sixNames ∨ k ∈ D) :
    k ∈ groupCols "wide_data_frame_to_triangle" D L := by
  rcases hk with hco | h6 | hd
  · refine mem_groupCols wide_keys_cover D L (k := k) ?_ ?_
    · simp only [List.mem_cons, List.not_mem_nil, or_false] at hco
      rcases hco with rfl | rfl | rfl <;> decide
    · simp only [List.mem_cons, List.not_mem_nil, or_false] at hco
      rcases hco with rfl | rfl | rfl <;> simp [expandKey]
  · refine mem_groupCols wide_keys_cover D L (k := k) ?_ ?_
    · simp only [sixNames, List.mem_cons, List.not_mem_nil, or_false] at h6
      rcases h6 with rfl | rfl | rfl | rfl | rfl | rfl <;> decide
    · simp only [sixNames, List.mem_cons, List.not_mem_nil, or_false] at h6
      rcases h6 with rfl | rfl | rfl | rfl | rfl | rfl <;> simp [expandKey]
  · exact mem_groupCols wide_keys_cover D L (k := "$detail_cols") (by decide) (by simpa [expandKey] using hd)

/-- cells with the same group key have the same coordinates and metadata -/
theorem cellKey_inj {t : List Cell} {D L : List String} (h : WFwide t D L) {a b : Cell} (ha : a ∈ t)
    (hb : b ∈ t) (hk : cellKey a D L = cellKey b D L) :
    a.ps = b.ps ∧ a.pe = b.pe ∧ a.ev = b.ev ∧ a.md = b.md := by
  unfold cellKey at hk
  have hall := List.map_inj_left.mp hk
  have c1 := hall "period_start" (mem_wideCols_of (Or.inl (by simp)))
  have c2 := hall "period_end" (mem_wideCols_of (Or.inl (by simp)))
  have c3 := hall "evaluation_date" (mem_wideCols_of (Or.inl (by simp)))
  simp only [cellKeyVal, cumBase, Dict.get?, List.find?_cons, beq_self_eq_true, Option.map_some,
    MVal.date.injEq] at c1
  have c2' : a.pe = b.pe := by simpa [cellKeyVal, cumBase, Dict.get?, List.find?_cons] using c2
  have c3' : a.ev = b.ev := by simpa [cellKeyVal, cumBase, Dict.get?, List.find?_cons] using c3
  refine ⟨c1, c2', c3', ?_⟩
  have hmd : rowMetadata (flatDict a.md) D L = b.md := by
    apply rowMetadata_of_cols (h.md b hb) h.names
    intro k hk'
    have hk'' := List.mem_append.mp hk'
    have := hall k (mem_wideCols_of (Or.inr hk''))
    rw [cellKeyVal_md h a hk'', cellKeyVal_md h b hk''] at this
    exact this
  have hma : rowMetadata (flatDict a.md) D L = a.md :=
    rowMetadata_of_cols (h.md a ha) h.names (fun _ _ => rfl)
  rw [← hma, hmd]


/-! ### one written block read back -/

def wblock (t : List Cell) (E : Row → Row) (c : Cell) : List Row :=
  (List.range (sampleCount c)).map fun i =>
    E (wideRow c (allMetadataNames t) (i, fieldDictPure c (allFields t) i))

/-- what the reader makes of a cell's rows: a `CumulativeCell` with float values -/
def recon (t : List Cell) (c : Cell) : Cell :=
  { kind := .cumulative, ps := c.ps, pe := c.pe, ev := c.ev, prev := none,
    values := (allFields t).filterMap (reconField c), md := c.md }

theorem scenario_row {t : List Cell} {D L : List String} (h : WFwide t D L) {c : Cell} (hc : c ∈ t) (i : Nat) :
    Row.col (wideRow c (allMetadataNames t) (i, fieldDictPure c (allFields t) i)) "scenario" =
      MVal.num ((i + 1 : Nat) : Rat) := by
  unfold Row.col
  rw [col_wideRow_other (h.rowCtx hc i) i (Or.inr (by simp))]
  have hnf : Dict.get? (fieldDictPure c (allFields t) i) "scenario" = none := by
    rw [Dict.get?_eq_none_iff]
    intro hm
    exact h.names.fcore _ ((h.rowCtx hc i).fdsub _ hm) (by decide)
  rw [hnf]
  simp [cumBase, Dict.get?]

theorem wblock_sorted {t : List Cell} {D L : List String} (h : WFwide t D L) {c : Cell} (hc : c ∈ t) :
    (wblock t id c).Pairwise (fun a b => scenarioLe a b = true) := by
  unfold wblock
  rw [List.pairwise_map]
  have : (List.range (sampleCount c)).Pairwise (· < ·) := List.pairwise_lt_range
  refine this.imp ?_
  intro i j hij
  simp only [id, scenarioLe, scenario_row h hc]
  have : ((i + 1 : Nat) : Rat) ≤ ((j + 1 : Nat) : Rat) := by exact_mod_cast (by omega : i + 1 ≤ j + 1)
  simpa using this

section block
variable {t : List Cell} {D L : List String} (h : WFwide t D L) {c : Cell} (hc : c ∈ t)
  {E : Row → Row} (hE : KeepsOthers E) (cols : List String)
  (hmode : (E = id ∧ cols.contains "scenario" = true) ∨ sampleCount c = 1)
include h hc hE hmode

theorem wideGroupCell_block :
    wideGroupCell cols (allFields t) D L (wblock t E c) = .ok (recon t c) := by
  have hn := (h.cells c hc).pos
  have hlen : (wblock t E c).length = sampleCount c := by simp [wblock]
  -- the scenario sort changes nothing
  have hsort : sortGroup cols (wblock t E c) = .ok (wblock t E c) := by
    unfold sortGroup
    by_cases h1 : (wblock t E c).length > 1
    · rw [if_pos h1]
      rcases hmode with ⟨hid, hsc⟩ | h1'
      · rw [if_pos hsc, hid, List.mergeSort_of_pairwise (wblock_sorted h hc)]
      · omega
    · rw [if_neg h1]
  unfold wideGroupCell
  rw [hsort]
  simp only [Except.bind]
  obtain ⟨k, hk⟩ : ∃ k, sampleCount c = k + 1 := ⟨sampleCount c - 1, by omega⟩
  have hcons : wblock t E c =
      E (wideRow c (allMetadataNames t) (0, fieldDictPure c (allFields t) 0)) ::
        ((List.range k).map fun i => E (wideRow c (allMetadataNames t) (i + 1, fieldDictPure c (allFields t) (i + 1)))) := by
    unfold wblock
    rw [hk, List.range_succ_eq_map, List.map_cons, List.map_map]
    rfl
  have hvals : (allFields t).mapM (groupFieldVal (wblock t E c)) =
      .ok ((allFields t).map (reconField c)) := by
    apply mapM_ok_of_forall
    intro f hf
    apply groupFieldVal_block (h.cells c hc) (allFields_nodup t) _ f hf hlen
    intro i hi
    have : (wblock t E c)[i] = E (wideRow c (allMetadataNames t) (i, fieldDictPure c (allFields t) i)) := by
      simp [wblock]
    rw [this]
    exact num_row_field h hc hE i hf
  rw [hcons] at hvals ⊢
  simp only [hvals]
  have d1 : Row.col (E (wideRow c (allMetadataNames t) (0, fieldDictPure c (allFields t) 0))) "period_start" = .date c.ps := by
    unfold Row.col; rw [get?_row_coord h hc hE 0 (by simp)]; simp [cumBase, Dict.get?]
  have d2 : Row.col (E (wideRow c (allMetadataNames t) (0, fieldDictPure c (allFields t) 0))) "period_end" = .date c.pe := by
    unfold Row.col; rw [get?_row_coord h hc hE 0 (by simp)]; simp [cumBase, Dict.get?]
  have d3 : Row.col (E (wideRow c (allMetadataNames t) (0, fieldDictPure c (allFields t) 0))) "evaluation_date" = .date c.ev := by
    unfold Row.col; rw [get?_row_coord h hc hE 0 (by simp)]; simp [cumBase, Dict.get?]
  rw [d1, d2, d3, rowMetadata_row h hc hE 0]
  simp only [mvalDate?, recon, List.filterMap_map]
  rfl

end block


/-! ### the whole table -/

theorem mem_colsOf {rows : List Row} {k : String} : k ∈ colsOf rows ↔ ∃ r ∈ rows, k ∈ Dict.keys r := by
  have := (foldl_addNew_spec (fun r : Row => Dict.keys r) rows []).2 k
  simpa [colsOf] using this

theorem mem_keys_of_get? {α : Type} {d : Dict α} {k : String} {v : α} (h : Dict.get? d k = some v) :
    k ∈ Dict.keys d := by
  apply Classical.byContradiction
  intro hn
  rw [Dict.get?_eq_none_iff.mpr hn] at h
  cases h

theorem toWide_blocks {t : List Cell} {D L : List String} (h : WFwide t D L) :
    t.mapM (fun c => cellWideRows c (allMetadataNames t) (allFields t)) = .ok (t.map (wblock t id)) := by
  apply mapM_ok_of_forall
  intro c hc
  rw [cellWideRows_ok (h.cells c hc)]
  rfl

theorem wblock_ne {t : List Cell} {D L : List String} (h : WFwide t D L) {c : Cell} (hc : c ∈ t)
    (E : Row → Row) : wblock t E c ≠ [] := by
  have := (h.cells c hc).pos
  intro he
  have : (wblock t E c).length = 0 := by rw [he]; rfl
  simp [wblock] at this
  omega

theorem wblock_map (t : List Cell) (E : Row → Row) (c : Cell) : (wblock t id c).map E = wblock t E c := by
  simp [wblock, List.map_map, Function.comp_def]

/-- the written table: the blocks of the cells in order, with the `scenario` column either kept
(then it is a column) or dropped (then every cell has one row) -/
theorem toWideRows_ok {t : List Cell} {D L : List String} (h : WFwide t D L) :
    ∃ E : Row → Row, KeepsOthers E ∧
      toWideRows t = .ok (mkTable (t.map (wblock t E)).flatten) ∧
      ((E = id ∧ (colsOf (t.map (wblock t E)).flatten).contains "scenario" = true) ∨
        ∀ c ∈ t, sampleCount c = 1) := by
  unfold toWideRows
  rw [toWide_blocks h]
  simp only [Except.bind]
  have hscen : ∀ r ∈ (t.map (wblock t id)).flatten, ∃ c ∈ t, ∃ i, i < sampleCount c ∧
      r = wideRow c (allMetadataNames t) (i, fieldDictPure c (allFields t) i) := by
    intro r hr
    obtain ⟨b, hb, hrb⟩ := List.mem_flatten.mp hr
    obtain ⟨c, hc, rfl⟩ := List.mem_map.mp hb
    obtain ⟨i, hi, rfl⟩ := List.mem_map.mp hrb
    exact ⟨c, hc, i, List.mem_range.mp hi, rfl⟩
  unfold dropConstantScenario
  cases hrows : (t.map (wblock t id)).flatten with
  | nil =>
    exfalso
    obtain ⟨c, hc⟩ := List.exists_mem_of_ne_nil _ h.ne
    obtain ⟨r, hr⟩ := List.exists_mem_of_ne_nil _ (wblock_ne h hc id)
    have : r ∈ (t.map (wblock t id)).flatten := List.mem_flatten.mpr ⟨_, List.mem_map_of_mem hc, hr⟩
    rw [hrows] at this; cases this
  | cons r rest =>
    simp only
    rw [← hrows]
    by_cases hconst : scenarioConstant (t.map (wblock t id)).flatten r = true
    · rw [if_pos hconst]
      refine ⟨eraseScenario, keepsOthers_erase, ?_, Or.inr ?_⟩
      · simp only [Except.map, List.map_flatten, List.map_map, Function.comp_def, wblock_map]
      · -- every cell has one row
        intro c hc
        apply Classical.byContradiction
        intro hne
        have hpos := (h.cells c hc).pos
        have h2 : 2 ≤ sampleCount c := by omega
        have m0 : wideRow c (allMetadataNames t) (0, fieldDictPure c (allFields t) 0) ∈ (t.map (wblock t id)).flatten :=
          List.mem_flatten.mpr ⟨_, List.mem_map_of_mem hc, List.mem_map.mpr ⟨0, List.mem_range.mpr (by omega), rfl⟩⟩
        have m1 : wideRow c (allMetadataNames t) (1, fieldDictPure c (allFields t) 1) ∈ (t.map (wblock t id)).flatten :=
          List.mem_flatten.mpr ⟨_, List.mem_map_of_mem hc, List.mem_map.mpr ⟨1, List.mem_range.mpr (by omega), rfl⟩⟩
        unfold scenarioConstant at hconst
        simp only [Bool.or_eq_true, Bool.and_eq_true, List.all_eq_true, List.mem_map, forall_exists_index,
          and_imp, forall_apply_eq_imp_iff₂, beq_iff_eq] at hconst
        rcases hconst with ⟨_, hall⟩ | hall
        · have e0 := hall _ m0
          have e1 := hall _ m1
          rw [scenario_row h hc] at e0 e1
          rw [← e1] at e0
          simp at e0
        · have e0 := hall _ m0
          rw [scenario_row h hc] at e0
          cases e0
    · rw [if_neg hconst]
      refine ⟨id, keepsOthers_id, rfl, Or.inl ⟨rfl, ?_⟩⟩
      apply List.contains_iff_mem.mpr
      have hr : r ∈ (t.map (wblock t id)).flatten := by rw [hrows]; exact List.mem_cons_self
      obtain ⟨c, hc, i, _, rfl⟩ := hscen r hr
      refine mem_colsOf.mpr ⟨_, hr, ?_⟩
      have := scenario_row h hc i
      unfold Row.col at this
      cases hg : Dict.get? (wideRow c (allMetadataNames t) (i, fieldDictPure c (allFields t) i)) "scenario" with
      | none => simp [hg] at this
      | some v => exact mem_keys_of_get? hg


/-! ### reading the written table back -/

theorem get?_of_mem_nodup {α : Type} {d : Dict α} {p : String × α} (hnd : (Dict.keys d).Nodup) (h : p ∈ d) :
    Dict.get? d p.1 = some p.2 := by
  induction d with
  | nil => cases h
  | cons a t ih =>
    simp only [Dict.keys, List.map_cons, List.nodup_cons] at hnd
    rw [Dict.get?_cons_j]
    rcases List.mem_cons.mp h with rfl | h'
    · simp
    · have : (a.1 == p.1) = false := by
        apply beq_false_of_ne
        intro he; exact hnd.1 (he ▸ List.mem_map_of_mem h')
      rw [this]; exact ih hnd.2 h'

theorem cmp_recon (t : List Cell) {a b : Cell} (ha : a.prev = none) (hb : b.prev = none) :
    Cell.cmp (recon t a) (recon t b) = Cell.cmp a b := by
  simp only [Cell.cmp, compareLex, cmpOn, recon, ha, hb]

theorem numV_recon_values {t : List Cell} {D L : List String} (h : WFwide t D L) {c : Cell} (hc : c ∈ t) :
    (((allFields t).filterMap (reconField c)).map fun kv => (kv.1, numV kv.2)).Perm
      (c.values.map fun kv => (kv.1, numV kv.2)) := by
  have hok := h.cells c hc
  have hnd1 : (((allFields t).filterMap (reconField c)).map fun kv => (kv.1, numV kv.2)).Nodup := by
    have hk : ((((allFields t).filterMap (reconField c)).map fun kv => (kv.1, numV kv.2)).map (·.1)).Sublist
        (allFields t) := by
      rw [List.map_map]
      generalize allFields t = F
      induction F with
      | nil => simp
      | cons a F ih =>
        rw [List.filterMap_cons]
        cases hr : reconField c a with
        | none => exact List.Sublist.cons _ ih
        | some p =>
          have : p.1 = a := by
            unfold reconField at hr
            cases hx : (Dict.get? c.values a).bind valData with
            | none => simp [hx] at hr
            | some d => simp only [hx, Option.map_some, Option.some.injEq] at hr; rw [← hr]
          simp only [List.map_cons, Function.comp_apply, this]
          exact List.Sublist.cons_cons _ ih
    exact List.Nodup.of_map _ (List.Nodup.sublist hk (allFields_nodup t))
  have hnd2 : (c.values.map fun kv => (kv.1, numV kv.2)).Nodup := by
    apply List.Nodup.of_map (·.1)
    rw [List.map_map]
    exact hok.nodup
  rw [List.perm_ext_iff_of_nodup hnd1 hnd2]
  intro p
  simp only [List.mem_map, List.mem_filterMap]
  constructor
  · rintro ⟨kv, ⟨f, _, hr⟩, rfl⟩
    unfold reconField at hr
    cases hg : Dict.get? c.values f with
    | none => simp [hg] at hr
    | some v =>
      obtain ⟨data, hd, hlen⟩ := hok.vals (f, v) (get?_mem hg)
      simp only [hg, Option.bind_some, hd, Option.map_some, Option.some.injEq] at hr
      refine ⟨(f, v), get?_mem hg, ?_⟩
      rw [← hr]
      simp only
      rw [numV_reconVal hd (by intro he; rw [he] at hlen; have := hok.pos; simp at hlen; omega)]
  · rintro ⟨kv, hkv, rfl⟩
    obtain ⟨data, hd, hlen⟩ := hok.vals kv hkv
    have hg : Dict.get? c.values kv.1 = some kv.2 := by
      have hwf : Dict.WF c.values := hok.nodup
      exact get?_of_mem_nodup hwf hkv
    refine ⟨(kv.1, reconVal data), ⟨kv.1, mem_allFields.mpr ⟨c, hc, List.mem_map_of_mem hkv⟩, ?_⟩, ?_⟩
    · simp [reconField, hg, hd]
    · simp only
      rw [numV_reconVal hd (by intro he; rw [he] at hlen; have := hok.pos; simp at hlen; omega)]

theorem canonCell_recon {t : List Cell} {D L : List String} (h : WFwide t D L) {c : Cell} (hc : c ∈ t) :
    canonCell (recon t c) = canonCell c := by
  obtain ⟨hk, hp⟩ := h.cum c hc
  have hkind : typedKind CellKind.cumulative = typedKind c.kind := by
    cases hck : c.kind <;> simp_all [typedKind]
  unfold canonCell
  simp only [recon, hp, hkind]
  congr 1
  apply mergeSort_perm_invariant (cmp := cmpOn (fun p : String × NumV => p.1) compare) (numV_recon_values h hc)
  intro a b ha hb hab
  have hab' : a.1 = b.1 := by
    simp only [cmpOn] at hab
    exact Std.compare_eq_iff_eq.mp hab
  -- keys are distinct inside the list
  have hnd : ((((allFields t).filterMap (reconField c)).map fun kv => (kv.1, numV kv.2)).map (·.1)).Nodup := by
    have := (numV_recon_values h hc).map (·.1)
    rw [this.nodup_iff, List.map_map]
    exact (h.cells c hc).nodup
  exact (List.inj_on_of_nodup_map hnd) ha hb hab'


def okAnd {α : Type} (p : α → Bool) : Except Err α → Bool
  | .ok a => p a
  | .error _ => false

theorem cellKey_nodup {t : List Cell} {D L : List String} (h : WFwide t D L) :
    (t.map fun c => cellKey c D L).Nodup := by
  unfold List.Nodup
  rw [List.pairwise_map]
  -- strengthen the pairwise hypothesis with membership
  have hs : t.Pairwise (fun a b => a ∈ t ∧ b ∈ t ∧ Cell.cmp a b = .lt) := by
    rw [List.pairwise_iff_getElem]
    intro i j hi hj hij
    exact ⟨List.getElem_mem hi, List.getElem_mem hj, List.pairwise_iff_getElem.mp h.sorted i j hi hj hij⟩
  refine hs.imp ?_
  intro a b ⟨ha, hb, hlt⟩ hk
  obtain ⟨e1, e2, e3, e4⟩ := cellKey_inj h ha hb hk
  have : Cell.cmp a b = .eq := by
    rw [Cell.cmp_eq_eq (h.md a ha).canon (h.md b hb).canon]
    simp [Cell.coord, e1, e2, e3, e4, (h.cum a ha).2, (h.cum b hb).2]
  rw [this] at hlt
  cases hlt

/-- **fromWide_toWide** (cumulative triangles). Writing a well-formed triangle to the wide table
and reading the table back — grouping the rows by the GENERATED key list — gives the triangle
itself: same coordinates, same slice metadata, same field sets, numbers as floats, sample order
kept; every slice stays separate. -/
theorem fromWide_toWide {t : List Cell} {D L : List String} (h : WFwide t D L) :
    okAnd (fun out => wideSpec t out && slicesSpec false t out)
      ((toWideRows t).bind fun tb => fromWideRows tb (allFields t) D L) = true := by
  obtain ⟨E, hE, hw, hmode⟩ := toWideRows_ok h
  rw [hw]
  simp only [Except.bind]
  -- columns
  have hrow : ∀ r ∈ (t.map (wblock t E)).flatten, ∃ c ∈ t, ∃ i,
      r = E (wideRow c (allMetadataNames t) (i, fieldDictPure c (allFields t) i)) := by
    intro r hr
    obtain ⟨b, hb, hrb⟩ := List.mem_flatten.mp hr
    obtain ⟨c, hc, rfl⟩ := List.mem_map.mp hb
    obtain ⟨i, _, rfl⟩ := List.mem_map.mp hrb
    exact ⟨c, hc, i, rfl⟩
  have hnoprev : (mkTable (t.map (wblock t E)).flatten).cols.contains "prev_evaluation_date" = false := by
    cases hc : (mkTable (t.map (wblock t E)).flatten).cols.contains "prev_evaluation_date" with
    | false => rfl
    | true =>
      exfalso
      obtain ⟨r, hr, hk⟩ := mem_colsOf.mp (List.contains_iff_mem.mp hc)
      obtain ⟨c, hc', i, rfl⟩ := hrow r hr
      have := get?_row_coord h hc' hE i (k := "prev_evaluation_date") (by simp)
      have hnone : Dict.get? (cumBase c) "prev_evaluation_date" = none := by simp [cumBase, Dict.get?]
      rw [hnone] at this
      exact (Dict.get?_eq_none_iff.mp this) hk
  have hcoords : ∀ k ∈ ["period_start", "period_end", "evaluation_date"],
      (mkTable (t.map (wblock t E)).flatten).cols.contains k = true := by
    intro k hk
    obtain ⟨c, hc⟩ := List.exists_mem_of_ne_nil _ h.ne
    obtain ⟨r, hr⟩ := List.exists_mem_of_ne_nil _ (wblock_ne h hc E)
    have hr' : r ∈ (t.map (wblock t E)).flatten := List.mem_flatten.mpr ⟨_, List.mem_map_of_mem hc, hr⟩
    obtain ⟨c', hc', i, rfl⟩ := hrow r hr'
    apply List.contains_iff_mem.mpr
    refine mem_colsOf.mpr ⟨_, hr', ?_⟩
    have := get?_row_coord h hc' hE i (k := k) (by
      simp only [List.mem_cons, List.not_mem_nil, or_false] at hk ⊢
      rcases hk with rfl | rfl | rfl <;> simp)
    simp only [List.mem_cons, List.not_mem_nil, or_false] at hk
    rcases hk with rfl | rfl | rfl <;>
      (simp only [cumBase, Dict.get?, List.find?_cons, beq_self_eq_true, Option.map_some] at this
       exact mem_keys_of_get? this)
  unfold fromWideRows
  rw [hnoprev]
  simp only [Bool.false_eq_true, if_false]
  unfold fromWideCum
  -- the groups are the blocks
  have hgroups : groupBy (wideKey (mkTable (t.map (wblock t E)).flatten).cols D L)
      (mkTable (t.map (wblock t E)).flatten).rows = t.map fun c => (cellKey c D L, wblock t E c) := by
    have hflat : (mkTable (t.map (wblock t E)).flatten).rows =
        ((t.map fun c => (cellKey c D L, wblock t E c)).map (·.2)).flatten := by
      simp [mkTable, List.map_map, Function.comp_def]
    rw [hflat]
    apply groupBy_blocks
    · simpa [List.map_map, Function.comp_def] using cellKey_nodup h
    · intro b hb
      obtain ⟨c, hc, rfl⟩ := List.mem_map.mp hb
      exact wblock_ne h hc E
    · intro b hb r hr
      obtain ⟨c, hc, rfl⟩ := List.mem_map.mp hb
      obtain ⟨i, _, rfl⟩ := List.mem_map.mp hr
      exact wideKey_row h hc hE i _ hcoords
  rw [hgroups]
  have hcells : (t.map fun c => (cellKey c D L, wblock t E c)).mapM
      (wideGroupToCell (mkTable (t.map (wblock t E)).flatten).cols (allFields t) D L) =
      .ok (t.map (recon t)) := by
    rw [List.mapM_map]
    apply mapM_ok_of_forall
    intro c hc
    unfold wideGroupToCell
    have hm : (E = id ∧ (mkTable (t.map (wblock t E)).flatten).cols.contains "scenario" = true) ∨
        sampleCount c = 1 := by
      rcases hmode with h1 | h2
      · exact Or.inl h1
      · exact Or.inr (h2 c hc)
    simp only [Function.comp]
    rw [wideGroupCell_block h hc hE _ hm]
    simp only [Except.bind]
    unfold Cell.mk?
    have hd : (recon t c).datesOk = true := by
      have := h.dates c hc
      obtain ⟨hk, hp⟩ := h.cum c hc
      unfold Cell.datesOk at this ⊢
      simp only [recon]
      rw [hp] at this
      cases hck : c.kind <;> simp_all
    rw [if_pos hd]
  rw [hcells]
  simp only [Except.bind]
  -- the constructor leaves the order alone
  have hof : Triangle.ofCells (t.map (recon t)) = .ok (t.map (recon t)) := by
    unfold Triangle.ofCells
    have hk : kindsConsistent (t.map (recon t)) = true := by
      unfold kindsConsistent
      simp [recon]
    rw [if_pos hk]
    congr 1
    apply List.mergeSort_of_pairwise
    rw [List.pairwise_map]
    have hs : t.Pairwise (fun a b => a ∈ t ∧ b ∈ t ∧ Cell.cmp a b = .lt) := by
      rw [List.pairwise_iff_getElem]
      intro i j hi hj hij
      exact ⟨List.getElem_mem hi, List.getElem_mem hj, List.pairwise_iff_getElem.mp h.sorted i j hi hj hij⟩
    refine hs.imp ?_
    intro a b ⟨ha, hb, hlt⟩
    unfold Cell.le
    rw [cmp_recon t (h.cum a ha).2 (h.cum b hb).2, hlt]
    rfl
  rw [hof]
  have hcanon : (t.map (recon t)).map canonCell = t.map canonCell := by
    rw [List.map_map]
    apply List.map_congr_left
    intro c hc
    exact canonCell_recon h hc
  have hmds : (t.map (recon t)).map (·.md) = t.map (·.md) := by
    rw [List.map_map]; rfl
  simp only [okAnd, wideSpec, sameNumeric, hcanon, slicesSpec, hmds, Bool.and_eq_true, beq_self_eq_true,
    true_and, Bool.false_eq_true, if_false]
  simp

end Bermuda.Frame
