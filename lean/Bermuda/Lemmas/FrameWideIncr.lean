/-
C14, wide table of an INCREMENTAL triangle with scalar values: one row per cell, the reader makes one
IncrementalCell per row (`fromWide_toWide_incremental`).
-/
import Bermuda.Lemmas.FrameLong
namespace Bermuda.Frame
open Bermuda Bermuda.Spec.C14 Std Bermuda.GroupL

/-! ### incremental triangles with scalar values: one row per cell, one cell per row -/

def incBase (c : Cell) (p : Date) : Row :=
  [("period_start", MVal.date c.ps), ("period_end", .date c.pe), ("evaluation_date", .date c.ev),
   ("prev_evaluation_date", .date p)]

theorem baseDict_inc {c : Cell} {p : Date} (hk : c.kind = .incremental) (hp : c.prev = some p) :
    baseDict c = incBase c p := by
  unfold baseDict incBase
  rw [hk, hp]
  rfl

structure IRowCtx (c : Cell) (p : Date) (N F D L : List String) (fd : Dict Rat) : Prop where
  kind : c.kind = .incremental
  prev : c.prev = some p
  nN : N.Nodup
  nsub : ∀ n ∈ N, n ∈ sixNames ∨ n ∈ D
  nfull : ∀ k, k ∈ sixNames ∨ k ∈ D → k ∉ N → Row.col (flatDict c.md) k = MVal.none
  fdn : (Dict.keys fd).Nodup
  fdsub : ∀ f ∈ Dict.keys fd, f ∈ F
  names : NamesOK D L F

theorem IRowCtx.notN_of_field {c : Cell} {p : Date} {N F D L : List String} {fd : Dict Rat}
    (h : IRowCtx c p N F D L fd) {k : String}
    (hk : k ∈ F ∨ k ∈ ["period_start", "period_end", "evaluation_date", "prev_evaluation_date", "scenario"]) :
    k ∉ N := by
  intro hn
  rcases h.nsub k hn with h6 | hd
  · rcases hk with hf | hc
    · exact h.names.fcore k hf (six_core h6)
    · simp only [sixNames, List.mem_cons, List.not_mem_nil, or_false] at h6 hc
      rcases h6 with rfl | rfl | rfl | rfl | rfl | rfl <;> simp at hc
  · rcases hk with hf | hc
    · exact (h.names.dcore k hd).2 hf
    · exact (h.names.dcore k hd).1 (by simp only [coreNames, List.mem_append]; exact Or.inl hc)

theorem icol_wideRow_md {c : Cell} {p : Date} {N F D L : List String} {fd : Dict Rat}
    (h : IRowCtx c p N F D L fd) (i : Nat) {k : String} (hk : k ∈ sixNames ∨ k ∈ D) :
    Row.col (wideRow c N (i, fd)) k = Row.col (flatDict c.md) k := by
  unfold wideRow Row.col
  rw [Dict.get?_union _ _ (metadataDict_wf c h.nN), get?_metadataDict]
  by_cases hn : k ∈ N
  · simp [hn, Row.col]
  · rw [if_neg hn]
    have hcore : k ∉ coreNames ∧ k ∉ F ∨ (k ∈ sixNames ∧ k ∉ F) := by
      rcases hk with h6 | hd
      · exact Or.inr ⟨h6, fun hf => h.names.fcore k hf (six_core h6)⟩
      · exact Or.inl (h.names.dcore k hd)
    have hF : k ∉ F := by rcases hcore with h1 | h1 <;> exact h1.2
    have hbase : k ∉ ["period_start", "period_end", "evaluation_date", "prev_evaluation_date", "scenario"] := by
      rcases hcore with h1 | h1
      · intro hc; exact h1.1 (by simp only [coreNames, List.mem_append]; exact Or.inl hc)
      · have h6 := h1.1
        simp only [sixNames, List.mem_cons, List.not_mem_nil, or_false] at h6
        rcases h6 with rfl | rfl | rfl | rfl | rfl | rfl <;> decide
    have h1 : Dict.get? (fd.map fun kv => (kv.1, MVal.num kv.2)) k = none := by
      rw [Dict.get?_eq_none_iff, keys_numMap]
      intro hm; exact hF (h.fdsub k hm)
    have h2 : Dict.get? (baseDict c ++ [("scenario", MVal.num ((i : Nat) + 1 : Nat))]) k = none := by
      rw [Dict.get?_eq_none_iff, baseDict_inc h.kind h.prev]
      intro hm
      apply hbase
      simpa [incBase, Dict.keys] using hm
    have hwf : Dict.WF (fd.map fun kv => (kv.1, MVal.num kv.2)) := by
      unfold Dict.WF; rw [keys_numMap]; exact h.fdn
    rw [Dict.get?_union _ _ hwf, h1, h2]
    have := h.nfull k hk hn
    unfold Row.col at this
    simp [this]

theorem icol_wideRow_other {c : Cell} {p : Date} {N F D L : List String} {fd : Dict Rat}
    (h : IRowCtx c p N F D L fd) (i : Nat) {k : String}
    (hk : k ∈ F ∨ k ∈ ["period_start", "period_end", "evaluation_date", "prev_evaluation_date", "scenario"]) :
    Dict.get? (wideRow c N (i, fd)) k =
      ((Dict.get? fd k).map MVal.num).or
        (Dict.get? (incBase c p ++ [("scenario", MVal.num ((i : Nat) + 1 : Nat))]) k) := by
  unfold wideRow
  have hwf : Dict.WF (fd.map fun kv => (kv.1, MVal.num kv.2)) := by
    unfold Dict.WF; rw [keys_numMap]; exact h.fdn
  rw [Dict.get?_union _ _ (metadataDict_wf c h.nN), get?_metadataDict, if_neg (h.notN_of_field hk),
    Dict.get?_union _ _ hwf, get?_numMap, baseDict_inc h.kind h.prev]
  rfl

def prevOf (c : Cell) : Date := c.prev.getD Date.min

/-- `WFcsv` for the wide form, incremental triangles with scalar values -/
structure WFwideIncr (t : List Cell) (D L : List String) : Prop where
  ne : t ≠ []
  sorted : t.Pairwise (fun a b => Cell.cmp a b = .lt)
  inc : ∀ c ∈ t, c.kind = .incremental ∧ c.prev.isSome = true
  dates : ∀ c ∈ t, c.datesOk = true
  md : ∀ c ∈ t, MdOK c.md D L
  names : NamesOK D L (allFields t)
  cells : ∀ c ∈ t, CellOK c (allFields t) 1

theorem WFwideIncr.prev {t : List Cell} {D L : List String} (h : WFwideIncr t D L) {c : Cell} (hc : c ∈ t) :
    c.prev = some (prevOf c) := by
  obtain ⟨p, hp⟩ := Option.isSome_iff_exists.mp (h.inc c hc).2
  simp [prevOf, hp]

theorem WFwideIncr.rowCtx {t : List Cell} {D L : List String} (h : WFwideIncr t D L) {c : Cell} (hc : c ∈ t) :
    IRowCtx c (prevOf c) (allMetadataNames t) (allFields t) D L (fieldDictPure c (allFields t) 0) where
  kind := (h.inc c hc).1
  prev := h.prev hc
  nN := allMetadataNames_nodup t
  nsub := by
    intro n hn
    obtain ⟨c', hc', hn'⟩ := mem_allMetadataNames.mp hn
    rcases (keys_flat c'.md n).mp (nonNoneNames_sub hn') with h6 | hd | hl
    · exact Or.inl h6
    · exact Or.inr ((h.md c' hc').dkeys n hd).1
    · exact Or.inr (h.names.lsub n ((h.md c' hc').lkeys n hl))
  nfull := by
    intro k _ hk
    apply Classical.byContradiction
    intro hne
    exact hk (mem_allMetadataNames.mpr ⟨c, hc, mem_nonNoneNames hne⟩)
  fdn := List.Nodup.sublist (keys_fieldDictPure c _ 0) (allFields_nodup t)
  fdsub := fun f hf => (keys_fieldDictPure c _ 0).subset hf
  names := h.names

/-- the one row of a cell, after the (constant) scenario column has been dropped -/
def irow (t : List Cell) (c : Cell) : Row :=
  eraseScenario (wideRow c (allMetadataNames t) (0, fieldDictPure c (allFields t) 0))

section irows
variable {t : List Cell} {D L : List String} (h : WFwideIncr t D L) {c : Cell} (hc : c ∈ t)
include h hc

theorem icol_md {k : String} (hk : k ∈ sixNames ∨ k ∈ D) :
    Row.col (irow t c) k = Row.col (flatDict c.md) k := by
  have hne : k ≠ "scenario" := by
    rcases hk with h6 | hd
    · intro he; subst he; revert h6; decide
    · exact not_core_ne_scenario (h.names.dcore k hd).1
  unfold irow Row.col
  rw [keepsOthers_erase _ _ hne]
  exact icol_wideRow_md (h.rowCtx hc) 0 hk

theorem iget_coord {k : String} (hk : k ∈ ["period_start", "period_end", "evaluation_date", "prev_evaluation_date"]) :
    Dict.get? (irow t c) k = Dict.get? (incBase c (prevOf c)) k := by
  have hne : k ≠ "scenario" := by intro he; subst he; revert hk; decide
  have hk' : k ∈ allFields t ∨ k ∈ ["period_start", "period_end", "evaluation_date", "prev_evaluation_date", "scenario"] := by
    right
    simp only [List.mem_cons, List.not_mem_nil, or_false] at hk ⊢
    rcases hk with rfl | rfl | rfl | rfl <;> simp
  unfold irow
  rw [keepsOthers_erase _ _ hne, icol_wideRow_other (h.rowCtx hc) 0 hk']
  have hnf : Dict.get? (fieldDictPure c (allFields t) 0) k = none := by
    rw [Dict.get?_eq_none_iff]
    intro hm
    have := (h.rowCtx hc).fdsub k hm
    exact h.names.fcore k this (by
      simp only [coreNames, List.mem_append, List.mem_cons, List.not_mem_nil, or_false] at hk ⊢
      rcases hk with rfl | rfl | rfl | rfl <;> simp)
  rw [hnf]
  simp only [Option.map_none, Option.none_or]
  simp only [List.mem_cons, List.not_mem_nil, or_false] at hk
  rcases hk with rfl | rfl | rfl | rfl <;> simp [incBase, Dict.get?]

theorem inum_field {f : String} (hf : f ∈ allFields t) :
    mvalNum? (Row.col (irow t c) f) = Dict.get? (fieldDictPure c (allFields t) 0) f := by
  have hcore := h.names.fcore f hf
  have hne : f ≠ "scenario" := not_core_ne_scenario hcore
  unfold irow Row.col
  rw [keepsOthers_erase _ _ hne, icol_wideRow_other (h.rowCtx hc) 0 (Or.inl hf)]
  have hb : Dict.get? (incBase c (prevOf c) ++ [("scenario", MVal.num ((0 : Nat) + 1 : Nat))]) f = none := by
    rw [Dict.get?_eq_none_iff]
    intro hm
    apply hcore
    simp only [incBase, Dict.keys, List.map_append, List.map_cons, List.map_nil, List.mem_append, List.mem_cons,
      List.not_mem_nil, or_false] at hm
    simp only [coreNames, List.mem_append, List.mem_cons, List.not_mem_nil, or_false]
    rcases hm with (h1 | h1 | h1 | h1) | h1 <;> simp [h1]
  rw [hb]
  cases Dict.get? (fieldDictPure c (allFields t) 0) f <;> rfl

theorem irowMetadata : rowMetadata (irow t c) D L = c.md := by
  apply rowMetadata_of_cols (h.md c hc) h.names
  intro k hk
  exact icol_md h hc (List.mem_append.mp hk)

end irows


theorem filterMap_keys_sublist (c : Cell) (g : List Rat → Val) : ∀ F : List String,
    (((F.filterMap fun f => ((Dict.get? c.values f).bind valData).map fun data => (f, g data)).map
      fun kv => (kv.1, numV kv.2)).map (·.1)).Sublist F
  | [] => by simp
  | a :: F => by
    rw [List.filterMap_cons]
    cases hx : (Dict.get? c.values a).bind valData with
    | none => simp only [Option.map_none]; exact List.Sublist.cons _ (filterMap_keys_sublist c g F)
    | some d =>
      simp only [Option.map_some, List.map_cons]
      exact List.Sublist.cons_cons _ (filterMap_keys_sublist c g F)

/-- the fields of a cell read back through any value builder that keeps the numbers -/
theorem numV_filterMap_perm {c : Cell} {F : List String} {n : Nat} (hok : CellOK c F n) (hF : F.Nodup)
    (hsub : ∀ f ∈ Dict.keys c.values, f ∈ F) (g : List Rat → Val)
    (hg : ∀ v data, valData v = some data → data ≠ [] → numV (g data) = numV v) :
    ((F.filterMap fun f => ((Dict.get? c.values f).bind valData).map fun data => (f, g data)).map
      fun kv => (kv.1, numV kv.2)).Perm (c.values.map fun kv => (kv.1, numV kv.2)) := by
  have hnd1 : ((F.filterMap fun f => ((Dict.get? c.values f).bind valData).map fun data => (f, g data)).map
      fun kv => (kv.1, numV kv.2)).Nodup := by
    have hk := filterMap_keys_sublist c g F
    exact List.Nodup.of_map _ (List.Nodup.sublist hk hF)
  have hnd2 : (c.values.map fun kv => (kv.1, numV kv.2)).Nodup := by
    apply List.Nodup.of_map (·.1)
    rw [List.map_map]
    exact hok.nodup
  rw [List.perm_ext_iff_of_nodup hnd1 hnd2]
  intro p
  simp only [List.mem_map, List.mem_filterMap]
  constructor
  · rintro ⟨kv, ⟨f, _, hr⟩, rfl⟩
    cases hgf : Dict.get? c.values f with
    | none => simp [hgf] at hr
    | some v =>
      obtain ⟨data, hd, hlen⟩ := hok.vals (f, v) (get?_mem hgf)
      simp only [hgf, Option.bind_some, hd, Option.map_some, Option.some.injEq] at hr
      refine ⟨(f, v), get?_mem hgf, ?_⟩
      rw [← hr]
      simp only
      rw [hg v data hd (by intro he; rw [he] at hlen; have := hok.pos; simp at hlen; omega)]
  · rintro ⟨kv, hkv, rfl⟩
    obtain ⟨data, hd, hlen⟩ := hok.vals kv hkv
    have hgf : Dict.get? c.values kv.1 = some kv.2 := get?_of_mem_nodup hok.nodup hkv
    refine ⟨(kv.1, g data), ⟨kv.1, hsub kv.1 (List.mem_map_of_mem hkv), ?_⟩, ?_⟩
    · simp [hgf, hd]
    · simp only
      rw [hg kv.2 data hd (by intro he; rw [he] at hlen; have := hok.pos; simp at hlen; omega)]

theorem canon_values_eq {vals1 vals2 : Dict Val}
    (hperm : (vals1.map fun kv => (kv.1, numV kv.2)).Perm (vals2.map fun kv => (kv.1, numV kv.2)))
    (hnd : (Dict.keys vals2).Nodup) :
    (vals1.map fun kv => (kv.1, numV kv.2)).mergeSort (fun a b => compare a.1 b.1 != .gt) =
      (vals2.map fun kv => (kv.1, numV kv.2)).mergeSort (fun a b => compare a.1 b.1 != .gt) := by
  apply mergeSort_perm_invariant (cmp := cmpOn (fun p : String × NumV => p.1) compare) hperm
  intro a b ha hb hab
  have hab' : a.1 = b.1 := by
    simp only [cmpOn] at hab
    exact Std.compare_eq_iff_eq.mp hab
  have hnd' : ((vals1.map fun kv => (kv.1, numV kv.2)).map (·.1)).Nodup := by
    have := hperm.map (fun p : String × NumV => p.1)
    rw [this.nodup_iff, List.map_map]
    exact hnd
  exact (List.inj_on_of_nodup_map hnd') ha hb hab'

/-- what the wide reader makes of an incremental cell's row: 0-d float arrays -/
def irecon (t : List Cell) (c : Cell) : Cell :=
  { kind := .incremental, ps := c.ps, pe := c.pe, ev := c.ev, prev := some (prevOf c),
    values := (allFields t).filterMap fun f =>
      ((Dict.get? c.values f).bind valData).map fun data => (f, Val.arr false [] data),
    md := c.md }

section iread
variable {t : List Cell} {D L : List String} (h : WFwideIncr t D L) {c : Cell} (hc : c ∈ t)
include h hc

theorem wideIncrCell_row : wideIncrCell (allFields t) D L (irow t c) = .ok (irecon t c) := by
  have d1 : Row.col (irow t c) "period_start" = .date c.ps := by
    unfold Row.col; rw [iget_coord h hc (by simp)]; simp [incBase, Dict.get?]
  have d2 : Row.col (irow t c) "period_end" = .date c.pe := by
    unfold Row.col; rw [iget_coord h hc (by simp)]; simp [incBase, Dict.get?]
  have d3 : Row.col (irow t c) "evaluation_date" = .date c.ev := by
    unfold Row.col; rw [iget_coord h hc (by simp)]; simp [incBase, Dict.get?]
  have d4 : Row.col (irow t c) "prev_evaluation_date" = .date (prevOf c) := by
    unfold Row.col; rw [iget_coord h hc (by simp)]; simp [incBase, Dict.get?]
  have hvals : ((allFields t).filterMap fun f =>
      (mvalNum? (Row.col (irow t c) f)).map fun q => (f, Val.arr false [] [q])) =
      (allFields t).filterMap fun f =>
        ((Dict.get? c.values f).bind valData).map fun data => (f, Val.arr false [] data) := by
    apply filterMap_congr'
    intro f hf
    rw [inum_field h hc hf, get?_fieldDictPure c (allFields_nodup t) 0 hf]
    cases hg : Dict.get? c.values f with
    | none => rfl
    | some v =>
      obtain ⟨data, hd, hlen⟩ := (h.cells c hc).vals (f, v) (get?_mem hg)
      simp only [Option.bind_some, hd]
      match data, hlen with
      | [q], _ => rfl
  unfold wideIncrCell
  rw [d1, d2, d3, d4, irowMetadata h hc, hvals]
  simp only [mvalDate?, Except.bind]
  have hd : (irecon t c).datesOk = true := by
    have := h.dates c hc
    unfold Cell.datesOk at this ⊢
    simp only [irecon]
    rw [(h.inc c hc).1, h.prev hc] at this
    exact this
  show Cell.mk? (irecon t c) = _
  unfold Cell.mk?
  rw [if_pos hd]

theorem canonCell_irecon : canonCell (irecon t c) = canonCell c := by
  unfold canonCell
  simp only [irecon, (h.inc c hc).1, ← h.prev hc]
  congr 1
  apply canon_values_eq _ (h.cells c hc).nodup
  apply numV_filterMap_perm (h.cells c hc) (allFields_nodup t)
    (fun f hf => mem_allFields.mpr ⟨c, hc, hf⟩) (fun data => Val.arr false [] data)
  intro v data hd hne
  cases v with
  | none => simp [valData] at hd
  | int i => simp only [valData, Option.some.injEq] at hd; subst hd; rfl
  | flt q => simp only [valData, Option.some.injEq] at hd; subst hd; rfl
  | arr a b d =>
    simp only [valData] at hd
    split at hd
    · simp only [Option.some.injEq] at hd; subst hd
      match d, hne with
      | [q], _ => rfl
      | x :: y :: rest, _ => rfl
    · cases hd

end iread


theorem flatten_singletons {α β : Type} (g : α → β) : ∀ l : List α, (l.map fun c => [g c]).flatten = l.map g
  | [] => rfl
  | a :: l => by simp [flatten_singletons g l]

section itable
variable {t : List Cell} {D L : List String} (h : WFwideIncr t D L)
include h

theorem iscenario {c : Cell} (hc : c ∈ t) :
    Row.col (wideRow c (allMetadataNames t) (0, fieldDictPure c (allFields t) 0)) "scenario" =
      MVal.num ((0 + 1 : Nat) : Rat) := by
  unfold Row.col
  rw [icol_wideRow_other (h.rowCtx hc) 0 (Or.inr (by simp))]
  have hnf : Dict.get? (fieldDictPure c (allFields t) 0) "scenario" = none := by
    rw [Dict.get?_eq_none_iff]
    intro hm
    exact h.names.fcore _ ((h.rowCtx hc).fdsub _ hm) (by decide)
  rw [hnf]
  simp [incBase, Dict.get?]

theorem toWideRows_incr : toWideRows t = .ok (mkTable (t.map (irow t))) := by
  unfold toWideRows
  have hblocks : t.mapM (fun c => cellWideRows c (allMetadataNames t) (allFields t)) =
      .ok (t.map fun c => [wideRow c (allMetadataNames t) (0, fieldDictPure c (allFields t) 0)]) := by
    apply mapM_ok_of_forall
    intro c hc
    rw [cellWideRows_ok (h.cells c hc)]
    rfl
  rw [hblocks]
  simp only [Except.bind]
  have hflat : (t.map fun c => [wideRow c (allMetadataNames t) (0, fieldDictPure c (allFields t) 0)]).flatten =
      t.map fun c => wideRow c (allMetadataNames t) (0, fieldDictPure c (allFields t) 0) :=
    flatten_singletons _ t
  rw [hflat]
  unfold dropConstantScenario
  cases ht : t with
  | nil => exact absurd ht h.ne
  | cons c0 rest =>
    rw [← ht]
    have hmap : (t.map fun c => wideRow c (allMetadataNames t) (0, fieldDictPure c (allFields t) 0)) =
        wideRow c0 (allMetadataNames t) (0, fieldDictPure c0 (allFields t) 0) ::
          (rest.map fun c => wideRow c (allMetadataNames t) (0, fieldDictPure c (allFields t) 0)) := by
      rw [ht]; rfl
    rw [hmap]
    simp only
    rw [← hmap]
    have hc0 : c0 ∈ t := by rw [ht]; exact List.mem_cons_self
    have hconst : scenarioConstant (t.map fun c => wideRow c (allMetadataNames t) (0, fieldDictPure c (allFields t) 0))
        (wideRow c0 (allMetadataNames t) (0, fieldDictPure c0 (allFields t) 0)) = true := by
      unfold scenarioConstant
      rw [iscenario h hc0]
      simp only [Bool.or_eq_true, Bool.and_eq_true, List.all_eq_true, List.mem_map, forall_exists_index, and_imp,
        forall_apply_eq_imp_iff₂, beq_iff_eq]
      left
      refine ⟨by simp, ?_⟩
      intro c hc
      exact iscenario h hc
    rw [if_pos hconst]
    simp only [Except.map, List.map_map]
    rfl

theorem cmp_irecon {a b : Cell} (ha : a ∈ t) (hb : b ∈ t) :
    Cell.cmp (irecon t a) (irecon t b) = Cell.cmp a b := by
  simp only [Cell.cmp, compareLex, cmpOn, irecon, ← h.prev ha, ← h.prev hb]

/-- **fromWide_toWide, incremental triangles with scalar values**: one row per cell, and the
reader makes one `IncrementalCell` per row — previous evaluation dates included. -/
theorem fromWide_toWide_incremental :
    okAnd (fun out => wideSpec t out && slicesSpec false t out)
      ((toWideRows t).bind fun tb => fromWideRows tb (allFields t) D L) = true := by
  rw [toWideRows_incr h]
  simp only [Except.bind]
  have hprev : (mkTable (t.map (irow t))).cols.contains "prev_evaluation_date" = true := by
    obtain ⟨c, hc⟩ := List.exists_mem_of_ne_nil _ h.ne
    apply List.contains_iff_mem.mpr
    refine mem_colsOf.mpr ⟨irow t c, List.mem_map_of_mem hc, ?_⟩
    have := iget_coord h hc (k := "prev_evaluation_date") (by simp)
    have hb : Dict.get? (incBase c (prevOf c)) "prev_evaluation_date" = some (.date (prevOf c)) := by
      simp [incBase, Dict.get?]
    rw [hb] at this
    exact mem_keys_of_get? this
  unfold fromWideRows
  rw [if_pos hprev]
  unfold fromWideIncr
  have hcells : (mkTable (t.map (irow t))).rows.mapM (wideIncrCell (allFields t) D L) =
      .ok (t.map (irecon t)) := by
    show (t.map (irow t)).mapM _ = _
    rw [List.mapM_map]
    apply mapM_ok_of_forall
    intro c hc
    exact wideIncrCell_row h hc
  rw [hcells]
  simp only [Except.bind]
  have hof : Triangle.ofCells (t.map (irecon t)) = .ok (t.map (irecon t)) := by
    unfold Triangle.ofCells
    have hk : kindsConsistent (t.map (irecon t)) = true := by
      unfold kindsConsistent
      simp [irecon]
    rw [if_pos hk]
    congr 1
    apply List.mergeSort_of_pairwise
    rw [List.pairwise_map]
    have hs : t.Pairwise (fun a b => a ∈ t ∧ b ∈ t ∧ Cell.cmp a b = .lt) := by
      rw [List.pairwise_iff_getElem]
      intro i j hi hj hij
      exact ⟨List.getElem_mem hi, List.getElem_mem hj, List.pairwise_iff_getElem.mp h.sorted i j hi hj hij⟩
    refine hs.imp ?_
    intro a b ⟨ha, hb, hlt⟩
    unfold Cell.le
    rw [cmp_irecon h ha hb, hlt]
    rfl
  rw [hof]
  have hcanon : (t.map (irecon t)).map canonCell = t.map canonCell := by
    rw [List.map_map]
    apply List.map_congr_left
    intro c hc
    exact canonCell_irecon h hc
  have hmds : (t.map (irecon t)).map (·.md) = t.map (·.md) := by
    rw [List.map_map]; rfl
  simp only [okAnd, wideSpec, sameNumeric, hcanon, slicesSpec, hmds, Bool.and_eq_true, beq_self_eq_true,
    true_and, Bool.false_eq_true, if_false]
  simp

end itable

end Bermuda.Frame
