/-
Heap lemmas for C03: allocation and writes against the frame `Preserves n`, and the invariant
"the accumulator is a scalar or a location allocated after entry" (`FreshRef n`).
-/
import Bermuda.Model.Heap
namespace Bermuda.Heap

theorem size_alloc (h : Heap) (o : Obj) : (h.alloc o).1.size = h.size + 1 := by
  simp [Heap.alloc, Heap.size]

theorem loc_alloc (h : Heap) (o : Obj) : (h.alloc o).2 = h.size := rfl

theorem get_alloc_lt (h : Heap) (o : Obj) {l : Loc} (hl : l < h.size) :
    (h.alloc o).1.get l = h.get l := by
  simp only [Heap.alloc, Heap.get, Heap.size] at *
  exact List.getElem?_append_left hl

theorem size_set (h : Heap) (l : Loc) (o : Obj) : (h.set l o).size = h.size := by
  simp [Heap.set, Heap.size]

theorem get_set_ne (h : Heap) (l : Loc) (o : Obj) {l' : Loc} (hne : l ≠ l') :
    (h.set l o).get l' = h.get l' := by
  simp only [Heap.set, Heap.get]
  exact List.getElem?_set_ne hne

theorem get_none_of_ge (h : Heap) {l : Loc} (hl : h.get l = none) : h.size ≤ l := by
  simp only [Heap.get, Heap.size] at *
  exact List.getElem?_eq_none_iff.mp hl

/-- the accumulator is a scalar or a location allocated after entry -/
def FreshRef (n : Nat) : Ref → Prop
  | .loc l => n ≤ l
  | _ => True

theorem Preserves.refl {n : Nat} {h : Heap} (hn : n ≤ h.size) : Preserves n h h :=
  ⟨hn, fun _ _ => rfl⟩

theorem Preserves.trans {n : Nat} {h₁ h₂ h₃ : Heap} (a : Preserves n h₁ h₂) (b : Preserves n h₂ h₃) :
    Preserves n h₁ h₃ :=
  ⟨b.1, fun l hl => (b.2 l hl).trans (a.2 l hl)⟩

/-- a frame for a later, larger entry point restricts to the earlier one -/
theorem Preserves.mono {n m : Nat} {h h' : Heap} (hnm : n ≤ m) (a : Preserves m h h') : Preserves n h h' :=
  ⟨Nat.le_trans hnm a.1, fun l hl => a.2 l (Nat.lt_of_lt_of_le hl hnm)⟩

theorem preserves_alloc {n : Nat} {h : Heap} (hn : n ≤ h.size) (o : Obj) :
    Preserves n h (h.alloc o).1 :=
  ⟨by rw [size_alloc]; omega, fun _ hl => get_alloc_lt h o (Nat.lt_of_lt_of_le hl hn)⟩

theorem preserves_set_fresh {n : Nat} {h : Heap} (hn : n ≤ h.size) {l : Loc} (hl : n ≤ l) (o : Obj) :
    Preserves n h (h.set l o) :=
  ⟨by rw [size_set]; exact hn, fun l' hl' => get_set_ne h l o (Nat.ne_of_gt (Nat.lt_of_lt_of_le hl' hl))⟩

/-- binary operators allocate: the old heap is untouched and the result is a scalar or new -/
theorem binop_frame {n : Nat} {f : Rat → Rat → Rat} {h h' : Heap} {a b r : Ref} (hn : n ≤ h.size)
    (hr : binop f h a b = .ok (h', r)) : Preserves n h h' ∧ FreshRef n r := by
  unfold binop at hr
  split at hr
  · cases hr; exact ⟨Preserves.refl hn, trivial⟩
  · split at hr
    · cases hr; exact ⟨preserves_alloc hn _, by simpa [FreshRef, loc_alloc, Heap.size] using hn⟩
    · cases hr
  · split at hr
    · cases hr; exact ⟨preserves_alloc hn _, by simpa [FreshRef, loc_alloc, Heap.size] using hn⟩
    · cases hr
  · split at hr
    · simp only [bind, Except.bind] at hr
      split at hr
      · cases hr
      · cases hr; exact ⟨preserves_alloc hn _, by simpa [FreshRef, loc_alloc, Heap.size] using hn⟩
    · cases hr
  · cases hr

/-- `x += v` with a fresh accumulator: writes go to the accumulator's own (new) location or
rebind; the accumulator stays fresh -/
theorem iadd_frame {n : Nat} {h h' : Heap} {x v x' : Ref} (hn : n ≤ h.size) (hx : FreshRef n x)
    (hr : iadd h x v = .ok (h', x')) : Preserves n h h' ∧ FreshRef n x' := by
  unfold iadd at hr
  split at hr
  · rename_i lx
    have hlx : n ≤ lx := hx
    split at hr
    · split at hr
      · cases hr; exact ⟨preserves_set_fresh hn hlx _, hlx⟩
      · split at hr
        · simp only [bind, Except.bind] at hr
          split at hr
          · cases hr
          · cases hr; exact ⟨preserves_set_fresh hn hlx _, hlx⟩
        · cases hr
      · cases hr
    · cases hr
  · exact binop_frame hn hr
  · cases hr

theorem deepcopyVal_frame {n : Nat} {h : Heap} (hn : n = h.size) (r : Ref) :
    Preserves n h (deepcopyVal h r).1 ∧ FreshRef n (deepcopyVal h r).2 := by
  unfold deepcopyVal
  split
  · rename_i l
    split
    · exact ⟨preserves_alloc (by omega) _, by simp [FreshRef, loc_alloc, hn]⟩
    · rename_i hnone
      exact ⟨Preserves.refl (by omega), by simpa [FreshRef, hn] using get_none_of_ge h hnone⟩
  · refine ⟨Preserves.refl (by omega), ?_⟩
    rename_i hne
    cases r with
    | loc l => exact absurd rfl (hne l)
    | none => trivial
    | scalar q => trivial

theorem initAccumulator_frame {n : Nat} {h : Heap} (hn : n = h.size) {i : Init} (hi : i.isFresh = true)
    (values : List Ref) :
    Preserves n h (initAccumulator i h values).1 ∧ FreshRef n (initAccumulator i h values).2 ∧
      n ≤ (initAccumulator i h values).1.size := by
  cases i <;> simp [Init.isFresh] at hi <;> simp only [initAccumulator]
  · exact ⟨Preserves.refl (by omega), trivial, by omega⟩
  all_goals
    have := deepcopyVal_frame hn (values.headD (.scalar 0))
    exact ⟨this.1, this.2, this.1.1⟩

theorem sumLoop_frame {n : Nat} (vs : List Ref) : ∀ {h : Heap} {total : Ref}, n ≤ h.size → FreshRef n total →
    Preserves n h (sumLoop h total vs).1 := by
  induction vs with
  | nil => intro h total hn _; exact Preserves.refl hn
  | cons v rest ih =>
    intro h total hn ht
    have step : ∀ v : Ref, v ≠ .none →
        Preserves n h (if !shapesConform h total v then (h, .error .valueError)
          else match iadd h total v with
            | .ok (h', t') => sumLoop h' t' rest
            | .error e => (h, .error e) : Res).1 := by
      intro v _
      split
      · exact Preserves.refl hn
      · split
        · rename_i h' t' hr
          obtain ⟨p, f⟩ := iadd_frame hn ht hr
          exact p.trans (ih p.1 f)
        · exact Preserves.refl hn
    cases v with
    | none => simp only [sumLoop]; exact ih hn ht
    | scalar q => simp only [sumLoop]; exact step _ (by simp)
    | loc l => simp only [sumLoop]; exact step _ (by simp)

theorem wavgLoop_frame {n : Nat} (vs : List (Ref × Rat)) : ∀ {h : Heap} {total : Ref}, n ≤ h.size →
    FreshRef n total → Preserves n h (wavgLoop h total vs).1 := by
  induction vs with
  | nil => intro h total hn _; exact Preserves.refl hn
  | cons vw rest ih =>
    intro h total hn ht
    obtain ⟨v, w⟩ := vw
    have step : ∀ v : Ref, v ≠ .none →
        Preserves n h (if !shapesConform h total v then (h, .error .valueError)
          else match binop (· * ·) h v (.scalar w) with
            | .error e => (h, .error e)
            | .ok (h1, prod) => match iadd h1 total prod with
              | .ok (h2, t') => wavgLoop h2 t' rest
              | .error e => (h1, .error e) : Res).1 := by
      intro v _
      split
      · exact Preserves.refl hn
      · split
        · exact Preserves.refl hn
        · rename_i h1 prod hb
          obtain ⟨p1, _⟩ := binop_frame hn hb
          split
          · rename_i h2 t' hr
            obtain ⟨p2, f2⟩ := iadd_frame p1.1 ht hr
            exact p1.trans (p2.trans (ih p2.1 f2))
          · exact p1
    cases v with
    | none => simp only [wavgLoop]; exact ih hn ht
    | scalar q => simp only [wavgLoop]; exact step _ (by simp)
    | loc l => simp only [wavgLoop]; exact step _ (by simp)

theorem initOf_fresh {p : Pattern} (hp : p.targetsFresh = true) (name : String) :
    (p.initOf name).isFresh = true := by
  unfold Pattern.initOf
  split
  · rename_i t hfind
    have hmem : t ∈ p.targets := List.mem_of_find?_eq_some hfind
    have := (List.all_eq_true.mp hp) t hmem
    simp only [Bool.and_eq_true] at this
    rw [if_pos (by simpa using this)]
    obtain ⟨hne, hall⟩ := this
    cases hi : t.inits with
    | nil => simp [hi] at hne
    | cons a rest =>
      have := (List.all_eq_true.mp hall) a (by simp [hi])
      simpa using this
  · rfl

end Bermuda.Heap
