/-
Heap lemmas for C03: allocation and writes against the frame `Preserves n`, and the invariant
"the accumulator is a scalar or a location allocated after entry" (`FreshRef n`).
-/
import Bermuda.Model.Heap
namespace Bermuda.Heap

theorem size_alloc (h : Heap) (o : Obj) : (h.alloc o).1.size = h.size + 1 := by
  simp [Heap.alloc, Heap.size]

theorem loc_alloc (h : Heap) (o : Obj) : (h.alloc o).2 = h.size := rfl

theorem get_alloc_lt (h : Heap) (o : Obj) {l : Loc} (hl : l < h.size) :
    (h.alloc o).1.get l = h.get l := by
  simp only [Heap.alloc, Heap.get, Heap.size] at *
  exact List.getElem?_append_left hl

theorem size_set (h : Heap) (l : Loc) (o : Obj) : (h.set l o).size = h.size := by
  simp [Heap.set, Heap.size]

theorem get_set_ne (h : Heap) (l : Loc) (o : Obj) {l' : Loc} (hne : l ≠ l') :
    (h.set l o).get l' = h.get l' := by
  simp only [Heap.set, Heap.get]
  exact List.getElem?_set_ne hne

theorem get_none_of_ge (h : Heap) {l : Loc} (hl : h.get l = none) : h.size ≤ l := by
  simp only [Heap.get, Heap.size] at *
  exact List.getElem?_eq_none_iff.mp hl

/-- the accumulator is a scalar or a location allocated after entry -/
def FreshRef (n : Nat) : Ref → Prop
  | .loc l => n ≤ l
  | _ => True

theorem Preserves.refl {n : Nat} {h : Heap} (hn : n ≤ h.size) : Preserves n h h :=
  ⟨hn, fun _ _ => rfl⟩

theorem Preserves.trans {n : Nat} {h₁ h₂ h₃ : Heap} (a : Preserves n h₁ h₂) (b : Preserves n h₂ h₃) :
    Preserves n h₁ h₃ :=
  ⟨b.1, fun l hl => (b.2 l hl).trans (a.2 l hl)⟩

/-- a frame for a later, larger entry point restricts to the earlier one -/
theorem Preserves.mono {n m : Nat} {h h' : Heap} (hnm : n ≤ m) (a : Preserves m h h') : Preserves n h h' :=
  ⟨Nat.le_trans hnm a.1, fun l hl => a.2 l (Nat.lt_of_lt_of_le hl hnm)⟩

theorem preserves_alloc {n : Nat} {h : Heap} (hn : n ≤ h.size) (o : Obj) :
    Preserves n h (h.alloc o).1 :=
  ⟨by rw [size_alloc]; omega, fun _ hl => get_alloc_lt h o (Nat.lt_of_lt_of_le hl hn)⟩

theorem preserves_set_fresh {n : Nat} {h : Heap} (hn : n ≤ h.size) {l : Loc} (hl : n ≤ l) (o : Obj) :
    Preserves n h (h.set l o) :=
  ⟨by rw [size_set]; exact hn, fun l' hl' => get_set_ne h l o (Nat.ne_of_gt (Nat.lt_of_lt_of_le hl' hl))⟩

/-- binary operators allocate: the old heap is untouched and the result is a scalar or new -/
theorem binop_frame {n : Nat} {f : Rat → Rat → Rat} {h h' : Heap} {a b r : Ref} (hn : n ≤ h.size)
    (hr : binop f h a b = .ok (h', r)) : Preserves n h h' ∧ FreshRef n r := by
  unfold binop at hr
  split at hr
  · cases hr; exact ⟨Preserves.refl hn, trivial⟩
  · split at hr
    · cases hr; exact ⟨preserves_alloc hn _, by simpa [FreshRef, loc_alloc, Heap.size] using hn⟩
    · cases hr
  · split at hr
    · cases hr; exact ⟨preserves_alloc hn _, by simpa [FreshRef, loc_alloc, Heap.size] using hn⟩
    · cases hr
  · split at hr
    · simp only [bind, Except.bind] at hr
      split at hr
      · cases hr
      · cases hr; exact ⟨preserves_alloc hn _, by simpa [FreshRef, loc_alloc, Heap.size] using hn⟩
    · cases hr
  · cases hr

/-- `x += v` with a fresh accumulator: writes go to the accumulator's own (new) location or
rebind; the accumulator stays fresh -/
theorem iadd_frame {n : Nat} {h h' : Heap} {x v x' : Ref} (hn : n ≤ h.size) (hx : FreshRef n x)
    (hr : iadd h x v = .ok (h', x')) : Preserves n h h' ∧ FreshRef n x' := by
  unfold iadd at hr
  split at hr
  · rename_i lx
    have hlx : n ≤ lx := hx
    split at hr
    · split at hr
      · cases hr; exact ⟨preserves_set_fresh hn hlx _, hlx⟩
      · split at hr
        · simp only [bind, Except.bind] at hr
          split at hr
          · cases hr
          · cases hr; exact ⟨preserves_set_fresh hn hlx _, hlx⟩
        · cases hr
      · cases hr
    · cases hr
  · exact binop_frame hn hr
  · cases hr

theorem deepcopyVal_frame {n : Nat} {h : Heap} (hn : n = h.size) (r : Ref) :
    Preserves n h (deepcopyVal h r).1 ∧ FreshRef n (deepcopyVal h r).2 := by
  unfold deepcopyVal
  split
  · rename_i l
    split
    · exact ⟨preserves_alloc (by omega) _, by simp [FreshRef, loc_alloc, hn]⟩
    · rename_i hnone
      exact ⟨Preserves.refl (by omega), by simpa [FreshRef, hn] using get_none_of_ge h hnone⟩
  · refine ⟨Preserves.refl (by omega), ?_⟩
    rename_i hne
    cases r with
    | loc l => exact absurd rfl (hne l)
    | none => trivial
    | scalar q => trivial

theorem initAccumulator_frame {n : Nat} {h : Heap} (hn : n = h.size) {i : Init} (hi : i.isFresh = true)
    (values : List Ref) :
    Preserves n h (initAccumulator i h values).1 ∧ FreshRef n (initAccumulator i h values).2 ∧
      n ≤ (initAccumulator i h values).1.size := by
  cases i <;> simp [Init.isFresh] at hi <;> simp only [initAccumulator]
  · exact ⟨Preserves.refl (by omega), trivial, by omega⟩
  all_goals
    have := deepcopyVal_frame hn (values.headD (.scalar 0))
    exact ⟨this.1, this.2, this.1.1⟩

theorem sumLoop_frame {n : Nat} (vs : List Ref) : ∀ {h : Heap} {total : Ref}, n ≤ h.size → FreshRef n total →
    Preserves n h (sumLoop h total vs).1 := by
  induction vs with
  | nil => intro h total hn _; exact Preserves.refl hn
  | cons v rest ih =>
    intro h total hn ht
    have step : ∀ v : Ref, v ≠ .none →
        Preserves n h (if !shapesConform h total v then (h, .error .valueError)
          else match iadd h total v with
            | .ok (h', t') => sumLoop h' t' rest
            | .error e => (h, .error e) : Res).1 := by
      intro v _
      split
      · exact Preserves.refl hn
      · split
        · rename_i h' t' hr
          obtain ⟨p, f⟩ := iadd_frame hn ht hr
          exact p.trans (ih p.1 f)
        · exact Preserves.refl hn
    cases v with
    | none => simp only [sumLoop]; exact ih hn ht
    | scalar q => simp only [sumLoop]; exact step _ (by simp)
    | loc l => simp only [sumLoop]; exact step _ (by simp)

theorem wavgLoop_frame {n : Nat} (vs : List (Ref × Rat)) : ∀ {h : Heap} {total : Ref}, n ≤ h.size →
    FreshRef n total → Preserves n h (wavgLoop h total vs).1 := by
  induction vs with
  | nil => intro h total hn _; exact Preserves.refl hn
  | cons vw rest ih =>
    intro h total hn ht
    obtain ⟨v, w⟩ := vw
    have step : ∀ v : Ref, v ≠ .none →
        Preserves n h (if !shapesConform h total v then (h, .error .valueError)
          else match binop (· * ·) h v (.scalar w) with
            | .error e => (h, .error e)
            | .ok (h1, prod) => match iadd h1 total prod with
              | .ok (h2, t') => wavgLoop h2 t' rest
              | .error e => (h1, .error e) : Res).1 := by
      intro v _
      split
      · exact Preserves.refl hn
      · split
        · exact Preserves.refl hn
        · rename_i h1 prod hb
          obtain ⟨p1, _⟩ := binop_frame hn hb
          split
          · rename_i h2 t' hr
            obtain ⟨p2, f2⟩ := iadd_frame p1.1 ht hr
            exact p1.trans (p2.trans (ih p2.1 f2))
          · exact p1
    cases v with
    | none => simp only [wavgLoop]; exact ih hn ht
    | scalar q => simp only [wavgLoop]; exact step _ (by simp)
    | loc l => simp only [wavgLoop]; exact step _ (by simp)

theorem initOf_fresh {p : Pattern} (hp : p.targetsFresh = true) (name : String) :
    (p.initOf name).isFresh = true := by
  unfold Pattern.initOf
  split
  · rename_i t hfind
    have hmem : t ∈ p.targets := List.mem_of_find?_eq_some hfind
    have := (List.all_eq_true.mp hp) t hmem
    simp only [Bool.and_eq_true] at this
    rw [if_pos (by simpa using this)]
    obtain ⟨hne, hall⟩ := this
    cases hi : t.inits with
    | nil => simp [hi] at hne
    | cons a rest =>
      have := (List.all_eq_true.mp hall) a (by simp [hi])
      simpa using this
  · rfl

/-! ### cell helpers: allocation-only paths -/

theorem preserves_append {n : Nat} {h : Heap} (hn : n ≤ h.size) (extra : List Obj) :
    Preserves n h ⟨h.objs ++ extra⟩ := by
  refine ⟨by simp only [Heap.size, List.length_append] at *; omega, fun l hl => ?_⟩
  simp only [Heap.get, Heap.size] at *
  exact List.getElem?_append_left (by omega)

theorem mkCell_frame {n : Nat} {h : Heap} (hn : n ≤ h.size) (v m : Ref) : Preserves n h (mkCell h v m).1 :=
  preserves_alloc hn _

theorem replaceValues_frame {n : Nat} {p : Pattern} (hp : p.targetsFresh = true) {h : Heap} (hn : n ≤ h.size)
    (c : Loc) (es : List (String × Ref)) : Preserves n h (replaceValues p h c es).1 := by
  unfold replaceValues
  split
  · exact Preserves.refl hn
  · rw [if_pos hp]
    have p1 := preserves_alloc hn (Obj.dict es)
    exact p1.trans (mkCell_frame p1.1 _ _)

theorem cellReplace_frame {n : Nat} {p : Pattern} (hp : p.targetsFresh = true) {h : Heap} (hn : n ≤ h.size)
    (c : Loc) (v : Ref) : Preserves n h (cellReplace p h c v).1 := by
  unfold cellReplace
  split
  · rw [if_pos hp]; exact mkCell_frame hn _ _
  · exact Preserves.refl hn

theorem cellSelect_frame {n : Nat} {p : Pattern} (hp : p.targetsFresh = true) {h : Heap} (hn : n ≤ h.size)
    (c : Loc) (keys : List String) : Preserves n h (cellSelect p h c keys).1 := by
  unfold cellSelect
  split
  · exact Preserves.refl hn
  · exact replaceValues_frame hp hn _ _

theorem cellDeriveFields_frame {n : Nat} {p : Pattern} (hp : p.targetsFresh = true) (defs : List (String × Ref)) :
    ∀ {h : Heap} (c : Loc), n ≤ h.size → Preserves n h (cellDeriveFields p h c defs).1 := by
  induction defs with
  | nil => intro h c hn; exact Preserves.refl hn
  | cons d rest ih =>
    intro h c hn
    obtain ⟨name, value⟩ := d
    simp only [cellDeriveFields]
    split
    · exact Preserves.refl hn
    · rename_i v ev _
      have p1 := replaceValues_frame (n := n) hp hn c (dictSet ev name value)
      generalize replaceValues p h c (dictSet ev name value) = res at p1 ⊢
      obtain ⟨h1, r⟩ := res
      cases r with
      | error e => exact p1
      | ok x =>
        cases x with
        | loc c1 => exact p1.trans (ih c1 p1.1)
        | none => exact p1
        | scalar q => exact p1

theorem cellAddStatics_frame {n : Nat} {p : Pattern} (hp : p.targetsFresh = true) {h : Heap} (hn : n ≤ h.size)
    (c src : Loc) (fields : List String) : Preserves n h (cellAddStatics p h c src fields).1 := by
  unfold cellAddStatics
  split
  · exact replaceValues_frame hp hn _ _
  · exact Preserves.refl hn

theorem overwriteValues_frame {n : Nat} {p : Pattern} (hp : p.targetsFresh = true) {h : Heap} (hn : n ≤ h.size)
    (c1 c2 : Loc) (suffix : Option String) : Preserves n h (overwriteValues p h c1 c2 suffix).1 := by
  unfold overwriteValues
  split
  · exact replaceValues_frame hp hn _ _
  · exact Preserves.refl hn

theorem mapEntries_frame {n : Nat} {f : Heap → String → Ref → Except Err (Heap × Ref)}
    (hf : ∀ (h : Heap) (k : String) (v : Ref) (h' : Heap) (r : Ref), n ≤ h.size → f h k v = .ok (h', r) → Preserves n h h')
    (es : List (String × Ref)) : ∀ {h : Heap}, n ≤ h.size → Preserves n h (mapEntries f h es).1 := by
  induction es with
  | nil => intro h hn; exact Preserves.refl hn
  | cons e rest ih =>
    intro h hn
    obtain ⟨k, v⟩ := e
    simp only [mapEntries]
    split
    · exact Preserves.refl hn
    · rename_i h1 r heq
      have p1 := hf h k v h1 r hn heq
      have p2 := p1.trans (ih (h := h1) p1.1)
      split <;> simp_all

theorem thinValue_frame {n : Nat} (ndxs : List Nat) (h : Heap) (k : String) (v : Ref) (h' : Heap) (r : Ref)
    (hn : n ≤ h.size) (hr : thinValue ndxs h k v = .ok (h', r)) : Preserves n h h' := by
  unfold thinValue at hr
  split at hr
  · split at hr
    · split at hr
      · cases hr; exact preserves_alloc hn _
      · cases hr; exact Preserves.refl hn
    · cases hr; exact Preserves.refl hn
  · cases hr; exact Preserves.refl hn

theorem thinCell_frame {n : Nat} {p : Pattern} (hp : p.targetsFresh = true) {h : Heap} (hn : n ≤ h.size)
    (c : Loc) (ndxs : List Nat) : Preserves n h (thinCell p h c ndxs).1 := by
  unfold thinCell
  split
  · exact Preserves.refl hn
  · rename_i v ev _
    have p1 := mapEntries_frame (n := n) (thinValue_frame ndxs) ev hn
    split
    · rename_i h1 es heq
      rw [heq] at p1
      exact p1.trans (replaceValues_frame hp p1.1 _ _)
    · rename_i h1 e heq; rw [heq] at p1; exact p1

theorem convertValue_frame {n : Nat} (fields : List String) (rate : Rat) (h : Heap) (k : String) (v : Ref)
    (h' : Heap) (r : Ref) (hn : n ≤ h.size) (hr : convertValue fields rate h k v = .ok (h', r)) :
    Preserves n h h' := by
  unfold convertValue at hr
  split at hr
  · exact (binop_frame hn hr).1
  · cases hr; exact Preserves.refl hn

theorem convertCellCurrency_frame {n : Nat} {p : Pattern} (hp : p.targetsFresh = true) {h : Heap}
    (hn : n ≤ h.size) (c : Loc) (fields : List String) (rate : Rat) (cur : Ref) :
    Preserves n h (convertCellCurrency p h c fields rate cur).1 := by
  unfold convertCellCurrency
  split
  · exact Preserves.refl hn
  · rename_i v ev _
    rw [if_pos hp]
    have p1 := mapEntries_frame (n := n) (convertValue_frame fields rate) ev hn
    split
    · rename_i h1 e heq; rw [heq] at p1; exact p1
    · rename_i h1 es heq
      rw [heq] at p1
      have p2 := preserves_alloc (n := n) p1.1 (Obj.dict (dictSet (match cellMeta h1 c with
        | .loc m => match h1.get m with
          | some (.dict em) => em
          | _ => []
        | _ => []) "currency" cur))
      have p3 := preserves_alloc (n := n) p2.1 (Obj.dict es)
      exact p1.trans (p2.trans (p3.trans (mkCell_frame p3.1 _ _)))

theorem deriveMetadataStep_frame {n : Nat} {p : Pattern} (hp : p.targetsFresh = true) {h : Heap}
    (hn : n ≤ h.size) (self c : Loc) (name : String) (isAttr : Bool) (value : Ref) :
    Preserves n h (deriveMetadataStep p h self c name isAttr value).1 := by
  unfold deriveMetadataStep
  simp only [hp, Bool.not_true, Bool.false_and, Bool.false_eq_true, if_false]
  repeat' split
  all_goals first
    | exact Preserves.refl hn
    | (simp only [Heap.alloc, mkCell, List.append_assoc]; exact preserves_append hn _)

theorem cellDeriveMetadata_frame {n : Nat} {p : Pattern} (hp : p.targetsFresh = true)
    (defs : List (String × Bool × Ref)) (self : Loc) :
    ∀ {h : Heap} (c : Loc), n ≤ h.size → Preserves n h (cellDeriveMetadata p h self c defs).1 := by
  induction defs with
  | nil => intro h c hn; exact Preserves.refl hn
  | cons d rest ih =>
    intro h c hn
    obtain ⟨name, isAttr, value⟩ := d
    simp only [cellDeriveMetadata]
    have p1 := deriveMetadataStep_frame (n := n) hp hn self c name isAttr value
    generalize deriveMetadataStep p h self c name isAttr value = res at p1 ⊢
    obtain ⟨h1, r⟩ := res
    cases r with
    | error e => exact p1
    | ok x =>
      cases x with
      | loc c1 => exact p1.trans (ih c1 p1.1)
      | none => exact p1
      | scalar q => exact p1

/-! ### helpers built on `_conforming_sum`, and accumulation into a fresh dict -/

theorem conformingSum_frame {n : Nat} {p : Pattern} (hp : p.targetsFresh = true) {h : Heap} (hn : n ≤ h.size)
    (values : List Ref) : Preserves n h (conformingSum p h values).1 := by
  unfold conformingSum
  obtain ⟨p0, f0, s0⟩ := initAccumulator_frame (n := h.size) rfl (initOf_fresh hp "total") values
  exact (p0.trans (sumLoop_frame values s0 f0)).mono hn

theorem summarizeKeys_frame {n : Nat} {p : Pattern} (hp : p.targetsFresh = true)
    (cells : List (List (String × Ref))) (keys : List String) :
    ∀ {h : Heap}, n ≤ h.size → Preserves n h (summarizeKeys p h cells keys).1 := by
  induction keys with
  | nil => intro h hn; exact Preserves.refl hn
  | cons k ks ih =>
    intro h hn
    simp only [summarizeKeys]
    have p1 := conformingSum_frame (n := n) hp hn (cells.map fun ev => (dictGet ev k).getD .none)
    generalize conformingSum p h (cells.map fun ev => (dictGet ev k).getD .none) = res at p1 ⊢
    obtain ⟨h1, r⟩ := res
    cases r with
    | error e => exact p1
    | ok r =>
      have p2 := p1.trans (ih (h := h1) p1.1)
      simp only
      generalize summarizeKeys p h1 cells ks = res2 at p2 ⊢
      obtain ⟨h2, r2⟩ := res2
      cases r2 <;> exact p2

theorem summarizeCellValues_frame {n : Nat} {p : Pattern} (hp : p.targetsFresh = true) {h : Heap}
    (hn : n ≤ h.size) (cells : List Loc) (keys : List String) :
    Preserves n h (summarizeCellValues p h cells keys).1 := by
  unfold summarizeCellValues
  have p1 := summarizeKeys_frame (n := n) hp (cells.map fun c => ((cellValues h c).map (·.2)).getD []) keys hn
  simp only
  generalize summarizeKeys p h (cells.map fun c => ((cellValues h c).map (·.2)).getD []) keys = res at p1 ⊢
  obtain ⟨h1, r⟩ := res
  cases r with
  | error e => exact p1
  | ok es => exact p1.trans (preserves_alloc p1.1 _)

/-- a binary operator leaves EVERY existing location alone -/
theorem binop_get {f : Rat → Rat → Rat} {h h' : Heap} {a b r : Ref} (hr : binop f h a b = .ok (h', r))
    {l : Loc} (hl : l < h.size) : h'.get l = h.get l :=
  (binop_frame (n := h.size) (Nat.le_refl _) hr).1.2 l hl

/-- `+=` leaves every location that does not hold an array alone (it writes into the accumulator's
own array, or allocates) -/
theorem iadd_get_dict {h h' : Heap} {x v x' : Ref} (hr : iadd h x v = .ok (h', x')) {l : Loc}
    {es : List (String × Ref)} (hl : h.get l = some (.dict es)) : h'.get l = some (.dict es) := by
  have hlt : l < h.size := by
    simp only [Heap.get, Heap.size] at *
    exact (List.getElem?_eq_some_iff.mp hl).1
  unfold iadd at hr
  split at hr
  · rename_i lx
    split at hr
    · rename_i dx hx
      have hne : lx ≠ l := by
        intro heq; rw [heq, hl] at hx; cases hx
      split at hr
      · cases hr; rw [get_set_ne _ _ _ hne]; exact hl
      · split at hr
        · simp only [bind, Except.bind] at hr
          split at hr
          · cases hr
          · cases hr; rw [get_set_ne _ _ _ hne]; exact hl
        · cases hr
      · cases hr
    · cases hr
  · rw [binop_get hr hlt]; exact hl
  · cases hr

theorem mem_dictSet {es : List (String × Ref)} {k : String} {v : Ref} {e : String × Ref}
    (he : e ∈ dictSet es k v) : e ∈ es ∨ e = (k, v) := by
  unfold dictSet at he
  split at he
  · obtain ⟨q, hq, rfl⟩ := List.mem_map.mp he
    split
    · exact Or.inr rfl
    · exact Or.inl hq
  · rcases List.mem_append.mp he with h | h
    · exact Or.inl h
    · simp at h; exact Or.inr h

/-- invariant of the `vals_dict` loop: the dict lives at a location allocated after entry and every
array it holds was allocated after entry -/
def AccInv (n : Nat) (h : Heap) (dl : Loc) : Prop :=
  n ≤ dl ∧ ∀ es, h.get dl = some (.dict es) → ∀ e ∈ es, FreshRef n e.2

theorem freshRef_mono {n m : Nat} (hnm : n ≤ m) {r : Ref} (h : FreshRef m r) : FreshRef n r := by
  cases r with
  | loc l => exact Nat.le_trans hnm h
  | none => trivial
  | scalar q => trivial

theorem accumulateItems_frame {n : Nat} (dl : Loc) (share : Rat) (items : List (String × Ref)) :
    ∀ {h : Heap}, n ≤ h.size → AccInv n h dl →
      Preserves n h (accumulateItems h dl share items).1 ∧ AccInv n (accumulateItems h dl share items).1 dl ∧
      n ≤ (accumulateItems h dl share items).1.size := by
  induction items with
  | nil => intro h hn hi; exact ⟨Preserves.refl hn, hi, hn⟩
  | cons it rest ih =>
    intro h hn hi
    obtain ⟨field, val⟩ := it
    simp only [accumulateItems]
    split
    · rename_i es hes
      split
      · exact ⟨Preserves.refl hn, hi, hn⟩
      · rename_i h1 prod hb
        obtain ⟨p1, fprod⟩ := binop_frame (n := n) hn hb
        have hlt : dl < h.size := by
          simp only [Heap.get, Heap.size] at *
          exact (List.getElem?_eq_some_iff.mp hes).1
        have hes1 : h1.get dl = some (.dict es) := by rw [binop_get hb hlt]; exact hes
        have hi1 : AccInv n h1 dl := ⟨hi.1, fun es' he' => by
          rw [hes1] at he'; cases he'; exact hi.2 es hes⟩
        have fcur : FreshRef n ((dictGet es field).getD (.scalar 0)) := by
          unfold dictGet
          cases hf : es.find? (fun x => x.1 == field) with
          | none => simp [FreshRef]
          | some e =>
            simp only [Option.map_some, Option.getD_some]
            exact hi.2 es hes e (List.mem_of_find?_eq_some hf)
        split
        · exact ⟨p1, hi1, p1.1⟩
        · rename_i h2 r hr
          obtain ⟨p2, fr⟩ := iadd_frame p1.1 fcur hr
          have hes2 : h2.get dl = some (.dict es) := iadd_get_dict hr hes1
          rw [hes2]
          simp only
          have p3 : Preserves n h2 (h2.set dl (.dict (dictSet es field r))) :=
            preserves_set_fresh p2.1 hi.1 _
          have hi3 : AccInv n (h2.set dl (.dict (dictSet es field r))) dl := by
            refine ⟨hi.1, fun es' he' => ?_⟩
            have hlt2 : dl < h2.size := by
              simp only [Heap.get, Heap.size] at *
              exact (List.getElem?_eq_some_iff.mp hes2).1
            have : (h2.set dl (.dict (dictSet es field r))).get dl = some (.dict (dictSet es field r)) := by
              simp only [Heap.set, Heap.get, Heap.size] at *
              rw [List.getElem?_set_self hlt2]
            rw [this] at he'; cases he'
            intro e he
            rcases mem_dictSet he with h' | h'
            · exact hi.2 es hes e h'
            · rw [h']; exact fr
          have := ih (h := h2.set dl (.dict (dictSet es field r))) p3.1 hi3
          exact ⟨p1.trans (p2.trans (p3.trans this.1)), this.2.1, this.2.2⟩
    · exact ⟨Preserves.refl hn, hi, hn⟩

theorem accumulateCells_frame {n : Nat} (dl : Loc) (cells : List (List (String × Ref) × Rat)) :
    ∀ {h : Heap}, n ≤ h.size → AccInv n h dl → Preserves n h (accumulateCells h dl cells).1 := by
  induction cells with
  | nil => intro h hn _; exact Preserves.refl hn
  | cons c rest ih =>
    intro h hn hi
    obtain ⟨ev, share⟩ := c
    simp only [accumulateCells]
    obtain ⟨p1, i1, s1⟩ := accumulateItems_frame (n := n) dl share ev hn hi
    generalize accumulateItems h dl share ev = res at p1 i1 s1 ⊢
    obtain ⟨h1, r⟩ := res
    cases r with
    | error e => exact p1
    | ok u => cases u; exact p1.trans (ih s1 i1)

theorem get_alloc_self (h : Heap) (o : Obj) : (h.alloc o).1.get (h.alloc o).2 = some o := by
  simp [Heap.alloc, Heap.get]

theorem aqpyAccumulate_frame {p : Pattern} (hp : p.targetsFresh = true) (h : Heap) (cells : List (Loc × Rat)) :
    Preserves h.size h (aqpyAccumulate p h cells).1 := by
  unfold aqpyAccumulate
  simp only [initOf_fresh hp "vals_dict", if_true]
  have p0 := preserves_alloc (n := h.size) (Nat.le_refl _) (Obj.dict [])
  have hi : AccInv h.size (h.alloc (Obj.dict [])).1 (h.alloc (Obj.dict [])).2 := by
    refine ⟨Nat.le_refl _, fun es he => ?_⟩
    rw [get_alloc_self] at he
    cases he
    intro e he; cases he
  have p1 := accumulateCells_frame (n := h.size) (h.alloc (Obj.dict [])).2
    (cells.map fun cs => (((cellValues h cs.1).map (·.2)).getD [], cs.2)) p0.1 hi
  generalize accumulateCells (h.alloc (Obj.dict [])).1 (h.alloc (Obj.dict [])).2
    (cells.map fun cs => (((cellValues h cs.1).map (·.2)).getD [], cs.2)) = res at p1 ⊢
  obtain ⟨h1, r⟩ := res
  cases r with
  | error e => exact p0.trans p1
  | ok u => cases u; exact p0.trans p1

theorem linearBlend_frame {n : Nat} (vs : List (Ref × Rat)) :
    ∀ {h : Heap} (acc : Ref), n ≤ h.size → Preserves n h (linearBlend h acc vs).1 := by
  induction vs with
  | nil => intro h acc hn; exact Preserves.refl hn
  | cons vw rest ih =>
    intro h acc hn
    obtain ⟨v, w⟩ := vw
    simp only [linearBlend]
    split
    · exact Preserves.refl hn
    · rename_i h1 prod hb
      have p1 := (binop_frame (n := n) hn hb).1
      split
      · exact p1
      · rename_i h2 acc' hb2
        have p2 := (binop_frame (n := n) p1.1 hb2).1
        exact p1.trans (p2.trans (ih acc' p2.1))

theorem blendFields_frame {n : Nat} (dl : Loc) (hdl : n ≤ dl) (cells : List (List (String × Ref)))
    (weights : List Rat) (fs : List String) :
    ∀ {h : Heap}, n ≤ h.size → Preserves n h (blendFields h dl cells weights fs).1 := by
  induction fs with
  | nil => intro h hn; exact Preserves.refl hn
  | cons f rest ih =>
    intro h hn
    simp only [blendFields]
    have p1 := linearBlend_frame (n := n) ((cells.map fun ev => (dictGet ev f).getD .none).zip weights) (.scalar 0) hn
    generalize linearBlend h (.scalar 0) ((cells.map fun ev => (dictGet ev f).getD .none).zip weights) = res at p1 ⊢
    obtain ⟨h1, r⟩ := res
    cases r with
    | error e => exact p1
    | ok r =>
      simp only
      split
      · rename_i es _
        have p2 := preserves_set_fresh (n := n) p1.1 hdl (Obj.dict (dictSet es f r))
        exact p1.trans (p2.trans (ih p2.1))
      · exact p1

theorem blendCells_frame {pb pr : Pattern} (hpb : pb.targetsFresh = true) (hpr : pr.targetsFresh = true)
    (h : Heap) (cells : List Loc) (weights : List Rat) :
    Preserves h.size h (blendCells pb pr h cells weights).1 := by
  cases cells with
  | nil => exact Preserves.refl (Nat.le_refl _)
  | cons c0 tl =>
    simp only [blendCells]
    cases hv : cellValues h c0 with
    | none => exact Preserves.refl (Nat.le_refl _)
    | some x =>
      obtain ⟨v0, ev0⟩ := x
      simp only [initOf_fresh hpb "clean_values", if_true]
      have p0 := preserves_alloc (n := h.size) (Nat.le_refl _) (Obj.dict [])
      have p1 := blendFields_frame (n := h.size) (h.alloc (Obj.dict [])).2 (Nat.le_refl _)
        ((c0 :: tl).map fun c => ((cellValues h c).map (·.2)).getD []) weights (ev0.map (·.1)) p0.1
      generalize blendFields (h.alloc (Obj.dict [])).1 (h.alloc (Obj.dict [])).2
        ((c0 :: tl).map fun c => ((cellValues h c).map (·.2)).getD []) weights (ev0.map (·.1)) = res at p1 ⊢
      obtain ⟨h1, r⟩ := res
      cases r with
      | error e => exact p0.trans p1
      | ok u =>
        cases u
        exact p0.trans (p1.trans (cellReplace_frame hpr (p0.trans p1).1 _ _))

theorem weightCellValues_frame {n : Nat} (ev : List (String × Ref)) (ws : List Rat) :
    ∀ {h : Heap}, n ≤ h.size → Preserves n h (weightCellValues h ev ws).1 := by
  induction ws with
  | nil => intro h hn; exact Preserves.refl hn
  | cons w rest ih =>
    intro h hn
    simp only [weightCellValues]
    have p1 := mapEntries_frame (n := n) (f := fun h _ v => binop (· * ·) h v (.scalar w))
      (fun h k v h' r hn' hr => (binop_frame hn' hr).1) ev hn
    generalize mapEntries (fun h _ v => binop (· * ·) h v (.scalar w)) h ev = res at p1 ⊢
    obtain ⟨h1, r⟩ := res
    cases r with
    | error e => exact p1
    | ok es =>
      simp only
      have p2 := preserves_alloc (n := n) p1.1 (Obj.dict es)
      have p3 := p1.trans (p2.trans (ih (h := (h1.alloc (Obj.dict es)).1) p2.1))
      generalize weightCellValues (h1.alloc (Obj.dict es)).1 ev rest = res2 at p3 ⊢
      obtain ⟨h3, r3⟩ := res2
      cases r3 <;> exact p3

/-! ### helper lemmas moved out of Properties/C03 (not property statements) -/

theorem combineEntries_frame {n : Nat} (f : Rat → Rat → Rat) (cur nxt : List (String × Ref))
    (ks : List (String × Ref)) : ∀ {h : Heap}, n ≤ h.size → Preserves n h (combineEntries f h cur nxt ks).1 := by
  induction ks with
  | nil => intro h hn; exact Preserves.refl hn
  | cons k rest ih =>
    intro h hn
    obtain ⟨k, v⟩ := k
    simp only [combineEntries]
    split
    · split
      · have := ih (h := h) hn
        split <;> simp_all
      · split
        · exact Preserves.refl hn
        · rename_i h1 r hb
          have p1 := (binop_frame hn hb).1
          have := p1.trans (ih (h := h1) p1.1)
          split <;> simp_all
    · exact Preserves.refl hn

/-- the reachable locations of an argument that lives in the heap existed at entry, so they are
covered by `Preserves` -/
theorem reach_head_lt {h : Heap} {l : Loc} {o : Obj} (hl : h.get l = some o) : l < h.size := by
  simp only [Heap.get, Heap.size] at *
  exact (List.getElem?_eq_some_iff.mp hl).1

/-! ### transitive reachability -/

/-- the one-level `reach` is contained in the transitive `Reach` -/
theorem reach_sub_Reach {h : Heap} {r : Ref} {l : Loc} (hl : l ∈ reach h r) : Reach h r l := by
  cases r with
  | none => simp [reach] at hl
  | scalar q => simp [reach] at hl
  | loc l0 =>
    simp only [reach, List.mem_cons] at hl
    rcases hl with rfl | hl
    · exact Reach.self _
    · split at hl
      · rename_i es hg
        simp only [List.mem_filterMap] at hl
        obtain ⟨e, he, hm⟩ := hl
        obtain ⟨k, v⟩ := e
        cases v with
        | loc l' =>
          simp only [Option.some.injEq] at hm
          subst hm
          exact Reach.step (Reach.self l0) hg he
        | none => simp at hm
        | scalar q => simp at hm
      · simp at hl

/-- in a heap without dangling references everything reachable from a live object is live -/
theorem Reach.lt_size {h : Heap} (hc : h.Closed) {r : Ref} {l : Loc} (hr : Reach h r l)
    (h0 : ∀ l0, r = .loc l0 → l0 < h.size) : l < h.size := by
  induction hr with
  | self l => exact h0 l rfl
  | step _ hg he _ => exact hc _ _ _ _ hg he

end Bermuda.Heap
