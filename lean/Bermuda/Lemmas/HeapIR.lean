/-
Lemmas for the HeapIR discipline (property C03), part 1: the ghost TYPING of the locations allocated
during a call, the concretisation of abstract classes/environments, and how allocation and the four
kinds of write preserve "the heap is well typed" and the frame `Preserves n0`.
-/
import Bermuda.Model.HeapIR
import Bermuda.Lemmas.Heap
namespace Bermuda.HeapIR
open Bermuda.Heap

/-! ### positional lists -/

theorem getD_setPad {α : Type} (d : α) (l : List α) (x y : Nat) (v : α) :
    (setPad d l x v).getD y d = if y = x then v else l.getD y d := by
  induction l generalizing x y with
  | nil =>
    induction x generalizing y with
    | zero => cases y <;> simp [setPad]
    | succ n ih =>
      cases y with
      | zero => simp [setPad]
      | succ m =>
        have := ih m
        simp only [setPad, List.getD_cons_succ, this]
        simp
  | cons a l ih =>
    cases x with
    | zero => cases y <;> simp [setPad]
    | succ n =>
      cases y with
      | zero => simp [setPad]
      | succ m =>
        have := ih n m
        simp only [setPad, List.getD_cons_succ, this]
        simp

/-! ### the class lattice -/

theorem Lvl.sub_iff {a b : Lvl} : a.sub b = true ↔ a = b ∨ (a = .num ∧ b ≠ .ext) := by
  cases a <;> cases b <;> simp [Lvl.sub]

theorem Lvl.sub_refl (a : Lvl) : a.sub a = true := Lvl.sub_iff.mpr (Or.inl rfl)

theorem Lvl.sub_trans {a b c : Lvl} (h1 : a.sub b = true) (h2 : b.sub c = true) : a.sub c = true := by
  rw [Lvl.sub_iff] at *
  rcases h1 with rfl | ⟨rfl, hb⟩
  · exact h2
  · rcases h2 with rfl | ⟨rfl, hc⟩
    · right; exact ⟨rfl, hb⟩
    · right; exact ⟨rfl, hc⟩

/-- only the object of an unprotected parameter has class `lv ext` -/
theorem Lvl.sub_ext {a : Lvl} (h : a.sub .ext = true) : a = .ext := by
  rw [Lvl.sub_iff] at h
  rcases h with rfl | ⟨_, h⟩
  · rfl
  · exact absurd rfl h

theorem Cls.le_refl (c : Cls) : c.le c = true := by
  cases c <;> simp [Cls.le, Lvl.sub_refl]

theorem Cls.le_any (c : Cls) : c.le .any = true := by cases c <;> simp [Cls.le]

theorem Cls.scalar_le (c : Cls) : Cls.le .scalar c = true := by simp [Cls.le]

theorem Cls.le_scalar {c : Cls} (h : c.le .scalar = true) : c = .scalar := by
  cases c <;> simp [Cls.le] at h ⊢

theorem Cls.le_lv {c : Cls} {t : Lvl} (h : c.le (.lv t) = true) : c = .scalar ∨ ∃ t', c = .lv t' ∧ t'.sub t = true := by
  cases c with
  | scalar => left; rfl
  | any => simp [Cls.le] at h
  | lv t' => right; exact ⟨t', rfl, by simpa [Cls.le] using h⟩

theorem Cls.le_join_left (c d : Cls) : c.le (c.join d) = true := by
  unfold Cls.join
  split
  · assumption
  · split
    · exact Cls.le_refl c
    · exact Cls.le_any c

theorem Cls.le_join_right (c d : Cls) : d.le (c.join d) = true := by
  unfold Cls.join
  split
  · exact Cls.le_refl d
  · split
    · assumption
    · exact Cls.le_any d

/-! ### ghost typing -/

/-- which locations were allocated by the running call, and at which level -/
abbrev Typing := Loc → Option Lvl

def SatCls (τ : Typing) : Cls → Ref → Prop
  | .scalar, r => ∀ l, r ≠ .loc l
  | .lv t, r => ∀ l, r = .loc l → ∃ t', τ l = some t' ∧ t'.sub t = true
  | .any, _ => True

def EntryOK (τ : Typing) (t : Lvl) (r : Ref) : Prop :=
  match t.elem with
  | none => True
  | some t' => SatCls τ (.lv t') r

/-- the heap is well typed. `W`: the locations the call MAY write although they existed at entry (the objects
of the unprotected arguments) — exactly the locations of level `ext`. Every other typed location was allocated
after entry (`n0 ≤ l`); `num` locations hold arrays; the entries of a typed dict-like object respect its level. -/
structure Typed (n0 : Nat) (W : Loc → Prop) (τ : Typing) (h : Heap) : Prop where
  bound : ∀ (l : Nat) t, τ l = some t → l < h.size ∧ (t ≠ .ext → n0 ≤ l)
  extW : ∀ l, τ l = some .ext → W l
  isArr : ∀ l, τ l = some .num → ∃ d, h.get l = some (.arr d)
  entries : ∀ l t es, τ l = some t → h.get l = some (.dict es) → ∀ e ∈ es, EntryOK τ t e.2

/-- THE FRAME: every location that existed at entry (`< n0`) and is not the object of an unprotected argument
(`W`) holds the same object; and (for the callers' typing) an array stays an array everywhere -/
def PreservesW (n : Nat) (W : Loc → Prop) (h h' : Heap) : Prop :=
  n ≤ h'.size ∧ (∀ l, l < n → ¬ W l → h'.get l = h.get l) ∧
    ∀ l d, l < n → h.get l = some (.arr d) → ∃ d', h'.get l = some (.arr d')

theorem PreservesW.refl {n : Nat} {W : Loc → Prop} {h : Heap} (hn : n ≤ h.size) : PreservesW n W h h :=
  ⟨hn, fun _ _ _ => rfl, fun _ d _ hd => ⟨d, hd⟩⟩

theorem PreservesW.trans {n : Nat} {W : Loc → Prop} {h₁ h₂ h₃ : Heap} (a : PreservesW n W h₁ h₂)
    (b : PreservesW n W h₂ h₃) : PreservesW n W h₁ h₃ :=
  ⟨b.1, fun l hl hw => (b.2.1 l hl hw).trans (a.2.1 l hl hw), fun l d hl hd => by
    obtain ⟨d', hd'⟩ := a.2.2 l d hl hd
    exact b.2.2 l d' hl hd'⟩

/-- a frame for a later, larger entry point and fewer writable locations restricts to the earlier one -/
theorem PreservesW.mono {n m : Nat} {W V : Loc → Prop} {h h' : Heap} (hnm : n ≤ m)
    (hvw : ∀ l, l < n → V l → W l) (a : PreservesW m V h h') : PreservesW n W h h' :=
  ⟨Nat.le_trans hnm a.1,
   fun l hl hw => a.2.1 l (Nat.lt_of_lt_of_le hl hnm) (fun hv => hw (hvw l hl hv)),
   fun l d hl hd => a.2.2 l d (Nat.lt_of_lt_of_le hl hnm) hd⟩

theorem PreservesW.of_preserves {n : Nat} {W : Loc → Prop} {h h' : Heap} (a : Preserves n h h') :
    PreservesW n W h h' := ⟨a.1, fun l hl _ => a.2 l hl, fun l d hl hd => ⟨d, by rw [a.2 l hl]; exact hd⟩⟩

/-- with no unprotected argument the frame is `Preserves` -/
theorem PreservesW.to_preserves {n : Nat} {h h' : Heap} (a : PreservesW n (fun _ => False) h h') :
    Preserves n h h' := ⟨a.1, fun l hl => a.2.1 l hl (fun hf => hf)⟩

theorem preservesW_alloc {n : Nat} {W : Loc → Prop} {h : Heap} (hn : n ≤ h.size) (o : Obj) :
    PreservesW n W h (h.alloc o).1 := PreservesW.of_preserves (preserves_alloc hn o)

theorem get_set_eq (h : Heap) {l : Loc} (hl : l < h.size) (o : Obj) : (h.set l o).get l = some o := by
  simp only [Heap.set, Heap.get, Heap.size] at *
  simp [hl]

theorem preservesW_set {n : Nat} {W : Loc → Prop} {h : Heap} (hn : n ≤ h.size) {l : Loc} (hl : n ≤ l ∨ W l) (o : Obj)
    (hkeep : ∀ d, h.get l = some (.arr d) → ∃ d', o = .arr d') :
    PreservesW n W h (h.set l o) := by
  refine ⟨by rw [size_set]; exact hn, fun l' hl' hw => get_set_ne h l o ?_, ?_⟩
  · intro heq
    subst heq
    rcases hl with h1 | h1
    · exact absurd hl' (Nat.not_lt.mpr h1)
    · exact hw h1
  · intro l' d hl' hd
    by_cases heq : l = l'
    · subst heq
      obtain ⟨d', rfl⟩ := hkeep d hd
      exact ⟨d', get_set_eq h (Nat.lt_of_lt_of_le hl' hn) _⟩
    · exact ⟨d, by rw [get_set_ne h l o heq]; exact hd⟩

def Typing.le (τ τ' : Typing) : Prop := ∀ l t, τ l = some t → τ' l = some t

theorem Typing.le_refl (τ : Typing) : τ.le τ := fun _ _ h => h
theorem Typing.le_trans {a b c : Typing} (h1 : a.le b) (h2 : b.le c) : a.le c :=
  fun l t h => h2 l t (h1 l t h)

def SatEnv (τ : Typing) (a : AEnv) (env : List Ref) : Prop :=
  ∀ x, SatCls τ (a.get x) (env.getD x .none)

theorem SatCls.mono {τ τ' : Typing} (hle : τ.le τ') {c : Cls} {r : Ref} (h : SatCls τ c r) : SatCls τ' c r := by
  cases c with
  | scalar => exact h
  | any => trivial
  | lv t =>
    intro l hl
    obtain ⟨t', h1, h2⟩ := h l hl
    exact ⟨t', hle l t' h1, h2⟩

theorem SatCls.of_le {τ : Typing} {c d : Cls} (hle : c.le d = true) {r : Ref} (h : SatCls τ c r) : SatCls τ d r := by
  cases d with
  | any => trivial
  | scalar => rw [Cls.le_scalar hle] at h; exact h
  | lv t =>
    rcases Cls.le_lv hle with rfl | ⟨t', rfl, hs⟩
    · intro l hl; exact absurd hl (h l)
    · intro l hl
      obtain ⟨t'', h1, h2⟩ := h l hl
      exact ⟨t'', h1, Lvl.sub_trans h2 hs⟩

theorem SatCls.nonloc {τ : Typing} (c : Cls) {r : Ref} (h : ∀ l, r ≠ .loc l) : SatCls τ c r :=
  SatCls.of_le (Cls.scalar_le c) (c := .scalar) h

theorem EntryOK.mono {τ τ' : Typing} (hle : τ.le τ') {t : Lvl} {r : Ref} (h : EntryOK τ t r) : EntryOK τ' t r := by
  unfold EntryOK at *
  split
  · trivial
  · rename_i t' ht
    rw [ht] at h
    exact SatCls.mono hle h

theorem SatEnv.mono {τ τ' : Typing} (hle : τ.le τ') {a : AEnv} {env : List Ref} (h : SatEnv τ a env) :
    SatEnv τ' a env := fun x => (h x).mono hle

theorem SatEnv.set {τ : Typing} {a : AEnv} {env : List Ref} (h : SatEnv τ a env) (x : Var) {c : Cls} {r : Ref}
    (hc : SatCls τ c r) : SatEnv τ (a.set x c) (setPad .none env x r) := by
  intro y
  simp only [AEnv.get, AEnv.set, getD_setPad]
  split
  · exact hc
  · exact h y

/-! ### abstract environments: join and order -/

theorem Cls.join_scalar_left (c : Cls) : Cls.join .scalar c = c := by
  simp [Cls.join, Cls.scalar_le]

theorem Cls.join_scalar_right (c : Cls) : Cls.join c .scalar = c := by
  unfold Cls.join
  split
  · rename_i h; exact (Cls.le_scalar h).symm
  · simp [Cls.scalar_le]

theorem AEnv.get_join (a b : AEnv) (x : Var) : (a.join b).get x = (a.get x).join (b.get x) := by
  induction a generalizing b x with
  | nil =>
    simp only [AEnv.join, AEnv.get, List.getD_nil]
    exact (Cls.join_scalar_left _).symm
  | cons c a ih =>
    cases b with
    | nil =>
      simp only [AEnv.join, AEnv.get, List.getD_nil]
      exact (Cls.join_scalar_right _).symm
    | cons d b =>
      cases x with
      | zero => simp [AEnv.join, AEnv.get]
      | succ n =>
        have := ih b n
        simp only [AEnv.get] at this
        simp only [AEnv.join, AEnv.get, List.getD_cons_succ]
        exact this

theorem AEnv.le_get {a b : AEnv} (h : a.le b = true) (x : Var) : (a.get x).le (b.get x) = true := by
  induction a generalizing b x with
  | nil => simp [AEnv.get, Cls.scalar_le]
  | cons c a ih =>
    cases b with
    | nil =>
      simp only [AEnv.le, Bool.and_eq_true] at h
      cases x with
      | zero => simpa [AEnv.get] using h.1
      | succ n =>
        have := ih h.2 n
        simpa [AEnv.get] using this
    | cons d b =>
      simp only [AEnv.le, Bool.and_eq_true] at h
      cases x with
      | zero => simpa [AEnv.get] using h.1
      | succ n =>
        have := ih h.2 n
        simpa [AEnv.get] using this

theorem SatEnv.of_le {τ : Typing} {a b : AEnv} (hle : a.le b = true) {env : List Ref} (h : SatEnv τ a env) :
    SatEnv τ b env := fun x => (h x).of_le (AEnv.le_get hle x)

theorem SatEnv.join_left {τ : Typing} {a : AEnv} (b : AEnv) {env : List Ref} (h : SatEnv τ a env) :
    SatEnv τ (a.join b) env := by
  intro x
  rw [AEnv.get_join]
  exact (h x).of_le (Cls.le_join_left _ _)

theorem SatEnv.join_right {τ : Typing} (a : AEnv) {b : AEnv} {env : List Ref} (h : SatEnv τ b env) :
    SatEnv τ (a.join b) env := by
  intro x
  rw [AEnv.get_join]
  exact (h x).of_le (Cls.le_join_right _ _)

/-- the abstract exit `o` is reachable and describes `env` -/
def Covers (τ : Typing) (o : Option AEnv) (env : List Ref) : Prop := ∃ a, o = some a ∧ SatEnv τ a env

theorem Covers.ojoin_left {τ : Typing} {o : Option AEnv} (p : Option AEnv) {env : List Ref} (h : Covers τ o env) :
    Covers τ (ojoin o p) env := by
  obtain ⟨a, rfl, ha⟩ := h
  cases p with
  | none => exact ⟨a, rfl, ha⟩
  | some b => exact ⟨a.join b, rfl, ha.join_left b⟩

theorem Covers.ojoin_right {τ : Typing} (o : Option AEnv) {p : Option AEnv} {env : List Ref} (h : Covers τ p env) :
    Covers τ (ojoin o p) env := by
  obtain ⟨b, rfl, hb⟩ := h
  cases o with
  | none => exact ⟨b, rfl, hb⟩
  | some a => exact ⟨a.join b, rfl, hb.join_right a⟩

theorem Covers.mono {τ τ' : Typing} (hle : τ.le τ') {o : Option AEnv} {env : List Ref} (h : Covers τ o env) :
    Covers τ' o env := by
  obtain ⟨a, rfl, ha⟩ := h
  exact ⟨a, rfl, ha.mono hle⟩

/-! ### dict entries -/

theorem mem_dictSet {es : List (String × Ref)} {k : String} {v : Ref} {e : String × Ref}
    (h : e ∈ dictSet es k v) : e ∈ es ∨ e.2 = v := by
  unfold dictSet at h
  split at h
  · simp only [List.mem_map] at h
    obtain ⟨p, hp, rfl⟩ := h
    split
    · right; rfl
    · left; exact hp
  · simp only [List.mem_append, List.mem_singleton] at h
    rcases h with h | rfl
    · left; exact h
    · right; rfl

theorem mem_dictUnion {a b : List (String × Ref)} {e : String × Ref} (h : e ∈ dictUnion a b) :
    e ∈ a ∨ ∃ e' ∈ b, e.2 = e'.2 := by
  unfold dictUnion at h
  induction b generalizing a with
  | nil => left; simpa using h
  | cons p b ih =>
    simp only [List.foldl_cons] at h
    rcases ih h with h1 | ⟨e', he', h2⟩
    · rcases mem_dictSet h1 with h3 | h3
      · left; exact h3
      · right; exact ⟨p, List.mem_cons_self .., h3⟩
    · right; exact ⟨e', List.mem_cons_of_mem _ he', h2⟩

theorem mem_of_dictGet {es : List (String × Ref)} {k : String} {r : Ref} (h : dictGet es k = some r) :
    ∃ e ∈ es, e.2 = r := by
  unfold dictGet at h
  cases hf : es.find? (·.1 == k) with
  | none => simp [hf] at h
  | some e =>
    simp only [hf, Option.map_some, Option.some.injEq] at h
    exact ⟨e, List.mem_of_find?_eq_some hf, h⟩

theorem mem_shrinkEntries {n : Nat} {es : List (String × Ref)} {e : String × Ref}
    (h : e ∈ shrinkEntries n es) : e ∈ es := by
  unfold shrinkEntries at h
  split at h
  · simp at h
  · simpa using h
  · exact List.mem_of_mem_eraseIdx h

/-! ### typed heaps under allocation and writes -/

/-- the typing extended by a new location -/
def Typing.add (τ : Typing) (l : Loc) (t : Lvl) : Typing := fun l' => if l' = l then some t else τ l'

theorem Typing.le_add {n0 : Nat} {W : Loc → Prop} {τ : Typing} {h : Heap} (ht : Typed n0 W τ h) (t : Lvl) :
    τ.le (τ.add h.size t) := by
  intro l t' hl
  have := (ht.bound l t' hl).1
  simp only [Typing.add]
  rw [if_neg (Nat.ne_of_lt this)]
  exact hl

theorem get_alloc_new (h : Heap) (o : Obj) : (h.alloc o).1.get h.size = some o := by
  simp [Heap.alloc, Heap.get, Heap.size]

/-- allocation of an object whose entries respect level `t` (never `ext`: that level is not allocated) -/
theorem Typed.alloc {n0 : Nat} {W : Loc → Prop} {τ : Typing} {h : Heap} (ht : Typed n0 W τ h) (hn : n0 ≤ h.size)
    (t : Lvl) (o : Obj) (hte : t ≠ .ext)
    (harr : t = .num → ∃ d, o = .arr d)
    (hent : ∀ es, o = .dict es → ∀ e ∈ es, EntryOK τ t e.2) :
    Typed n0 W (τ.add h.size t) (h.alloc o).1 := by
  have hle := Typing.le_add ht t
  refine ⟨?_, ?_, ?_, ?_⟩
  · intro (l : Nat) t' hl
    simp only [Typing.add] at hl
    rw [size_alloc]
    split at hl
    · rename_i heq
      have h1 : @Eq Nat l h.size := heq
      exact ⟨by omega, fun _ => by omega⟩
    · have h1 := ht.bound l t' hl
      exact ⟨by have := h1.1; omega, h1.2⟩
  · intro l hl
    simp only [Typing.add] at hl
    split at hl
    · exact absurd (Option.some.inj hl) hte
    · exact ht.extW l hl
  · intro l hl
    simp only [Typing.add] at hl
    split at hl
    · subst_vars
      obtain ⟨d, rfl⟩ := harr (Option.some.inj hl)
      exact ⟨d, get_alloc_new h _⟩
    · obtain ⟨d, hd⟩ := ht.isArr l hl
      exact ⟨d, by rw [get_alloc_lt h o (ht.bound l _ hl).1]; exact hd⟩
  · intro l t' es hl hg e he
    simp only [Typing.add] at hl
    split at hl
    · subst_vars
      rw [get_alloc_new] at hg
      cases Option.some.inj hl
      exact (hent es (Option.some.inj hg) e he).mono hle
    · rw [get_alloc_lt h o (ht.bound l _ hl).1] at hg
      exact (ht.entries l t' es hl hg e he).mono hle

/-- a write into a typed location keeping the kind of object and the level of its entries -/
theorem Typed.set {n0 : Nat} {W : Loc → Prop} {τ : Typing} {h : Heap} (ht : Typed n0 W τ h) {l : Loc} {t : Lvl}
    (hl : τ l = some t)
    (o : Obj) (harr : t = .num → ∃ d, o = .arr d)
    (hent : ∀ es, o = .dict es → ∀ e ∈ es, EntryOK τ t e.2) :
    Typed n0 W τ (h.set l o) := by
  have hb := (ht.bound l t hl).1
  refine ⟨?_, ht.extW, ?_, ?_⟩
  · intro l' t' hl'
    rw [size_set]
    exact ht.bound l' t' hl'
  · intro l' hl'
    by_cases hll : l = l'
    · subst hll
      rw [hl] at hl'
      obtain ⟨d, rfl⟩ := harr (Option.some.inj hl')
      exact ⟨d, get_set_eq h hb _⟩
    · rw [get_set_ne h l o hll]
      exact ht.isArr l' hl'
  · intro l' t' es hl' hg e he
    by_cases hll : l = l'
    · subst hll
      rw [get_set_eq h hb] at hg
      rw [hl] at hl'
      cases Option.some.inj hl'
      exact hent es (Option.some.inj hg) e he
    · rw [get_set_ne h l o hll] at hg
      exact ht.entries l' t' es hl' hg e he

/-- the entries of a reference of class `lv t` respect level `t` (an array, an immutable value and a
missing object have no entries) -/
theorem contents_entryOK {n0 : Nat} {W : Loc → Prop} {τ : Typing} {h : Heap} (ht : Typed n0 W τ h) {t : Lvl} {r : Ref}
    (hr : SatCls τ (.lv t) r) (hne : t.elem ≠ none) : ∀ e ∈ contents h r, EntryOK τ t e.2 := by
  intro e he
  unfold contents at he
  split at he
  · rename_i l
    split at he
    · rename_i es hg
      obtain ⟨t', h1, h2⟩ := hr l rfl
      rw [Lvl.sub_iff] at h2
      rcases h2 with rfl | ⟨rfl, _⟩
      · exact ht.entries l t' es h1 hg e he
      · obtain ⟨d, hd⟩ := ht.isArr l h1
        rw [hd] at hg
        cases hg
    · simp at he
  · simp at he

end Bermuda.HeapIR
