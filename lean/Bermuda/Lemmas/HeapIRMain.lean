/-
Lemmas for the HeapIR discipline (property C03), part 3: `exec_sound` (induction over the program),
`runFn_good` (a disciplined function is a good call) and `sem_good` (induction over the call depth).
-/
import Bermuda.Lemmas.HeapIRSound
namespace Bermuda.HeapIR
open Bermuda.Heap

section
variable {n0 : Nat} {W : Loc → Prop} {rc : Cls}

theorem post_of_eq {tr : Bool} {τ : Typing} {h0 : Heap} {r r' : ARes} {out : Out} (h : Post n0 W rc tr τ h0 r out)
    (hn : r'.norm = r.norm) (he : r'.exc = r.exc) (hb : r'.brk = r.brk) : Post n0 W rc tr τ h0 r' out := by
  obtain ⟨τ', l, t, p, c⟩ := h
  refine ⟨τ', l, t, p, ?_⟩
  cases out with
  | norm s => rw [hn]; exact c
  | exc s => rw [he]; exact c
  | brk s => rw [hb]; exact c
  | ret v s => exact c

theorem exec_sound {sums : List Summary} {cs : CallSem} (hcs : GoodCalls sums cs) (s : Stmt) :
    ∀ (tr : Bool) (a : AEnv) (st : St) (τ : Typing), (absExec sums rc tr s a).ok = true → Typed n0 W τ st.heap →
      n0 ≤ st.heap.size → SatEnv τ a st.env →
      Post n0 W rc tr τ st.heap (absExec sums rc tr s a) (exec cs s st) := by
  induction s with
  | skip =>
    intro tr a st τ _ ht hn he
    exact post_norm (Typing.le_refl τ) ht (PreservesW.refl hn) he
  | alloc x t al =>
    intro tr a st τ hok ht hn he
    exact execAlloc_sound ht hn he x t al hok
  | bind x y =>
    intro tr a st τ _ ht hn he
    exact post_norm (Typing.le_refl τ) ht (PreservesW.refl hn) (he.set x (he y))
  | const x =>
    intro tr a st τ _ ht hn he
    simp only [exec, execConst, absExec]
    refine post_norm (Typing.le_refl τ) ht (PreservesW.refl hn) (he.set x ?_)
    intro l
    split <;> simp
  | arith x =>
    intro tr a st τ _ ht hn he
    exact execArith_sound ht hn he x
  | havoc x =>
    intro tr a st τ _ ht hn he
    exact post_norm (Typing.le_refl τ) ht (PreservesW.refl hn) (he.set x trivial)
  | load x y k =>
    intro tr a st τ _ ht hn he
    exact execLoad_sound ht hn he x y k
  | store x k v =>
    intro tr a st τ hok ht hn he
    exact execStore_sound ht hn he x k v hok
  | merge x y =>
    intro tr a st τ hok ht hn he
    exact execMerge_sound ht hn he x y hok
  | shrink x =>
    intro tr a st τ hok ht hn he
    exact execShrink_sound ht hn he x hok
  | aug x v =>
    intro tr a st τ hok ht hn he
    simp only [absExec] at hok ⊢
    simp only [exec]
    cases hx : a.get x with
    | scalar => exact execAug_scalar ht hn he x v hx
    | lv t =>
      simp only [hx, prim, Bool.and_eq_true, Bool.not_eq_true'] at hok
      simp only [hx]
      exact execAug_lv ht hn he x v hx hok.1 (by intro hc; rw [hc] at hok; simp [Lvl.isExt] at hok)
    | any => simp [hx, prim] at hok
  | call x f args =>
    intro tr a st τ hok ht hn he
    exact execCall_sound hcs ht hn he x f args hok
  | unknown args =>
    intro tr a st τ hok ht hn he
    exact execUnknown_sound ht hn he args hok
  | seq s t ihs iht =>
    intro tr a st τ hok ht hn he
    simp only [absExec] at hok ⊢
    simp only [exec]
    cases hr1 : (absExec sums rc tr s a).norm with
    | none =>
      simp only [hr1] at hok ⊢
      have p := ihs tr a st τ hok ht hn he
      cases hout : exec cs s st with
      | norm st' =>
        rw [hout] at p
        obtain ⟨τ', _, _, _, a', h', _⟩ := p
        rw [hr1] at h'; cases h'
      | exc s' => rw [hout] at p; exact p
      | brk s' => rw [hout] at p; exact p
      | ret v s' => rw [hout] at p; exact p
    | some a1 =>
      simp only [hr1, Bool.and_eq_true] at hok ⊢
      have p1 := ihs tr a st τ hok.1 ht hn he
      cases hout : exec cs s st with
      | norm st' =>
        rw [hout] at p1
        obtain ⟨τ', l1, t1, pr1, a', ha', se⟩ := p1
        rw [hr1] at ha'; cases ha'
        have p2 := (iht tr a1 st' τ' hok.2 t1 pr1.1 se).chain l1 pr1
        obtain ⟨τ'', l2, t2, pr2, c2⟩ := p2
        refine ⟨τ'', l2, t2, pr2, ?_⟩
        simp only
        cases hout2 : exec cs t st' with
        | norm s'' => rw [hout2] at c2; exact c2
        | exc s'' => rw [hout2] at c2; exact fun h => (c2 h).ojoin_right _
        | brk s'' => rw [hout2] at c2; exact c2.ojoin_right _
        | ret v s'' => rw [hout2] at c2; exact c2
      | exc s' =>
        rw [hout] at p1
        obtain ⟨τ', l, t', pr, c⟩ := p1
        exact ⟨τ', l, t', pr, fun h => (c h).ojoin_left _⟩
      | brk s' =>
        rw [hout] at p1
        obtain ⟨τ', l, t', pr, c⟩ := p1
        exact ⟨τ', l, t', pr, c.ojoin_left _⟩
      | ret v s' =>
        rw [hout] at p1
        obtain ⟨τ', l, t', pr, c⟩ := p1
        exact ⟨τ', l, t', pr, c⟩
  | ite s t ihs iht =>
    intro tr a st τ hok ht hn he
    simp only [absExec, Bool.and_eq_true] at hok ⊢
    simp only [exec]
    split
    · exact (ihs tr a { st with orc := (popN st.orc).2 } τ hok.1 ht hn he).ojoin_left _ _
    · exact (iht tr a { st with orc := (popN st.orc).2 } τ hok.2 ht hn he).ojoin_right _ _
  | loop inv s ih =>
    intro tr a st τ hok ht hn he
    simp only [absExec, Bool.and_eq_true] at hok ⊢
    simp only [exec]
    obtain ⟨⟨hok1, hok2⟩, hok3⟩ := hok
    exact iter_sound (fun st' => exec cs s st') (absExec sums rc tr s inv) inv _
      (fun st' τ' ht' hn' he' => ih tr inv st' τ' hok1 ht' hn' he') hok3 _
      { st with orc := (popN st.orc).2 } τ ht hn (he.of_le hok2)
  | block s ih =>
    intro tr a st τ hok ht hn he
    simp only [absExec] at hok ⊢
    simp only [exec]
    have p := ih tr a st τ hok ht hn he
    cases hout : exec cs s st with
    | norm s' =>
      rw [hout] at p
      obtain ⟨τ', l, t', pr, c⟩ := p
      exact ⟨τ', l, t', pr, c.ojoin_left _⟩
    | brk s' =>
      rw [hout] at p
      obtain ⟨τ', l, t', pr, c⟩ := p
      exact ⟨τ', l, t', pr, c.ojoin_right _⟩
    | exc s' =>
      rw [hout] at p
      obtain ⟨τ', l, t', pr, c⟩ := p
      exact ⟨τ', l, t', pr, c⟩
    | ret v s' =>
      rw [hout] at p
      obtain ⟨τ', l, t', pr, c⟩ := p
      exact ⟨τ', l, t', pr, c⟩
  | brk =>
    intro tr a st τ _ ht hn he
    exact ⟨τ, Typing.le_refl τ, ht, PreservesW.refl hn, a, rfl, he⟩
  | «try» s t ihs iht =>
    intro tr a st τ hok ht hn he
    simp only [absExec] at hok ⊢
    simp only [exec]
    cases hr1 : (absExec sums rc true s a).exc with
    | none =>
      simp only [hr1] at hok ⊢
      have p := ihs true a st τ hok ht hn he
      cases hout : exec cs s st with
      | exc st' =>
        rw [hout] at p
        obtain ⟨τ', _, _, _, c⟩ := p
        obtain ⟨a', h', _⟩ := c rfl
        rw [hr1] at h'; cases h'
      | norm s' =>
        rw [hout] at p
        obtain ⟨τ', l, t', pr, c⟩ := p
        exact ⟨τ', l, t', pr, c⟩
      | brk s' =>
        rw [hout] at p
        obtain ⟨τ', l, t', pr, c⟩ := p
        exact ⟨τ', l, t', pr, c⟩
      | ret v s' =>
        rw [hout] at p
        obtain ⟨τ', l, t', pr, c⟩ := p
        exact ⟨τ', l, t', pr, c⟩
    | some e =>
      simp only [hr1, Bool.and_eq_true] at hok ⊢
      have p1 := ihs true a st τ hok.1 ht hn he
      cases hout : exec cs s st with
      | exc st' =>
        rw [hout] at p1
        obtain ⟨τ', l1, t1, pr1, c1⟩ := p1
        obtain ⟨a', ha', se⟩ := c1 rfl
        rw [hr1] at ha'; cases ha'
        have p2 := (iht tr e st' τ' hok.2 t1 pr1.1 se).chain l1 pr1
        obtain ⟨τ'', l2, t2, pr2, c2⟩ := p2
        refine ⟨τ'', l2, t2, pr2, ?_⟩
        simp only
        cases hout2 : exec cs t st' with
        | norm s'' => rw [hout2] at c2; exact c2.ojoin_right _
        | exc s'' => rw [hout2] at c2; exact c2
        | brk s'' => rw [hout2] at c2; exact c2.ojoin_right _
        | ret v s'' => rw [hout2] at c2; exact c2
      | norm s' =>
        rw [hout] at p1
        obtain ⟨τ', l, t', pr, c⟩ := p1
        exact ⟨τ', l, t', pr, c.ojoin_left _⟩
      | brk s' =>
        rw [hout] at p1
        obtain ⟨τ', l, t', pr, c⟩ := p1
        exact ⟨τ', l, t', pr, c.ojoin_left _⟩
      | ret v s' =>
        rw [hout] at p1
        obtain ⟨τ', l, t', pr, c⟩ := p1
        exact ⟨τ', l, t', pr, c⟩
  | ret x =>
    intro tr a st τ hok ht hn he
    exact ⟨τ, Typing.le_refl τ, ht, PreservesW.refl hn, (he x).of_le hok⟩
  | raise =>
    intro tr a st τ _ ht hn he
    exact ⟨τ, Typing.le_refl τ, ht, PreservesW.refl hn, fun h => ⟨a, by simp [absExec, h], he⟩⟩

end

/-! ### functions and programs -/

open Classical in
/-- the typing a call starts with: nothing allocated yet, the objects of the unprotected arguments are `ext` -/
noncomputable def Typing.entry (V : Loc → Prop) : Typing := fun l => if V l then some .ext else none

theorem Typing.entry_some {V : Loc → Prop} {l : Loc} {t : Lvl} (h : Typing.entry V l = some t) : t = .ext ∧ V l := by
  unfold Typing.entry at h
  split at h
  · exact ⟨(Option.some.inj h).symm, by assumption⟩
  · cases h

theorem Typing.entry_of {V : Loc → Prop} {l : Loc} (h : V l) : Typing.entry V l = some .ext := by
  unfold Typing.entry
  rw [if_pos h]

theorem Typed.entry (n0 : Nat) {V : Loc → Prop} (h : Heap) (hV : ∀ l, V l → l < h.size) :
    Typed n0 V (Typing.entry V) h :=
  { bound := fun l t hl => by
      obtain ⟨rfl, hv⟩ := Typing.entry_some hl
      exact ⟨hV l hv, fun hc => absurd rfl hc⟩
    extW := fun l hl => (Typing.entry_some hl).2
    isArr := fun l hl => by have := (Typing.entry_some hl).1; cases this
    entries := fun l t es hl _ e _ => by
      obtain ⟨rfl, _⟩ := Typing.entry_some hl
      simp [EntryOK, Lvl.elem] }

theorem entryEnvAux_sat (τ : Typing) (wp : List Nat) (params : List Var) :
    ∀ (i : Nat) (args : List Ref) (a : AEnv) (env : List Ref), SatEnv τ a env →
      (∀ j l, args[j]? = some (.loc l) → (i + j) ∈ wp → τ l = some .ext) →
      SatEnv τ (entryEnvAux wp i params a) (bindParams params args env) := by
  induction params with
  | nil => intro i args a env h _; simpa [entryEnvAux, bindParams] using h
  | cons p ps ih =>
    intro i args a env h hw
    cases args with
    | nil =>
      simp only [entryEnvAux, bindParams]
      refine ih (i + 1) [] _ _ (h.set p (SatCls.nonloc _ (by simp))) ?_
      intro j l hj
      simp at hj
    | cons r rs =>
      simp only [entryEnvAux, bindParams]
      refine ih (i + 1) rs _ _ (h.set p ?_) ?_
      · split
        · rename_i hmem
          intro l hl
          subst hl
          have := hw 0 l (by simp) (by simpa using hmem)
          exact ⟨.ext, this, Lvl.sub_refl _⟩
        · trivial
      · intro j l hj hmem
        exact hw (j + 1) l (by simpa using hj) (by rw [← Nat.add_assoc, Nat.add_right_comm]; exact hmem)

theorem entryEnv_sat (τ : Typing) (f : Fn) (args : List Ref)
    (hw : ∀ l, callW f.wparams args l → τ l = some .ext) :
    SatEnv τ (entryEnv f.params f.wparams) (bindParams f.params args []) := by
  refine entryEnvAux_sat τ f.wparams f.params 0 args [] [] ?_ ?_
  · intro x
    simp only [AEnv.get, List.getD_nil]
    exact SatCls.nonloc _ (by simp)
  · intro j l hj hmem
    exact hw l ⟨j, by simpa using hmem, hj⟩

/-- a caller's typing `τ` (locations `< n`) and a callee's typing `τc` (locations `≥ n`) side by side -/
def Typing.glue (τ τc : Typing) (n : Nat) : Typing := fun l => if l < n then τ l else τc l

theorem Lvl.elem_ne_ext {t t' : Lvl} (h : t.elem = some t') : t' ≠ .ext := by
  intro hc
  subst hc
  cases t with
  | sh k => cases k <;> simp [Lvl.elem] at h
  | deep => simp [Lvl.elem] at h
  | num => simp [Lvl.elem] at h
  | nums => simp [Lvl.elem] at h
  | ext => simp [Lvl.elem] at h

theorem runFn_good {sums : List Summary} {cs : CallSem} (hcs : GoodCalls sums cs) (f : Fn)
    (hf : writesOnlyFresh sums f = true) (args : List Ref) (h : Heap) (o : Oracle) (n : Nat) (W : Loc → Prop)
    (τ : Typing) (ht : Typed n W τ h) (hn : n ≤ h.size)
    (hext : ∀ l, callW f.wparams args l → ∃ t, τ l = some t ∧ t.elem = none) :
    ∃ τ' : Typing, τ.le τ' ∧ Typed n W τ' (runFn cs f args h o).1 ∧
      PreservesW h.size (callW f.wparams args) h (runFn cs f args h o).1 ∧
      ∀ v, (runFn cs f args h o).2.1 = .ok v → SatCls τ' f.retCls v := by
  simp only [writesOnlyFresh, Bool.and_eq_true, Bool.not_eq_true'] at hf
  obtain ⟨hf, hret⟩ := hf
  have hV : ∀ l, callW f.wparams args l → l < h.size := fun l hl => by
    obtain ⟨t, h1, _⟩ := hext l hl
    exact (ht.bound l t h1).1
  have p := exec_sound (n0 := h.size) (W := callW f.wparams args) (rc := f.retCls) hcs f.body false
    (entryEnv f.params f.wparams) ⟨bindParams f.params args [], h, o⟩ (Typing.entry (callW f.wparams args)) hf
    (Typed.entry _ h hV) (Nat.le_refl _)
    (entryEnv_sat _ f args (fun l hl => Typing.entry_of hl))
  obtain ⟨τc, _, tc, pc, cc⟩ := p
  -- callee-typed references (of a class other than `lv ext`) keep their class under the glued typing
  have hsat : ∀ (h' : Heap), Typed h.size (callW f.wparams args) τc h' → ∀ {c : Cls} {r : Ref},
      c.isExt = false → SatCls τc c r → SatCls (Typing.glue τ τc h.size) c r := by
    intro h' tc c r hc hs
    cases c with
    | scalar => exact hs
    | any => trivial
    | lv t =>
      intro l hl
      obtain ⟨t', h1, h2⟩ := hs l hl
      refine ⟨t', ?_, h2⟩
      simp only [Typing.glue]
      split
      · rename_i hlt
        have hte : t' = .ext := by
          by_cases hx : t' = .ext
          · exact hx
          · exact absurd hlt (Nat.not_lt.mpr ((tc.bound l t' h1).2 hx))
        subst hte
        have : t = .ext := by
          rw [Lvl.sub_iff] at h2
          rcases h2 with h3 | ⟨h3, _⟩
          · exact h3.symm
          · cases h3
        subst this
        simp [Cls.isExt] at hc
      · exact h1
  have hglue : ∀ (h' : Heap), Typed h.size (callW f.wparams args) τc h' →
      PreservesW h.size (callW f.wparams args) h h' →
      τ.le (Typing.glue τ τc h.size) ∧ Typed n W (Typing.glue τ τc h.size) h' := by
    intro h' tc pc
    have hle : τ.le (Typing.glue τ τc h.size) := by
      intro l t hl
      have := (ht.bound l t hl).1
      simp only [Typing.glue, this, if_true]
      exact hl
    refine ⟨hle, ?_, ?_, ?_, ?_⟩
    · intro l t hl
      simp only [Typing.glue] at hl
      split at hl
      · have := ht.bound l t hl
        exact ⟨Nat.lt_of_lt_of_le this.1 pc.1, this.2⟩
      · rename_i hge
        have := tc.bound l t hl
        exact ⟨this.1, fun _ => Nat.le_trans hn (Nat.not_lt.mp hge)⟩
    · intro l hl
      simp only [Typing.glue] at hl
      split at hl
      · exact ht.extW l hl
      · rename_i hge
        exact absurd (hV l (tc.extW l hl)) hge
    · intro l hl
      simp only [Typing.glue] at hl
      split at hl
      · rename_i hlt
        obtain ⟨d, hd⟩ := ht.isArr l hl
        exact pc.2.2 l d hlt hd
      · exact tc.isArr l hl
    · intro l t es hl hg e he
      simp only [Typing.glue] at hl
      split at hl
      · rename_i hlt
        by_cases hw : callW f.wparams args l
        · obtain ⟨t0, h1, h2⟩ := hext l hw
          rw [hl] at h1
          cases h1
          simp [EntryOK, h2]
        · rw [pc.2.1 l hlt hw] at hg
          exact (ht.entries l t es hl hg e he).mono hle
      · have := tc.entries l t es hl hg e he
        unfold EntryOK at this ⊢
        split
        · trivial
        · rename_i t' heq
          rw [heq] at this
          refine hsat h' tc ?_ this
          have := Lvl.elem_ne_ext heq
          cases t' <;> simp [Cls.isExt] at this ⊢
  refine ⟨Typing.glue τ τc h.size, ?_⟩
  simp only [runFn]
  cases hout : exec cs f.body ⟨bindParams f.params args [], h, o⟩ with
  | norm st =>
    rw [hout] at tc pc
    obtain ⟨g1, g2⟩ := hglue _ tc pc
    refine ⟨g1, g2, pc, ?_⟩
    intro v hv
    cases hv
    exact SatCls.nonloc _ (by simp)
  | brk st =>
    rw [hout] at tc pc
    obtain ⟨g1, g2⟩ := hglue _ tc pc
    refine ⟨g1, g2, pc, ?_⟩
    intro v hv
    cases hv
    exact SatCls.nonloc _ (by simp)
  | exc st =>
    rw [hout] at tc pc
    obtain ⟨g1, g2⟩ := hglue _ tc pc
    refine ⟨g1, g2, pc, ?_⟩
    intro v hv
    cases hv
  | ret r st =>
    rw [hout] at tc pc cc
    obtain ⟨g1, g2⟩ := hglue _ tc pc
    refine ⟨g1, g2, pc, ?_⟩
    intro v hv
    cases hv
    exact hsat _ tc hret cc

theorem summaries_getD (P : List Fn) (f : Nat) (fn : Fn) (hf : P[f]? = some fn) :
    (summaries P).getD f (.any, []) = (fn.retCls, fn.wparams) := by
  simp only [summaries, List.getD_eq_getElem?_getD, List.getElem?_map, hf, Option.map_some, Option.getD_some]

theorem summaries_getD_none (P : List Fn) (f : Nat) (hf : P[f]? = none) :
    (summaries P).getD f (.any, []) = (.any, []) := by
  simp only [summaries, List.getD_eq_getElem?_getD, List.getElem?_map, hf, Option.map_none, Option.getD_none]

/-- every function of a disciplined program is a good call, at every call depth -/
theorem sem_good (P : List Fn) (hP : disciplined P = true) (d : Nat) : GoodCalls (summaries P) (sem P d) := by
  induction d with
  | zero =>
    intro f args h o n W τ ht hn _
    exact ⟨τ, Typing.le_refl τ, ht, PreservesW.refl (Nat.le_refl _), by intro v hv; cases hv⟩
  | succ d ih =>
    intro f args h o n W τ ht hn hext
    simp only [sem]
    cases hf : P[f]? with
    | none => exact ⟨τ, Typing.le_refl τ, ht, PreservesW.refl (Nat.le_refl _), by intro v hv; cases hv⟩
    | some fn =>
      simp only
      have hmem : fn ∈ P := List.mem_of_getElem? hf
      have hdisc : writesOnlyFresh (summaries P) fn = true := List.all_eq_true.mp hP fn hmem
      rw [summaries_getD P f fn hf] at hext ⊢
      exact runFn_good ih fn hdisc args h o n W τ ht hn hext

end Bermuda.HeapIR
