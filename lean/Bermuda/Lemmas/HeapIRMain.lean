/-
Lemmas for the HeapIR discipline (property C03), part 3: `exec_sound` (induction over the program),
`runFn_good` (a disciplined function is a good call) and `sem_good` (induction over the call depth).
-/
import Bermuda.Lemmas.HeapIRSound
namespace Bermuda.HeapIR
open Bermuda.Heap

section
variable {n0 : Nat} {rc : Cls}

theorem post_of_eq {tr : Bool} {τ : Typing} {h0 : Heap} {r r' : ARes} {out : Out} (h : Post n0 rc tr τ h0 r out)
    (hn : r'.norm = r.norm) (he : r'.exc = r.exc) (hb : r'.brk = r.brk) : Post n0 rc tr τ h0 r' out := by
  obtain ⟨τ', l, t, p, c⟩ := h
  refine ⟨τ', l, t, p, ?_⟩
  cases out with
  | norm s => rw [hn]; exact c
  | exc s => rw [he]; exact c
  | brk s => rw [hb]; exact c
  | ret v s => exact c

theorem exec_sound {sums : List Cls} {cs : CallSem} (hcs : GoodCalls sums cs) (s : Stmt) :
    ∀ (tr : Bool) (a : AEnv) (st : St) (τ : Typing), (absExec sums rc tr s a).ok = true → Typed n0 τ st.heap →
      n0 ≤ st.heap.size → SatEnv τ a st.env →
      Post n0 rc tr τ st.heap (absExec sums rc tr s a) (exec cs s st) := by
  induction s with
  | skip =>
    intro tr a st τ _ ht hn he
    exact post_norm (Typing.le_refl τ) ht (Preserves.refl hn) he
  | alloc x t al =>
    intro tr a st τ hok ht hn he
    exact execAlloc_sound ht hn he x t al hok
  | bind x y =>
    intro tr a st τ _ ht hn he
    exact post_norm (Typing.le_refl τ) ht (Preserves.refl hn) (he.set x (he y))
  | const x =>
    intro tr a st τ _ ht hn he
    simp only [exec, execConst, absExec]
    refine post_norm (Typing.le_refl τ) ht (Preserves.refl hn) (he.set x ?_)
    intro l
    split <;> simp
  | arith x =>
    intro tr a st τ _ ht hn he
    exact execArith_sound ht hn he x
  | havoc x =>
    intro tr a st τ _ ht hn he
    exact post_norm (Typing.le_refl τ) ht (Preserves.refl hn) (he.set x trivial)
  | load x y k =>
    intro tr a st τ _ ht hn he
    exact execLoad_sound ht hn he x y k
  | store x k v =>
    intro tr a st τ hok ht hn he
    exact execStore_sound ht hn he x k v hok
  | merge x y =>
    intro tr a st τ hok ht hn he
    exact execMerge_sound ht hn he x y hok
  | shrink x =>
    intro tr a st τ hok ht hn he
    exact execShrink_sound ht hn he x hok
  | aug x v =>
    intro tr a st τ hok ht hn he
    simp only [absExec] at hok ⊢
    simp only [exec]
    cases hx : a.get x with
    | scalar => exact execAug_scalar ht hn he x v hx
    | lv t =>
      simp only [hx] at hok ⊢
      exact execAug_lv ht hn he x v hx hok
    | any => simp [hx, prim] at hok
  | call x f args =>
    intro tr a st τ _ ht hn he
    exact execCall_sound hcs ht hn he x f args
  | unknown args =>
    intro tr a st τ hok ht hn he
    exact execUnknown_sound ht hn he args hok
  | seq s t ihs iht =>
    intro tr a st τ hok ht hn he
    simp only [absExec] at hok ⊢
    simp only [exec]
    cases hr1 : (absExec sums rc tr s a).norm with
    | none =>
      simp only [hr1] at hok ⊢
      have p := ihs tr a st τ hok ht hn he
      cases hout : exec cs s st with
      | norm st' =>
        rw [hout] at p
        obtain ⟨τ', _, _, _, a', h', _⟩ := p
        rw [hr1] at h'; cases h'
      | exc s' => rw [hout] at p; exact p
      | brk s' => rw [hout] at p; exact p
      | ret v s' => rw [hout] at p; exact p
    | some a1 =>
      simp only [hr1, Bool.and_eq_true] at hok ⊢
      have p1 := ihs tr a st τ hok.1 ht hn he
      cases hout : exec cs s st with
      | norm st' =>
        rw [hout] at p1
        obtain ⟨τ', l1, t1, pr1, a', ha', se⟩ := p1
        rw [hr1] at ha'; cases ha'
        have p2 := (iht tr a1 st' τ' hok.2 t1 pr1.1 se).chain l1 pr1
        obtain ⟨τ'', l2, t2, pr2, c2⟩ := p2
        refine ⟨τ'', l2, t2, pr2, ?_⟩
        simp only
        cases hout2 : exec cs t st' with
        | norm s'' => rw [hout2] at c2; exact c2
        | exc s'' => rw [hout2] at c2; exact fun h => (c2 h).ojoin_right _
        | brk s'' => rw [hout2] at c2; exact c2.ojoin_right _
        | ret v s'' => rw [hout2] at c2; exact c2
      | exc s' =>
        rw [hout] at p1
        obtain ⟨τ', l, t', pr, c⟩ := p1
        exact ⟨τ', l, t', pr, fun h => (c h).ojoin_left _⟩
      | brk s' =>
        rw [hout] at p1
        obtain ⟨τ', l, t', pr, c⟩ := p1
        exact ⟨τ', l, t', pr, c.ojoin_left _⟩
      | ret v s' =>
        rw [hout] at p1
        obtain ⟨τ', l, t', pr, c⟩ := p1
        exact ⟨τ', l, t', pr, c⟩
  | ite s t ihs iht =>
    intro tr a st τ hok ht hn he
    simp only [absExec, Bool.and_eq_true] at hok ⊢
    simp only [exec]
    split
    · exact (ihs tr a { st with orc := (popN st.orc).2 } τ hok.1 ht hn he).ojoin_left _ _
    · exact (iht tr a { st with orc := (popN st.orc).2 } τ hok.2 ht hn he).ojoin_right _ _
  | loop inv s ih =>
    intro tr a st τ hok ht hn he
    simp only [absExec, Bool.and_eq_true] at hok ⊢
    simp only [exec]
    obtain ⟨⟨hok1, hok2⟩, hok3⟩ := hok
    exact iter_sound (fun st' => exec cs s st') (absExec sums rc tr s inv) inv _
      (fun st' τ' ht' hn' he' => ih tr inv st' τ' hok1 ht' hn' he') hok3 _
      { st with orc := (popN st.orc).2 } τ ht hn (he.of_le hok2)
  | block s ih =>
    intro tr a st τ hok ht hn he
    simp only [absExec] at hok ⊢
    simp only [exec]
    have p := ih tr a st τ hok ht hn he
    cases hout : exec cs s st with
    | norm s' =>
      rw [hout] at p
      obtain ⟨τ', l, t', pr, c⟩ := p
      exact ⟨τ', l, t', pr, c.ojoin_left _⟩
    | brk s' =>
      rw [hout] at p
      obtain ⟨τ', l, t', pr, c⟩ := p
      exact ⟨τ', l, t', pr, c.ojoin_right _⟩
    | exc s' =>
      rw [hout] at p
      obtain ⟨τ', l, t', pr, c⟩ := p
      exact ⟨τ', l, t', pr, c⟩
    | ret v s' =>
      rw [hout] at p
      obtain ⟨τ', l, t', pr, c⟩ := p
      exact ⟨τ', l, t', pr, c⟩
  | brk =>
    intro tr a st τ _ ht hn he
    exact ⟨τ, Typing.le_refl τ, ht, Preserves.refl hn, a, rfl, he⟩
  | «try» s t ihs iht =>
    intro tr a st τ hok ht hn he
    simp only [absExec] at hok ⊢
    simp only [exec]
    cases hr1 : (absExec sums rc true s a).exc with
    | none =>
      simp only [hr1] at hok ⊢
      have p := ihs true a st τ hok ht hn he
      cases hout : exec cs s st with
      | exc st' =>
        rw [hout] at p
        obtain ⟨τ', _, _, _, c⟩ := p
        obtain ⟨a', h', _⟩ := c rfl
        rw [hr1] at h'; cases h'
      | norm s' =>
        rw [hout] at p
        obtain ⟨τ', l, t', pr, c⟩ := p
        exact ⟨τ', l, t', pr, c⟩
      | brk s' =>
        rw [hout] at p
        obtain ⟨τ', l, t', pr, c⟩ := p
        exact ⟨τ', l, t', pr, c⟩
      | ret v s' =>
        rw [hout] at p
        obtain ⟨τ', l, t', pr, c⟩ := p
        exact ⟨τ', l, t', pr, c⟩
    | some e =>
      simp only [hr1, Bool.and_eq_true] at hok ⊢
      have p1 := ihs true a st τ hok.1 ht hn he
      cases hout : exec cs s st with
      | exc st' =>
        rw [hout] at p1
        obtain ⟨τ', l1, t1, pr1, c1⟩ := p1
        obtain ⟨a', ha', se⟩ := c1 rfl
        rw [hr1] at ha'; cases ha'
        have p2 := (iht tr e st' τ' hok.2 t1 pr1.1 se).chain l1 pr1
        obtain ⟨τ'', l2, t2, pr2, c2⟩ := p2
        refine ⟨τ'', l2, t2, pr2, ?_⟩
        simp only
        cases hout2 : exec cs t st' with
        | norm s'' => rw [hout2] at c2; exact c2.ojoin_right _
        | exc s'' => rw [hout2] at c2; exact c2
        | brk s'' => rw [hout2] at c2; exact c2.ojoin_right _
        | ret v s'' => rw [hout2] at c2; exact c2
      | norm s' =>
        rw [hout] at p1
        obtain ⟨τ', l, t', pr, c⟩ := p1
        exact ⟨τ', l, t', pr, c.ojoin_left _⟩
      | brk s' =>
        rw [hout] at p1
        obtain ⟨τ', l, t', pr, c⟩ := p1
        exact ⟨τ', l, t', pr, c.ojoin_left _⟩
      | ret v s' =>
        rw [hout] at p1
        obtain ⟨τ', l, t', pr, c⟩ := p1
        exact ⟨τ', l, t', pr, c⟩
  | ret x =>
    intro tr a st τ hok ht hn he
    exact ⟨τ, Typing.le_refl τ, ht, Preserves.refl hn, (he x).of_le hok⟩
  | raise =>
    intro tr a st τ _ ht hn he
    exact ⟨τ, Typing.le_refl τ, ht, Preserves.refl hn, fun h => ⟨a, by simp [absExec, h], he⟩⟩

end

/-! ### functions and programs -/

/-- the empty typing: nothing allocated yet -/
def Typing.empty : Typing := fun _ => none

theorem Typed.empty (n0 : Nat) (h : Heap) : Typed n0 Typing.empty h :=
  { bound := fun _ _ hl => by simp [Typing.empty] at hl
    isArr := fun _ hl => by simp [Typing.empty] at hl
    entries := fun _ _ _ hl => by simp [Typing.empty] at hl }

theorem entryEnv_sat (params : List Var) (args : List Ref) :
    SatEnv Typing.empty (entryEnv params)
      ((params.zip args).foldl (fun e pa => setPad Ref.none e pa.1 pa.2) []) := by
  suffices ∀ (a : AEnv) (env : List Ref), SatEnv Typing.empty a env →
      SatEnv Typing.empty (params.foldl (fun a p => a.set p .any) a)
        ((params.zip args).foldl (fun e pa => setPad Ref.none e pa.1 pa.2) env) by
    refine this [] [] ?_
    intro x
    simp only [AEnv.get, List.getD_nil]
    exact SatCls.nonloc _ (by simp)
  induction params generalizing args with
  | nil => intro a env h; simpa using h
  | cons p ps ih =>
    intro a env h
    cases args with
    | nil =>
      simp only [List.zip_nil_right, List.foldl_nil, List.foldl_cons]
      -- no argument left: the remaining parameters stay unbound, which `any` covers as well
      have : ∀ (ps : List Var) (a : AEnv), SatEnv Typing.empty a env →
          SatEnv Typing.empty (ps.foldl (fun a p => a.set p .any) a) env := by
        intro ps
        induction ps with
        | nil => intro a h; exact h
        | cons q qs ihq =>
          intro a h
          simp only [List.foldl_cons]
          apply ihq
          intro y
          simp only [AEnv.get, AEnv.set, getD_setPad]
          split
          · trivial
          · exact h y
      apply this ps
      intro y
      simp only [AEnv.get, AEnv.set, getD_setPad]
      split
      · trivial
      · exact h y
    | cons r rs =>
      simp only [List.zip_cons_cons, List.foldl_cons]
      exact ih rs _ _ (h.set p trivial)

/-- a caller's typing `τ` (locations `< h.size`) and a callee's typing `τc` (locations `≥ h.size`)
side by side -/
def Typing.glue (τ τc : Typing) (n : Nat) : Typing := fun l => if l < n then τ l else τc l

theorem runFn_good {sums : List Cls} {cs : CallSem} (hcs : GoodCalls sums cs) (f : Fn)
    (hf : writesOnlyFresh sums f = true) (args : List Ref) (h : Heap) (o : Oracle) (n : Nat) (τ : Typing)
    (ht : Typed n τ h) (hn : n ≤ h.size) :
    ∃ τ' : Typing, τ.le τ' ∧ Typed n τ' (runFn cs f args h o).1 ∧ Preserves h.size h (runFn cs f args h o).1 ∧
      ∀ v, (runFn cs f args h o).2.1 = .ok v → SatCls τ' f.retCls v := by
  have p := exec_sound (n0 := h.size) (rc := f.retCls) hcs f.body false (entryEnv f.params)
    ⟨(f.params.zip args).foldl (fun e pa => setPad Ref.none e pa.1 pa.2) [], h, o⟩ Typing.empty hf
    (Typed.empty _ _) (Nat.le_refl _) (entryEnv_sat f.params args)
  obtain ⟨τc, _, tc, pc, cc⟩ := p
  -- glue the two typings
  have hglue : ∀ (h' : Heap), Typed h.size τc h' → Preserves h.size h h' →
      τ.le (Typing.glue τ τc h.size) ∧ Typed n (Typing.glue τ τc h.size) h' := by
    intro h' tc pc
    have hle : τ.le (Typing.glue τ τc h.size) := by
      intro l t hl
      have := (ht.bound l t hl).2
      simp only [Typing.glue, this, if_true]
      exact hl
    have hle2 : ∀ {c : Cls} {r : Ref}, SatCls τc c r → SatCls (Typing.glue τ τc h.size) c r := by
      intro c r hs
      cases c with
      | scalar => exact hs
      | any => trivial
      | lv t =>
        intro l hl
        obtain ⟨t', h1, h2⟩ := hs l hl
        have := (tc.bound l t' h1).1
        exact ⟨t', by simp only [Typing.glue]; rw [if_neg (Nat.not_lt.mpr this)]; exact h1, h2⟩
    refine ⟨hle, ?_, ?_, ?_⟩
    · intro l t hl
      simp only [Typing.glue] at hl
      split at hl
      · have := ht.bound l t hl
        exact ⟨this.1, Nat.lt_of_lt_of_le this.2 pc.1⟩
      · have := tc.bound l t hl
        exact ⟨Nat.le_trans hn this.1, this.2⟩
    · intro l hl
      simp only [Typing.glue] at hl
      split at hl
      · rename_i hlt
        obtain ⟨d, hd⟩ := ht.isArr l hl
        exact ⟨d, by rw [pc.2 l hlt]; exact hd⟩
      · exact tc.isArr l hl
    · intro l t es hl hg e he
      simp only [Typing.glue] at hl
      split at hl
      · rename_i hlt
        rw [pc.2 l hlt] at hg
        exact (ht.entries l t es hl hg e he).mono hle
      · have := tc.entries l t es hl hg e he
        unfold EntryOK at this ⊢
        split
        · trivial
        · rename_i t' heq
          rw [heq] at this
          exact hle2 this
  have hsat : ∀ {c : Cls} {r : Ref}, SatCls τc c r → ∀ h', Typed h.size τc h' →
      SatCls (Typing.glue τ τc h.size) c r := by
    intro c r hs h' tc
    cases c with
    | scalar => exact hs
    | any => trivial
    | lv t =>
      intro l hl
      obtain ⟨t', h1, h2⟩ := hs l hl
      have := (tc.bound l t' h1).1
      exact ⟨t', by simp only [Typing.glue]; rw [if_neg (Nat.not_lt.mpr this)]; exact h1, h2⟩
  refine ⟨Typing.glue τ τc h.size, ?_⟩
  simp only [runFn]
  cases hout : exec cs f.body ⟨(f.params.zip args).foldl (fun e pa => setPad Ref.none e pa.1 pa.2) [], h, o⟩ with
  | norm st =>
    rw [hout] at tc pc
    obtain ⟨g1, g2⟩ := hglue _ tc pc
    refine ⟨g1, g2, pc, ?_⟩
    intro v hv
    cases hv
    exact SatCls.nonloc _ (by simp)
  | brk st =>
    rw [hout] at tc pc
    obtain ⟨g1, g2⟩ := hglue _ tc pc
    refine ⟨g1, g2, pc, ?_⟩
    intro v hv
    cases hv
    exact SatCls.nonloc _ (by simp)
  | exc st =>
    rw [hout] at tc pc
    obtain ⟨g1, g2⟩ := hglue _ tc pc
    refine ⟨g1, g2, pc, ?_⟩
    intro v hv
    cases hv
  | ret r st =>
    rw [hout] at tc pc cc
    obtain ⟨g1, g2⟩ := hglue _ tc pc
    refine ⟨g1, g2, pc, ?_⟩
    intro v hv
    cases hv
    exact hsat cc _ tc

/-- every function of a disciplined program is a good call, at every call depth -/
theorem sem_good (P : List Fn) (hP : disciplined P = true) (d : Nat) : GoodCalls (summaries P) (sem P d) := by
  induction d with
  | zero =>
    intro f args h o n τ ht hn
    exact ⟨τ, Typing.le_refl τ, ht, Preserves.refl (Nat.le_refl _), by intro v hv; cases hv⟩
  | succ d ih =>
    intro f args h o n τ ht hn
    simp only [sem]
    cases hf : P[f]? with
    | none => exact ⟨τ, Typing.le_refl τ, ht, Preserves.refl (Nat.le_refl _), by intro v hv; cases hv⟩
    | some fn =>
      simp only
      have hmem : fn ∈ P := List.mem_of_getElem? hf
      have hdisc : writesOnlyFresh (summaries P) fn = true := by
        have := List.all_eq_true.mp hP fn hmem
        exact this
      obtain ⟨τ', l1, t1, p1, s1⟩ := runFn_good ih fn hdisc args h o n τ ht hn
      refine ⟨τ', l1, t1, p1, ?_⟩
      intro v hv
      have : (summaries P).getD f .any = fn.retCls := by
        simp only [summaries, List.getD_eq_getElem?_getD, List.getElem?_map, hf, Option.map_some, Option.getD_some]
      rw [this]
      exact s1 v hv

end Bermuda.HeapIR
