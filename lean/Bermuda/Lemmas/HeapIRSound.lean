/-
Lemmas for the HeapIR discipline (property C03), part 2: soundness of the abstract interpretation.
`exec_sound`: from a well-typed heap and an environment described by the abstract environment, a
statement accepted by the discipline ends in a well-typed heap in which every location that existed
when the FUNCTION was entered (`< n0`) is unchanged, and the environment at the normal / exceptional /
`brk` exit is described by the corresponding abstract exit.
-/
import Bermuda.Lemmas.HeapIR
namespace Bermuda.HeapIR
open Bermuda.Heap

/-- what is guaranteed about the way a statement ends -/
def Post (n0 : Nat) (W : Loc → Prop) (rc : Cls) (tr : Bool) (τ : Typing) (h0 : Heap) (res : ARes) (out : Out) : Prop :=
  ∃ τ' : Typing, τ.le τ' ∧ Typed n0 W τ' out.heap ∧ PreservesW n0 W h0 out.heap ∧
    match out with
    | .norm s => Covers τ' res.norm s.env
    | .exc s => tr = true → Covers τ' res.exc s.env
    | .brk s => Covers τ' res.brk s.env
    | .ret r _ => SatCls τ' rc r

/-- the locations a call may write although they exist: the objects handed to its unprotected parameters -/
def callW (wp : List Nat) (args : List Ref) : Loc → Prop :=
  fun l => ∃ j, j ∈ wp ∧ args[j]? = some (.loc l)

/-- the calls respect the frame of everything that exists when they start EXCEPT the objects handed to
unprotected parameters, keep the caller's typing intact and return a reference of the declared class.
(The caller hands to unprotected parameters only objects without constraints on their entries: the objects of
its own unprotected parameters, level `ext`, or new objects of level `sh 0` / `num`.) -/
def GoodCalls (sums : List Summary) (cs : CallSem) : Prop :=
  ∀ (f : Nat) (args : List Ref) (h : Heap) (o : Oracle) (n : Nat) (W : Loc → Prop) (τ : Typing),
    Typed n W τ h → n ≤ h.size →
    (∀ l, callW (sums.getD f (.any, [])).2 args l → ∃ t, τ l = some t ∧ t.elem = none) →
    ∃ τ' : Typing, τ.le τ' ∧ Typed n W τ' (cs f args h o).1 ∧
      PreservesW h.size (callW (sums.getD f (.any, [])).2 args) h (cs f args h o).1 ∧
      ∀ v, (cs f args h o).2.1 = .ok v → SatCls τ' (sums.getD f (.any, [])).1 v

section
variable {n0 : Nat} {W : Loc → Prop} {rc : Cls} {tr : Bool}

theorem Post.chain {τ τ' : Typing} {h0 h1 : Heap} {res : ARes} {out : Out} (hle : τ.le τ')
    (hp : PreservesW n0 W h0 h1) (h2 : Post n0 W rc tr τ' h1 res out) : Post n0 W rc tr τ h0 res out := by
  obtain ⟨τ'', l2, t2, p2, c2⟩ := h2
  exact ⟨τ'', Typing.le_trans hle l2, t2, hp.trans p2, c2⟩

/-- exits of `r` are among the exits of `r'` -/
def ARes.sub (r r' : ARes) : Prop :=
  ∀ (τ : Typing) (env : List Ref), (Covers τ r.norm env → Covers τ r'.norm env) ∧
    (Covers τ r.exc env → Covers τ r'.exc env) ∧ (Covers τ r.brk env → Covers τ r'.brk env)

theorem Post.weaken {τ : Typing} {h0 : Heap} {r r' : ARes} {out : Out} (hs : ARes.sub r r')
    (h : Post n0 W rc tr τ h0 r out) : Post n0 W rc tr τ h0 r' out := by
  obtain ⟨τ', l, t, p, c⟩ := h
  refine ⟨τ', l, t, p, ?_⟩
  cases out with
  | norm s => exact (hs τ' s.env).1 c
  | exc s => exact fun h => (hs τ' s.env).2.1 (c h)
  | brk s => exact (hs τ' s.env).2.2 c
  | ret r s => exact c

theorem post_norm {τ τ' : Typing} {h0 : Heap} {ok : Bool} {a a' : AEnv} {s : St} (hle : τ.le τ')
    (ht : Typed n0 W τ' s.heap) (hp : PreservesW n0 W h0 s.heap) (he : SatEnv τ' a' s.env) :
    Post n0 W rc tr τ h0 (prim tr ok a a') (.norm s) :=
  ⟨τ', hle, ht, hp, a', rfl, he⟩

theorem post_exc {τ τ' : Typing} {h0 : Heap} {ok : Bool} {a a' : AEnv} {s : St} (hle : τ.le τ')
    (ht : Typed n0 W τ' s.heap) (hp : PreservesW n0 W h0 s.heap) (he : SatEnv τ' a s.env) :
    Post n0 W rc tr τ h0 (prim tr ok a a') (.exc s) :=
  ⟨τ', hle, ht, hp, fun htr => ⟨a, by simp [prim, htr], he⟩⟩

theorem SatEnv.update_same {τ : Typing} {a : AEnv} {env : List Ref} (h : SatEnv τ a env) (x : Var) {r : Ref}
    (hc : SatCls τ (a.get x) r) : SatEnv τ a (setPad .none env x r) := by
  intro y
  rw [getD_setPad]
  split
  · subst_vars; exact hc
  · exact h y

/-! ### writes -/

/-- every in-place update has this shape: a dict-like object gets entries that respect its level, an
array gets new numbers, anything else is not writable -/
theorem write_sound {τ : Typing} {h : Heap} (ht : Typed n0 W τ h) (hn : n0 ≤ h.size) {l : Loc} {t' t : Lvl}
    (hl : τ l = some t') (hsub : t'.sub t = true)
    (newEs : List (String × Ref) → List (String × Ref)) (data : List Rat)
    (hnew : ∀ es, h.get l = some (.dict es) → ∀ e ∈ newEs es, EntryOK τ t e.2) {h' : Heap}
    (hw : (match h.get l with
      | some (.dict es) => some (h.set l (.dict (newEs es)))
      | some (.arr _) => some (h.set l (.arr data))
      | _ => none) = some h') : Typed n0 W τ h' ∧ PreservesW n0 W h h' := by
  have hb := ht.bound l t' hl
  have hfr : n0 ≤ l ∨ W l := by
    by_cases hx : t' = .ext
    · subst hx; exact Or.inr (ht.extW l hl)
    · exact Or.inl (hb.2 hx)
  split at hw
  · rename_i es hg
    cases Option.some.inj hw
    have htt : t' = t := by
      rw [Lvl.sub_iff] at hsub
      rcases hsub with h1 | ⟨h1, _⟩
      · exact h1
      · subst h1
        obtain ⟨d, hd⟩ := ht.isArr l hl
        rw [hd] at hg; cases hg
    subst htt
    refine ⟨ht.set hl _ ?_ ?_, preservesW_set hn hfr _ (by intro d hd; rw [hd] at hg; cases hg)⟩
    · intro hnum
      subst hnum
      obtain ⟨d, hd⟩ := ht.isArr l hl
      rw [hd] at hg; cases hg
    · intro es' heq e he
      cases heq
      exact hnew es hg e he
  · cases Option.some.inj hw
    refine ⟨ht.set hl _ (fun _ => ⟨data, rfl⟩) ?_, preservesW_set hn hfr _ (fun _ _ => ⟨data, rfl⟩)⟩
    intro es' heq
    cases heq
  · cases hw

theorem storeRef_eq (h : Heap) (l : Loc) (key : String) (v : Ref) (data : List Rat) :
    storeRef h (.loc l) key v data = (match h.get l with
      | some (.dict es) => some (h.set l (.dict ((fun es => dictSet es key v) es)))
      | some (.arr _) => some (h.set l (.arr data))
      | _ => none) := by
  simp only [storeRef]
  split <;> simp_all

theorem mergeRef_eq (h : Heap) (l : Loc) (v : Ref) (data : List Rat) :
    mergeRef h (.loc l) v data = (match h.get l with
      | some (.dict es) => some (h.set l (.dict ((fun es => dictUnion es (contents h v)) es)))
      | some (.arr _) => some (h.set l (.arr data))
      | _ => none) := by
  simp only [mergeRef]
  split <;> simp_all

theorem shrinkRef_eq (h : Heap) (l : Loc) (n : Nat) (data : List Rat) :
    shrinkRef h (.loc l) n data = (match h.get l with
      | some (.dict es) => some (h.set l (.dict ((fun es => shrinkEntries n es) es)))
      | some (.arr _) => some (h.set l (.arr data))
      | _ => none) := by
  simp only [shrinkRef]
  split <;> simp_all

theorem entryOK_of_storable {τ : Typing} {t : Lvl} {c : Cls} {r : Ref} (hs : storable t c = true)
    (hr : SatCls τ c r) : EntryOK τ t r := by
  unfold EntryOK
  unfold storable at hs
  split
  · trivial
  · rename_i t' he
    rw [he] at hs
    exact hr.of_le hs

theorem entryOK_of_mergeable {τ : Typing} {h : Heap} (ht : Typed n0 W τ h) {t : Lvl} {c : Cls} {r : Ref}
    (hm : mergeable t c = true) (hr : SatCls τ c r) : ∀ e ∈ contents h r, EntryOK τ t e.2 := by
  unfold mergeable at hm
  cases he : t.elem with
  | none => intro e _; unfold EntryOK; rw [he]; trivial
  | some t' =>
    rw [he] at hm
    exact contents_entryOK ht (hr.of_le hm) (by rw [he]; simp)

/-- a write through a reference whose class is not `any` -/
theorem target_typed {τ : Typing} {c : Cls} {l : Loc} (hr : SatCls τ c (.loc l)) (hc : c ≠ .any) :
    ∃ t t', c = .lv t ∧ τ l = some t' ∧ t'.sub t = true := by
  cases c with
  | scalar => exact absurd rfl (hr l)
  | any => exact absurd rfl hc
  | lv t =>
    obtain ⟨t', h1, h2⟩ := hr l rfl
    exact ⟨t, t', rfl, h1, h2⟩

theorem storeRef_sound {τ : Typing} {h : Heap} (ht : Typed n0 W τ h) (hn : n0 ≤ h.size) {cx cv : Cls} {rx rv : Ref}
    (hx : SatCls τ cx rx) (hv : SatCls τ cv rv)
    (hok : storeOk cx cv = true)
    {key : String} {data : List Rat} {h' : Heap} (hw : storeRef h rx key rv data = some h') :
    Typed n0 W τ h' ∧ PreservesW n0 W h h' := by
  cases rx with
  | none => simp [storeRef] at hw
  | scalar q => simp [storeRef] at hw
  | loc l =>
    obtain ⟨t, t', rfl, h1, h2⟩ := target_typed hx (by intro hc; subst hc; first | simp [storeOk] at hok | simp [mergeOk] at hok)
    rw [storeRef_eq] at hw
    refine write_sound ht hn h1 h2 _ data ?_ hw
    intro es hg e he
    rcases mem_dictSet he with h3 | h3
    · have htt : t' = t := by
        rw [Lvl.sub_iff] at h2
        rcases h2 with h4 | ⟨h4, _⟩
        · exact h4
        · subst h4
          obtain ⟨d, hd⟩ := ht.isArr l h1
          rw [hd] at hg; cases hg
      subst htt
      exact ht.entries l t' es h1 hg e h3
    · rw [h3]; exact entryOK_of_storable hok hv

theorem mergeRef_sound {τ : Typing} {h : Heap} (ht : Typed n0 W τ h) (hn : n0 ≤ h.size) {cx cv : Cls} {rx rv : Ref}
    (hx : SatCls τ cx rx) (hv : SatCls τ cv rv)
    (hok : mergeOk cx cv = true)
    {data : List Rat} {h' : Heap} (hw : mergeRef h rx rv data = some h') :
    Typed n0 W τ h' ∧ PreservesW n0 W h h' := by
  cases rx with
  | none => simp [mergeRef] at hw
  | scalar q => simp [mergeRef] at hw
  | loc l =>
    obtain ⟨t, t', rfl, h1, h2⟩ := target_typed hx (by intro hc; subst hc; first | simp [storeOk] at hok | simp [mergeOk] at hok)
    rw [mergeRef_eq] at hw
    refine write_sound ht hn h1 h2 _ data ?_ hw
    intro es hg e he
    rcases mem_dictUnion he with h3 | ⟨e', he', h3⟩
    · have htt : t' = t := by
        rw [Lvl.sub_iff] at h2
        rcases h2 with h4 | ⟨h4, _⟩
        · exact h4
        · subst h4
          obtain ⟨d, hd⟩ := ht.isArr l h1
          rw [hd] at hg; cases hg
      subst htt
      exact ht.entries l t' es h1 hg e h3
    · rw [h3]; exact entryOK_of_mergeable ht hok hv e' he'

theorem shrinkRef_sound {τ : Typing} {h : Heap} (ht : Typed n0 W τ h) (hn : n0 ≤ h.size) {cx : Cls} {rx : Ref}
    (hx : SatCls τ cx rx) (hok : cx ≠ .any)
    {n : Nat} {data : List Rat} {h' : Heap} (hw : shrinkRef h rx n data = some h') :
    Typed n0 W τ h' ∧ PreservesW n0 W h h' := by
  cases rx with
  | none => simp [shrinkRef] at hw
  | scalar q => simp [shrinkRef] at hw
  | loc l =>
    obtain ⟨t, t', rfl, h1, h2⟩ := target_typed hx hok
    rw [shrinkRef_eq] at hw
    refine write_sound ht hn h1 h2 _ data ?_ hw
    intro es hg e he
    have htt : t' = t := by
      rw [Lvl.sub_iff] at h2
      rcases h2 with h4 | ⟨h4, _⟩
      · exact h4
      · subst h4
        obtain ⟨d, hd⟩ := ht.isArr l h1
        rw [hd] at hg; cases hg
    subst htt
    exact ht.entries l t' es h1 hg e (mem_shrinkEntries he)

/-! ### the primitive statements -/

variable {τ : Typing} {st : St} {a : AEnv}

theorem execStore_sound (ht : Typed n0 W τ st.heap) (hn : n0 ≤ st.heap.size) (he : SatEnv τ a st.env)
    (x : Var) (k : Key) (v : Var) {ok : Bool}
    (hok : storeOk (a.get x) (a.get v) = true) :
    Post n0 W rc tr τ st.heap (prim tr ok a a) (execStore st x k v) := by
  simp only [execStore]
  split
  · rename_i h' hw
    obtain ⟨t1, p1⟩ := storeRef_sound ht hn (he x) (he v) hok hw
    exact post_norm (Typing.le_refl τ) t1 p1 he
  · exact post_exc (Typing.le_refl τ) ht (PreservesW.refl hn) he

theorem execMerge_sound (ht : Typed n0 W τ st.heap) (hn : n0 ≤ st.heap.size) (he : SatEnv τ a st.env)
    (x y : Var) {ok : Bool}
    (hok : mergeOk (a.get x) (a.get y) = true) :
    Post n0 W rc tr τ st.heap (prim tr ok a a) (execMerge st x y) := by
  simp only [execMerge]
  split
  · rename_i h' hw
    obtain ⟨t1, p1⟩ := mergeRef_sound ht hn (he x) (he y) hok hw
    exact post_norm (Typing.le_refl τ) t1 p1 he
  · exact post_exc (Typing.le_refl τ) ht (PreservesW.refl hn) he

theorem execShrink_sound (ht : Typed n0 W τ st.heap) (hn : n0 ≤ st.heap.size) (he : SatEnv τ a st.env)
    (x : Var) {ok : Bool} (hok : (!(a.get x).isAny) = true) :
    Post n0 W rc tr τ st.heap (prim tr ok a a) (execShrink st x) := by
  simp only [execShrink]
  split
  · rename_i h' hw
    obtain ⟨t1, p1⟩ := shrinkRef_sound ht hn (he x) (by intro hc; rw [hc] at hok; simp [Cls.isAny] at hok) hw
    exact post_norm (Typing.le_refl τ) t1 p1 he
  · exact post_exc (Typing.le_refl τ) ht (PreservesW.refl hn) he

theorem execUnknown_sound (ht : Typed n0 W τ st.heap) (hn : n0 ≤ st.heap.size) (he : SatEnv τ a st.env)
    (args : List Var) {ok : Bool} (hok : (args.all fun y => (a.get y).isScalar) = true) :
    Post n0 W rc tr τ st.heap (prim tr ok a a) (execUnknown st args) := by
  simp only [execUnknown]
  split
  · rename_i y hy
    have hmem : y ∈ args := List.mem_of_getElem? hy
    have hs : a.get y = .scalar := by
      have := List.all_eq_true.mp hok y hmem
      cases hc : a.get y <;> simp [hc, Cls.isScalar] at this ⊢
    split
    · rename_i h' hw
      obtain ⟨t1, p1⟩ := shrinkRef_sound ht hn (he y) (by rw [hs]; simp) hw
      exact post_norm (Typing.le_refl τ) t1 p1 he
    · exact post_norm (Typing.le_refl τ) ht (PreservesW.refl hn) he
  · exact post_norm (Typing.le_refl τ) ht (PreservesW.refl hn) he

theorem loadRef_sound (ht : Typed n0 W τ st.heap) {c : Cls} {ry : Ref} (hy : SatCls τ c ry) {k : Key} {n : Nat}
    {r : Ref} (hl : loadRef st.heap ry k n = some r) : SatCls τ (loadCls c) r := by
  cases ry with
  | none => simp only [loadRef] at hl; cases Option.some.inj hl; exact SatCls.nonloc _ (by simp)
  | scalar q => simp only [loadRef] at hl; cases Option.some.inj hl; exact SatCls.nonloc _ (by simp)
  | loc l =>
    cases c with
    | scalar => exact absurd rfl (hy l)
    | any => trivial
    | lv t =>
      obtain ⟨t', h1, h2⟩ := hy l rfl
      simp only [loadRef] at hl
      split at hl
      · rename_i es hg
        have hmem : ∃ e ∈ es, e.2 = r := by
          split at hl
          · exact mem_of_dictGet hl
          · cases hgn : es[n]? with
            | none => simp [hgn] at hl
            | some e =>
              simp only [hgn, Option.map_some, Option.some.injEq] at hl
              exact ⟨e, List.mem_of_getElem? hgn, hl⟩
        obtain ⟨e, he, rfl⟩ := hmem
        have hnn : t' ≠ .num := by
          intro hc; subst hc
          obtain ⟨d, hd⟩ := ht.isArr l h1
          rw [hd] at hg; cases hg
        have htt : t' = t := by
          rw [Lvl.sub_iff] at h2
          rcases h2 with h4 | ⟨h4, _⟩
          · exact h4
          · exact absurd h4 hnn
        subst htt
        have := ht.entries l t' es h1 hg e he
        unfold EntryOK at this
        cases t' with
        | num => exact absurd rfl hnn
        | deep => simpa [loadCls, Lvl.elem] using this
        | ext => simp [loadCls, Lvl.elem, SatCls]
        | nums => simpa [loadCls, Lvl.elem] using this
        | sh k =>
          cases k with
          | zero => simp [loadCls, Lvl.elem, SatCls]
          | succ k => simpa [loadCls, Lvl.elem] using this
      · cases Option.some.inj hl; exact SatCls.nonloc _ (by simp)
      · cases hl

theorem execLoad_sound (ht : Typed n0 W τ st.heap) (hn : n0 ≤ st.heap.size) (he : SatEnv τ a st.env)
    (x y : Var) (k : Key) :
    Post n0 W rc tr τ st.heap (prim tr true a (a.set x (loadCls (a.get y)))) (execLoad st x y k) := by
  simp only [execLoad]
  split
  · rename_i r hl
    exact post_norm (Typing.le_refl τ) ht (PreservesW.refl hn)
      (he.set x (loadRef_sound (st := { st with orc := (popN st.orc).2 }) ht (he y) hl))
  · exact post_exc (Typing.le_refl τ) ht (PreservesW.refl hn) he

/-- allocation + binding -/
theorem alloc_bind_sound (ht : Typed n0 W τ st.heap) (hn : n0 ≤ st.heap.size) (he : SatEnv τ a st.env)
    (x : Var) (t : Lvl) (o : Obj) (orc : Oracle) {ok : Bool} (hte : t ≠ .ext)
    (harr : t = .num → ∃ d, o = .arr d)
    (hent : ∀ es, o = .dict es → ∀ e ∈ es, EntryOK τ t e.2) :
    Post n0 W rc tr τ st.heap (prim tr ok a (a.set x (.lv t)))
      (.norm ({ st with heap := (st.heap.alloc o).1, orc := orc }.bind x (.loc (st.heap.alloc o).2))) := by
  have hle := Typing.le_add ht t
  refine post_norm hle (ht.alloc hn t o hte harr hent) (preservesW_alloc hn o) ?_
  refine (he.mono hle).set x ?_
  intro l hl
  cases hl
  exact ⟨t, by simp [Typing.add, loc_alloc], Lvl.sub_refl t⟩

theorem mem_foldl_union {h : Heap} {refs : List Ref} {init : List (String × Ref)} {e : String × Ref}
    (he : e ∈ refs.foldl (fun acc r => dictUnion acc (contents h r)) init) :
    e ∈ init ∨ ∃ r ∈ refs, ∃ e' ∈ contents h r, e.2 = e'.2 := by
  induction refs generalizing init with
  | nil => left; simpa using he
  | cons r refs ih =>
    simp only [List.foldl_cons] at he
    rcases ih he with h1 | ⟨r', hr', e', he', h2⟩
    · rcases mem_dictUnion h1 with h3 | ⟨e', he', h3⟩
      · left; exact h3
      · right; exact ⟨r, List.mem_cons_self .., e', he', h3⟩
    · right; exact ⟨r', List.mem_cons_of_mem _ hr', e', he', h2⟩

/-- `copy.deepcopy`: everything it builds is new and of level `deep`; nothing that existed is touched -/
theorem deepCopy_sound (fuel : Nat) : ∀ {τ : Typing} {h : Heap} (_ : Typed n0 W τ h) (_ : n0 ≤ h.size) (r : Ref),
    ∃ τ' : Typing, τ.le τ' ∧ Typed n0 W τ' (deepCopy fuel h r).1 ∧ Preserves h.size h (deepCopy fuel h r).1 ∧
      SatCls τ' (.lv .deep) (deepCopy fuel h r).2 := by
  induction fuel with
  | zero =>
    intro τ h ht hn r
    exact ⟨τ, Typing.le_refl τ, ht, Preserves.refl (Nat.le_refl _), SatCls.nonloc _ (by simp [deepCopy])⟩
  | succ n ih =>
    intro τ h ht hn r
    cases r with
    | none => exact ⟨τ, Typing.le_refl τ, ht, Preserves.refl (Nat.le_refl _), SatCls.nonloc _ (by simp [deepCopy])⟩
    | scalar q => exact ⟨τ, Typing.le_refl τ, ht, Preserves.refl (Nat.le_refl _), SatCls.nonloc _ (by simp [deepCopy])⟩
    | loc l =>
      simp only [deepCopy]
      split
      · rename_i es hg
        -- the fold over the entries
        have key : ∀ (es : List (String × Ref)) (acc : Heap × List (String × Ref)) (τa : Typing),
            τ.le τa → Typed n0 W τa acc.1 → Preserves h.size h acc.1 →
            (∀ e ∈ acc.2, SatCls τa (.lv .deep) e.2) →
            ∃ τ' : Typing, τ.le τ' ∧
              Typed n0 W τ' (es.foldl (fun (acc : Heap × List (String × Ref)) e =>
                ((deepCopy n acc.1 e.2).1, acc.2 ++ [(e.1, (deepCopy n acc.1 e.2).2)])) acc).1 ∧
              Preserves h.size h (es.foldl (fun (acc : Heap × List (String × Ref)) e =>
                ((deepCopy n acc.1 e.2).1, acc.2 ++ [(e.1, (deepCopy n acc.1 e.2).2)])) acc).1 ∧
              ∀ e ∈ (es.foldl (fun (acc : Heap × List (String × Ref)) e =>
                ((deepCopy n acc.1 e.2).1, acc.2 ++ [(e.1, (deepCopy n acc.1 e.2).2)])) acc).2,
                SatCls τ' (.lv .deep) e.2 := by
          intro es
          induction es with
          | nil => intro acc τa hle hta hpa hea; exact ⟨τa, hle, hta, hpa, hea⟩
          | cons e es ihes =>
            intro acc τa hle hta hpa hea
            simp only [List.foldl_cons]
            obtain ⟨τb, lb, tb, pb, sb⟩ := ih hta (Nat.le_trans hn hpa.1) e.2
            refine ihes _ τb (Typing.le_trans hle lb) tb (hpa.trans (pb.mono hpa.1)) ?_
            intro e' he'
            simp only [List.mem_append, List.mem_singleton] at he'
            rcases he' with h1 | rfl
            · exact (hea e' h1).mono lb
            · exact sb
        obtain ⟨τ', l1, t1, p1, s1⟩ := key es (h, []) τ (Typing.le_refl τ) ht (Preserves.refl (Nat.le_refl _))
          (by intro e he; cases he)
        generalize (es.foldl (fun (acc : Heap × List (String × Ref)) e =>
                ((deepCopy n acc.1 e.2).1, acc.2 ++ [(e.1, (deepCopy n acc.1 e.2).2)])) (h, [])) = fin at t1 p1 s1 ⊢
        obtain ⟨h1, es'⟩ := fin
        simp only at t1 p1 s1 ⊢
        have hn1 : n0 ≤ h1.size := Nat.le_trans hn p1.1
        have hle := Typing.le_add t1 .deep
        refine ⟨_, Typing.le_trans l1 hle, t1.alloc hn1 .deep (.dict es') (by intro hc; cases hc) (by intro hc; cases hc) ?_,
          p1.trans (preserves_alloc p1.1 _), ?_⟩
        · intro es'' heq e he
          cases heq
          exact s1 e he
        · intro l' hl'
          cases hl'
          exact ⟨.deep, by simp [Typing.add, loc_alloc], Lvl.sub_refl _⟩
      · rename_i o hnd hg
        have hle := Typing.le_add ht .deep
        refine ⟨_, hle, ht.alloc hn .deep o (by intro hc; cases hc) (by intro hc; cases hc) ?_, preserves_alloc (Nat.le_refl _) _, ?_⟩
        · intro es heq
          exact absurd heq (hnd es)
        · intro l' hl'
          cases hl'
          exact ⟨.deep, by simp [Typing.add, loc_alloc], Lvl.sub_refl _⟩
      · exact ⟨τ, Typing.le_refl τ, ht, Preserves.refl (Nat.le_refl _), SatCls.nonloc _ (by simp)⟩

theorem allocOk_not_ext {a : AEnv} {t : Lvl} {al : Alloc} (hok : allocOk a t al = true) : t ≠ .ext := by
  intro hc
  subst hc
  cases al <;> simp [allocOk, Lvl.isExt, Lvl.isDeep] at hok

theorem allocOk_not_num {a : AEnv} {t : Lvl} {al : Alloc} (hok : allocOk a t al = true)
    (hal : al ≠ .arr) : t ≠ .num := by
  intro hc
  subst hc
  cases al with
  | arr => exact absurd rfl hal
  | dict => simp [allocOk, Lvl.isNum] at hok
  | lit es => simp [allocOk, Lvl.isNum] at hok
  | union ys => simp [allocOk, Lvl.isNum] at hok
  | deep y => simp [allocOk, Lvl.isDeep] at hok

theorem execAlloc_sound (ht : Typed n0 W τ st.heap) (hn : n0 ≤ st.heap.size) (he : SatEnv τ a st.env)
    (x : Var) (t : Lvl) (al : Alloc) {ok : Bool} (hok : allocOk a t al = true) :
    Post n0 W rc tr τ st.heap (prim tr ok a (a.set x (.lv t))) (execAlloc st x al) := by
  have hte := allocOk_not_ext hok
  cases al with
  | dict =>
    simp only [execAlloc]
    exact alloc_bind_sound ht hn he x t _ st.orc hte
      (fun hc => absurd hc (allocOk_not_num hok (fun h => by cases h)))
      (by intro es heq e he; cases heq; cases he)
  | arr =>
    simp only [execAlloc]
    exact alloc_bind_sound ht hn he x t _ _ hte (fun _ => ⟨_, rfl⟩) (by intro es heq; cases heq)
  | lit es =>
    simp only [execAlloc]
    have hnn := allocOk_not_num hok (fun h => by cases h)
    simp only [allocOk, Bool.and_eq_true, List.all_eq_true] at hok
    refine alloc_bind_sound ht hn he x t _ st.orc hte (fun hc => absurd hc hnn) ?_
    intro es' heq e hmem
    cases heq
    simp only [List.mem_map] at hmem
    obtain ⟨p, hp, rfl⟩ := hmem
    exact entryOK_of_storable (hok.2 p hp) (he p.2)
  | union ys =>
    simp only [execAlloc]
    have hnn := allocOk_not_num hok (fun h => by cases h)
    simp only [allocOk, Bool.and_eq_true, List.all_eq_true] at hok
    have hmerged : ∀ e ∈ (ys.map st.get).foldl (fun acc r => dictUnion acc (contents st.heap r)) [],
        EntryOK τ t e.2 := by
      intro e hmem
      rcases mem_foldl_union hmem with h1 | ⟨r, hr, e', he', h2⟩
      · cases h1
      · simp only [List.mem_map] at hr
        obtain ⟨y, hy, rfl⟩ := hr
        rw [h2]
        exact entryOK_of_mergeable ht (hok.2 y hy) (he y) e' he'
    refine alloc_bind_sound ht hn he x t _ st.orc hte (fun hc => absurd hc hnn) ?_
    intro es' heq e hmem
    unfold unionObj at heq
    split at heq
    · split at heq
      · cases heq
      · cases heq; exact hmerged e hmem
    · cases heq; exact hmerged e hmem
  | deep y =>
    simp only [execAlloc]
    simp only [allocOk] at hok
    have hd : t = .deep := by cases t <;> simp [Lvl.isDeep] at hok ⊢
    subst hd
    obtain ⟨τ', l1, t1, p1, s1⟩ := deepCopy_sound (n0 := n0) (W := W) (st.heap.size + 1) ht hn (st.get y)
    exact post_norm l1 t1 (PreservesW.of_preserves (p1.mono hn)) ((he.mono l1).set x s1)

theorem execArith_sound (ht : Typed n0 W τ st.heap) (hn : n0 ≤ st.heap.size) (he : SatEnv τ a st.env) (x : Var) :
    Post n0 W rc tr τ st.heap (prim tr true a (a.set x (.lv .num))) (execArith st x) := by
  simp only [execArith]
  split
  · exact post_norm (Typing.le_refl τ) ht (PreservesW.refl hn) (he.set x (SatCls.nonloc _ (by simp)))
  · exact alloc_bind_sound (st := { st with orc := (popD (popN st.orc).2).2 }) ht hn he x .num _ _
      (by intro hc; cases hc) (fun _ => ⟨_, rfl⟩) (by intro es heq; cases heq)

theorem execAug_scalar (ht : Typed n0 W τ st.heap) (hn : n0 ≤ st.heap.size) (he : SatEnv τ a st.env)
    (x v : Var) (hx : a.get x = .scalar) :
    Post n0 W rc tr τ st.heap (prim tr true a (a.set x (.lv .num))) (execAug st x v) := by
  have hnl : ∀ l, st.get x ≠ .loc l := by
    have := he x
    rw [hx] at this
    exact this
  simp only [execAug]
  split
  · rename_i l hl
    exact absurd hl (hnl l)
  · split
    · exact post_norm (Typing.le_refl τ) ht (PreservesW.refl hn) (he.set x (SatCls.nonloc _ (by simp)))
    · exact alloc_bind_sound (st := { st with orc := (popD (popN st.orc).2).2 }) ht hn he x .num _ _
        (by intro hc; cases hc) (fun _ => ⟨_, rfl⟩) (by intro es heq; cases heq)

theorem execAug_lv (ht : Typed n0 W τ st.heap) (hn : n0 ≤ st.heap.size) (he : SatEnv τ a st.env)
    (x v : Var) {t : Lvl} (hx : a.get x = .lv t) {ok : Bool} (hok : mergeable t (a.get v) = true)
    (hte : t ≠ .ext) :
    Post n0 W rc tr τ st.heap (prim tr ok a a) (execAug st x v) := by
  simp only [execAug]
  split
  · rename_i l hl
    split
    · rename_i h' hw
      have hxs := he x
      rw [hx] at hxs
      obtain ⟨t1, p1⟩ := mergeRef_sound (cx := .lv t) ht hn hxs (he v) hok hw
      exact post_norm (Typing.le_refl τ) t1 p1 he
    · exact post_exc (Typing.le_refl τ) ht (PreservesW.refl hn) he
  · split
    · exact post_norm (Typing.le_refl τ) ht (PreservesW.refl hn) (he.update_same x (SatCls.nonloc _ (by simp)))
    · have hle := Typing.le_add ht t
      refine post_norm hle (ht.alloc hn t (.arr _) hte (fun _ => ⟨_, rfl⟩) (by intro es heq; cases heq))
        (preservesW_alloc hn _) ?_
      refine (he.mono hle).update_same x ?_
      rw [hx]
      intro l hl
      cases hl
      exact ⟨t, by simp [Typing.add, loc_alloc], Lvl.sub_refl t⟩

/-- the objects handed to unprotected parameters are typed, at a level without constraints on the entries -/
theorem callOk_writable {wp : List Nat} {args : List Var} (he : SatEnv τ a st.env) (hok : callOk a wp args = true) :
    ∀ l, callW wp (args.map st.get) l → ∃ t, τ l = some t ∧ t.elem = none := by
  intro l ⟨j, hj, hget⟩
  have := List.all_eq_true.mp hok j hj
  simp only [List.getElem?_map] at hget
  cases hy : args[j]? with
  | none => simp [hy] at hget
  | some y =>
    simp only [hy, Option.map_some, Option.some.injEq] at hget
    simp only [hy] at this
    have hs := he y
    have hgy : st.env.getD y .none = .loc l := hget
    rw [hgy] at hs
    cases hc : a.get y with
    | scalar => rw [hc] at hs; exact absurd rfl (hs l)
    | any => simp [hc, Cls.isWritableArg] at this
    | lv t =>
      rw [hc] at hs this
      obtain ⟨t', h1, h2⟩ := hs l rfl
      have hte : t.elem = none := by simpa [Cls.isWritableArg] using this
      rw [Lvl.sub_iff] at h2
      rcases h2 with rfl | ⟨rfl, _⟩
      · exact ⟨t', h1, hte⟩
      · exact ⟨.num, h1, rfl⟩

theorem execCall_sound {sums : List Summary} {cs : CallSem} (hcs : GoodCalls sums cs)
    (ht : Typed n0 W τ st.heap) (hn : n0 ≤ st.heap.size) (he : SatEnv τ a st.env) (x : Var) (f : Nat) (args : List Var)
    {ok : Bool} (hok : callOk a (sums.getD f (.any, [])).2 args = true) :
    Post n0 W rc tr τ st.heap (prim tr ok a (a.set x (sums.getD f (.any, [])).1)) (execCall cs st x f args) := by
  have hext := callOk_writable (st := st) he hok
  obtain ⟨τ', l1, t1, p1, s1⟩ := hcs f (args.map st.get) st.heap st.orc n0 W τ ht hn hext
  have p1' : PreservesW n0 W st.heap (cs f (args.map st.get) st.heap st.orc).1 := by
    refine p1.mono hn ?_
    intro l hl hw
    obtain ⟨t, h1, _⟩ := hext l hw
    by_cases hx : t = .ext
    · subst hx; exact ht.extW l h1
    · exact absurd hl (Nat.not_lt.mpr ((ht.bound l t h1).2 hx))
  simp only [execCall]
  generalize cs f (args.map st.get) st.heap st.orc = res at t1 p1' s1 ⊢
  obtain ⟨h', r, o⟩ := res
  cases r with
  | ok v => exact post_norm l1 t1 p1' ((he.mono l1).set x (s1 v rfl))
  | error e => exact post_exc l1 t1 p1' (he.mono l1)

/-! ### control structure -/

theorem Post.ojoin_left {h0 : Heap} {r1 : ARes} (r2 : ARes) (ok : Bool) {out : Out}
    (h : Post n0 W rc tr τ h0 r1 out) :
    Post n0 W rc tr τ h0 ⟨ok, ojoin r1.norm r2.norm, ojoin r1.exc r2.exc, ojoin r1.brk r2.brk⟩ out := by
  obtain ⟨τ', l, t, p, c⟩ := h
  refine ⟨τ', l, t, p, ?_⟩
  cases out with
  | norm s => exact c.ojoin_left _
  | exc s => exact fun h => (c h).ojoin_left _
  | brk s => exact c.ojoin_left _
  | ret r s => exact c

theorem Post.ojoin_right {h0 : Heap} (r1 : ARes) {r2 : ARes} (ok : Bool) {out : Out}
    (h : Post n0 W rc tr τ h0 r2 out) :
    Post n0 W rc tr τ h0 ⟨ok, ojoin r1.norm r2.norm, ojoin r1.exc r2.exc, ojoin r1.brk r2.brk⟩ out := by
  obtain ⟨τ', l, t, p, c⟩ := h
  refine ⟨τ', l, t, p, ?_⟩
  cases out with
  | norm s => exact c.ojoin_right _
  | exc s => exact fun h => (c h).ojoin_right _
  | brk s => exact c.ojoin_right _
  | ret r s => exact c

/-- a loop whose body preserves the invariant `inv` -/
theorem iter_sound (f : St → Out) (r : ARes) (inv : AEnv) (ok : Bool)
    (hf : ∀ (st : St) (τ : Typing), Typed n0 W τ st.heap → n0 ≤ st.heap.size → SatEnv τ inv st.env →
      Post n0 W rc tr τ st.heap r (f st))
    (hinv : ole r.norm inv = true) :
    ∀ (n : Nat) (st : St) (τ : Typing), Typed n0 W τ st.heap → n0 ≤ st.heap.size → SatEnv τ inv st.env →
      Post n0 W rc tr τ st.heap ⟨ok, some inv, r.exc, r.brk⟩ (iter f n st) := by
  intro n
  induction n with
  | zero =>
    intro st τ ht hn he
    exact ⟨τ, Typing.le_refl τ, ht, PreservesW.refl hn, inv, rfl, he⟩
  | succ n ih =>
    intro st τ ht hn he
    have p := hf st τ ht hn he
    simp only [iter]
    cases hout : f st with
    | norm st' =>
      rw [hout] at p
      obtain ⟨τ', l1, t1, p1, a', ha', se⟩ := p
      simp only
      have hle : a'.le inv = true := by
        rw [ha'] at hinv
        exact hinv
      exact (ih st' τ' t1 p1.1 (se.of_le hle)).chain l1 p1
    | exc s => rw [hout] at p; obtain ⟨τ', l, t, pr, c⟩ := p; exact ⟨τ', l, t, pr, c⟩
    | brk s => rw [hout] at p; obtain ⟨τ', l, t, pr, c⟩ := p; exact ⟨τ', l, t, pr, c⟩
    | ret v s => rw [hout] at p; obtain ⟨τ', l, t, pr, c⟩ := p; exact ⟨τ', l, t, pr, c⟩

end
end Bermuda.HeapIR
