/-
Helper lemmas for C10 (Model/Join.lean): the duplicate-free key list, the dictionary lookup, the
characterisation of `joinCore` as "filter the coordinate set by the relational set expression",
Python dict update/union on association lists, `firstsBy`, `lastBy?`.
Core Lean only.
-/
import Bermuda.Model.Join
import Bermuda.Spec.C10
import Bermuda.Lemmas.Sort
namespace Bermuda
open List

/-! ### `dedupJ`, `dictGet`, `joinCore` -/

theorem dedup_cons {α} [BEq α] (a : α) (l : List α) :
    dedupJ (a :: l) = if (dedupJ l).contains a then dedupJ l else a :: dedupJ l := rfl

theorem mem_dedupJ {α} [BEq α] [LawfulBEq α] {a : α} {l : List α} : a ∈ dedupJ l ↔ a ∈ l := by
  induction l generalizing a with
  | nil => simp [dedupJ]
  | cons b l ih =>
    rw [dedup_cons]
    split
    · rename_i h
      have hb : b ∈ l := ih.mp (List.contains_iff_mem.mp h)
      constructor
      · intro h'; exact List.mem_cons_of_mem _ (ih.mp h')
      · intro h'
        rcases List.mem_cons.mp h' with rfl | h'
        · exact ih.mpr hb
        · exact ih.mpr h'
    · simp [ih]

theorem nodup_dedupJ {α} [BEq α] [LawfulBEq α] (l : List α) : (dedupJ l).Nodup := by
  induction l with
  | nil => simp [dedupJ]
  | cons b l ih =>
    rw [dedup_cons]
    split
    · exact ih
    · rename_i h
      exact List.nodup_cons.mpr ⟨fun hm => h (List.contains_iff_mem.mpr hm), ih⟩

theorem dictGet_some {inc : Bool} {t : List Cell} {k : Coord} {c : Cell}
    (h : dictGet inc t k = some c) : c ∈ t ∧ joinKey inc c = k := by
  induction t with
  | nil => simp [dictGet] at h
  | cons d t ih =>
    simp only [dictGet] at h
    split at h
    · rename_i e he
      cases h
      exact ⟨List.mem_cons_of_mem _ (ih he).1, (ih he).2⟩
    · split at h
      · rename_i hk
        cases h
        exact ⟨List.mem_cons_self, by simpa using hk⟩
      · cases h

theorem dictGet_isSome {inc : Bool} {t : List Cell} {k : Coord} :
    (dictGet inc t k).isSome = (t.map (joinKey inc)).contains k := by
  induction t with
  | nil => simp [dictGet]
  | cons d t ih =>
    simp only [dictGet, List.map_cons, List.contains_cons]
    rw [← ih]
    cases h : dictGet inc t k with
    | some e => simp
    | none =>
      simp only [Option.isSome_none, Bool.or_false]
      by_cases hk : joinKey inc d = k
      · simp [hk]
      · have h1 : (joinKey inc d == k) = false := by simpa using hk
        have h2 : (k == joinKey inc d) = false := by simpa using fun h => hk h.symm
        rw [h1, h2]; rfl

/-- the pair built for coordinate `k` -/
def pairOf (inc : Bool) (a b : List Cell) (k : Coord) : CellPair := (dictGet inc a k, dictGet inc b k)

theorem cellPairs_eq (a b : List Cell) :
    cellPairs a b = (allCoordinates a b).map (pairOf (isIncremental a) a b) := rfl

theorem mem_allCoordinates {a b : List Cell} {k : Coord} :
    k ∈ allCoordinates a b ↔
      k ∈ a.map (joinKey (isIncremental a)) ∨ k ∈ b.map (joinKey (isIncremental a)) := by
  unfold allCoordinates
  simp only [mem_dedupJ, List.mem_append]

theorem nodup_allCoordinates (a b : List Cell) : (allCoordinates a b).Nodup := nodup_dedupJ _

theorem keep_pairOf (ty : JoinType) {a b : List Cell} {k : Coord} (hk : k ∈ allCoordinates a b) :
    ty.keep (pairOf (isIncremental a) a b k) =
      Spec.setExpr ty (a.map (joinKey (isIncremental a))) (b.map (joinKey (isIncremental a))) k := by
  have hk' := mem_allCoordinates.mp hk
  rw [← List.contains_iff_mem, ← List.contains_iff_mem] at hk'
  have hA := dictGet_isSome (inc := isIncremental a) (t := a) (k := k)
  have hB := dictGet_isSome (inc := isIncremental a) (t := b) (k := k)
  unfold pairOf
  cases ty <;> simp only [JoinType.keep, Spec.setExpr] <;>
    (generalize (a.map (joinKey (isIncremental a))).contains k = x at hk' hA ⊢
     generalize (b.map (joinKey (isIncremental a))).contains k = y at hk' hB ⊢
     generalize dictGet (isIncremental a) a k = oa at hA ⊢
     generalize dictGet (isIncremental a) b k = ob at hB ⊢
     subst hA hB
     cases oa <;> cases ob <;> simp_all)

theorem pairKey_pairOf {a b : List Cell} {k : Coord} (hk : k ∈ allCoordinates a b) :
    Spec.pairKey? (isIncremental a) (pairOf (isIncremental a) a b k) = some k := by
  unfold pairOf
  cases ha : dictGet (isIncremental a) a k with
  | some c => simp [Spec.pairKey?, (dictGet_some ha).2]
  | none =>
    cases hb : dictGet (isIncremental a) b k with
    | some c => simp [Spec.pairKey?, (dictGet_some hb).2]
    | none =>
      exfalso
      have h1 := dictGet_isSome (inc := isIncremental a) (t := a) (k := k)
      have h2 := dictGet_isSome (inc := isIncremental a) (t := b) (k := k)
      rw [ha] at h1; rw [hb] at h2
      rcases mem_allCoordinates.mp hk with h | h
      · rw [← List.contains_iff_mem] at h; rw [h] at h1; cases h1
      · rw [← List.contains_iff_mem] at h; rw [h] at h2; cases h2

theorem joinCore_eq (ty : JoinType) (a b : List Cell) :
    joinCore ty a b =
      ((allCoordinates a b).filter (Spec.setExpr ty (a.map (joinKey (isIncremental a)))
        (b.map (joinKey (isIncremental a))))).map (pairOf (isIncremental a) a b) := by
  unfold joinCore
  rw [cellPairs_eq, List.filter_map]
  congr 1
  apply List.filter_congr
  intro k hk
  exact keep_pairOf ty hk

theorem joinCore_keys (ty : JoinType) (a b : List Cell) :
    (joinCore ty a b).map (Spec.pairKey? (isIncremental a)) =
      ((allCoordinates a b).filter (Spec.setExpr ty (a.map (joinKey (isIncremental a)))
        (b.map (joinKey (isIncremental a))))).map some := by
  rw [joinCore_eq, List.map_map]
  apply List.map_congr_left
  intro k hk
  exact pairKey_pairOf (List.mem_filter.mp hk).1

theorem setExpr_mem {ty : JoinType} {A B : List Coord} {k : Coord}
    (h : Spec.setExpr ty A B k = true) : k ∈ A ∨ k ∈ B := by
  cases ty <;> simp [Spec.setExpr] at h <;>
    first | exact h | exact Or.inl h | exact Or.inr h | exact Or.inl h.1 | exact Or.inr h.1


theorem dictGet_none_of_not_mem {inc : Bool} {t : List Cell} {k : Coord}
    (h : k ∉ t.map (joinKey inc)) : dictGet inc t k = none := by
  have := dictGet_isSome (inc := inc) (t := t) (k := k)
  rw [← List.contains_iff_mem] at h
  cases hd : dictGet inc t k with
  | none => rfl
  | some c => rw [hd] at this; simp at this; exact absurd (List.contains_iff_mem.mpr (by simpa using this)) h

theorem dictGet_eq_cellAt {inc : Bool} {t : List Cell} (h : (t.map (joinKey inc)).Nodup) (k : Coord) :
    dictGet inc t k = Spec.cellAt inc t k := by
  induction t with
  | nil => rfl
  | cons c t ih =>
    rw [List.map_cons, List.nodup_cons] at h
    simp only [dictGet, Spec.cellAt, List.find?_cons]
    by_cases hk : joinKey inc c = k
    · subst hk
      rw [dictGet_none_of_not_mem h.1]
      simp
    · have h1 : (joinKey inc c == k) = false := by simpa using hk
      rw [h1, ih h.2]
      simp only [Spec.cellAt]
      cases List.find? (fun c => joinKey inc c == k) t <;> rfl

/-! ### dicts -/

theorem Dict.get?_nil_j {α} (k : String) : Dict.get? ([] : Dict α) k = none := rfl

theorem Dict.get?_cons_j {α} (p : String × α) (d : Dict α) (k : String) :
    Dict.get? (p :: d) k = if p.1 == k then some p.2 else Dict.get? d k := by
  unfold Dict.get?
  rw [List.find?_cons]
  split <;> simp_all

theorem Dict.get?_eq_none_iff {α} {d : Dict α} {k : String} : d.get? k = none ↔ k ∉ d.keys := by
  induction d with
  | nil => simp [Dict.get?_nil_j, Dict.keys]
  | cons p d ih =>
    rw [Dict.get?_cons_j]
    simp only [Dict.keys, List.map_cons, List.mem_cons, not_or] at ih ⊢
    by_cases h : p.1 = k
    · simp [h]
    · have : (p.1 == k) = false := by simpa using h
      rw [this]; simp only [Bool.false_eq_true, if_false]
      rw [ih]; exact ⟨fun h' => ⟨fun e => h e.symm, h'⟩, fun h' => h'.2⟩

theorem Dict.contains_eq {α} (d : Dict α) (k : String) : d.contains k = d.keys.contains k := by
  unfold Dict.contains Dict.keys
  induction d with
  | nil => rfl
  | cons p d ih => simp only [List.any_cons, List.map_cons, List.contains_cons, ih]; rw [Bool.beq_comm]

theorem Dict.get?_map_replace {α} (d : Dict α) (k k' : String) (v : α) :
    Dict.get? (d.map (fun p => if p.1 == k then (k, v) else p)) k' =
      if k == k' then (d.get? k).map (fun _ => v) else d.get? k' := by
  induction d with
  | nil => simp [Dict.get?_nil_j]
  | cons p d ih =>
    rw [List.map_cons, Dict.get?_cons_j, ih, Dict.get?_cons_j, Dict.get?_cons_j]
    by_cases h1 : p.1 = k <;> by_cases h2 : k = k' <;> by_cases h3 : p.1 = k' <;> simp_all

theorem Dict.get?_append_single {α} (d : Dict α) (k k' : String) (v : α) :
    Dict.get? (d ++ [(k, v)]) k' =
      match d.get? k' with
      | some x => some x
      | none => if k == k' then some v else none := by
  induction d with
  | nil => simp [Dict.get?_nil_j, Dict.get?_cons_j]
  | cons p d ih =>
    rw [List.cons_append, Dict.get?_cons_j, ih, Dict.get?_cons_j]
    by_cases h3 : p.1 = k' <;> simp_all

theorem Dict.get?_set {α} (d : Dict α) (k k' : String) (v : α) :
    (d.set k v).get? k' = if k == k' then some v else d.get? k' := by
  unfold Dict.set
  split
  · rename_i hc
    rw [Dict.get?_map_replace]
    split
    · rw [Dict.contains_eq] at hc
      have : d.get? k ≠ none := fun h => (Dict.get?_eq_none_iff.mp h) (List.contains_iff_mem.mp hc)
      cases hg : d.get? k with
      | none => exact absurd hg this
      | some x => rfl
    · rfl
  · rename_i hc
    rw [Dict.get?_append_single]
    rw [Dict.contains_eq] at hc
    have hn : d.get? k = none := Dict.get?_eq_none_iff.mpr (fun h => hc (List.contains_iff_mem.mpr h))
    by_cases h2 : k = k'
    · subst h2; simp [hn]
    · have : (k == k') = false := by simpa using h2
      rw [this]; cases d.get? k' <;> simp

theorem Dict.keys_set {α} (d : Dict α) (k : String) (v : α) :
    (d.set k v).keys = if d.keys.contains k then d.keys else d.keys ++ [k] := by
  unfold Dict.set
  rw [Dict.contains_eq]
  split
  · unfold Dict.keys
    rw [List.map_map]
    apply List.map_congr_left
    intro p _
    simp only [Function.comp]
    split <;> simp_all
  · simp [Dict.keys]

/-- keys of a dict are distinct (true of every Python dict) -/
def Dict.WF {α} (d : Dict α) : Prop := d.keys.Nodup

theorem Dict.WF_set {α} {d : Dict α} (h : d.WF) (k : String) (v : α) : (d.set k v).WF := by
  unfold Dict.WF at *
  rw [Dict.keys_set]
  split
  · exact h
  · rename_i hc
    rw [List.nodup_append]
    refine ⟨h, by simp, ?_⟩
    intro a ha b hb
    simp at hb; subst hb
    intro e; subst e
    exact hc (List.contains_iff_mem.mpr ha)

theorem Dict.union_cons {α} (a : Dict α) (p : String × α) (b : Dict α) :
    Dict.union a (p :: b) = Dict.union (a.set p.1 p.2) b := rfl

theorem Dict.WF_union {α} {a : Dict α} (h : a.WF) (b : Dict α) : (a.union b).WF := by
  induction b generalizing a with
  | nil => exact h
  | cons p b ih => rw [Dict.union_cons]; exact ih (Dict.WF_set h _ _)

/-- `{**a, **b}[k]`: the right operand wins -/
theorem Dict.get?_union {α} (a b : Dict α) (hb : b.WF) (k : String) :
    (a.union b).get? k = (b.get? k).or (a.get? k) := by
  induction b generalizing a with
  | nil => simp [Dict.union, Dict.get?_nil_j]
  | cons p b ih =>
    unfold Dict.WF at hb
    simp only [Dict.keys, List.map_cons, List.nodup_cons] at hb
    rw [Dict.union_cons, ih _ hb.2, Dict.get?_set, Dict.get?_cons_j]
    by_cases h : p.1 = k
    · subst h
      have : Dict.get? b p.1 = none := Dict.get?_eq_none_iff.mpr hb.1
      simp [this]
    · have : (p.1 == k) = false := by simpa using h
      simp [this]

theorem Dict.mem_keys_union {α} (a b : Dict α) (k : String) :
    k ∈ (a.union b).keys ↔ k ∈ a.keys ∨ k ∈ b.keys := by
  induction b generalizing a with
  | nil => simp [Dict.union, Dict.keys]
  | cons p b ih =>
    rw [Dict.union_cons, ih, Dict.keys_set]
    by_cases hc : a.keys.contains p.1 = true
    · rw [if_pos hc]
      have := List.contains_iff_mem.mp hc
      simp only [Dict.keys, List.map_cons, List.mem_cons] at this ⊢
      constructor
      · rintro (h | h)
        · exact Or.inl h
        · exact Or.inr (Or.inr h)
      · rintro (h | h | h)
        · exact Or.inl h
        · subst h; exact Or.inl this
        · exact Or.inr h
    · rw [if_neg hc]
      simp only [Dict.keys, List.map_cons, List.mem_cons, List.mem_append, List.not_mem_nil, or_false]
      constructor
      · rintro ((h | h) | h)
        · exact Or.inl h
        · exact Or.inr (Or.inl h)
        · exact Or.inr (Or.inr h)
      · rintro (h | h | h)
        · exact Or.inl (Or.inl h)
        · exact Or.inl (Or.inr h)
        · exact Or.inr h

/-! ### `firstsBy` -/

theorem mem_firstsBy {α κ} [BEq κ] [LawfulBEq κ] (key : α → κ) {seen : List κ} {l : List α} {c : α} :
    c ∈ firstsBy key seen l ↔ key c ∉ seen ∧ l.find? (fun d => key d == key c) = some c := by
  induction l generalizing seen with
  | nil => simp [firstsBy]
  | cons a l ih =>
    rw [firstsBy, List.find?_cons]
    by_cases hs : seen.contains (key a) = true
    · rw [if_pos hs, ih]
      have hm := List.contains_iff_mem.mp hs
      by_cases hk : key a = key c
      · rw [hk] at hm; simp [hm]
      · have : (key a == key c) = false := by simpa using hk
        simp [this]
    · rw [if_neg hs, List.mem_cons, ih]
      have hm : key a ∉ seen := fun h => hs (List.contains_iff_mem.mpr h)
      by_cases hk : key a = key c
      · have hb : (key a == key c) = true := by simpa using hk
        simp only [hb, List.mem_cons, not_or, Option.some.injEq]
        constructor
        · rintro (rfl | ⟨⟨h, _⟩, _⟩)
          · exact ⟨hm, rfl⟩
          · exact absurd hk.symm h
        · rintro ⟨_, rfl⟩; exact Or.inl rfl
      · have hb : (key a == key c) = false := by simpa using hk
        simp only [hb, List.mem_cons, not_or]
        constructor
        · rintro (rfl | ⟨⟨_, h⟩, h'⟩)
          · exact absurd rfl hk
          · exact ⟨h, h'⟩
        · rintro ⟨h, h'⟩; exact Or.inr ⟨⟨fun e => hk e.symm, h⟩, h'⟩

theorem firstsBy_keys_nodup {α κ} [BEq κ] [LawfulBEq κ] (key : α → κ) (seen : List κ) (l : List α) :
    ((firstsBy key seen l).map key).Nodup ∧ ∀ c ∈ firstsBy key seen l, key c ∉ seen := by
  induction l generalizing seen with
  | nil => simp [firstsBy]
  | cons a l ih =>
    rw [firstsBy]
    by_cases hs : seen.contains (key a) = true
    · rw [if_pos hs]; exact ih seen
    · rw [if_neg hs]
      have hm : key a ∉ seen := fun h => hs (List.contains_iff_mem.mpr h)
      obtain ⟨h1, h2⟩ := ih (key a :: seen)
      refine ⟨?_, ?_⟩
      · rw [List.map_cons, List.nodup_cons]
        refine ⟨?_, h1⟩
        intro hmem
        obtain ⟨c, hc, hkc⟩ := List.mem_map.mp hmem
        exact h2 c hc (by simp [hkc])
      · intro c hc
        rcases List.mem_cons.mp hc with rfl | hc
        · exact hm
        · exact fun h => h2 c hc (List.mem_cons_of_mem _ h)

theorem firstsBy_covers {α κ} [BEq κ] [LawfulBEq κ] (key : α → κ) (seen : List κ) (l : List α) :
    ∀ d ∈ l, key d ∈ seen ∨ key d ∈ (firstsBy key seen l).map key := by
  induction l generalizing seen with
  | nil => simp
  | cons a l ih =>
    intro d hd
    rw [firstsBy]
    by_cases hs : seen.contains (key a) = true
    · rw [if_pos hs]
      rcases List.mem_cons.mp hd with rfl | hd
      · exact Or.inl (List.contains_iff_mem.mp hs)
      · exact ih seen d hd
    · rw [if_neg hs]
      rcases List.mem_cons.mp hd with rfl | hd
      · exact Or.inr (by simp)
      · rcases ih (key a :: seen) d hd with h | h
        · rcases List.mem_cons.mp h with h | h
          · exact Or.inr (by simp [h])
          · exact Or.inl h
        · exact Or.inr (by simp only [List.map_cons, List.mem_cons]; exact Or.inr h)

/-! ### `lastBy?` picks a maximal element -/

theorem lastBy?_max {α} {cmp : α → α → Ordering} [Std.TransCmp cmp] {l : List α} {a : α}
    (h : lastBy? (leOf cmp) l = some a) : a ∈ l ∧ ∀ x ∈ l, leOf cmp x a = true := by
  unfold lastBy? at h
  have hp := List.mergeSort_perm l (leOf cmp)
  have hs := sorted_mergeSort (cmp := cmp) l
  have hmem : a ∈ l.mergeSort (leOf cmp) := List.mem_of_getLast? h
  refine ⟨hp.mem_iff.mp hmem, fun x hx => ?_⟩
  have hx' : x ∈ l.mergeSort (leOf cmp) := hp.mem_iff.mpr hx
  generalize l.mergeSort (leOf cmp) = s at h hs hx' hmem
  obtain ⟨s', rfl⟩ : ∃ s', s = s' ++ [a] := by
    rcases List.eq_nil_or_concat s with rfl | ⟨s', b, rfl⟩
    · simp at h
    · simp at h; subst h; exact ⟨s', by simp⟩
  rcases List.mem_append.mp hx' with hx' | hx'
  · exact (List.pairwise_append.mp hs).2.2 x hx' a (by simp)
  · simp at hx'; subst hx'
    unfold leOf; rw [Std.ReflCmp.compare_self (cmp := cmp)]; rfl

/-! ### more dict facts; `mapM` in `Except` -/

theorem Dict.get?_union_of_not_mem {α} (a b : Dict α) {k : String} (h : k ∉ b.keys) :
    (a.union b).get? k = a.get? k := by
  induction b generalizing a with
  | nil => rfl
  | cons p b ih =>
    simp only [Dict.keys, List.map_cons, List.mem_cons, not_or] at h
    rw [Dict.union_cons, ih _ (by simpa [Dict.keys] using h.2), Dict.get?_set]
    have : (p.1 == k) = false := by simpa using fun e => h.1 e.symm
    rw [this]; rfl

theorem Dict.keys_filter_sub {α} (d : Dict α) (p : String → Bool) {k : String}
    (h : k ∈ Dict.keys (d.filter (fun kv => p kv.1))) : p k = true ∧ k ∈ d.keys := by
  simp only [Dict.keys, List.mem_map, List.mem_filter] at h ⊢
  obtain ⟨kv, ⟨hm, hp⟩, rfl⟩ := h
  exact ⟨hp, kv, hm, rfl⟩

theorem Dict.get?_filter_j {α} (d : Dict α) (p : String → Bool) (k : String) :
    Dict.get? (d.filter (fun kv => p kv.1)) k = if p k then d.get? k else none := by
  induction d with
  | nil => simp [Dict.get?_nil_j]
  | cons q d ih =>
    rw [List.filter_cons]
    by_cases hq : p q.1 = true
    · rw [if_pos hq, Dict.get?_cons_j, Dict.get?_cons_j, ih]
      by_cases hk : q.1 = k
      · subst hk; simp [hq]
      · have : (q.1 == k) = false := by simpa using hk
        simp [this]
    · rw [if_neg hq, ih, Dict.get?_cons_j]
      by_cases hk : q.1 = k
      · subst hk; simp [hq]
      · have : (q.1 == k) = false := by simpa using hk
        simp [this]

theorem Dict.WF_filter {α} {d : Dict α} (h : d.WF) (p : String × α → Bool) : Dict.WF (d.filter p) := by
  unfold Dict.WF Dict.keys at *
  exact h.sublist (List.Sublist.map _ List.filter_sublist)

theorem mapM_ok_map {α β ε} {f : α → Except ε β} {g : α → β} {l : List α} {out : List β}
    (hfg : ∀ a b, f a = .ok b → b = g a) (h : l.mapM f = .ok out) :
    out = l.map g ∧ ∀ a ∈ l, f a = .ok (g a) := by
  induction l generalizing out with
  | nil => simp [List.mapM_nil, pure, Except.pure] at h; subst h; simp
  | cons a rest ih =>
    rw [List.mapM_cons] at h
    simp only [bind, Except.bind] at h
    split at h
    · cases h
    · rename_i v hv
      split at h
      · cases h
      · rename_i vs hvs
        simp only [pure, Except.pure] at h
        cases h
        obtain ⟨h1, h2⟩ := ih hvs
        have := hfg a v hv
        subst this
        refine ⟨by rw [h1]; rfl, fun x hx => ?_⟩
        rcases List.mem_cons.mp hx with rfl | hx
        · exact hv
        · exact h2 x hx

theorem mapM_error {α β ε} {f : α → Except ε β} {l : List α} {e : ε}
    (hf : ∀ a ∈ l, ∀ e', f a = .error e' → e' = e) (hex : ∃ a ∈ l, ∃ e', f a = .error e') :
    l.mapM f = .error e := by
  induction l with
  | nil => obtain ⟨a, ha, _⟩ := hex; cases ha
  | cons a rest ih =>
    rw [List.mapM_cons]
    simp only [bind, Except.bind]
    cases hfa : f a with
    | error e' => rw [hf a (by simp) e' hfa]
    | ok v =>
      simp only []
      have : rest.mapM f = .error e := by
        apply ih (fun x hx => hf x (by simp [hx]))
        obtain ⟨x, hx, e', he'⟩ := hex
        rcases List.mem_cons.mp hx with rfl | hx
        · rw [hfa] at he'; cases he'
        · exact ⟨x, hx, e', he'⟩
      rw [this]

/-! ### idempotence facts used by `merge_self` -/

theorem dedup_of_nodup {α} [BEq α] [LawfulBEq α] {l : List α} (h : l.Nodup) : dedupJ l = l := by
  induction l with
  | nil => rfl
  | cons a l ih =>
    rw [List.nodup_cons] at h
    rw [dedup_cons, ih h.2]
    have : l.contains a = false := by
      rw [Bool.eq_false_iff]; intro hc; exact h.1 (List.contains_iff_mem.mp hc)
    rw [this]; rfl

theorem dedup_append_of_subset {α} [BEq α] [LawfulBEq α] {L M : List α} (h : ∀ x ∈ L, x ∈ M) :
    dedupJ (L ++ M) = dedupJ M := by
  induction L with
  | nil => rfl
  | cons a L ih =>
    rw [List.cons_append, dedup_cons, ih (fun x hx => h x (by simp [hx]))]
    have : (dedupJ M).contains a = true := List.contains_iff_mem.mpr (mem_dedupJ.mpr (h a (by simp)))
    rw [this]; rfl

theorem Dict.eq_of_mem_of_key_eq {α} {d : Dict α} (h : d.WF) {p q : String × α} (hp : p ∈ d)
    (hq : q ∈ d) (hk : q.1 = p.1) : q = p := by
  unfold Dict.WF Dict.keys at h
  induction d with
  | nil => cases hp
  | cons r d ih =>
    rw [List.map_cons, List.nodup_cons] at h
    rcases List.mem_cons.mp hp with rfl | hp' <;> rcases List.mem_cons.mp hq with rfl | hq'
    · rfl
    · exact (h.1 (List.mem_map.mpr ⟨q, hq', hk⟩)).elim
    · exact (h.1 (List.mem_map.mpr ⟨p, hp', hk.symm⟩)).elim
    · exact ih h.2 hp' hq'

theorem Dict.set_self {α} {d : Dict α} (h : d.WF) {p : String × α} (hp : p ∈ d) :
    d.set p.1 p.2 = d := by
  unfold Dict.set
  have hc : d.contains p.1 = true := by
    rw [Dict.contains_eq]; exact List.contains_iff_mem.mpr (List.mem_map.mpr ⟨p, hp, rfl⟩)
  rw [if_pos hc]
  conv => rhs; rw [← List.map_id d]
  apply List.map_congr_left
  intro q hq
  split
  · rename_i hk
    have := Dict.eq_of_mem_of_key_eq h hp hq (by simpa using hk)
    rw [this]; rfl
  · rfl

theorem Dict.union_of_subset {α} {a : Dict α} (h : a.WF) {b : Dict α} (hb : ∀ p ∈ b, p ∈ a) :
    a.union b = a := by
  induction b with
  | nil => rfl
  | cons p b ih =>
    rw [Dict.union_cons, Dict.set_self h (hb p (by simp))]
    exact ih (fun q hq => hb q (by simp [hq]))

theorem filterMap_eq_self {α} {f : α → Option α} {t : List α} (h : ∀ c ∈ t, f c = some c) :
    t.filterMap f = t := by
  induction t with
  | nil => rfl
  | cons a t ih =>
    rw [List.filterMap_cons, h a (by simp), ih (fun c hc => h c (by simp [hc]))]

/-- `{**d, **d} == d` (also as ordered dicts) -/
theorem Dict.union_self {α} {d : Dict α} (h : d.WF) : d.union d = d :=
  Dict.union_of_subset h (fun _ hp => hp)

/-! ### Bool ⇄ Prop -/

theorem nodupB_iff {α} [BEq α] [LawfulBEq α] {l : List α} : Spec.nodupB l = true ↔ l.Nodup := by
  induction l with
  | nil => simp [Spec.nodupB]
  | cons a l ih =>
    simp only [Spec.nodupB, Bool.and_eq_true, Bool.not_eq_true', List.nodup_cons, ih]
    rw [Bool.eq_false_iff, Ne, List.contains_iff_mem]

end Bermuda
