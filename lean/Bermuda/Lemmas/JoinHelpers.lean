/-
Generic helper lemmas for C10 that are NOT statements of the property: permutation / frame-map /
suffix / `mapM` / lookup facts used by the proofs in `Properties/C10.lean` (moved out of that file so
that it holds property theorems only). The namespace `Bermuda.Properties.C10` is kept so that the
fully qualified names are unchanged. `pmCell` (the total cell map behind `periodMergeCell`) lives
here because the helper lemmas about `periodMergeCell` need it.
-/
import Bermuda.Lemmas.Join
import Bermuda.Lemmas.JoinSpec
import Bermuda.Lemmas.JoinRegroup
import Bermuda.Properties.C01
namespace Bermuda.Properties.C10
open Bermuda List Bermuda.JoinL
open Bermuda.Properties.C01 (ofCells_perm ofCells_sorted ofCells_ok_iff ofCells_idem Canonical kindsConsistent_perm ofCells_perm_invariant)

theorem isIncremental_of_consistent {l : List Cell} (h : kindsConsistent l = true) :
    isIncremental l = (!l.isEmpty && l.all (·.kind == .incremental)) := by
  cases l with
  | nil => rfl
  | cons c l =>
    simp only [isIncremental, List.isEmpty_cons, Bool.not_false, Bool.true_and, List.all_cons]
    unfold kindsConsistent at h
    simp only [List.all_cons, Bool.or_eq_true, Bool.and_eq_true] at h
    cases hk : c.kind <;> simp_all

theorem isIncremental_perm {l l' : List Cell} (hp : l.Perm l') (h : kindsConsistent l = true) :
    isIncremental l' = isIncremental l := by
  rw [isIncremental_of_consistent h, isIncremental_of_consistent ((kindsConsistent_perm hp) ▸ h)]
  congr 1
  · cases l <;> cases l' <;> simp_all
  · rw [Bool.eq_iff_iff]; simp only [List.all_eq_true, hp.mem_iff]

theorem setExpr_congr {ty : JoinType} {A B A' B' : List Coord} (hA : ∀ k, k ∈ A ↔ k ∈ A')
    (hB : ∀ k, k ∈ B ↔ k ∈ B') (k : Coord) : Spec.setExpr ty A B k = Spec.setExpr ty A' B' k := by
  have h1 : A.contains k = A'.contains k := by
    rw [Bool.eq_iff_iff, List.contains_iff_mem, List.contains_iff_mem]; exact hA k
  have h2 : B.contains k = B'.contains k := by
    rw [Bool.eq_iff_iff, List.contains_iff_mem, List.contains_iff_mem]; exact hB k
  cases ty <;> simp only [Spec.setExpr, h1, h2]

theorem mem_of_mem_joinCore {ty : JoinType} {a b : List Cell} {p : CellPair}
    (hp : p ∈ joinCore ty a b) :
    (∀ c, p.1 = some c → c ∈ a) ∧ (∀ c, p.2 = some c → c ∈ b) := by
  rw [joinCore_eq] at hp
  obtain ⟨k, _, rfl⟩ := List.mem_map.mp hp
  exact ⟨fun c hc => (dictGet_some hc).1, fun c hc => (dictGet_some hc).1⟩

theorem cellAt_eq_some_iff {inc : Bool} {t : List Cell} (hn : (t.map (joinKey inc)).Nodup)
    {k : Coord} {c : Cell} : Spec.cellAt inc t k = some c ↔ c ∈ t ∧ joinKey inc c = k := by
  rw [← dictGet_eq_cellAt hn]
  constructor
  · exact dictGet_some
  · rintro ⟨hc, rfl⟩
    induction t with
    | nil => cases hc
    | cons d t ih =>
      rw [List.map_cons, List.nodup_cons] at hn
      simp only [dictGet]
      rcases List.mem_cons.mp hc with rfl | hc
      · rw [dictGet_none_of_not_mem hn.1]; simp
      · rw [ih hn.2 hc]

theorem cellAt_perm {inc : Bool} {t t' : List Cell} (hn : (t.map (joinKey inc)).Nodup)
    (hp : t.Perm t') (k : Coord) : Spec.cellAt inc t k = Spec.cellAt inc t' k := by
  have hn' : (t'.map (joinKey inc)).Nodup := (hp.map _).nodup_iff.mp hn
  cases h : Spec.cellAt inc t' k with
  | some c =>
    rw [cellAt_eq_some_iff hn]
    have := (cellAt_eq_some_iff hn').mp h
    exact ⟨hp.mem_iff.mpr this.1, this.2⟩
  | none =>
    cases h2 : Spec.cellAt inc t k with
    | none => rfl
    | some c =>
      have := (cellAt_eq_some_iff hn).mp h2
      rw [(cellAt_eq_some_iff hn').mpr ⟨hp.mem_iff.mp this.1, this.2⟩] at h
      cases h

theorem mergeCellPair_isSome {inc : Bool} {p : CellPair} (h : Spec.pairKey? inc p ≠ none) :
    (mergeCellPair p).isSome = true := by
  obtain ⟨p1, p2⟩ := p
  cases p1 <;> cases p2 <;> simp_all [mergeCellPair, Spec.pairKey?]

theorem coalKey_eq_joinKey (c : Cell) : coalKey c = joinKey false c := rfl

/-- a cell-wise map that only rewrites `values` keeps the canonical form: same order, same class,
same dates -/
theorem frame_map_canonical {f : Cell → Cell} (hf : ∀ c, f c = { c with values := (f c).values })
    {t : List Cell} (ht : Canonical t) : Canonical (t.map f) := by
  have hle : ∀ a b, Cell.le (f a) (f b) = Cell.le a b := by
    intro a b; rw [hf a, hf b]; rfl
  have hk : ∀ c, (f c).kind = c.kind := fun c => by rw [hf c]
  have hd : ∀ c, (f c).datesOk = c.datesOk := fun c => by rw [hf c]; rfl
  refine ⟨?_, ?_, ?_⟩
  · rw [List.pairwise_map]; exact ht.1.imp (fun {a b} h => by rw [hle]; exact h)
  · have := ht.2.1
    unfold kindsConsistent at this ⊢
    simpa only [List.all_map, Function.comp_def, hk] using this
  · intro c hc
    obtain ⟨c₀, hc₀, rfl⟩ := List.mem_map.mp hc
    rw [hd]; exact ht.2.2 c₀ hc₀

/-- the total cell map behind `periodMergeCell` -/
def pmCell (b : List Cell) (suffix : Option String) (c : Cell) : Cell :=
  match b.filter (samePeriodKey c) with
  | [r] => overwriteValues c r suffix
  | _ => c

theorem periodMergeCell_ok {b : List Cell} {suffix : Option String} {c c' : Cell}
    (h : periodMergeCell b suffix c = .ok c') : c' = pmCell b suffix c := by
  unfold periodMergeCell at h
  unfold pmCell
  split at h
  · rename_i hf; cases h; rw [hf]
  · rename_i r hf; cases h; rw [hf]
  · cases h

theorem kindMismatch_self (t : List Cell) : kindMismatch t t = false := by
  cases t <;> simp [kindMismatch]

theorem allCoordinates_self {t : List Cell} (hn : (t.map (joinKey (isIncremental t))).Nodup) :
    allCoordinates t t = t.map (joinKey (isIncremental t)) := by
  unfold allCoordinates
  simp only []
  rw [dedup_append_of_subset (fun _ h => h), dedup_of_nodup hn]

theorem setExpr_self {ty : JoinType} (hty : ty = .full ∨ ty = .inner ∨ ty = .left ∨ ty = .right)
    {K : List Coord} {k : Coord} (hk : k ∈ K) : Spec.setExpr ty K K k = true := by
  rcases hty with rfl | rfl | rfl | rfl <;> simp [Spec.setExpr, hk]

theorem joinCore_self {ty : JoinType} (hty : ty = .full ∨ ty = .inner ∨ ty = .left ∨ ty = .right)
    {t : List Cell} (hn : (t.map (joinKey (isIncremental t))).Nodup) :
    joinCore ty t t = t.map (fun c => (some c, some c)) := by
  rw [joinCore_eq, allCoordinates_self hn, List.filter_eq_self.mpr (fun k hk => setExpr_self hty hk),
    List.map_map]
  apply List.map_congr_left
  intro c hc
  have : dictGet (isIncremental t) t (joinKey (isIncremental t) c) = some c := by
    rw [dictGet_eq_cellAt hn]; exact (cellAt_eq_some_iff hn).mpr ⟨hc, rfl⟩
  simp only [Function.comp, pairOf, this]

theorem filterMap_merge_keys {inc : Bool} {ps : List CellPair}
    (h : ∀ p ∈ ps, Spec.pairKey? inc p ≠ none) :
    (ps.filterMap mergeCellPair).map (fun c => some (joinKey inc c)) = ps.map (Spec.pairKey? inc) := by
  induction ps with
  | nil => rfl
  | cons p ps ih =>
    have hp := mergeCellPair_isSome (h p (by simp))
    rw [List.filterMap_cons]
    cases hm : mergeCellPair p with
    | none => rw [hm] at hp; cases hp
    | some c =>
      simp only [List.map_cons, mergeCellPair_key hm, ih (fun q hq => h q (by simp [hq]))]

theorem zip_map_self {α β} (l : List α) (f : α → β) : l.zip (l.map f) = l.map (fun a => (a, f a)) := by
  induction l with
  | nil => rfl
  | cons a l ih => simp [ih]

theorem sameFrame_of_frame {c o : Cell} (h : o = { c with values := o.values }) :
    Spec.sameFrame c o = true := by
  rw [h]; simp [Spec.sameFrame]

theorem map_append_empty (d : Dict Val) : d.map (fun kv => (kv.1 ++ "", kv.2)) = d := by
  conv => rhs; rw [← List.map_id d]
  apply List.map_congr_left
  intro kv _; simp

theorem applySuffix_none (d : Dict Val) :
    applySuffix none d = d.map (fun kv => (kv.1 ++ "", kv.2)) := (map_append_empty d).symm

theorem applySuffix_some (s : String) (d : Dict Val) :
    applySuffix (some s) d = d.map (fun kv => (kv.1 ++ s, kv.2)) := by
  unfold applySuffix
  simp only []
  split
  · rename_i he
    have : s = "" := by simpa using he
    subst this; exact (map_append_empty d).symm
  · rfl

theorem append_right_cancel {a b s : String} (h : a ++ s = b ++ s) : a = b := by
  have := congrArg String.toList h
  simp only [String.toList_append] at this
  exact String.toList_inj.mp (List.append_cancel_right this)

theorem WF_map_suffix {d : Dict Val} (h : d.WF) (s : String) :
    Dict.WF (d.map (fun kv => (kv.1 ++ s, kv.2))) := by
  unfold Dict.WF Dict.keys at *
  rw [List.map_map]
  have : ((fun x : String × Val => x.1) ∘ fun kv : String × Val => (kv.1 ++ s, kv.2)) =
      (fun k => k ++ s) ∘ (fun x : String × Val => x.1) := rfl
  rw [this, ← List.map_map]
  exact List.Pairwise.map _ (fun x y hxy e => hxy (append_right_cancel e)) h

theorem WF_applySuffix {d : Dict Val} (h : d.WF) (suffix : Option String) :
    (applySuffix suffix d).WF := by
  cases suffix with
  | none => rw [applySuffix_none]; exact WF_map_suffix h ""
  | some s => rw [applySuffix_some]; exact WF_map_suffix h s

theorem mapM_mk_all_ok {f : Cell → Cell} {t : List Cell} (h : ∀ c ∈ t, (f c).datesOk = true) :
    t.mapM (fun c => (f c).mk?) = .ok (t.map f) := by
  induction t with
  | nil => rfl
  | cons a t ih =>
    rw [List.mapM_cons, ih (fun c hc => h c (by simp [hc]))]
    simp [Cell.mk?, h a (by simp), bind, Except.bind, pure, Except.pure]

theorem select_frame (ks : List String) (c : Cell) :
    c.select ks = { c with values := (c.select ks).values } := rfl

/-- on a triangle `select` is the cell-wise restriction of the value dicts, order unchanged -/
theorem select_eq_map {t : List Cell} (ks : List String) (ht : Canonical t) :
    Triangle.select t ks = .ok (t.map (·.select ks)) := by
  unfold Triangle.select
  have : t.mapM (fun c => (c.select ks).mk?) = .ok (t.map (·.select ks)) :=
    mapM_mk_all_ok (f := (·.select ks)) (fun c hc => ht.2.2 c hc)
  simp only [bind, Except.bind, this]
  exact ofCells_idem (frame_map_canonical (select_frame ks) ht)

theorem joinKey_frame {f : Cell → Cell} (hf : ∀ c, f c = { c with values := (f c).values })
    (inc : Bool) (c : Cell) : joinKey inc (f c) = joinKey inc c := by
  rw [hf c]; rfl

theorem isIncremental_map_frame {f : Cell → Cell} (hf : ∀ c, f c = { c with values := (f c).values })
    (t : List Cell) : isIncremental (t.map f) = isIncremental t := by
  cases t with
  | nil => rfl
  | cons c t => simp only [List.map_cons, isIncremental]; rw [hf c]

theorem keys_map_frame {f : Cell → Cell} (hf : ∀ c, f c = { c with values := (f c).values })
    (inc : Bool) (t : List Cell) : (t.map f).map (joinKey inc) = t.map (joinKey inc) := by
  rw [List.map_map]; apply List.map_congr_left; intro c _; exact joinKey_frame hf inc c

theorem dictGet_map_frame {f : Cell → Cell} (hf : ∀ c, f c = { c with values := (f c).values })
    {inc : Bool} {t : List Cell} (hn : (t.map (joinKey inc)).Nodup) {c : Cell} (hc : c ∈ t) :
    dictGet inc (t.map f) (joinKey inc c) = some (f c) := by
  have hn' : ((t.map f).map (joinKey inc)).Nodup := by rw [keys_map_frame hf]; exact hn
  rw [dictGet_eq_cellAt hn']
  exact (cellAt_eq_some_iff hn').mpr ⟨List.mem_map.mpr ⟨c, hc, rfl⟩, joinKey_frame hf inc c⟩

theorem cmp_frame {f : Cell → Cell} (hf : ∀ c, f c = { c with values := (f c).values }) (a b : Cell) :
    Cell.cmp (f a) (f b) = Cell.cmp a b := by rw [hf a, hf b]; rfl

/-- cells that tie under `Cell.__lt__` are identical when coordinates are distinct -/
theorem ties_identical_map {f : Cell → Cell} (hf : ∀ c, f c = { c with values := (f c).values })
    {t : List Cell} (hc : ∀ c ∈ t, c.md.Canon) (hn : (t.map Cell.coord).Nodup) :
    ∀ a b, a ∈ t.map f → b ∈ t.map f → Cell.cmp a b = .eq → a = b := by
  intro a b ha hb hab
  obtain ⟨a0, ha0, rfl⟩ := List.mem_map.mp ha
  obtain ⟨b0, hb0, rfl⟩ := List.mem_map.mp hb
  rw [cmp_frame hf] at hab
  have := (Cell.cmp_eq_eq (hc a0 ha0) (hc b0 hb0)).mp hab
  rw [inj_of_nodup_map hn ha0 hb0 this]

theorem addStatics_block {src : List Cell} (st : List String)
    (hs : src.Pairwise (fun a b => Cell.le a b)) {blk : List Cell} {m : Metadata}
    (hblk : ∀ c ∈ blk, c.md = m) :
    addStaticsBlockLit (Triangle.slices src) st (m, blk) = blk.map (addStaticsCell src st) := by
  unfold addStaticsBlockLit
  simp only []
  rw [slices_eq, find?_map_key]
  by_cases hm : m ∈ firstKeys (fun c : Cell => c.md) src
  · rw [if_pos hm]
    simp only []
    rw [slice_sorted hs]
    unfold addStaticsSliceLit
    apply List.map_congr_left
    intro c hc
    have hcm := hblk c hc
    subst hcm
    rw [sourceIndexedGet_eq]
    rfl
  · rw [if_neg hm]
    simp only []
    conv => lhs; rw [← List.map_id blk]
    apply List.map_congr_left
    intro c hc
    have hnone : sourceCell? src c = none := by
      unfold sourceCell?
      have : src.filter (fun s => s.md == c.md && s.ps == c.ps && s.pe == c.pe) = [] := by
        rw [List.filter_eq_nil_iff]
        intro s hsm hcond
        simp only [Bool.and_eq_true, beq_iff_eq] at hcond
        exact hm ((mem_firstKeys _ src m).mpr ⟨s, hsm, hcond.1.1.trans (hblk c hc)⟩)
      rw [this]; simp [lastBy?]
    unfold addStaticsCell; rw [hnone]; rfl

theorem periodMergeCell_of_le {b : List Cell} {suffix : Option String} {c : Cell}
    (h : (b.filter (samePeriodKey c)).length ≤ 1) :
    periodMergeCell b suffix c = .ok (pmCell b suffix c) := by
  unfold periodMergeCell pmCell
  match hf : b.filter (samePeriodKey c), h with
  | [], _ => rfl
  | [r], _ => rfl
  | _ :: _ :: _, h => simp at h

theorem periodMergeCell_of_gt {b : List Cell} {suffix : Option String} {c : Cell}
    (h : ¬ (b.filter (samePeriodKey c)).length ≤ 1) :
    periodMergeCell b suffix c = .error .valueError := by
  unfold periodMergeCell
  match hf : b.filter (samePeriodKey c), h with
  | [], h => simp at h
  | [r], h => simp at h
  | _ :: _ :: _, _ => rfl

theorem periodMergeCell_error {b : List Cell} {suffix : Option String} {c : Cell} {e : Err}
    (h : periodMergeCell b suffix c = .error e) : e = .valueError := by
  unfold periodMergeCell at h
  split at h <;> cases h
  rfl

/-- one group of the literal loop = the cell-wise map on the group -/
theorem periodMergeGroupLit_spec (b : List Cell) (suffix : Option String)
    (k : Date × Date × Metadata) (row : List Cell) (hrow : ∀ c ∈ row, pmIdx c = k) :
    periodMergeGroupLit (groupBy pmIdx b) suffix (k, row) =
      if (b.filter (fun r => pmIdx r == k)).length ≤ 1 then .ok (row.map (pmCell b suffix))
      else .error .valueError := by
  unfold periodMergeGroupLit
  simp only []
  rw [groupGet_groupBy]
  have hcell : ∀ c ∈ row, b.filter (samePeriodKey c) = b.filter (fun r => pmIdx r == k) := by
    intro c hc; rw [filter_samePeriodKey, hrow c hc]
  match hf : b.filter (fun r => pmIdx r == k) with
  | [] =>
    simp only [List.length_nil, Nat.zero_le, if_true]
    congr 1
    conv => lhs; rw [← List.map_id row]
    apply List.map_congr_left
    intro c hc
    unfold pmCell; rw [hcell c hc, hf]; rfl
  | [r] =>
    simp only [List.length_singleton, Nat.le_refl, if_true]
    congr 1
    apply List.map_congr_left
    intro c hc
    unfold pmCell; rw [hcell c hc, hf]
  | _ :: _ :: _ => simp


theorem periodMergeLit_unfold (a b : List Cell) (suffix : Option String) :
    periodMergeLit a b suffix =
      if kindMismatch a b then .error .valueError
      else Except.bind ((groupBy pmIdx a).mapM (periodMergeGroupLit (groupBy pmIdx b) suffix))
        (fun out => Triangle.ofCells out.flatten) := by
  unfold periodMergeLit
  by_cases h : kindMismatch a b = true
  · simp [h, bind, Except.bind, throw, throwThe, MonadExceptOf.throw]
  · simp only [h, bind, Except.bind]
    rfl

theorem periodMerge_unfold (a b : List Cell) (suffix : Option String) :
    periodMerge a b suffix =
      if kindMismatch a b then .error .valueError
      else Except.bind (a.mapM (periodMergeCell b suffix)) Triangle.ofCells := by
  unfold periodMerge
  by_cases h : kindMismatch a b = true
  · simp [h, bind, Except.bind, throw, throwThe, MonadExceptOf.throw]
  · simp only [h, bind, Except.bind]
    rfl

/-! ### the LAST cell at a key (`Spec.cellAtLast`, `Spec.sortedOn`): what the dict comprehension keeps -/

theorem dictGet_eq_cellAtLast (inc : Bool) (t : List Cell) (k : Coord) :
    dictGet inc t k = Spec.cellAtLast inc t k := by
  induction t with
  | nil => rfl
  | cons c t ih =>
    simp only [dictGet, Spec.cellAtLast, List.filter_cons] at ih ⊢
    rw [ih]
    by_cases hk : (joinKey inc c == k) = true
    · rw [if_pos hk, if_pos hk, List.getLast?_cons]
      cases (List.filter (fun c => joinKey inc c == k) t).getLast? <;> rfl
    · rw [if_neg hk, if_neg hk]
      cases (List.filter (fun c => joinKey inc c == k) t).getLast? <;> rfl

theorem cellAtLast_some {inc : Bool} {t : List Cell} {k : Coord} {x : Cell}
    (h : Spec.cellAtLast inc t k = some x) : x ∈ t ∧ joinKey inc x = k := by
  rw [← dictGet_eq_cellAtLast] at h; exact dictGet_some h

theorem reduceOn_eq_sortedOn {on : Option (List String)} {a a' : List Cell}
    (h : reduceOn on a = .ok a') : a' = Spec.sortedOn on a := by
  unfold reduceOn at h
  unfold Spec.sortedOn
  split at h
  · unfold selectMetadata Triangle.ofCells at h
    split at h
    · cases h; rfl
    · cases h
  · rename_i hh
    cases h; split
    · rename_i x xs; exact absurd rfl (hh x xs)
    · rfl

theorem sortedOn_perm (on : Option (List String)) (a : List Cell) :
    (Spec.sortedOn on a).Perm (Spec.onCells on a) := by
  unfold Spec.sortedOn Spec.onCells
  split
  · exact List.mergeSort_perm _ _
  · exact List.Perm.refl _

theorem cellAtLast_sortedOn_eq_cellAt {inc : Bool} {on : Option (List String)} {a : List Cell}
    (hn : ((Spec.onCells on a).map (joinKey inc)).Nodup) (k : Coord) :
    Spec.cellAtLast inc (Spec.sortedOn on a) k = Spec.cellAt inc (Spec.onCells on a) k := by
  have hp := sortedOn_perm on a
  have hn' : ((Spec.sortedOn on a).map (joinKey inc)).Nodup := (hp.map _).nodup_iff.mpr hn
  rw [← dictGet_eq_cellAtLast, dictGet_eq_cellAt hn', cellAt_perm hn' hp]

theorem mem_sortedOn_values {on : Option (List String)} {t : List Cell} {x : Cell}
    (hx : x ∈ Spec.sortedOn on t) : ∃ c ∈ t, x.values = c.values :=
  mem_onCells_values ((sortedOn_perm on t).mem_iff.mp hx)

theorem sortedOn_sorted {on : Option (List String)} {a : List Cell}
    (hs : a.Pairwise (fun x y => Cell.le x y)) :
    (Spec.sortedOn on a).Pairwise (fun x y => Cell.le x y) := by
  unfold Spec.sortedOn
  split
  · exact sorted_mergeSort (cmp := Cell.cmp) _
  · exact hs

theorem cellAtLast_max {inc : Bool} {t : List Cell} (hs : t.Pairwise (fun x y => Cell.le x y))
    {k : Coord} {x : Cell} (h : Spec.cellAtLast inc t k = some x) :
    ∀ y ∈ t, joinKey inc y = k → Cell.le y x = true := by
  intro y hy hk
  unfold Spec.cellAtLast at h
  have hsf : (t.filter (fun c => joinKey inc c == k)).Pairwise (fun x y => Cell.le x y) :=
    hs.sublist List.filter_sublist
  have hyf : y ∈ t.filter (fun c => joinKey inc c == k) := List.mem_filter.mpr ⟨hy, by simpa using hk⟩
  generalize t.filter (fun c => joinKey inc c == k) = F at h hsf hyf
  obtain ⟨F', rfl⟩ : ∃ F', F = F' ++ [x] := by
    rcases List.eq_nil_or_concat F with rfl | ⟨F', b, rfl⟩
    · simp at h
    · simp at h; subst h; exact ⟨F', by simp⟩
  rcases List.mem_append.mp hyf with hy' | hy'
  · exact (List.pairwise_append.mp hsf).2.2 y hy' x (by simp)
  · simp at hy'; subst hy'
    show (Cell.cmp y y != .gt) = true
    rw [Std.ReflCmp.compare_self (cmp := Cell.cmp)]; rfl

/-- cells with equal join key and equal `prev` tie under `Cell.__lt__` -/
theorem le_of_key_eq {inc : Bool} {x y : Cell} (hk : joinKey inc x = joinKey inc y)
    (hp : x.prev = y.prev) : Cell.le x y = true := by
  simp only [joinKey, Coord.mk.injEq] at hk
  obtain ⟨h1, h2, h3, h4, _⟩ := hk
  have : Cell.cmp x y = .eq := by
    simp only [Cell.cmp, compareLex_eq_eq, cmpOn, h1, h2, h3, h4, hp,
      Std.ReflCmp.compare_self (cmp := Metadata.cmp), Std.ReflCmp.compare_self (cmp := Date.cmp),
      Std.ReflCmp.compare_self (cmp := optDateCmp), and_self]
  simp [Cell.le, this]

/-- stable sort and filter: when the selected elements tie pairwise, the sort keeps them in their
original order -/
theorem filter_mergeSort_of_ties {L : List Cell} {p : Cell → Bool}
    (htie : ∀ x ∈ L, ∀ y ∈ L, p x = true → p y = true → Cell.le x y = true) :
    (L.mergeSort Cell.le).filter p = L.filter p := by
  have hpw : (L.filter p).Pairwise (fun x y => Cell.le x y) := by
    rw [List.pairwise_iff_forall_sublist]
    intro x y hxy
    have hx : x ∈ L.filter p := hxy.subset (by simp)
    have hy : y ∈ L.filter p := hxy.subset (by simp)
    exact htie x (List.mem_filter.mp hx).1 y (List.mem_filter.mp hy).1
      (List.mem_filter.mp hx).2 (List.mem_filter.mp hy).2
  have hsub : (L.filter p) <+ L.mergeSort Cell.le :=
    List.sublist_mergeSort (le := Cell.le)
      (fun a b c h1 h2 => leOf_trans (cmp := Cell.cmp) a b c h1 h2)
      (fun a b => leOf_total (cmp := Cell.cmp) a b) hpw List.filter_sublist
  have hsub2 : (L.filter p) <+ (L.mergeSort Cell.le).filter p := by
    have := hsub.filter p
    simpa only [List.filter_filter, Bool.and_self] using this
  have hlen : ((L.mergeSort Cell.le).filter p).length = (L.filter p).length :=
    ((List.mergeSort_perm L Cell.le).filter p).length_eq
  exact (hsub2.eq_of_length hlen.symm).symm

theorem cellAtLast_sortedOn_of_ties {inc : Bool} {on : Option (List String)} {a : List Cell}
    (hprev : ∀ x ∈ a, ∀ y ∈ a, x.prev = y.prev ∨ inc = true) (k : Coord) :
    Spec.cellAtLast inc (Spec.sortedOn on a) k = Spec.cellAtLast inc (Spec.onCells on a) k := by
  unfold Spec.sortedOn Spec.onCells
  split
  · rename_i x xs
    unfold Spec.cellAtLast
    rw [filter_mergeSort_of_ties]
    intro u hu v hv pu pv
    obtain ⟨u0, hu0, rfl⟩ := List.mem_map.mp hu
    obtain ⟨v0, hv0, rfl⟩ := List.mem_map.mp hv
    have hk : joinKey inc (u0.selectOn (x :: xs)) = joinKey inc (v0.selectOn (x :: xs)) := by
      rw [beq_iff_eq] at pu pv; rw [pu, pv]
    refine le_of_key_eq hk ?_
    rcases hprev u0 hu0 v0 hv0 with h | h
    · exact h
    · subst h
      simp only [joinKey, Coord.mk.injEq] at hk
      exact hk.2.2.2.2
  · rfl

/-- cumulative / plain cells that satisfy the date rules have no `prev_evaluation_date` -/
theorem prev_eq_of_not_incremental {t : List Cell} (hd : ∀ c ∈ t, c.datesOk = true)
    (hk : ∀ c ∈ t, c.kind ≠ .incremental) : ∀ x ∈ t, ∀ y ∈ t, x.prev = y.prev := by
  have hn : ∀ c ∈ t, c.prev = none := by
    intro c hc
    have h1 := hd c hc
    have h2 := hk c hc
    unfold Cell.datesOk at h1
    cases hkind : c.kind <;> cases hprev : c.prev <;> simp_all
  intro x hx y hy
  rw [hn x hx, hn y hy]

end Bermuda.Properties.C10
