/-
Helper lemmas for the regrouping equivalences of C10 (`addStaticsLit_eq`, `periodMergeLit_eq`):
`groupBy` as a lookup table, keys in first-appearance order, the groups of a list are a permutation
of it. Namespace `Bermuda.JoinL`. Core Lean only.
-/
import Bermuda.Lemmas.Join
namespace Bermuda.JoinL
open Bermuda List

/-! ### `groupBy` (toolz.groupby / defaultdict(list)) as a lookup table -/

/-- the body of the `foldl` in `groupBy` -/
def gstep {α κ} [BEq κ] (key : α → κ) (acc : List (κ × List α)) (a : α) : List (κ × List α) :=
  let k := key a
  if acc.any (·.1 == k) then acc.map (fun p => if p.1 == k then (p.1, p.2 ++ [a]) else p)
  else acc ++ [(k, [a])]

theorem groupBy_eq_foldl {α κ} [BEq κ] (key : α → κ) (l : List α) :
    groupBy key l = l.foldl (gstep key) [] := rfl

theorem find?_map_keep_key {α κ} [BEq κ] (F : κ × List α → κ × List α) (hF : ∀ p, (F p).1 = p.1)
    (g : List (κ × List α)) (k : κ) :
    (g.map F).find? (fun e => e.1 == k) = (g.find? (fun e => e.1 == k)).map F := by
  induction g with
  | nil => rfl
  | cons p g ih =>
    simp only [List.map_cons, List.find?_cons, hF]
    split
    · rfl
    · exact ih

theorem groupGet_gstep {α κ} [BEq κ] [LawfulBEq κ] (key : α → κ) (acc : List (κ × List α)) (a : α)
    (k : κ) : groupGet (gstep key acc a) k = if key a == k then groupGet acc k ++ [a] else groupGet acc k := by
  unfold gstep
  simp only []
  split
  · rename_i hany
    unfold groupGet
    rw [find?_map_keep_key _ (fun p => by split <;> rfl)]
    cases hf : acc.find? (fun e => e.1 == k) with
    | some p =>
      have hp : p.1 = k := by simpa using List.find?_some hf
      simp only [Option.map_some]
      by_cases hk : key a = k
      · subst hk; simp [hp]
      · have h1 : (key a == k) = false := by simpa using hk
        have h2 : (p.1 == key a) = false := by rw [hp]; simpa using fun e => hk e.symm
        simp [h1, h2]
    | none =>
      simp only [Option.map_none]
      by_cases hk : key a = k
      · subst hk
        obtain ⟨e, he, hek⟩ := List.any_eq_true.mp hany
        have := List.find?_eq_none.mp hf e he
        simp [hek] at this
      · have h1 : (key a == k) = false := by simpa using hk
        simp [h1]
  · rename_i hany
    unfold groupGet
    rw [List.find?_append]
    cases hf : acc.find? (fun e => e.1 == k) with
    | some p =>
      simp only [Option.some_or]
      by_cases hk : key a = k
      · subst hk
        have hm := List.mem_of_find?_eq_some hf
        have hp := List.find?_some hf
        exact absurd (List.any_eq_true.mpr ⟨p, hm, hp⟩) hany
      · have h1 : (key a == k) = false := by simpa using hk
        simp [h1]
    | none =>
      simp only [Option.none_or, List.find?_cons, List.find?_nil]
      by_cases hk : key a = k
      · subst hk; simp
      · have h1 : (key a == k) = false := by simpa using hk
        simp [h1]

theorem groupGet_foldl {α κ} [BEq κ] [LawfulBEq κ] (key : α → κ) (l : List α)
    (acc : List (κ × List α)) (k : κ) :
    groupGet (l.foldl (gstep key) acc) k = groupGet acc k ++ l.filter (fun a => key a == k) := by
  induction l generalizing acc with
  | nil => simp
  | cons a l ih =>
    rw [List.foldl_cons, ih, groupGet_gstep, List.filter_cons]
    split <;> simp

/-- `groupby(key, l).get(k, []) = [a for a in l if key(a) == k]` -/
theorem groupGet_groupBy {α κ} [BEq κ] [LawfulBEq κ] (key : α → κ) (l : List α) (k : κ) :
    groupGet (groupBy key l) k = l.filter (fun a => key a == k) := by
  rw [groupBy_eq_foldl, groupGet_foldl]; rfl


/-! ### keys in first-appearance order -/

def fstep {α κ} [BEq κ] (key : α → κ) (acc : List κ) (a : α) : List κ :=
  if acc.contains (key a) then acc else acc ++ [key a]

def firstKeys {α κ} [BEq κ] (key : α → κ) (l : List α) : List κ := l.foldl (fstep key) []

theorem metasOf_eq_firstKeys (t : List Cell) : metasOf t = firstKeys (fun c : Cell => c.md) t := rfl

theorem foldl_fstep_spec {α κ} [BEq κ] [LawfulBEq κ] (key : α → κ) (l : List α) (acc : List κ)
    (hn : acc.Nodup) :
    (l.foldl (fstep key) acc).Nodup ∧
    ∀ k, k ∈ l.foldl (fstep key) acc ↔ k ∈ acc ∨ ∃ a ∈ l, key a = k := by
  induction l generalizing acc with
  | nil => simp [hn]
  | cons a l ih =>
    rw [List.foldl_cons]
    have hn' : (fstep key acc a).Nodup := by
      unfold fstep
      split
      · exact hn
      · rename_i hc
        rw [List.nodup_append]
        refine ⟨hn, by simp, ?_⟩
        intro x hx y hy
        simp at hy; subst hy
        intro e; subst e
        exact hc (List.contains_iff_mem.mpr hx)
    obtain ⟨h1, h2⟩ := ih (fstep key acc a) hn'
    refine ⟨h1, fun k => ?_⟩
    rw [h2]
    have hmem : k ∈ fstep key acc a ↔ k ∈ acc ∨ key a = k := by
      unfold fstep
      split
      · rename_i hc
        have := List.contains_iff_mem.mp hc
        constructor
        · exact Or.inl
        · rintro (h | h)
          · exact h
          · exact h ▸ this
      · simp [eq_comm]
    rw [hmem]
    simp only [List.mem_cons, exists_eq_or_imp]
    constructor
    · rintro ((h | h) | h)
      · exact Or.inl h
      · exact Or.inr (Or.inl h)
      · exact Or.inr (Or.inr h)
    · rintro (h | h | h)
      · exact Or.inl (Or.inl h)
      · exact Or.inl (Or.inr h)
      · exact Or.inr h

theorem firstKeys_nodup {α κ} [BEq κ] [LawfulBEq κ] (key : α → κ) (l : List α) :
    (firstKeys key l).Nodup := (foldl_fstep_spec key l [] List.nodup_nil).1

theorem mem_firstKeys {α κ} [BEq κ] [LawfulBEq κ] (key : α → κ) (l : List α) (k : κ) :
    k ∈ firstKeys key l ↔ ∃ a ∈ l, key a = k := by
  rw [firstKeys, (foldl_fstep_spec key l [] List.nodup_nil).2]; simp

theorem gstep_keys {α κ} [BEq κ] [LawfulBEq κ] (key : α → κ) (acc : List (κ × List α)) (a : α) :
    (gstep key acc a).map (·.1) = fstep key (acc.map (·.1)) a := by
  unfold gstep fstep
  have : acc.any (fun x => x.1 == key a) = (acc.map (·.1)).contains (key a) := by
    induction acc with
    | nil => rfl
    | cons p acc ih => simp only [List.any_cons, List.map_cons, List.contains_cons, ih, BEq.comm (a := p.1)]
  simp only [this]
  split
  · rw [List.map_map]
    apply List.map_congr_left
    intro p _
    simp only [Function.comp]
    split <;> rfl
  · simp

theorem groupBy_keys {α κ} [BEq κ] [LawfulBEq κ] (key : α → κ) (l : List α) :
    (groupBy key l).map (·.1) = firstKeys key l := by
  rw [groupBy_eq_foldl, firstKeys]
  suffices ∀ acc : List (κ × List α),
      (l.foldl (gstep key) acc).map (·.1) = l.foldl (fstep key) (acc.map (·.1)) from this []
  induction l with
  | nil => intro acc; rfl
  | cons a l ih => intro acc; rw [List.foldl_cons, List.foldl_cons, ih, gstep_keys]

theorem groupGet_of_mem {α κ} [BEq κ] [LawfulBEq κ] {g : List (κ × List α)}
    (hn : (g.map (·.1)).Nodup) {p : κ × List α} (hp : p ∈ g) : groupGet g p.1 = p.2 := by
  induction g with
  | nil => cases hp
  | cons q g ih =>
    rw [List.map_cons, List.nodup_cons] at hn
    unfold groupGet
    rw [List.find?_cons]
    rcases List.mem_cons.mp hp with rfl | hp'
    · simp
    · have hne : q.1 ≠ p.1 := fun e => hn.1 (e ▸ List.mem_map.mpr ⟨p, hp', rfl⟩)
      have hb : (q.1 == p.1) = false := by simpa using hne
      rw [hb]
      exact ih hn.2 hp'

/-- every entry of `groupBy` is `(k, [a ∈ l | key a = k])` -/
theorem groupBy_entry {α κ} [BEq κ] [LawfulBEq κ] (key : α → κ) (l : List α)
    {p : κ × List α} (hp : p ∈ groupBy key l) : p.2 = l.filter (fun a => key a == p.1) := by
  rw [← groupGet_groupBy key l p.1]
  exact (groupGet_of_mem (by rw [groupBy_keys]; exact firstKeys_nodup key l) hp).symm

theorem groupBy_eq_map {α κ} [BEq κ] [LawfulBEq κ] (key : α → κ) (l : List α) :
    groupBy key l = (firstKeys key l).map (fun k => (k, l.filter (fun a => key a == k))) := by
  rw [← groupBy_keys, List.map_map]
  conv => lhs; rw [← List.map_id (groupBy key l)]
  apply List.map_congr_left
  intro p hp
  simp only [Function.comp, id]
  exact Prod.ext rfl (groupBy_entry key l hp)

/-! ### partition -/

/-- the groups of a list, concatenated in any duplicate-free key order, are a permutation of it -/
theorem flatMap_filter_perm {α κ} [BEq κ] [LawfulBEq κ] (key : α → κ) (ks : List κ) (l : List α)
    (hn : ks.Nodup) (hcov : ∀ a ∈ l, key a ∈ ks) :
    (ks.flatMap (fun k => l.filter (fun a => key a == k))).Perm l := by
  induction ks generalizing l with
  | nil =>
    cases l with
    | nil => exact List.Perm.refl _
    | cons a l => exact absurd (hcov a (by simp)) (by simp)
  | cons k ks ih =>
    rw [List.nodup_cons] at hn
    rw [List.flatMap_cons]
    have hrest : ks.flatMap (fun k' => l.filter (fun a => key a == k')) =
        ks.flatMap (fun k' => (l.filter (fun a => !(key a == k))).filter (fun a => key a == k')) := by
      rw [List.flatMap_def, List.flatMap_def]
      congr 1
      apply List.map_congr_left
      intro k' hk'
      rw [List.filter_filter]
      apply List.filter_congr
      intro a _
      have hne : k' ≠ k := fun e => hn.1 (e ▸ hk')
      by_cases h : key a = k'
      · subst h
        have : (key a == k) = false := by simpa using hne
        simp [this]
      · have : (key a == k') = false := by simpa using h
        simp [this]
    rw [hrest]
    have ih' := ih (l.filter (fun a => !(key a == k))) hn.2 (by
      intro a ha
      obtain ⟨hal, hak⟩ := List.mem_filter.mp ha
      rcases List.mem_cons.mp (hcov a hal) with h | h
      · simp [h] at hak
      · exact h)
    exact (List.Perm.append_left _ ih').trans (List.filter_append_perm _ l)

/-! ### slices, source lookup, `mapM` -/

theorem perm_flatMap_blocks {α β} {l : List α} {f g : α → List β} (h : ∀ a ∈ l, (f a).Perm (g a)) :
    (l.flatMap f).Perm (l.flatMap g) := by
  induction l with
  | nil => exact List.Perm.refl _
  | cons a l ih =>
    rw [List.flatMap_cons, List.flatMap_cons]
    exact List.Perm.append (h a (by simp)) (ih (fun x hx => h x (by simp [hx])))

theorem find?_map_key {κ β} [BEq κ] [LawfulBEq κ] (ks : List κ) (F : κ → β) (k0 : κ) :
    (ks.map (fun k => (k, F k))).find? (fun e => e.1 == k0) =
      if k0 ∈ ks then some (k0, F k0) else none := by
  induction ks with
  | nil => rfl
  | cons k ks ih =>
    simp only [List.map_cons, List.find?_cons]
    by_cases h : k = k0
    · subst h; simp
    · have hb : (k == k0) = false := by simpa using h
      simp only [hb, ih]
      have : (k0 ∈ k :: ks) ↔ k0 ∈ ks := by
        rw [List.mem_cons]
        exact ⟨fun h' => h'.resolve_left (fun e => h e.symm), Or.inr⟩
      by_cases hm : k0 ∈ ks
      · rw [if_pos hm, if_pos (this.mpr hm)]
      · rw [if_neg hm, if_neg (fun h' => hm (this.mp h'))]

theorem slices_eq (t : List Cell) :
    Triangle.slices t =
      (firstKeys (fun c : Cell => c.md) t).map
        (fun m => (m, (t.filter (fun c => c.md == m)).mergeSort Cell.le)) := rfl

/-- in a sorted source the slice of `m` is the filtered list itself -/
theorem slice_sorted {src : List Cell} (hs : src.Pairwise (fun a b => Cell.le a b)) (m : Metadata) :
    (src.filter (fun c => c.md == m)).mergeSort Cell.le = src.filter (fun c => c.md == m) :=
  mergeSort_sublist_sorted (cmp := Cell.cmp) List.filter_sublist hs

/-- the literal lookup chain (`slices.get` → `groupby(period)` → latest → `.get(period)`) finds the
same source cell as the direct filter, for a sorted source -/
theorem sourceIndexedGet_eq {src : List Cell} (c : Cell) :
    sourceIndexedGet (src.filter (fun s => s.md == c.md)) c = sourceCell? src c := by
  have h1 : sourceIndexedGet (src.filter (fun s => s.md == c.md)) c =
      lastBy? evLe (groupGet (groupBy (fun s : Cell => (s.ps, s.pe))
        (src.filter (fun s => s.md == c.md))) (c.ps, c.pe)) := by
    unfold sourceIndexedGet groupGet
    cases (groupBy (fun s : Cell => (s.ps, s.pe)) (src.filter (fun s => s.md == c.md))).find?
      (fun e => e.1 == (c.ps, c.pe)) with
    | some e => rfl
    | none => simp [lastBy?]
  rw [h1, groupGet_groupBy, List.filter_filter]
  unfold sourceCell?
  congr 1
  apply List.filter_congr
  intro s _
  show ((s.ps == c.ps && s.pe == c.pe) && s.md == c.md) = (s.md == c.md && s.ps == c.ps && s.pe == c.pe)
  cases s.ps == c.ps <;> cases s.pe == c.pe <;> cases s.md == c.md <;> rfl

theorem mapM_ok_of_all {α β ε} {f : α → Except ε β} {g : α → β} {l : List α}
    (h : ∀ a ∈ l, f a = .ok (g a)) : l.mapM f = .ok (l.map g) := by
  induction l with
  | nil => rfl
  | cons a l ih =>
    rw [List.mapM_cons, h a (by simp), ih (fun x hx => h x (by simp [hx]))]
    rfl

/-- index of `period_merge` -/
def pmIdx (c : Cell) : Date × Date × Metadata := (c.ps, c.pe, c.md)

theorem filter_samePeriodKey (b : List Cell) (c : Cell) :
    b.filter (samePeriodKey c) = b.filter (fun r => pmIdx r == pmIdx c) := by
  apply List.filter_congr
  intro r _
  show (r.ps == c.ps && r.pe == c.pe && r.md == c.md) = (r.ps == c.ps && (r.pe == c.pe && r.md == c.md))
  rw [Bool.and_assoc]

end Bermuda.JoinL
