/-
Helper lemmas for the Bool bridges of C10 (`Spec.mergeSpec`, `Spec.addStaticsSpec`,
`Spec.periodMergeSpec` hold of the model's results). Namespace `Bermuda.JoinL`.
Core Lean only.
-/
import Bermuda.Lemmas.Join
namespace Bermuda.JoinL
open Bermuda List Std

/-! ### the model's dict union satisfies `Spec.isRightUnion` -/

theorem get?_of_mem {α} {d : Dict α} (h : d.WF) {p : String × α} (hp : p ∈ d) :
    d.get? p.1 = some p.2 := by
  unfold Dict.WF Dict.keys at h
  induction d with
  | nil => cases hp
  | cons q d ih =>
    rw [List.map_cons, List.nodup_cons] at h
    rw [Dict.get?_cons_j]
    rcases List.mem_cons.mp hp with rfl | hp'
    · simp
    · have : q.1 ≠ p.1 := fun e => h.1 (e ▸ List.mem_map.mpr ⟨p, hp', rfl⟩)
      have hb : (q.1 == p.1) = false := by simpa using this
      rw [hb]; exact ih h.2 hp'

/-- the model's `{**l, **r}` satisfies the finite-map predicate of the Spec -/
theorem isRightUnion_union {l r : Dict Val} (hl : l.WF) (hr : r.WF) :
    Spec.isRightUnion l r (l.union r) = true := by
  have hw := Dict.WF_union hl r
  unfold Spec.isRightUnion
  simp only [Bool.and_eq_true, List.all_eq_true]
  refine ⟨⟨nodupB_iff.mpr hw, fun kv hkv => ?_⟩, fun k hk => ?_⟩
  · have h1 := get?_of_mem hw hkv
    rw [Dict.get?_union l r hr] at h1
    cases hg : Dict.get? r kv.1 with
    | some v => rw [hg] at h1; simp at h1; simp [h1]
    | none => rw [hg] at h1; simp at h1; simp [h1]
  · rw [List.contains_iff_mem, Dict.mem_keys_union]
    exact List.mem_append.mp hk

theorem sameFrame_values (x : Cell) (v : Dict Val) : Spec.sameFrame x { x with values := v } = true := by
  simp [Spec.sameFrame]

theorem mergeCellPair_key {inc : Bool} {p : CellPair} {c : Cell} (h : mergeCellPair p = some c) :
    Spec.pairKey? inc p = some (joinKey inc c) := by
  obtain ⟨p1, p2⟩ := p
  cases p1 <;> cases p2 <;> simp [mergeCellPair] at h <;> subst h <;> rfl

theorem mem_onCells_values {on : Option (List String)} {t : List Cell} {x : Cell}
    (hx : x ∈ Spec.onCells on t) : ∃ c ∈ t, x.values = c.values := by
  unfold Spec.onCells at hx
  split at hx
  · obtain ⟨c, hc, rfl⟩ := List.mem_map.mp hx
    exact ⟨c, hc, rfl⟩
  · exact ⟨x, hx, rfl⟩

/-! ### fold-max (Spec) = last of the stable sort (model) -/

/-- `≤` on evaluation dates as the Bool the sort uses -/
def evCmpJ : Cell → Cell → Ordering := cmpOn (fun c : Cell => c.ev) Date.cmp
instance : TransCmp evCmpJ := by unfold evCmpJ; infer_instance
def evLeB (a b : Cell) : Bool := leOf evCmpJ a b
theorem evLeB_trans {a b c : Cell} (h1 : evLeB a b = true) (h2 : evLeB b c = true) :
    evLeB a c = true := leOf_trans (cmp := evCmpJ) a b c h1 h2

/-- the fold of `Spec.latestSource?` -/
def maxStep (best : Option Cell) (s : Cell) : Option Cell :=
  match best with
  | none => some s
  | some b => if Date.cmp b.ev s.ev == .lt then some s else some b

theorem foldl_maxStep_some (L : List Cell) (b : Cell) :
    ∃ m, L.foldl maxStep (some b) = some m ∧ m ∈ b :: L ∧ ∀ x ∈ b :: L, evLeB x m = true := by
  induction L generalizing b with
  | nil =>
    refine ⟨b, rfl, by simp, fun x hx => ?_⟩
    simp at hx; subst hx
    simp [evLeB, leOf, evCmpJ, cmpOn, ReflCmp.compare_self (cmp := Date.cmp)]
  | cons s L ih =>
    rw [List.foldl_cons]
    by_cases hlt : Date.cmp b.ev s.ev = .lt
    · have hstep : maxStep (some b) s = some s := by simp [maxStep, hlt]
      rw [hstep]
      obtain ⟨m, hm, hmem, hmax⟩ := ih s
      refine ⟨m, hm, List.mem_cons_of_mem _ hmem, fun x hx => ?_⟩
      rcases List.mem_cons.mp hx with rfl | hx
      · have h1 : evLeB x s = true := by simp [evLeB, leOf, evCmpJ, cmpOn, hlt]
        exact evLeB_trans h1 (hmax s (by simp))
      · exact hmax x hx
    · have hstep : maxStep (some b) s = some b := by simp [maxStep, hlt]
      rw [hstep]
      obtain ⟨m, hm, hmem, hmax⟩ := ih b
      refine ⟨m, hm, ?_, fun x hx => ?_⟩
      · rcases List.mem_cons.mp hmem with rfl | h
        · simp
        · exact List.mem_cons_of_mem _ (List.mem_cons_of_mem _ h)
      · rcases List.mem_cons.mp hx with rfl | hx
        · exact hmax x (by simp)
        · rcases List.mem_cons.mp hx with rfl | hx
          · have h1 : evLeB x b = true := by
              unfold evLeB leOf evCmpJ cmpOn
              rw [OrientedCmp.eq_swap (cmp := Date.cmp)]
              revert hlt
              cases Date.cmp b.ev x.ev <;> simp
            exact evLeB_trans h1 (hmax b (by simp))
          · exact hmax x (List.mem_cons_of_mem _ hx)

theorem foldl_maxStep (L : List Cell) :
    (L = [] ∧ L.foldl maxStep none = none) ∨
    ∃ m, L.foldl maxStep none = some m ∧ m ∈ L ∧ ∀ x ∈ L, evLeB x m = true := by
  cases L with
  | nil => exact Or.inl ⟨rfl, rfl⟩
  | cons b L =>
    right
    rw [List.foldl_cons]
    exact foldl_maxStep_some L b


theorem sourceCell?_noneJ {src : List Cell} {c : Cell} (h : sourceCell? src c = none) :
    ∀ s' ∈ src, ¬ (s'.md = c.md ∧ s'.ps = c.ps ∧ s'.pe = c.pe) := by
  unfold sourceCell? lastBy? at h
  intro s' hs' ⟨h1, h2, h3⟩
  have hmem : s' ∈ (src.filter (fun s => s.md == c.md && s.ps == c.ps && s.pe == c.pe)).mergeSort evLe :=
    (List.mergeSort_perm _ _).mem_iff.mpr (List.mem_filter.mpr ⟨hs', by simp [h1, h2, h3]⟩)
  rw [List.getLast?_eq_none_iff] at h
  rw [h] at hmem; cases hmem

theorem inj_of_nodup_map {α β} {f : α → β} {l : List α} (h : (l.map f).Nodup) {a b : α}
    (ha : a ∈ l) (hb : b ∈ l) (e : f a = f b) : a = b := by
  induction l with
  | nil => cases ha
  | cons c l ih =>
    rw [List.map_cons, List.nodup_cons] at h
    rcases List.mem_cons.mp ha with rfl | ha' <;> rcases List.mem_cons.mp hb with rfl | hb'
    · rfl
    · exact (h.1 (e ▸ List.mem_map.mpr ⟨b, hb', rfl⟩)).elim
    · exact (h.1 (e ▸ List.mem_map.mpr ⟨a, ha', rfl⟩)).elim
    · exact ih h.2 ha' hb'

/-- under "one source cell per (metadata, period, evaluation date)" the Spec's fold-max and the
model's last-of-stable-sort pick the same source cell -/
theorem latestSource?_eq_sourceCell? {src : List Cell} (hn : (src.map coalKey).Nodup) (c : Cell) :
    Spec.latestSource? src c = sourceCell? src c := by
  have hfold : Spec.latestSource? src c =
      (src.filter (fun s => s.md == c.md && s.ps == c.ps && s.pe == c.pe)).foldl maxStep none := rfl
  rw [hfold]
  rcases foldl_maxStep (src.filter (fun s => s.md == c.md && s.ps == c.ps && s.pe == c.pe)) with
    ⟨hnil, hnone⟩ | ⟨m, hm, hmem, hmax⟩
  · rw [hnone]
    unfold sourceCell? lastBy?
    rw [hnil]; simp
  · rw [hm]
    obtain ⟨hms, hmc⟩ := List.mem_filter.mp hmem
    simp only [Bool.and_eq_true, beq_iff_eq] at hmc
    cases hs : sourceCell? src c with
    | none => exact absurd ⟨hmc.1.1, hmc.1.2, hmc.2⟩ (sourceCell?_noneJ hs m hms)
    | some s =>
      have hle : evLe = leOf evCmpJ := rfl
      have hs' := hs
      unfold sourceCell? at hs'
      rw [hle] at hs'
      obtain ⟨hsm, hsmax⟩ := lastBy?_max hs'
      obtain ⟨hss, hsc⟩ := List.mem_filter.mp hsm
      simp only [Bool.and_eq_true, beq_iff_eq] at hsc
      have h1 : evLeB s m = true := hmax s hsm
      have h2 : leOf evCmpJ m s = true := hsmax m hmem
      have heq : evCmpJ s m = .eq := leOf_antisymm (cmp := evCmpJ) h1 h2
      have hev : s.ev = m.ev := Date.cmp_eq_eq.mp heq
      have hk : coalKey m = coalKey s := by
        simp only [coalKey, Coord.mk.injEq]
        exact ⟨hmc.1.1.trans hsc.1.1.symm, hmc.1.2.trans hsc.1.2.symm, hmc.2.trans hsc.2.symm,
          hev.symm, trivial⟩
      rw [inj_of_nodup_map hn hms hss hk]

end Bermuda.JoinL
