/-
Helper lemmas for C07: decimal digits of ISO dates, sortedness of typed cells.
-/
import Bermuda.Model.JsonIO
import Bermuda.Lemmas.Sort
namespace Bermuda.JsonIO
open Bermuda Std

theorem digitVal_digitChar : ∀ k, k < 10 → digitVal? (digitChar k) = some k := by decide
theorem digitChar_ne_dash : ∀ k, k < 10 → (digitChar k == '-') = false := by decide
theorem digitChar_mod (k : Nat) : digitChar k = digitChar (k % 10) := by
  unfold digitChar; simp

theorem natDigits_year (n : Nat) (h1 : 1000 ≤ n) (h2 : n ≤ 9999) :
    natDigits 5 n = [digitChar (n / 1000), digitChar (n / 100), digitChar (n / 10), digitChar n] := by
  have a : ¬ n < 10 := by omega
  have b : ¬ n / 10 < 10 := by omega
  have c : ¬ n / 100 < 10 := by omega
  have d : n / 1000 < 10 := by omega
  simp [natDigits, a, b, c, d, Nat.div_div_eq_div_mul]

theorem splitDash4 (a b c d : Char) (rest : List Char)
    (ha : (a == '-') = false) (hb : (b == '-') = false) (hc : (c == '-') = false) (hd : (d == '-') = false) :
    splitDash (a :: b :: c :: d :: '-' :: rest) = ([a, b, c, d], some rest) := by
  simp [splitDash, ha, hb, hc, hd]

theorem splitDash2 (a b : Char) (rest : List Char)
    (ha : (a == '-') = false) (hb : (b == '-') = false) :
    splitDash (a :: b :: '-' :: rest) = ([a, b], some rest) := by
  simp [splitDash, ha, hb]

theorem smallField_month : ∀ m, m < 13 → 1 ≤ m → smallField? false (pad2 m) = some m := by decide
theorem smallField_day : ∀ d, d < 32 → 1 ≤ d → smallField? true (pad2 d) = some d := by decide

theorem dim_le_31 (y : Int) (m : Nat) : dim y m ≤ 31 := by
  unfold dim; split <;> (try split) <;> omega

theorem JCell.le_eq (a b : JCell) : JCell.le a b = leOf Cell.cmp a.toCell b.toCell := rfl

theorem JCell.le_trans (a b c : JCell) : JCell.le a b = true → JCell.le b c = true → JCell.le a c = true := by
  simp only [JCell.le_eq]; exact leOf_trans _ _ _

theorem pairwise_of_sortedJ : ∀ t : List JCell, sortedJ t = true →
    t.Pairwise (fun a b => JCell.le a b = true)
  | [], _ => List.Pairwise.nil
  | [a], _ => by simp
  | a :: b :: rest, h => by
    simp only [sortedJ, Bool.and_eq_true] at h
    have ih := pairwise_of_sortedJ (b :: rest) h.2
    refine List.Pairwise.cons ?_ ih
    intro x hx
    rcases List.mem_cons.mp hx with rfl | hx
    · exact h.1
    · exact JCell.le_trans _ _ _ h.1 ((List.pairwise_cons.mp ih).1 x hx)

def typed (c : JCell) : JCell := { c with kind := typedKind c.kind }

theorem asTyped_eq_map (t : List JCell) : asTyped t = t.map typed := rfl

theorem le_typed (a b : JCell) : JCell.le (typed a) (typed b) = JCell.le a b := rfl

theorem kindsConsistent_typed (t : List JCell) (h : kindsConsistent (t.map JCell.toCell) = true) :
    kindsConsistent ((asTyped t).map JCell.toCell) = true := by
  unfold kindsConsistent at *
  simp only [asTyped_eq_map, List.map_map, List.all_map, Bool.or_eq_true, List.all_eq_true,
    Function.comp] at *
  rcases h with (h | h) | h
  · left; right; intro c hc
    have := h c hc
    simp only [JCell.toCell, typed, beq_iff_eq] at this ⊢
    rw [this]; rfl
  · left; right; intro c hc
    have := h c hc
    simp only [JCell.toCell, typed, beq_iff_eq] at this ⊢
    rw [this]; rfl
  · right; intro c hc
    have := h c hc
    simp only [JCell.toCell, typed, beq_iff_eq] at this ⊢
    rw [this]; rfl


end Bermuda.JsonIO
