/-
Helper lemmas for C07: decimal digits of ISO dates, sortedness of typed cells.
-/
import Bermuda.Model.JsonIO
import Bermuda.Lemmas.Sort
namespace Bermuda.JsonIO
open Bermuda Std

theorem digitVal_digitChar : ∀ k, k < 10 → digitVal? (digitChar k) = some k := by decide
theorem digitChar_ne_dash : ∀ k, k < 10 → (digitChar k == '-') = false := by decide
theorem digitChar_mod (k : Nat) : digitChar k = digitChar (k % 10) := by
  unfold digitChar; simp

theorem natDigits_year (n : Nat) (h1 : 1000 ≤ n) (h2 : n ≤ 9999) :
    natDigits 5 n = [digitChar (n / 1000), digitChar (n / 100), digitChar (n / 10), digitChar n] := by
  have a : ¬ n < 10 := by omega
  have b : ¬ n / 10 < 10 := by omega
  have c : ¬ n / 100 < 10 := by omega
  have d : n / 1000 < 10 := by omega
  simp [natDigits, a, b, c, d, Nat.div_div_eq_div_mul]

theorem splitDash4 (a b c d : Char) (rest : List Char)
    (ha : (a == '-') = false) (hb : (b == '-') = false) (hc : (c == '-') = false) (hd : (d == '-') = false) :
    splitDash (a :: b :: c :: d :: '-' :: rest) = ([a, b, c, d], some rest) := by
  simp [splitDash, ha, hb, hc, hd]

theorem splitDash2 (a b : Char) (rest : List Char)
    (ha : (a == '-') = false) (hb : (b == '-') = false) :
    splitDash (a :: b :: '-' :: rest) = ([a, b], some rest) := by
  simp [splitDash, ha, hb]

theorem smallField_month : ∀ m, m < 13 → 1 ≤ m → smallField? false (pad2 m) = some m := by decide
theorem smallField_day : ∀ d, d < 32 → 1 ≤ d → smallField? true (pad2 d) = some d := by decide

theorem dim_le_31 (y : Int) (m : Nat) : dim y m ≤ 31 := by
  unfold dim; split <;> (try split) <;> omega

theorem JCell.le_eq (a b : JCell) : JCell.le a b = leOf Cell.cmp a.toCell b.toCell := rfl

theorem JCell.le_trans (a b c : JCell) : JCell.le a b = true → JCell.le b c = true → JCell.le a c = true := by
  simp only [JCell.le_eq]; exact leOf_trans _ _ _

theorem pairwise_of_sortedJ : ∀ t : List JCell, sortedJ t = true →
    t.Pairwise (fun a b => JCell.le a b = true)
  | [], _ => List.Pairwise.nil
  | [a], _ => by simp
  | a :: b :: rest, h => by
    simp only [sortedJ, Bool.and_eq_true] at h
    have ih := pairwise_of_sortedJ (b :: rest) h.2
    refine List.Pairwise.cons ?_ ih
    intro x hx
    rcases List.mem_cons.mp hx with rfl | hx
    · exact h.1
    · exact JCell.le_trans _ _ _ h.1 ((List.pairwise_cons.mp ih).1 x hx)

def typed (c : JCell) : JCell := { c with kind := typedKind c.kind }

theorem asTyped_eq_map (t : List JCell) : asTyped t = t.map typed := rfl

theorem le_typed (a b : JCell) : JCell.le (typed a) (typed b) = JCell.le a b := rfl

theorem kindsConsistent_typed (t : List JCell) (h : kindsConsistent (t.map JCell.toCell) = true) :
    kindsConsistent ((asTyped t).map JCell.toCell) = true := by
  unfold kindsConsistent at *
  simp only [asTyped_eq_map, List.map_map, List.all_map, Bool.or_eq_true, List.all_eq_true,
    Function.comp] at *
  rcases h with (h | h) | h
  · left; right; intro c hc
    have := h c hc
    simp only [JCell.toCell, typed, beq_iff_eq] at this ⊢
    rw [this]; rfl
  · left; right; intro c hc
    have := h c hc
    simp only [JCell.toCell, typed, beq_iff_eq] at this ⊢
    rw [this]; rfl
  · right; intro c hc
    have := h c hc
    simp only [JCell.toCell, typed, beq_iff_eq] at this ⊢
    rw [this]; rfl


/-- `strptime(strftime(d))` is `d` for real dates with a four-digit year -/
theorem parseIso_dateIso (d : Date) (h : wfDate d = true) : parseIso (dateIso d) = .ok d := by
  obtain ⟨y, m, dd⟩ := d
  simp only [wfDate, Date.valid, Bool.and_eq_true, decide_eq_true_eq] at h
  obtain ⟨⟨⟨⟨⟨hm1, hm2⟩, hd1⟩, hd2⟩, hy1⟩, hy2⟩ := h
  have hdd : dd < 32 := by have := dim_le_31 y m; omega
  obtain ⟨n, rfl⟩ : ∃ n : Nat, y = (n : Int) := ⟨y.toNat, by omega⟩
  have hn1 : 1000 ≤ n := by omega
  have hn2 : n ≤ 9999 := by omega
  unfold parseIso dateIso dateIsoChars yearChars
  simp only [String.toList_ofList, Int.toNat_natCast, natDigits_year n hn1 hn2, pad2,
    List.cons_append, List.nil_append]
  unfold parseIsoChars
  rw [splitDash4 _ _ _ _ _ (by rw [digitChar_mod]; exact digitChar_ne_dash _ (Nat.mod_lt _ (by omega)))
    (by rw [digitChar_mod]; exact digitChar_ne_dash _ (Nat.mod_lt _ (by omega)))
    (by rw [digitChar_mod]; exact digitChar_ne_dash _ (Nat.mod_lt _ (by omega)))
    (by rw [digitChar_mod]; exact digitChar_ne_dash _ (Nat.mod_lt _ (by omega)))]
  simp only []
  rw [splitDash2 _ _ _ (by rw [digitChar_mod]; exact digitChar_ne_dash _ (Nat.mod_lt _ (by omega)))
    (by rw [digitChar_mod]; exact digitChar_ne_dash _ (Nat.mod_lt _ (by omega)))]
  simp only []
  have e1 : digitVal? (digitChar (n / 1000)) = some (n / 1000) := digitVal_digitChar _ (by omega)
  have e2 : digitVal? (digitChar (n / 100)) = some (n / 100 % 10) := by
    rw [digitChar_mod]; exact digitVal_digitChar _ (Nat.mod_lt _ (by omega))
  have e3 : digitVal? (digitChar (n / 10)) = some (n / 10 % 10) := by
    rw [digitChar_mod]; exact digitVal_digitChar _ (Nat.mod_lt _ (by omega))
  have e4 : digitVal? (digitChar n) = some (n % 10) := by
    rw [digitChar_mod]; exact digitVal_digitChar _ (Nat.mod_lt _ (by omega))
  have e5 := smallField_month m (by omega) hm1
  have e6 := smallField_day dd hdd hd1
  simp only [pad2] at e5 e6
  rw [e1, e2, e3, e4, e5, e6]
  simp only []
  have hy : 1000 * (n / 1000) + 100 * (n / 100 % 10) + 10 * (n / 10 % 10) + n % 10 = n := by omega
  rw [hy]
  have : ¬ (n = 0 ∨ m > 12 ∨ dd > dim (n : Int) m) := by omega
  simp [this]



end Bermuda.JsonIO
