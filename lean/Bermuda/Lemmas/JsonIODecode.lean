/-
C07, reading direction: the hooked decoder (`JsonIO.decode`, `objectHook` on every object, bottom-up)
agrees with the independent plain reading (`Spec.C07.plainRead`) on every document of the
documented shape — `fromDict_plain`. Structural induction over document / slices / cells /
values; the `values`, `details`, `loss_details` objects pass through the hook unchanged because
their keys are trigger-free.
-/
import Bermuda.Lemmas.JsonIO
import Bermuda.Spec.C07
namespace Bermuda.JsonIO
open Bermuda Bermuda.Spec.C07

theorem nodupKeys_iff (l : List String) : nodupKeys l = true ↔ l.Nodup := by
  induction l with
  | nil => simp [nodupKeys]
  | cons a t ih => simp [nodupKeys, ih]

theorem decode_obj (kvs : List (String × JVal)) :
    decode (.obj kvs) = (decodeKvs kvs).bind fun ps => objectHook (mkDict ps) := by
  rw [decode]

theorem decode_arr (l : List JVal) : decode (.arr l) = (decodeList l).map .list := by
  rw [decode]

theorem decodeKvs_ok (g : String × JVal → PVal) :
    ∀ kvs : List (String × JVal), (∀ kv ∈ kvs, decode kv.2 = .ok (g kv)) →
      decodeKvs kvs = .ok (kvs.map fun kv => (kv.1, g kv))
  | [], _ => by rw [decodeKvs]; rfl
  | (k, v) :: rest, h => by
    rw [decodeKvs, h (k, v) List.mem_cons_self,
      decodeKvs_ok g rest (fun kv hkv => h kv (List.mem_cons_of_mem _ hkv))]
    rfl

theorem decodeList_ok (g : JVal → PVal) :
    ∀ l : List JVal, (∀ v ∈ l, decode v = .ok (g v)) → decodeList l = .ok (l.map g)
  | [], _ => by rw [decodeList]; rfl
  | v :: rest, h => by
    rw [decodeList, h v List.mem_cons_self,
      decodeList_ok g rest (fun x hx => h x (List.mem_cons_of_mem _ hx))]
    rfl

theorem get?_map {α β : Type} (kvs : List (String × α)) (g : String × α → β) (k : String) :
    Dict.get? (kvs.map fun kv => (kv.1, g kv)) k = (kvs.find? (·.1 == k)).map g := by
  simp [Dict.get?, List.find?_map, Option.map_map, Function.comp_def]

theorem contains_map {α β : Type} (kvs : List (String × α)) (g : String × α → β) (k : String) :
    Dict.contains (kvs.map fun kv => (kv.1, g kv)) k = (kvs.map (·.1)).contains k := by
  induction kvs with
  | nil => rfl
  | cons a t ih =>
    simp only [Dict.contains, List.map_cons, List.any_cons, List.contains_cons] at ih ⊢
    rw [ih, Bool.beq_comm]

theorem foldl_set_nodup {α : Type} : ∀ (ps acc : List (String × α)),
    (ps.map (·.1)).Nodup → (∀ p ∈ ps, Dict.contains acc p.1 = false) →
    ps.foldl (fun d p => Dict.set d p.1 p.2) acc = acc ++ ps
  | [], acc, _, _ => by simp
  | p :: rest, acc, hn, hc => by
    have hp : Dict.contains acc p.1 = false := hc p List.mem_cons_self
    simp only [List.map_cons, List.nodup_cons] at hn
    have hset : Dict.set acc p.1 p.2 = acc ++ [p] := by simp [Dict.set, hp]
    rw [List.foldl_cons, hset, foldl_set_nodup rest (acc ++ [p]) hn.2]
    · simp
    · intro q hq
      have h1 := hc q (List.mem_cons_of_mem _ hq)
      simp only [Dict.contains, List.any_append, List.any_cons, List.any_nil, Bool.or_false,
        Bool.or_eq_false_iff] at h1 ⊢
      refine ⟨h1, ?_⟩
      apply beq_false_of_ne
      intro he
      exact hn.1 (he ▸ List.mem_map_of_mem hq)

theorem mkDict_of_nodup (ps : List (String × PVal)) (h : nodupKeys (ps.map (·.1)) = true) :
    mkDict ps = ps := by
  unfold mkDict
  rw [foldl_set_nodup ps [] ((nodupKeys_iff _).mp h) (by intro p _; rfl)]
  rfl

theorem jLookup_of_mem {kvs : List (String × JVal)} (hn : nodupKeys (kvs.map (·.1)) = true)
    {kv : String × JVal} (h : kv ∈ kvs) : jLookup kvs kv.1 = some kv.2 := by
  rw [nodupKeys_iff] at hn
  unfold jLookup
  induction kvs with
  | nil => cases h
  | cons a t ih =>
    simp only [List.map_cons, List.nodup_cons] at hn
    rcases List.mem_cons.mp h with rfl | h'
    · simp
    · have hne : (a.1 == kv.1) = false := by
        apply beq_false_of_ne
        intro he
        exact hn.1 (he ▸ List.mem_map_of_mem h')
      simp only [List.find?_cons, hne]
      exact ih hn.2 h'

/-- `d.get? k` on the decoded pairs is the plain lookup, transformed by the key's decoder -/
theorem get?_decoded (kvs : List (String × JVal)) (G : String → JVal → PVal) (k : String) :
    Dict.get? (kvs.map fun kv => (kv.1, G kv.1 kv.2)) k = (jLookup kvs k).map (G k) := by
  rw [get?_map kvs (fun kv => G kv.1 kv.2) k]
  unfold jLookup
  cases h : kvs.find? (·.1 == k) with
  | none => rfl
  | some kv =>
    have := List.find?_some h
    simp only [beq_iff_eq] at this
    simp [this]

theorem jLookup_isSome (kvs : List (String × JVal)) (k : String) :
    (jLookup kvs k).isSome = (kvs.map (·.1)).contains k := by
  unfold jLookup
  induction kvs with
  | nil => rfl
  | cons a t ih =>
    simp only [List.find?_cons, List.map_cons, List.contains_cons]
    cases h : a.1 == k
    · simp only [ih]; rw [Bool.beq_comm, h]; rfl
    · rw [Bool.beq_comm, h]; rfl


/-! ### plain decoders of the hook-free parts -/

def scalarP : JVal → PVal
  | .null => .null | .bool b => .bool b | .int i => .int i | .flt q => .flt q | .str s => .str s
  | _ => .null

def valP : JVal → PVal
  | .arr l => .list (l.map scalarP)
  | v => scalarP v

def dictP (f : JVal → PVal) : JVal → PVal
  | .obj kvs => .dict (kvs.map fun kv => (kv.1, f kv.2))
  | _ => .null

theorem decode_of_readScalar {v : JVal} {s : Scalar} (h : readScalar v = some s) :
    decode v = .ok (scalarP v) := by
  cases v <;> simp [readScalar] at h <;> rw [decode] <;> rfl

theorem filterMap_length_all {α β : Type} (f : α → Option β) :
    ∀ l : List α, (l.filterMap f).length = l.length → ∀ x ∈ l, (f x).isSome = true
  | [], _ => by simp
  | a :: t, h => by
    have hle := List.length_filterMap_le f t
    cases hfa : f a with
    | none =>
      simp only [List.filterMap_cons, hfa, List.length_cons] at h
      omega
    | some b =>
      simp only [List.filterMap_cons, hfa, List.length_cons, Nat.add_right_cancel_iff] at h
      intro x hx
      rcases List.mem_cons.mp hx with rfl | hx
      · simp [hfa]
      · exact filterMap_length_all f t h x hx

theorem readArray_numeric {l : List JVal} {x : Val} (h : readArray l = some x) :
    ∀ e ∈ l, decode e = .ok (scalarP e) := by
  unfold readArray at h
  dsimp only at h
  split at h
  · rename_i he
    intro e hm
    simp only [List.isEmpty_iff] at he
    subst he; cases hm
  · split at h
    · rename_i hlen
      intro e hm
      have := filterMap_length_all _ l (by simpa using hlen) e hm
      cases e <;> simp [jInt?, jNum?] at this <;> rw [decode] <;> rfl
    · split at h
      · rename_i hlen
        intro e hm
        have := filterMap_length_all _ l (by simpa using hlen) e hm
        cases e <;> simp [jInt?, jNum?] at this <;> rw [decode] <;> rfl
      · cases h

theorem npArray_map_scalarP (l : List JVal) :
    npArray (l.map scalarP) = match readArray l with | some v => .ok v | none => .error .other := by
  unfold npArray readArray
  have e1 : (l.map scalarP).filterMap PVal.int? = l.filterMap jInt? := by
    rw [List.filterMap_map]
    congr 1
    funext e
    cases e <;> rfl
  have e2 : (l.map scalarP).filterMap PVal.num? = l.filterMap jNum? := by
    rw [List.filterMap_map]
    congr 1
    funext e
    cases e <;> rfl
  simp only [e1, e2, List.length_map, List.isEmpty_map]
  by_cases h1 : l.isEmpty = true
  · simp [h1]
  · by_cases h2 : ((List.filterMap jInt? l).length == l.length) = true
    · simp [h1, h2]
    · by_cases h3 : ((List.filterMap jNum? l).length == l.length) = true
      · simp [h1, h2, h3]
      · simp [h1, h2, h3]

theorem decode_of_readVal {v : JVal} {x : Val} (h : readVal v = some x) : decode v = .ok (valP v) := by
  cases v with
  | arr l =>
    simp only [readVal] at h
    rw [decode_arr, decodeList_ok scalarP l (readArray_numeric h)]
    rfl
  | null => rw [decode]; rfl
  | int i => rw [decode]; rfl
  | flt q => rw [decode]; rfl
  | bool b => simp [readVal] at h
  | str s => simp [readVal] at h
  | obj kvs => simp [readVal] at h

theorem preVal_of_readVal {v : JVal} {x : Val} (h : readVal v = some x) :
    preVal (valP v) = .ok (.val x) := by
  cases v with
  | arr l =>
    simp only [readVal] at h
    simp only [valP, preVal, npArray_map_scalarP, h]
    rfl
  | null => simp only [readVal, Option.some.injEq] at h; subst h; rfl
  | int i => simp only [readVal, Option.some.injEq] at h; subst h; rfl
  | flt q => simp only [readVal, Option.some.injEq] at h; subst h; rfl
  | bool b => simp [readVal] at h
  | str s => simp [readVal] at h
  | obj kvs => simp [readVal] at h


/-! ### objects that pass through the hook -/

theorem Dict.contains_eq_keys {α : Type} (d : Dict α) (k : String) :
    Dict.contains d k = (Dict.keys d).contains k := by
  unfold Dict.contains Dict.keys
  induction d with
  | nil => rfl
  | cons a t ih =>
    simp only [List.any_cons, List.map_cons, List.contains_cons, ih]
    rw [Bool.beq_comm]

theorem objectHook_passthrough (d : Dict PVal) (h : triggerFree (Dict.keys d) = true) :
    objectHook d = .ok (.dict d) := by
  unfold triggerFree at h
  simp only [Bool.and_eq_true, Bool.not_eq_true', Bool.and_eq_false_iff] at h
  unfold objectHook
  simp only [Dict.contains_eq_keys, h.1.1, h.1.2, Bool.false_eq_true, if_false]
  rcases h.2 with (h3 | h3) | h3 <;>
    simp only [h3, Bool.false_and, Bool.and_false, Bool.false_eq_true, ↓reduceIte]

theorem keys_map_snd {α β : Type} (kvs : List (String × α)) (g : String × α → β) :
    (kvs.map fun kv => (kv.1, g kv)).map (·.1) = kvs.map (·.1) := by
  simp [List.map_map, Function.comp_def]

theorem decode_plain_obj (f : JVal → PVal) (vs : List (String × JVal))
    (hn : nodupKeys (vs.map (·.1)) = true) (ht : triggerFree (vs.map (·.1)) = true)
    (hf : ∀ kv ∈ vs, decode kv.2 = .ok (f kv.2)) :
    decode (.obj vs) = .ok (.dict (vs.map fun kv => (kv.1, f kv.2))) := by
  rw [decode_obj, decodeKvs_ok (fun kv => f kv.2) vs hf]
  show objectHook (mkDict _) = _
  rw [mkDict_of_nodup _ (by rw [keys_map_snd]; exact hn)]
  apply objectHook_passthrough
  unfold Dict.keys
  rw [keys_map_snd]; exact ht

theorem mapM_option_mem {α β : Type} (f : α → Option β) :
    ∀ (l : List α) (r : List β), l.mapM f = some r → ∀ a ∈ l, ∃ b, f a = some b
  | [], _, _ => by simp
  | a :: t, r, h => by
    rw [List.mapM_cons] at h
    cases hfa : f a with
    | none => simp [hfa] at h
    | some b =>
      cases hm : t.mapM f with
      | none => simp [hfa, hm] at h
      | some bs =>
        intro x hx
        rcases List.mem_cons.mp hx with rfl | hx
        · exact ⟨b, hfa⟩
        · exact mapM_option_mem f t bs hm x hx

theorem mapM_opt_exc {α β γ ε : Type} (f : α → Option β) (g : γ → Except ε β) (h : α → γ) :
    ∀ (l : List α) (r : List β), l.mapM f = some r →
      (∀ a ∈ l, ∀ b, f a = some b → g (h a) = .ok b) → (l.map h).mapM g = .ok r
  | [], r, hm, _ => by simp at hm; subst hm; rfl
  | a :: t, r, hm, hg => by
    rw [List.mapM_cons] at hm
    cases hfa : f a with
    | none => simp [hfa] at hm
    | some b =>
      cases hmt : t.mapM f with
      | none => simp [hfa, hmt] at hm
      | some bs =>
        simp [hfa, hmt] at hm
        subst hm
        rw [List.map_cons, List.mapM_cons, hg a List.mem_cons_self b hfa,
          mapM_opt_exc f g h t bs hmt (fun x hx => hg x (List.mem_cons_of_mem _ hx))]
        rfl


/-! ### one cell object -/

def cellG (k : String) (v : JVal) : PVal := if k == "values" then dictP valP v else scalarP v

def decodedWith (G : String → JVal → PVal) (kvs : List (String × JVal)) : Dict PVal :=
  kvs.map fun kv => (kv.1, G kv.1 kv.2)

theorem readDate_str {kvs : List (String × JVal)} {k : String} {dt : Date}
    (h : readDate kvs k = some dt) : ∃ s, jLookup kvs k = some (.str s) ∧ parseIso s = .ok dt := by
  unfold readDate at h
  split at h
  · rename_i s hs
    refine ⟨s, hs, ?_⟩
    split at h
    · rename_i d hd; cases h; exact hd
    · cases h
  · cases h

theorem readValues_obj {kvs : List (String × JVal)} {values : Dict Val}
    (h : readValues kvs = some values) :
    ∃ vs, jLookup kvs "values" = some (.obj vs) ∧ nodupKeys (vs.map (·.1)) = true ∧
      triggerFree (vs.map (·.1)) = true ∧
      vs.mapM (fun kv => (readVal kv.2).map fun v => (kv.1, v)) = some values := by
  unfold readValues at h
  split at h
  · rename_i vs hvs
    split at h
    · rename_i hc
      simp only [Bool.and_eq_true] at hc
      exact ⟨vs, hvs, hc.1, hc.2, h⟩
    · cases h
  · cases h

theorem decode_values_obj {vs : List (String × JVal)} {values : Dict Val}
    (hn : nodupKeys (vs.map (·.1)) = true) (ht : triggerFree (vs.map (·.1)) = true)
    (hm : vs.mapM (fun kv => (readVal kv.2).map fun v => (kv.1, v)) = some values) :
    decode (.obj vs) = .ok (dictP valP (.obj vs)) := by
  apply decode_plain_obj valP vs hn ht
  intro kv hkv
  obtain ⟨b, hb⟩ := mapM_option_mem _ vs values hm kv hkv
  cases hr : readVal kv.2 with
  | none => simp [hr] at hb
  | some x => exact decode_of_readVal hr

theorem getDate_decoded {kvs : List (String × JVal)} {k : String} {dt : Date}
    (hk : (k == "values") = false) (h : readDate kvs k = some dt) :
    getDate (decodedWith cellG kvs) k = .ok dt := by
  obtain ⟨s, hs, hp⟩ := readDate_str h
  unfold getDate decodedWith
  rw [get?_decoded kvs cellG k, hs]
  simp only [Option.map_some, cellG, hk, Bool.false_eq_true, if_false, scalarP]
  exact hp

theorem mapM_readVal_val : ∀ (vs : List (String × JVal)) (values : Dict Val),
    vs.mapM (fun kv => (readVal kv.2).map fun v => (kv.1, v)) = some values →
    vs.mapM (fun kv => (readVal kv.2).map fun v => (kv.1, PreVal.val v)) =
      some (values.map fun kv => (kv.1, PreVal.val kv.2))
  | [], values, hm => by simp at hm; subst hm; rfl
  | a :: t, values, hm => by
    rw [List.mapM_cons] at hm ⊢
    cases hr : readVal a.2 with
    | none => simp [hr] at hm
    | some x =>
      cases hmt : t.mapM (fun kv => (readVal kv.2).map fun v => (kv.1, v)) with
      | none => simp [hr, hmt] at hm
      | some bs =>
        simp [hr, hmt] at hm
        subst hm
        simp [hr, mapM_readVal_val t bs hmt]

theorem pValues_decoded {kvs : List (String × JVal)} {values : Dict Val}
    (h : readValues kvs = some values) :
    pValues (decodedWith cellG kvs) = .ok (values.map fun kv => (kv.1, PreVal.val kv.2)) := by
  obtain ⟨vs, hvs, _, _, hm⟩ := readValues_obj h
  unfold pValues decodedWith
  rw [get?_decoded kvs cellG "values", hvs]
  simp only [Option.map_some, cellG, beq_self_eq_true, if_true, dictP]
  have := mapM_opt_exc (fun kv : String × JVal => (readVal kv.2).map fun v => (kv.1, PreVal.val v))
    (fun kv : String × PVal => (preVal kv.2).map fun v => (kv.1, v))
    (fun kv : String × JVal => (kv.1, valP kv.2)) vs (values.map fun kv => (kv.1, PreVal.val kv.2)) ?_ ?_
  · exact this
  · exact mapM_readVal_val vs values hm
  · intro a _ b hb
    cases hr : readVal a.2 with
    | none => simp [hr] at hb
    | some x =>
      simp only [hr, Option.map_some, Option.some.injEq] at hb
      subst hb
      simp [preVal_of_readVal hr, Except.map]

theorem checkValues_val (values : Dict Val) :
    checkValues (values.map fun kv => (kv.1, PreVal.val kv.2)) = .ok values := by
  unfold checkValues
  induction values with
  | nil => rfl
  | cons a t ih =>
    rw [List.map_cons, List.mapM_cons]
    simp only [bind, Except.bind, ih]
    rfl

theorem pPrev_decoded {kvs : List (String × JVal)} {prev : Option Date}
    (h : readPrev kvs = some prev) : pPrev (decodedWith cellG kvs) = .ok prev := by
  unfold readPrev at h
  unfold pPrev decodedWith
  rw [contains_map kvs (fun kv => cellG kv.1 kv.2)]
  split at h
  · rename_i hc
    rw [if_pos hc]
    cases hd : readDate kvs "prev_evaluation_date" with
    | none => simp [hd] at h
    | some dt =>
      simp only [hd, Option.map_some, Option.some.injEq] at h
      subst h
      have := getDate_decoded (k := "prev_evaluation_date") (by decide) hd
      unfold decodedWith at this
      rw [this]; rfl
  · rename_i hc
    rw [if_neg hc]
    cases h; rfl


theorem keys_not_contains {keys allowed : List String} (hk : keys.all allowed.contains = true)
    {k : String} (hna : allowed.contains k = false) : keys.contains k = false := by
  cases h : keys.contains k with
  | false => rfl
  | true =>
    have := List.all_eq_true.mp hk k (List.contains_iff_mem.mp h)
    rw [hna] at this; cases this

theorem contains_of_lookup {kvs : List (String × JVal)} {k : String} {v : JVal}
    (h : jLookup kvs k = some v) : (kvs.map (·.1)).contains k = true := by
  rw [← jLookup_isSome, h]; rfl

/-- **a cell object of the documented shape is read by the hooked decoder exactly as plainly** -/
theorem decode_readCell {v : JVal} {c : JCell} (h : readCell v = some c) :
    decode v = .ok (.cell c) := by
  cases v with
  | obj kvs =>
    by_cases hc : (nodupKeys (kvs.map (·.1)) && (kvs.map (·.1)).all cellKeys.contains) = true
    · simp only [readCell, hc, if_true] at h
      simp only [Bool.and_eq_true] at hc
      obtain ⟨hn, hk⟩ := hc
      cases hps : readDate kvs "period_start" with
      | none => simp [hps] at h
      | some ps =>
      cases hpe : readDate kvs "period_end" with
      | none => simp [hps, hpe] at h
      | some pe =>
      cases hev : readDate kvs "evaluation_date" with
      | none => simp [hps, hpe, hev] at h
      | some ev =>
      cases hprev : readPrev kvs with
      | none => simp [hps, hpe, hev, hprev] at h
      | some prev =>
      cases hvals : readValues kvs with
      | none => simp [hps, hpe, hev, hprev, hvals] at h
      | some values =>
      simp only [hps, hpe, hev, hprev, hvals, Option.bind_some] at h
      split at h
      · rename_i hok
        simp only [Option.some.injEq] at h
        -- (a) every member decodes to its plain form
        have hdec : ∀ kv ∈ kvs, decode kv.2 = .ok (cellG kv.1 kv.2) := by
          intro kv hkv
          have hl := jLookup_of_mem hn hkv
          have hkey := List.all_eq_true.mp hk kv.1 (List.mem_map_of_mem hkv)
          obtain ⟨k, v⟩ := kv
          simp only [cellKeys, List.contains_cons, List.contains_nil, Bool.or_false, Bool.or_eq_true,
            beq_iff_eq] at hkey
          have date_case : ∀ {dt : Date}, (k == "values") = false → readDate kvs k = some dt →
              decode v = .ok (cellG k v) := by
            intro dt hkv' hd
            obtain ⟨s, hs, _⟩ := readDate_str hd
            simp only at hl
            rw [hs] at hl
            cases hl
            rw [decode]
            simp [cellG, hkv', scalarP]
          rcases hkey with rfl | rfl | rfl | rfl | rfl
          · exact date_case (by decide) hps
          · exact date_case (by decide) hpe
          · exact date_case (by decide) hev
          · have hc : (kvs.map (·.1)).contains "prev_evaluation_date" = true :=
              List.contains_iff_mem.mpr (List.mem_map_of_mem hkv)
            unfold readPrev at hprev
            rw [if_pos hc] at hprev
            cases hd : readDate kvs "prev_evaluation_date" with
            | none => simp [hd] at hprev
            | some dt => exact date_case (by decide) hd
          · obtain ⟨vs, hvs, hvn, hvt, hvm⟩ := readValues_obj hvals
            simp only at hl
            rw [hvs] at hl
            cases hl
            rw [decode_values_obj hvn hvt hvm]
            simp [cellG]
        -- (b) the hook sees the decoded pairs
        rw [decode_obj, decodeKvs_ok (fun kv => cellG kv.1 kv.2) kvs hdec]
        show objectHook (mkDict (decodedWith cellG kvs)) = _
        rw [mkDict_of_nodup _ (by unfold decodedWith; rw [keys_map_snd]; exact hn)]
        -- (c) it is an observation
        obtain ⟨s1, hs1, _⟩ := readDate_str hps
        obtain ⟨s2, hs2, _⟩ := readDate_str hpe
        obtain ⟨vs, hvs, _⟩ := readValues_obj hvals
        have c1 : Dict.contains (decodedWith cellG kvs) "slices" = false := by
          unfold decodedWith; rw [contains_map]; exact keys_not_contains hk (by decide)
        have c2 : Dict.contains (decodedWith cellG kvs) "cells" = false := by
          unfold decodedWith; rw [contains_map]; exact keys_not_contains hk (by decide)
        have c3 : Dict.contains (decodedWith cellG kvs) "period_start" = true := by
          unfold decodedWith; rw [contains_map]; exact contains_of_lookup hs1
        have c4 : Dict.contains (decodedWith cellG kvs) "period_end" = true := by
          unfold decodedWith; rw [contains_map]; exact contains_of_lookup hs2
        have c5 : Dict.contains (decodedWith cellG kvs) "values" = true := by
          unfold decodedWith; rw [contains_map]; exact contains_of_lookup hvs
        have c6 : Dict.contains (decodedWith cellG kvs) "prev_evaluation_date" =
            (kvs.map (·.1)).contains "prev_evaluation_date" := by
          unfold decodedWith; rw [contains_map]
        unfold objectHook
        simp only [c1, c2, c3, c4, c5, Bool.false_eq_true, if_false, Bool.and_self, if_true]
        -- (d) `_parse_observation`
        unfold parseObservation
        rw [pValues_decoded hvals, getDate_decoded (by decide) hps, getDate_decoded (by decide) hpe,
          getDate_decoded (by decide) hev, pPrev_decoded hprev]
        simp only [Except.bind, checkValues_val, c6]
        rw [if_pos hok, h]
      · cases h
    · rw [readCell, if_neg hc] at h; cases h
  | null => simp [readCell] at h
  | bool b => simp [readCell] at h
  | int i => simp [readCell] at h
  | flt q => simp [readCell] at h
  | str s => simp [readCell] at h
  | arr l => simp [readCell] at h


/-! ### one slice object -/

def cellP (v : JVal) : PVal := match readCell v with | some c => .cell c | none => .null

def sliceG (k : String) (v : JVal) : PVal :=
  if k == "cells" then (match v with | .arr cs => .list (cs.map cellP) | _ => .null)
  else if k == "details" || k == "loss_details" then dictP scalarP v
  else scalarP v

theorem mapM_option_map {α β γ : Type} (f : α → Option β) (φ : β → γ) :
    ∀ (l : List α) (r : List β), l.mapM f = some r →
      l.mapM (fun a => (f a).map φ) = some (r.map φ)
  | [], r, hm => by simp at hm; subst hm; rfl
  | a :: t, r, hm => by
    rw [List.mapM_cons] at hm ⊢
    cases hfa : f a with
    | none => simp [hfa] at hm
    | some b =>
      cases hmt : t.mapM f with
      | none => simp [hfa, hmt] at hm
      | some bs =>
        simp [hfa, hmt] at hm
        subst hm
        simp [mapM_option_map f φ t bs hmt]

theorem pStrAttr_decoded {kvs : List (String × JVal)} {k : String} {dflt r : Option String}
    (hk1 : (k == "cells") = false) (hk2 : (k == "details" || k == "loss_details") = false)
    (h : readStrAttr kvs k dflt = some r) :
    pStrAttr (decodedWith sliceG kvs) k dflt = .ok r ∧
      ∀ v, jLookup kvs k = some v → decode v = .ok (sliceG k v) := by
  unfold readStrAttr at h
  unfold pStrAttr decodedWith
  rw [get?_decoded kvs sliceG k]
  split at h
  · rename_i hl; cases h; rw [hl]; exact ⟨rfl, by intro v hv; cases hv⟩
  · rename_i hl; cases h; rw [hl]
    refine ⟨by simp [sliceG, hk1, hk2, scalarP], ?_⟩
    intro v hv; cases hv; rw [decode]; simp [sliceG, hk1, hk2, scalarP]
  · rename_i s hl; cases h; rw [hl]
    refine ⟨by simp [sliceG, hk1, hk2, scalarP], ?_⟩
    intro v hv; cases hv; rw [decode]; simp [sliceG, hk1, hk2, scalarP]
  · cases h

theorem pLimit_decoded {kvs : List (String × JVal)} {r : Scalar} (h : readLimit kvs = some r) :
    pLimit (decodedWith sliceG kvs) = .ok r ∧
      ∀ v, jLookup kvs "per_occurrence_limit" = some v →
        decode v = .ok (sliceG "per_occurrence_limit" v) := by
  unfold readLimit at h
  unfold pLimit decodedWith
  rw [get?_decoded kvs sliceG "per_occurrence_limit"]
  have e : ∀ v, sliceG "per_occurrence_limit" v = scalarP v := by intro v; simp [sliceG]
  split at h
  · rename_i hl; cases h; rw [hl]; exact ⟨rfl, by intro v hv; cases hv⟩
  · rename_i hl; cases h; rw [hl]
    refine ⟨by simp [e, scalarP], ?_⟩
    intro v hv; cases hv; rw [decode, e]; rfl
  · rename_i i hl; cases h; rw [hl]
    refine ⟨by simp [e, scalarP], ?_⟩
    intro v hv; cases hv; rw [decode, e]; rfl
  · rename_i q hl; cases h; rw [hl]
    refine ⟨by simp [e, scalarP], ?_⟩
    intro v hv; cases hv; rw [decode, e]; rfl
  · cases h

theorem scalar?_scalarP {v : JVal} {s : Scalar} (h : readScalar v = some s) :
    (scalarP v).scalar? = some s := by
  cases v <;> simp [readScalar] at h <;> subst h <;> rfl

theorem pDetailAttr_decoded {kvs : List (String × JVal)} {k : String} {r : Dict Scalar}
    (hk1 : (k == "cells") = false) (hk2 : (k == "details" || k == "loss_details") = true)
    (h : readDetails kvs k = some r) :
    pDetailAttr (decodedWith sliceG kvs) k = .ok r ∧
      ∀ v, jLookup kvs k = some v → decode v = .ok (sliceG k v) := by
  unfold readDetails at h
  unfold pDetailAttr decodedWith
  rw [get?_decoded kvs sliceG k]
  have e : ∀ v, sliceG k v = dictP scalarP v := by intro v; simp [sliceG, hk1, hk2]
  split at h
  · rename_i hl; cases h; rw [hl]; exact ⟨rfl, by intro v hv; cases hv⟩
  · rename_i ds hl
    rw [hl]
    split at h
    · rename_i hc
      simp only [Bool.and_eq_true] at hc
      constructor
      · simp only [Option.map_some, e, dictP]
        exact mapM_opt_exc (fun kv : String × JVal => (readScalar kv.2).map fun s => (kv.1, s))
          detailScalar
          (fun kv : String × JVal => (kv.1, scalarP kv.2)) ds r h (by
            intro a _ b hb
            cases hr : readScalar a.2 with
            | none => simp [hr] at hb
            | some s =>
              simp only [hr, Option.map_some, Option.some.injEq] at hb
              subst hb
              simp [detailScalar, scalar?_scalarP hr])
      · intro v hv; cases hv
        rw [e]
        apply decode_plain_obj scalarP ds hc.1 hc.2
        intro kv hkv
        obtain ⟨b, hb⟩ := mapM_option_mem _ ds r h kv hkv
        cases hr : readScalar kv.2 with
        | none => simp [hr] at hb
        | some s => exact decode_of_readScalar hr
    · cases h
  · cases h

theorem pCells_decoded {kvs : List (String × JVal)} {l : List JCell} (md : JMeta)
    (h : readCells kvs = some l) :
    pCells (decodedWith sliceG kvs) md = .ok (.list (l.map fun c => .cell { c with md := md })) ∧
      ∀ v, jLookup kvs "cells" = some v → decode v = .ok (sliceG "cells" v) := by
  unfold readCells at h
  unfold pCells decodedWith
  rw [get?_decoded kvs sliceG "cells"]
  split at h
  · rename_i cs hl
    rw [hl]
    constructor
    · simp only [Option.map_some, sliceG, beq_self_eq_true, if_true]
      have := mapM_opt_exc (fun v : JVal => (readCell v).map fun c => PVal.cell { c with md := md })
        (replaceMeta md) cellP cs _ (mapM_option_map readCell _ cs l h) (by
            intro a _ b hb
            cases hr : readCell a with
            | none => simp [hr] at hb
            | some c =>
              simp only [hr, Option.map_some, Option.some.injEq] at hb
              subst hb
              simp [cellP, hr, replaceMeta])
      rw [this]; rfl
    · intro v hv; cases hv
      rw [decode_arr, decodeList_ok cellP cs]
      · simp [sliceG, Except.map]
      · intro v hv
        obtain ⟨c, hc⟩ := mapM_option_mem _ cs l h v hv
        rw [decode_readCell hc]; simp [cellP, hc]
  · cases h


/-- **a slice object of the documented shape**: the hook turns it into its cells, each carrying
the slice's metadata -/
theorem decode_readSlice {v : JVal} {cs : List JCell} (h : readSlice v = some cs) :
    decode v = .ok (.list (cs.map .cell)) := by
  cases v with
  | obj kvs =>
    by_cases hc : (nodupKeys (kvs.map (·.1)) && (kvs.map (·.1)).all sliceKeys.contains) = true
    · simp only [readSlice, hc, if_true] at h
      simp only [Bool.and_eq_true] at hc
      obtain ⟨hn, hk⟩ := hc
      cases hrb : readStrAttr kvs "risk_basis" (some "Accident") with
      | none => simp [hrb] at h
      | some rb =>
      cases hco : readStrAttr kvs "country" none with
      | none => simp [hrb, hco] at h
      | some co =>
      cases hcu : readStrAttr kvs "currency" none with
      | none => simp [hrb, hco, hcu] at h
      | some cu =>
      cases hre : readStrAttr kvs "reinsurance_basis" none with
      | none => simp [hrb, hco, hcu, hre] at h
      | some re =>
      cases hld : readStrAttr kvs "loss_definition" none with
      | none => simp [hrb, hco, hcu, hre, hld] at h
      | some ld =>
      cases hlim : readLimit kvs with
      | none => simp [hrb, hco, hcu, hre, hld, hlim] at h
      | some lim =>
      cases hdet : readDetails kvs "details" with
      | none => simp [hrb, hco, hcu, hre, hld, hlim, hdet] at h
      | some det =>
      cases hldet : readDetails kvs "loss_details" with
      | none => simp [hrb, hco, hcu, hre, hld, hlim, hdet, hldet] at h
      | some ldet =>
      cases hcells : readCells kvs with
      | none => simp [hrb, hco, hcu, hre, hld, hlim, hdet, hldet, hcells] at h
      | some l =>
      simp only [hrb, hco, hcu, hre, hld, hlim, hdet, hldet, hcells, Option.bind_some, Option.map_some,
        Option.some.injEq] at h
      have p1 := pStrAttr_decoded (k := "risk_basis") (by decide) (by decide) hrb
      have p2 := pStrAttr_decoded (k := "country") (by decide) (by decide) hco
      have p3 := pStrAttr_decoded (k := "currency") (by decide) (by decide) hcu
      have p4 := pStrAttr_decoded (k := "reinsurance_basis") (by decide) (by decide) hre
      have p5 := pStrAttr_decoded (k := "loss_definition") (by decide) (by decide) hld
      have p6 := pLimit_decoded hlim
      have p7 := pDetailAttr_decoded (k := "details") (by decide) (by decide) hdet
      have p8 := pDetailAttr_decoded (k := "loss_details") (by decide) (by decide) hldet
      have p9 := pCells_decoded (⟨rb, co, cu, re, ld, lim, det, ldet⟩ : JMeta) hcells
      have hdec : ∀ kv ∈ kvs, decode kv.2 = .ok (sliceG kv.1 kv.2) := by
        intro kv hkv
        have hl := jLookup_of_mem hn hkv
        have hkey := List.all_eq_true.mp hk kv.1 (List.mem_map_of_mem hkv)
        obtain ⟨k, v⟩ := kv
        simp only [sliceKeys, List.contains_cons, List.contains_nil, Bool.or_false, Bool.or_eq_true,
          beq_iff_eq] at hkey
        rcases hkey with rfl | rfl | rfl | rfl | rfl | rfl | rfl | rfl | rfl
        · exact p3.2 v hl
        · exact p2.2 v hl
        · exact p1.2 v hl
        · exact p4.2 v hl
        · exact p5.2 v hl
        · exact p6.2 v hl
        · exact p7.2 v hl
        · exact p8.2 v hl
        · exact p9.2 v hl
      rw [decode_obj, decodeKvs_ok (fun kv => sliceG kv.1 kv.2) kvs hdec]
      show objectHook (mkDict (decodedWith sliceG kvs)) = _
      rw [mkDict_of_nodup _ (by unfold decodedWith; rw [keys_map_snd]; exact hn)]
      have c1 : Dict.contains (decodedWith sliceG kvs) "slices" = false := by
        unfold decodedWith; rw [contains_map]; exact keys_not_contains hk (by decide)
      have c2 : Dict.contains (decodedWith sliceG kvs) "cells" = true := by
        unfold decodedWith; rw [contains_map]
        unfold readCells at hcells
        split at hcells
        · rename_i cs' hl; exact contains_of_lookup hl
        · cases hcells
      unfold objectHook
      simp only [c1, c2, Bool.false_eq_true, if_false, if_true]
      unfold parseCellSet
      rw [p1.1, p2.1, p3.1, p4.1, p5.1, p6.1, p7.1, p8.1]
      simp only [Except.bind]
      rw [p9.1, ← h, List.map_map]
      rfl
    · rw [readSlice, if_neg hc] at h; cases h
  | null => simp [readSlice] at h
  | bool b => simp [readSlice] at h
  | int i => simp [readSlice] at h
  | flt q => simp [readSlice] at h
  | str s => simp [readSlice] at h
  | arr l => simp [readSlice] at h

theorem foldlM_append_lists : ∀ (lss : List (List JCell)) (acc : List PVal),
    (lss.map fun cs => PVal.list (cs.map PVal.cell)).foldlM appendList acc =
      (Except.ok (acc ++ (lss.flatten.map PVal.cell)) : Except Err _)
  | [], acc => by simp [pure, Except.pure]
  | cs :: rest, acc => by
    rw [List.map_cons, List.foldlM_cons]
    simp only [bind, Except.bind, appendList]
    rw [foldlM_append_lists rest]
    simp

theorem mapM_cell_some (cells : List JCell) :
    (cells.map PVal.cell).mapM PVal.cell? = some cells := by
  induction cells with
  | nil => rfl
  | cons a t ih => rw [List.map_cons, List.mapM_cons]; simp [ih, PVal.cell?]


/-- **fromDict_plain.** Any document of the documented shape — however it was produced — is
loaded by the library's decoder (hook on every object, bottom-up) to the triangle of the cells a
plain reading finds. -/
theorem fromDict_plain (j : JVal) (cells : List JCell) (h : plainRead j = some cells) :
    fromDict j = ofJCells cells := by
  unfold plainRead at h
  split at h
  · rename_i ss
    cases hm : ss.mapM readSlice with
    | none => simp [hm] at h
    | some lss =>
      simp only [hm, Option.map_some, Option.some.injEq] at h
      subst h
      have hl : decodeList ss = .ok (ss.map fun v => match readSlice v with
          | some cs => PVal.list (cs.map PVal.cell) | none => PVal.null) := by
        apply decodeList_ok
        intro v hv
        obtain ⟨cs, hcs⟩ := mapM_option_mem _ ss lss hm v hv
        rw [decode_readSlice hcs, hcs]
      have hmap : (ss.map fun v => match readSlice v with
          | some cs => PVal.list (cs.map PVal.cell) | none => PVal.null) =
          lss.map fun cs => PVal.list (cs.map PVal.cell) := by
        clear hl
        revert lss
        induction ss with
        | nil => intro lss hm; simp at hm; subst hm; rfl
        | cons a t ih =>
          intro lss hm
          rw [List.mapM_cons] at hm
          cases ha : readSlice a with
          | none => simp [ha] at hm
          | some cs =>
            cases ht : t.mapM readSlice with
            | none => simp [ha, ht] at hm
            | some r =>
              simp [ha, ht] at hm
              subst hm
              simp [ha, ih r ht]
      unfold fromDict
      rw [decode_obj]
      have hk : decodeKvs [("slices", JVal.arr ss)] =
          .ok [("slices", PVal.list (lss.map fun cs => PVal.list (cs.map PVal.cell)))] := by
        rw [decodeKvs, decode_arr, hl, hmap]
        rw [decodeKvs]
        rfl
      rw [hk]
      show (objectHook (mkDict _)).bind triangleOf = _
      rw [mkDict_of_nodup _ rfl]
      have hh : objectHook [("slices", PVal.list (lss.map fun cs => PVal.list (cs.map PVal.cell)))] =
          .ok (.list (lss.flatten.map PVal.cell)) := by
        unfold objectHook
        simp only [Dict.contains, List.any_cons, beq_self_eq_true, Bool.true_or, if_true]
        simp only [Dict.get?, List.find?_cons, beq_self_eq_true, Option.map_some, Option.getD_some,
          pySumLists]
        rw [foldlM_append_lists lss []]
        rfl
      rw [hh]
      simp only [Except.bind]
      unfold triangleOf
      simp only [mapM_cell_some]
  · cases h

end Bermuda.JsonIO
