/-
C07, writing direction: the document `toDict t` of a well-formed triangle, read by the independent
plain reader with STRICT ISO dates (`Spec.C07.plainReadStrict`), is the triangle itself —
`toDict_shape_strict`; the same for the lenient reader (`toDict_shape`) follows because the strict
reader is a restriction of it. Values (`readVal ∘
valToJ`), cells (ISO dates), slices (metadata entries once, in `as_dict` order), and the grouping:
a sorted triangle's `groupBy` by metadata gives its contiguous runs.
-/
import Bermuda.Lemmas.JsonIODecode
import Bermuda.Lemmas.JsonIOGroup
import Bermuda.Lemmas.JsonIOStrict
namespace Bermuda.JsonIO
open Bermuda Bermuda.Spec.C07 Std Bermuda.GroupL

/-! ### writing then reading plainly: values -/

theorem floor_of_den_one (q : Rat) (h : q.den = 1) : ((q.floor : Int) : Rat) = q := by
  have : q.floor = q.num := by simp [Rat.floor, h]
  rw [this]
  apply Rat.ext <;> simp [h]

theorem filterMap_jInt_int (data : List Rat) (h : ∀ q ∈ data, q.den = 1) :
    (data.map fun q => JVal.int q.floor).filterMap jInt? = data := by
  induction data with
  | nil => rfl
  | cons a t ih =>
    simp only [List.map_cons, List.filterMap_cons, jInt?]
    rw [floor_of_den_one a (h a List.mem_cons_self), ih (fun q hq => h q (List.mem_cons_of_mem _ hq))]

theorem filterMap_jInt_flt (data : List Rat) : (data.map fun q => JVal.flt q).filterMap jInt? = [] := by
  induction data with
  | nil => rfl
  | cons a t ih => simp only [List.map_cons, List.filterMap_cons, jInt?, ih]

theorem filterMap_jNum_flt (data : List Rat) : (data.map fun q => JVal.flt q).filterMap jNum? = data := by
  induction data with
  | nil => rfl
  | cons a t ih => simp only [List.map_cons, List.filterMap_cons, jNum?, ih]

theorem readVal_valToJ (v : Val) (h : wfVal v = true) : readVal (valToJ v) = some v := by
  cases v with
  | none => rfl
  | int i => rfl
  | flt q => rfl
  | arr isInt shape data =>
    simp only [wfVal, Bool.and_eq_true, beq_iff_eq, Bool.or_eq_true, Bool.not_eq_true'] at h
    obtain ⟨hs, hi⟩ := h
    subst hs
    have hv : valToJ (.arr isInt [data.length] data) =
        .arr (data.map fun q => if isInt then JVal.int q.floor else JVal.flt q) := by
      simp only [valToJ]
    rw [hv]
    simp only [readVal, readArray]
    cases isInt with
    | true =>
      simp only [Bool.true_eq_false, false_or, List.all_eq_true] at hi
      obtain ⟨hne, hall⟩ := hi
      have hden : ∀ q ∈ data, q.den = 1 := by
        intro q hq
        have := hall q hq
        simp only [int64, Bool.and_eq_true, beq_iff_eq] at this
        exact this.1.1
      simp only [if_true, filterMap_jInt_int data hden, List.length_map, List.isEmpty_map]
      simp [hne]
    | false =>
      simp only [Bool.false_eq_true, if_false, filterMap_jInt_flt, filterMap_jNum_flt, List.length_map,
        List.isEmpty_map]
      cases data with
      | nil => rfl
      | cons a t => simp

theorem mapM_readVal_valToJ : ∀ (vals : Dict Val), (vals.all fun kv => wfVal kv.2) = true →
    (vals.map fun kv => (kv.1, valToJ kv.2)).mapM
      (fun kv => (readVal kv.2).map fun v => (kv.1, v)) = some vals
  | [], _ => rfl
  | a :: t, h => by
    simp only [List.all_cons, Bool.and_eq_true] at h
    rw [List.map_cons, List.mapM_cons]
    simp [readVal_valToJ a.2 h.1, mapM_readVal_valToJ t h.2]


/-! ### writing then reading plainly: one cell -/

theorem keys_valToJ (vals : Dict Val) :
    (vals.map fun kv => (kv.1, valToJ kv.2)).map (·.1) = Dict.keys vals := by
  simp [Dict.keys, List.map_map, Function.comp_def]

theorem readCellS_cellToDict (c : JCell) (h : wfCell c = true) :
    readCellS (cellToDict c) = some { typed c with md := {} } := by
  simp only [wfCell, Bool.and_eq_true] at h
  obtain ⟨⟨⟨⟨⟨⟨⟨⟨hps, hpe⟩, hev⟩, hprev⟩, hok⟩, htf⟩, hnd⟩, hvals⟩, _⟩ := h
  have dps := strictIso_dateIso c.ps hps
  have dpe := strictIso_dateIso c.pe hpe
  have dev := strictIso_dateIso c.ev hev
  have dprev : ∀ p, c.prev = some p → strictIso (dateIso p) = some p := by
    intro p hp; rw [hp] at hprev; exact strictIso_dateIso p hprev
  have hv : readValues [("values", JVal.obj (c.values.map fun kv => (kv.1, valToJ kv.2)))] = some c.values := by
    simp only [readValues, jLookup, List.find?_cons, beq_self_eq_true, Option.map_some, keys_valToJ, hnd, htf,
      Bool.and_self, if_true]
    exact mapM_readVal_valToJ c.values hvals
  obtain ⟨kind, ps, pe, ev, prev, values, md⟩ := c
  cases kind <;> cases prev <;>
    simp_all [JCell.datesOk, Cell.datesOk, cellToDict, readCellS, nodupKeys, cellKeys, readDateS, jLookup,
      readPrevS, readValues, mkObservation, typed, typedKind, keys_valToJ]


/-! ### writing then reading plainly: one slice -/

theorem jLookup_append (a b : List (String × JVal)) (k : String) :
    jLookup (a ++ b) k = (jLookup a k).or (jLookup b k) := by
  unfold jLookup
  rw [List.find?_append]
  cases List.find? (fun x => x.1 == k) a <;> rfl

theorem jLookup_optStrEntry (k' k : String) (o : Option String) :
    jLookup (optStrEntry k' o) k = if k' == k then o.map JVal.str else none := by
  cases o with
  | none => simp [optStrEntry, jLookup]
  | some s =>
    simp only [optStrEntry, jLookup, List.find?_cons, List.find?_nil]
    cases k' == k <;> rfl

theorem jLookup_detailsEntry (k' k : String) (d : Dict Scalar) :
    jLookup (detailsEntry k' d) k =
      if k' == k then (if d.isEmpty then none else some (.obj (d.map fun kv => (kv.1, kv.2.toJ)))) else none := by
  unfold detailsEntry
  cases hd : d.isEmpty with
  | true => simp [jLookup]
  | false =>
    simp only [Bool.false_eq_true, if_false, jLookup, List.find?_cons, List.find?_nil]
    cases k' == k <;> rfl

def limitEntry (m : JMeta) : List (String × JVal) :=
  if m.limit = .null then [] else [("per_occurrence_limit", m.limit.toJ)]

theorem jLookup_limitEntry (m : JMeta) (k : String) :
    jLookup (limitEntry m) k =
      if "per_occurrence_limit" == k then (if m.limit = .null then none else some m.limit.toJ) else none := by
  unfold limitEntry
  by_cases h : m.limit = .null
  · simp [h, jLookup]
  · simp only [h, if_false, jLookup, List.find?_cons, List.find?_nil]
    cases "per_occurrence_limit" == k <;> rfl

theorem metaEntries_eq (m : JMeta) :
    metaEntries m = optStrEntry "currency" m.currency ++ optStrEntry "country" m.country ++
      optStrEntry "risk_basis" m.riskBasis ++ optStrEntry "reinsurance_basis" m.reinsuranceBasis ++
      optStrEntry "loss_definition" m.lossDefinition ++ limitEntry m ++
      detailsEntry "details" m.details ++ detailsEntry "loss_details" m.lossDetails := rfl

/-- the slice object's entries -/
def sliceKvs (m : JMeta) (x : JVal) : List (String × JVal) := metaEntries m ++ [("cells", x)]

theorem keys_sublist (m : JMeta) (x : JVal) : ((sliceKvs m x).map (·.1)).Sublist sliceKeys := by
  have o : ∀ k (o : Option String), ((optStrEntry k o).map (·.1)).Sublist [k] := by
    intro k o; cases o <;> simp [optStrEntry]
  have d : ∀ k (d : Dict Scalar), ((detailsEntry k d).map (·.1)).Sublist [k] := by
    intro k d; unfold detailsEntry; cases d.isEmpty <;> simp
  have l : ((limitEntry m).map (·.1)).Sublist ["per_occurrence_limit"] := by
    unfold limitEntry; by_cases h : m.limit = .null <;> simp [h]
  unfold sliceKvs
  rw [metaEntries_eq]
  simp only [List.map_append]
  exact (((((((List.Sublist.append (o _ _) (o _ _)).append (o _ _)).append (o _ _)).append (o _ _)).append l).append
    (d _ _)).append (d _ _)).append (List.Sublist.refl _)

theorem sliceKvs_keys_ok (m : JMeta) (x : JVal) :
    (nodupKeys ((sliceKvs m x).map (·.1)) && ((sliceKvs m x).map (·.1)).all sliceKeys.contains) = true := by
  have hs := keys_sublist m x
  rw [Bool.and_eq_true]
  constructor
  · rw [nodupKeys_iff]
    exact List.Nodup.sublist hs (by decide)
  · rw [List.all_eq_true]
    intro k hk
    exact List.contains_iff_mem.mpr (hs.subset hk)

theorem lookup_sliceKvs (m : JMeta) (x : JVal) (k : String) :
    jLookup (sliceKvs m x) k =
      (((((((((if "currency" == k then m.currency.map JVal.str else none).or
        (if "country" == k then m.country.map JVal.str else none)).or
        (if "risk_basis" == k then m.riskBasis.map JVal.str else none)).or
        (if "reinsurance_basis" == k then m.reinsuranceBasis.map JVal.str else none)).or
        (if "loss_definition" == k then m.lossDefinition.map JVal.str else none)).or
        (if "per_occurrence_limit" == k then (if m.limit = .null then none else some m.limit.toJ) else none)).or
        (if "details" == k then (if m.details.isEmpty then none
          else some (.obj (m.details.map fun kv => (kv.1, kv.2.toJ)))) else none)).or
        (if "loss_details" == k then (if m.lossDetails.isEmpty then none
          else some (.obj (m.lossDetails.map fun kv => (kv.1, kv.2.toJ)))) else none)).or
        (if "cells" == k then some x else none)) := by
  unfold sliceKvs
  rw [metaEntries_eq]
  simp only [jLookup_append, jLookup_optStrEntry, jLookup_limitEntry, jLookup_detailsEntry]
  congr 1
  simp only [jLookup, List.find?_cons, List.find?_nil]
  cases "cells" == k <;> rfl


theorem readStrAttr_slice (m : JMeta) (x : JVal) :
    readStrAttr (sliceKvs m x) "currency" none = some m.currency ∧
    readStrAttr (sliceKvs m x) "country" none = some m.country ∧
    readStrAttr (sliceKvs m x) "reinsurance_basis" none = some m.reinsuranceBasis ∧
    readStrAttr (sliceKvs m x) "loss_definition" none = some m.lossDefinition ∧
    (m.riskBasis.isSome = true →
      readStrAttr (sliceKvs m x) "risk_basis" (some "Accident") = some m.riskBasis) := by
  refine ⟨?_, ?_, ?_, ?_, ?_⟩
  · unfold readStrAttr; rw [lookup_sliceKvs]; cases m.currency <;> simp
  · unfold readStrAttr; rw [lookup_sliceKvs]; cases m.country <;> simp
  · unfold readStrAttr; rw [lookup_sliceKvs]; cases m.reinsuranceBasis <;> simp
  · unfold readStrAttr; rw [lookup_sliceKvs]; cases m.lossDefinition <;> simp
  · intro h; unfold readStrAttr; rw [lookup_sliceKvs]; cases hr : m.riskBasis <;> simp [hr] at h ⊢

theorem readLimit_slice (m : JMeta) (x : JVal)
    (h : (match m.limit with | .null | .int _ | .flt _ => true | _ => false) = true) :
    readLimit (sliceKvs m x) = some m.limit := by
  unfold readLimit; rw [lookup_sliceKvs]
  cases hl : m.limit <;> simp [hl, Scalar.toJ] at h ⊢

theorem readScalar_toJ (s : Scalar) : readScalar s.toJ = some s := by cases s <;> rfl

theorem mapM_readScalar_toJ : ∀ d : Dict Scalar,
    (d.map fun kv => (kv.1, kv.2.toJ)).mapM (fun kv => (readScalar kv.2).map fun s => (kv.1, s)) = some d
  | [] => rfl
  | a :: t => by
    rw [List.map_cons, List.mapM_cons]
    simp [readScalar_toJ, mapM_readScalar_toJ t]

theorem keys_toJ (d : Dict Scalar) : (d.map fun kv => (kv.1, kv.2.toJ)).map (·.1) = Dict.keys d := by
  simp [Dict.keys, List.map_map, Function.comp_def]

theorem lookup_details (m : JMeta) (x : JVal) :
    jLookup (sliceKvs m x) "details" = (if m.details.isEmpty then none
      else some (.obj (m.details.map fun kv => (kv.1, kv.2.toJ)))) ∧
    jLookup (sliceKvs m x) "loss_details" = (if m.lossDetails.isEmpty then none
      else some (.obj (m.lossDetails.map fun kv => (kv.1, kv.2.toJ)))) ∧
    jLookup (sliceKvs m x) "cells" = some x := by
  refine ⟨?_, ?_, ?_⟩ <;> (rw [lookup_sliceKvs]; simp)

theorem readDetails_of_lookup (kvs : List (String × JVal)) (k : String) (d : Dict Scalar)
    (hl : jLookup kvs k = if d.isEmpty then none else some (.obj (d.map fun kv => (kv.1, kv.2.toJ))))
    (h : wfDetails d = true) : readDetails kvs k = some d := by
  simp only [wfDetails, Bool.and_eq_true] at h
  unfold readDetails
  rw [hl]
  by_cases he : d.isEmpty = true
  · rw [if_pos he]
    simp only [List.isEmpty_iff] at he
    rw [he]
  · rw [if_neg he]
    simp only [keys_toJ, h.1.1, h.1.2, Bool.and_self, if_true]
    exact mapM_readScalar_toJ d

theorem readDetails_slice (m : JMeta) (x : JVal) (h1 : wfDetails m.details = true)
    (h2 : wfDetails m.lossDetails = true) :
    readDetails (sliceKvs m x) "details" = some m.details ∧
    readDetails (sliceKvs m x) "loss_details" = some m.lossDetails :=
  ⟨readDetails_of_lookup _ _ _ (lookup_details m x).1 h1,
   readDetails_of_lookup _ _ _ (lookup_details m x).2.1 h2⟩

theorem mapM_readCellS_cellToDict : ∀ g : List JCell, (∀ c ∈ g, wfCell c = true) →
    (g.map cellToDict).mapM readCellS = some (g.map fun c => { typed c with md := {} })
  | [], _ => rfl
  | a :: t, h => by
    rw [List.map_cons, List.mapM_cons]
    simp [readCellS_cellToDict a (h a List.mem_cons_self),
      mapM_readCellS_cellToDict t (fun c hc => h c (List.mem_cons_of_mem _ hc))]

/-- a written slice, read plainly, is the slice's cells (typed), each with the slice's metadata -/
theorem readSliceS_sliceToDict (g : List JCell) (m : JMeta) (hne : g ≠ [])
    (hwf : ∀ c ∈ g, wfCell c = true) (hmd : ∀ c ∈ g, c.md = m) :
    readSliceS (sliceToDict g) = some (asTyped g) := by
  cases g with
  | nil => exact absurd rfl hne
  | cons c0 rest =>
    have hm0 : c0.md = m := hmd c0 List.mem_cons_self
    have hwm : wfMeta m = true := by
      have := hwf c0 List.mem_cons_self
      simp only [wfCell, Bool.and_eq_true] at this
      rw [← hm0]; exact this.2
    simp only [wfMeta, Bool.and_eq_true] at hwm
    obtain ⟨⟨⟨hrb, hlim⟩, hd1⟩, hd2⟩ := hwm
    have hshape : sliceToDict (c0 :: rest) = .obj (sliceKvs m (.arr ((c0 :: rest).map cellToDict))) := by
      simp only [sliceToDict, sliceKvs, hm0]
    rw [hshape]
    obtain ⟨s1, s2, s3, s4, s5⟩ := readStrAttr_slice m (.arr ((c0 :: rest).map cellToDict))
    obtain ⟨d1, d2⟩ := readDetails_slice m (.arr ((c0 :: rest).map cellToDict)) hd1 hd2
    have hc : readCellsS (sliceKvs m (.arr ((c0 :: rest).map cellToDict))) =
        some ((c0 :: rest).map fun c => { typed c with md := {} }) := by
      unfold readCellsS
      rw [(lookup_details m _).2.2]
      exact mapM_readCellS_cellToDict (c0 :: rest) hwf
    simp only [readSliceS, sliceKvs_keys_ok, if_true, s1, s2, s3, s4, s5 hrb, readLimit_slice m _ hlim, d1, d2, hc,
      Option.bind_some, Option.map_some, Option.some.injEq]
    rw [asTyped_eq_map, List.map_map]
    apply List.map_congr_left
    intro c hc'
    have := hmd c hc'
    cases m
    cases c
    simp_all [typed]

theorem dictCanon_sortItems (d : Dict MVal) (h : (d.map (·.1)).Nodup) : DictCanon (sortItems d) := by
  have hs : (sortItems d).Pairwise (fun a b => leOf itemCmp a b) := sorted_mergeSort (cmp := itemCmp) d
  have hp : (sortItems d).Perm d := List.mergeSort_perm d _
  have hn : ((sortItems d).map (·.1)).Nodup := (hp.map _).nodup_iff.mpr h
  have hne : (sortItems d).Pairwise (fun a b => a.1 ≠ b.1) := by
    rw [List.Nodup, List.pairwise_map] at hn; exact hn
  unfold DictCanon
  refine (hs.and hne).imp ?_
  intro a b ⟨hle, hab⟩
  unfold leOf itemCmp at hle
  simp only [compareLex, cmpOn] at hle
  cases hc : compare a.1 b.1 with
  | lt => rfl
  | eq => exact absurd (compare_eq_iff_eq.mp hc) hab
  | gt => simp [hc] at hle

theorem toMetadata_canon (m : JMeta) (h : wfMeta m = true) : m.toMetadata.Canon := by
  simp only [wfMeta, wfDetails, Bool.and_eq_true] at h
  obtain ⟨⟨_, ⟨⟨_, n1⟩, _⟩⟩, ⟨⟨_, n2⟩, _⟩⟩ := h
  constructor
  · apply dictCanon_sortItems
    rw [List.map_map]
    exact (nodupKeys_iff _).mp n1
  · apply dictCanon_sortItems
    rw [List.map_map]
    exact (nodupKeys_iff _).mp n2

theorem le_md {a b : JCell} (h : JCell.le a b = true) :
    Metadata.cmp a.md.toMetadata b.md.toMetadata ≠ .gt := by
  unfold JCell.le Cell.le at h
  revert h
  simp only [Cell.cmp, compareLex, cmpOn, JCell.toCell]
  cases Metadata.cmp a.md.toMetadata b.md.toMetadata <;> simp


theorem sorted_contig (t : List JCell) (hs : t.Pairwise (fun a b => JCell.le a b = true))
    (hwf : ∀ c ∈ t, wfMeta c.md = true) :
    ∀ l1 a l2, t = l1 ++ a :: l2 → (∃ x ∈ l1, x.md.toMetadata = a.md.toMetadata) →
      ∃ h : l1 ≠ [], (l1.getLast h).md.toMetadata = a.md.toMetadata := by
  intro l1 a l2 ht ⟨x, hx, hxa⟩
  have hne : l1 ≠ [] := List.ne_nil_of_mem hx
  refine ⟨hne, ?_⟩
  subst ht
  obtain ⟨hp1, _, hcross⟩ := List.pairwise_append.mp hs
  have hza : JCell.le (l1.getLast hne) a = true :=
    hcross _ (List.getLast_mem hne) a List.mem_cons_self
  have hsplit := List.dropLast_concat_getLast hne
  rw [← hsplit] at hx hp1
  rcases List.mem_append.mp hx with hx | hx
  · have hxz : JCell.le x (l1.getLast hne) = true :=
      (List.pairwise_append.mp hp1).2.2 x hx _ (by simp)
    have c1 := le_md hxz
    have c2 := le_md hza
    rw [hxa] at c1
    have ca : a.md.toMetadata.Canon := toMetadata_canon _ (hwf a (by simp))
    have cz : (l1.getLast hne).md.toMetadata.Canon :=
      toMetadata_canon _ (hwf _ (List.mem_append_left _ (List.getLast_mem hne)))
    apply (Metadata.cmp_eq_eq cz ca).mp
    rw [OrientedCmp.eq_swap (cmp := Metadata.cmp)] at c1
    revert c1 c2
    cases Metadata.cmp (l1.getLast hne).md.toMetadata a.md.toMetadata <;> simp
  · simp only [List.mem_singleton] at hx
    rw [← hx]; exact hxa


theorem mapM_readSliceS_groups : ∀ (L : List (List JCell)),
    (∀ g ∈ L, readSliceS (sliceToDict g) = some (asTyped g)) →
    (L.map sliceToDict).mapM readSliceS = some (L.map asTyped)
  | [], _ => rfl
  | g :: rest, h => by
    rw [List.map_cons, List.mapM_cons]
    simp [h g List.mem_cons_self, mapM_readSliceS_groups rest (fun x hx => h x (List.mem_cons_of_mem _ hx))]

theorem plainRead_slices (ss : List JVal) :
    plainRead (.obj [("slices", .arr ss)]) = (ss.mapM readSlice).map List.flatten := by
  simp [plainRead]

theorem plainReadStrict_slices (ss : List JVal) :
    plainReadStrict (.obj [("slices", .arr ss)]) = (ss.mapM readSliceS).map List.flatten := by
  simp [plainReadStrict]

/-- a sorted well-formed triangle's slices are the contiguous runs `groupBy` finds (no re-sorting
happens) -/
theorem slicesOf_eq_groups (t : List JCell) (h : WFjson t = true) :
    slicesOf t = (groupBy (fun c : JCell => c.md.toMetadata) t).map (·.2) := by
  simp only [WFjson, Bool.and_eq_true] at h
  obtain ⟨⟨⟨hcells, _⟩, hs⟩, _⟩ := h
  have hwf : ∀ c ∈ t, wfCell c = true := List.all_eq_true.mp hcells
  have hwm : ∀ c ∈ t, wfMeta c.md = true := by
    intro c hc
    have := hwf c hc
    simp only [wfCell, Bool.and_eq_true] at this
    exact this.2
  have hp := pairwise_of_sortedJ t hs
  have inv := groupBy_contiguous (fun c : JCell => c.md.toMetadata) t (sorted_contig t hp hwm)
  unfold slicesOf
  apply List.map_congr_left
  intro g hg
  apply List.mergeSort_of_pairwise
  have := hp
  rw [← inv.flat, List.pairwise_flatten] at this
  exact this.1 g.2 (List.mem_map_of_mem hg)

/-- **toDict_shape (strict).** The written document, read by a plain reader that knows nothing of
the library's hook and accepts a date only as `YYYY-MM-DD`, is the original triangle: every slice's
metadata once (defaults and `None` omitted, `risk_basis` present), the cells in order with ISO
dates, `prev_evaluation_date` exactly on incremental cells, values with their kinds. -/
theorem toDict_shape_strict (t : List JCell) (h : WFjson t = true) :
    plainReadStrict (toDict t) = some (asTyped t) := by
  simp only [WFjson, Bool.and_eq_true] at h
  obtain ⟨⟨⟨hcells, _⟩, hs⟩, hco⟩ := h
  have hwf : ∀ c ∈ t, wfCell c = true := List.all_eq_true.mp hcells
  have hwm : ∀ c ∈ t, wfMeta c.md = true := by
    intro c hc
    have := hwf c hc
    simp only [wfCell, Bool.and_eq_true] at this
    exact this.2
  have hp := pairwise_of_sortedJ t hs
  have inv := groupBy_contiguous (fun c : JCell => c.md.toMetadata) t (sorted_contig t hp hwm)
  -- the groups are already sorted
  have hsorted : ∀ g ∈ groupBy (fun c : JCell => c.md.toMetadata) t, g.2.mergeSort JCell.le = g.2 := by
    intro g hg
    apply List.mergeSort_of_pairwise
    have := hp
    rw [← inv.flat, List.pairwise_flatten] at this
    exact this.1 g.2 (List.mem_map_of_mem hg)
  have hsl : slicesOf t = (groupBy (fun c : JCell => c.md.toMetadata) t).map (·.2) := by
    unfold slicesOf
    apply List.map_congr_left
    intro g hg
    exact hsorted g hg
  have hmem : ∀ g ∈ groupBy (fun c : JCell => c.md.toMetadata) t, ∀ c ∈ g.2, c ∈ t := by
    intro g hg c hc
    rw [← inv.flat]
    exact List.mem_flatten.mpr ⟨g.2, List.mem_map_of_mem hg, hc⟩
  have hgroup : ∀ g ∈ (groupBy (fun c : JCell => c.md.toMetadata) t).map (·.2),
      readSliceS (sliceToDict g) = some (asTyped g) := by
    intro g hg
    obtain ⟨p, hp', rfl⟩ := List.mem_map.mp hg
    obtain ⟨hne, hkey⟩ := inv.mem p hp'
    obtain ⟨c0, hc0⟩ := List.exists_mem_of_ne_nil _ hne
    apply readSliceS_sliceToDict p.2 c0.md hne (fun c hc => hwf c (hmem p hp' c hc))
    intro c hc
    have hk : c.md.toMetadata = c0.md.toMetadata := by rw [hkey c hc, hkey c0 hc0]
    have := List.all_eq_true.mp (List.all_eq_true.mp hco c (hmem p hp' c hc)) c0 (hmem p hp' c0 hc0)
    simp only [Bool.or_eq_true, bne_iff_ne, ne_eq, beq_iff_eq] at this
    rcases this with h1 | h1
    · exact absurd hk h1
    · exact h1
  unfold toDict
  rw [plainReadStrict_slices, hsl, mapM_readSliceS_groups _ hgroup]
  simp only [Option.map_some, Option.some.injEq]
  have hf : ((groupBy (fun c : JCell => c.md.toMetadata) t).map (·.2)).flatten = t := inv.flat
  conv => rhs; rw [← hf]
  simp only [asTyped_eq_map, List.map_flatten, List.map_map]
  rfl

/-- **toDict_shape.** The same for the lenient plain reader (dates by `strptime`'s rules), the one
whose domain `fromDict_plain` quantifies over. -/
theorem toDict_shape (t : List JCell) (h : WFjson t = true) :
    plainRead (toDict t) = some (asTyped t) :=
  plainRead_of_strict (toDict_shape_strict t h)

/-! ### staging lemmas for concrete witnesses (`decide` cannot run `mergeSort` on ≥ 2 elements) -/

/-- `Triangle(cells)` leaves an already sorted one-class list alone -/
theorem ofJCells_sorted (cells : List JCell) (hk : kindsConsistent (cells.map JCell.toCell) = true)
    (hs : sortedJ cells = true) : ofJCells cells = .ok cells := by
  unfold ofJCells
  rw [if_pos hk, List.mergeSort_of_pairwise (pairwise_of_sortedJ cells hs)]

/-- when every metadata group is already sorted, the slices are the groups -/
theorem slicesOf_of_sorted_groups (t : List JCell)
    (h : ((groupBy (fun c : JCell => c.md.toMetadata) t).all fun g => sortedJ g.2) = true) :
    slicesOf t = (groupBy (fun c : JCell => c.md.toMetadata) t).map (·.2) := by
  unfold slicesOf
  apply List.map_congr_left
  intro g hg
  exact List.mergeSort_of_pairwise (pairwise_of_sortedJ _ (List.all_eq_true.mp h g hg))

theorem sameCells_refl (a : List JCell) : sameCells a a = true := by simp [sameCells]

end Bermuda.JsonIO
