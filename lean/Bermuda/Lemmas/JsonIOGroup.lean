/-
General fact about `groupBy` (toolz.groupby): on a list whose equal-key elements are contiguous the
groups are the runs of the list. Used by C07 (slices of a sorted triangle) and C14 (rows of a cell are one group).
-/
import Bermuda.Model.Ops
namespace Bermuda.GroupL
open Bermuda
variable {α κ : Type} [BEq κ] [LawfulBEq κ]

def groupStep (key : α → κ) (acc : List (κ × List α)) (a : α) : List (κ × List α) :=
  if acc.any (·.1 == key a) then acc.map (fun p => if p.1 == key a then (p.1, p.2 ++ [a]) else p)
  else acc ++ [(key a, [a])]

theorem groupBy_eq_foldl (key : α → κ) (l : List α) : groupBy key l = l.foldl (groupStep key) [] := rfl

/-- invariant of the grouping loop after the prefix `pre` -/
structure GroupInv (key : α → κ) (acc : List (κ × List α)) (pre : List α) : Prop where
  flat : (acc.map (·.2)).flatten = pre
  nodup : (acc.map (·.1)).Nodup
  mem : ∀ p ∈ acc, p.2 ≠ [] ∧ ∀ x ∈ p.2, key x = p.1
  last : ∀ h : pre ≠ [], ∃ init g, acc = init ++ [(key (pre.getLast h), g)]

theorem GroupInv.key_mem {key : α → κ} {acc : List (κ × List α)} {pre : List α}
    (inv : GroupInv key acc pre) {k : κ} (hk : k ∈ acc.map (·.1)) : ∃ x ∈ pre, key x = k := by
  obtain ⟨p, hp, rfl⟩ := List.mem_map.mp hk
  obtain ⟨hne, hkey⟩ := inv.mem p hp
  obtain ⟨x, hx⟩ := List.exists_mem_of_ne_nil _ hne
  refine ⟨x, ?_, hkey x hx⟩
  rw [← inv.flat]
  exact List.mem_flatten.mpr ⟨p.2, List.mem_map_of_mem hp, hx⟩

theorem groupStep_inv {key : α → κ} {acc : List (κ × List α)} {pre : List α} {a : α}
    (inv : GroupInv key acc pre)
    (hc : (∃ x ∈ pre, key x = key a) → ∃ h : pre ≠ [], key (pre.getLast h) = key a) :
    GroupInv key (groupStep key acc a) (pre ++ [a]) := by
  unfold groupStep
  by_cases hany : acc.any (·.1 == key a) = true
  · rw [if_pos hany]
    have hk : key a ∈ acc.map (·.1) := by
      obtain ⟨p, hp, hpk⟩ := List.any_eq_true.mp hany
      exact List.mem_map.mpr ⟨p, hp, by simpa using hpk⟩
    obtain ⟨hne, hlast⟩ := hc (inv.key_mem hk)
    obtain ⟨init, g, hacc⟩ := inv.last hne
    rw [hlast] at hacc
    subst hacc
    have hnd := inv.nodup
    simp only [List.map_append, List.map_cons, List.map_nil] at hnd
    have hinit : ∀ p ∈ init, (p.1 == key a) = false := by
      intro p hp
      apply beq_false_of_ne
      intro he
      have := (List.nodup_append.mp hnd).2.2 p.1 (List.mem_map_of_mem hp) (key a) (by simp)
      exact this he
    have hmap : (init ++ [(key a, g)]).map (fun p => if p.1 == key a then (p.1, p.2 ++ [a]) else p) =
        init ++ [(key a, g ++ [a])] := by
      rw [List.map_append]
      congr 1
      · conv => rhs; rw [← List.map_id init]
        apply List.map_congr_left
        intro p hp
        simp [hinit p hp]
      · simp
    rw [hmap]
    refine ⟨?_, ?_, ?_, ?_⟩
    · have := inv.flat
      simp only [List.map_append, List.flatten_append, List.map_cons, List.map_nil, List.flatten_cons,
        List.flatten_nil, List.append_nil] at this ⊢
      rw [← this, List.append_assoc]
    · simpa using hnd
    · intro p hp
      rcases List.mem_append.mp hp with hp | hp
      · exact inv.mem p (List.mem_append_left _ hp)
      · simp only [List.mem_singleton] at hp
        subst hp
        obtain ⟨_, hk'⟩ := inv.mem (key a, g) (by simp)
        refine ⟨by simp, ?_⟩
        intro x hx
        rcases List.mem_append.mp hx with hx | hx
        · exact hk' x hx
        · simp only [List.mem_singleton] at hx; subst hx; rfl
    · intro _
      exact ⟨init, g ++ [a], by simp⟩
  · rw [if_neg hany]
    have hk : key a ∉ acc.map (·.1) := by
      intro hk
      obtain ⟨p, hp, hpk⟩ := List.mem_map.mp hk
      exact hany (List.any_eq_true.mpr ⟨p, hp, by simp [hpk]⟩)
    refine ⟨?_, ?_, ?_, ?_⟩
    · simp [inv.flat]
    · simp only [List.map_append, List.map_cons, List.map_nil]
      refine List.nodup_append.mpr ⟨inv.nodup, by simp, ?_⟩
      intro x hx y hy
      simp only [List.mem_singleton] at hy
      subst hy
      intro he; exact hk (he ▸ hx)
    · intro p hp
      rcases List.mem_append.mp hp with hp | hp
      · exact inv.mem p hp
      · simp only [List.mem_singleton] at hp
        subst hp
        exact ⟨by simp, by intro x hx; simp only [List.mem_singleton] at hx; subst hx; rfl⟩
    · intro _
      exact ⟨acc, [a], by simp⟩

theorem foldl_groupStep_inv {key : α → κ} : ∀ (l : List α) (acc : List (κ × List α)) (pre : List α),
    GroupInv key acc pre →
    (∀ l1 a l2, l = l1 ++ a :: l2 → (∃ x ∈ pre ++ l1, key x = key a) →
      ∃ h : pre ++ l1 ≠ [], key ((pre ++ l1).getLast h) = key a) →
    GroupInv key (l.foldl (groupStep key) acc) (pre ++ l)
  | [], acc, pre, inv, _ => by simpa using inv
  | a :: t, acc, pre, inv, hc => by
    rw [List.foldl_cons]
    have h1 := groupStep_inv (a := a) inv (by
      intro hx
      have := hc [] a t rfl (by simpa using hx)
      simpa using this)
    have := foldl_groupStep_inv t (groupStep key acc a) (pre ++ [a]) h1 (by
      intro l1 b l2 ht hx
      have := hc (a :: l1) b l2 (by rw [ht]; rfl) (by simpa [List.append_assoc] using hx)
      simpa [List.append_assoc] using this)
    simpa [List.append_assoc] using this

/-- **grouping a list whose equal-key elements are contiguous** gives its runs: the groups
concatenate to the list, are non-empty, and each holds one key -/
theorem groupBy_contiguous (key : α → κ) (l : List α)
    (hc : ∀ l1 a l2, l = l1 ++ a :: l2 → (∃ x ∈ l1, key x = key a) →
      ∃ h : l1 ≠ [], key (l1.getLast h) = key a) :
    GroupInv key (groupBy key l) l := by
  have := foldl_groupStep_inv (key := key) l [] []
    { flat := rfl, nodup := List.nodup_nil, mem := fun p hp => (nomatch hp), last := fun h => absurd rfl h }
    (by simpa using hc)
  simpa [groupBy_eq_foldl] using this

theorem foldl_groupStep_same (key : α → κ) (k : κ) (acc : List (κ × List α))
    (hk : k ∉ acc.map (·.1)) : ∀ (xs g : List α), (∀ x ∈ xs, key x = k) →
    xs.foldl (groupStep key) (acc ++ [(k, g)]) = acc ++ [(k, g ++ xs)]
  | [], g, _ => by simp
  | x :: xs, g, h => by
    have hx : key x = k := h x List.mem_cons_self
    rw [List.foldl_cons]
    have hstep : groupStep key (acc ++ [(k, g)]) x = acc ++ [(k, g ++ [x])] := by
      unfold groupStep
      rw [hx]
      have hany : (acc ++ [(k, g)]).any (·.1 == k) = true := by simp
      rw [if_pos hany, List.map_append]
      congr 1
      · conv => rhs; rw [← List.map_id acc]
        apply List.map_congr_left
        intro p hp
        have : (p.1 == k) = false := by
          apply beq_false_of_ne
          intro he; exact hk (he ▸ List.mem_map_of_mem hp)
        simp [this]
      · simp
    rw [hstep, foldl_groupStep_same key k acc hk xs (g ++ [x]) (fun y hy => h y (List.mem_cons_of_mem _ hy))]
    simp

theorem foldl_groupStep_block (key : α → κ) (k : κ) (acc : List (κ × List α))
    (hk : k ∉ acc.map (·.1)) (b : List α) (hne : b ≠ []) (hb : ∀ x ∈ b, key x = k) :
    b.foldl (groupStep key) acc = acc ++ [(k, b)] := by
  cases b with
  | nil => exact absurd rfl hne
  | cons x xs =>
    have hx : key x = k := hb x List.mem_cons_self
    rw [List.foldl_cons]
    have hstep : groupStep key acc x = acc ++ [(k, [x])] := by
      unfold groupStep
      rw [hx]
      have hany : ¬ (acc.any (·.1 == k) = true) := by
        intro h
        obtain ⟨p, hp, hpk⟩ := List.any_eq_true.mp h
        exact hk (List.mem_map.mpr ⟨p, hp, by simpa using hpk⟩)
      rw [if_neg hany]
    rw [hstep, foldl_groupStep_same key k acc hk xs [x] (fun y hy => hb y (List.mem_cons_of_mem _ hy))]
    rfl

/-- grouping the concatenation of non-empty blocks with distinct constant keys gives the blocks -/
theorem foldl_groupStep_blocks (key : α → κ) : ∀ (blocks acc : List (κ × List α)),
    ((acc ++ blocks).map (·.1)).Nodup → (∀ b ∈ blocks, b.2 ≠ []) →
    (∀ b ∈ blocks, ∀ x ∈ b.2, key x = b.1) →
    (blocks.map (·.2)).flatten.foldl (groupStep key) acc = acc ++ blocks
  | [], acc, _, _, _ => by simp
  | b :: rest, acc, hnd, hne, hk => by
    rw [List.map_cons, List.flatten_cons, List.foldl_append]
    have hb : b.1 ∉ acc.map (·.1) := by
      intro hm
      rw [List.map_append, List.nodup_append] at hnd
      exact hnd.2.2 b.1 hm b.1 (by simp) rfl
    rw [foldl_groupStep_block key b.1 acc hb b.2 (hne b List.mem_cons_self) (hk b List.mem_cons_self)]
    rw [foldl_groupStep_blocks key rest (acc ++ [(b.1, b.2)]) (by simpa [List.append_assoc] using hnd)
      (fun x hx => hne x (List.mem_cons_of_mem _ hx)) (fun x hx => hk x (List.mem_cons_of_mem _ hx))]
    simp

theorem groupBy_blocks (key : α → κ) (blocks : List (κ × List α))
    (hnd : (blocks.map (·.1)).Nodup) (hne : ∀ b ∈ blocks, b.2 ≠ [])
    (hk : ∀ b ∈ blocks, ∀ x ∈ b.2, key x = b.1) :
    groupBy key (blocks.map (·.2)).flatten = blocks := by
  rw [groupBy_eq_foldl, foldl_groupStep_blocks key blocks [] (by simpa using hnd) hne hk]
  rfl


end Bermuda.GroupL
