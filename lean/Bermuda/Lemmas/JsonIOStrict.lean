/-
C07, the ISO clause. `Spec.C07.strictIso` (exactly `YYYY-MM-DD`) against the model's writer
`dateIso` (= `strftime("%Y-%m-%d")`) and the model's lenient reader `parseIso` (= `strptime`):

* `dateIso_toList`     the ten characters `dateIso` writes for a date with a four-digit year
* `strictIso_dateIso`  the strict reader reads them back
* `strictIso_parseIso` whatever the strict reader accepts, `strptime` reads to the same date
* `strictIso_unique`   the strict reader accepts exactly ONE text per date (the one `dateIso` writes)
* `plainRead_of_strict` the strict plain reader is a restriction of the lenient one
-/
import Bermuda.Lemmas.JsonIO
import Bermuda.Spec.C07
namespace Bermuda.JsonIO
open Bermuda Bermuda.Spec.C07


theorem isoDigit_eq : isoDigit? = digitVal? := rfl

theorem dateIso_toList (d : Date) (h : wfDate d = true) :
    (dateIso d).toList =
      [digitChar (d.y.toNat / 1000), digitChar (d.y.toNat / 100), digitChar (d.y.toNat / 10),
       digitChar d.y.toNat, '-', digitChar (d.m / 10), digitChar d.m, '-', digitChar (d.d / 10),
       digitChar d.d] := by
  simp only [wfDate, Bool.and_eq_true, decide_eq_true_eq] at h
  obtain ⟨⟨_, hy1⟩, hy2⟩ := h
  unfold dateIso dateIsoChars yearChars
  simp only [String.toList_ofList, natDigits_year d.y.toNat (by omega) (by omega), pad2,
    List.cons_append, List.nil_append]

theorem digitVal_digitChar' (k : Nat) : digitVal? (digitChar k) = some (k % 10) := by
  rw [digitChar_mod]; exact digitVal_digitChar _ (Nat.mod_lt _ (by omega))

theorem strictIso_dateIso (d : Date) (h : wfDate d = true) : strictIso (dateIso d) = some d := by
  have hl := dateIso_toList d h
  obtain ⟨y, m, dd⟩ := d
  simp only [wfDate, Date.valid, Bool.and_eq_true, decide_eq_true_eq] at h
  obtain ⟨⟨⟨⟨⟨hm1, hm2⟩, hd1⟩, hd2⟩, hy1⟩, hy2⟩ := h
  have hdd : dd < 32 := by have := dim_le_31 y m; omega
  obtain ⟨n, rfl⟩ : ∃ n : Nat, y = (n : Int) := ⟨y.toNat, by omega⟩
  simp only [Int.toNat_natCast] at hl
  unfold strictIso
  rw [hl]
  simp only [isoDigit_eq, digitVal_digitChar', beq_self_eq_true, Bool.and_self, if_true]
  have hy : 1000 * (n / 1000 % 10) + 100 * (n / 100 % 10) + 10 * (n / 10 % 10) + n % 10 = n := by omega
  have hm : 10 * (m / 10 % 10) + m % 10 = m := by omega
  have hd : 10 * (dd / 10 % 10) + dd % 10 = dd := by omega
  rw [hy, hm, hd]
  simp [Date.valid, hm1, hm2, hd1, hd2]
  omega

/-! ### strict ⊆ lenient -/



theorem digitVal_not_dash {c : Char} {k : Nat} (h : digitVal? c = some k) : (c == '-') = false := by
  unfold digitVal? at h
  split at h
  · rename_i hc
    cases hd : c == '-' with
    | false => rfl
    | true =>
      have : c = '-' := by simpa using hd
      subst this
      revert hc; decide
  · cases h

theorem digitVal_not_space {c : Char} {k : Nat} (h : digitVal? c = some k) : (c == ' ') = false := by
  unfold digitVal? at h
  split at h
  · rename_i hc
    cases hd : c == ' ' with
    | false => rfl
    | true =>
      have : c = ' ' := by simpa using hd
      subst this
      revert hc; decide
  · cases h

theorem strictIso_parseIso {s : String} {d : Date} (h : strictIso s = some d) : parseIso s = .ok d := by
  unfold strictIso at h
  split at h
  · rename_i y1 y2 y3 y4 s1 m1 m2 s2 d1 d2 heq
    split at h
    · rename_i hs
      simp only [Bool.and_eq_true, beq_iff_eq] at hs
      obtain ⟨rfl, rfl⟩ := hs
      split at h
      · rename_i a b c dd e f g hh ha hb hc hd he hf hg hhh
        simp only [isoDigit_eq] at ha hb hc hd he hf hg hhh
        dsimp only at h
        split at h
        · rename_i hv
          simp only [Option.some.injEq] at h
          subst h
          simp only [Date.valid, Bool.and_eq_true, decide_eq_true_eq] at hv
          unfold parseIso
          rw [heq]
          unfold parseIsoChars
          rw [splitDash4 _ _ _ _ _ (digitVal_not_dash ha) (digitVal_not_dash hb) (digitVal_not_dash hc)
            (digitVal_not_dash hd)]
          simp only []
          rw [splitDash2 _ _ _ (digitVal_not_dash he) (digitVal_not_dash hf)]
          simp only [ha, hb, hc, hd]
          have e5 : smallField? false [m1, m2] = some (10 * e + f) := by
            simp only [smallField?, he, hf, Bool.false_and, Option.bind_some]
            have : ¬ (e = 0 ∧ f = 0) := by omega
            simp [this]
          have e6 : smallField? true [d1, d2] = some (10 * g + hh) := by
            simp only [smallField?, hg, hhh, digitVal_not_space hg, Bool.and_false, Option.bind_some]
            have : ¬ (g = 0 ∧ hh = 0) := by omega
            simp [this]
          rw [e5, e6]
          simp only []
          have : ¬ (1000 * a + 100 * b + 10 * c + dd = 0 ∨ 10 * e + f > 12 ∨
              10 * g + hh > dim ((1000 * a + 100 * b + 10 * c + dd : Nat) : Int) (10 * e + f)) := by omega
          rw [if_neg this]
        · cases h
      · cases h
    · cases h
  · cases h

/-! ### one text per date -/

theorem ofNat_digit : ∀ k, k < 10 → Char.ofNat (48 + k) = digitChar k := by decide

theorem digitVal_eq_digitChar {c : Char} {k : Nat} (h : digitVal? c = some k) : c = digitChar k ∧ k < 10 := by
  unfold digitVal? at h
  split at h
  · rename_i hc
    simp only [Option.some.injEq] at h
    have hk : k < 10 := by omega
    refine ⟨?_, hk⟩
    rw [← ofNat_digit k hk, ← Char.ofNat_toNat c]
    congr 1; omega
  · cases h


/-- the strict reader accepts ONE text per date -/
theorem strictIso_unique {s : String} {d : Date} (h : strictIso s = some d) (hy : 1000 ≤ d.y) :
    s = dateIso d := by
  unfold strictIso at h
  split at h
  · rename_i y1 y2 y3 y4 s1 m1 m2 s2 d1 d2 heq
    split at h
    · rename_i hs
      simp only [Bool.and_eq_true, beq_iff_eq] at hs
      obtain ⟨rfl, rfl⟩ := hs
      split at h
      · rename_i a b c dd e f g hh ha hb hc hd he hf hg hhh
        simp only [isoDigit_eq] at ha hb hc hd he hf hg hhh
        dsimp only at h
        split at h
        · rename_i hv
          simp only [Option.some.injEq] at h
          subst h
          obtain ⟨rfl, ha'⟩ := digitVal_eq_digitChar ha
          obtain ⟨rfl, hb'⟩ := digitVal_eq_digitChar hb
          obtain ⟨rfl, hc'⟩ := digitVal_eq_digitChar hc
          obtain ⟨rfl, hd'⟩ := digitVal_eq_digitChar hd
          obtain ⟨rfl, he'⟩ := digitVal_eq_digitChar he
          obtain ⟨rfl, hf'⟩ := digitVal_eq_digitChar hf
          obtain ⟨rfl, hg'⟩ := digitVal_eq_digitChar hg
          obtain ⟨rfl, hh'⟩ := digitVal_eq_digitChar hhh
          simp only [Bool.and_eq_true, decide_eq_true_eq] at hv
          have hwf : wfDate ⟨((1000 * a + 100 * b + 10 * c + dd : Nat) : Int), 10 * e + f, 10 * g + hh⟩ = true := by
            simp only [wfDate, Bool.and_eq_true, decide_eq_true_eq]
            simp only at hy
            exact ⟨⟨hv.2, hy⟩, by omega⟩
          apply String.toList_inj.mp
          rw [heq, dateIso_toList _ hwf]
          simp only [Int.toNat_natCast]
          rw [digitChar_mod ((1000 * a + 100 * b + 10 * c + dd) / 1000),
            digitChar_mod ((1000 * a + 100 * b + 10 * c + dd) / 100),
            digitChar_mod ((1000 * a + 100 * b + 10 * c + dd) / 10),
            digitChar_mod (1000 * a + 100 * b + 10 * c + dd),
            digitChar_mod ((10 * e + f) / 10), digitChar_mod (10 * e + f),
            digitChar_mod ((10 * g + hh) / 10), digitChar_mod (10 * g + hh)]
          have e1 : (1000 * a + 100 * b + 10 * c + dd) / 1000 % 10 = a := by omega
          have e2 : (1000 * a + 100 * b + 10 * c + dd) / 100 % 10 = b := by omega
          have e3 : (1000 * a + 100 * b + 10 * c + dd) / 10 % 10 = c := by omega
          have e4 : (1000 * a + 100 * b + 10 * c + dd) % 10 = dd := by omega
          have e5 : (10 * e + f) / 10 % 10 = e := by omega
          have e6 : (10 * e + f) % 10 = f := by omega
          have e7 : (10 * g + hh) / 10 % 10 = g := by omega
          have e8 : (10 * g + hh) % 10 = hh := by omega
          rw [e1, e2, e3, e4, e5, e6, e7, e8]
        · cases h
      · cases h
    · cases h
  · cases h

/-! ### the strict plain reader is a restriction of the lenient one -/



theorem mapM_option_mono {α β} (f g : α → Option β) (hfg : ∀ x y, f x = some y → g x = some y) :
    ∀ (l : List α) (ys : List β), l.mapM f = some ys → l.mapM g = some ys
  | [], ys, h => by simpa using h
  | a :: t, ys, h => by
    rw [List.mapM_cons] at h ⊢
    cases ha : f a with
    | none => simp [ha] at h
    | some b =>
      cases ht : t.mapM f with
      | none => simp [ha, ht] at h
      | some bs =>
        simp only [ha, ht, bind, Option.bind_some, pure, Option.some.injEq] at h
        subst h
        simp [hfg a b ha, mapM_option_mono f g hfg t bs ht]

theorem readDate_of_strict {kvs k d} (h : readDateS kvs k = some d) : readDate kvs k = some d := by
  unfold readDateS at h
  unfold readDate
  split at h
  · rename_i s hs
    simp only [strictIso_parseIso h]
  · cases h

theorem readPrev_of_strict {kvs p} (h : readPrevS kvs = some p) : readPrev kvs = some p := by
  unfold readPrevS at h
  unfold readPrev
  split at h
  · rename_i hc
    rw [if_pos hc]
    cases hd : readDateS kvs "prev_evaluation_date" with
    | none => simp [hd] at h
    | some d => 
      rw [hd] at h
      rw [readDate_of_strict hd]; exact h
  · rename_i hc
    rw [if_neg hc]; exact h

theorem readCell_of_strict {v c} (h : readCellS v = some c) : readCell v = some c := by
  cases v with
  | obj kvs =>
    simp only [readCellS] at h
    simp only [readCell]
    split at h
    · rename_i hc
      rw [if_pos hc]
      cases h1 : readDateS kvs "period_start" with
      | none => simp [h1] at h
      | some ps =>
      cases h2 : readDateS kvs "period_end" with
      | none => simp [h1, h2] at h
      | some pe =>
      cases h3 : readDateS kvs "evaluation_date" with
      | none => simp [h1, h2, h3] at h
      | some ev =>
      cases h4 : readPrevS kvs with
      | none => simp [h1, h2, h3, h4] at h
      | some prev =>
        rw [h1, h2, h3, h4] at h
        rw [readDate_of_strict h1, readDate_of_strict h2, readDate_of_strict h3, readPrev_of_strict h4]
        exact h
    · cases h
  | null => simp [readCellS] at h
  | bool b => simp [readCellS] at h
  | int i => simp [readCellS] at h
  | flt q => simp [readCellS] at h
  | str s => simp [readCellS] at h
  | arr l => simp [readCellS] at h

theorem readCells_of_strict {kvs l} (h : readCellsS kvs = some l) : readCells kvs = some l := by
  unfold readCellsS at h
  unfold readCells
  split at h
  · rename_i cs hcs
    exact mapM_option_mono _ _ (fun _ _ => readCell_of_strict) cs l h
  · cases h

theorem readSlice_of_strict {v l} (h : readSliceS v = some l) : readSlice v = some l := by
  cases v with
  | obj kvs =>
    simp only [readSliceS] at h
    simp only [readSlice]
    split at h
    · rename_i hc
      rw [if_pos hc]
      cases hcs : readCellsS kvs with
      | none => 
        rw [hcs] at h
        simp only [Option.map_none] at h
        revert h
        cases readStrAttr kvs "risk_basis" (some "Accident") <;> cases readStrAttr kvs "country" none <;>
        cases readStrAttr kvs "currency" none <;> cases readStrAttr kvs "reinsurance_basis" none <;>
        cases readStrAttr kvs "loss_definition" none <;> cases readLimit kvs <;>
        cases readDetails kvs "details" <;> cases readDetails kvs "loss_details" <;> simp
      | some cs =>
        rw [hcs] at h
        rw [readCells_of_strict hcs]
        exact h
    · cases h
  | null => simp [readSliceS] at h
  | bool b => simp [readSliceS] at h
  | int i => simp [readSliceS] at h
  | flt q => simp [readSliceS] at h
  | str s => simp [readSliceS] at h
  | arr l => simp [readSliceS] at h

theorem plainRead_of_strict {j cells} (h : plainReadStrict j = some cells) : plainRead j = some cells := by
  unfold plainReadStrict at h
  split at h
  · rename_i ss
    unfold plainRead
    cases hs : ss.mapM readSliceS with
    | none => simp [hs] at h
    | some L =>
      rw [hs] at h
      have hm : ss.mapM readSlice = some L := mapM_option_mono _ _ (fun _ _ => readSlice_of_strict) ss L hs
      simp only [hm]
      exact h
  · cases h

end Bermuda.JsonIO
