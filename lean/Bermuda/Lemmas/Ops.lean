/-
Membership lemmas for the grouping helpers of `Model/Ops.lean`.
-/
import Bermuda.Model.Ops
namespace Bermuda

theorem mem_of_lastBy? {α} {le : α → α → Bool} {l : List α} {a : α}
    (h : lastBy? le l = some a) : a ∈ l := by
  unfold lastBy? at h
  exact (List.mergeSort_perm l le).mem_iff.mp (List.mem_of_getLast? h)

theorem groupBy_foldl_mem {α κ} [BEq κ] (key : α → κ) (l : List α) (init : List (κ × List α))
    (P : α → Prop) (hinit : ∀ p ∈ init, ∀ a ∈ p.2, P a) (hl : ∀ a ∈ l, P a) :
    ∀ p ∈ l.foldl (fun acc a =>
        let k := key a
        if acc.any (·.1 == k) then acc.map (fun p => if p.1 == k then (p.1, p.2 ++ [a]) else p)
        else acc ++ [(k, [a])]) init,
      ∀ a ∈ p.2, P a := by
  induction l generalizing init with
  | nil => simpa using hinit
  | cons x rest ih =>
    simp only [List.foldl_cons]
    apply ih
    · intro p hp a ha
      split at hp
      · obtain ⟨q, hq, rfl⟩ := List.mem_map.mp hp
        split at ha
        · rcases List.mem_append.mp ha with ha | ha
          · exact hinit q hq a ha
          · simp at ha; subst ha; exact hl _ (by simp)
        · exact hinit q hq a ha
      · rcases List.mem_append.mp hp with hp | hp
        · exact hinit p hp a ha
        · simp at hp; subst hp; simp at ha; subst ha; exact hl _ (by simp)
    · intro a ha; exact hl a (by simp [ha])

theorem mem_of_mem_groupBy {α κ} [BEq κ] {key : α → κ} {l : List α} {p : κ × List α} {a : α}
    (hp : p ∈ groupBy key l) (ha : a ∈ p.2) : a ∈ l :=
  groupBy_foldl_mem key l [] (· ∈ l) (by simp) (fun _ h => h) p hp a ha

theorem mem_of_mem_slices {t : List Cell} {p : Metadata × List Cell} {c : Cell}
    (hp : p ∈ Triangle.slices t) (hc : c ∈ p.2) : c ∈ t := by
  unfold Triangle.slices at hp
  obtain ⟨m, _, rfl⟩ := List.mem_map.mp hp
  exact (List.mem_filter.mp ((List.mergeSort_perm _ _).mem_iff.mp hc)).1

theorem mem_rightEdge_rows {t : List Cell} {c : Cell}
    (hc : c ∈ (Triangle.slices t).flatMap (fun p =>
      (groupBy (fun c : Cell => (c.ps, c.pe)) p.2).filterMap fun q =>
        lastBy? (fun a b => Date.cmp a.ev b.ev != .gt) q.2)) : c ∈ t := by
  obtain ⟨p, hp, hc⟩ := List.mem_flatMap.mp hc
  obtain ⟨q, hq, hlast⟩ := List.mem_filterMap.mp hc
  exact mem_of_mem_slices hp (mem_of_mem_groupBy hq (mem_of_lastBy? hlast))

end Bermuda
