/-
Order-theoretic facts about the comparison functions of `Model/Order.lean`:
every one is an oriented, transitive comparison (so `<` is a strict weak order), and on
canonical metadata `cmp = .eq` is equality (so `<` is a strict TOTAL order).
Core Lean only.
-/
import Bermuda.Model.Order
namespace Bermuda
open Std

instance {α β : Type} {f : α → β} {cmp : β → β → Ordering} [ReflCmp cmp] : ReflCmp (cmpOn f cmp) where
  compare_self := ReflCmp.compare_self (cmp := cmp)

instance {α β : Type} {f : α → β} {cmp : β → β → Ordering} [OrientedCmp cmp] : OrientedCmp (cmpOn f cmp) where
  eq_swap := OrientedCmp.eq_swap (cmp := cmp)

instance {α β : Type} {f : α → β} {cmp : β → β → Ordering} [TransCmp cmp] : TransCmp (cmpOn f cmp) where
  isLE_trans := TransCmp.isLE_trans (cmp := cmp)

theorem cmpOn_eq_eq {α β : Type} {f : α → β} {cmp : β → β → Ordering} {a b : α} :
    cmpOn f cmp a b = .eq ↔ cmp (f a) (f b) = .eq := Iff.rfl

instance : TransCmp ratCmp :=
  TransOrd.compareOfLessAndEq_of_antisymm_of_trans_of_total_of_not_le
    Rat.le_antisymm Rat.le_trans (fun _ _ => Rat.le_total) Rat.not_le

theorem ratCmp_eq_eq {a b : Rat} : ratCmp a b = .eq ↔ a = b :=
  compareOfLessAndEq_eq_eq (fun _ => Rat.le_refl) Rat.not_le

instance : LawfulEqCmp ratCmp where
  compare_self := ratCmp_eq_eq.mpr rfl
  eq_of_compare := ratCmp_eq_eq.mp

instance : TransCmp Date.cmp := by unfold Date.cmp; infer_instance

theorem Date.cmp_eq_eq {a b : Date} : Date.cmp a b = .eq ↔ a = b := by
  constructor
  · intro h
    simp only [Date.cmp, compareLex_eq_eq, cmpOn_eq_eq, compare_eq_iff_eq] at h
    cases a; cases b; simp_all
  · rintro rfl
    simp [Date.cmp, compareLex_eq_eq, cmpOn_eq_eq]

instance : LawfulEqCmp Date.cmp where
  compare_self := Date.cmp_eq_eq.mpr rfl
  eq_of_compare := Date.cmp_eq_eq.mp

end Bermuda

namespace Bermuda
open Std

/-! ### detail values and detail dicts -/

instance : TransCmp MVal.cmp := by unfold MVal.cmp; infer_instance

theorem MVal.key_injective {a b : MVal} (h : a.key = b.key) : a = b := by
  cases a <;> cases b <;> simp_all [MVal.key]

theorem MVal.cmp_eq_eq {a b : MVal} : MVal.cmp a b = .eq ↔ a = b := by
  constructor
  · intro h
    simp only [MVal.cmp, compareLex_eq_eq, cmpOn_eq_eq, compare_eq_iff_eq, ratCmp_eq_eq,
      Date.cmp_eq_eq] at h
    apply MVal.key_injective
    obtain ⟨h1, h2, h3, h4⟩ := h
    exact Prod.ext h1 (Prod.ext h2 (Prod.ext h3 h4))
  · rintro rfl
    simp [MVal.cmp, compareLex_eq_eq, cmpOn_eq_eq]

instance : LawfulEqCmp MVal.cmp where
  compare_self := MVal.cmp_eq_eq.mpr rfl
  eq_of_compare := MVal.cmp_eq_eq.mp

instance : TransCmp itemCmp := by unfold itemCmp; infer_instance

theorem itemCmp_eq_eq {a b : String × MVal} : itemCmp a b = .eq ↔ a = b := by
  constructor
  · intro h
    simp only [itemCmp, compareLex_eq_eq, cmpOn_eq_eq, compare_eq_iff_eq, MVal.cmp_eq_eq] at h
    exact Prod.ext h.1 h.2
  · rintro rfl
    simp [itemCmp, compareLex_eq_eq, cmpOn_eq_eq]

instance : LawfulEqCmp itemCmp where
  compare_self := itemCmp_eq_eq.mpr rfl
  eq_of_compare := itemCmp_eq_eq.mp

instance : TransCmp itemsCmp := by unfold itemsCmp; infer_instance

/-- canonical form of a details dict: strictly ascending keys (the harness sends dicts in this
form; Python's `Metadata.__eq__`/`__lt__`/`__hash__` do not see insertion order) -/
def DictCanon (d : Dict MVal) : Prop := d.Pairwise (fun a b => compare a.1 b.1 = .lt)

instance (d : Dict MVal) : Decidable (DictCanon d) := by unfold DictCanon; infer_instance

theorem sortItems_of_canon {d : Dict MVal} (h : DictCanon d) : sortItems d = d := by
  unfold sortItems
  apply List.mergeSort_of_pairwise
  refine h.imp ?_
  intro a b hab
  simp [itemCmp, compareLex, cmpOn, hab]

theorem itemsCmp_eq_eq {a b : Dict MVal} (ha : DictCanon a) (hb : DictCanon b) :
    itemsCmp a b = .eq ↔ a = b := by
  simp only [itemsCmp, cmpOn_eq_eq, sortItems_of_canon ha, sortItems_of_canon hb]
  exact ⟨LawfulEqCmp.eq_of_compare, fun h => h ▸ ReflCmp.compare_self⟩

/-! ### limit, optional strings, optional dates -/

instance : TransCmp limCmp := by unfold limCmp; infer_instance
instance : TransCmp optStrCmp := by unfold optStrCmp; infer_instance
instance : TransCmp optDateCmp := by unfold optDateCmp; infer_instance

theorem limCmp_eq_eq {a b : Option Rat} : limCmp a b = .eq ↔ a = b := by
  constructor
  · intro h
    simp only [limCmp, compareLex_eq_eq, cmpOn_eq_eq, compare_eq_iff_eq, ratCmp_eq_eq, limKey] at h
    cases a <;> cases b <;> simp_all
  · rintro rfl
    simp [limCmp, compareLex_eq_eq, cmpOn_eq_eq]

theorem optStrCmp_eq_eq {a b : Option String} : optStrCmp a b = .eq ↔ a = b := by
  simp [optStrCmp]

theorem optDateCmp_eq_eq {a b : Option Date} : optDateCmp a b = .eq ↔ a = b := by
  constructor
  · intro h
    simp only [optDateCmp, compareLex_eq_eq, cmpOn_eq_eq, compare_eq_iff_eq, Date.cmp_eq_eq,
      optDateKey] at h
    cases a <;> cases b <;> simp_all
  · rintro rfl
    simp [optDateCmp, compareLex_eq_eq, cmpOn_eq_eq]

/-! ### Metadata -/

instance : TransCmp Metadata.cmp := by unfold Metadata.cmp; infer_instance

/-- canonical metadata: both detail dicts have strictly ascending keys -/
def Metadata.Canon (m : Metadata) : Prop := DictCanon m.details ∧ DictCanon m.lossDetails

instance (m : Metadata) : Decidable m.Canon := by unfold Metadata.Canon; infer_instance

theorem Metadata.cmp_eq_eq {a b : Metadata} (ha : a.Canon) (hb : b.Canon) :
    Metadata.cmp a b = .eq ↔ a = b := by
  constructor
  · intro h
    simp only [Metadata.cmp, compareLex_eq_eq, cmpOn_eq_eq, optStrCmp_eq_eq, limCmp_eq_eq,
      itemsCmp_eq_eq ha.1 hb.1, itemsCmp_eq_eq ha.2 hb.2] at h
    cases a; cases b; simp_all
  · rintro rfl
    exact ReflCmp.compare_self

/-! ### Cells -/

instance : TransCmp Cell.cmp := by unfold Cell.cmp; infer_instance

theorem Cell.cmp_eq_eq {a b : Cell} (ha : a.md.Canon) (hb : b.md.Canon) :
    Cell.cmp a b = .eq ↔ a.coord = b.coord := by
  simp only [Cell.cmp, compareLex_eq_eq, cmpOn_eq_eq, Metadata.cmp_eq_eq ha hb, Date.cmp_eq_eq,
    optDateCmp_eq_eq, Cell.coord, Coord.mk.injEq]

end Bermuda
