/-
Helper lemmas for C20: the sorted sample, the piecewise-linear interpolation of `np.quantile`,
membership facts about `groupBy`, `zip3`, `slicePeriodRows`.
-/
import Bermuda.Model.Plot
import Bermuda.Lemmas.Ops
import Mathlib.Tactic.Linarith
namespace Bermuda.Plot

def SortedR (s : List Rat) : Prop := s.Pairwise (· ≤ ·)

theorem sortRat_sorted (xs : List Rat) : SortedR (sortRat xs) := by
  unfold SortedR sortRat
  have := List.pairwise_mergeSort (le := fun a b : Rat => decide (a ≤ b))
    (by intro a b c; simp only [decide_eq_true_eq]; exact Rat.le_trans)
    (by intro a b; simp only [Bool.or_eq_true, decide_eq_true_eq]; exact Rat.le_total) xs
  simpa using this

theorem sortRat_length (xs : List Rat) : (sortRat xs).length = xs.length :=
  (List.mergeSort_perm xs _).length_eq

theorem nth_mono {s : List Rat} (hs : SortedR s) {i j : Nat} (h : i ≤ j) : nth s i ≤ nth s j := by
  unfold nth
  by_cases hl : s.length = 0
  · have : s = [] := List.eq_nil_of_length_eq_zero hl
    subst this; simp
  · have hi : min i (s.length - 1) < s.length := by omega
    have hj : min j (s.length - 1) < s.length := by omega
    rw [List.getD_eq_getElem?_getD, List.getD_eq_getElem?_getD, List.getElem?_eq_getElem hi,
      List.getElem?_eq_getElem hj]
    simp only [Option.getD_some]
    by_cases heq : min i (s.length - 1) = min j (s.length - 1)
    · simp [heq]
    · exact List.pairwise_iff_getElem.mp hs _ _ hi hj (by omega)

/-- the piecewise-linear interpolation of `np.quantile` at virtual index `h` -/
def interp (s : List Rat) (h : Rat) : Rat :=
  nth s h.floor.toNat + (nth s (h.floor.toNat + 1) - nth s h.floor.toNat) * (h - (h.floor : Rat))

theorem quantile_eq_interp (xs : List Rat) (q : Rat) :
    quantile xs q = interp (sortRat xs) (q * ((xs.length : Rat) - 1)) := rfl

theorem frac_bounds (h : Rat) : 0 ≤ h - (h.floor : Rat) ∧ h - (h.floor : Rat) < 1 := by
  have h1 := Rat.floor_le h
  have h2 := Rat.lt_floor_add_one h
  have : ((h.floor + 1 : Int) : Rat) = (h.floor : Rat) + 1 := by push_cast; rfl
  rw [this] at h2
  constructor <;> linarith

theorem interp_bounds {s : List Rat} (hs : SortedR s) (h : Rat) :
    nth s h.floor.toNat ≤ interp s h ∧ interp s h ≤ nth s (h.floor.toNat + 1) := by
  unfold interp
  have hd : nth s h.floor.toNat ≤ nth s (h.floor.toNat + 1) := nth_mono hs (by omega)
  obtain ⟨f0, f1⟩ := frac_bounds h
  constructor
  · nlinarith [mul_nonneg (sub_nonneg.mpr hd) f0]
  · nlinarith [mul_nonneg (sub_nonneg.mpr hd) (sub_nonneg.mpr (le_of_lt f1))]

theorem interp_mono {s : List Rat} (hs : SortedR s) {h h' : Rat} (h0 : 0 ≤ h) (hh : h ≤ h') :
    interp s h ≤ interp s h' := by
  have hfl : h.floor ≤ h'.floor := Rat.floor_monotone hh
  have hnn : 0 ≤ h.floor := Rat.le_floor_iff.mpr (by simpa using h0)
  rcases Int.lt_or_eq_of_le hfl with hlt | heq
  · have h1 := (interp_bounds hs h).2
    have h2 := (interp_bounds hs h').1
    have h3 : nth s (h.floor.toNat + 1) ≤ nth s h'.floor.toNat := nth_mono hs (by omega)
    linarith
  · unfold interp
    rw [← heq]
    have hd : nth s h.floor.toNat ≤ nth s (h.floor.toNat + 1) := nth_mono hs (by omega)
    nlinarith [mul_nonneg (sub_nonneg.mpr hd) (sub_nonneg.mpr hh)]


theorem nth_clamp (s : List Rat) (i : Nat) : nth s i = nth s (min i (s.length - 1)) := by
  simp [nth]

theorem nth_le_last {s : List Rat} (hs : SortedR s) (i : Nat) : nth s i ≤ nth s (s.length - 1) := by
  rw [nth_clamp s i]; exact nth_mono hs (Nat.min_le_right _ _)

theorem nth_zero_le {s : List Rat} (hs : SortedR s) (i : Nat) : nth s 0 ≤ nth s i :=
  nth_mono hs (Nat.zero_le _)

/-! ### groupBy / zip3 membership -/

theorem groupBy_foldl_key {α κ} [BEq κ] [LawfulBEq κ] (key : α → κ) (l : List α)
    (init : List (κ × List α)) (hinit : ∀ p ∈ init, ∀ a ∈ p.2, key a = p.1) :
    ∀ p ∈ l.foldl (fun acc a =>
        let k := key a
        if acc.any (·.1 == k) then acc.map (fun p => if p.1 == k then (p.1, p.2 ++ [a]) else p)
        else acc ++ [(k, [a])]) init,
      ∀ a ∈ p.2, key a = p.1 := by
  induction l generalizing init with
  | nil => simpa using hinit
  | cons x rest ih =>
    simp only [List.foldl_cons]
    apply ih
    intro p hp a ha
    split at hp
    · obtain ⟨q, hq, rfl⟩ := List.mem_map.mp hp
      by_cases hk : (q.1 == key x) = true
      · simp only [hk, if_true] at ha ⊢
        rcases List.mem_append.mp ha with ha | ha
        · exact hinit q hq a ha
        · simp at ha; subst ha; exact (eq_of_beq hk).symm
      · simp only [hk] at ha ⊢
        exact hinit q hq a ha
    · rcases List.mem_append.mp hp with hp | hp
      · exact hinit p hp a ha
      · simp at hp; subst hp; simp at ha; subst ha; rfl

theorem key_of_mem_groupBy {α κ} [BEq κ] [LawfulBEq κ] {key : α → κ} {l : List α}
    {p : κ × List α} {a : α} (hp : p ∈ groupBy key l) (ha : a ∈ p.2) : key a = p.1 :=
  groupBy_foldl_key key l [] (by simp) p hp a ha

theorem mem_zip3 {α β γ} {as : List α} {bs : List β} {cs : List γ} {x : α × β × γ}
    (h : x ∈ zip3 as bs cs) : x.1 ∈ as ∧ x.2.1 ∈ bs ∧ x.2.2 ∈ cs := by
  induction as generalizing bs cs with
  | nil => simp [zip3] at h
  | cons a as ih =>
    cases bs with
    | nil => simp [zip3] at h
    | cons b bs =>
      cases cs with
      | nil => simp [zip3] at h
      | cons c cs =>
        simp only [zip3, List.mem_cons] at h
        rcases h with h | h
        · subst h; simp
        · obtain ⟨h1, h2, h3⟩ := ih h
          exact ⟨List.mem_cons_of_mem _ h1, List.mem_cons_of_mem _ h2, List.mem_cons_of_mem _ h3⟩

/-- every cell of a row of `slice_period_rows` has the row's (metadata, period) key -/
theorem rowKey_of_mem_slicePeriodRows {t : List Cell} {kr : RowKey × List Cell} {c : Cell}
    (hkr : kr ∈ slicePeriodRows t) (hc : c ∈ kr.2) : rowKey c = kr.1 := by
  unfold slicePeriodRows at hkr
  obtain ⟨g, hg, rfl⟩ := List.mem_map.mp hkr
  have hg' : g ∈ groupBy rowKey t := (List.mergeSort_perm _ _).mem_iff.mp hg
  have hc' : c ∈ g.2 := (List.mergeSort_perm _ _).mem_iff.mp hc
  exact key_of_mem_groupBy (key := rowKey) (p := g) hg' hc'

theorem mem_of_mem_slicePeriodRows {t : List Cell} {kr : RowKey × List Cell} {c : Cell}
    (hkr : kr ∈ slicePeriodRows t) (hc : c ∈ kr.2) : c ∈ t := by
  unfold slicePeriodRows at hkr
  obtain ⟨g, hg, rfl⟩ := List.mem_map.mp hkr
  have hg' : g ∈ groupBy rowKey t := (List.mergeSort_perm _ _).mem_iff.mp hg
  have hc' : c ∈ g.2 := (List.mergeSort_perm _ _).mem_iff.mp hc
  exact mem_of_mem_groupBy (p := g) hg' hc'

end Bermuda.Plot
