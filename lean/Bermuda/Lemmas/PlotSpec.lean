/-
Lemmas for the bridge theorem of C20 (`spec_holds_on_model`): the Spec predicates hold on what the
model computes. Statistics first (names ↔ values), then metrics (tables), then rows and neighbours.
-/
import Bermuda.Model.Plot
import Bermuda.Spec.C20
import Bermuda.Lemmas.Plot
import Bermuda.Lemmas.Order
import Bermuda.Lemmas.Sort
import Bermuda.Generated.PlotMetrics
import Mathlib.Tactic.Linarith
namespace Bermuda.Plot
open Bermuda Bermuda.Spec.C20

theorem all2_map {α β} (f : α → β → Bool) (g : α → β) (l : List α)
    (h : ∀ a ∈ l, f a (g a) = true) : all2 f l (l.map g) = true := by
  induction l with
  | nil => rfl
  | cons a rest ih =>
    simp only [List.map_cons, all2, Bool.and_eq_true]
    exact ⟨h a (by simp), ih fun b hb => h b (by simp [hb])⟩

theorem approx_self (a : Rat) : approx 0 a a = true := by
  simp [approx, absR]

theorem leTol_of_le {a b : Rat} (h : a ≤ b) : leTol 0 a b = true := by
  simp [leTol, h]

/-- the positional constructor call of `from_metric`, spelled out against the generated tables -/
theorem stats_eq (xs : List Rat) : statNames.zip (statValues xs) =
    [("mean", .exact (mean xs)), ("median", .exact (median xs)), ("sd", .sqrt (variance xs)),
     ("min", .exact (minimum xs)), ("max", .exact (maximum xs)),
     ("q2_5", .exact (quantile xs ((1 : Rat) / 40))), ("q5", .exact (quantile xs ((1 : Rat) / 20))),
     ("q10", .exact (quantile xs ((1 : Rat) / 10))), ("q20", .exact (quantile xs ((1 : Rat) / 5))),
     ("q50", .exact (quantile xs ((1 : Rat) / 2))), ("q80", .exact (quantile xs ((4 : Rat) / 5))),
     ("q90", .exact (quantile xs ((9 : Rat) / 10))), ("q95", .exact (quantile xs ((19 : Rat) / 20))),
     ("q97_5", .exact (quantile xs ((39 : Rat) / 40)))] := rfl

theorem parseLevel_names :
    parseLevel "mean" = none ∧ parseLevel "median" = none ∧ parseLevel "sd" = none ∧
    parseLevel "min" = none ∧ parseLevel "max" = none ∧
    parseLevel "q2_5" = some ((1 : Rat) / 40) ∧ parseLevel "q5" = some ((1 : Rat) / 20) ∧
    parseLevel "q10" = some ((1 : Rat) / 10) ∧ parseLevel "q20" = some ((1 : Rat) / 5) ∧
    parseLevel "q50" = some ((1 : Rat) / 2) ∧ parseLevel "q80" = some ((4 : Rat) / 5) ∧
    parseLevel "q90" = some ((9 : Rat) / 10) ∧ parseLevel "q95" = some ((19 : Rat) / 20) ∧
    parseLevel "q97_5" = some ((39 : Rat) / 40) := by decide +kernel

/-! ### min / max: the fold of the Spec equals the end of the sorted sample -/

theorem foldl_min_le (xs : List Rat) (a : Rat) :
    (∀ x ∈ a :: xs, xs.foldl (fun a b => if b < a then b else a) a ≤ x) ∧
    xs.foldl (fun a b => if b < a then b else a) a ∈ a :: xs := by
  induction xs generalizing a with
  | nil => simp
  | cons y rest ih =>
    simp only [List.foldl_cons]
    generalize hm : (if y < a then y else a) = m
    have hma : m ≤ a := by rw [← hm]; split <;> linarith
    have hmy : m ≤ y := by rw [← hm]; split <;> linarith
    have hmem : m = a ∨ m = y := by rw [← hm]; split <;> simp
    obtain ⟨h1, h2⟩ := ih m
    have hfm := h1 m (by simp)
    constructor
    · intro x hx
      rcases List.mem_cons.mp hx with rfl | hx
      · linarith
      · rcases List.mem_cons.mp hx with rfl | hx
        · linarith
        · exact h1 x (by simp [hx])
    · rcases List.mem_cons.mp h2 with h | h
      · rw [h]; rcases hmem with h' | h' <;> simp [h']
      · simp [h]

theorem foldl_max_ge (xs : List Rat) (a : Rat) :
    (∀ x ∈ a :: xs, x ≤ xs.foldl (fun a b => if a < b then b else a) a) ∧
    xs.foldl (fun a b => if a < b then b else a) a ∈ a :: xs := by
  induction xs generalizing a with
  | nil => simp
  | cons y rest ih =>
    simp only [List.foldl_cons]
    generalize hm : (if a < y then y else a) = m
    have hma : a ≤ m := by rw [← hm]; split <;> linarith
    have hmy : y ≤ m := by rw [← hm]; split <;> linarith
    have hmem : m = a ∨ m = y := by rw [← hm]; split <;> simp
    obtain ⟨h1, h2⟩ := ih m
    have hfm := h1 m (by simp)
    constructor
    · intro x hx
      rcases List.mem_cons.mp hx with rfl | hx
      · linarith
      · rcases List.mem_cons.mp hx with rfl | hx
        · linarith
        · exact h1 x (by simp [hx])
    · rcases List.mem_cons.mp h2 with h | h
      · rw [h]; rcases hmem with h' | h' <;> simp [h']
      · simp [h]

theorem nth_mem {s : List Rat} (hs : s ≠ []) (i : Nat) : nth s i ∈ s := by
  unfold nth
  have hl : 0 < s.length := List.length_pos_iff.mpr hs
  have hi : min i (s.length - 1) < s.length := by omega
  rw [List.getD_eq_getElem?_getD, List.getElem?_eq_getElem hi]
  simp

theorem mem_le_last {s : List Rat} (hs : SortedR s) {x : Rat} (hx : x ∈ s) : x ≤ nth s (s.length - 1) := by
  obtain ⟨i, hi, rfl⟩ := List.getElem_of_mem hx
  have : s[i] = nth s i := by
    unfold nth
    rw [List.getD_eq_getElem?_getD, Nat.min_eq_left (by omega), List.getElem?_eq_getElem hi]; simp
  rw [this]; exact nth_le_last hs i

theorem first_le_mem {s : List Rat} (hs : SortedR s) {x : Rat} (hx : x ∈ s) : nth s 0 ≤ x := by
  obtain ⟨i, hi, rfl⟩ := List.getElem_of_mem hx
  have : s[i] = nth s i := by
    unfold nth
    rw [List.getD_eq_getElem?_getD, Nat.min_eq_left (by omega), List.getElem?_eq_getElem hi]; simp
  rw [this]; exact nth_zero_le hs i

theorem mem_sortRat {xs : List Rat} {x : Rat} : x ∈ sortRat xs ↔ x ∈ xs :=
  (List.mergeSort_perm xs _).mem_iff

theorem minOf_eq_minimum (xs : List Rat) : minOf xs = minimum xs := by
  cases xs with
  | nil => simp [minOf, minimum, sortRat, nth]
  | cons a rest =>
    have hs := sortRat_sorted (a :: rest)
    have hne : sortRat (a :: rest) ≠ [] := by
      intro h; have := sortRat_length (a :: rest); rw [h] at this; simp at this
    obtain ⟨h1, h2⟩ := foldl_min_le rest a
    unfold minOf minimum
    apply le_antisymm
    · exact h1 _ (mem_sortRat.mp (nth_mem hne 0))
    · exact first_le_mem hs (mem_sortRat.mpr h2)

theorem maxOf_eq_maximum (xs : List Rat) : maxOf xs = maximum xs := by
  cases xs with
  | nil => simp [maxOf, maximum, sortRat, nth]
  | cons a rest =>
    have hs := sortRat_sorted (a :: rest)
    have hne : sortRat (a :: rest) ≠ [] := by
      intro h; have := sortRat_length (a :: rest); rw [h] at this; simp at this
    obtain ⟨h1, h2⟩ := foldl_max_ge rest a
    unfold maxOf maximum
    rw [← sortRat_length (a :: rest)]
    apply le_antisymm
    · exact mem_le_last hs (mem_sortRat.mpr h2)
    · exact h1 _ (mem_sortRat.mp (nth_mem hne _))

/-! ### a summary built by the model carries the statistics its names state -/

theorem statsMatch_self (xs : List Rat) : statsMatch 0 xs (statNames.zip (statValues xs)) = true := by
  rw [stats_eq]
  obtain ⟨p1, p2, p3, p4, p5, p6, p7, p8, p9, p10, p11, p12, p13, p14⟩ := parseLevel_names
  simp [statsMatch, requiredStats, List.lookup, statOf, p6, p7, p8, p9, p10, p11, p12, p13, p14,
    svalApprox, approx_self, minOf_eq_minimum, maxOf_eq_maximum]

theorem summaryMatches_self (mv : MV) : summaryMatches 0 mv (fieldSummary mv) = true := by
  cases mv with
  | scalar q => simp [summaryMatches, fieldSummary, svalApprox, approx_self]
  | sample xs =>
    cases xs with
    | nil => simpa [summaryMatches, fieldSummary] using statsMatch_self []
    | cons x rest =>
      cases rest with
      | nil => simp [summaryMatches, fieldSummary, svalApprox, approx_self]
      | cons y r => simpa [summaryMatches, fieldSummary] using statsMatch_self (x :: y :: r)

/-! ### monotone clause -/

theorem quantile_nil (q : Rat) : quantile [] q = 0 := by
  simp [quantile, sortRat, nth]

theorem quantile_mono_all (xs : List Rat) {q q' : Rat} (h0 : 0 ≤ q) (h : q ≤ q') :
    quantile xs q ≤ quantile xs q' := by
  cases xs with
  | nil => simp [quantile_nil]
  | cons a rest =>
    rw [quantile_eq_interp, quantile_eq_interp]
    have hn : (1 : Rat) ≤ ((a :: rest).length : Rat) := by
      have : 1 ≤ (a :: rest).length := by simp
      exact_mod_cast this
    apply interp_mono (sortRat_sorted _)
    · exact mul_nonneg h0 (by linarith)
    · exact mul_le_mul_of_nonneg_right h (by linarith)

theorem quantile_bounds (xs : List Rat) (q : Rat) :
    minimum xs ≤ quantile xs q ∧ quantile xs q ≤ maximum xs := by
  rw [quantile_eq_interp]
  have hs := sortRat_sorted xs
  obtain ⟨lo, hi⟩ := interp_bounds hs (q * ((xs.length : Rat) - 1))
  unfold minimum maximum
  constructor
  · exact le_trans (nth_zero_le hs _) lo
  · have := nth_le_last hs ((q * ((xs.length : Rat) - 1)).floor.toNat + 1)
    rw [sortRat_length] at this
    exact le_trans hi this

theorem namedQuantiles_sample (xs : List Rat) (fc : Bool) :
    ∀ p ∈ namedQuantiles ⟨statNames.zip (statValues xs), fc⟩, 0 ≤ p.1 ∧ p.2 = quantile xs p.1 := by
  rw [stats_eq]
  obtain ⟨p1, p2, p3, p4, p5, p6, p7, p8, p9, p10, p11, p12, p13, p14⟩ := parseLevel_names
  intro p hp
  simp [namedQuantiles, p1, p2, p3, p4, p5, p6, p7, p8, p9, p10, p11, p12, p13, p14, exactOf] at hp
  rcases hp with rfl | rfl | rfl | rfl | rfl | rfl | rfl | rfl | rfl <;> exact ⟨by norm_num, rfl⟩

theorem summaryMonotone_sample (xs : List Rat) (fc : Bool) :
    summaryMonotone 0 ⟨statNames.zip (statValues xs), fc⟩ = true := by
  have hq := namedQuantiles_sample xs fc
  have hmin : ((statNames.zip (statValues xs)).lookup "min").bind exactOf = some (minimum xs) := by
    rw [stats_eq]; simp [List.lookup, exactOf]
  have hmax : ((statNames.zip (statValues xs)).lookup "max").bind exactOf = some (maximum xs) := by
    rw [stats_eq]; simp [List.lookup, exactOf]
  unfold summaryMonotone
  simp only [hmin, hmax, Bool.and_eq_true, List.all_eq_true]
  constructor
  · intro p hp p' hp'
    obtain ⟨h0, e⟩ := hq p hp
    obtain ⟨_, e'⟩ := hq p' hp'
    by_cases hle : p.1 ≤ p'.1
    · have := quantile_mono_all xs h0 hle
      simp [hle, leTol, e, e', this]
    · simp [hle]
  · intro p hp
    obtain ⟨_, e⟩ := hq p hp
    obtain ⟨lo, hi⟩ := quantile_bounds xs p.1
    simp [leTol, e, lo, hi]

theorem summaryMonotone_self (mv : MV) : summaryMonotone 0 (fieldSummary mv) = true := by
  have hm : parseLevel "mean" = none := parseLevel_names.1
  cases mv with
  | scalar q => simp [summaryMonotone, fieldSummary, namedQuantiles, hm, List.lookup]
  | sample xs =>
    cases xs with
    | nil => exact summaryMonotone_sample [] _
    | cons x rest =>
      cases rest with
      | nil => simp [summaryMonotone, fieldSummary, namedQuantiles, hm, List.lookup]
      | cons y r => exact summaryMonotone_sample (x :: y :: r) _

/-! ### metrics: the generated table against the Spec's table -/

/-- the Spec's reading of a metric kind, compiled to the expression language of the model -/
def bodyOf : Kind → Nat × MExpr
  | .ratio f => (1, .div (.mul (.num 100) (.field .cell f)) (.field .cell "earned_premium"))
  | .pass f => (1, .field .cell f)
  | .ata f => (3, .div (.field .next f) (.field .cell f))
  | .ataIncr f => (3, .sub (.div (.field .next f) (.field .cell f)) (.num 1))

/-- COMMON_METRIC_DICT (generated) is, entry by entry and in order, the Spec's table -/
theorem table_matches :
    Generated.PlotMetrics.metrics.map (fun m => (toSnake m.name, m.arity, m.body)) =
      table.map (fun e => (e.1, bodyOf e.2)) := by decide +kernel

theorem table_names_nodup : (table.map (·.1)).Nodup := by decide +kernel

/-- `expected` with the successor made explicit -/
def expectedWith (c : Cell) (n : Option Cell) : Kind → Option MV
  | .ratio loss => ratio100 c loss
  | .pass f => cellField c f
  | .ata f => do
    let nn ← n
    let a ← cellField nn f
    let b ← cellField c f
    MV.bin ratDiv a b
  | .ataIncr f => do
    let r ← (do
      let nn ← n
      let a ← cellField nn f
      let b ← cellField c f
      MV.bin ratDiv a b)
    MV.bin ratSub r (.scalar 1)

theorem expected_eq (t : List Cell) (c : Cell) (k : Kind) :
    expected t c k = expectedWith c (nextInSlice t c) k := by
  cases k <;> rfl

theorem eval_bodyOf (k : Kind) (nm : String) (c : Cell) (p n : Option Cell) :
    safeApplyMetric ⟨nm, (bodyOf k).1, (bodyOf k).2⟩ c p n = expectedWith c n k := by
  cases k with
  | ratio f =>
    simp only [bodyOf, safeApplyMetric, MExpr.eval, expectedWith, ratio100, cellField]
    cases readField (some c) f <;> cases readField (some c) "earned_premium" <;> simp
  | pass f => rfl
  | ata f =>
    cases n <;> simp [bodyOf, safeApplyMetric, MExpr.eval, expectedWith, cellField, readField]
  | ataIncr f =>
    cases n <;> simp [bodyOf, safeApplyMetric, MExpr.eval, expectedWith, cellField, readField]

theorem cellSummaries_table (c : Cell) (p n : Option Cell) :
    cellSummaries Generated.PlotMetrics.metrics c p n =
      table.filterMap fun e => (expectedWith c n e.2).map fun mv => (e.1, fieldSummary mv) := by
  have h : cellSummaries Generated.PlotMetrics.metrics c p n =
      (Generated.PlotMetrics.metrics.map (fun m => (toSnake m.name, m.arity, m.body))).filterMap
        (fun x => (safeApplyMetric ⟨"", x.2.1, x.2.2⟩ c p n).map fun mv => (x.1, fieldSummary mv)) := by
    unfold cellSummaries
    rw [List.filterMap_map]
    rfl
  rw [h, table_matches, List.filterMap_map]
  congr 1
  funext e
  simp only [Function.comp, eval_bodyOf]

theorem lookup_filterMap_names {κ β γ : Type} (l : List (String × κ)) (g : String × κ → Option β) (h : β → γ)
    (hn : (l.map (·.1)).Nodup) {e0 : String × κ} (he : e0 ∈ l) :
    (l.filterMap fun e => (g e).map fun v => (e.1, h v)).lookup e0.1 = (g e0).map h := by
  induction l with
  | nil => cases he
  | cons e rest ih =>
    simp only [List.map_cons, List.nodup_cons] at hn
    obtain ⟨hnot, hrest⟩ := hn
    rcases List.mem_cons.mp he with rfl | he'
    · cases hg : g e0 with
      | some v => simp [hg]
      | none =>
        simp only [List.filterMap_cons, hg, Option.map_none]
        have : ∀ (r : List (String × κ)), (∀ x ∈ r, x.1 ≠ e0.1) →
            (r.filterMap fun e => (g e).map fun v => (e.1, h v)).lookup e0.1 = none := by
          intro r hr
          induction r with
          | nil => rfl
          | cons x xs ihx =>
            have hx := hr x (by simp)
            have hxs := ihx (fun y hy => hr y (by simp [hy]))
            cases hgx : g x with
            | none => simpa [List.filterMap_cons, hgx] using hxs
            | some v =>
              simp only [List.filterMap_cons, hgx, Option.map_some, List.lookup]
              have : (e0.1 == x.1) = false := by simpa using fun h => hx h.symm
              simp [this, hxs]
        exact this rest (fun x hx heq => hnot (List.mem_map.mpr ⟨x, hx, heq⟩))
    · have hne : e0.1 ≠ e.1 := fun heq => hnot (List.mem_map.mpr ⟨e0, he', heq⟩)
      have hb : (e0.1 == e.1) = false := by simpa using hne
      cases hg : g e with
      | none => simpa [List.filterMap_cons, hg] using ih hrest he'
      | some v => simp [hg, List.lookup, hb, ih hrest he']

/-- what a record's metric dict answers for a table name, given the row successor `n` -/
theorem lookup_cellSummaries (c : Cell) (p n : Option Cell) {e : String × Kind} (he : e ∈ table) :
    (cellSummaries Generated.PlotMetrics.metrics c p n).lookup e.1 =
      (expectedWith c n e.2).map fieldSummary := by
  rw [cellSummaries_table]
  exact lookup_filterMap_names table (fun e => expectedWith c n e.2) fieldSummary table_names_nodup he

/-! ### groupBy is the partition by key -/

theorem groupBy_foldl_filter {α κ} [BEq κ] [LawfulBEq κ] (key : α → κ) (l : List α) :
    ∀ (acc : List (κ × List α)) (pre : List α),
      (∀ p ∈ acc, p.2 = pre.filter (fun a => key a == p.1)) →
      (∀ a ∈ pre, ∃ p ∈ acc, p.1 = key a) →
      (∀ p ∈ l.foldl (fun acc a =>
          let k := key a
          if acc.any (·.1 == k) then acc.map (fun p => if p.1 == k then (p.1, p.2 ++ [a]) else p)
          else acc ++ [(k, [a])]) acc, p.2 = (pre ++ l).filter (fun a => key a == p.1)) ∧
      (∀ a ∈ pre ++ l, ∃ p ∈ l.foldl (fun acc a =>
          let k := key a
          if acc.any (·.1 == k) then acc.map (fun p => if p.1 == k then (p.1, p.2 ++ [a]) else p)
          else acc ++ [(k, [a])]) acc, p.1 = key a) := by
  induction l with
  | nil =>
    intro acc pre h1 h2
    simp only [List.foldl_nil, List.append_nil]
    exact ⟨h1, h2⟩
  | cons x rest ih =>
    intro acc pre h1 h2
    simp only [List.foldl_cons]
    have := ih (if acc.any (·.1 == key x) then acc.map (fun p => if p.1 == key x then (p.1, p.2 ++ [x]) else p)
          else acc ++ [(key x, [x])]) (pre ++ [x]) ?_ ?_
    · simpa [List.append_assoc] using this
    · intro p hp
      split at hp
      · obtain ⟨q, hq, rfl⟩ := List.mem_map.mp hp
        by_cases hk : (q.1 == key x) = true
        · have : (key x == q.1) = true := by rw [eq_of_beq hk]; simp
          simp [hk, List.filter_append, h1 q hq, this]
        · have : (key x == q.1) = false := by
            cases h : (key x == q.1) with
            | false => rfl
            | true => exact absurd (by rw [eq_of_beq h]; simp) hk
          simp [hk, List.filter_append, h1 q hq, this]
      · rename_i hany
        rcases List.mem_append.mp hp with hp | hp
        · have hne : (key x == p.1) = false := by
            cases h : (key x == p.1) with
            | false => rfl
            | true =>
              exfalso; apply hany
              exact List.any_eq_true.mpr ⟨p, hp, by rw [eq_of_beq h]; simp⟩
          simp [List.filter_append, h1 p hp, hne]
        · simp at hp; subst hp
          have : pre.filter (fun a => key a == key x) = [] := by
            apply List.filter_eq_nil_iff.mpr
            intro a ha hka
            obtain ⟨q, hq, hqk⟩ := h2 a ha
            apply hany
            exact List.any_eq_true.mpr ⟨q, hq, by rw [hqk, eq_of_beq hka]; simp⟩
          simp [List.filter_append, this]
    · intro a ha
      rcases List.mem_append.mp ha with ha | ha
      · obtain ⟨q, hq, hqk⟩ := h2 a ha
        split
        · by_cases hk : (q.1 == key x) = true
          · exact ⟨(q.1, q.2 ++ [x]), List.mem_map.mpr ⟨q, hq, by simp [hk]⟩, hqk⟩
          · exact ⟨q, List.mem_map.mpr ⟨q, hq, by simp [hk]⟩, hqk⟩
        · exact ⟨q, List.mem_append_left _ hq, hqk⟩
      · simp at ha; subst ha
        split
        · rename_i hany
          obtain ⟨q, hq, hqk⟩ := List.any_eq_true.mp hany
          exact ⟨(q.1, q.2 ++ [a]), List.mem_map.mpr ⟨q, hq, by simp [hqk]⟩, eq_of_beq hqk⟩
        · exact ⟨(key a, [a]), by simp, rfl⟩

theorem groupBy_group_eq {α κ} [BEq κ] [LawfulBEq κ] {key : α → κ} {l : List α} {p : κ × List α}
    (hp : p ∈ groupBy key l) : p.2 = l.filter (fun a => key a == p.1) := by
  have := (groupBy_foldl_filter key l [] [] (by simp) (by simp)).1 p hp
  simpa using this

theorem groupBy_cover {α κ} [BEq κ] [LawfulBEq κ] {key : α → κ} {l : List α} {a : α} (ha : a ∈ l) :
    ∃ p ∈ groupBy key l, p.1 = key a := by
  have := (groupBy_foldl_filter key l [] [] (by simp) (by simp)).2 a (by simpa using ha)
  exact this

/-! ### rows and their neighbour triples -/

def evLe (a b : Cell) : Bool := Date.cmp a.ev b.ev != .gt

/-- a row of `slice_period_rows` is the cells of the triangle with that (metadata, period), sorted
by evaluation date -/
theorem row_eq {t : List Cell} {kr : RowKey × List Cell} (hkr : kr ∈ slicePeriodRows t) :
    kr.2 = (t.filter (fun c => rowKey c == kr.1)).mergeSort evLe := by
  unfold slicePeriodRows at hkr
  obtain ⟨g, hg, rfl⟩ := List.mem_map.mp hkr
  have hg' : g ∈ groupBy rowKey t := (List.mergeSort_perm _ _).mem_iff.mp hg
  show g.2.mergeSort _ = _
  rw [groupBy_group_eq hg']
  rfl

theorem row_cover {t : List Cell} {c : Cell} (hc : c ∈ t) :
    ∃ kr ∈ slicePeriodRows t, kr.1 = rowKey c ∧ c ∈ kr.2 := by
  obtain ⟨g, hg, hk⟩ := groupBy_cover (key := rowKey) hc
  refine ⟨(g.1, g.2.mergeSort evLe), ?_, hk, ?_⟩
  · unfold slicePeriodRows
    exact List.mem_map.mpr ⟨g, (List.mergeSort_perm _ _).mem_iff.mpr hg, rfl⟩
  · apply (List.mergeSort_perm _ _).mem_iff.mpr
    rw [groupBy_group_eq hg]
    exact List.mem_filter.mpr ⟨hc, by rw [hk]; simp⟩

/-- the neighbour triples of a row, by structural recursion -/
def triplesAux (prev : Option Cell) : List Cell → List (Cell × Option Cell × Option Cell)
  | [] => []
  | c :: rest => (c, prev, rest.head?) :: triplesAux (some c) rest

theorem zip3_triples (row : List Cell) : ∀ prev : Option Cell,
    zip3 row (prev :: row.dropLast.map some) ((row.drop 1).map some ++ [none]) = triplesAux prev row := by
  induction row with
  | nil => intro prev; rfl
  | cons c rest ih =>
    intro prev
    cases rest with
    | nil => simp [zip3, triplesAux]
    | cons d r =>
      have := ih (some c)
      simp only [List.dropLast_cons_cons, List.map_cons, List.drop_succ_cons, List.drop_zero] at this ⊢
      simp only [zip3, List.cons_append]
      rw [this]
      rfl

theorem rowTriples_eq (row : List Cell) : rowTriples row = triplesAux none row := zip3_triples row none

theorem mem_triplesAux {row : List Cell} {prev : Option Cell} {tr : Cell × Option Cell × Option Cell}
    (h : tr ∈ triplesAux prev row) : ∃ pre post, row = pre ++ tr.1 :: post ∧ tr.2.2 = post.head? := by
  induction row generalizing prev with
  | nil => cases h
  | cons c rest ih =>
    simp only [triplesAux, List.mem_cons] at h
    rcases h with rfl | h
    · exact ⟨[], rest, rfl, rfl⟩
    · obtain ⟨pre, post, hr, hn⟩ := ih h
      exact ⟨c :: pre, post, by rw [hr]; rfl, hn⟩

theorem triplesAux_fst (row : List Cell) (prev : Option Cell) : (triplesAux prev row).map (·.1) = row := by
  induction row generalizing prev with
  | nil => rfl
  | cons c rest ih => simp [triplesAux, ih]

/-! ### the fold of `nextInSlice` picks an element of minimal evaluation date -/

def minStep (best : Option Cell) (d : Cell) : Option Cell :=
  match best with
  | none => some d
  | some b => if d.ev < b.ev then some d else some b

theorem date_lt_trans {a b c : Date} (h1 : a < b) (h2 : b < c) : a < c :=
  Std.TransCmp.lt_trans (cmp := Date.cmp) h1 h2

theorem date_lt_irrefl (a : Date) : ¬ a < a := by
  intro h
  have : Date.cmp a a = .lt := h
  rw [Std.ReflCmp.compare_self (cmp := Date.cmp)] at this
  cases this

/-- trichotomy in the form needed: not `a < b` means `b < a` or equal -/
theorem date_not_lt {a b : Date} (h : ¬ a < b) : b < a ∨ a = b := by
  cases hc : Date.cmp a b with
  | lt => exact absurd hc h
  | eq => exact Or.inr (Date.cmp_eq_eq.mp hc)
  | gt =>
    left
    show Date.cmp b a = .lt
    rw [Std.OrientedCmp.eq_swap (cmp := Date.cmp), hc]; rfl

theorem foldl_minStep_some (l : List Cell) (b : Cell) :
    ∃ m, l.foldl minStep (some b) = some m ∧ m ∈ b :: l ∧ ∀ d ∈ b :: l, ¬ d.ev < m.ev := by
  induction l generalizing b with
  | nil =>
    refine ⟨b, rfl, by simp, ?_⟩
    intro d hd; simp at hd; subst hd
    exact date_lt_irrefl _
  | cons x rest ih =>
    simp only [List.foldl_cons, minStep]
    by_cases hx : x.ev < b.ev
    · rw [if_pos hx]
      obtain ⟨m, hm, hmem, hmin⟩ := ih x
      refine ⟨m, hm, ?_, ?_⟩
      · rcases List.mem_cons.mp hmem with h | h <;> simp [h]
      · intro d hd
        rcases List.mem_cons.mp hd with rfl | hd
        · intro hlt
          -- d.ev < m.ev and x.ev < d.ev give x.ev < m.ev, against minimality
          exact hmin x (by simp) (date_lt_trans hx hlt)
        · exact hmin d hd
    · rw [if_neg hx]
      obtain ⟨m, hm, hmem, hmin⟩ := ih b
      refine ⟨m, hm, ?_, ?_⟩
      · rcases List.mem_cons.mp hmem with h | h <;> simp [h]
      · intro d hd
        rcases List.mem_cons.mp hd with rfl | hd
        · exact hmin d (by simp)
        · rcases List.mem_cons.mp hd with rfl | hd
          · intro hlt
            -- d = x, not x.ev < b.ev: b.ev < x.ev or equal; either way b.ev < m.ev
            rcases date_not_lt hx with h | h
            · exact hmin b (by simp) (date_lt_trans h hlt)
            · rw [h] at hlt; exact hmin b (by simp) hlt
          · exact hmin d (by simp [hd])

theorem nextInSlice_eq (t : List Cell) (c : Cell) :
    nextInSlice t c = (t.filter fun d => sameSlicePeriod c d && decide (c.ev < d.ev)).foldl minStep none := rfl

theorem foldl_minStep_none (l : List Cell) :
    (l = [] → l.foldl minStep none = none) ∧
    (l ≠ [] → ∃ m, l.foldl minStep none = some m ∧ m ∈ l ∧ ∀ d ∈ l, ¬ d.ev < m.ev) := by
  cases l with
  | nil => exact ⟨fun _ => rfl, fun h => absurd rfl h⟩
  | cons b rest =>
    constructor
    · intro h; cases h
    · intro _
      simpa [List.foldl_cons, minStep] using foldl_minStep_some rest b

/-! ### valid triangles -/

/-- what `build_plot_data` relies on: no two cells share (metadata, period, evaluation date) — the
summaries live in a dict keyed by the cell — and the value keys of a cell are distinct (a dict) -/
def ValidT (t : List Cell) : Prop :=
  t.Pairwise (fun a b => ¬ (rowKey a = rowKey b ∧ a.ev = b.ev)) ∧
  ∀ c ∈ t, (c.values.map (·.1)).Nodup

theorem pairwise_of_mem {α} {R : α → α → Prop} (hs : ∀ a b, R a b → R b a) {l : List α}
    (h : l.Pairwise R) {a b : α} (ha : a ∈ l) (hb : b ∈ l) (hne : a ≠ b) : R a b := by
  induction l with
  | nil => cases ha
  | cons x rest ih =>
    obtain ⟨hx, hrest⟩ := List.pairwise_cons.mp h
    rcases List.mem_cons.mp ha with rfl | ha'
    · rcases List.mem_cons.mp hb with rfl | hb'
      · exact absurd rfl hne
      · exact hx b hb'
    · rcases List.mem_cons.mp hb with rfl | hb'
      · exact hs _ _ (hx a ha')
      · exact ih hrest ha' hb'

theorem valid_distinct {t : List Cell} (hv : ValidT t) {a b : Cell} (ha : a ∈ t) (hb : b ∈ t)
    (hk : rowKey a = rowKey b) (he : a.ev = b.ev) : a = b := by
  by_contra hne
  exact pairwise_of_mem (R := fun a b => ¬ (rowKey a = rowKey b ∧ a.ev = b.ev))
    (fun a b h hab => h ⟨hab.1.symm, hab.2.symm⟩) hv.1 ha hb hne ⟨hk, he⟩

theorem valid_nodup {t : List Cell} (hv : ValidT t) : t.Nodup :=
  hv.1.imp fun h heq => h ⟨by rw [heq], by rw [heq]⟩

theorem evLe_eq : evLe = leOf (cmpOn (fun c : Cell => c.ev) Date.cmp) := rfl

theorem sameSlicePeriod_iff {c d : Cell} : sameSlicePeriod c d = true ↔ rowKey d = rowKey c := by
  simp only [sameSlicePeriod, rowKey, Bool.and_eq_true, beq_iff_eq, Prod.mk.injEq]
  constructor
  · rintro ⟨⟨h1, h2⟩, h3⟩; exact ⟨h1.symm, h2.symm, h3.symm⟩
  · rintro ⟨h1, h2, h3⟩; exact ⟨⟨h1.symm, h2.symm⟩, h3.symm⟩

theorem mem_row_iff {t : List Cell} {kr : RowKey × List Cell} (hkr : kr ∈ slicePeriodRows t) {d : Cell} :
    d ∈ kr.2 ↔ d ∈ t ∧ rowKey d = kr.1 := by
  rw [row_eq hkr, (List.mergeSort_perm _ _).mem_iff, List.mem_filter]
  simp

/-- rows are strictly increasing in the evaluation date -/
theorem row_strict {t : List Cell} (hv : ValidT t) {kr : RowKey × List Cell} (hkr : kr ∈ slicePeriodRows t) :
    kr.2.Pairwise (fun a b => a.ev < b.ev) := by
  have hsorted : kr.2.Pairwise (fun a b => evLe a b = true) := by
    rw [row_eq hkr, evLe_eq]
    exact sorted_mergeSort (cmp := cmpOn (fun c : Cell => c.ev) Date.cmp) _
  have hnodup : kr.2.Nodup := by
    rw [row_eq hkr]
    exact (List.mergeSort_perm _ _).nodup_iff.mpr ((valid_nodup hv).filter _)
  have := hsorted.and hnodup
  refine this.imp_of_mem ?_
  intro a b ha hb hab
  obtain ⟨hle, hne⟩ := hab
  have ha' := (mem_row_iff hkr).mp ha
  have hb' := (mem_row_iff hkr).mp hb
  cases hc : Date.cmp a.ev b.ev with
  | lt => exact hc
  | eq =>
    exact absurd (valid_distinct hv ha'.1 hb'.1 (ha'.2.trans hb'.2.symm) (Date.cmp_eq_eq.mp hc)) hne
  | gt => simp [evLe, hc] at hle

/-- the successor handed to a metric is the Spec's "next evaluation of the same slice and period" -/
theorem successor_eq {t : List Cell} (hv : ValidT t) {kr : RowKey × List Cell}
    (hkr : kr ∈ slicePeriodRows t) {tr : Cell × Option Cell × Option Cell} (htr : tr ∈ rowTriples kr.2) :
    tr.2.2 = nextInSlice t tr.1 := by
  rw [rowTriples_eq] at htr
  obtain ⟨pre, post, hrow, hn⟩ := mem_triplesAux htr
  have hstrict := row_strict hv hkr
  rw [hrow] at hstrict
  have hc_row : tr.1 ∈ kr.2 := by rw [hrow]; simp
  have hck := ((mem_row_iff hkr).mp hc_row).2
  obtain ⟨hpre_pw, hmid⟩ := List.pairwise_append.mp hstrict |>.2
  have hpost_pw := (List.pairwise_cons.mp hpre_pw).2
  have hpost_gt : ∀ d ∈ post, tr.1.ev < d.ev := (List.pairwise_cons.mp hpre_pw).1
  have hpre_lt : ∀ d ∈ pre, d.ev < tr.1.ev := fun d hd => hmid d hd tr.1 (by simp)
  have mem_cands : ∀ d, d ∈ (t.filter fun d => sameSlicePeriod tr.1 d && decide (tr.1.ev < d.ev)) ↔ d ∈ post := by
    intro d
    simp only [List.mem_filter, Bool.and_eq_true, decide_eq_true_eq, sameSlicePeriod_iff]
    constructor
    · rintro ⟨hdt, hdk, hlt⟩
      have hd_row : d ∈ kr.2 := (mem_row_iff hkr).mpr ⟨hdt, hdk.trans hck⟩
      rw [hrow] at hd_row
      rcases List.mem_append.mp hd_row with h | h
      · exact absurd (date_lt_trans hlt (hpre_lt d h)) (date_lt_irrefl _)
      · rcases List.mem_cons.mp h with rfl | h
        · exact absurd hlt (date_lt_irrefl _)
        · exact h
    · intro hd
      have hd_row : d ∈ kr.2 := by rw [hrow]; simp [hd]
      obtain ⟨hdt, hdk⟩ := (mem_row_iff hkr).mp hd_row
      exact ⟨hdt, hdk.trans hck.symm, hpost_gt d hd⟩
  rw [hn, nextInSlice_eq]
  cases hpost : post with
  | nil =>
    have : (t.filter fun d => sameSlicePeriod tr.1 d && decide (tr.1.ev < d.ev)) = [] := by
      apply List.eq_nil_iff_forall_not_mem.mpr
      intro d hd
      have := (mem_cands d).mp hd
      rw [hpost] at this; cases this
    rw [this]; rfl
  | cons d0 r =>
    have hd0 : d0 ∈ (t.filter fun d => sameSlicePeriod tr.1 d && decide (tr.1.ev < d.ev)) :=
      (mem_cands d0).mpr (by rw [hpost]; simp)
    obtain ⟨m, hm, hmem, hmin⟩ := (foldl_minStep_none _).2 (List.ne_nil_of_mem hd0)
    rw [hm]
    have hmpost := (mem_cands m).mp hmem
    rw [hpost] at hmpost hpost_pw
    rcases List.mem_cons.mp hmpost with rfl | hmr
    · rfl
    · exact absurd ((List.pairwise_cons.mp hpost_pw).1 m hmr) (hmin d0 hd0)

/-! ### `field_summaries[cell]` is the cell's own entry -/

theorem find_key_of_nodup {α} (d : List (String × α)) (hn : (d.map (·.1)).Nodup) {kv : String × α}
    (hk : kv ∈ d) : d.find? (fun p => p.1 == kv.1) = some kv := by
  induction d with
  | nil => cases hk
  | cons x rest ih =>
    simp only [List.map_cons, List.nodup_cons] at hn
    rcases List.mem_cons.mp hk with rfl | hk'
    · simp
    · have : (x.1 == kv.1) = false := by
        simpa using fun h : x.1 = kv.1 => hn.1 (List.mem_map.mpr ⟨kv, hk', h.symm⟩)
      simp [this, ih hn.2 hk']

theorem valuesEq_refl (d : Dict Val) (hn : (d.map (·.1)).Nodup) : valuesEq d d = true := by
  simp only [valuesEq, beq_self_eq_true, Bool.true_and, List.all_eq_true]
  intro kv hkv
  simp [Dict.get?, find_key_of_nodup d hn hkv, Val.eqv]

theorem cellEq_refl {c : Cell} (hn : (c.values.map (·.1)).Nodup) : cellEq c c = true := by
  simp [cellEq, valuesEq_refl c.values hn]

theorem cellEq_coords {a b : Cell} (h : cellEq a b = true) : rowKey a = rowKey b ∧ a.ev = b.ev := by
  simp only [cellEq, Bool.and_eq_true, beq_iff_eq] at h
  obtain ⟨⟨⟨⟨⟨h1, h2⟩, h3⟩, h4⟩, _⟩, _⟩ := h
  exact ⟨by simp [rowKey, h1, h2, h4], h3⟩

/-- every assignment into `field_summaries` -/
theorem mem_fieldSummaries {ms : List Metric} {t : List Cell} {e : Cell × List (String × Summary)}
    (he : e ∈ fieldSummaries ms t) :
    ∃ kr ∈ slicePeriodRows t, ∃ tr ∈ rowTriples kr.2, e = (tr.1, cellSummaries ms tr.1 tr.2.1 tr.2.2) := by
  unfold fieldSummaries at he
  obtain ⟨kr, hkr, he⟩ := List.mem_flatMap.mp he
  obtain ⟨tr, htr, rfl⟩ := List.mem_map.mp he
  exact ⟨kr, hkr, tr, htr, rfl⟩

theorem neighbours_mem {t : List Cell} {kr : RowKey × List Cell} (hkr : kr ∈ slicePeriodRows t)
    {tr : Cell × Option Cell × Option Cell} (htr : tr ∈ rowTriples kr.2) : tr.1 ∈ t :=
  mem_of_mem_slicePeriodRows hkr (mem_zip3 htr).1

theorem own_entry {t : List Cell} (hv : ValidT t) (ms : List Metric) {c : Cell} (hc : c ∈ t) :
    ∃ p, lookupLast c (fieldSummaries ms t) = cellSummaries ms c p (nextInSlice t c) := by
  -- the filter is not empty: c sits in its row
  obtain ⟨kr, hkr, _, hcrow⟩ := row_cover hc
  have hfst : c ∈ (rowTriples kr.2).map (·.1) := by rw [rowTriples_eq, triplesAux_fst]; exact hcrow
  obtain ⟨tr, htr, htr1⟩ := List.mem_map.mp hfst
  have hmem : (tr.1, cellSummaries ms tr.1 tr.2.1 tr.2.2) ∈
      (fieldSummaries ms t).filter (fun e => cellEq e.1 c) := by
    apply List.mem_filter.mpr
    constructor
    · unfold fieldSummaries
      exact List.mem_flatMap.mpr ⟨kr, hkr, List.mem_map.mpr ⟨tr, htr, rfl⟩⟩
    · simp only [htr1]; exact cellEq_refl (hv.2 c hc)
  unfold lookupLast
  cases hl : ((fieldSummaries ms t).filter fun e => cellEq e.1 c).getLast? with
  | none =>
    rw [List.getLast?_eq_none_iff] at hl
    rw [hl] at hmem; cases hmem
  | some e =>
    have he := List.mem_of_getLast? hl
    obtain ⟨he1, he2⟩ := List.mem_filter.mp he
    obtain ⟨kr', hkr', tr', htr', rfl⟩ := mem_fieldSummaries he1
    have hin := (neighbours_mem hkr' htr')
    have heq : tr'.1 = c := by
      obtain ⟨hk, hev⟩ := cellEq_coords he2
      exact valid_distinct hv hin hc hk hev
    refine ⟨tr'.2.1, ?_⟩
    simp only
    rw [successor_eq hv hkr' htr', heq]

/-! ### the Spec clauses on the model's records -/

abbrev gms := Generated.PlotMetrics.metrics

/-- what a record of the model answers for a table name -/
theorem record_lookup {t : List Cell} (hv : ValidT t) {c : Cell} (hc : c ∈ t) {e : String × Kind}
    (he : e ∈ table) :
    (mkRecord c (lookupLast c (fieldSummaries gms t))).metrics.lookup e.1 =
      (expected t c e.2).map fieldSummary := by
  obtain ⟨p, hp⟩ := own_entry hv gms hc
  simp only [mkRecord, hp]
  rw [lookup_cellSummaries c p _ he, expected_eq]

theorem valuesOk_model {t : List Cell} (hv : ValidT t) (sel : Kind → Bool) :
    valuesOk 0 sel t (buildPlotData gms t) = true := by
  unfold valuesOk buildPlotData
  apply all2_map
  intro c hc
  rw [List.all_eq_true]
  intro e he
  have het : e ∈ table := (List.mem_filter.mp he).1
  rw [record_lookup hv hc het]
  cases expected t c e.2 with
  | none => rfl
  | some mv => exact summaryMatches_self mv

theorem absentOk_model {t : List Cell} (hv : ValidT t) : absentOk t (buildPlotData gms t) = true := by
  unfold absentOk buildPlotData
  apply all2_map
  intro c hc
  rw [List.all_eq_true]
  intro e he
  rw [record_lookup hv hc he]
  cases expected t c e.2 <;> rfl

theorem cellSummaries_monotone (ms : List Metric) (c : Cell) (p n : Option Cell) :
    ∀ e ∈ cellSummaries ms c p n, summaryMonotone 0 e.2 = true := by
  intro e he
  unfold cellSummaries at he
  obtain ⟨m, _, hm⟩ := List.mem_filterMap.mp he
  cases h : safeApplyMetric m c p n with
  | none => simp [h] at hm
  | some mv =>
    simp only [h, Option.map_some, Option.some.injEq] at hm
    subst hm
    exact summaryMonotone_self mv

theorem monotoneOk_model (ms : List Metric) (t : List Cell) : monotoneOk 0 (buildPlotData ms t) = true := by
  unfold monotoneOk buildPlotData
  simp only [List.all_eq_true, List.mem_map]
  rintro r ⟨c, _, rfl⟩ e he
  simp only [mkRecord] at he
  unfold lookupLast at he
  split at he
  · rename_i x hx
    have hxm := List.mem_of_getLast? hx
    obtain ⟨kr, _, tr, _, rfl⟩ := mem_fieldSummaries (List.mem_filter.mp hxm).1
    exact cellSummaries_monotone ms _ _ _ e he
  · cases he

/-! ### the option `remove_empties`: `buildPlotDataOpt` -/

theorem nonEmpty_cellSummariesAll (ms : List Metric) (c : Cell) (p n : Option Cell) :
    nonEmpty (cellSummariesAll ms c p n) = cellSummaries ms c p n := by
  unfold nonEmpty cellSummariesAll cellSummaries
  rw [List.filterMap_map]
  congr 1
  funext m
  simp only [Function.comp]
  cases safeApplyMetric m c p n <;> rfl

theorem fieldSummaries_eq_map (ms : List Metric) (t : List Cell) :
    fieldSummaries ms t = (fieldSummariesAll ms t).map fun e => (e.1, nonEmpty e.2) := by
  unfold fieldSummaries fieldSummariesAll
  rw [List.map_flatMap]
  congr 1
  funext kr
  rw [List.map_map]
  apply List.map_congr_left
  intro tr _
  simp only [Function.comp, nonEmpty_cellSummariesAll]

theorem lookupLast_map (c : Cell) (l : List (Cell × List Entry)) :
    lookupLast c (l.map fun e => (e.1, nonEmpty e.2)) = nonEmpty (lookupLastAll c l) := by
  unfold lookupLast lookupLastAll
  rw [List.filter_map, List.getLast?_map]
  simp only [Function.comp_def]
  cases (l.filter fun e => cellEq e.1 c).getLast? with
  | none => rfl
  | some e => rfl

theorem nonEmpty_keep (b : Bool) (l : List Entry) : nonEmpty (keepEntries b l) = nonEmpty l := by
  cases b
  · rfl
  · simp only [keepEntries, if_true, nonEmpty]
    induction l with
    | nil => rfl
    | cons e l ih =>
      rcases e with ⟨k, _ | s⟩
      · simpa [List.filter_cons] using ih
      · simp [ih]

/-- for BOTH option values the coordinates, fields and non-empty summaries are those of the default call -/
theorem base_eq (b : Bool) (ms : List Metric) (t : List Cell) :
    (buildPlotDataOpt b ms t).map (·.base) = buildPlotData ms t := by
  unfold buildPlotDataOpt buildPlotData
  rw [List.map_map]
  apply List.map_congr_left
  intro c _
  simp only [Function.comp, nonEmpty_keep, fieldSummaries_eq_map, lookupLast_map]

theorem mem_fieldSummariesAll {ms : List Metric} {t : List Cell} {e : Cell × List Entry}
    (he : e ∈ fieldSummariesAll ms t) : e.2.map (·.1) = ms.map (toSnake ·.name) := by
  unfold fieldSummariesAll at he
  obtain ⟨kr, _, he⟩ := List.mem_flatMap.mp he
  obtain ⟨tr, _, rfl⟩ := List.mem_map.mp he
  simp [cellSummariesAll, Function.comp_def]

/-- every cell of a valid triangle has its slot list: one entry per metric of the table, in table order -/
theorem own_entries_names {t : List Cell} (hv : ValidT t) (ms : List Metric) {c : Cell} (hc : c ∈ t) :
    (lookupLastAll c (fieldSummariesAll ms t)).map (·.1) = ms.map (toSnake ·.name) := by
  obtain ⟨kr, hkr, _, hcrow⟩ := row_cover hc
  have hfst : c ∈ (rowTriples kr.2).map (·.1) := by rw [rowTriples_eq, triplesAux_fst]; exact hcrow
  obtain ⟨tr, htr, htr1⟩ := List.mem_map.mp hfst
  have hmem : (tr.1, cellSummariesAll ms tr.1 tr.2.1 tr.2.2) ∈
      (fieldSummariesAll ms t).filter (fun e => cellEq e.1 c) := by
    apply List.mem_filter.mpr
    constructor
    · unfold fieldSummariesAll
      exact List.mem_flatMap.mpr ⟨kr, hkr, List.mem_map.mpr ⟨tr, htr, rfl⟩⟩
    · simp only [htr1]; exact cellEq_refl (hv.2 c hc)
  unfold lookupLastAll
  cases hl : ((fieldSummariesAll ms t).filter fun e => cellEq e.1 c).getLast? with
  | none =>
    rw [List.getLast?_eq_none_iff] at hl
    rw [hl] at hmem; cases hmem
  | some e =>
    have he := List.mem_of_getLast? hl
    exact mem_fieldSummariesAll (List.mem_filter.mp he).1

theorem sameSet_self (a : List String) : sameSet a a = true := by
  simp [sameSet]

theorem entriesOk_model {t : List Cell} (hv : ValidT t) (b : Bool) :
    (buildPlotDataOpt b gms t).all (entriesOk b) = true := by
  unfold buildPlotDataOpt
  rw [List.all_map, List.all_eq_true]
  intro c hc
  simp only [Function.comp, entriesOk, mkRecord, beq_self_eq_true, Bool.true_and]
  cases b
  · have hn := own_entries_names hv gms hc
    have hnames : gms.map (toSnake ·.name) = table.map (·.1) := by decide +kernel
    simp only [keepEntries, Bool.false_eq_true, if_false, Bool.and_eq_true]
    rw [hn, hnames]
    refine ⟨sameSet_self _, ?_⟩
    have hl := congrArg List.length hn
    rw [List.length_map, hnames, List.length_map] at hl
    simp [hl]
  · simp only [keepEntries, if_true, List.all_filter, List.all_eq_true]
    intro e _
    cases e.2 <;> simp

theorem tooltipOk_model (b : Bool) (ms : List Metric) (t : List Cell) :
    (buildPlotDataOpt b ms t).all tooltipOk = true := by
  unfold buildPlotDataOpt
  rw [List.all_map, List.all_eq_true]
  intro c _
  simp only [Function.comp, tooltipOk, tooltipNames, mkRecord, beq_self_eq_true]

end Bermuda.Plot
