/-
Helper lemmas for the independent characterisations of the summary statistics (C20): `Rat.floor` between two
integers, `sum` as a recursion, the sum of squared deviations. Single Mathlib tactic modules only.
-/
import Bermuda.Lemmas.PlotSpec
import Mathlib.Tactic.Ring
import Mathlib.Tactic.FieldSimp
namespace Bermuda.Plot
open Bermuda

theorem floor_eq {h : Rat} {k : Int} (h1 : (k : Rat) ≤ h) (h2 : h < (k : Rat) + 1) : h.floor = k := by
  have a : k ≤ h.floor := Rat.le_floor_iff.mpr h1
  have b : h.floor < k + 1 := by
    have := Rat.floor_le h
    have hlt : (h.floor : Rat) < ((k + 1 : Int) : Rat) := by push_cast; linarith
    exact_mod_cast hlt
  omega

theorem sum_cons (x : Rat) (xs : List Rat) : sum (x :: xs) = x + sum xs := by
  unfold sum
  have h : ∀ (l : List Rat) (a : Rat), l.foldl (· + ·) a = a + l.foldl (· + ·) 0 := by
    intro l
    induction l with
    | nil => intro a; simp
    | cons y l ih => intro a; simp only [List.foldl_cons]; rw [ih (a + y), ih (0 + y)]; ring
  simp only [List.foldl_cons]
  rw [h xs (0 + x)]; ring

theorem sum_nil : sum [] = 0 := rfl

theorem sum_map_sq_sub (m : Rat) (xs : List Rat) :
    sum (xs.map fun x => (x - m) * (x - m)) =
      sum (xs.map fun x => x * x) - 2 * m * sum xs + (xs.length : Rat) * m * m := by
  induction xs with
  | nil => simp [sum_nil]
  | cons x xs ih =>
    simp only [List.map_cons, sum_cons, ih, List.length_cons]
    push_cast
    ring

/-! ### a triangle outside `ValidT` (staged evaluation: the kernel does not unfold `mergeSort` on two elements) -/

/-- two cells of ONE slice and period with the SAME evaluation date and different values -/
def dupA : Cell := { ps := ⟨2020, 1, 1⟩, pe := ⟨2020, 12, 31⟩, ev := ⟨2020, 12, 31⟩, values := [("paid_loss", .int 2)] }
def dupB : Cell := { ps := ⟨2020, 1, 1⟩, pe := ⟨2020, 12, 31⟩, ev := ⟨2020, 12, 31⟩, values := [("paid_loss", .int 4)] }

theorem rows_two : slicePeriodRows [dupA, dupB] = [(rowKey dupA, [dupA, dupB])] := by
  unfold slicePeriodRows
  have hg : groupBy rowKey [dupA, dupB] = [(rowKey dupA, [dupA, dupB])] := by decide +kernel
  simp only [hg, List.mergeSort_singleton, List.map_cons, List.map_nil]
  rw [List.mergeSort_of_pairwise (by decide +kernel)]

theorem build_two : buildPlotData Generated.PlotMetrics.metrics [dupA, dupB] =
    [dupA, dupB].map fun c => mkRecord c (lookupLast c
      (([(rowKey dupA, [dupA, dupB])] : List (RowKey × List Cell)).flatMap fun kr =>
        (rowTriples kr.2).map fun (c, p, n) => (c, cellSummaries Generated.PlotMetrics.metrics c p n))) := by
  unfold buildPlotData fieldSummaries
  rw [rows_two]

/-! ### `flat`: the key map is injective on the table, re-nesting by lookup -/

def flatInjectiveL (M K : List (List Char)) : Bool :=
  M.all fun m => K.all fun k => M.all fun m' => K.all fun k' =>
    flatKeyL m k != flatKeyL m' k' || (m == m' && k == k')

/-- no two (metric, statistic) pairs of the table share a flat key — although `paid_loss` is a prefix of
`paid_loss_ratio` -/
theorem flat_keys_injective :
    flatInjectiveL ((Spec.C20.table.map (·.1)).map String.toList)
      (Spec.C20.requiredStats.map String.toList) = true := by decide +kernel

def InjOn (M K : List String) : Prop :=
  ∀ m ∈ M, ∀ k ∈ K, ∀ m' ∈ M, ∀ k' ∈ K, flatKey m k = flatKey m' k' → m = m' ∧ k = k'

theorem injOn_of_flatInjectiveL {M K : List String}
    (h : flatInjectiveL (M.map String.toList) (K.map String.toList) = true) : InjOn M K := by
  intro m hm k hk m' hm' k' hk' he
  unfold flatInjectiveL at h
  simp only [List.all_eq_true] at h
  have := h _ (List.mem_map_of_mem hm) _ (List.mem_map_of_mem hk) _ (List.mem_map_of_mem hm') _ (List.mem_map_of_mem hk')
  have hl : flatKeyL m.toList k.toList = flatKeyL m'.toList k'.toList := String.ofList_inj.mp he
  simp only [hl, bne_self_eq_false, Bool.false_or, Bool.and_eq_true, beq_iff_eq] at this
  exact ⟨String.toList_inj.mp this.1, String.toList_inj.mp this.2⟩

theorem lookup_stats_map {M K : List String} (h : InjOn M K) {m : String} (hm : m ∈ M)
    {k : String} (hk : k ∈ K) (st : List (String × SVal)) (hst : ∀ kv ∈ st, kv.1 ∈ K) :
    (st.map fun kv => (flatKey m kv.1, kv.2)).lookup (flatKey m k) = st.lookup k := by
  induction st with
  | nil => rfl
  | cons kv st ih =>
    obtain ⟨k0, v0⟩ := kv
    have hkv : k0 ∈ K := hst (k0, v0) (by simp)
    have ih' := ih (fun x hx => hst x (by simp [hx]))
    simp only [List.map_cons, List.lookup_cons]
    by_cases hkk : k = k0
    · subst hkk; simp
    · have hne : flatKey m k ≠ flatKey m k0 := fun he => hkk (h m hm k hk m hm k0 hkv he).2
      have h1 : (flatKey m k == flatKey m k0) = false := by simpa using hne
      have h2 : (k == k0) = false := by simpa using hkk
      simp only [h1, h2]; exact ih'

theorem lookup_stats_other {M K : List String} (h : InjOn M K) {m m' : String} (hm : m ∈ M)
    (hm' : m' ∈ M) (hne : m ≠ m') {k : String} (hk : k ∈ K) (st : List (String × SVal))
    (hst : ∀ kv ∈ st, kv.1 ∈ K) :
    (st.map fun kv => (flatKey m' kv.1, kv.2)).lookup (flatKey m k) = none := by
  induction st with
  | nil => rfl
  | cons kv st ih =>
    obtain ⟨k0, v0⟩ := kv
    have hkv : k0 ∈ K := hst (k0, v0) (by simp)
    simp only [List.map_cons, List.lookup_cons]
    have h1 : (flatKey m k == flatKey m' k0) = false := by
      have : flatKey m k ≠ flatKey m' k0 := fun he => hne (h m hm k hk m' hm' k0 hkv he).1
      simpa using this
    simp only [h1]; exact ih (fun x hx => hst x (by simp [hx]))

theorem lookup_flatten_absent {M K : List String} (h : InjOn M K) {m k : String} (hm : m ∈ M) (hk : k ∈ K)
    (ne : List (String × Summary)) (hM : ∀ e ∈ ne, e.1 ∈ M) (hK : ∀ e ∈ ne, ∀ kv ∈ e.2.stats, kv.1 ∈ K)
    (hab : m ∉ ne.map (·.1)) : (flattenSummaries ne).lookup (flatKey m k) = none := by
  induction ne with
  | nil => rfl
  | cons e ne ih =>
    have hme : m ≠ e.1 := fun he => hab (by simp [he])
    have ih' := ih (fun x hx => hM x (by simp [hx])) (fun x hx => hK x (by simp [hx]))
      (fun hx => hab (by simp only [List.map_cons, List.mem_cons]; exact Or.inr hx))
    unfold flattenSummaries at ih' ⊢
    rw [List.flatMap_cons, List.lookup_append,
      lookup_stats_other h hm (hM e (by simp)) hme hk _ (hK e (by simp))]
    simpa using ih'

/-- **re-nesting recovers the nested record**: looking the flat key `<metric>_<stat>` up in the flattened record gives
exactly the nested record's entry `record[metric][stat]` (absent there ⇔ absent here) -/
theorem flat_unflat_lookup {M K : List String} (h : InjOn M K)
    (ne : List (String × Summary)) (hM : ∀ e ∈ ne, e.1 ∈ M) (hK : ∀ e ∈ ne, ∀ kv ∈ e.2.stats, kv.1 ∈ K)
    (hnd : (ne.map (·.1)).Nodup) {m k : String} (hm : m ∈ M) (hk : k ∈ K) :
    (flattenSummaries ne).lookup (flatKey m k) = (ne.lookup m).bind fun s => s.stats.lookup k := by
  induction ne with
  | nil => rfl
  | cons e ne ih =>
    rw [List.map_cons, List.nodup_cons] at hnd
    have hM' : ∀ x ∈ ne, x.1 ∈ M := fun x hx => hM x (by simp [hx])
    have hK' : ∀ x ∈ ne, ∀ kv ∈ x.2.stats, kv.1 ∈ K := fun x hx => hK x (by simp [hx])
    have ih' := ih hM' hK' hnd.2
    have he : e.1 ∈ M := hM e (by simp)
    have hes := hK e (by simp)
    have hunf : flattenSummaries (e :: ne) =
        (e.2.stats.map fun kv => (flatKey e.1 kv.1, kv.2)) ++ flattenSummaries ne := by
      unfold flattenSummaries; rw [List.flatMap_cons]
    rw [hunf, List.lookup_append, List.lookup_cons]
    by_cases hme : m = e.1
    · subst hme
      rw [lookup_stats_map h hm hk _ hes, lookup_flatten_absent h hm hk ne hM' hK' hnd.1]
      simp
    · have : (m == e.1) = false := by simpa using hme
      rw [this, lookup_stats_other h hm he hme hk _ hes]
      simpa using ih'

theorem cellSummaries_names_sublist (ms : List Metric) (c : Cell) (p n : Option Cell) :
    ((cellSummaries ms c p n).map (·.1)).Sublist (ms.map (toSnake ·.name)) := by
  unfold cellSummaries
  induction ms with
  | nil => simp
  | cons m ms ih =>
    simp only [List.filterMap_cons, List.map_cons]
    cases safeApplyMetric m c p n with
    | none => exact ih.cons _
    | some mv => exact ih.cons_cons (toSnake m.name)

theorem fieldSummary_keys (mv : MV) : ∀ kv ∈ (fieldSummary mv).stats, kv.1 ∈ Spec.C20.requiredStats := by
  have hm : "mean" ∈ Spec.C20.requiredStats := by decide
  intro kv hkv
  unfold fieldSummary at hkv
  split at hkv
  · simp at hkv; subst hkv; exact hm
  · simp at hkv; subst hkv; exact hm
  · rw [stats_eq] at hkv
    simp only [List.mem_cons, List.mem_nil_iff, or_false] at hkv
    rcases hkv with h | h | h | h | h | h | h | h | h | h | h | h | h | h <;> subst h <;> simp [Spec.C20.requiredStats]

theorem mem_cellSummaries {ms : List Metric} {c : Cell} {p n : Option Cell} {e : String × Summary}
    (he : e ∈ cellSummaries ms c p n) : ∃ mv, e.2 = fieldSummary mv := by
  unfold cellSummaries at he
  obtain ⟨m, _, hm⟩ := List.mem_filterMap.mp he
  cases hs : safeApplyMetric m c p n with
  | none => rw [hs] at hm; simp at hm
  | some mv => rw [hs] at hm; simp at hm; exact ⟨mv, by rw [← hm]⟩

/-! ### `keep_samples`: the `metric` entries against the Spec table -/

section
open Bermuda.Spec.C20

theorem metricEntries_table (keep : Bool) (c : Cell) (p n : Option Cell) :
    metricEntries keep Generated.PlotMetrics.metrics c p n =
      table.filterMap fun e => (expectedWith c n e.2).map fun mv => (e.1, metricEntry keep mv) := by
  have h : metricEntries keep Generated.PlotMetrics.metrics c p n =
      (Generated.PlotMetrics.metrics.map (fun m => (toSnake m.name, m.arity, m.body))).filterMap
        (fun x => (safeApplyMetric ⟨"", x.2.1, x.2.2⟩ c p n).map fun mv => (x.1, metricEntry keep mv)) := by
    unfold metricEntries
    rw [List.filterMap_map]
    rfl
  rw [h, table_matches, List.filterMap_map]
  congr 1
  funext e
  simp only [Function.comp, eval_bodyOf]

theorem lookup_metricEntries (keep : Bool) (c : Cell) (p n : Option Cell) {e : String × Kind} (he : e ∈ table) :
    (metricEntries keep Generated.PlotMetrics.metrics c p n).lookup e.1 =
      (expectedWith c n e.2).map (metricEntry keep) := by
  rw [metricEntries_table]
  exact lookup_filterMap_names table (fun e => expectedWith c n e.2) (metricEntry keep) table_names_nodup he

theorem all2_self {α} (f : α → α → Bool) (hf : ∀ a, f a a = true) : ∀ l : List α, all2 f l l = true
  | [] => rfl
  | a :: l => by simp [all2, hf a, all2_self f hf l]

theorem entryApprox_self (e : MetricEntry) : entryApprox 0 e e = true := by
  cases e with
  | mean q => exact approx_self q
  | samples d =>
    simp only [entryApprox, beq_self_eq_true, Bool.true_and]
    exact all2_self _ (fun x => approx_self x.2) d

end

end Bermuda.Plot
