/-
Helper lemmas for C17 (resampling): the rank re-imposition, canonical triangles rebuilt from cells
with unchanged coordinates, the development loop, the moment-matching loop.
-/
import Bermuda.Model.Resample
import Bermuda.Lemmas.Blend
import Mathlib.Tactic.Linarith
import Mathlib.Data.List.Nodup
import Mathlib.Data.List.Perm.Subperm
namespace Bermuda.Resample
open Bermuda.Blend (cmp_of_coord pairwise_le_of_coords forall₂_imp')

/-! ### rank order -/


theorem keyLt_irrefl (xs : List Rat) (i : Nat) : keyLt xs i i = false := by
  simp [keyLt]

theorem keyLt_of_lt {xs : List Rat} {k i j : Nat} (h : xs.getD i 0 < xs.getD j 0)
    (hk : keyLt xs k i = true) : keyLt xs k j = true := by
  simp only [keyLt, Bool.or_eq_true, decide_eq_true_eq, Bool.and_eq_true, beq_iff_eq] at hk ⊢
  rcases hk with hk | ⟨hk, _⟩
  · left; linarith
  · left; rw [hk]; exact h

theorem rank_le_of_lt {xs : List Rat} {i j : Nat} (h : xs.getD i 0 < xs.getD j 0) :
    rank xs i ≤ rank xs j := by
  unfold rank
  exact List.countP_mono_left (fun k _ hk => keyLt_of_lt h hk)

theorem rank_lt_length {xs : List Rat} {i : Nat} (hi : i < xs.length) : rank xs i < xs.length := by
  unfold rank
  have hle := List.countP_le_length (p := (keyLt xs · i)) (l := List.range xs.length)
  have hne : List.countP (keyLt xs · i) (List.range xs.length) ≠ (List.range xs.length).length := by
    intro heq
    have := (List.countP_eq_length.mp heq) i (by simpa using hi)
    simp [keyLt_irrefl] at this
  simp only [List.length_range] at hle hne
  omega

theorem sortQ_length (qs : List Rat) : (sortQ qs).length = qs.length := by
  simp [sortQ]

theorem sortQ_sorted (qs : List Rat) : (sortQ qs).Pairwise (fun a b => a ≤ b) := by
  have := List.pairwise_mergeSort (le := fun a b : Rat => decide (a ≤ b))
    (fun a b c hab hbc => by simp only [decide_eq_true_eq] at *; exact Rat.le_trans hab hbc)
    (fun a b => by simp only [Bool.or_eq_true, decide_eq_true_eq]; exact Rat.le_total) qs
  simpa [sortQ] using this

theorem sortQ_perm (qs : List Rat) : (sortQ qs).Perm qs := List.mergeSort_perm _ _

theorem sortQ_mono (qs : List Rat) {a b : Nat} (hab : a ≤ b) (hb : b < (sortQ qs).length) :
    (sortQ qs).getD a 0 ≤ (sortQ qs).getD b 0 := by
  have ha : a < (sortQ qs).length := by omega
  rw [List.getD_eq_getElem?_getD, List.getD_eq_getElem?_getD, List.getElem?_eq_getElem ha,
    List.getElem?_eq_getElem hb]
  simp only [Option.getD_some]
  rcases Nat.lt_or_eq_of_le hab with hlt | rfl
  · exact List.pairwise_iff_getElem.mp (sortQ_sorted qs) a b ha hb hlt
  · exact Rat.le_refl

theorem reimposeRank_length (xs qs : List Rat) : (reimposeRank xs qs).length = xs.length := by
  simp [reimposeRank]

theorem reimposeRank_getD {xs qs : List Rat} {i : Nat} (hi : i < xs.length) :
    (reimposeRank xs qs).getD i 0 = (sortQ qs).getD (rank xs i) 0 := by
  simp [reimposeRank, List.getD_eq_getElem?_getD, hi]

theorem reimposeRank_order' {xs qs : List Rat} (hl : qs.length = xs.length) {i j : Nat}
    (hi : i < xs.length) (hj : j < xs.length) (h : xs.getD i 0 < xs.getD j 0) :
    (reimposeRank xs qs).getD i 0 ≤ (reimposeRank xs qs).getD j 0 := by
  rw [reimposeRank_getD hi, reimposeRank_getD hj]
  exact sortQ_mono qs (rank_le_of_lt h) (by rw [sortQ_length, hl]; exact rank_lt_length hj)

/-! ### the ranks are a permutation -/


theorem keyLt_trans {xs : List Rat} {k i j : Nat} (h1 : keyLt xs k i = true) (h2 : keyLt xs i j = true) :
    keyLt xs k j = true := by
  simp only [keyLt, Bool.or_eq_true, decide_eq_true_eq, Bool.and_eq_true, beq_iff_eq] at *
  rcases h1 with h1 | ⟨h1, h1'⟩ <;> rcases h2 with h2 | ⟨h2, h2'⟩
  · left; linarith
  · left; rw [← h2]; exact h1
  · left; rw [h1]; exact h2
  · right; exact ⟨h1.trans h2, by omega⟩

theorem keyLt_total {xs : List Rat} {i j : Nat} (h : i ≠ j) : keyLt xs i j = true ∨ keyLt xs j i = true := by
  simp only [keyLt, Bool.or_eq_true, decide_eq_true_eq, Bool.and_eq_true, beq_iff_eq]
  rcases lt_trichotomy (xs.getD i 0) (xs.getD j 0) with hlt | heq | hgt
  · exact Or.inl (Or.inl hlt)
  · rcases Nat.lt_or_gt_of_ne h with h' | h'
    · exact Or.inl (Or.inr ⟨heq, h'⟩)
    · exact Or.inr (Or.inr ⟨heq.symm, h'⟩)
  · exact Or.inr (Or.inl hgt)

theorem countP_lt_countP {α} {p q : α → Bool} {l : List α} (hpq : ∀ x ∈ l, p x = true → q x = true)
    (hex : ∃ x ∈ l, p x = false ∧ q x = true) : l.countP p < l.countP q := by
  induction l with
  | nil => simp at hex
  | cons a l ih =>
    obtain ⟨x, hx, hpx, hqx⟩ := hex
    have hmono : l.countP p ≤ l.countP q := List.countP_mono_left (fun y hy => hpq y (by simp [hy]))
    rcases List.mem_cons.mp hx with rfl | hx
    · simp [hpx, hqx]; omega
    · have := ih (fun y hy => hpq y (by simp [hy])) ⟨x, hx, hpx, hqx⟩
      rw [List.countP_cons, List.countP_cons]
      by_cases hpa : p a = true
      · simp [hpa, hpq a (by simp) hpa]; omega
      · simp [hpa]; split <;> omega

theorem rank_lt_of_keyLt {xs : List Rat} {i j : Nat} (hi : i < xs.length) (h : keyLt xs i j = true) :
    rank xs i < rank xs j := by
  unfold rank
  apply countP_lt_countP
  · intro k _ hk; exact keyLt_trans hk h
  · exact ⟨i, by simpa using hi, by simp [keyLt], h⟩

theorem rank_injOn {xs : List Rat} {i j : Nat} (hi : i < xs.length) (hj : j < xs.length)
    (h : rank xs i = rank xs j) : i = j := by
  by_contra hne
  rcases keyLt_total (xs := xs) hne with hlt | hlt
  · have := rank_lt_of_keyLt hi hlt; omega
  · have := rank_lt_of_keyLt hj hlt; omega


theorem ranks_perm (xs : List Rat) : ((List.range xs.length).map (rank xs)).Perm (List.range xs.length) := by
  have hnd : ((List.range xs.length).map (rank xs)).Nodup :=
    List.Nodup.map_on (fun x hx y hy h => rank_injOn (by simpa using hx) (by simpa using hy) h)
      List.nodup_range
  have hsub : (List.range xs.length).map (rank xs) ⊆ List.range xs.length := by
    intro r hr
    obtain ⟨i, hi, rfl⟩ := List.mem_map.mp hr
    simpa using rank_lt_length (by simpa using hi)
  exact (List.subperm_of_subset hnd hsub).perm_of_length_le (by simp)

theorem reimposeRank_perm' {xs qs : List Rat} (hl : qs.length = xs.length) :
    (reimposeRank xs qs).Perm qs := by
  have h1 : reimposeRank xs qs = ((List.range xs.length).map (rank xs)).map ((sortQ qs).getD · 0) := by
    simp [reimposeRank, List.map_map, Function.comp_def]
  have h2 : (List.range xs.length).map ((sortQ qs).getD · 0) = sortQ qs := by
    apply List.ext_getElem
    · simp [sortQ, hl]
    · intro i h1 h2
      simp [List.getD_eq_getElem?_getD, List.getElem?_eq_getElem h2]
  rw [h1]
  refine ((ranks_perm xs).map _).trans ?_
  rw [h2]
  exact List.mergeSort_perm qs _

/-! ### thin -/


/-! thin -/
theorem thin_eq_self {t : List Cell} {n : Nat} (idx : List Nat) (h : numSamples t = .ok n) :
    thin t n idx = .ok .same := by
  simp [thin, h]

theorem thin_error {t : List Cell} {n k : Nat} (idx : List Nat) (h : numSamples t = .ok n) (hk : n < k) :
    thin t k idx = .error .valueError := by
  simp [thin, h, hk]

theorem thinCell_coord (idx : List Nat) (c : Cell) : (thinCell idx c).coord = c.coord := rfl

theorem ofCells_of_sorted {l : List Cell} (hk : kindsConsistent l = true)
    (hs : l.Pairwise (fun a b => Cell.le a b)) : Triangle.ofCells l = .ok l := by
  unfold Triangle.ofCells
  rw [hk]; simp only [if_true]
  rw [List.mergeSort_of_pairwise hs]

theorem forall₂_map_self {α β} (f : α → β) (R : α → β → Prop) (h : ∀ a, R a (f a)) :
    ∀ l : List α, List.Forall₂ R l (l.map f)
  | [] => .nil
  | a :: l => .cons (h a) (forall₂_map_self f R h l)

theorem kindsConsistent_map {l : List Cell} (f : Cell → Cell) (hf : ∀ c, (f c).kind = c.kind) :
    kindsConsistent (l.map f) = kindsConsistent l := by
  unfold kindsConsistent
  simp [List.all_map, Function.comp_def, hf]

theorem thin_fresh {t out : List Cell} {k : Nat} {idx : List Nat}
    (h : thin t k idx = .ok (.fresh out)) (hk : kindsConsistent t = true)
    (hs : t.Pairwise (fun a b => Cell.le a b)) : out = t.map (thinCell idx) := by
  unfold thin at h
  split at h
  · cases h
  · split at h
    · cases h
    · split at h
      · cases h
      · have hs' : (t.map (thinCell idx)).Pairwise (fun a b => Cell.le a b) :=
          pairwise_le_of_coords (forall₂_map_self (thinCell idx) (fun c o => o.coord = c.coord)
            (fun c => thinCell_coord idx c) t) hs
        rw [ofCells_of_sorted (by rw [kindsConsistent_map (thinCell idx) (fun c => rfl)]; exact hk) hs'] at h
        cases h; rfl

/-! ### develop, moment_match -/



theorem kindsConsistent_of_forall₂ {l l' : List Cell}
    (h : List.Forall₂ (fun c o => o.kind = c.kind) l l') : kindsConsistent l' = kindsConsistent l := by
  have hall : ∀ k, l'.all (·.kind == k) = l.all (·.kind == k) := by
    intro k
    induction h with
    | nil => rfl
    | cons hh _ ih => simp [List.all_cons, hh, ih]
  unfold kindsConsistent
  rw [hall, hall, hall]

/-- a list with the coordinates and classes of a canonical triangle is itself one -/
theorem ofCells_same_coords {t l : List Cell}
    (h : List.Forall₂ (fun c o => o.coord = c.coord ∧ o.kind = c.kind) t l)
    (hk : kindsConsistent t = true) (hs : t.Pairwise (fun a b => Cell.le a b)) :
    Triangle.ofCells l = .ok l :=
  ofCells_of_sorted
    (by rw [kindsConsistent_of_forall₂ (forall₂_imp' (fun _ _ h => h.2) h)]; exact hk)
    (pairwise_le_of_coords (forall₂_imp' (fun _ _ h => h.1) h) hs)

/-! develop -/
def DevRel (t : List Cell) (c o : Cell) : Prop :=
  o.coord = c.coord ∧ o.kind = c.kind ∧
  (initialLag t (c.ps, c.pe) = some c.devLag → o = c) ∧ ∃ its, o.values = Dict.union c.values its

theorem developLoop_rel {t : List Cell} {F : Factors} :
    ∀ {cs : List Cell} {vals : Dict Val} {out : List Cell}, developLoop t F vals cs = .ok out →
      List.Forall₂ (DevRel t) cs out := by
  intro cs
  induction cs with
  | nil => intro vals out h; simp [developLoop] at h; subst h; exact .nil
  | cons c cs ih =>
    intro vals out h
    simp only [developLoop] at h
    split at h
    · split at h
      · cases h
      · rename_i r hr
        cases h
        exact .cons ⟨rfl, rfl, fun _ => rfl, [], rfl⟩ (ih hr)
    · rename_i hinit
      split at h
      · cases h
      · rename_i its _
        split at h
        · cases h
        · rename_i r hr
          cases h
          refine .cons ⟨rfl, rfl, fun h' => ?_, its, rfl⟩ (ih hr)
          exact absurd (by simp [h']) hinit

theorem developByAtas_rel {t out : List Cell} {F : Factors} (h : developByAtas t F = .ok out)
    (hk : kindsConsistent t = true) (hs : t.Pairwise (fun a b => Cell.le a b)) :
    List.Forall₂ (DevRel t) t out := by
  unfold developByAtas at h
  split at h
  · cases h
  · rename_i cells hcells
    have hrel := developLoop_rel hcells
    rw [ofCells_same_coords (forall₂_imp' (fun _ _ h => ⟨h.1, h.2.1⟩) hrel) hk hs] at h
    cases h
    exact hrel

/-! moment -/
def MomRel (f : String) (c o : Cell) : Prop :=
  o.coord = c.coord ∧ o.kind = c.kind ∧
  ∃ v drawn, c.values.get? f = some v ∧ o.values = c.values.set f (generateSamples v drawn)

theorem momentField_rel {f : String} {draws : Nat → List Rat} :
    ∀ {cs : List Cell} {i : Nat} {out : List Cell}, momentField f draws i cs = .ok out →
      List.Forall₂ (MomRel f) cs out := by
  intro cs
  induction cs with
  | nil => intro i out h; simp [momentField] at h; subst h; exact .nil
  | cons c cs ih =>
    intro i out h
    simp only [momentField] at h
    split at h
    · cases h
    · rename_i v hv
      split at h
      · cases h
      · rename_i r hr
        cases h
        exact .cons ⟨rfl, rfl, v, draws i, hv, rfl⟩ (ih hr)

theorem forall₂_trans' {α} {R S T : α → α → Prop} (h : ∀ a b c, R a b → S b c → T a c) :
    ∀ {l1 l2 l3 : List α}, List.Forall₂ R l1 l2 → List.Forall₂ S l2 l3 → List.Forall₂ T l1 l3
  | _, _, _, .nil, .nil => .nil
  | _, _, _, .cons h1 t1, .cons h2 t2 => .cons (h _ _ _ h1 h2) (forall₂_trans' h t1 t2)

theorem forall₂_refl' {α} {R : α → α → Prop} (h : ∀ a, R a a) : ∀ l : List α, List.Forall₂ R l l
  | [] => .nil
  | a :: l => .cons (h a) (forall₂_refl' h l)

theorem momentLoop_rel {draws : Nat → String → List Rat} :
    ∀ {fs : List String} {t out : List Cell}, momentLoop draws fs t = .ok out →
      kindsConsistent t = true → t.Pairwise (fun a b => Cell.le a b) →
      List.Forall₂ (fun c o => o.coord = c.coord ∧ o.kind = c.kind) t out := by
  intro fs
  induction fs with
  | nil => intro t out h _ _; simp [momentLoop] at h; subst h; exact forall₂_refl' (fun _ => ⟨rfl, rfl⟩) t
  | cons f fs ih =>
    intro t out h hk hs
    simp only [momentLoop] at h
    split at h
    · cases h
    · rename_i cells hcells
      have hrel := forall₂_imp' (fun _ _ h => (⟨h.1, h.2.1⟩ : _ ∧ _)) (momentField_rel hcells)
      rw [ofCells_same_coords hrel hk hs] at h
      simp only at h
      have hk' : kindsConsistent cells = true := by
        rw [kindsConsistent_of_forall₂ (forall₂_imp' (fun _ _ h => h.2) hrel)]; exact hk
      have hs' := pairwise_le_of_coords (forall₂_imp' (fun _ _ h => h.1) hrel) hs
      exact forall₂_trans' (fun a b c h1 h2 => ⟨h2.1.trans h1.1, h2.2.trans h1.2⟩) hrel (ih h hk' hs')

/-! ### counting replicates -/

theorem mapMExcept_length {α β} {f : α → Except Err β} {l : List α} {r : List β}
    (h : mapMExcept f l = .ok r) : r.length = l.length := by
  induction l generalizing r with
  | nil => simp [mapMExcept] at h; subst h; rfl
  | cons a as ih =>
    simp only [mapMExcept] at h
    split at h
    · cases h
    · split at h
      · cases h
      · rename_i bs hbs
        cases h
        simp [ih hbs]

/-! Python dict update on association lists (copied from Lemmas/Join.lean under local names) -/

theorem dget_cons {α} (p : String × α) (d : Dict α) (k : String) :
    Dict.get? (p :: d) k = if p.1 == k then some p.2 else Dict.get? d k := by
  unfold Dict.get?
  rw [List.find?_cons]
  split <;> simp_all

theorem dget_eq_none_iff {α} {d : Dict α} {k : String} : d.get? k = none ↔ k ∉ d.keys := by
  induction d with
  | nil => simp [Dict.get?, Dict.keys]
  | cons p d ih =>
    rw [dget_cons]
    simp only [Dict.keys, List.map_cons, List.mem_cons, not_or] at ih ⊢
    by_cases h : p.1 = k
    · simp [h]
    · have : (p.1 == k) = false := by simpa using h
      rw [this]; simp only [Bool.false_eq_true, if_false]
      rw [ih]; exact ⟨fun h' => ⟨fun e => h e.symm, h'⟩, fun h' => h'.2⟩

theorem dcontains_eq {α} (d : Dict α) (k : String) : d.contains k = d.keys.contains k := by
  unfold Dict.contains Dict.keys
  induction d with
  | nil => rfl
  | cons p d ih => simp only [List.any_cons, List.map_cons, List.contains_cons, ih]; rw [Bool.beq_comm]

theorem dget_map_replace {α} (d : Dict α) (k k' : String) (v : α) :
    Dict.get? (d.map (fun p => if p.1 == k then (k, v) else p)) k' =
      if k == k' then (d.get? k).map (fun _ => v) else d.get? k' := by
  induction d with
  | nil => simp [Dict.get?]
  | cons p d ih =>
    rw [List.map_cons, dget_cons, ih, dget_cons, dget_cons]
    by_cases h1 : p.1 = k <;> by_cases h2 : k = k' <;> by_cases h3 : p.1 = k' <;> simp_all

/-- `d[k] = v` on a dict that HAS the key: every other key reads as before, `k` reads `v` -/
theorem dget_set_of_mem {α} {d : Dict α} {k : String} {x : α} (hk : d.get? k = some x) (k' : String) (v : α) :
    (d.set k v).get? k' = if k == k' then some v else d.get? k' := by
  have hc : d.contains k = true := by
    rw [dcontains_eq]
    exact List.contains_iff_mem.mpr (by
      by_contra h; rw [dget_eq_none_iff.mpr h] at hk; cases hk)
  unfold Dict.set
  rw [if_pos hc, dget_map_replace, hk]
  rfl

/-- … and the keys (with their order) stay -/
theorem dkeys_set_of_mem {α} {d : Dict α} {k : String} {x : α} (hk : d.get? k = some x) (v : α) :
    (d.set k v).keys = d.keys := by
  have hc : d.contains k = true := by
    rw [dcontains_eq]
    exact List.contains_iff_mem.mpr (by
      by_contra h; rw [dget_eq_none_iff.mpr h] at hk; cases hk)
  unfold Dict.set
  rw [if_pos hc]
  unfold Dict.keys
  rw [List.map_map]
  apply List.map_congr_left
  intro p _
  simp only [Function.comp]
  split <;> simp_all

/-- what `moment_match` may do to a cell, for a list of selected fields -/
def MomFields (fs : List String) (c o : Cell) : Prop :=
  o.coord = c.coord ∧ o.kind = c.kind ∧ o.values.keys = c.values.keys ∧
  (∀ f, f ∉ fs → o.values.get? f = c.values.get? f) ∧
  (∀ f ∈ fs, ∃ v, c.values.get? f = some v)

theorem MomRel.toFields {f : String} {c o : Cell} (h : MomRel f c o) : MomFields [f] c o := by
  obtain ⟨h1, h2, v, drawn, hv, ho⟩ := h
  refine ⟨h1, h2, ?_, ?_, ?_⟩
  · rw [ho]; exact dkeys_set_of_mem hv _
  · intro f' hf'
    rw [ho, dget_set_of_mem hv]
    have : (f == f') = false := by
      simp only [List.mem_singleton] at hf'
      simpa using fun e => hf' e.symm
    rw [this]; rfl
  · intro f' hf'
    simp only [List.mem_singleton] at hf'
    subst hf'
    exact ⟨v, hv⟩

theorem momentLoop_fields {draws : Nat → String → List Rat} :
    ∀ {fs : List String} {t out : List Cell}, momentLoop draws fs t = .ok out →
      kindsConsistent t = true → t.Pairwise (fun a b => Cell.le a b) →
      List.Forall₂ (fun c o => o.coord = c.coord ∧ o.kind = c.kind ∧ o.values.keys = c.values.keys ∧
        (∀ f, f ∉ fs → o.values.get? f = c.values.get? f)) t out := by
  intro fs
  induction fs with
  | nil =>
    intro t out h _ _; simp [momentLoop] at h; subst h
    exact forall₂_refl' (fun _ => ⟨rfl, rfl, rfl, fun _ _ => rfl⟩) t
  | cons f fs ih =>
    intro t out h hk hs
    simp only [momentLoop] at h
    split at h
    · cases h
    · rename_i cells hcells
      have hrel0 := momentField_rel hcells
      have hrel := forall₂_imp' (fun _ _ h => (⟨h.1, h.2.1⟩ : _ ∧ _)) hrel0
      rw [ofCells_same_coords hrel hk hs] at h
      simp only at h
      have hk' : kindsConsistent cells = true := by
        rw [kindsConsistent_of_forall₂ (forall₂_imp' (fun _ _ h => h.2) hrel)]; exact hk
      have hs' := pairwise_le_of_coords (forall₂_imp' (fun _ _ h => h.1) hrel) hs
      refine forall₂_trans' ?_ (forall₂_imp' (fun _ _ h => MomRel.toFields h) hrel0) (ih h hk' hs')
      intro a b c h1 h2
      refine ⟨h2.1.trans h1.1, h2.2.1.trans h1.2.1, h2.2.2.1.trans h1.2.2.1, ?_⟩
      intro f' hf'
      simp only [List.mem_cons, not_or] at hf'
      rw [h2.2.2.2 f' hf'.2, h1.2.2.2.1 f' (by simpa using hf'.1)]

theorem momentLoop_selected {draws : Nat → String → List Rat} :
    ∀ {fs : List String} {t out : List Cell}, momentLoop draws fs t = .ok out → fs.Nodup →
      kindsConsistent t = true → t.Pairwise (fun a b => Cell.le a b) →
      List.Forall₂ (fun c o => ∀ f ∈ fs, ∃ v drawn, c.values.get? f = some v ∧
        o.values.get? f = some (generateSamples v drawn)) t out := by
  intro fs
  induction fs with
  | nil =>
    intro t out h _ _ _; simp [momentLoop] at h; subst h
    exact forall₂_refl' (fun _ f hf => by simp at hf) t
  | cons f fs ih =>
    intro t out h hnd hk hs
    rw [List.nodup_cons] at hnd
    simp only [momentLoop] at h
    split at h
    · cases h
    · rename_i cells hcells
      have hrel0 := momentField_rel hcells
      have hrel := forall₂_imp' (fun _ _ h => (⟨h.1, h.2.1⟩ : _ ∧ _)) hrel0
      rw [ofCells_same_coords hrel hk hs] at h
      simp only at h
      have hk' : kindsConsistent cells = true := by
        rw [kindsConsistent_of_forall₂ (forall₂_imp' (fun _ _ h => h.2) hrel)]; exact hk
      have hs' := pairwise_le_of_coords (forall₂_imp' (fun _ _ h => h.1) hrel) hs
      have hrest := momentLoop_fields h hk' hs'
      have hsel := ih h hnd.2 hk' hs'
      -- combine the two facts about the remaining loop, then chain with the first step
      have hboth : List.Forall₂ (fun b o => (∀ f', f' ∉ fs → o.values.get? f' = b.values.get? f') ∧
          ∀ f' ∈ fs, ∃ v drawn, b.values.get? f' = some v ∧
            o.values.get? f' = some (generateSamples v drawn)) cells out := by
        clear h hrel0 hrel hcells hk' hs'
        induction hrest with
        | nil => cases hsel; exact .nil
        | cons h1 _ ih2 =>
          cases hsel with
          | cons g1 g2 => exact .cons ⟨h1.2.2.2, g1⟩ (ih2 g2)
      refine forall₂_trans' ?_ hrel0 hboth
      intro a b c h1 h2 f' hf'
      obtain ⟨_, _, v, drawn, hv, hb⟩ := h1
      rcases List.mem_cons.mp hf' with rfl | hf'
      · refine ⟨v, drawn, hv, ?_⟩
        rw [h2.1 _ hnd.1, hb, dget_set_of_mem hv]; simp
      · obtain ⟨v', drawn', hv', ho'⟩ := h2.2 f' hf'
        refine ⟨v', drawn', ?_, ho'⟩
        rw [← hv', hb, dget_set_of_mem hv]
        have : (f == f') = false := by
          simp only [beq_eq_false_iff_ne, ne_eq]
          intro e; subst e; exact hnd.1 hf'
        rw [this]; rfl

end Bermuda.Resample
