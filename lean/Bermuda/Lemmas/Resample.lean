/-
Helper lemmas for C17 (resampling): the rank re-imposition, canonical triangles rebuilt from cells
with unchanged coordinates, the development loop, the moment-matching loop.
-/
import Bermuda.Model.Resample
import Bermuda.Lemmas.Blend
import Mathlib.Tactic.Linarith
import Mathlib.Data.List.Nodup
import Mathlib.Data.List.Perm.Subperm
namespace Bermuda.Resample
open Bermuda.Blend (cmp_of_coord pairwise_le_of_coords forall₂_imp')

/-! ### rank order -/


theorem keyLt_irrefl (xs : List Rat) (i : Nat) : keyLt xs i i = false := by
  simp [keyLt]

theorem keyLt_of_lt {xs : List Rat} {k i j : Nat} (h : xs.getD i 0 < xs.getD j 0)
    (hk : keyLt xs k i = true) : keyLt xs k j = true := by
  simp only [keyLt, Bool.or_eq_true, decide_eq_true_eq, Bool.and_eq_true, beq_iff_eq] at hk ⊢
  rcases hk with hk | ⟨hk, _⟩
  · left; linarith
  · left; rw [hk]; exact h

theorem rank_le_of_lt {xs : List Rat} {i j : Nat} (h : xs.getD i 0 < xs.getD j 0) :
    rank xs i ≤ rank xs j := by
  unfold rank
  exact List.countP_mono_left (fun k _ hk => keyLt_of_lt h hk)

theorem rank_lt_length {xs : List Rat} {i : Nat} (hi : i < xs.length) : rank xs i < xs.length := by
  unfold rank
  have hle := List.countP_le_length (p := (keyLt xs · i)) (l := List.range xs.length)
  have hne : List.countP (keyLt xs · i) (List.range xs.length) ≠ (List.range xs.length).length := by
    intro heq
    have := (List.countP_eq_length.mp heq) i (by simpa using hi)
    simp [keyLt_irrefl] at this
  simp only [List.length_range] at hle hne
  omega

theorem sortQ_length (qs : List Rat) : (sortQ qs).length = qs.length := by
  simp [sortQ]

theorem sortQ_sorted (qs : List Rat) : (sortQ qs).Pairwise (fun a b => a ≤ b) := by
  have := List.pairwise_mergeSort (le := fun a b : Rat => decide (a ≤ b))
    (fun a b c hab hbc => by simp only [decide_eq_true_eq] at *; exact Rat.le_trans hab hbc)
    (fun a b => by simp only [Bool.or_eq_true, decide_eq_true_eq]; exact Rat.le_total) qs
  simpa [sortQ] using this

theorem sortQ_perm (qs : List Rat) : (sortQ qs).Perm qs := List.mergeSort_perm _ _

theorem sortQ_mono (qs : List Rat) {a b : Nat} (hab : a ≤ b) (hb : b < (sortQ qs).length) :
    (sortQ qs).getD a 0 ≤ (sortQ qs).getD b 0 := by
  have ha : a < (sortQ qs).length := by omega
  rw [List.getD_eq_getElem?_getD, List.getD_eq_getElem?_getD, List.getElem?_eq_getElem ha,
    List.getElem?_eq_getElem hb]
  simp only [Option.getD_some]
  rcases Nat.lt_or_eq_of_le hab with hlt | rfl
  · exact List.pairwise_iff_getElem.mp (sortQ_sorted qs) a b ha hb hlt
  · exact Rat.le_refl

theorem reimposeRank_length (xs qs : List Rat) : (reimposeRank xs qs).length = xs.length := by
  simp [reimposeRank]

theorem reimposeRank_getD {xs qs : List Rat} {i : Nat} (hi : i < xs.length) :
    (reimposeRank xs qs).getD i 0 = (sortQ qs).getD (rank xs i) 0 := by
  simp [reimposeRank, List.getD_eq_getElem?_getD, hi]

theorem reimposeRank_order_le {xs qs : List Rat} (hl : xs.length ≤ qs.length) {i j : Nat}
    (hi : i < xs.length) (hj : j < xs.length) (h : xs.getD i 0 < xs.getD j 0) :
    (reimposeRank xs qs).getD i 0 ≤ (reimposeRank xs qs).getD j 0 := by
  rw [reimposeRank_getD hi, reimposeRank_getD hj]
  exact sortQ_mono qs (rank_le_of_lt h) (by rw [sortQ_length]; exact Nat.lt_of_lt_of_le (rank_lt_length hj) hl)

theorem reimposeRank_order' {xs qs : List Rat} (hl : qs.length = xs.length) {i j : Nat}
    (hi : i < xs.length) (hj : j < xs.length) (h : xs.getD i 0 < xs.getD j 0) :
    (reimposeRank xs qs).getD i 0 ≤ (reimposeRank xs qs).getD j 0 :=
  reimposeRank_order_le (by omega) hi hj h

/-! ### the ranks are a permutation -/


theorem keyLt_trans {xs : List Rat} {k i j : Nat} (h1 : keyLt xs k i = true) (h2 : keyLt xs i j = true) :
    keyLt xs k j = true := by
  simp only [keyLt, Bool.or_eq_true, decide_eq_true_eq, Bool.and_eq_true, beq_iff_eq] at *
  rcases h1 with h1 | ⟨h1, h1'⟩ <;> rcases h2 with h2 | ⟨h2, h2'⟩
  · left; linarith
  · left; rw [← h2]; exact h1
  · left; rw [h1]; exact h2
  · right; exact ⟨h1.trans h2, by omega⟩

theorem keyLt_total {xs : List Rat} {i j : Nat} (h : i ≠ j) : keyLt xs i j = true ∨ keyLt xs j i = true := by
  simp only [keyLt, Bool.or_eq_true, decide_eq_true_eq, Bool.and_eq_true, beq_iff_eq]
  rcases lt_trichotomy (xs.getD i 0) (xs.getD j 0) with hlt | heq | hgt
  · exact Or.inl (Or.inl hlt)
  · rcases Nat.lt_or_gt_of_ne h with h' | h'
    · exact Or.inl (Or.inr ⟨heq, h'⟩)
    · exact Or.inr (Or.inr ⟨heq.symm, h'⟩)
  · exact Or.inr (Or.inl hgt)

theorem countP_lt_countP {α} {p q : α → Bool} {l : List α} (hpq : ∀ x ∈ l, p x = true → q x = true)
    (hex : ∃ x ∈ l, p x = false ∧ q x = true) : l.countP p < l.countP q := by
  induction l with
  | nil => simp at hex
  | cons a l ih =>
    obtain ⟨x, hx, hpx, hqx⟩ := hex
    have hmono : l.countP p ≤ l.countP q := List.countP_mono_left (fun y hy => hpq y (by simp [hy]))
    rcases List.mem_cons.mp hx with rfl | hx
    · simp [hpx, hqx]; omega
    · have := ih (fun y hy => hpq y (by simp [hy])) ⟨x, hx, hpx, hqx⟩
      rw [List.countP_cons, List.countP_cons]
      by_cases hpa : p a = true
      · simp [hpa, hpq a (by simp) hpa]; omega
      · simp [hpa]; split <;> omega

theorem rank_lt_of_keyLt {xs : List Rat} {i j : Nat} (hi : i < xs.length) (h : keyLt xs i j = true) :
    rank xs i < rank xs j := by
  unfold rank
  apply countP_lt_countP
  · intro k _ hk; exact keyLt_trans hk h
  · exact ⟨i, by simpa using hi, by simp [keyLt], h⟩

theorem rank_injOn {xs : List Rat} {i j : Nat} (hi : i < xs.length) (hj : j < xs.length)
    (h : rank xs i = rank xs j) : i = j := by
  by_contra hne
  rcases keyLt_total (xs := xs) hne with hlt | hlt
  · have := rank_lt_of_keyLt hi hlt; omega
  · have := rank_lt_of_keyLt hj hlt; omega


theorem ranks_perm (xs : List Rat) : ((List.range xs.length).map (rank xs)).Perm (List.range xs.length) := by
  have hnd : ((List.range xs.length).map (rank xs)).Nodup :=
    List.Nodup.map_on (fun x hx y hy h => rank_injOn (by simpa using hx) (by simpa using hy) h)
      List.nodup_range
  have hsub : (List.range xs.length).map (rank xs) ⊆ List.range xs.length := by
    intro r hr
    obtain ⟨i, hi, rfl⟩ := List.mem_map.mp hr
    simpa using rank_lt_length (by simpa using hi)
  exact (List.subperm_of_subset hnd hsub).perm_of_length_le (by simp)

theorem reimposeRank_perm' {xs qs : List Rat} (hl : qs.length = xs.length) :
    (reimposeRank xs qs).Perm qs := by
  have h1 : reimposeRank xs qs = ((List.range xs.length).map (rank xs)).map ((sortQ qs).getD · 0) := by
    simp [reimposeRank, List.map_map, Function.comp_def]
  have h2 : (List.range xs.length).map ((sortQ qs).getD · 0) = sortQ qs := by
    apply List.ext_getElem
    · simp [sortQ, hl]
    · intro i h1 h2
      simp [List.getD_eq_getElem?_getD, List.getElem?_eq_getElem h2]
  rw [h1]
  refine ((ranks_perm xs).map _).trans ?_
  rw [h2]
  exact List.mergeSort_perm qs _

/-! ### thin -/


/-! thin -/
theorem thin_eq_self {t : List Cell} {n : Nat} (idx : List Nat) (h : numSamples t = .ok n) :
    thin t n idx = .ok .same := by
  simp [thin, h]

theorem thin_error {t : List Cell} {n k : Nat} (idx : List Nat) (h : numSamples t = .ok n) (hk : n < k) :
    thin t k idx = .error .valueError := by
  simp [thin, h, hk]

theorem thinCell_coord (idx : List Nat) (c : Cell) : (thinCell idx c).coord = c.coord := rfl

theorem ofCells_of_sorted {l : List Cell} (hk : kindsConsistent l = true)
    (hs : l.Pairwise (fun a b => Cell.le a b)) : Triangle.ofCells l = .ok l := by
  unfold Triangle.ofCells
  rw [hk]; simp only [if_true]
  rw [List.mergeSort_of_pairwise hs]

theorem forall₂_map_self {α β} (f : α → β) (R : α → β → Prop) (h : ∀ a, R a (f a)) :
    ∀ l : List α, List.Forall₂ R l (l.map f)
  | [] => .nil
  | a :: l => .cons (h a) (forall₂_map_self f R h l)

theorem kindsConsistent_map {l : List Cell} (f : Cell → Cell) (hf : ∀ c, (f c).kind = c.kind) :
    kindsConsistent (l.map f) = kindsConsistent l := by
  unfold kindsConsistent
  simp [List.all_map, Function.comp_def, hf]

theorem thin_fresh {t out : List Cell} {k : Nat} {idx : List Nat}
    (h : thin t k idx = .ok (.fresh out)) (hk : kindsConsistent t = true)
    (hs : t.Pairwise (fun a b => Cell.le a b)) : out = t.map (thinCell idx) := by
  unfold thin at h
  split at h
  · cases h
  · split at h
    · cases h
    · split at h
      · cases h
      · have hs' : (t.map (thinCell idx)).Pairwise (fun a b => Cell.le a b) :=
          pairwise_le_of_coords (forall₂_map_self (thinCell idx) (fun c o => o.coord = c.coord)
            (fun c => thinCell_coord idx c) t) hs
        rw [ofCells_of_sorted (by rw [kindsConsistent_map (thinCell idx) (fun c => rfl)]; exact hk) hs'] at h
        cases h; rfl

/-! ### develop, moment_match -/



theorem kindsConsistent_of_forall₂ {l l' : List Cell}
    (h : List.Forall₂ (fun c o => o.kind = c.kind) l l') : kindsConsistent l' = kindsConsistent l := by
  have hall : ∀ k, l'.all (·.kind == k) = l.all (·.kind == k) := by
    intro k
    induction h with
    | nil => rfl
    | cons hh _ ih => simp [List.all_cons, hh, ih]
  unfold kindsConsistent
  rw [hall, hall, hall]

/-- a list with the coordinates and classes of a canonical triangle is itself one -/
theorem ofCells_same_coords {t l : List Cell}
    (h : List.Forall₂ (fun c o => o.coord = c.coord ∧ o.kind = c.kind) t l)
    (hk : kindsConsistent t = true) (hs : t.Pairwise (fun a b => Cell.le a b)) :
    Triangle.ofCells l = .ok l :=
  ofCells_of_sorted
    (by rw [kindsConsistent_of_forall₂ (forall₂_imp' (fun _ _ h => h.2) h)]; exact hk)
    (pairwise_le_of_coords (forall₂_imp' (fun _ _ h => h.1) h) hs)

/-! develop -/
def DevRel (t : List Cell) (c o : Cell) : Prop :=
  o.coord = c.coord ∧ o.kind = c.kind ∧
  (initialLag t (c.ps, c.pe) = some c.devLag → o = c) ∧ ∃ its, o.values = Dict.union c.values its

theorem developLoop_rel {t : List Cell} {F : Factors} :
    ∀ {cs : List Cell} {vals : Dict Val} {out : List Cell}, developLoop t F vals cs = .ok out →
      List.Forall₂ (DevRel t) cs out := by
  intro cs
  induction cs with
  | nil => intro vals out h; simp [developLoop] at h; subst h; exact .nil
  | cons c cs ih =>
    intro vals out h
    simp only [developLoop] at h
    split at h
    · split at h
      · cases h
      · rename_i r hr
        cases h
        exact .cons ⟨rfl, rfl, fun _ => rfl, [], rfl⟩ (ih hr)
    · rename_i hinit
      split at h
      · cases h
      · rename_i its _
        split at h
        · cases h
        · rename_i r hr
          cases h
          refine .cons ⟨rfl, rfl, fun h' => ?_, its, rfl⟩ (ih hr)
          exact absurd (by simp [h']) hinit

theorem developByAtas_rel {t out : List Cell} {F : Factors} (h : developByAtas t F = .ok out)
    (hk : kindsConsistent t = true) (hs : t.Pairwise (fun a b => Cell.le a b)) :
    List.Forall₂ (DevRel t) t out := by
  unfold developByAtas at h
  split at h
  · cases h
  · rename_i cells hcells
    have hrel := developLoop_rel hcells
    rw [ofCells_same_coords (forall₂_imp' (fun _ _ h => ⟨h.1, h.2.1⟩) hrel) hk hs] at h
    cases h
    exact hrel

/-! moment -/
def MomRel (D : List Rat → Prop) (f : String) (c o : Cell) : Prop :=
  o.coord = c.coord ∧ o.kind = c.kind ∧
  ∃ v drawn, D drawn ∧ c.values.get? f = some v ∧ o.values = c.values.set f (generateSamples v drawn)

theorem momentField_rel {f : String} {draws : Nat → List Rat} :
    ∀ {cs : List Cell} {i : Nat} {out : List Cell}, momentField f draws i cs = .ok out →
      List.Forall₂ (MomRel (fun dr => ∃ j, dr = draws j) f) cs out := by
  intro cs
  induction cs with
  | nil => intro i out h; simp [momentField] at h; subst h; exact .nil
  | cons c cs ih =>
    intro i out h
    simp only [momentField] at h
    split at h
    · cases h
    · rename_i v hv
      split at h
      · cases h
      · rename_i r hr
        cases h
        exact .cons ⟨rfl, rfl, v, draws i, ⟨i, rfl⟩, hv, rfl⟩ (ih hr)

theorem forall₂_trans' {α} {R S T : α → α → Prop} (h : ∀ a b c, R a b → S b c → T a c) :
    ∀ {l1 l2 l3 : List α}, List.Forall₂ R l1 l2 → List.Forall₂ S l2 l3 → List.Forall₂ T l1 l3
  | _, _, _, .nil, .nil => .nil
  | _, _, _, .cons h1 t1, .cons h2 t2 => .cons (h _ _ _ h1 h2) (forall₂_trans' h t1 t2)

theorem forall₂_refl' {α} {R : α → α → Prop} (h : ∀ a, R a a) : ∀ l : List α, List.Forall₂ R l l
  | [] => .nil
  | a :: l => .cons (h a) (forall₂_refl' h l)

theorem momentLoop_rel {draws : Nat → String → List Rat} :
    ∀ {fs : List String} {t out : List Cell}, momentLoop draws fs t = .ok out →
      kindsConsistent t = true → t.Pairwise (fun a b => Cell.le a b) →
      List.Forall₂ (fun c o => o.coord = c.coord ∧ o.kind = c.kind) t out := by
  intro fs
  induction fs with
  | nil => intro t out h _ _; simp [momentLoop] at h; subst h; exact forall₂_refl' (fun _ => ⟨rfl, rfl⟩) t
  | cons f fs ih =>
    intro t out h hk hs
    simp only [momentLoop] at h
    split at h
    · cases h
    · rename_i cells hcells
      have hrel := forall₂_imp' (fun _ _ h => (⟨h.1, h.2.1⟩ : _ ∧ _)) (momentField_rel hcells)
      rw [ofCells_same_coords hrel hk hs] at h
      simp only at h
      have hk' : kindsConsistent cells = true := by
        rw [kindsConsistent_of_forall₂ (forall₂_imp' (fun _ _ h => h.2) hrel)]; exact hk
      have hs' := pairwise_le_of_coords (forall₂_imp' (fun _ _ h => h.1) hrel) hs
      exact forall₂_trans' (fun a b c h1 h2 => ⟨h2.1.trans h1.1, h2.2.trans h1.2⟩) hrel (ih h hk' hs')

/-! ### counting replicates -/

theorem mapMExcept_length {α β} {f : α → Except Err β} {l : List α} {r : List β}
    (h : mapMExcept f l = .ok r) : r.length = l.length := by
  induction l generalizing r with
  | nil => simp [mapMExcept] at h; subst h; rfl
  | cons a as ih =>
    simp only [mapMExcept] at h
    split at h
    · cases h
    · split at h
      · cases h
      · rename_i bs hbs
        cases h
        simp [ih hbs]

/-! Python dict update on association lists (copied from Lemmas/Join.lean under local names) -/

theorem dget_cons {α} (p : String × α) (d : Dict α) (k : String) :
    Dict.get? (p :: d) k = if p.1 == k then some p.2 else Dict.get? d k := by
  unfold Dict.get?
  rw [List.find?_cons]
  split <;> simp_all

theorem dget_eq_none_iff {α} {d : Dict α} {k : String} : d.get? k = none ↔ k ∉ d.keys := by
  induction d with
  | nil => simp [Dict.get?, Dict.keys]
  | cons p d ih =>
    rw [dget_cons]
    simp only [Dict.keys, List.map_cons, List.mem_cons, not_or] at ih ⊢
    by_cases h : p.1 = k
    · simp [h]
    · have : (p.1 == k) = false := by simpa using h
      rw [this]; simp only [Bool.false_eq_true, if_false]
      rw [ih]; exact ⟨fun h' => ⟨fun e => h e.symm, h'⟩, fun h' => h'.2⟩

theorem dcontains_eq {α} (d : Dict α) (k : String) : d.contains k = d.keys.contains k := by
  unfold Dict.contains Dict.keys
  induction d with
  | nil => rfl
  | cons p d ih => simp only [List.any_cons, List.map_cons, List.contains_cons, ih]; rw [Bool.beq_comm]

theorem dget_map_replace {α} (d : Dict α) (k k' : String) (v : α) :
    Dict.get? (d.map (fun p => if p.1 == k then (k, v) else p)) k' =
      if k == k' then (d.get? k).map (fun _ => v) else d.get? k' := by
  induction d with
  | nil => simp [Dict.get?]
  | cons p d ih =>
    rw [List.map_cons, dget_cons, ih, dget_cons, dget_cons]
    by_cases h1 : p.1 = k <;> by_cases h2 : k = k' <;> by_cases h3 : p.1 = k' <;> simp_all

/-- `d[k] = v` on a dict that HAS the key: every other key reads as before, `k` reads `v` -/
theorem dget_set_of_mem {α} {d : Dict α} {k : String} {x : α} (hk : d.get? k = some x) (k' : String) (v : α) :
    (d.set k v).get? k' = if k == k' then some v else d.get? k' := by
  have hc : d.contains k = true := by
    rw [dcontains_eq]
    exact List.contains_iff_mem.mpr (by
      by_contra h; rw [dget_eq_none_iff.mpr h] at hk; cases hk)
  unfold Dict.set
  rw [if_pos hc, dget_map_replace, hk]
  rfl

/-- … and the keys (with their order) stay -/
theorem dkeys_set_of_mem {α} {d : Dict α} {k : String} {x : α} (hk : d.get? k = some x) (v : α) :
    (d.set k v).keys = d.keys := by
  have hc : d.contains k = true := by
    rw [dcontains_eq]
    exact List.contains_iff_mem.mpr (by
      by_contra h; rw [dget_eq_none_iff.mpr h] at hk; cases hk)
  unfold Dict.set
  rw [if_pos hc]
  unfold Dict.keys
  rw [List.map_map]
  apply List.map_congr_left
  intro p _
  simp only [Function.comp]
  split <;> simp_all

/-- what `moment_match` may do to a cell, for a list of selected fields -/
def MomFields (fs : List String) (c o : Cell) : Prop :=
  o.coord = c.coord ∧ o.kind = c.kind ∧ o.values.keys = c.values.keys ∧
  (∀ f, f ∉ fs → o.values.get? f = c.values.get? f) ∧
  (∀ f ∈ fs, ∃ v, c.values.get? f = some v)

theorem MomRel.toFields {D : List Rat → Prop} {f : String} {c o : Cell} (h : MomRel D f c o) :
    MomFields [f] c o := by
  obtain ⟨h1, h2, v, drawn, _, hv, ho⟩ := h
  refine ⟨h1, h2, ?_, ?_, ?_⟩
  · rw [ho]; exact dkeys_set_of_mem hv _
  · intro f' hf'
    rw [ho, dget_set_of_mem hv]
    have : (f == f') = false := by
      simp only [List.mem_singleton] at hf'
      simpa using fun e => hf' e.symm
    rw [this]; rfl
  · intro f' hf'
    simp only [List.mem_singleton] at hf'
    subst hf'
    exact ⟨v, hv⟩

theorem momentLoop_fields {draws : Nat → String → List Rat} :
    ∀ {fs : List String} {t out : List Cell}, momentLoop draws fs t = .ok out →
      kindsConsistent t = true → t.Pairwise (fun a b => Cell.le a b) →
      List.Forall₂ (fun c o => o.coord = c.coord ∧ o.kind = c.kind ∧ o.values.keys = c.values.keys ∧
        (∀ f, f ∉ fs → o.values.get? f = c.values.get? f)) t out := by
  intro fs
  induction fs with
  | nil =>
    intro t out h _ _; simp [momentLoop] at h; subst h
    exact forall₂_refl' (fun _ => ⟨rfl, rfl, rfl, fun _ _ => rfl⟩) t
  | cons f fs ih =>
    intro t out h hk hs
    simp only [momentLoop] at h
    split at h
    · cases h
    · rename_i cells hcells
      have hrel0 := momentField_rel hcells
      have hrel := forall₂_imp' (fun _ _ h => (⟨h.1, h.2.1⟩ : _ ∧ _)) hrel0
      rw [ofCells_same_coords hrel hk hs] at h
      simp only at h
      have hk' : kindsConsistent cells = true := by
        rw [kindsConsistent_of_forall₂ (forall₂_imp' (fun _ _ h => h.2) hrel)]; exact hk
      have hs' := pairwise_le_of_coords (forall₂_imp' (fun _ _ h => h.1) hrel) hs
      refine forall₂_trans' ?_ (forall₂_imp' (fun _ _ h => MomRel.toFields h) hrel0) (ih h hk' hs')
      intro a b c h1 h2
      refine ⟨h2.1.trans h1.1, h2.2.1.trans h1.2.1, h2.2.2.1.trans h1.2.2.1, ?_⟩
      intro f' hf'
      simp only [List.mem_cons, not_or] at hf'
      rw [h2.2.2.2 f' hf'.2, h1.2.2.2.1 f' (by simpa using hf'.1)]

theorem momentLoop_selected {draws : Nat → String → List Rat} :
    ∀ {fs : List String} {t out : List Cell}, momentLoop draws fs t = .ok out → fs.Nodup →
      kindsConsistent t = true → t.Pairwise (fun a b => Cell.le a b) →
      List.Forall₂ (fun c o => ∀ f ∈ fs, ∃ v drawn, (∃ j, drawn = draws j f) ∧
        c.values.get? f = some v ∧ o.values.get? f = some (generateSamples v drawn)) t out := by
  intro fs
  induction fs with
  | nil =>
    intro t out h _ _ _; simp [momentLoop] at h; subst h
    exact forall₂_refl' (fun _ f hf => by simp at hf) t
  | cons f fs ih =>
    intro t out h hnd hk hs
    rw [List.nodup_cons] at hnd
    simp only [momentLoop] at h
    split at h
    · cases h
    · rename_i cells hcells
      have hrel0 := momentField_rel hcells
      have hrel := forall₂_imp' (fun _ _ h => (⟨h.1, h.2.1⟩ : _ ∧ _)) hrel0
      rw [ofCells_same_coords hrel hk hs] at h
      simp only at h
      have hk' : kindsConsistent cells = true := by
        rw [kindsConsistent_of_forall₂ (forall₂_imp' (fun _ _ h => h.2) hrel)]; exact hk
      have hs' := pairwise_le_of_coords (forall₂_imp' (fun _ _ h => h.1) hrel) hs
      have hrest := momentLoop_fields h hk' hs'
      have hsel := ih h hnd.2 hk' hs'
      -- combine the two facts about the remaining loop, then chain with the first step
      have hboth : List.Forall₂ (fun b o => (∀ f', f' ∉ fs → o.values.get? f' = b.values.get? f') ∧
          ∀ f' ∈ fs, ∃ v drawn, (∃ j, drawn = draws j f') ∧ b.values.get? f' = some v ∧
            o.values.get? f' = some (generateSamples v drawn)) cells out := by
        clear h hrel0 hrel hcells hk' hs'
        induction hrest with
        | nil => cases hsel; exact .nil
        | cons h1 _ ih2 =>
          cases hsel with
          | cons g1 g2 => exact .cons ⟨h1.2.2.2, g1⟩ (ih2 g2)
      refine forall₂_trans' ?_ hrel0 hboth
      intro a b c h1 h2 f' hf'
      obtain ⟨_, _, v, drawn, hD, hv, hb⟩ := h1
      rcases List.mem_cons.mp hf' with rfl | hf'
      · refine ⟨v, drawn, hD, hv, ?_⟩
        rw [h2.1 _ hnd.1, hb, dget_set_of_mem hv]; simp
      · obtain ⟨v', drawn', hD', hv', ho'⟩ := h2.2 f' hf'
        refine ⟨v', drawn', hD', ?_, ho'⟩
        rw [← hv', hb, dget_set_of_mem hv]
        have : (f == f') = false := by
          simp only [beq_eq_false_iff_ne, ne_eq]
          intro e; subst e; exact hnd.1 hf'
        rw [this]; rfl



theorem dmem_keys_set {α} (d : Dict α) (k k' : String) (v : α) :
    k' ∈ (d.set k v).keys ↔ k' ∈ d.keys ∨ k' = k := by
  unfold Dict.set
  split
  · rename_i hc
    have hk : k ∈ d.keys := by rw [dcontains_eq] at hc; exact List.contains_iff_mem.mp hc
    have : Dict.keys (d.map (fun p => if p.1 == k then (k, v) else p)) = Dict.keys d := by
      unfold Dict.keys
      rw [List.map_map]
      apply List.map_congr_left
      intro p _
      simp only [Function.comp]
      split <;> simp_all
    rw [this]
    constructor
    · exact Or.inl
    · rintro (h | rfl)
      · exact h
      · exact hk
  · simp [Dict.keys]

theorem dmem_keys_union {α} (b : Dict α) : ∀ (a : Dict α) (k : String),
    k ∈ (Dict.union a b).keys ↔ k ∈ a.keys ∨ k ∈ b.keys := by
  induction b with
  | nil => intro a k; simp [Dict.union, Dict.keys]
  | cons p b ih =>
    intro a k
    have : Dict.union a (p :: b) = Dict.union (a.set p.1 p.2) b := by simp [Dict.union]
    rw [this, ih, dmem_keys_set]
    simp only [Dict.keys, List.map_cons, List.mem_cons]
    tauto

theorem developItems_keys {c : Cell} {tbl : List (String × List Rat)} {pidx : Nat} :
    ∀ {vals its : Dict Val}, developItems c tbl pidx vals = .ok its → ∀ f ∈ its.keys, f ∈ vals.keys := by
  intro vals
  induction vals with
  | nil => intro its h; simp [developItems] at h; subst h; simp [Dict.keys]
  | cons p vals ih =>
    intro its h
    obtain ⟨f, v⟩ := p
    simp only [developItems] at h
    split at h
    · intro g hg
      simp only [Dict.keys, List.map_cons, List.mem_cons]
      exact Or.inr (ih h g hg)
    · split at h
      · cases h
      · split at h
        · cases h
        · split at h
          · cases h
          · rename_i r hr
            cases h
            intro g hg
            simp only [Dict.keys, List.map_cons, List.mem_cons] at hg ⊢
            rcases hg with rfl | hg
            · exact Or.inl rfl
            · exact Or.inr (ih hr g hg)

/-- every field name occurring in the developed cells occurs in the running values or in a source
cell — nothing is invented -/
theorem developLoop_keys {t : List Cell} {F : Factors} (P : String → Prop) :
    ∀ {cs : List Cell} {vals : Dict Val} {out : List Cell}, developLoop t F vals cs = .ok out →
      (∀ f ∈ vals.keys, P f) → (∀ c ∈ cs, ∀ f ∈ c.values.keys, P f) →
      ∀ o ∈ out, ∀ f ∈ o.values.keys, P f := by
  intro cs
  induction cs with
  | nil => intro vals out h _ _; simp [developLoop] at h; subst h; simp
  | cons c cs ih =>
    intro vals out h hv hc
    simp only [developLoop] at h
    split at h
    · split at h
      · cases h
      · rename_i r hr
        cases h
        intro o ho
        rcases List.mem_cons.mp ho with rfl | ho
        · exact hc o (by simp)
        · exact ih hr (hc c (by simp)) (fun c' hc' => hc c' (by simp [hc'])) o ho
    · split at h
      · cases h
      · rename_i its hits
        split at h
        · cases h
        · rename_i r hr
          cases h
          have hits' : ∀ f ∈ its.keys, P f := by
            intro f hf
            split at hits
            · cases hits; simp [Dict.keys] at hf
            · split at hits
              · cases hits
              · exact hv f (developItems_keys hits f hf)
          have hnv : ∀ f ∈ (Dict.union c.values its).keys, P f := by
            intro f hf
            rcases (dmem_keys_union its c.values f).mp hf with h1 | h1
            · exact hc c (by simp) f h1
            · exact hits' f h1
          intro o ho
          rcases List.mem_cons.mp ho with rfl | ho
          · exact hnv
          · exact ih hr hnv (fun c' hc' => hc c' (by simp [hc'])) o ho



theorem mapMExcept_ok_of_mem {α β} {f : α → Except Err β} {l : List α} {r : List β}
    (h : mapMExcept f l = .ok r) : ∀ a ∈ l, ∃ b, f a = .ok b := by
  induction l generalizing r with
  | nil => simp
  | cons a as ih =>
    simp only [mapMExcept] at h
    split at h
    · cases h
    · rename_i b hb
      split at h
      · cases h
      · rename_i bs hbs
        intro x hx
        rcases List.mem_cons.mp hx with rfl | hx
        · exact ⟨b, hb⟩
        · exact ih hbs x hx

theorem mapMExcept_getElem {α β} {f : α → Except Err β} {l : List α} {r : List β}
    (h : mapMExcept f l = .ok r) (i : Nat) (hi : i < l.length) :
    f l[i] = .ok (r[i]'(by rw [mapMExcept_length h]; exact hi)) := by
  induction l generalizing r i with
  | nil => simp at hi
  | cons a as ih =>
    simp only [mapMExcept] at h
    split at h
    · cases h
    · rename_i b hb
      split at h
      · cases h
      · rename_i bs hbs
        cases h
        cases i with
        | zero => simpa using hb
        | succ i => simpa using ih hbs i (by simpa using hi)

theorem meEnsemble_length {xs : List Val} {qs : List Rat} {vs : List Val}
    (h : meEnsemble xs qs = .ok vs) : vs.length = xs.length := by
  unfold meEnsemble at h
  split at h
  · cases h; rfl
  · cases h; rfl
  · split at h
    · cases h
    · rename_i nums hnums
      split at h
      · cases h; rfl
      · cases h
        simp [Resample.reimposeRank_length, mapMExcept_length hnums]

def SameCell (c o : Cell) : Prop := o.coord = c.coord ∧ o.kind = c.kind ∧ o.values.keys = c.values.keys

theorem setField_rel {f : String} : ∀ {s s' : List Cell} {vs : List Val},
    List.Forall₂ SameCell s s' → vs.length = s'.length → (∀ c ∈ s, ∃ v, c.values.get? f = some v) →
    List.Forall₂ SameCell s (setField s' f vs) := by
  intro s s' vs h
  induction h generalizing vs with
  | nil => intro _ _; simp [setField]
  | cons hh _ ih =>
    rename_i c o s1 s1' _
    intro hl hget
    cases vs with
    | nil => simp at hl
    | cons v vs =>
      simp only [setField, List.zip_cons_cons, List.map_cons]
      refine .cons ?_ (ih (by simpa using hl) (fun c' hc' => hget c' (by simp [hc'])))
      obtain ⟨x, hx⟩ := hget c (by simp)
      have ho : ∃ y, o.values.get? f = some y := by
        have hmem : f ∈ c.values.keys := by
          by_contra hn; rw [dget_eq_none_iff.mpr hn] at hx; cases hx
        rw [← hh.2.2] at hmem
        cases hg : o.values.get? f with
        | none => exact absurd hmem (dget_eq_none_iff.mp hg)
        | some y => exact ⟨y, rfl⟩
      obtain ⟨y, hy⟩ := ho
      exact ⟨hh.1, hh.2.1, (dkeys_set_of_mem hy v).trans hh.2.2⟩

theorem meCells_rel {s : List Cell} {qs : String → List Rat} :
    ∀ {fs : List String} {cells : List Cell}, meCells s fs qs = .ok cells →
      List.Forall₂ SameCell s cells := by
  intro fs
  induction fs with
  | nil => intro cells h; simp [meCells] at h; subst h; exact forall₂_refl' (fun _ => ⟨rfl, rfl, rfl⟩) s
  | cons f fs ih =>
    intro cells h
    simp only [meCells] at h
    split at h
    · cases h
    · rename_i xs hxs
      split at h
      · cases h
      · rename_i vs hvs
        split at h
        · cases h
        · rename_i s' hs'
          cases h
          have hrel := ih hs'
          have hl : vs.length = s'.length := by
            rw [meEnsemble_length hvs, mapMExcept_length hxs]
            exact (Blend.forall₂_length' hrel).symm
          refine setField_rel hrel hl ?_
          intro c hc
          obtain ⟨b, hb⟩ := mapMExcept_ok_of_mem hxs c hc
          cases hg : c.values.get? f with
          | none => simp [hg] at hb
          | some v => exact ⟨v, rfl⟩


/-! ### bootstrap: tag, one replicate -/


def tagCell (i : Nat) (c : Cell) : Cell :=
  { c with md := c.md.edit (.detail "bootstrap" (.num (i : Rat))) }

theorem mapM_mk_eq {f : Cell → Cell} : ∀ {t out : List Cell},
    t.mapM (fun c => (f c).mk?) = .ok out → out = t.map f := by
  intro t
  induction t with
  | nil => intro out h; simp [List.mapM_nil, pure, Except.pure] at h; subst h; rfl
  | cons a rest ih =>
    intro out h
    rw [List.mapM_cons] at h
    simp only [bind, Except.bind, Cell.mk?] at h
    split at h
    · cases h
    · rename_i v hv
      split at hv
      · cases hv
        split at h
        · cases h
        · rename_i vs hvs
          simp only [pure, Except.pure] at h
          cases h
          simp [ih hvs]
      · cases hv

theorem ofCells_perm' {l t : List Cell} (h : Triangle.ofCells l = .ok t) : t.Perm l := by
  unfold Triangle.ofCells at h
  split at h
  · cases h; exact List.mergeSort_perm l _
  · cases h

theorem tagBootstrap_perm {t out : List Cell} {i : Nat} (h : tagBootstrap t i = .ok out) :
    out.Perm (t.map (tagCell i)) := by
  simp only [tagBootstrap, Triangle.deriveMetadata, bind, Except.bind] at h
  split at h
  · cases h
  · rename_i v hv
    have := mapM_mk_eq (f := tagCell i) hv
    subst this
    exact ofCells_perm' h

/-- what one replicate may do to a cell of slice `s` BEFORE the bootstrap tag -/
def PreRel (s : List Cell) (c o : Cell) : Prop :=
  o.coord = c.coord ∧ o.kind = c.kind ∧ (∀ f ∈ c.values.keys, f ∈ o.values.keys) ∧
  (∀ f ∈ o.values.keys, ∃ c' ∈ s, f ∈ c'.values.keys)

theorem developByAtas_loop {t out : List Cell} {F : Factors} (h : developByAtas t F = .ok out)
    (hk : kindsConsistent t = true) (hs : t.Pairwise (fun a b => Cell.le a b)) :
    developLoop t F [] t = .ok out := by
  unfold developByAtas at h
  split at h
  · cases h
  · rename_i cells hcells
    have hrel := developLoop_rel hcells
    rw [ofCells_same_coords (forall₂_imp' (fun _ _ h => ⟨h.1, h.2.1⟩) hrel) hk hs] at h
    cases h
    exact hcells

theorem forall₂_and_mem {α β} {R : α → β → Prop} {Q : β → Prop} : ∀ {l : List α} {l' : List β},
    List.Forall₂ R l l' → (∀ o ∈ l', Q o) → List.Forall₂ (fun a b => R a b ∧ Q b) l l'
  | _, _, .nil, _ => .nil
  | _, _, .cons h t, hq => .cons ⟨h, hq _ (by simp)⟩ (forall₂_and_mem t (fun o ho => hq o (by simp [ho])))

theorem replicate_pre {s rep : List Cell} {fields : List String} {p : RepParam} {i : Nat}
    (h : replicate s fields p i = .ok rep)
    (hk : kindsConsistent s = true) (hs : s.Pairwise (fun a b => Cell.le a b)) :
    ∃ l, rep.Perm (l.map (tagCell i)) ∧ List.Forall₂ (PreRel s) s l := by
  unfold replicate at h
  split at h
  · split at h
    · cases h
    · rename_i d hd
      refine ⟨d, tagBootstrap_perm h, ?_⟩
      have hrel := developByAtas_rel hd hk hs
      have hkeys := developLoop_keys (fun f => ∃ c' ∈ s, f ∈ c'.values.keys)
        (developByAtas_loop hd hk hs) (by simp [Dict.keys]) (fun c hc f hf => ⟨c, hc, hf⟩)
      refine forall₂_imp' ?_ (forall₂_and_mem hrel hkeys)
      rintro c o ⟨⟨h1, h2, _, its, hits⟩, h4⟩
      refine ⟨h1, h2, ?_, h4⟩
      intro f hf
      rw [hits]
      exact (dmem_keys_union its c.values f).mpr (Or.inl hf)
  · split at h
    · cases h
    · rename_i cells hcells
      have hrel := meCells_rel hcells
      split at h
      · cases h
      · rename_i t' ht'
        rw [ofCells_same_coords (forall₂_imp' (fun _ _ h => ⟨h.1, h.2.1⟩) hrel) hk hs] at ht'
        cases ht'
        refine ⟨cells, tagBootstrap_perm h, ?_⟩
        have hmem : ∀ {l l' : List Cell}, List.Forall₂ SameCell l l' → (∀ c ∈ l, c ∈ s) →
            List.Forall₂ (PreRel s) l l' := by
          intro l l' hf
          induction hf with
          | nil => intro _; exact .nil
          | cons hh _ ih =>
            rename_i c o _ _ _
            intro hsub
            refine .cons ⟨hh.1, hh.2.1, fun f hf => hh.2.2 ▸ hf, fun f hf => ⟨c, hsub c (by simp), hh.2.2 ▸ hf⟩⟩
              (ih (fun c' hc' => hsub c' (by simp [hc'])))
        exact hmem hrel (fun c hc => hc)

/-! ### bootstrap: sums and slices -/


theorem sumFrom_perm : ∀ {bs : List (List Cell)} {acc r : List Cell}, sumFrom acc bs = .ok r →
    r.Perm (acc ++ bs.flatten) := by
  intro bs
  induction bs with
  | nil => intro acc r h; simp [sumFrom] at h; subst h; simp
  | cons b bs ih =>
    intro acc r h
    simp only [sumFrom] at h
    split at h
    · cases h
    · rename_i a ha
      have h1 := ih h
      have h2 : a.Perm (acc ++ b) := ofCells_perm' ha
      rw [List.flatten_cons, ← List.append_assoc]
      exact h1.trans (h2.append_right _)

theorem sumTriangles_perm {l : List (List Cell)} {r : List Cell} (h : sumTriangles l = .ok r) :
    r.Perm l.flatten := by
  cases l with
  | nil => simp [sumTriangles] at h; subst h; simp
  | cons a rest => simpa [sumTriangles] using sumFrom_perm h

/-! metasOf -/
theorem metas_foldl (cells : List Cell) : ∀ (acc : List Metadata), acc.Nodup →
    (cells.foldl (fun acc c => if acc.contains c.md then acc else acc ++ [c.md]) acc).Nodup ∧
    ∀ m, m ∈ cells.foldl (fun acc c => if acc.contains c.md then acc else acc ++ [c.md]) acc ↔
      m ∈ acc ∨ ∃ c ∈ cells, c.md = m := by
  induction cells with
  | nil => intro acc h; simp [h]
  | cons c cells ih =>
    intro acc hnd
    rw [List.foldl_cons]
    by_cases hc : acc.contains c.md = true
    · rw [if_pos hc]
      obtain ⟨h1, h2⟩ := ih acc hnd
      refine ⟨h1, fun m => ?_⟩
      rw [h2]
      have : c.md ∈ acc := List.contains_iff_mem.mp hc
      constructor
      · rintro (h | ⟨c', hc', rfl⟩)
        · exact Or.inl h
        · exact Or.inr ⟨c', by simp [hc'], rfl⟩
      · rintro (h | ⟨c', hc', rfl⟩)
        · exact Or.inl h
        · rcases List.mem_cons.mp hc' with rfl | hc'
          · exact Or.inl this
          · exact Or.inr ⟨c', hc', rfl⟩
    · rw [if_neg hc]
      have hnot : c.md ∉ acc := fun h => hc (List.contains_iff_mem.mpr h)
      have hnd' : (acc ++ [c.md]).Nodup := by
        rw [List.nodup_append]
        refine ⟨hnd, by simp, ?_⟩
        intro a ha b hb
        simp only [List.mem_singleton] at hb
        subst hb
        intro e; subst e; exact hnot ha
      obtain ⟨h1, h2⟩ := ih _ hnd'
      refine ⟨h1, fun m => ?_⟩
      rw [h2]
      constructor
      · rintro (h | ⟨c', hc', rfl⟩)
        · rcases List.mem_append.mp h with h | h
          · exact Or.inl h
          · rw [List.mem_singleton] at h; subst h; exact Or.inr ⟨c, by simp, rfl⟩
        · exact Or.inr ⟨c', by simp [hc'], rfl⟩
      · rintro (h | ⟨c', hc', rfl⟩)
        · exact Or.inl (List.mem_append.mpr (Or.inl h))
        · rcases List.mem_cons.mp hc' with rfl | hc'
          · exact Or.inl (List.mem_append.mpr (Or.inr (by simp)))
          · exact Or.inr ⟨c', hc', rfl⟩

theorem metasOf_nodup (t : List Cell) : (metasOf t).Nodup := (metas_foldl t [] List.nodup_nil).1

theorem mem_metasOf {t : List Cell} {c : Cell} (h : c ∈ t) : c.md ∈ metasOf t :=
  ((metas_foldl t [] List.nodup_nil).2 c.md).mpr (Or.inr ⟨c, h, rfl⟩)

theorem partition_perm : ∀ (ms : List Metadata) (t : List Cell), ms.Nodup → (∀ c ∈ t, c.md ∈ ms) →
    (ms.flatMap fun m => t.filter (·.md == m)).Perm t := by
  intro ms
  induction ms with
  | nil =>
    intro t _ h
    cases t with
    | nil => simp
    | cons c t => exact absurd (h c (by simp)) (by simp)
  | cons m ms ih =>
    intro t hnd hcov
    rw [List.nodup_cons] at hnd
    rw [List.flatMap_cons]
    have hrest : (ms.flatMap fun m' => t.filter (·.md == m')) =
        (ms.flatMap fun m' => (t.filter (fun c => !(c.md == m))).filter (·.md == m')) := by
      apply List.flatMap_congr
      intro m' hm'
      rw [List.filter_filter]
      apply List.filter_congr
      intro c _
      by_cases h : c.md = m'
      · have : c.md ≠ m := fun e => hnd.1 (e ▸ h ▸ hm')
        simp [h]
        subst h; simpa using this
      · simp [h]
    rw [hrest]
    have ih' := ih (t.filter (fun c => !(c.md == m))) hnd.2 (by
      intro c hc
      rw [List.mem_filter] at hc
      have := hcov c hc.1
      rcases List.mem_cons.mp this with h | h
      · simp [h] at hc
      · exact h)
    exact (List.Perm.append_left _ ih').trans (List.filter_append_perm _ t)



theorem mapMExcept_forall₂ {α β} {f : α → Except Err β} : ∀ {l : List α} {r : List β},
    mapMExcept f l = .ok r → List.Forall₂ (fun a b => f a = .ok b) l r := by
  intro l
  induction l with
  | nil => intro r h; simp [mapMExcept] at h; subst h; exact .nil
  | cons a as ih =>
    intro r h
    simp only [mapMExcept] at h
    split at h
    · cases h
    · rename_i b hb
      split at h
      · cases h
      · rename_i bs hbs
        cases h
        exact .cons hb (ih hbs)

theorem forall₂_map_left' {α β γ} {R : β → γ → Prop} {f : α → β} :
    ∀ {l : List α} {l' : List γ}, List.Forall₂ (fun a b => R (f a) b) l l' → List.Forall₂ R (l.map f) l'
  | _, _, .nil => .nil
  | _, _, .cons h t => .cons h (forall₂_map_left' t)

theorem forall₂_map_right' {α β γ} {R : α → γ → Prop} {f : β → γ} :
    ∀ {l : List α} {l' : List β}, List.Forall₂ (fun a b => R a (f b)) l l' → List.Forall₂ R l (l'.map f)
  | _, _, .nil => .nil
  | _, _, .cons h t => .cons h (forall₂_map_right' t)

theorem forall₂_append' {α β} {R : α → β → Prop} : ∀ {l1 : List α} {l1' : List β} {l2 l2'},
    List.Forall₂ R l1 l1' → List.Forall₂ R l2 l2' → List.Forall₂ R (l1 ++ l2) (l1' ++ l2')
  | _, _, _, _, .nil, h => h
  | _, _, _, _, .cons h t, h2 => .cons h (forall₂_append' t h2)

/-- slice-wise replicates assemble into a whole-triangle replicate -/
theorem assemble {T : List Cell} {i : Nat} : ∀ {ss rs : List (List Cell)},
    List.Forall₂ (fun s r => ∃ l, r.Perm (l.map (tagCell i)) ∧ List.Forall₂ (PreRel s) s l) ss rs →
    (∀ s ∈ ss, ∀ c ∈ s, c ∈ T) →
    ∃ l, rs.flatten.Perm (l.map (tagCell i)) ∧ List.Forall₂ (PreRel T) ss.flatten l := by
  intro ss rs h
  induction h with
  | nil => intro _; exact ⟨[], by simp, .nil⟩
  | cons hh _ ih =>
    rename_i s r ss' rs' _
    intro hsub
    obtain ⟨l1, hp1, hf1⟩ := hh
    obtain ⟨l2, hp2, hf2⟩ := ih (fun s' hs' => hsub s' (by simp [hs']))
    refine ⟨l1 ++ l2, ?_, ?_⟩
    · rw [List.flatten_cons, List.map_append]
      exact hp1.append hp2
    · rw [List.flatten_cons]
      refine forall₂_append' (forall₂_imp' ?_ hf1) hf2
      rintro c o ⟨h1, h2, h3, h4⟩
      refine ⟨h1, h2, h3, fun f hf => ?_⟩
      obtain ⟨c', hc', hfc'⟩ := h4 f hf
      exact ⟨c', hsub s (by simp) c' hc', hfc'⟩



theorem kindsConsistent_of_subset {l l' : List Cell} (h : kindsConsistent l = true)
    (hsub : ∀ c ∈ l', c ∈ l) : kindsConsistent l' = true := by
  unfold kindsConsistent at *
  simp only [Bool.or_eq_true, List.all_eq_true] at *
  rcases h with (h | h) | h
  · exact Or.inl (Or.inl fun c hc => h c (hsub c hc))
  · exact Or.inl (Or.inr fun c hc => h c (hsub c hc))
  · exact Or.inr fun c hc => h c (hsub c hc)

theorem slice_props {t : List Cell} (hk : kindsConsistent t = true) :
    ∀ s ∈ (Triangle.slices t).map (·.2),
      kindsConsistent s = true ∧ s.Pairwise (fun a b => Cell.le a b) ∧ ∀ c ∈ s, c ∈ t := by
  intro s hs
  simp only [Triangle.slices, List.map_map, List.mem_map, Function.comp] at hs
  obtain ⟨m, _, rfl⟩ := hs
  have hsub : ∀ c ∈ (t.filter (·.md == m)).mergeSort Cell.le, c ∈ t := by
    intro c hc
    exact (List.mem_filter.mp ((List.mergeSort_perm _ _).mem_iff.mp hc)).1
  exact ⟨kindsConsistent_of_subset hk hsub, sorted_mergeSort (cmp := Cell.cmp) _, hsub⟩

theorem slices_flatten_perm (t : List Cell) : (((Triangle.slices t).map (·.2)).flatten).Perm t := by
  have h1 : ((Triangle.slices t).map (·.2)).flatten =
      (metasOf t).flatMap fun m => (t.filter (·.md == m)).mergeSort Cell.le := by
    simp [Triangle.slices, List.flatMap, List.map_map, Function.comp_def]
  rw [h1]
  refine List.Perm.trans ?_ (partition_perm (metasOf t) t (metasOf_nodup t) (fun c hc => mem_metasOf hc))
  clear h1
  generalize metasOf t = ms
  induction ms with
  | nil => simp
  | cons m ms ih =>
    rw [List.flatMap_cons, List.flatMap_cons]
    exact (List.mergeSort_perm _ _).append ih


theorem forall₂_mem_left {α β} {R : α → β → Prop} : ∀ {l : List α} {l' : List β},
    List.Forall₂ R l l' → ∀ a ∈ l, ∃ b ∈ l', R a b
  | _, _, .nil, a, ha => by simp at ha
  | _, _, .cons h t, a, ha => by
    rcases List.mem_cons.mp ha with rfl | ha
    · exact ⟨_, by simp, h⟩
    · obtain ⟨b, hb, hr⟩ := forall₂_mem_left t a ha
      exact ⟨b, by simp [hb], hr⟩

theorem forall₂_mem_right {α β} {R : α → β → Prop} : ∀ {l : List α} {l' : List β},
    List.Forall₂ R l l' → ∀ b ∈ l', ∃ a ∈ l, R a b
  | _, _, .nil, b, hb => by simp at hb
  | _, _, .cons h t, b, hb => by
    rcases List.mem_cons.mp hb with rfl | hb
    · exact ⟨_, by simp, h⟩
    · obtain ⟨a, ha, hr⟩ := forall₂_mem_right t b hb
      exact ⟨a, by simp [ha], hr⟩

end Bermuda.Resample
