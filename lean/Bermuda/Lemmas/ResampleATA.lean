/-
Lemmas about the age-to-age arithmetic (`Model/ResampleATA.lean`): the chained product, identity resampling,
the development loop along one row, the sampler parameters of `moment_match`.
-/
import Bermuda.Model.ResampleATA
import Bermuda.Lemmas.ResampleME
namespace Bermuda.Resample

/-! ### the chained product -/

theorem chainTail_length (a : Rat) (xs : List Rat) : (chainTail a xs).length = xs.length := by
  induction xs generalizing a with
  | nil => rfl
  | cons x xs ih => simp [chainTail, ih]

theorem prodQ_cons (x : Rat) (xs : List Rat) : prodQ (x :: xs) = x * prodQ xs := rfl

/-- the `k`-th developed value is the start value times the product of the first `k+1` factors -/
theorem chainTail_getD (a : Rat) (xs : List Rat) (k : Nat) (hk : k < xs.length) :
    (chainTail a xs).getD k 0 = a * prodQ (xs.take (k + 1)) := by
  induction xs generalizing a k with
  | nil => simp at hk
  | cons x xs ih =>
    cases k with
    | zero => simp [chainTail, prodQ]
    | succ k =>
      have hk' : k < xs.length := by simpa using hk
      simp only [chainTail, List.getD_cons_succ, List.take_succ_cons, prodQ_cons]
      rw [ih (a * x) k hk']
      ring

/-- a period that draws its OWN factors gets its own values back -/
theorem chainTail_ratios (v0 : Rat) (vs : List Rat) (h0 : v0 ≠ 0) (hv : ∀ v ∈ vs, v ≠ 0) :
    chainTail v0 (ratiosOf (v0 :: vs)) = vs := by
  induction vs generalizing v0 with
  | nil => rfl
  | cons v vs ih =>
    have hv0 : v ≠ 0 := hv v (by simp)
    have e : v0 * (v / v0) = v := by field_simp
    simp only [ratiosOf, chainTail, e]
    rw [ih v hv0 (fun w hw => hv w (by simp [hw]))]

/-! ### identity draws -/

theorem gatherE_map (arr : List Rat) : ∀ (idx : List Nat), (∀ j ∈ idx, j < arr.length) →
    gatherE arr idx = .ok (idx.map (arr.getD · 0))
  | [], _ => rfl
  | j :: idx, h => by
    have hj : j < arr.length := h j (by simp)
    have ih := gatherE_map arr idx (fun k hk => h k (by simp [hk]))
    unfold gatherE at ih ⊢
    simp only [mapMExcept, List.getElem?_eq_getElem hj, ih, List.map_cons, List.getD_eq_getElem?_getD,
      Option.getD_some]

theorem map_getD_range (arr : List Rat) : (List.range arr.length).map (arr.getD · 0) = arr := by
  apply List.ext_getElem
  · simp
  · intro i h1 h2
    simp [List.getD_eq_getElem?_getD, List.getElem?_eq_getElem h2]

/-- `arr[[0, 1, …, len-1]]` is `arr` -/
theorem gatherE_range (arr : List Rat) : gatherE arr (List.range arr.length) = .ok arr := by
  rw [gatherE_map arr _ (fun j hj => List.mem_range.mp hj), map_getD_range]

/-! ### `moment_match`: sampler parameters -/

/-- the gamma sampler is parameterised so that its mean `shape·scale` and variance `shape·scale²` ARE the
sample's mean and variance -/
theorem gammaParams_match (mu s2 : Rat) (hmu : mu ≠ 0) (hs : s2 ≠ 0) :
    (gammaParams mu s2).1 * (gammaParams mu s2).2 = mu ∧
    (gammaParams mu s2).1 * ((gammaParams mu s2).2 * (gammaParams mu s2).2) = s2 := by
  simp only [gammaParams]
  constructor <;> field_simp

theorem varQ_nonneg (d : List Rat) : 0 ≤ varQ d := by
  unfold varQ
  apply div_nonneg
  · apply sumQ_nonneg
    intro x hx
    obtain ⟨y, _, rfl⟩ := List.mem_map.mp hx
    exact mul_self_nonneg _
  · exact_mod_cast Nat.zero_le _

/-! ### dict updates (general `set`, `union`) -/

theorem dget_append_of_not_mem {α} (d : Dict α) (k k' : String) (v : α) (h : Dict.contains d k = false) :
    Dict.get? (d ++ [(k, v)]) k' = if k == k' then some v else Dict.get? d k' := by
  induction d with
  | nil => simp [Dict.get?, List.find?]
  | cons p d ih =>
    have hp : (p.1 == k) = false ∧ Dict.contains d k = false := by
      simp only [Dict.contains, List.any_cons, Bool.or_eq_false_iff] at h; exact h
    rw [List.cons_append, dget_cons, dget_cons, ih hp.2]
    by_cases h1 : p.1 = k'
    · have : ¬ k = k' := by
        intro e; subst e; subst h1; simp at hp
      simp [h1, this]
    · simp [h1]

/-- `d[k] = v`: `k` reads `v`, every other key reads as before -/
theorem dget_set {α} (d : Dict α) (k k' : String) (v : α) :
    (d.set k v).get? k' = if k == k' then some v else d.get? k' := by
  by_cases hc : d.contains k = true
  · have : ∃ x, d.get? k = some x := by
      cases hx : d.get? k with
      | some x => exact ⟨x, rfl⟩
      | none =>
        rw [dget_eq_none_iff] at hx
        rw [dcontains_eq] at hc
        exact absurd (List.contains_iff_mem.mp hc) hx
    obtain ⟨x, hx⟩ := this
    exact dget_set_of_mem hx k' v
  · have hc' : d.contains k = false := by simpa using hc
    unfold Dict.set
    rw [if_neg hc]
    exact dget_append_of_not_mem d k k' v hc'

theorem dkeys_set_nodup {α} (d : Dict α) (k : String) (v : α) (h : d.keys.Nodup) : (d.set k v).keys.Nodup := by
  by_cases hc : d.contains k = true
  · have : ∃ x, d.get? k = some x := by
      cases hx : d.get? k with
      | some x => exact ⟨x, rfl⟩
      | none =>
        rw [dget_eq_none_iff] at hx
        rw [dcontains_eq] at hc
        exact absurd (List.contains_iff_mem.mp hc) hx
    obtain ⟨x, hx⟩ := this
    rw [dkeys_set_of_mem hx]; exact h
  · unfold Dict.set
    rw [if_neg hc]
    have hk : k ∉ d.keys := by
      intro hm; apply hc; rw [dcontains_eq]; exact List.contains_iff_mem.mpr hm
    simp only [Dict.keys, List.map_append, List.map_cons, List.map_nil]
    exact List.nodup_append.mpr ⟨h, by simp, by
      intro a ha b hb; simp at hb; subst hb; intro e; subst e; exact hk ha⟩

theorem dkeys_union_nodup {α} (b : Dict α) : ∀ (a : Dict α), a.keys.Nodup → (Dict.union a b).keys.Nodup := by
  induction b with
  | nil => intro a h; simpa [Dict.union] using h
  | cons p b ih =>
    intro a h
    have : Dict.union a (p :: b) = Dict.union (a.set p.1 p.2) b := by simp [Dict.union]
    rw [this]; exact ih _ (dkeys_set_nodup a p.1 p.2 h)

theorem dget_union_not_mem {α} (b : Dict α) : ∀ (a : Dict α) (k : String), k ∉ b.keys →
    (Dict.union a b).get? k = a.get? k := by
  induction b with
  | nil => intro a k _; simp [Dict.union]
  | cons p b ih =>
    intro a k hk
    have : Dict.union a (p :: b) = Dict.union (a.set p.1 p.2) b := by simp [Dict.union]
    simp only [Dict.keys, List.map_cons, List.mem_cons, not_or] at hk
    rw [this, ih _ k hk.2, dget_set]
    have : ¬ p.1 = k := fun e => hk.1 e.symm
    simp [this]

/-- `{**a, **b}[k]` is `b[k]` when `b` has the key -/
theorem dget_union_of_get {α} (b : Dict α) : ∀ (a : Dict α) (k : String) (v : α), b.keys.Nodup →
    b.get? k = some v → (Dict.union a b).get? k = some v := by
  induction b with
  | nil => intro a k v _ h; simp [Dict.get?] at h
  | cons p b ih =>
    intro a k v hn h
    have e : Dict.union a (p :: b) = Dict.union (a.set p.1 p.2) b := by simp [Dict.union]
    simp only [Dict.keys, List.map_cons, List.nodup_cons] at hn
    rw [dget_cons] at h
    rw [e]
    by_cases hp : p.1 = k
    · subst hp
      simp only [beq_self_eq_true, if_true, Option.some.injEq] at h
      rw [dget_union_not_mem b _ _ hn.1, dget_set]; simp [h]
    · have : (p.1 == k) = false := by simpa using hp
      rw [this] at h; simp only [Bool.false_eq_true, if_false] at h
      exact ih _ k v hn.2 h

/-! ### one step of `_develop_triangle_by_atas` on one field -/

theorem developItems_sublist {c : Cell} {tbl : List (String × List Rat)} {pidx : Nat} :
    ∀ {vals its : Dict Val}, developItems c tbl pidx vals = .ok its → its.keys.Sublist vals.keys := by
  intro vals
  induction vals with
  | nil => intro its h; simp [developItems] at h; subst h; exact List.Sublist.refl _
  | cons p rest ih =>
    intro its h
    obtain ⟨f, v⟩ := p
    simp only [developItems] at h
    split at h
    · exact (ih h).cons _
    · split at h
      · cases h
      · split at h
        · cases h
        · split at h
          · cases h
          · cases h
            rename_i r hr
            simp only [Dict.keys, List.map_cons]
            exact (ih hr).cons_cons _

/-- a selected, truthy field receives `previous developed value × the period's resampled factor` -/
theorem developItems_get {c : Cell} {tbl : List (String × List Rat)} {pidx : Nat} {f : String}
    {arr : List Rat} {x : Rat} (htbl : assoc? tbl f = some arr) (htr : truthy (c.values.get? f) = .ok true)
    (hx : arr[pidx]? = some x) :
    ∀ {vals its : Dict Val} {v : Val}, developItems c tbl pidx vals = .ok its → vals.get? f = some v →
      ∃ nv, mulVal v x = .ok nv ∧ its.get? f = some nv := by
  intro vals
  induction vals with
  | nil => intro its v _ hv; simp [Dict.get?] at hv
  | cons p rest ih =>
    intro its v h hv
    obtain ⟨g, w⟩ := p
    rw [dget_cons] at hv
    by_cases hg : g = f
    · subst hg
      simp only [beq_self_eq_true, if_true, Option.some.injEq] at hv
      subst hv
      simp only [developItems, htbl, htr, if_true, hx] at h
      split at h
      · cases h
      · rename_i nv hnv
        split at h
        · cases h
        · cases h
          exact ⟨nv, hnv, by rw [dget_cons]; simp⟩
    · have hgf : (g == f) = false := by simpa using hg
      rw [hgf] at hv; simp only [Bool.false_eq_true, if_false] at hv
      simp only [developItems] at h
      split at h
      · exact ih h hv
      · split at h
        · cases h
        · split at h
          · cases h
          · split at h
            · cases h
            · cases h
              rename_i r hr
              obtain ⟨nv, h1, h2⟩ := ih hr hv
              exact ⟨nv, h1, by rw [dget_cons]; simp only [hgf, Bool.false_eq_true, if_false]; exact h2⟩

/-! ### the loop along one period's row -/

/-- a cell of a row after its first, for the field `f`: not the period's earliest lag, `f` truthy, and `x` is the
entry `resampled_atas[lag][f][period_idx]` -/
def RowCell (t : List Cell) (F : Factors) (f : String) (c : Cell) (x : Rat) : Prop :=
  initialLag t (c.ps, c.pe) ≠ some c.devLag ∧ c.values.keys.Nodup ∧
  truthy (c.values.get? f) = .ok true ∧
  ∃ tbl arr, assoc? F c.devLag = some tbl ∧ assoc? tbl f = some arr ∧
    arr[(periodsOf t).idxOf (c.ps, c.pe)]? = some x

theorem numGet_some {d : Dict Val} {f : String} {a : Rat} (h : numGet d f = some a) :
    ∃ v, d.get? f = some v ∧ ∀ x, mulVal v x = .ok (.flt (a * x)) := by
  unfold numGet at h
  split at h
  · rename_i i hi; cases h; exact ⟨_, hi, fun x => rfl⟩
  · rename_i q hq; cases h; exact ⟨_, hq, fun x => rfl⟩
  · cases h

theorem developLoop_row {t : List Cell} {F : Factors} {f : String} :
    ∀ (row : List Cell) (xs : List Rat), List.Forall₂ (RowCell t F f) row xs →
    ∀ (rest : List Cell) (vals : Dict Val) (a : Rat) (os : List Cell),
      developLoop t F vals (row ++ rest) = .ok os → vals.keys.Nodup → numGet vals f = some a →
      ∃ os1 os2, os = os1 ++ os2 ∧
        List.Forall₂ (fun o y => numGet o.values f = some y) os1 (chainTail a xs) ∧
        ∃ vals', developLoop t F vals' rest = .ok os2 := by
  intro row xs hrow
  induction hrow with
  | nil =>
    intro rest vals a os h _ _
    exact ⟨[], os, rfl, .nil, vals, h⟩
  | @cons c x row' xs' hc _ ih =>
    intro rest vals a os h hnd ha
    obtain ⟨hinit, hcnd, htr, tbl, arr, hF, htbl, hx⟩ := hc
    obtain ⟨v, hv, hmul⟩ := numGet_some ha
    have hinit' : (initialLag t (c.ps, c.pe) == some c.devLag) = false := by
      simpa using hinit
    have hne : vals.isEmpty = false := by
      cases vals with
      | nil => simp [Dict.get?] at hv
      | cons _ _ => rfl
    simp only [List.cons_append, developLoop, hinit', Bool.false_eq_true, if_false, hne, hF] at h
    split at h
    · cases h
    · rename_i its hits
      split at h
      · cases h
      · rename_i r hr
        cases h
        obtain ⟨nv, h1, h2⟩ := developItems_get htbl htr hx hits hv
        rw [hmul x] at h1; cases h1
        have hitsnd : its.keys.Nodup := (developItems_sublist hits).nodup hnd
        have hget : (Dict.union c.values its).get? f = some (.flt (a * x)) :=
          dget_union_of_get its c.values f _ hitsnd h2
        have hnum : numGet (Dict.union c.values its) f = some (a * x) := by
          simp only [numGet, hget]
        obtain ⟨os1, os2, e, hf, hrest⟩ := ih rest _ (a * x) r hr (dkeys_union_nodup its c.values hcnd) hnum
        refine ⟨{ c with values := Dict.union c.values its } :: os1, os2, by rw [e]; rfl, ?_, hrest⟩
        simp only [chainTail]
        exact .cons hnum hf

theorem developLoop_prefix {t : List Cell} {F : Factors} :
    ∀ (pre l : List Cell) (vals : Dict Val) (os : List Cell), developLoop t F vals (pre ++ l) = .ok os →
      ∃ op os', os = op ++ os' ∧ op.length = pre.length ∧ ∃ vals', developLoop t F vals' l = .ok os' := by
  intro pre
  induction pre with
  | nil => intro l vals os h; exact ⟨[], os, rfl, rfl, vals, h⟩
  | cons c pre ih =>
    intro l vals os h
    simp only [List.cons_append, developLoop] at h
    split at h
    · split at h
      · cases h
      · rename_i r hr
        cases h
        obtain ⟨op, os', e, hl, hv⟩ := ih l _ r hr
        exact ⟨c :: op, os', by rw [e]; rfl, by simp [hl], hv⟩
    · split at h
      · cases h
      · split at h
        · cases h
        · rename_i r hr
          cases h
          obtain ⟨op, os', e, hl, hv⟩ := ih l _ r hr
          exact ⟨_ :: op, os', by rw [e]; rfl, by simp [hl], hv⟩

theorem forall₂_getD {α β} {R : α → β → Prop} : ∀ {l : List α} {l' : List β}, List.Forall₂ R l l' →
    ∀ k (h : k < l.length) (h' : k < l'.length), R l[k] l'[k]
  | _, _, .nil, k, h, _ => by simp at h
  | _, _, .cons hh _, 0, _, _ => hh
  | _, _, .cons _ ht, k + 1, h, h' => forall₂_getD ht k (by simpa using h) (by simpa using h')

/-- **the chained product on a canonical triangle**: in the row of a period (first cell `c0`, then `row`), the
`k`-th later cell carries, for a selected truthy field, the first cell's value times the product of the period's
resampled factors up to that lag -/
theorem develop_row_value {t out : List Cell} {F : Factors} {f : String} {pre row rest : List Cell} {c0 : Cell}
    {xs : List Rat} {a : Rat} (h : developByAtas t F = .ok out) (hk : kindsConsistent t = true)
    (hs : t.Pairwise (fun a b => Cell.le a b)) (ht : t = pre ++ c0 :: (row ++ rest))
    (h0 : initialLag t (c0.ps, c0.pe) = some c0.devLag) (hnd : c0.values.keys.Nodup)
    (ha : numGet c0.values f = some a) (hrow : List.Forall₂ (RowCell t F f) row xs) :
    out[pre.length]? = some c0 ∧
    ∀ k, k < xs.length → ∃ o, out[pre.length + 1 + k]? = some o ∧
      numGet o.values f = some (a * prodQ (xs.take (k + 1))) := by
  have hloop := developByAtas_loop h hk hs
  conv at hloop => lhs; arg 4; rw [ht]
  obtain ⟨op, os', e, hl, vals', hv⟩ := developLoop_prefix pre _ _ _ hloop
  have h0' : (initialLag t (c0.ps, c0.pe) == some c0.devLag) = true := by simp [h0]
  simp only [developLoop, h0', if_true] at hv
  split at hv
  · cases hv
  · rename_i r hr
    cases hv
    obtain ⟨os1, os2, e2, hf, _⟩ := developLoop_row row xs hrow rest c0.values a r hr hnd ha
    have hlen : os1.length = xs.length := by
      have := Blend.forall₂_length' hf
      rw [chainTail_length] at this; exact this.symm
    subst e2
    constructor
    · rw [e, List.getElem?_append_right (by omega)]
      simp [hl]
    · intro k hk'
      have hk1 : k < os1.length := by omega
      refine ⟨os1[k], ?_, ?_⟩
      · rw [e, List.getElem?_append_right (by omega)]
        have : pre.length + 1 + k - op.length = k + 1 := by omega
        rw [this, List.getElem?_cons_succ, List.getElem?_append_left hk1, List.getElem?_eq_getElem hk1]
      · have := forall₂_getD hf k hk1 (by rw [chainTail_length]; exact hk')
        rw [this]
        have hg := chainTail_getD a xs k hk'
        rw [List.getD_eq_getElem?_getD, List.getElem?_eq_getElem (by rw [chainTail_length]; exact hk')] at hg
        simpa using congrArg some hg

/-! ### the draws-as-indices model is an instance of the factor-table model -/

theorem mapMExcept_congr_ok {α β} {f g : α → Except Err β} : ∀ {l : List α} {r : List β},
    mapMExcept f l = .ok r → (∀ a ∈ l, ∀ b, f a = .ok b → g a = .ok b) → mapMExcept g l = .ok r := by
  intro l
  induction l with
  | nil => intro r h _; simpa [mapMExcept] using h
  | cons a l ih =>
    intro r h hfg
    obtain ⟨b, bs, hb, hbs, rfl⟩ := mapMExcept_cons_ok h
    simp only [mapMExcept, hfg a (by simp) b hb, ih hbs (fun x hx => hfg x (by simp [hx]))]

theorem replicateD_eq {s : List Cell} {fields : List String} {d : Draws} {i : Nat} {rep : List Cell}
    (h : replicateD s fields d i = .ok rep) : replicate s fields (paramOf s fields d) i = .ok rep := by
  unfold replicateD at h
  by_cases hu : useAtas s = true
  · simp only [hu, if_true] at h
    split at h
    · cases h
    · rename_i F hF
      simp only [replicate, hu, if_true, paramOf, hF] at h ⊢
      exact h
  · simp only [hu, Bool.false_eq_true, if_false] at h
    simp only [replicate, hu, Bool.false_eq_true, if_false, paramOf] at h ⊢
    exact h

theorem bootstrapSliceD_eq {s : List Cell} {n : Nat} {field : Option (List String)} {D : Nat → Draws}
    {reps : List (List Cell)} (h : bootstrapSliceD s n field D = .ok reps) :
    bootstrapSlice s n field (fun i => paramOf s (field.getD (fieldsOf s)) (D i)) = .ok reps :=
  mapMExcept_congr_ok h (fun _ _ _ hb => replicateD_eq hb)

/-- **bridge**: whatever `bootstrapD` returns for index draws `D`, the factor-table model `bootstrap` returns
for the factor tables computed from them — so every structural theorem about `bootstrap` (for EVERY table)
applies to `bootstrapD` -/
theorem bootstrapD_eq {t : List Cell} {n : Int} {field : Option (List String)} {D : Nat → Nat → Draws}
    {reps : List (List Cell)} (h : bootstrapD t n field D = .ok reps) :
    bootstrap t n field (fun k i =>
      paramOf (((Triangle.slices t).map (·.2)).getD k []) (field.getD (fieldsOf (((Triangle.slices t).map (·.2)).getD k [])))
        (D k i)) = .ok reps := by
  unfold bootstrapD at h
  unfold bootstrap
  split at h
  · cases h
  · rename_i hn
    rw [if_neg hn]
    dsimp only at h ⊢
    split at h
    · cases h
    · rename_i boots hboots
      have : mapMExcept (fun x : List Cell × Nat => bootstrapSlice x.1 n.toNat field (fun i =>
          paramOf (((Triangle.slices t).map (·.2)).getD x.2 [])
            (field.getD (fieldsOf (((Triangle.slices t).map (·.2)).getD x.2 []))) (D x.2 i)))
          ((Triangle.slices t).map (·.2)).zipIdx = .ok boots := by
        refine mapMExcept_congr_ok hboots ?_
        rintro ⟨s, k⟩ hm b hb
        have hk : ((Triangle.slices t).map (·.2))[k]? = some s := by
          simpa using List.mem_zipIdx_iff_getElem?.mp hm
        have hs : ((Triangle.slices t).map (·.2)).getD k [] = s := by
          rw [List.getD_eq_getElem?_getD, hk]; rfl
        simp only [hs]
        exact bootstrapSliceD_eq hb
      rw [this]
      exact h

/-! ### identity draws select the empirical table itself -/

theorem mapMExcept_self {α} {f : α → Except Err α} : ∀ {l : List α}, (∀ a ∈ l, f a = .ok a) → mapMExcept f l = .ok l
  | [], _ => rfl
  | a :: l, h => by
    have ih : mapMExcept f l = .ok l := mapMExcept_self (fun x hx => h x (List.mem_cons_of_mem _ hx))
    simp only [mapMExcept, h a (by simp), ih]

theorem assoc?_of_mem_nodup {κ α} [BEq κ] [LawfulBEq κ] : ∀ {l : List (κ × α)} {k : κ} {v : α},
    (l.map (·.1)).Nodup → (k, v) ∈ l → assoc? l k = some v
  | [], _, _, _, h => by simp at h
  | p :: l, k, v, hn, h => by
    simp only [List.map_cons, List.nodup_cons] at hn
    rcases List.mem_cons.mp h with h | h
    · subst h; simp [assoc?]
    · have hne : (p.1 == k) = false := by
        rw [beq_eq_false_iff_ne]
        intro e
        exact hn.1 (List.mem_map.mpr ⟨(k, v), h, e.symm⟩)
      have := assoc?_of_mem_nodup hn.2 h
      simp only [assoc?, List.find?_cons, hne] at this ⊢
      exact this

theorem assoc?_map_snd {κ α β} [BEq κ] (g : κ × α → β) : ∀ (l : List (κ × α)) (k : κ),
    assoc? (l.map fun p => (p.1, g p)) k = (l.find? (·.1 == k)).map g
  | [], _ => rfl
  | p :: l, k => by
    have ih := assoc?_map_snd g l k
    simp only [assoc?, List.map_cons, List.find?_cons] at ih ⊢
    by_cases h : (p.1 == k) = true
    · simp [h]
    · have h' : (p.1 == k) = false := by simpa using h
      simp only [h']
      exact ih

theorem find?_of_mem_nodup {κ α} [BEq κ] [LawfulBEq κ] {l : List (κ × α)} {p : κ × α}
    (hn : (l.map (·.1)).Nodup) (h : p ∈ l) : l.find? (·.1 == p.1) = some p := by
  have := assoc?_of_mem_nodup (l := l.map fun q => (q.1, q)) (k := p.1) (v := p)
    (by rw [List.map_map]; exact hn) (List.mem_map.mpr ⟨p, h, rfl⟩)
  rw [assoc?_map_snd (fun q => q) l p.1] at this
  simpa using this

/-- with the identity draws the resampled table IS the empirical table (distinct lags, distinct field names) -/
theorem resampledAtas_identity' {s : List Cell} {fields : List String} {A : Factors}
    (hA : ataTable s fields = .ok A) (hl : (A.map (·.1)).Nodup) (hf : ∀ lt ∈ A, (lt.2.map (·.1)).Nodup) :
    resampledAtas s fields (identityIdx A) = .ok A := by
  simp only [resampledAtas, hA]
  apply mapMExcept_self
  intro lt hlt
  have hI : assoc? (identityIdx A) lt.1 = some (lt.2.map fun fa => (fa.1, List.range fa.2.length)) := by
    unfold identityIdx
    rw [assoc?_map_snd (fun lt : Rat × List (String × List Rat) => lt.2.map fun fa => (fa.1, List.range fa.2.length)),
      find?_of_mem_nodup hl hlt]
    rfl
  have key : ∀ fa ∈ lt.2, idxOf (identityIdx A) lt.1 fa.1 = List.range fa.2.length := by
    intro fa hfa
    simp only [idxOf, hI]
    rw [assoc?_map_snd (fun fa : String × List Rat => List.range fa.2.length), find?_of_mem_nodup (hf lt hlt) hfa]
    rfl
  split
  · rename_i e he
    rw [mapMExcept_self] at he
    · cases he
    · intro fa hfa; rw [key fa hfa, gatherE_range]
  · rename_i t ht
    rw [mapMExcept_self] at ht
    · cases ht; rfl
    · intro fa hfa; rw [key fa hfa, gatherE_range]

/-! ### the weights handed to `rng.choice` form a probability vector -/

theorem sumQ_map_div (x : List Rat) (S : Rat) : sumQ (x.map fun v => v / S) = sumQ x / S := by
  induction x with
  | nil => simp [sumQ]
  | cons a x ih =>
    simp only [sumQ, List.map_cons, List.foldr_cons] at ih ⊢
    rw [ih]; ring

theorem sumQ_map_const (x : List Rat) (c : Rat) : sumQ (x.map fun _ => c) = (x.length : Rat) * c := by
  induction x with
  | nil => simp [sumQ]
  | cons a x ih =>
    simp only [sumQ, List.map_cons, List.foldr_cons, List.length_cons] at ih ⊢
    rw [ih]; push_cast; ring

theorem normalizeW_spec {x p : List Rat} (h : normalizeW x = .ok p) :
    p.length = x.length ∧ sumQ p = 1 ∧ ((∀ v ∈ x, 0 ≤ v) → ∀ v ∈ p, 0 ≤ v) := by
  unfold normalizeW at h
  split at h
  · split at h
    · cases h
    · rename_i hne
      cases h
      have hpos : (0 : Rat) < x.length := by
        cases x with
        | nil => simp at hne
        | cons _ _ => simp; positivity
      refine ⟨by simp, ?_, ?_⟩
      · rw [sumQ_map_const]; field_simp
      · intro _ v hv
        obtain ⟨_, _, rfl⟩ := List.mem_map.mp hv
        positivity
  · rename_i hS
    cases h
    have hS' : sumQ x ≠ 0 := by simpa using hS
    refine ⟨by simp, ?_, ?_⟩
    · rw [sumQ_map_div]; field_simp
    · intro hx v hv
      obtain ⟨w, hw, rfl⟩ := List.mem_map.mp hv
      have hs := sumQ_nonneg x hx
      exact div_nonneg (hx w hw) hs

end Bermuda.Resample
