/-
Bridges from the structure theorems of `bootstrap` to the executable predicates of `Spec/C17.lean` that look a
replicate's cells up BY COORDINATE (`repCell`): the lookup finds exactly the cell the model paired with the source
cell, provided coordinates in the source are pairwise distinct and the bootstrap tag does not merge two slices.
-/
import Bermuda.Lemmas.ResampleATA
import Bermuda.Lemmas.ResampleSpec
import Bermuda.Spec.C17
namespace Bermuda.Resample
open Bermuda.Spec.C17

/-- the filter predicate of `Spec.C17.repCell` -/
def atCoord (c : Cell) (i : Nat) (o : Cell) : Bool :=
  o.ps == c.ps && o.pe == c.pe && o.ev == c.ev && o.prev == c.prev && o.md == tagMd c.md i

theorem repCell_eq (rep : List Cell) (c : Cell) (i : Nat) :
    repCell rep c i = match rep.filter (atCoord c i) with | [o] => some o | _ => none := rfl

theorem atCoord_tag {c o : Cell} {i : Nat} :
    atCoord c i (tagCell i o) = true ↔
      o.ps = c.ps ∧ o.pe = c.pe ∧ o.ev = c.ev ∧ o.prev = c.prev ∧ tagMd o.md i = tagMd c.md i := by
  simp only [atCoord, tagCell, tagMd, Bool.and_eq_true, beq_iff_eq]
  tauto

/-- the bootstrap tag keeps slices apart -/
def TagInjective (t : List Cell) (i : Nat) : Prop :=
  ∀ c1 ∈ t, ∀ c2 ∈ t, tagMd c1.md i = tagMd c2.md i → c1.md = c2.md

theorem coord_eq_iff {a b : Cell} :
    a.coord = b.coord ↔ a.md = b.md ∧ a.ps = b.ps ∧ a.pe = b.pe ∧ a.ev = b.ev ∧ a.prev = b.prev := by
  simp only [Cell.coord, Coord.mk.injEq]

theorem filter_pairing {R : Cell → Cell → Prop} (hR : ∀ c o, R c o → o.coord = c.coord) {i : Nat} :
    ∀ {t' l : List Cell}, List.Forall₂ R t' l → (t'.map (·.coord)).Nodup → TagInjective t' i →
      ∀ c ∈ t', ∃ o, o ∈ l ∧ R c o ∧ (l.map (tagCell i)).filter (atCoord c i) = [tagCell i o] := by
  intro t' l hf
  induction hf with
  | nil => intro _ _ c hc; simp at hc
  | @cons c0 o0 t'' l'' h0 hrest ih =>
    intro hnd hinj c hc
    simp only [List.map_cons, List.nodup_cons] at hnd
    have hinj' : TagInjective t'' i := fun a ha b hb => hinj a (by simp [ha]) b (by simp [hb])
    have hco0 := coord_eq_iff.mp (hR c0 o0 h0)
    -- a tagged partner of a cell of t'' never sits at the coordinates of a cell with another coordinate
    have miss : ∀ d, d ∈ c0 :: t'' → ∀ c' ∈ c0 :: t'', ∀ o', R c' o' → c'.coord ≠ d.coord →
        atCoord d i (tagCell i o') = false := by
      intro d hd c' hc' o' hr hne
      rw [Bool.eq_false_iff]
      intro hp
      obtain ⟨a1, a2, a3, a4, a5⟩ := atCoord_tag.mp hp
      obtain ⟨b1, b2, b3, b4, b5⟩ := coord_eq_iff.mp (hR c' o' hr)
      apply hne
      rw [coord_eq_iff]
      refine ⟨hinj c' hc' d hd (by rw [← b1]; exact a5), ?_, ?_, ?_, ?_⟩ <;> simp_all
    rcases List.mem_cons.mp hc with rfl | hc'
    · refine ⟨o0, by simp, h0, ?_⟩
      have hhead : atCoord c i (tagCell i o0) = true :=
        atCoord_tag.mpr ⟨hco0.2.1, hco0.2.2.1, hco0.2.2.2.1, hco0.2.2.2.2, by rw [hco0.1]⟩
      simp only [List.map_cons, List.filter_cons, hhead, if_true, List.cons.injEq, true_and]
      rw [List.filter_eq_nil_iff]
      intro x hx
      obtain ⟨o', ho', rfl⟩ := List.mem_map.mp hx
      obtain ⟨c', hc'', hr⟩ := forall₂_mem_right hrest o' ho'
      have hne : c'.coord ≠ c.coord := fun e => hnd.1 (List.mem_map.mpr ⟨c', hc'', e⟩)
      simp [miss c (by simp) c' (by simp [hc'']) o' hr hne]
    · obtain ⟨o, ho, hr, hfil⟩ := ih hnd.2 hinj' c hc'
      refine ⟨o, by simp [ho], hr, ?_⟩
      have hne : c0.coord ≠ c.coord := fun e => hnd.1 (List.mem_map.mpr ⟨c, hc', e.symm⟩)
      have hhead := miss c (by simp [hc']) c0 (by simp) o0 h0 hne
      simp only [List.map_cons, List.filter_cons, hhead, Bool.false_eq_true, if_false]
      exact hfil

/-- **the lookup finds the paired cell** -/
theorem repCell_of_pairing {R : Cell → Cell → Prop} (hR : ∀ c o, R c o → o.coord = c.coord)
    {t t' l rep : List Cell} {i : Nat} (hp : rep.Perm (l.map (tagCell i))) (hf : List.Forall₂ R t' l)
    (ht : t'.Perm t) (hnd : (t.map (·.coord)).Nodup) (hinj : TagInjective t i) :
    ∀ c ∈ t, ∃ o, R c o ∧ repCell rep c i = some (tagCell i o) := by
  intro c hc
  have hnd' : (t'.map (·.coord)).Nodup := ((ht.map _).nodup_iff).mpr hnd
  have hinj' : TagInjective t' i := fun a ha b hb => hinj a (ht.mem_iff.mp ha) b (ht.mem_iff.mp hb)
  obtain ⟨o, _, hr, hfil⟩ := filter_pairing hR hf hnd' hinj' c (ht.mem_iff.mpr hc)
  refine ⟨o, hr, ?_⟩
  have : rep.filter (atCoord c i) = [tagCell i o] := by
    have := hp.filter (atCoord c i)
    rw [hfil] at this
    exact List.perm_singleton.mp this
  rw [repCell_eq, this]

/-- every cell of the source carries every field name of the source -/
def UniformFields (t : List Cell) : Prop := ∀ c ∈ t, ∀ c' ∈ t, ∀ f ∈ c'.values.keys, f ∈ c.values.keys

theorem replicateStructureOk_model {t t' l rep : List Cell} {i : Nat} (hp : rep.Perm (l.map (tagCell i)))
    (hf : List.Forall₂ (PreRel t) t' l) (ht : t'.Perm t) (hnd : (t.map (·.coord)).Nodup)
    (hinj : TagInjective t i) (hU : UniformFields t) : replicateStructureOk t rep i = true := by
  have hlen : rep.length = t.length := by
    rw [hp.length_eq, List.length_map, Blend.forall₂_length' hf, ht.length_eq]
  simp only [replicateStructureOk, hlen, beq_self_eq_true, Bool.true_and, List.all_eq_true]
  intro c hc
  obtain ⟨o, ⟨_, hkind, hsub, hsup⟩, hrep⟩ := repCell_of_pairing (fun _ _ h => h.1) hp hf ht hnd hinj c hc
  rw [hrep]
  simp only [tagCell, sameKeys, Bool.and_eq_true, List.all_eq_true, List.contains_iff_mem, beq_iff_eq]
  refine ⟨hkind, ?_, hsub⟩
  intro f hf'
  obtain ⟨c', hc', hfc'⟩ := hsup f hf'
  exact hU c hc c' hc' f hfc'

/-! ### the earliest cell of every period, through the whole `bootstrap` -/

/-- `PreRel` plus: in an age-to-age slice the earliest development cell of a period is the very same cell -/
def PreRel2 (s : List Cell) (c o : Cell) : Prop :=
  PreRel s c o ∧ (useAtas s = true → initialLag s (c.ps, c.pe) = some c.devLag → o = c)

theorem replicate_pre2 {s rep : List Cell} {fields : List String} {p : RepParam} {i : Nat}
    (h : replicate s fields p i = .ok rep)
    (hk : kindsConsistent s = true) (hs : s.Pairwise (fun a b => Cell.le a b)) :
    ∃ l, rep.Perm (l.map (tagCell i)) ∧ List.Forall₂ (PreRel2 s) s l := by
  unfold replicate at h
  split at h
  · split at h
    · cases h
    · rename_i d hd
      refine ⟨d, tagBootstrap_perm h, ?_⟩
      have hrel := developByAtas_rel hd hk hs
      have hkeys := developLoop_keys (fun f => ∃ c' ∈ s, f ∈ c'.values.keys)
        (developByAtas_loop hd hk hs) (by simp [Dict.keys]) (fun c hc f hf => ⟨c, hc, hf⟩)
      refine Blend.forall₂_imp' ?_ (forall₂_and_mem hrel hkeys)
      rintro c o ⟨⟨h1, h2, h3, its, hits⟩, h4⟩
      refine ⟨⟨h1, h2, ?_, h4⟩, fun _ hinit => h3 hinit⟩
      intro f hf
      rw [hits]
      exact (dmem_keys_union its c.values f).mpr (Or.inl hf)
  · rename_i hu
    obtain ⟨l, hp, hf⟩ := replicate_pre (s := s) (fields := fields) (p := p) (i := i)
      (by unfold replicate; rw [if_neg hu]; exact h) hk hs
    exact ⟨l, hp, Blend.forall₂_imp' (fun _ _ hh => ⟨hh, fun hu' => absurd hu' hu⟩) hf⟩

theorem forall₂_imp_mem {α β} {R S : α → β → Prop} : ∀ {l : List α} {l' : List β},
    List.Forall₂ R l l' → (∀ a ∈ l, ∀ b, R a b → S a b) → List.Forall₂ S l l'
  | _, _, .nil, _ => .nil
  | _, _, .cons h t, hi => .cons (hi _ (by simp) _ h) (forall₂_imp_mem t (fun a ha b => hi a (by simp [ha]) b))

/-- what a replicate may do to a cell of the WHOLE triangle `T` before the tag -/
def BootRel (T : List Cell) (c o : Cell) : Prop :=
  PreRel T c o ∧
  (useAtas (sliceOf T c) = true → initialLag (sliceOf T c) (c.ps, c.pe) = some c.devLag → o = c)

theorem assemble2 {T : List Cell} {i : Nat} : ∀ {ss rs : List (List Cell)},
    List.Forall₂ (fun s r => ∃ l, r.Perm (l.map (tagCell i)) ∧ List.Forall₂ (PreRel2 s) s l) ss rs →
    (∀ s ∈ ss, ∀ c ∈ s, c ∈ T) → (∀ s ∈ ss, ∀ c ∈ s, sliceOf T c = s) →
    ∃ l, rs.flatten.Perm (l.map (tagCell i)) ∧ List.Forall₂ (BootRel T) ss.flatten l := by
  intro ss rs h
  induction h with
  | nil => intro _ _; exact ⟨[], by simp, .nil⟩
  | cons hh _ ih =>
    rename_i s r ss' rs' _
    intro hsub hsl
    obtain ⟨l1, hp1, hf1⟩ := hh
    obtain ⟨l2, hp2, hf2⟩ := ih (fun s' hs' => hsub s' (by simp [hs'])) (fun s' hs' => hsl s' (by simp [hs']))
    refine ⟨l1 ++ l2, ?_, ?_⟩
    · rw [List.flatten_cons, List.map_append]
      exact hp1.append hp2
    · rw [List.flatten_cons]
      refine forall₂_append' (forall₂_imp_mem hf1 ?_) hf2
      rintro c hc o ⟨⟨h1, h2, h3, h4⟩, h5⟩
      refine ⟨⟨h1, h2, h3, fun f hf => ?_⟩, ?_⟩
      · obtain ⟨c', hc', hfc'⟩ := h4 f hf
        exact ⟨c', hsub s (by simp) c' hc', hfc'⟩
      · rw [hsl s (by simp) c hc]; exact h5

theorem slice_is_sliceOf {t : List Cell} (hs : t.Pairwise (fun a b => Cell.le a b)) :
    ∀ s ∈ (Triangle.slices t).map (·.2), ∀ c ∈ s, sliceOf t c = s := by
  intro s hs' c hc
  simp only [Triangle.slices, List.map_map, List.mem_map, Function.comp] at hs'
  obtain ⟨m, _, rfl⟩ := hs'
  have hsorted : (t.filter (·.md == m)).mergeSort Cell.le = t.filter (·.md == m) :=
    List.mergeSort_of_pairwise (hs.filter _)
  rw [hsorted] at hc ⊢
  have hm : c.md = m := by simpa using (List.mem_filter.mp hc).2
  simp only [sliceOf, hm]

theorem sameValues_refl {a : Dict Val} (h : a.keys.Nodup) : sameValues a a = true := by
  simp only [sameValues, sameKeys, Bool.and_eq_true, List.all_eq_true, List.contains_iff_mem, beq_iff_eq]
  refine ⟨⟨fun _ h => h, fun _ h => h⟩, ?_⟩
  rintro ⟨k, v⟩ hkv
  exact dget_of_mem_nodup h hkv

theorem firstCellsUnchanged_model {t t' l rep : List Cell} {i : Nat} (hp : rep.Perm (l.map (tagCell i)))
    (hf : List.Forall₂ (BootRel t) t' l) (ht : t'.Perm t) (hnd : (t.map (·.coord)).Nodup)
    (hinj : TagInjective t i) (hwf : ∀ c ∈ t, c.values.keys.Nodup) :
    firstCellsUnchanged t rep i = true := by
  simp only [firstCellsUnchanged, List.all_eq_true]
  intro c hc
  split
  · rename_i hcond
    simp only [Bool.and_eq_true, beq_iff_eq] at hcond
    obtain ⟨o, ⟨_, hfirst⟩, hrep⟩ := repCell_of_pairing (fun _ _ h => h.1.1) hp hf ht hnd hinj c hc
    rw [hrep, hfirst hcond.1 hcond.2]
    exact sameValues_refl (hwf c hc)
  · rfl

/-- `bootstrap_structure_perm` with the stronger per-cell relation `BootRel` (canonical source) -/
theorem bootstrap_structure_perm2 {t : List Cell} {n : Int} {field : Option (List String)}
    {P : Nat → Nat → RepParam} {reps : List (List Cell)}
    (h : bootstrap t n field P = .ok reps) (hk : kindsConsistent t = true)
    (hs : t.Pairwise (fun a b => Cell.le a b)) :
    ∀ i (hi : i < reps.length), ∃ t' l, t'.Perm t ∧ reps[i].Perm (l.map (tagCell i)) ∧
      List.Forall₂ (BootRel t) t' l := by
  unfold bootstrap at h
  split at h
  · cases h
  · dsimp only at h
    split at h
    · cases h
    · rename_i boots hboots
      have hb2 : ∀ i, i < n.toNat →
          List.Forall₂ (fun s r => ∃ l, r.Perm (l.map (tagCell i)) ∧ List.Forall₂ (PreRel2 s) s l)
            ((Triangle.slices t).map (·.2)) (boots.map (·.getD i [])) := by
        intro i hin
        clear h
        have hb := mapMExcept_forall₂ hboots
        have hprops := slice_props hk
        rw [← List.zipIdx_map_fst 0 ((Triangle.slices t).map (·.2))] at hprops ⊢
        refine forall₂_map_left' (forall₂_map_right' ?_)
        generalize (List.map (fun x => x.2) (Triangle.slices t)).zipIdx = zs at hb hprops
        clear hboots
        induction hb with
        | nil => exact .nil
        | @cons sk b _ _ hh _ ih =>
          refine .cons ?_ (ih (fun s hs => hprops s (by
            simp only [List.map_cons, List.mem_cons]; exact Or.inr hs)))
          obtain ⟨hk', hs', _⟩ := hprops sk.1 (by simp)
          have hbl := mapMExcept_length hh
          simp only [List.length_range] at hbl
          have hib : i < (List.range n.toNat).length := by simpa using hin
          have hr := mapMExcept_getElem hh i hib
          simp only [List.getElem_range] at hr
          have hget : b.getD i [] = b[i]'(by rw [hbl]; exact hin) := by
            simp [List.getD_eq_getElem?_getD, hbl, hin]
          rw [hget]
          exact replicate_pre2 hr hk' hs'
      split at h
      · cases h; intro i hi; simp at hi
      · intro i hi
        have hlen := mapMExcept_length h
        have hi' : i < (List.range n.toNat).length := by rw [← hlen]; exact hi
        have hrep := mapMExcept_getElem h i hi'
        simp only [List.getElem_range] at hrep
        have hin : i < n.toNat := by simpa using hi'
        have hsum := sumTriangles_perm hrep
        obtain ⟨l, hp, hf⟩ := assemble2 (T := t) (hb2 i hin) (fun s hs' => (slice_props hk s hs').2.2)
          (slice_is_sliceOf hs)
        exact ⟨_, l, slices_flatten_perm t, hsum.trans hp, hf⟩

/-! ### a concrete sample triangle for the closed instances of `Properties/C17.lean` -/

def exCell (y : Nat) (d : List Rat) (s : Int) : Cell :=
  { kind := .cumulative, ps := ⟨y, 1, 1⟩, pe := ⟨y, 12, 31⟩, ev := ⟨y, 12, 31⟩, prev := none,
    values := [("earned_premium", .int s), ("paid_loss", .arr false [3] d)], md := default }

/-- two cells, three samples each, one scalar field -/
def exSamples : List Cell := [exCell 2020 [10, 20, 30] 7, exCell 2021 [5, 1, 3] 9]

def exOut : List Cell := exSamples.map fun c =>
  { c with values := c.values.set "paid_loss" (generateSamples ((c.values.get? "paid_loss").getD .none) [1, 2, 3]) }

theorem ex_fields : fieldsOf exSamples = ["earned_premium", "paid_loss"] := by
  have : dedup (exSamples.flatMap (·.values.keys)) = ["earned_premium", "paid_loss"] := by decide +kernel
  rw [fieldsOf, this, sortStrings]
  exact List.mergeSort_of_pairwise (by decide +kernel)


end Bermuda.Resample
