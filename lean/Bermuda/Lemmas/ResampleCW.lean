/-
The centre/width restatement of the maximum-entropy quantile function (`Spec/C17.lean`, `cw*`) equals the model's
`meQuantile` on draws in `[0, 1)`; the two Spec clauses built on it hold on the model's replicate.
-/
import Bermuda.Lemmas.ResampleMESpec
import Bermuda.Lemmas.ResampleBoot
import Mathlib.Data.Rat.Floor
namespace Bermuda.Resample
open Bermuda.Spec.C17

theorem cwCentre_eq {sx : List Rat} {i : Nat} (hi : i < sx.length) : cwCentre sx i = meanAt sx i := by
  unfold cwCentre
  rcases Nat.eq_zero_or_pos i with h | h
  · subst h; rw [meanAt_zero]; simp; ring
  · rcases Nat.lt_or_eq_of_le (Nat.succ_le_of_lt hi) with h' | h'
    · have a : ¬ i = 0 := by omega
      have b : ¬ i + 1 = sx.length := by omega
      rw [meanAt_mid h h']; simp only [a, b, if_false]; ring
    · have a : ¬ i = 0 := by omega
      have b : i + 1 = sx.length := h'
      rw [meanAt_last h b]; simp only [a, b, if_false, if_true]; ring

theorem cwWidth_eq {sx : List Rat} (lo hi : Rat) {i : Nat} (h2 : 2 ≤ sx.length) (hi' : i < sx.length) :
    cwWidth sx lo hi i = zAt sx lo hi (i + 1) - zAt sx lo hi i := by
  unfold cwWidth
  have left : (if i = 0 then lo else (sx.getD (i - 1) 0 + sx.getD i 0) / 2) = zAt sx lo hi i := by
    rcases Nat.eq_zero_or_pos i with h | h
    · subst h; simp [zAt_zero]
    · have a : ¬ i = 0 := by omega
      rw [zAt_mid lo hi h hi']; simp only [a, if_false]
  have right : (if i + 1 = sx.length then hi else (sx.getD i 0 + sx.getD (i + 1) 0) / 2) =
      zAt sx lo hi (i + 1) := by
    by_cases h : i + 1 = sx.length
    · rw [if_pos h, h, zAt_last lo hi (by omega)]
    · rw [if_neg h, zAt_mid lo hi (by omega) (by omega)]; simp
  rw [left, right]

/-- the cell interval of the code, `[z_i + shift_i, z_{i+1} + shift_i]`, is `centre ± width/2` -/
theorem cw_interval {sx : List Rat} (lo hi : Rat) {i : Nat} (h2 : 2 ≤ sx.length) (hi' : i < sx.length) :
    y0At sx lo hi i = cwCentre sx i - cwWidth sx lo hi i / 2 ∧
    y1At sx lo hi i = cwCentre sx i + cwWidth sx lo hi i / 2 := by
  rw [cwCentre_eq hi', cwWidth_eq lo hi h2 hi']
  simp only [y0At, y1At, shiftAt]
  constructor <;> ring

theorem cwCell_eq {n i : Nat} (hn : 0 < n) {u : Rat} (hl : xrAt n i ≤ u) (hu : u < xrAt n (i + 1)) :
    cwCell n u = i := by
  obtain ⟨t0, t1⟩ := frac_range hn hl hu
  have hn' : (n : Rat) ≠ 0 := by positivity
  have e : (u - xrAt n i) * n = u * n - i := by
    unfold xrAt; field_simp
  rw [e] at t0 t1
  have : (u * (n : Rat)).floor = (i : Int) := by
    show ⌊u * (n : Rat)⌋ = (i : Int)
    rw [Int.floor_eq_iff]
    push_cast
    constructor <;> linarith
  simp [cwCell, this]

/-- **the model's quantile function IS the centre/width interpolation** -/
theorem quantileOn_eq_cw {sx : List Rat} (lo hi : Rat) {i : Nat} {u : Rat} (h2 : 2 ≤ sx.length)
    (hi' : i < sx.length) (hl : xrAt sx.length i ≤ u) (hu : u < xrAt sx.length (i + 1)) :
    quantileOn sx lo hi i u = cwValue sx lo hi u := by
  have hn : 0 < sx.length := by omega
  have hn' : (sx.length : Rat) ≠ 0 := by positivity
  obtain ⟨a, b⟩ := cw_interval lo hi h2 hi'
  rw [quantileOn_eq lo hi i u hn, a, b]
  simp only [cwValue, cwCell_eq hn hl hu]
  have e : (u - xrAt sx.length i) * sx.length = u * sx.length - i := by
    unfold xrAt; field_simp
  rw [e]; ring

theorem meQuantile_eq_cw {sx : List Rat} (lo hi : Rat) (h2 : 2 ≤ sx.length) {u : Rat} (h0 : 0 ≤ u)
    (h1 : u < 1) : meQuantile sx lo hi u = .ok (cwValue sx lo hi u) := by
  have hn : 0 < sx.length := by omega
  obtain ⟨i, hi', hl, hu, e⟩ := meQuantile_unit (sx := sx) lo hi hn h0 h1
  rw [e, quantileOn_eq_cw lo hi h2 hi' hl hu]

theorem forall₂_eq_map {α β} {f : α → β} : ∀ {l : List α} {l' : List β},
    List.Forall₂ (fun a b => f a = b) l l' → l' = l.map f
  | _, _, .nil => rfl
  | _, _, .cons h t => by rw [List.map_cons, h, forall₂_eq_map t]

/-- the model's quantile list is the centre/width interpolation of the `n` smallest draws -/
theorem meQuantiles_eq_cw {xs U qs : List Rat} {L : Option (Rat × Rat)} (h : meQuantiles xs U L = .ok qs)
    (h2 : 2 ≤ xs.length) (hU : ∀ u ∈ U, 0 ≤ u ∧ u < 1) :
    qs = ((sortQ U).take xs.length).map (cwValue (sortQ xs) (meLimits xs L).1 (meLimits xs L).2) := by
  have hl : (sortQ xs).length = xs.length := sortQ_length xs
  apply forall₂_eq_map
  refine forall₂_imp_mem (meQuantiles_spec h).2 ?_
  intro u hu q hq
  obtain ⟨u0, u1⟩ := hU u (mem_take_sortQ hu)
  rw [meQuantile_eq_cw _ _ (by rw [hl]; exact h2) u0 u1] at hq
  cases hq; rfl

variable {xs U qs : List Rat} {L : Option (Rat × Rat)} {tol : Rat}

theorem meValueCWOk_model (h : meQuantiles xs U L = .ok qs) (ht : 0 ≤ tol) :
    meValueCWOk xs U L tol (reimposeRank xs qs) = true := by
  have hlen := (meQuantiles_spec h).1
  unfold meValueCWOk
  split
  · rename_i ha
    simp only [meCWApplies, Bool.and_eq_true, decide_eq_true_eq, List.all_eq_true] at ha
    dsimp only
    rw [sortQ_congr (reimposeRank_perm' hlen), ← meQuantiles_eq_cw h ha.1.1 (fun u hu => ha.2 u hu)]
    exact closeLists_refl ht _
  · rfl

theorem meIntervalsCWOk_model (h : meQuantiles xs U L = .ok qs) (hU : ∀ u ∈ U, 0 ≤ u ∧ u < 1) (ht : 0 ≤ tol) :
    meIntervalsCWOk xs L tol (reimposeRank xs qs) = true := by
  have hlen := (meQuantiles_spec h).1
  have hl : (sortQ xs).length = xs.length := sortQ_length xs
  unfold meIntervalsCWOk
  split
  · rename_i h2
    have h2' : 2 ≤ xs.length := by simpa using h2
    simp only [List.all_eq_true, List.any_eq_true, List.mem_map, List.mem_range, Bool.and_eq_true,
      decide_eq_true_eq]
    intro q hq
    obtain ⟨i, hi, hb⟩ := meQuantiles_interval h (by omega) hU q ((reimposeRank_perm' hlen).mem_iff.mp hq)
    obtain ⟨a, b⟩ := cw_interval (sx := sortQ xs) (meLimits xs L).1 (meLimits xs L).2 (by omega)
      (by omega : i < (sortQ xs).length)
    rw [a, b] at hb
    refine ⟨_, ⟨i, hi, rfl⟩, ?_⟩
    dsimp only
    split <;> rcases hb with ⟨c, d⟩ | ⟨c, d⟩ <;> constructor <;> linarith
  · rfl

end Bermuda.Resample
