/-
The value clause `Spec.C17.chainCellOk` holds at every step of the model's development loop.
-/
import Bermuda.Lemmas.ResampleBoot
namespace Bermuda.Resample
open Bermuda.Spec.C17

/-- what `developItems` writes for a field of the previous developed values that is in the table -/
theorem developItems_get_full {c : Cell} {tbl : List (String × List Rat)} {pidx : Nat} {f : String}
    {arr : List Rat} (htbl : assoc? tbl f = some arr) :
    ∀ {vals its : Dict Val} {w : Val}, developItems c tbl pidx vals = .ok its → vals.get? f = some w →
      (truthy (c.values.get? f) = .ok true ∧ ∃ x nv, arr[pidx]? = some x ∧ mulVal w x = .ok nv ∧
          its.get? f = some nv) ∨
      (truthy (c.values.get? f) = .ok false ∧ its.get? f = some .none) := by
  intro vals
  induction vals with
  | nil => intro its w _ hv; simp [Dict.get?] at hv
  | cons p rest ih =>
    intro its w h hv
    obtain ⟨g, u⟩ := p
    rw [dget_cons] at hv
    by_cases hg : g = f
    · subst hg
      simp only [beq_self_eq_true, if_true, Option.some.injEq] at hv
      subst hv
      simp only [developItems, htbl] at h
      split at h
      · cases h
      · rename_i tr htr
        cases tr with
        | true =>
          simp only [if_true] at h
          cases hx : arr[pidx]? with
          | none => rw [hx] at h; simp at h
          | some x =>
            rw [hx] at h
            simp only [] at h
            split at h
            · cases h
            · rename_i nv hnv
              split at h
              · cases h
              · cases h
                exact Or.inl ⟨htr, x, nv, rfl, hnv, by rw [dget_cons]; simp⟩
        | false =>
          simp only [Bool.false_eq_true, if_false] at h
          split at h
          · cases h
          · cases h
            exact Or.inr ⟨htr, by rw [dget_cons]; simp⟩
    · have hgf : (g == f) = false := by simpa using hg
      rw [hgf] at hv; simp only [Bool.false_eq_true, if_false] at hv
      have lift : ∀ {r : Dict Val} {x : Val}, r.get? f = some x → Dict.get? ((g, u) :: r) f = some x := by
        intro r x hr; rw [dget_cons]; simp only [hgf, Bool.false_eq_true, if_false]; exact hr
      simp only [developItems] at h
      split at h
      · exact ih h hv
      · split at h
        · cases h
        · split at h
          · cases h
          · split at h
            · cases h
            · cases h
              rename_i r hr
              rcases ih hr hv with ⟨a, x, nv, b, c', d⟩ | ⟨a, b⟩
              · exact Or.inl ⟨a, x, nv, b, c', by rw [dget_cons]; simp only [hgf, Bool.false_eq_true, if_false]; exact d⟩
              · exact Or.inr ⟨a, by rw [dget_cons]; simp only [hgf, Bool.false_eq_true, if_false]; exact b⟩

/-- only fields of the table are written -/
theorem developItems_keys_tbl {c : Cell} {tbl : List (String × List Rat)} {pidx : Nat} :
    ∀ {vals its : Dict Val}, developItems c tbl pidx vals = .ok its → ∀ f ∈ its.keys, (assoc? tbl f).isSome = true := by
  intro vals
  induction vals with
  | nil => intro its h; simp [developItems] at h; subst h; simp [Dict.keys]
  | cons p rest ih =>
    intro its h
    obtain ⟨g, u⟩ := p
    simp only [developItems] at h
    split at h
    · exact ih h
    · rename_i arr harr
      split at h
      · cases h
      · split at h
        · cases h
        · split at h
          · cases h
          · cases h
            rename_i r hr
            intro f hf
            simp only [Dict.keys, List.map_cons, List.mem_cons] at hf
            rcases hf with rfl | hf
            · simp [harr]
            · exact ih hr f hf

theorem truthy_isFalsy {v : Val} {tr : Bool} (h : truthy (some v) = .ok tr) : isFalsy (some v) = !tr := by
  cases v <;> simp [truthy] at h <;> subst h <;> simp [isFalsy, bne]

theorem mulVal_num {w nv : Val} {x : Rat} (h : mulVal w x = .ok nv) :
    ∃ q, num? (some w) = some q ∧ nv = .flt (q * x) := by
  cases w <;> simp [mulVal] at h <;> subst h
  · exact ⟨_, rfl, rfl⟩
  · exact ⟨_, rfl, rfl⟩

/-- **one step of the loop satisfies the cell clause** -/
theorem chainCellOk_step {F : Factors} {fields : List String} {pidx : Nat} {c : Cell} {vals its : Dict Val}
    {tbl : List (String × List Rat)} (hF : assoc? F c.devLag = some tbl)
    (hT : ∀ f, (assoc? tbl f).isSome = fields.contains f)
    (hits : developItems c tbl pidx vals = .ok its) (hv : vals.keys.Nodup) (hc : c.values.keys.Nodup) :
    chainCellOk F fields pidx c vals { c with values := Dict.union c.values its } = true := by
  have hitsnd : its.keys.Nodup := (developItems_sublist hits).nodup hv
  simp only [chainCellOk, List.all_eq_true]
  rintro ⟨f, v⟩ hfv
  have hcget : c.values.get? f = some v := dget_of_mem_nodup hc hfv
  dsimp only
  split
  · rename_i hcond
    simp only [Bool.and_eq_true] at hcond
    obtain ⟨hfld, hcon⟩ := hcond
    obtain ⟨arr, harr⟩ : ∃ arr, assoc? tbl f = some arr := by
      have := hT f; rw [hfld] at this
      exact Option.isSome_iff_exists.mp this
    obtain ⟨w, hw⟩ : ∃ w, vals.get? f = some w := by
      cases hx : vals.get? f with
      | some w => exact ⟨w, rfl⟩
      | none =>
        rw [dget_eq_none_iff] at hx
        rw [dcontains_eq] at hcon
        exact absurd (List.contains_iff_mem.mp hcon) hx
    rcases developItems_get_full harr hits hw with ⟨htr, x, nv, hx, hmul, hget⟩ | ⟨htr, hget⟩
    · rw [hcget] at htr
      have hfal := truthy_isFalsy htr
      simp only [Bool.not_true] at hfal
      obtain ⟨q, hq, rfl⟩ := mulVal_num hmul
      have ho : (Dict.union c.values its).get? f = some (.flt (q * x)) :=
        dget_union_of_get its c.values f _ hitsnd hget
      have hfac : factorAt F c.devLag f pidx = some x := by simp [factorAt, hF, harr, hx]
      have hq' : num? (vals.get? f) = some q := by rw [hw]; exact hq
      simp only [hfal, ho, hfac, hq', Bool.false_eq_true, if_false]
      simp [num?]
    · rw [hcget] at htr
      have hfal := truthy_isFalsy htr
      simp only [Bool.not_false] at hfal
      have ho : (Dict.union c.values its).get? f = some .none :=
        dget_union_of_get its c.values f _ hitsnd hget
      simp [hfal, ho]
  · rename_i hcond
    have hnot : f ∉ its.keys := by
      intro hmem
      apply hcond
      have h1 := developItems_keys_tbl hits f hmem
      rw [hT f] at h1
      have h2 : vals.contains f = true := by
        rw [dcontains_eq]; exact List.contains_iff_mem.mpr (developItems_keys hits f hmem)
      rw [h1, h2]; rfl
    rw [dget_union_not_mem its c.values f hnot, hcget]
    simp

/-- the loop's outputs, cell after cell: the earliest cell of a period is returned as it is, every other cell
satisfies the cell clause against the values of the developed cell BEFORE it in the list -/
def ChainFrom (t : List Cell) (F : Factors) (fields : List String) : Dict Val → List Cell → List Cell → Prop
  | _, [], [] => True
  | vals, c :: cs, o :: os =>
    (if initialLag t (c.ps, c.pe) = some c.devLag then o = c
     else chainCellOk F fields ((periodsOf t).idxOf (c.ps, c.pe)) c vals o = true) ∧
    ChainFrom t F fields o.values cs os
  | _, _, _ => False

/-- every table of `F` has exactly the selected fields as keys -/
def TableKeys (F : Factors) (fields : List String) : Prop :=
  ∀ lag tbl, assoc? F lag = some tbl → ∀ f, (assoc? tbl f).isSome = fields.contains f

theorem chainCellOk_empty (F : Factors) (fields : List String) (pidx : Nat) (c : Cell)
    (hc : c.values.keys.Nodup) : chainCellOk F fields pidx c [] { c with values := Dict.union c.values [] } = true := by
  simp only [chainCellOk, List.all_eq_true]
  rintro ⟨f, v⟩ hfv
  have : c.values.get? f = some v := dget_of_mem_nodup hc hfv
  simp [Dict.contains, Dict.union, this]

theorem developLoop_chain {t : List Cell} {F : Factors} {fields : List String} (hT : TableKeys F fields) :
    ∀ (cs : List Cell) (vals : Dict Val) (os : List Cell), developLoop t F vals cs = .ok os →
      vals.keys.Nodup → (∀ c ∈ cs, c.values.keys.Nodup) → ChainFrom t F fields vals cs os := by
  intro cs
  induction cs with
  | nil => intro vals os h _ _; simp [developLoop] at h; subst h; trivial
  | cons c cs ih =>
    intro vals os h hv hcs
    have hc := hcs c (by simp)
    have hcs' : ∀ c' ∈ cs, c'.values.keys.Nodup := fun c' h' => hcs c' (by simp [h'])
    simp only [developLoop] at h
    split at h
    · rename_i hinit
      have hinit' : initialLag t (c.ps, c.pe) = some c.devLag := by simpa using hinit
      split at h
      · cases h
      · rename_i r hr
        cases h
        exact ⟨by rw [if_pos hinit'], ih _ _ hr hc hcs'⟩
    · rename_i hinit
      have hinit' : ¬ initialLag t (c.ps, c.pe) = some c.devLag := by simpa using hinit
      by_cases hemp : vals.isEmpty = true
      · have hv0 : vals = [] := by cases vals with | nil => rfl | cons _ _ => simp at hemp
        subst hv0
        simp only [List.isEmpty_nil, if_true] at h
        split at h
        · cases h
        · rename_i r hr
          cases h
          refine ⟨by rw [if_neg hinit']; exact chainCellOk_empty F fields _ c hc, ih _ _ hr ?_ hcs'⟩
          simpa [Dict.union] using hc
      · simp only [hemp, Bool.false_eq_true, if_false] at h
        cases hF : assoc? F c.devLag with
        | none => rw [hF] at h; simp at h
        | some tbl =>
          rw [hF] at h
          simp only [] at h
          split at h
          · cases h
          · rename_i its hits
            split at h
            · cases h
            · rename_i r hr
              cases h
              exact ⟨by rw [if_neg hinit']; exact chainCellOk_step hF (hT _ _ hF) hits hv hc,
                ih _ _ hr (dkeys_union_nodup its c.values hc) hcs'⟩

/-! ### the tables the model resamples have exactly the selected fields as keys -/

theorem mapMExcept_keys {α β κ} {g : α → Except Err β} {ka : α → κ} {kb : β → κ}
    (hg : ∀ a b, g a = .ok b → kb b = ka a) : ∀ {l : List α} {r : List β}, mapMExcept g l = .ok r →
      r.map kb = l.map ka := by
  intro l r h
  have hf := mapMExcept_forall₂ h
  clear h
  induction hf with
  | nil => rfl
  | cons hh _ ih => simp only [List.map_cons, hg _ _ hh, ih]

theorem assoc?_isSome_iff {α} (tbl : List (String × α)) (f : String) :
    (assoc? tbl f).isSome = (tbl.map (·.1)).contains f := by
  induction tbl with
  | nil => rfl
  | cons p tbl ih =>
    simp only [assoc?, List.find?_cons, List.map_cons, List.contains_cons] at ih ⊢
    by_cases h : (p.1 == f) = true
    · have : (f == p.1) = true := by rw [beq_iff_eq] at h ⊢; exact h.symm
      simp [h, this]
    · have h' : (p.1 == f) = false := by simpa using h
      have : (f == p.1) = false := by
        rw [beq_eq_false_iff_ne] at h' ⊢; exact fun e => h' e.symm
      simp only [h', this, Bool.false_or]
      exact ih

theorem assoc?_mem {κ α} [BEq κ] [LawfulBEq κ] {l : List (κ × α)} {k : κ} {v : α} (h : assoc? l k = some v) :
    (k, v) ∈ l := by
  simp only [assoc?, Option.map_eq_some_iff] at h
  obtain ⟨p, hp, rfl⟩ := h
  have := List.find?_some hp
  have hm := List.mem_of_find?_eq_some hp
  rw [beq_iff_eq] at this
  subst this; exact hm

theorem ataTable_keys {s : List Cell} {fields : List String} {A : Factors} (h : ataTable s fields = .ok A) :
    ∀ lt ∈ A, lt.2.map (·.1) = fields := by
  intro lt hlt
  obtain ⟨lp, _, hlp⟩ := forall₂_mem_right (mapMExcept_forall₂ h) lt hlt
  split at hlp
  · cases hlp
  · split at hlp
    · cases hlp
    · rename_i tbl htbl
      cases hlp
      have := mapMExcept_keys (ka := fun f : String => f) (kb := fun p : String × List Rat => p.1)
        (by intro f b hb
            unfold ataColumn at hb
            split at hb
            · cases hb
            · cases hb; rfl) htbl
      simpa using this

theorem resampledAtas_tableKeys {s : List Cell} {fields : List String} {I : IdxTable} {F : Factors}
    (h : resampledAtas s fields I = .ok F) : TableKeys F fields := by
  unfold resampledAtas at h
  split at h
  · cases h
  · rename_i A hA
    intro lag tbl hlt f
    obtain ⟨lt, hltA, hlt'⟩ := forall₂_mem_right (mapMExcept_forall₂ h) (lag, tbl) (assoc?_mem hlt)
    split at hlt'
    · cases hlt'
    · rename_i t ht
      cases hlt'
      have hk := mapMExcept_keys (ka := fun p : String × List Rat => p.1) (kb := fun p : String × List Rat => p.1)
        (by intro a b hb
            split at hb
            · cases hb
            · cases hb; rfl) ht
      rw [assoc?_isSome_iff, hk, ataTable_keys hA lt hltA]

/-! ### the whole clause `chainOkSlice` on the replicate of one slice -/

/-- rows are laid out by development lag: for the cell at position `j`, the cells of its period with a smaller lag
are none when it is the period's earliest cell, and otherwise end with the cell at position `j - 1`
(true of a sorted slice whose evaluation dates order the lags) -/
def RowsByLag (s : List Cell) : Prop :=
  ∀ j (hj : j < s.length),
    (initialLag s (s[j].ps, s[j].pe) = some s[j].devLag →
      (s.filter fun d => (d.ps, d.pe) == (s[j].ps, s[j].pe) && d.devLag < s[j].devLag) = []) ∧
    (initialLag s (s[j].ps, s[j].pe) ≠ some s[j].devLag → ∃ j', j' + 1 = j ∧
      (s.filter fun d => (d.ps, d.pe) == (s[j].ps, s[j].pe) && d.devLag < s[j].devLag).getLast? = s[j']?)

theorem chainFrom_at {t : List Cell} {F : Factors} {fields : List String} :
    ∀ {cs os : List Cell} {vals : Dict Val}, ChainFrom t F fields vals cs os →
      cs.length = os.length ∧
      ∀ j (h1 : j + 1 < cs.length) (h2 : j + 1 < os.length) (h3 : j < os.length),
        initialLag t (cs[j + 1].ps, cs[j + 1].pe) ≠ some cs[j + 1].devLag →
        chainCellOk F fields ((periodsOf t).idxOf (cs[j + 1].ps, cs[j + 1].pe)) cs[j + 1] os[j].values os[j + 1] = true := by
  intro cs
  induction cs with
  | nil =>
    intro os vals h
    cases os with
    | nil => exact ⟨rfl, fun j h1 => by simp at h1⟩
    | cons _ _ => simp [ChainFrom] at h
  | cons c cs ih =>
    intro os vals h
    cases os with
    | nil => simp [ChainFrom] at h
    | cons o os =>
      simp only [ChainFrom] at h
      obtain ⟨_, hrest⟩ := h
      obtain ⟨hlen, hih⟩ := ih hrest
      refine ⟨by simp [hlen], ?_⟩
      intro j h1 h2 h3 hni
      cases j with
      | zero =>
        cases cs with
        | nil => simp at h1
        | cons c1 cs1 =>
          cases os with
          | nil => simp at hlen
          | cons o1 os1 =>
            simp only [ChainFrom] at hrest
            have := hrest.1
            simp only [List.getElem_cons_succ, List.getElem_cons_zero] at hni ⊢
            rw [if_neg hni] at this
            exact this
      | succ j =>
        simp only [List.getElem_cons_succ] at hni ⊢
        exact hih j (by simpa using h1) (by simpa using h2) (by simpa using h3) hni

theorem spec_chain_slice' {s out rep : List Cell} {fields : List String} {I : IdxTable} {F : Factors} {i : Nat}
    (hF : resampledAtas s fields I = .ok F) (h : developByAtas s F = .ok out)
    (hp : rep.Perm (out.map (tagCell i)))
    (hk : kindsConsistent s = true) (hs : s.Pairwise (fun a b => Cell.le a b))
    (hnd : (s.map (·.coord)).Nodup) (hmd : ∀ c ∈ s, ∀ c' ∈ s, c.md = c'.md)
    (hwf : ∀ c ∈ s, c.values.keys.Nodup) (hrows : RowsByLag s) :
    chainOkSlice s rep i fields I = true := by
  have hloop := developByAtas_loop h hk hs
  have hchain := developLoop_chain (resampledAtas_tableKeys hF) s [] out hloop (by simp [Dict.keys]) hwf
  obtain ⟨hlen, hat⟩ := chainFrom_at hchain
  have hrel := developLoop_rel hloop
  -- positional pairing
  let R : Cell → Cell → Prop := fun c o => o.coord = c.coord ∧ ∃ j : Nat, s[j]? = some c ∧ out[j]? = some o
  have hR : List.Forall₂ R s out := by
    rw [List.forall₂_iff_get]
    refine ⟨hlen, fun j h1 h2 => ⟨?_, j, by simp [h1], by simp [h2]⟩⟩
    have := (List.forall₂_iff_get.mp hrel).2 j h1 h2
    exact this.1
  have hinj : TagInjective s i := fun a ha b hb _ => hmd a ha b hb
  have hsnd : s.Nodup := List.Nodup.of_map _ hnd
  have look : ∀ j (hj : j < s.length), repCell rep s[j] i = some (tagCell i (out[j]'(hlen ▸ hj))) := by
    intro j hj
    obtain ⟨o, ⟨_, j', hj1, hj2⟩, hrep⟩ :=
      repCell_of_pairing (R := R) (fun _ _ hh => hh.1) hp hR (List.Perm.refl _) hnd hinj s[j] (List.getElem_mem hj)
    have hj' : j' < s.length := by
      by_contra hc; rw [List.getElem?_eq_none (by omega)] at hj1; cases hj1
    rw [List.getElem?_eq_getElem hj'] at hj1
    have : j' = j := (List.Nodup.getElem_inj_iff hsnd).mp (Option.some.inj hj1)
    subst this
    rw [List.getElem?_eq_getElem (hlen ▸ hj)] at hj2
    rw [hrep, ← Option.some.inj hj2]
  simp only [chainOkSlice, hF, List.all_eq_true]
  intro c hc
  obtain ⟨j, hj, rfl⟩ := List.getElem_of_mem hc
  obtain ⟨hinit, hnon⟩ := hrows j hj
  by_cases hi0 : initialLag s (s[j].ps, s[j].pe) = some s[j].devLag
  · simp [hinit hi0]
  · obtain ⟨j', hjj, hlast⟩ := hnon hi0
    subst hjj
    have hj' : j' < s.length := by omega
    rw [List.getElem?_eq_getElem hj'] at hlast
    simp only [hlast, look (j' + 1) hj, look j' hj']
    exact hat j' hj (hlen ▸ hj) (hlen ▸ hj') hi0

/-- … and on replicate `i` of a slice as `_bootstrap_slice` produces it from numpy's index draws -/
theorem spec_chain_replicate' {s rep : List Cell} {fields : List String} {d : Draws} {i : Nat}
    (h : replicateD s fields d i = .ok rep) (hu : useAtas s = true)
    (hk : kindsConsistent s = true) (hs : s.Pairwise (fun a b => Cell.le a b))
    (hnd : (s.map (·.coord)).Nodup) (hmd : ∀ c ∈ s, ∀ c' ∈ s, c.md = c'.md)
    (hwf : ∀ c ∈ s, c.values.keys.Nodup) (hrows : RowsByLag s) :
    chainOkSlice s rep i fields d.I = true := by
  simp only [replicateD, hu, if_true] at h
  split at h
  · cases h
  · rename_i F hF
    simp only [replicate, hu, if_true] at h
    split at h
    · cases h
    · rename_i out hout
      exact spec_chain_slice' hF hout (tagBootstrap_perm h) hk hs hnd hmd hwf hrows

/-! ### development lags are ordered by the evaluation date -/

theorem Date.cmp_lt_cases {a b : Date} (h : Date.cmp a b = .lt) :
    a.y < b.y ∨ (a.y = b.y ∧ a.m < b.m) ∨ (a.y = b.y ∧ a.m = b.m ∧ a.d < b.d) := by
  simp only [Date.cmp, compareLex, cmpOn] at h
  rcases Int.lt_trichotomy a.y b.y with hy | hy | hy
  · exact Or.inl hy
  · right
    rcases Nat.lt_trichotomy a.m b.m with hm | hm | hm
    · exact Or.inl ⟨hy, hm⟩
    · right
      refine ⟨hy, hm, ?_⟩
      simp only [hy, hm, compare_eq_iff_eq.mpr, Ordering.then] at h
      simpa [compare_lt_iff_lt] using h
    · exfalso
      have : compare a.m b.m = .gt := compare_gt_iff_gt.mpr hm
      simp [hy, this, Ordering.then] at h
  · exfalso
    have : compare a.y b.y = .gt := compare_gt_iff_gt.mpr hy
    simp [this, Ordering.then] at h

theorem monthFraction_range {dt : Date} (hv : dt.valid = true) : 0 < monthFraction dt ∧ monthFraction dt ≤ 1 := by
  simp only [Date.valid, Bool.and_eq_true, decide_eq_true_eq] at hv
  obtain ⟨⟨⟨_, _⟩, h1⟩, h2⟩ := hv
  have hd : (0 : Rat) < dim dt.y dt.m := by exact_mod_cast (by omega : 0 < dim dt.y dt.m)
  unfold monthFraction
  constructor
  · exact div_pos (by exact_mod_cast (by omega : 0 < dt.d)) hd
  · rw [div_le_one hd]; exact_mod_cast h2

/-- **the development lag (months) is strictly increasing in the evaluation date** (valid calendar dates) -/
theorem devLag_strictMono {pe e1 e2 : Date} (v1 : e1.valid = true) (v2 : e2.valid = true)
    (h : Date.cmp e1 e2 = .lt) : calculateDevLag pe e1 .month < calculateDevLag pe e2 .month := by
  obtain ⟨a1, b1⟩ := monthFraction_range v1
  obtain ⟨a2, b2⟩ := monthFraction_range v2
  simp only [Date.valid, Bool.and_eq_true, decide_eq_true_eq] at v1 v2
  simp only [calculateDevLag, devLagMonths]
  rcases Date.cmp_lt_cases h with hy | ⟨hy, hm⟩ | ⟨hy, hm, hd⟩
  · have : (12 * (e1.y - pe.y) + ((e1.m : Int) - (pe.m : Int)) : Int) + 1 ≤
        12 * (e2.y - pe.y) + ((e2.m : Int) - (pe.m : Int)) := by omega
    have hc : ((12 * (e1.y - pe.y) + ((e1.m : Int) - (pe.m : Int)) : Int) : Rat) + 1 ≤
        ((12 * (e2.y - pe.y) + ((e2.m : Int) - (pe.m : Int)) : Int) : Rat) := by exact_mod_cast this
    linarith
  · have : (12 * (e1.y - pe.y) + ((e1.m : Int) - (pe.m : Int)) : Int) + 1 ≤
        12 * (e2.y - pe.y) + ((e2.m : Int) - (pe.m : Int)) := by omega
    have hc : ((12 * (e1.y - pe.y) + ((e1.m : Int) - (pe.m : Int)) : Int) : Rat) + 1 ≤
        ((12 * (e2.y - pe.y) + ((e2.m : Int) - (pe.m : Int)) : Int) : Rat) := by exact_mod_cast this
    linarith
  · have hf : monthFraction e1 < monthFraction e2 := by
      unfold monthFraction
      rw [hy, hm]
      have hdim : (0 : Rat) < dim e2.y e2.m := by
        exact_mod_cast (by omega : 0 < dim e2.y e2.m)
      exact div_lt_div_of_pos_right (by exact_mod_cast hd) hdim
    rw [hy, hm]
    linarith

/-! ### a 2 × 2 age-to-age square for the non-vacuity example of `RowsByLag` -/

def mkSq (y : Nat) (ev : Date) (v : Rat) : Cell :=
  { kind := .cumulative, ps := ⟨y, 1, 1⟩, pe := ⟨y, 12, 31⟩, ev := ev, prev := none,
    values := [("paid_loss", .flt v)], md := default }

def exSquare : List Cell :=
  [mkSq 2020 ⟨2020, 12, 31⟩ 100, mkSq 2020 ⟨2021, 12, 31⟩ 150,
   mkSq 2021 ⟨2021, 12, 31⟩ 80, mkSq 2021 ⟨2022, 12, 31⟩ 160]

end Bermuda.Resample
