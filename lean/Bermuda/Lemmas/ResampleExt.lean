/-
Helper lemmas for `meEnsembleRaw` (guards of `maximum_entropy_ensemble`): on numbers, Python `==` is equality of
the numeric values that `numOf` extracts. Core Lean only.
-/
import Bermuda.Model.ResampleExt
namespace Bermuda.Resample
open Bermuda

theorem numOf_isNum {v : Val} (h : isNum v = true) : ∃ q, numOf v = .ok q := by
  cases v <;> simp [isNum] at h <;> exact ⟨_, rfl⟩

theorem scalarEq_numOf {a b : Val} {p q : Rat} (ha : numOf a = .ok p) (hb : numOf b = .ok q) :
    scalarEq a b = (q == p) := by
  cases a <;> cases b <;> simp [numOf] at ha hb <;> subst ha <;> subst hb <;>
    (simp only [scalarEq]; rw [Bool.eq_iff_iff]; simp only [beq_iff_eq]; exact eq_comm)

theorem all_scalarEq_nums (x : Val) (p : Rat) (hx : numOf x = .ok p) :
    ∀ (rest : List Val) (nums : List Rat), mapMExcept numOf rest = .ok nums →
      rest.all (scalarEq x) = nums.all (fun q => q == p)
  | [], nums, h => by simp [mapMExcept] at h; subst h; rfl
  | v :: rest, nums, h => by
    simp only [mapMExcept] at h
    cases hv : numOf v with
    | error e => rw [hv] at h; simp at h
    | ok q =>
      rw [hv] at h
      cases hr : mapMExcept numOf rest with
      | error e => rw [hr] at h; simp at h
      | ok ns =>
        rw [hr] at h
        simp at h; subst h
        simp only [List.all_cons, all_scalarEq_nums x p hx rest ns hr, scalarEq_numOf hx hv]

theorem mapM_isNum : ∀ (l : List Val), (∀ v ∈ l, isNum v = true) → ∃ ns, mapMExcept numOf l = .ok ns
  | [], _ => ⟨[], rfl⟩
  | v :: l, h => by
    obtain ⟨q, hq⟩ := numOf_isNum (h v (by simp))
    obtain ⟨ns, hns⟩ := mapM_isNum l (fun w hw => h w (by simp [hw]))
    exact ⟨q :: ns, by simp [mapMExcept, hq, hns]⟩

end Bermuda.Resample
