/-
Lemmas about the maximum-entropy quantile construction (`Model/ResampleME.lean`), over ℚ.
-/
import Bermuda.Model.ResampleME
import Bermuda.Lemmas.Resample
import Bermuda.Lemmas.ResampleExt
import Mathlib.Tactic.Linarith
import Mathlib.Tactic.Ring
import Mathlib.Tactic.FieldSimp
import Mathlib.Tactic.Positivity
namespace Bermuda.Resample

/-- ascending, read with `getD` (what `sortQ` delivers) -/
def SortedD (sx : List Rat) : Prop := ∀ a b, a ≤ b → b < sx.length → sx.getD a 0 ≤ sx.getD b 0

theorem sortedD_sortQ (xs : List Rat) : SortedD (sortQ xs) := fun _ _ hab hb => sortQ_mono xs hab hb

/-! ### the index of a draw -/

theorem antitone_down {p : Nat → Bool} (hp : ∀ i, p (i + 1) = true → p i = true) {m : Nat}
    (hm : p m = true) : ∀ i, i ≤ m → p i = true := by
  induction m with
  | zero => intro i hi; have : i = 0 := by omega
            subst this; exact hm
  | succ m ih =>
    intro i hi
    rcases Nat.lt_or_eq_of_le hi with h | h
    · exact ih (hp m hm) i (by omega)
    · subst h; exact hm

theorem countP_range_antitone (p : Nat → Bool) (hp : ∀ i, p (i + 1) = true → p i = true) :
    ∀ m i, i < m → (p i = true ↔ i < (List.range m).countP p) := by
  intro m
  induction m with
  | zero => intro i hi; omega
  | succ m ih =>
    intro i hi
    rw [List.range_succ, List.countP_append]
    have hle : (List.range m).countP p ≤ m := by
      simpa using List.countP_le_length (p := p) (l := List.range m)
    by_cases hm : p m = true
    · have hall : (List.range m).countP p = m := by
        have := List.countP_eq_length (p := p) (l := List.range m) |>.mpr
          (fun a ha => antitone_down hp hm a (by have := List.mem_range.mp ha; omega))
        simpa using this
      have hi' : p i = true := antitone_down hp hm i (by omega)
      simp [hall, hm, hi']
      omega
    · have hm' : p m = false := by simpa using hm
      simp only [List.countP_cons, List.countP_nil, hm', Bool.false_eq_true, if_false, Nat.add_zero]
      rcases Nat.lt_or_eq_of_le (Nat.le_of_lt_succ hi) with h | h
      · exact ih i h
      · subst h
        constructor
        · intro h; rw [hm'] at h; cases h
        · intro h; omega

theorem xrAt_mono {n : Nat} (hn : 0 < n) {i j : Nat} (h : i ≤ j) : xrAt n i ≤ xrAt n j := by
  unfold xrAt
  have hn' : (0 : Rat) < n := by exact_mod_cast hn
  have : (i : Rat) ≤ j := by exact_mod_cast h
  exact div_le_div_of_nonneg_right this hn'.le

theorem xrAt_succ {n : Nat} (hn : 0 < n) (i : Nat) : xrAt n (i + 1) = xrAt n i + 1 / n := by
  unfold xrAt
  have hn' : (n : Rat) ≠ 0 := by positivity
  push_cast
  field_simp

theorem xrAt_zero (n : Nat) : xrAt n 0 = 0 := by simp [xrAt]

theorem xrAt_self {n : Nat} (hn : 0 < n) : xrAt n n = 1 := by
  unfold xrAt
  have hn' : (n : Rat) ≠ 0 := by positivity
  field_simp

/-- a draw in `[0, 1)` falls into exactly one grid interval `[i/n, (i+1)/n)`, `i < n` -/
theorem meIdx_spec {n : Nat} (hn : 0 < n) {u : Rat} (h0 : 0 ≤ u) (h1 : u < 1) :
    ∃ i : Nat, i < n ∧ meIdx n u = (i : Int) ∧ xrAt n i ≤ u ∧ u < xrAt n (i + 1) := by
  let p : Nat → Bool := fun i => decide (xrAt n i ≤ u)
  have hp : ∀ i, p (i + 1) = true → p i = true := by
    intro i h
    simp only [p, decide_eq_true_eq] at h ⊢
    exact le_trans (xrAt_mono hn (Nat.le_succ i)) h
  have key := countP_range_antitone p hp (n + 1)
  set c := (List.range (n + 1)).countP p with hc
  have hc1 : 0 < c := (key 0 (by omega)).mp (by simp [p, xrAt_zero, h0])
  have hcn : ¬ n < c := by
    intro h
    have := (key n (by omega)).mpr h
    simp only [p, decide_eq_true_eq, xrAt_self hn] at this
    exact absurd h1 (not_lt.mpr this)
  refine ⟨c - 1, by omega, ?_, ?_, ?_⟩
  · show (((List.range (n + 1)).countP fun i => decide (xrAt n i ≤ u) : Nat) : Int) - 1 = _
    change ((c : Nat) : Int) - 1 = _
    omega
  · have := (key (c - 1) (by omega)).mpr (by omega)
    simpa [p] using this
  · have hcc : c - 1 + 1 = c := by omega
    rw [hcc]
    have := (key c (by omega)).not.mpr (by omega)
    simpa [p] using this

/-! ### one interval -/

theorem quantileOn_eq {sx : List Rat} (lo hi : Rat) (i : Nat) (u : Rat) (hn : 0 < sx.length) :
    quantileOn sx lo hi i u =
      y0At sx lo hi i + ((u - xrAt sx.length i) * sx.length) * (y1At sx lo hi i - y0At sx lo hi i) := by
  have hn' : (sx.length : Rat) ≠ 0 := by positivity
  simp only [quantileOn]
  rw [xrAt_succ hn]
  field_simp
  ring

theorem width_eq (sx : List Rat) (lo hi : Rat) (i : Nat) :
    y1At sx lo hi i - y0At sx lo hi i = zAt sx lo hi (i + 1) - zAt sx lo hi i := by
  simp only [y1At, y0At]; ring

/-- position of the draw inside its grid interval, in `[0, 1)` -/
theorem frac_range {n : Nat} (hn : 0 < n) {i : Nat} {u : Rat} (hl : xrAt n i ≤ u) (hu : u < xrAt n (i + 1)) :
    0 ≤ (u - xrAt n i) * n ∧ (u - xrAt n i) * n < 1 := by
  have hn' : (0 : Rat) < n := by exact_mod_cast hn
  constructor
  · exact mul_nonneg (by linarith) hn'.le
  · rw [xrAt_succ hn] at hu
    have h1 : u - xrAt n i < 1 / n := by linarith
    have := mul_lt_mul_of_pos_right h1 hn'
    have hne : (n : Rat) ≠ 0 := ne_of_gt hn'
    rwa [one_div, inv_mul_cancel₀ hne] at this

/-- the value at a draw lies between the two ends of the SHIFTED interval, whatever their order -/
theorem quantileOn_between {sx : List Rat} (lo hi : Rat) {i : Nat} {u : Rat} (hn : 0 < sx.length)
    (hl : xrAt sx.length i ≤ u) (hu : u < xrAt sx.length (i + 1)) :
    (y0At sx lo hi i ≤ quantileOn sx lo hi i u ∧ quantileOn sx lo hi i u ≤ y1At sx lo hi i) ∨
    (y1At sx lo hi i ≤ quantileOn sx lo hi i u ∧ quantileOn sx lo hi i u ≤ y0At sx lo hi i) := by
  obtain ⟨t0, t1⟩ := frac_range hn hl hu
  rw [quantileOn_eq lo hi i u hn]
  set t := (u - xrAt sx.length i) * sx.length
  rcases le_total (y0At sx lo hi i) (y1At sx lo hi i) with h | h
  · left
    constructor
    · nlinarith [mul_nonneg t0 (sub_nonneg.mpr h)]
    · nlinarith [mul_nonneg (sub_nonneg.mpr t1.le) (sub_nonneg.mpr h)]
  · right
    constructor
    · nlinarith [mul_nonneg (sub_nonneg.mpr t1.le) (sub_nonneg.mpr h)]
    · nlinarith [mul_nonneg t0 (sub_nonneg.mpr h)]

theorem quantileOn_between_le {sx : List Rat} (lo hi : Rat) {i : Nat} {u : Rat} (hn : 0 < sx.length)
    (hl : xrAt sx.length i ≤ u) (hu : u < xrAt sx.length (i + 1))
    (hz : zAt sx lo hi i ≤ zAt sx lo hi (i + 1)) :
    y0At sx lo hi i ≤ quantileOn sx lo hi i u ∧ quantileOn sx lo hi i u ≤ y1At sx lo hi i := by
  have hw : y0At sx lo hi i ≤ y1At sx lo hi i := by
    have := width_eq sx lo hi i; linarith
  rcases quantileOn_between lo hi hn hl hu with h | h
  · exact h
  · exact ⟨by linarith [h.1, h.2], by linarith [h.1, h.2]⟩

/-- monotone in the draw inside one interval -/
theorem quantileOn_mono {sx : List Rat} (lo hi : Rat) (i : Nat) {u u' : Rat} (hn : 0 < sx.length)
    (huu : u ≤ u') (hz : zAt sx lo hi i ≤ zAt sx lo hi (i + 1)) :
    quantileOn sx lo hi i u ≤ quantileOn sx lo hi i u' := by
  rw [quantileOn_eq lo hi i u hn, quantileOn_eq lo hi i u' hn, width_eq]
  have hn' : (0 : Rat) < sx.length := by exact_mod_cast hn
  have h1 : (u - xrAt sx.length i) * sx.length ≤ (u' - xrAt sx.length i) * sx.length :=
    mul_le_mul_of_nonneg_right (by linarith) hn'.le
  have := mul_le_mul_of_nonneg_right h1 (sub_nonneg.mpr hz)
  linarith

/-! ### closed forms of the shifted interval ends -/

section closed
variable {sx : List Rat} (lo hi : Rat)

theorem zAt_zero : zAt sx lo hi 0 = lo := by simp [zAt]

theorem zAt_last (hn : 0 < sx.length) : zAt sx lo hi sx.length = hi := by
  have h : ¬ sx.length = 0 := by omega
  simp [zAt, h]

theorem zAt_mid {i : Nat} (h0 : 0 < i) (h1 : i < sx.length) :
    zAt sx lo hi i = (sx.getD (i - 1) 0 + sx.getD i 0) / 2 := by
  have h : ¬ i = 0 := by omega
  have h' : ¬ i ≥ sx.length := by omega
  simp only [zAt, h, h', if_false]

theorem meanAt_zero : meanAt sx 0 = 3 / 4 * sx.getD 0 0 + 1 / 4 * sx.getD 1 0 := by simp [meanAt]

theorem meanAt_last {i : Nat} (h0 : 0 < i) (h1 : i + 1 = sx.length) :
    meanAt sx i = 3 / 4 * sx.getD i 0 + 1 / 4 * sx.getD (i - 1) 0 := by
  have h : ¬ i = 0 := by omega
  have h' : i + 1 ≥ sx.length := by omega
  have e1 : sx.length - 1 = i := by omega
  have e2 : sx.length - 2 = i - 1 := by omega
  simp only [meanAt, h, h', if_false, if_true, e1, e2]

theorem meanAt_mid {i : Nat} (h0 : 0 < i) (h1 : i + 1 < sx.length) :
    meanAt sx i = 1 / 4 * sx.getD (i - 1) 0 + 1 / 2 * sx.getD i 0 + 1 / 4 * sx.getD (i + 1) 0 := by
  have h : ¬ i = 0 := by omega
  have h' : ¬ i + 1 ≥ sx.length := by omega
  simp only [meanAt, h, h', if_false]

/-- first interval: `[ (lo + x₀)/2 , (x₀ + x₁)/2 + (x₀ − lo)/2 ]` -/
theorem y_first (h2 : 2 ≤ sx.length) :
    y0At sx lo hi 0 = (lo + sx.getD 0 0) / 2 ∧
    y1At sx lo hi 0 = zAt sx lo hi 1 + (sx.getD 0 0 - lo) / 2 := by
  have z1 := zAt_mid (sx := sx) lo hi (i := 1) (by omega) (by omega)
  simp only [Nat.sub_self] at z1
  simp only [y0At, y1At, shiftAt, meanAt_zero, zAt_zero, z1]
  constructor <;> ring

/-- interior intervals are not shifted: `[z_i, z_{i+1}]` -/
theorem y_mid {i : Nat} (h0 : 0 < i) (h1 : i + 1 < sx.length) :
    y0At sx lo hi i = zAt sx lo hi i ∧ y1At sx lo hi i = zAt sx lo hi (i + 1) := by
  have za := zAt_mid (sx := sx) lo hi (i := i) h0 (by omega)
  have zb := zAt_mid (sx := sx) lo hi (i := i + 1) (by omega) h1
  simp only [Nat.add_sub_cancel] at zb
  simp only [y0At, y1At, shiftAt, meanAt_mid h0 h1, za, zb]
  constructor <;> ring

/-- last interval: `[ z_{n-1} − (hi − x_{n-1})/2 , (x_{n-1} + hi)/2 ]` -/
theorem y_last {i : Nat} (h0 : 0 < i) (h1 : i + 1 = sx.length) :
    y0At sx lo hi i = zAt sx lo hi i - (hi - sx.getD i 0) / 2 ∧
    y1At sx lo hi i = (sx.getD i 0 + hi) / 2 := by
  have za := zAt_mid (sx := sx) lo hi (i := i) h0 (by omega)
  have zb : zAt sx lo hi (i + 1) = hi := by rw [h1]; exact zAt_last lo hi (by omega)
  simp only [y0At, y1At, shiftAt, meanAt_last h0 h1, za, zb]
  constructor <;> ring

end closed

/-! ### ascending interval ends, the envelope -/

section envelope
variable {sx : List Rat} {lo hi : Rat}

/-- with `lo ≤ min x` and `max x ≤ hi` the ends `z_t` ascend -/
theorem zAt_mono_step (hs : SortedD sx) (h2 : 2 ≤ sx.length) (hlo : lo ≤ sx.getD 0 0)
    (hhi : sx.getD (sx.length - 1) 0 ≤ hi) {i : Nat} (hi' : i < sx.length) :
    zAt sx lo hi i ≤ zAt sx lo hi (i + 1) := by
  rcases Nat.eq_zero_or_pos i with h | h
  · subst h
    rw [zAt_zero, zAt_mid lo hi (by omega) (by omega)]
    have := hs 0 1 (by omega) (by omega)
    simp only [Nat.sub_self]
    linarith
  · rcases Nat.lt_or_eq_of_le (Nat.succ_le_of_lt hi') with h' | h'
    · rw [zAt_mid lo hi h (by omega), zAt_mid lo hi (by omega) h']
      simp only [Nat.succ_eq_add_one, Nat.add_sub_cancel] at *
      have := hs (i - 1) (i + 1) (by omega) h'
      linarith
    · have e : i + 1 = sx.length := h'
      rw [e, zAt_last lo hi (by omega), zAt_mid lo hi h hi']
      have e2 : sx.length - 1 = i := by omega
      rw [e2] at hhi
      have := hs (i - 1) i (by omega) hi'
      linarith

/-- every shifted interval lies inside `[meLower, meUpper]` -/
theorem interval_in_envelope (hs : SortedD sx) (h2 : 2 ≤ sx.length) (hlo : lo ≤ sx.getD 0 0)
    (hhi : sx.getD (sx.length - 1) 0 ≤ hi) {i : Nat} (hi' : i < sx.length) :
    meLower sx lo hi ≤ y0At sx lo hi i ∧ y1At sx lo hi i ≤ meUpper sx lo hi := by
  have hL1 : meLower sx lo hi ≤ (lo + sx.getD 0 0) / 2 := by
    unfold meLower; simp only []; split <;> linarith
  have hL2 : meLower sx lo hi ≤ zAt sx lo hi (sx.length - 1) - (hi - sx.getD (sx.length - 1) 0) / 2 := by
    unfold meLower; simp only []; split <;> linarith
  have hU1 : zAt sx lo hi 1 + (sx.getD 0 0 - lo) / 2 ≤ meUpper sx lo hi := by
    unfold meUpper; simp only []; split <;> linarith
  have hU2 : (sx.getD (sx.length - 1) 0 + hi) / 2 ≤ meUpper sx lo hi := by
    unfold meUpper; simp only []; split <;> linarith
  rcases Nat.eq_zero_or_pos i with h | h
  · subst h
    obtain ⟨e0, e1⟩ := y_first (sx := sx) lo hi h2
    rw [e0, e1]; exact ⟨hL1, hU1⟩
  · rcases Nat.lt_or_eq_of_le (Nat.succ_le_of_lt hi') with h' | h'
    · obtain ⟨e0, e1⟩ := y_mid (sx := sx) lo hi h h'
      rw [e0, e1, zAt_mid lo hi h (by omega), zAt_mid lo hi (by omega) h']
      simp only [Nat.succ_eq_add_one, Nat.add_sub_cancel] at *
      have a1 := hs 0 (i - 1) (by omega) (by omega)
      have a2 := hs 0 i (by omega) (by omega)
      have b1 := hs i (sx.length - 1) (by omega) (by omega)
      have b2 := hs (i + 1) (sx.length - 1) (by omega) (by omega)
      constructor <;> linarith
    · have e : i + 1 = sx.length := h'
      have e2 : sx.length - 1 = i := by omega
      obtain ⟨e0, e1⟩ := y_last (sx := sx) lo hi h e
      rw [e0, e1]
      rw [e2] at hL2 hU2
      exact ⟨hL2, hU2⟩

/-- **the envelope**: a draw in `[0,1)` gives a value in `[meLower, meUpper]` -/
theorem quantileOn_envelope (hs : SortedD sx) (h2 : 2 ≤ sx.length) (hlo : lo ≤ sx.getD 0 0)
    (hhi : sx.getD (sx.length - 1) 0 ≤ hi) {i : Nat} (hi' : i < sx.length) {u : Rat}
    (hl : xrAt sx.length i ≤ u) (hu : u < xrAt sx.length (i + 1)) :
    meLower sx lo hi ≤ quantileOn sx lo hi i u ∧ quantileOn sx lo hi i u ≤ meUpper sx lo hi := by
  obtain ⟨a, b⟩ := quantileOn_between_le lo hi (by omega) hl hu (zAt_mono_step hs h2 hlo hhi hi')
  obtain ⟨c, d⟩ := interval_in_envelope hs h2 hlo hhi hi'
  exact ⟨le_trans c a, le_trans b d⟩

/-- when `limitsBind` holds the envelope is inside `[lo, hi]` -/
theorem envelope_in_limits (h : limitsBind sx lo hi = true) :
    lo ≤ meLower sx lo hi ∧ meUpper sx lo hi ≤ hi := by
  simp only [limitsBind, Bool.and_eq_true, decide_eq_true_eq] at h
  obtain ⟨⟨⟨h1, h2⟩, h3⟩, h4⟩ := h
  constructor
  · unfold meLower; simp only []; split <;> linarith
  · unfold meUpper; simp only []; split <;> linarith

/-- across intervals: the upper end of an earlier interval is below the lower end of a later one, unless
the earlier one is the (shifted) first or the later one the (shifted) last -/
theorem y1_le_y0 (hs : SortedD sx) (h2 : 2 ≤ sx.length) (hlo : lo ≤ sx.getD 0 0)
    (hhi : sx.getD (sx.length - 1) 0 ≤ hi) {i j : Nat} (hij : i < j) (hj : j < sx.length)
    (hfirst : 0 < i ∨ lo = sx.getD 0 0) (hlast : j + 1 < sx.length ∨ hi = sx.getD (sx.length - 1) 0) :
    y1At sx lo hi i ≤ y0At sx lo hi j := by
  -- z ascends, so z_{i+1} ≤ z_j
  have zmono : ∀ k, i + 1 + k < sx.length → zAt sx lo hi (i + 1) ≤ zAt sx lo hi (i + 1 + k) := by
    intro k
    induction k with
    | zero => intro _; exact le_refl _
    | succ k ih =>
      intro hk
      exact le_trans (ih (by omega)) (zAt_mono_step hs h2 hlo hhi (i := i + 1 + k) (by omega))
  have hz : zAt sx lo hi (i + 1) ≤ zAt sx lo hi j := by
    have := zmono (j - (i + 1)) (by omega)
    have e : i + 1 + (j - (i + 1)) = j := by omega
    rwa [e] at this
  have hy1 : y1At sx lo hi i ≤ zAt sx lo hi (i + 1) := by
    rcases Nat.eq_zero_or_pos i with h | h
    · subst h
      rcases hfirst with hf | hf
      · omega
      · rw [(y_first (sx := sx) lo hi h2).2, hf]; linarith
    · rw [(y_mid (sx := sx) lo hi h (by omega)).2]
  have hy0 : zAt sx lo hi j ≤ y0At sx lo hi j := by
    rcases Nat.lt_or_eq_of_le (Nat.succ_le_of_lt hj) with h' | h'
    · rw [(y_mid (sx := sx) lo hi (by omega) h').1]
    · have e : j + 1 = sx.length := h'
      rcases hlast with hf | hf
      · omega
      · have e2 : sx.length - 1 = j := by omega
        rw [(y_last (sx := sx) lo hi (by omega) e).1, hf, e2]; linarith
  linarith

end envelope

/-! ### one draw, the list of quantiles -/

theorem meQuantile_unit {sx : List Rat} (lo hi : Rat) (hn : 0 < sx.length) {u : Rat} (h0 : 0 ≤ u) (h1 : u < 1) :
    ∃ i, i < sx.length ∧ xrAt sx.length i ≤ u ∧ u < xrAt sx.length (i + 1) ∧
      meQuantile sx lo hi u = .ok (quantileOn sx lo hi i u) := by
  obtain ⟨i, hi', hidx, hl, hu⟩ := meIdx_spec hn h0 h1
  refine ⟨i, hi', hl, hu, ?_⟩
  have a : ¬ ((i : Int) < 0) := by omega
  have b : ¬ (i ≥ sx.length) := by omega
  simp only [meQuantile, hidx, a, b, if_false, Int.toNat_natCast]

theorem xrAt_lt_imp {n : Nat} (hn : 0 < n) {i j : Nat} (h : xrAt n i < xrAt n j) : i < j := by
  by_contra hc
  exact absurd h (not_lt.mpr (xrAt_mono hn (Nat.le_of_not_lt hc)))

/-- **monotone in the draw** across the whole unit interval, provided no slack is left at the first grid point
(or the smaller draw is past it) and none at the last (or the larger draw is before it) -/
theorem meQuantile_mono {sx : List Rat} {lo hi : Rat} (hs : SortedD sx) (h2 : 2 ≤ sx.length)
    (hlo : lo ≤ sx.getD 0 0) (hhi : sx.getD (sx.length - 1) 0 ≤ hi) {u u' q q' : Rat}
    (h0 : 0 ≤ u) (huu : u ≤ u') (h1 : u' < 1)
    (hfirst : lo = sx.getD 0 0 ∨ xrAt sx.length 1 ≤ u)
    (hlast : hi = sx.getD (sx.length - 1) 0 ∨ u' < xrAt sx.length (sx.length - 1))
    (hq : meQuantile sx lo hi u = .ok q) (hq' : meQuantile sx lo hi u' = .ok q') : q ≤ q' := by
  have hn : 0 < sx.length := by omega
  obtain ⟨i, hi', hl, hu, e⟩ := meQuantile_unit lo hi hn h0 (lt_of_le_of_lt huu h1)
  obtain ⟨j, hj', hl', hu', e'⟩ := meQuantile_unit lo hi hn (le_trans h0 huu) h1
  rw [e] at hq; rw [e'] at hq'
  cases hq; cases hq'
  have hij : i < j + 1 := xrAt_lt_imp hn (lt_of_le_of_lt (le_trans hl huu) hu')
  rcases Nat.lt_or_eq_of_le (Nat.le_of_lt_succ hij) with hlt | heq
  · have a := (quantileOn_between_le lo hi hn hl hu (zAt_mono_step hs h2 hlo hhi hi')).2
    have b := (quantileOn_between_le lo hi hn hl' hu' (zAt_mono_step hs h2 hlo hhi hj')).1
    have c := y1_le_y0 hs h2 hlo hhi hlt hj'
      (by rcases hfirst with h | h
          · exact Or.inr h
          · left
            have := xrAt_lt_imp hn (lt_of_le_of_lt h hu)
            omega)
      (by rcases hlast with h | h
          · exact Or.inr h
          · left
            have := xrAt_lt_imp hn (lt_of_le_of_lt hl' h)
            omega)
    linarith
  · subst heq
    exact quantileOn_mono lo hi i hn huu (zAt_mono_step hs h2 hlo hhi hi')

theorem meQuantiles_spec {xs U : List Rat} {L : Option (Rat × Rat)} {qs : List Rat}
    (h : meQuantiles xs U L = .ok qs) :
    qs.length = xs.length ∧
    List.Forall₂ (fun u q => meQuantile (sortQ xs) (meLimits xs L).1 (meLimits xs L).2 u = .ok q)
      ((sortQ U).take xs.length) qs := by
  simp only [meQuantiles] at h
  split at h
  · cases h
  · split at h
    · cases h
    · rename_i qs' hqs
      split at h
      · cases h
      · rename_i hlen
        cases h
        refine ⟨?_, mapMExcept_forall₂ hqs⟩
        rw [mapMExcept_length hqs, List.length_take]
        omega

theorem mem_take_sortQ {U : List Rat} {n : Nat} {u : Rat} (h : u ∈ (sortQ U).take n) : u ∈ U :=
  (sortQ_perm U).mem_iff.mp (List.mem_of_mem_take h)

/-- every quantile lies in the envelope -/
theorem meQuantiles_envelope {xs U : List Rat} {L : Option (Rat × Rat)} {qs : List Rat}
    (h : meQuantiles xs U L = .ok qs) (h2 : 2 ≤ xs.length) (hU : ∀ u ∈ U, 0 ≤ u ∧ u < 1)
    (hlo : (meLimits xs L).1 ≤ (sortQ xs).getD 0 0)
    (hhi : (sortQ xs).getD (xs.length - 1) 0 ≤ (meLimits xs L).2) :
    ∀ q ∈ qs, meLower (sortQ xs) (meLimits xs L).1 (meLimits xs L).2 ≤ q ∧
      q ≤ meUpper (sortQ xs) (meLimits xs L).1 (meLimits xs L).2 := by
  intro q hq
  obtain ⟨u, hu, e⟩ := forall₂_mem_right (meQuantiles_spec h).2 q hq
  obtain ⟨u0, u1⟩ := hU u (mem_take_sortQ hu)
  have hl : (sortQ xs).length = xs.length := sortQ_length xs
  obtain ⟨i, hi', a, b, e'⟩ := meQuantile_unit (sx := sortQ xs) (meLimits xs L).1 (meLimits xs L).2
    (by omega) u0 u1
  rw [e'] at e; cases e
  exact quantileOn_envelope (sortedD_sortQ xs) (by omega) hlo (by rw [hl]; exact hhi) hi' a b

/-- every quantile lies in one of the `n` shifted intervals (no assumption on the limits) -/
theorem meQuantiles_interval {xs U : List Rat} {L : Option (Rat × Rat)} {qs : List Rat}
    (h : meQuantiles xs U L = .ok qs) (hn : 0 < xs.length) (hU : ∀ u ∈ U, 0 ≤ u ∧ u < 1) :
    ∀ q ∈ qs, ∃ i, i < xs.length ∧
      ((y0At (sortQ xs) (meLimits xs L).1 (meLimits xs L).2 i ≤ q ∧
          q ≤ y1At (sortQ xs) (meLimits xs L).1 (meLimits xs L).2 i) ∨
       (y1At (sortQ xs) (meLimits xs L).1 (meLimits xs L).2 i ≤ q ∧
          q ≤ y0At (sortQ xs) (meLimits xs L).1 (meLimits xs L).2 i)) := by
  intro q hq
  obtain ⟨u, hu, e⟩ := forall₂_mem_right (meQuantiles_spec h).2 q hq
  obtain ⟨u0, u1⟩ := hU u (mem_take_sortQ hu)
  have hl : (sortQ xs).length = xs.length := sortQ_length xs
  obtain ⟨i, hi', a, b, e'⟩ := meQuantile_unit (sx := sortQ xs) (meLimits xs L).1 (meLimits xs L).2
    (by omega) u0 u1
  rw [e'] at e; cases e
  exact ⟨i, by omega, quantileOn_between _ _ (by omega) a b⟩

/-! ### the trimmed-mean limits -/

theorem absDiffs_nonneg : ∀ (l : List Rat), ∀ x ∈ absDiffs l, 0 ≤ x
  | [], x, h => by simp [absDiffs] at h
  | [_], x, h => by simp [absDiffs] at h
  | a :: b :: rest, x, h => by
    simp only [absDiffs, List.mem_cons] at h
    rcases h with h | h
    · subst h; split <;> linarith
    · exact absDiffs_nonneg (b :: rest) x h

theorem sumQ_nonneg : ∀ (l : List Rat), (∀ x ∈ l, 0 ≤ x) → 0 ≤ sumQ l
  | [], _ => by simp [sumQ]
  | a :: l, h => by
    have := sumQ_nonneg l (fun x hx => h x (by simp [hx]))
    have ha := h a (by simp)
    simp only [sumQ, List.foldr_cons] at this ⊢
    linarith

theorem trimMean_nonneg (a : List Rat) (h : ∀ x ∈ a, 0 ≤ x) : 0 ≤ trimMean a := by
  unfold trimMean
  simp only []
  apply div_nonneg
  · apply sumQ_nonneg
    intro x hx
    exact h x ((sortQ_perm a).mem_iff.mp (List.mem_of_mem_drop (List.mem_of_mem_take hx)))
  · exact_mod_cast Nat.zero_le _

/-- without `L`: the limits are `min x - tm`, `max x + tm` with `tm ≥ 0`, and they bind -/
theorem limitsBind_trimmed (xs : List Rat) (h2 : 2 ≤ xs.length) :
    limitsBind (sortQ xs) (meLimits xs none).1 (meLimits xs none).2 = true := by
  have htm := trimMean_nonneg (absDiffs xs) (absDiffs_nonneg xs)
  have hl : (sortQ xs).length = xs.length := sortQ_length xs
  have hs := sortedD_sortQ xs
  have z1 := zAt_mid (sx := sortQ xs) (meLimits xs none).1 (meLimits xs none).2 (i := 1) (by omega) (by omega)
  have zl := zAt_mid (sx := sortQ xs) (meLimits xs none).1 (meLimits xs none).2 (i := xs.length - 1)
    (by omega) (by omega)
  have a1 := hs 0 (xs.length - 1) (by omega) (by omega)
  have a2 := hs 1 (xs.length - 1) (by omega) (by omega)
  have a3 := hs 0 (xs.length - 1 - 1) (by omega) (by omega)
  simp only [Nat.sub_self] at z1
  simp only [limitsBind, hl, z1, zl, Bool.and_eq_true, decide_eq_true_eq]
  simp only [meLimits]
  refine ⟨⟨⟨?_, ?_⟩, ?_⟩, ?_⟩ <;> linarith

/-! ### `bootstrap`'s limits -/

theorem foldMax_spec : ∀ (rest : List Rat) (x : Rat),
    (rest.foldl (fun m y => if y > m then y else m) x) ∈ x :: rest ∧
    ∀ y ∈ x :: rest, y ≤ rest.foldl (fun m y => if y > m then y else m) x
  | [], x => by simp
  | a :: rest, x => by
    simp only [List.foldl_cons]
    obtain ⟨hm, hge⟩ := foldMax_spec rest (if a > x then a else x)
    constructor
    · rcases List.mem_cons.mp hm with h | h
      · rw [h]; split <;> simp
      · simp [h]
    · intro y hy
      have hx := hge (if a > x then a else x) (by simp)
      rcases List.mem_cons.mp hy with h | h
      · subst h
        refine le_trans ?_ hx
        split <;> linarith
      · rcases List.mem_cons.mp h with h | h
        · subst h
          refine le_trans ?_ hx
          split
          · exact le_refl _
          · linarith
        · exact hge y (by simp [h])

theorem getD_mem_of_lt {l : List Rat} {i : Nat} (h : i < l.length) : l.getD i 0 ∈ l := by
  rw [List.getD_eq_getElem?_getD, List.getElem?_eq_getElem h]
  exact List.getElem_mem h

theorem mem_getD {l : List Rat} {y : Rat} (h : y ∈ l) : ∃ i, i < l.length ∧ l.getD i 0 = y := by
  obtain ⟨i, hi, e⟩ := List.getElem_of_mem h
  exact ⟨i, hi, by rw [List.getD_eq_getElem?_getD, List.getElem?_eq_getElem hi]; simpa using e⟩

/-- `max(...)` is the last sorted value -/
theorem bootLimits_snd (xs : List Rat) (hn : 0 < xs.length) :
    (bootLimits xs).2 = (sortQ xs).getD (xs.length - 1) 0 := by
  have hl : (sortQ xs).length = xs.length := sortQ_length xs
  match xs, hn with
  | x :: rest, _ =>
    obtain ⟨hm, hge⟩ := foldMax_spec rest x
    simp only [bootLimits]
    have hlast : (sortQ (x :: rest)).getD ((x :: rest).length - 1) 0 ∈ x :: rest :=
      (sortQ_perm _).mem_iff.mp (getD_mem_of_lt (by rw [hl]; simp))
    apply le_antisymm
    · obtain ⟨i, hi, e⟩ := mem_getD ((sortQ_perm (x :: rest)).mem_iff.mpr hm)
      rw [← e]
      exact sortedD_sortQ (x :: rest) i _ (by rw [hl] at hi; omega) (by rw [hl]; simp)
    · exact hge _ hlast

/-! ### the whole function -/

theorem mapMExcept_cons_ok {α β} {f : α → Except Err β} {a : α} {l : List α} {r : List β}
    (h : mapMExcept f (a :: l) = .ok r) : ∃ b bs, f a = .ok b ∧ mapMExcept f l = .ok bs ∧ r = b :: bs := by
  simp only [mapMExcept] at h
  split at h
  · cases h
  · rename_i b hb
    split at h
    · cases h
    · rename_i bs hbs
      cases h
      exact ⟨b, bs, hb, hbs, rfl⟩

/-- with the quantile list of the model, `maxEntropy` IS the guarded rank re-imposition `meEnsembleRaw`
(to which the structural theorems of the bootstrap refer) -/
theorem maxEntropy_eq_raw' {xs : List Val} {nums qs U : List Rat} {L : Option (Rat × Rat)}
    (hnum : mapMExcept numOf xs = .ok nums) (hq : meQuantiles nums U L = .ok qs) :
    maxEntropy xs U L = meEnsembleRaw xs qs := by
  match xs, hnum with
  | [], _ => rfl
  | [x], _ => rfl
  | x :: y :: rest, hnum =>
    obtain ⟨p, ns, hp, hns, rfl⟩ := mapMExcept_cons_ok hnum
    have hall := all_scalarEq_nums x p hp (y :: rest) ns hns
    have hnone : (x :: y :: rest).any (fun v => v == Val.none) = false := by
      rw [Bool.eq_false_iff]; intro hh
      rw [List.any_eq_true] at hh
      obtain ⟨v, hv, hv2⟩ := hh
      obtain ⟨b, hb⟩ := mapMExcept_ok_of_mem hnum v hv
      simp at hv2; subst hv2; simp [numOf] at hb
    unfold maxEntropy meEnsembleRaw meEnsemble
    by_cases hc : (y :: rest).all (scalarEq x) = true
    · simp only [hc, if_true]
    · have : (p :: ns).all (fun q => q == (p :: ns).headD 0) = false := by
        simp only [List.headD_cons, List.all_cons, beq_self_eq_true, Bool.true_and]
        rw [← hall]; simpa using hc
      simp only [hc, hnone, hnum, hq, this, Bool.false_eq_true, if_false]

/-- for `bootstrap`'s own limits `(0, max x)` the binding condition is exactly: non-negative data and
`x₀ + x₁/2 ≤ max x` for the two smallest values -/
theorem limitsBind_boot_iff (xs : List Rat) (h2 : 2 ≤ xs.length) :
    limitsBind (sortQ xs) 0 (bootLimits xs).2 = true ↔
      0 ≤ (sortQ xs).getD 0 0 ∧ (sortQ xs).getD 0 0 + (sortQ xs).getD 1 0 / 2 ≤ (bootLimits xs).2 := by
  have hmax := bootLimits_snd xs (by omega)
  have hl : (sortQ xs).length = xs.length := sortQ_length xs
  have z1 := zAt_mid (sx := sortQ xs) 0 (bootLimits xs).2 (i := 1) (by omega) (by omega)
  have zl := zAt_mid (sx := sortQ xs) 0 (bootLimits xs).2 (i := xs.length - 1) (by omega) (by omega)
  have s1 := sortedD_sortQ xs 0 (xs.length - 1 - 1) (by omega) (by omega)
  have s2 := sortedD_sortQ xs 0 (xs.length - 1) (by omega) (by omega)
  simp only [Nat.sub_self] at z1
  simp only [limitsBind, hl, z1, zl, Bool.and_eq_true, decide_eq_true_eq]
  rw [hmax]
  constructor
  · rintro ⟨⟨⟨a, _⟩, c⟩, _⟩
    exact ⟨a, by linarith⟩
  · rintro ⟨a, b⟩
    exact ⟨⟨⟨a, le_refl _⟩, by linarith⟩, by linarith⟩

end Bermuda.Resample
