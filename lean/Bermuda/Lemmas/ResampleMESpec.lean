/-
The executable predicates of `Spec/C17.lean` about the maximum-entropy arithmetic hold on the model's output.
-/
import Bermuda.Lemmas.ResampleME
import Bermuda.Lemmas.ResampleSpec
import Bermuda.Spec.C17
namespace Bermuda.Resample
open Bermuda.Spec.C17

theorem closeTo_refl {tol : Rat} (h : 0 ≤ tol) (a : Rat) : closeTo tol a a = true := by
  simp [closeTo, h]

theorem mem_zip_self : ∀ {l : List Rat} {p : Rat × Rat}, p ∈ l.zip l → p.1 = p.2
  | [], _, h => by simp at h
  | a :: l, p, h => by
    simp only [List.zip_cons_cons, List.mem_cons] at h
    rcases h with h | h
    · subst h; rfl
    · exact mem_zip_self h

theorem closeLists_refl {tol : Rat} (h : 0 ≤ tol) (l : List Rat) : closeLists tol l l = true := by
  simp only [closeLists, beq_self_eq_true, Bool.true_and, List.all_eq_true]
  intro p hp
  rw [mem_zip_self hp]; exact closeTo_refl h _

variable {xs U qs : List Rat} {L : Option (Rat × Rat)} {tol : Rat}

theorem meIntervalsOk_model (h : meQuantiles xs U L = .ok qs) (h2 : 2 ≤ xs.length)
    (hU : ∀ u ∈ U, 0 ≤ u ∧ u < 1) (ht : 0 ≤ tol) : meIntervalsOk xs L tol (reimposeRank xs qs) = true := by
  have hl := (meQuantiles_spec h).1
  simp only [meIntervalsOk, List.all_eq_true, List.any_eq_true, List.mem_map, List.mem_range, Bool.or_eq_true,
    Bool.and_eq_true, decide_eq_true_eq]
  intro q hq
  obtain ⟨i, hi, hb⟩ := meQuantiles_interval h (by omega) hU q ((reimposeRank_perm' hl).mem_iff.mp hq)
  refine ⟨_, ⟨i, hi, rfl⟩, ?_⟩
  rcases hb with ⟨a, b⟩ | ⟨a, b⟩
  · left; constructor <;> linarith
  · right; constructor <;> linarith

theorem meEnvelopeOk_model (h : meQuantiles xs U L = .ok qs) (h2 : 2 ≤ xs.length)
    (hU : ∀ u ∈ U, 0 ≤ u ∧ u < 1) (ht : 0 ≤ tol) : meEnvelopeOk xs L tol (reimposeRank xs qs) = true := by
  have hl := (meQuantiles_spec h).1
  simp only [meEnvelopeOk]
  split
  · rename_i hc
    simp only [Bool.and_eq_true, decide_eq_true_eq] at hc
    simp only [List.all_eq_true, Bool.and_eq_true, decide_eq_true_eq]
    intro q hq
    obtain ⟨a, b⟩ := meQuantiles_envelope h h2 hU hc.1 hc.2 q ((reimposeRank_perm' hl).mem_iff.mp hq)
    constructor <;> linarith
  · rfl

theorem meLimitsOk_model (h : meQuantiles xs U L = .ok qs) (h2 : 2 ≤ xs.length)
    (hU : ∀ u ∈ U, 0 ≤ u ∧ u < 1) (ht : 0 ≤ tol) : meLimitsOk xs L tol (reimposeRank xs qs) = true := by
  have hl := (meQuantiles_spec h).1
  simp only [meLimitsOk]
  split
  · rename_i hc
    have hc' := hc
    simp only [limitsBind, Bool.and_eq_true, decide_eq_true_eq] at hc'
    have hsl : (sortQ xs).length = xs.length := sortQ_length xs
    rw [hsl] at hc'
    obtain ⟨c, d⟩ := envelope_in_limits hc
    simp only [List.all_eq_true, Bool.and_eq_true, decide_eq_true_eq]
    intro q hq
    obtain ⟨a, b⟩ := meQuantiles_envelope h h2 hU hc'.1.1.1 hc'.1.1.2 q
      ((reimposeRank_perm' hl).mem_iff.mp hq)
    constructor <;> linarith
  · rfl

theorem mePermOk_model (h : meQuantiles xs U L = .ok qs) (ht : 0 ≤ tol) :
    mePermOk xs U L tol (reimposeRank xs qs) = true := by
  have hl := (meQuantiles_spec h).1
  simp only [mePermOk, h]
  rw [sortQ_congr (reimposeRank_perm' hl)]
  exact closeLists_refl ht _

theorem meValueOk_model (h : meQuantiles xs U L = .ok qs) (ht : 0 ≤ tol) :
    meValueOk xs U L tol (reimposeRank xs qs) = true := by
  simp only [meValueOk, h]
  exact closeLists_refl ht _

end Bermuda.Resample
