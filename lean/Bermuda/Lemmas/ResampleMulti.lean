/-
The chain clause `Spec.C17.chainOkSlice` on the k-th slice of a MULTI-slice replicate of `bootstrapD`:
the summed replicate is (up to order) the concatenation of the slices' replicates, and `repCell` — which filters by
coordinates INCLUDING the tagged metadata — only sees the cells of the slice it is asked about.
-/
import Bermuda.Lemmas.ResampleRows
import Bermuda.Lemmas.ResampleBoot
namespace Bermuda.Resample
open Bermuda.Spec.C17

/-- `repCell` does not depend on the order of the replicate's cells -/
theorem repCell_perm {rep rep' : List Cell} (hp : rep.Perm rep') (c : Cell) (i : Nat) :
    repCell rep c i = repCell rep' c i := by
  rw [repCell_eq, repCell_eq]
  have hf : (rep.filter (atCoord c i)).Perm (rep'.filter (atCoord c i)) := hp.filter _
  generalize rep.filter (atCoord c i) = a at hf
  generalize rep'.filter (atCoord c i) = b at hf
  match a, b, hf with
  | [], b, hf => rw [List.nil_perm.mp hf]
  | [x], b, hf => rw [List.singleton_perm.mp hf]
  | x :: y :: r, b, hf =>
    have hl := hf.length_eq
    match b, hl with
    | _ :: _ :: _, _ => rfl

theorem all_congr_mem {α} {p q : α → Bool} : ∀ {l : List α}, (∀ x ∈ l, p x = q x) → l.all p = l.all q := by
  intro l
  induction l with
  | nil => intro _; rfl
  | cons a l ih =>
    intro h
    rw [List.all_cons, List.all_cons, h a (by simp), ih (fun x hx => h x (by simp [hx]))]

/-- `chainOkSlice` reads the replicate only through `repCell` on cells of the slice -/
theorem chainOkSlice_congr {s rep rep' : List Cell} {i : Nat} {fields : List String} {I : IdxTable}
    (h : ∀ c ∈ s, repCell rep c i = repCell rep' c i) :
    chainOkSlice s rep i fields I = chainOkSlice s rep' i fields I := by
  unfold chainOkSlice
  split
  · rfl
  · refine all_congr_mem ?_
    intro c hc
    have hprev : ∀ p, (s.filter fun d => (d.ps, d.pe) == (c.ps, c.pe) && d.devLag < c.devLag).getLast? = some p →
        p ∈ s := fun p hp => (List.mem_filter.mp (List.mem_of_getLast? hp)).1
    dsimp only
    rw [h c hc]
    cases hl : (s.filter fun d => (d.ps, d.pe) == (c.ps, c.pe) && d.devLag < c.devLag).getLast? with
    | none => rfl
    | some p =>
      cases hr : repCell rep' c i with
      | none => rfl
      | some o => simp only [h p (hprev p hl)]

theorem filter_flatten_single {α} (p : α → Bool) : ∀ (L : List (List α)) (k : Nat) (hk : k < L.length),
    (∀ k' (hk' : k' < L.length), k' ≠ k → ∀ o ∈ L[k'], p o = false) →
    L.flatten.filter p = L[k].filter p := by
  intro L
  induction L with
  | nil => intro k hk; simp at hk
  | cons a L ih =>
    intro k hk h
    rw [List.flatten_cons, List.filter_append]
    cases k with
    | zero =>
      have : L.flatten.filter p = [] := by
        rw [List.filter_eq_nil_iff]
        intro o ho
        obtain ⟨l, hl, hol⟩ := List.mem_flatten.mp ho
        obtain ⟨j, hj, rfl⟩ := List.getElem_of_mem hl
        have := h (j + 1) (by simp; omega) (by omega) o (by simpa using hol)
        simp [this]
      simp [this]
    | succ k =>
      have ha : a.filter p = [] := by
        rw [List.filter_eq_nil_iff]
        intro o ho
        have := h 0 (by simp) (by omega) o (by simpa using ho)
        simp [this]
      rw [ha, List.nil_append, List.getElem_cons_succ]
      exact ih k (by simpa using hk) (fun k' hk' hne o ho =>
        h (k' + 1) (by simp; omega) (by omega) o (by simpa using ho))

/-- the cells of the `k`-th slice carry the `k`-th metadata of `metasOf t` -/
theorem slices_getElem_md {t : List Cell} {k : Nat} (hk : k < ((Triangle.slices t).map (·.2)).length) :
    ∃ hk2 : k < (metasOf t).length,
      ∀ c ∈ ((Triangle.slices t).map (·.2))[k], c.md = (metasOf t)[k] ∧ c ∈ t := by
  have hk2 : k < (metasOf t).length := by simpa [Triangle.slices] using hk
  refine ⟨hk2, ?_⟩
  intro c hc
  simp only [Triangle.slices, List.map_map, List.getElem_map, Function.comp] at hc
  have := List.mem_filter.mp ((List.mergeSort_perm _ _).mem_iff.mp hc)
  exact ⟨by simpa using this.2, this.1⟩

/-- every cell of a slice's replicate carries the tagged metadata of a cell of that slice -/
theorem replicateD_md {s rep : List Cell} {fields : List String} {d : Draws} {i : Nat}
    (h : replicateD s fields d i = .ok rep) (hk : kindsConsistent s = true)
    (hs : s.Pairwise (fun a b => Cell.le a b)) : ∀ o ∈ rep, ∃ c ∈ s, o.md = tagMd c.md i := by
  obtain ⟨l, hp, hf⟩ := replicate_pre (replicateD_eq h) hk hs
  intro o ho
  obtain ⟨o', ho', rfl⟩ := List.mem_map.mp (hp.mem_iff.mp ho)
  obtain ⟨c, hc, hr⟩ := forall₂_mem_right hf o' ho'
  refine ⟨c, hc, ?_⟩
  have := (coord_eq_iff.mp hr.1).1
  simp [tagCell, tagMd, this]

/-- **the k-th slice of a multi-slice replicate.** `repCell` on the summed replicate `reps[i]` of `bootstrapD`, asked
about a cell of the `k`-th slice, finds what it finds in the `k`-th slice's own replicate -/
theorem bootstrapD_slice_repCell {t : List Cell} {n : Int} {field : Option (List String)}
    {D : Nat → Nat → Draws} {reps : List (List Cell)} (h : bootstrapD t n field D = .ok reps)
    (hkc : kindsConsistent t = true) (hinj : ∀ i, TagInjective t i)
    (k : Nat) (hk : k < ((Triangle.slices t).map (·.2)).length) (i : Nat) (hi : i < reps.length) :
    ∃ rep, replicateD ((Triangle.slices t).map (·.2))[k]
        (field.getD (fieldsOf ((Triangle.slices t).map (·.2))[k])) (D k i) i = .ok rep ∧
      ∀ c ∈ ((Triangle.slices t).map (·.2))[k], repCell reps[i] c i = repCell rep c i := by
  unfold bootstrapD at h
  split at h
  · cases h
  · dsimp only at h
    split at h
    · cases h
    · rename_i boots hboots
      generalize hS : (Triangle.slices t).map (·.2) = S at hk hboots h ⊢
      have hprops : ∀ s ∈ S, kindsConsistent s = true ∧ s.Pairwise (fun a b => Cell.le a b) ∧ ∀ c ∈ s, c ∈ t := by
        rw [← hS]; exact slice_props hkc
      have hblen : boots.length = S.length := by simpa using mapMExcept_length hboots
      have hne : boots.isEmpty = false := by
        cases boots with
        | nil => simp at hblen; omega
        | cons _ _ => rfl
      rw [hne] at h
      simp only [Bool.false_eq_true, if_false] at h
      have hlen := mapMExcept_length h
      have hi' : i < (List.range n.toNat).length := by rw [← hlen]; exact hi
      have hin : i < n.toNat := by simpa using hi'
      have hrep := mapMExcept_getElem h i hi'
      simp only [List.getElem_range] at hrep
      have hperm := sumTriangles_perm hrep
      -- each slice's replicate
      have hslice : ∀ k' (hk' : k' < S.length),
          replicateD S[k'] (field.getD (fieldsOf S[k'])) (D k' i) i =
            .ok ((boots.map (·.getD i []))[k']'(by simpa [hblen] using hk')) := by
        intro k' hk'
        have hz : k' < S.zipIdx.length := by simpa using hk'
        have hb := mapMExcept_getElem hboots k' hz
        simp only [List.getElem_zipIdx, Nat.zero_add] at hb
        have hbl := mapMExcept_length hb
        simp only [List.length_range] at hbl
        have hr := mapMExcept_getElem hb i (by simpa using hin)
        simp only [List.getElem_range] at hr
        rw [hr]
        simp [List.getD_eq_getElem?_getD, hbl, hin]
      have hkb : k < (boots.map (·.getD i [])).length := by simpa [hblen] using hk
      refine ⟨(boots.map (·.getD i []))[k], hslice k hk, ?_⟩
      intro c hc
      rw [repCell_perm hperm c i, repCell_eq, repCell_eq,
        filter_flatten_single (atCoord c i) (boots.map (·.getD i [])) k hkb]
      intro k' hk' hne' o ho
      have hk'S : k' < S.length := by simpa [hblen] using hk'
      obtain ⟨hkc', hs', _⟩ := hprops S[k'] (List.getElem_mem hk'S)
      obtain ⟨c', hc', hmd⟩ := replicateD_md (hslice k' hk'S) hkc' hs' o ho
      subst hS
      obtain ⟨hm1, hmd1⟩ := slices_getElem_md hk
      obtain ⟨hm2, hmd2⟩ := slices_getElem_md hk'S
      rw [Bool.eq_false_iff]
      intro hat
      simp only [atCoord, Bool.and_eq_true, beq_iff_eq] at hat
      have hmm : tagMd c'.md i = tagMd c.md i := by rw [← hmd]; exact hat.2
      have := hinj i c' (hmd2 c' hc').2 c (hmd1 c hc).2 hmm
      rw [(hmd2 c' hc').1, (hmd1 c hc).1] at this
      exact hne' ((List.Nodup.getElem_inj_iff (metasOf_nodup t)).mp this)

/-! ### membership of the resampled factors in the empirical column -/

theorem gatherE_mem {arr r : List Rat} {idx : List Nat} (h : gatherE arr idx = .ok r) : ∀ x ∈ r, x ∈ arr := by
  intro x hx
  obtain ⟨j, _, hj⟩ := forall₂_mem_right (mapMExcept_forall₂ h) x hx
  split at hj
  · rename_i y hy
    cases hj
    exact List.mem_of_getElem? hy
  · cases hj

/-- every entry of the resampled table is a member of the model's empirical column `ataTable` for that lag and field -/
theorem resampledAtas_member {s : List Cell} {fields : List String} {I : IdxTable} {F : Factors}
    (hF : resampledAtas s fields I = .ok F) {lag : Rat} {f : String} {pidx : Nat} {r : Rat}
    (h : Spec.C17.factorAt F lag f pidx = some r) :
    ∃ A tbl col, ataTable s fields = .ok A ∧ (lag, tbl) ∈ A ∧ (f, col) ∈ tbl ∧ r ∈ col := by
  unfold resampledAtas at hF
  split at hF
  · cases hF
  · rename_i A hA
    refine ⟨A, ?_⟩
    unfold Spec.C17.factorAt at h
    split at h
    · cases h
    · rename_i tbl' htbl'
      split at h
      · cases h
      · rename_i arr' harr'
        obtain ⟨lt, hlt, hrel⟩ := forall₂_mem_right (mapMExcept_forall₂ hF) _ (assoc?_mem htbl')
        split at hrel
        · cases hrel
        · rename_i t ht
          simp only [Except.ok.injEq, Prod.mk.injEq] at hrel
          obtain ⟨hl, rfl⟩ := hrel
          obtain ⟨fa, hfa, hrel2⟩ := forall₂_mem_right (mapMExcept_forall₂ ht) _ (assoc?_mem harr')
          split at hrel2
          · cases hrel2
          · rename_i g hg
            simp only [Except.ok.injEq, Prod.mk.injEq] at hrel2
            obtain ⟨hf, rfl⟩ := hrel2
            refine ⟨lt.2, fa.2, hA, ?_, ?_, gatherE_mem hg r (List.mem_of_getElem? h)⟩
            · rw [← hl]; exact hlt
            · rw [← hf]; exact hfa
/-! ### a closed instance on which `bootstrapD` SUCCEEDS: the 2 × 2 square `exSquare`, draws `[1, 0]` (the two periods
swap their factors). `List.mergeSort` does not reduce in the kernel, so every sort site is discharged on an input
that is already in order (`List.mergeSort_of_pairwise`, `ofCells_of_sorted`), stage by stage. -/

def exDraws : Nat → Nat → Draws := fun _ _ => { I := [(12, [("paid_loss", [1, 0])])] }
def exF : Factors := [(12, [("paid_loss", [2, 3 / 2])])]
def exDev : List Cell :=
  [mkSq 2020 ⟨2020, 12, 31⟩ 100, mkSq 2020 ⟨2021, 12, 31⟩ 200,
   mkSq 2021 ⟨2021, 12, 31⟩ 80, mkSq 2021 ⟨2022, 12, 31⟩ 120]

theorem ex_sq_sorted : exSquare.Pairwise (fun a b => Cell.le a b) := by decide +kernel
theorem ex_sq_kinds : kindsConsistent exSquare = true := by decide +kernel
theorem ex_sq_slices : (Triangle.slices exSquare).map (·.2) = [exSquare] :=
  slices_single (m := default) (by decide) (by decide +kernel) ex_sq_sorted
theorem ex_sq_fields : fieldsOf exSquare = ["paid_loss"] := by
  have : dedup (exSquare.flatMap (·.values.keys)) = ["paid_loss"] := by decide +kernel
  rw [fieldsOf, this, sortStrings]
  exact List.mergeSort_of_pairwise (by decide +kernel)
theorem ex_sq_periods : periodsOf exSquare = [(⟨2020, 1, 1⟩, ⟨2020, 12, 31⟩), (⟨2021, 1, 1⟩, ⟨2021, 12, 31⟩)] := by
  have : dedup (exSquare.map fun c => (c.ps, c.pe)) =
      [(⟨2020, 1, 1⟩, ⟨2020, 12, 31⟩), (⟨2021, 1, 1⟩, ⟨2021, 12, 31⟩)] := by decide +kernel
  rw [periodsOf, this]
  exact List.mergeSort_of_pairwise (by decide +kernel)
theorem ex_sq_use : useAtas exSquare = true := by
  rw [useAtas, ex_sq_periods]; decide +kernel
theorem ex_sq_lags : sortedLags exSquare = [0, 12] := by
  have : lagsOf exSquare = [0, 12] := by decide +kernel
  rw [sortedLags, this, sortQ]
  exact List.mergeSort_of_pairwise (by decide +kernel)
theorem ex_sq_clip : clipLags exSquare 0 12 = .ok exSquare := by
  have : (exSquare.filter fun c => decide ((0:Rat) ≤ c.devLag) && decide (c.devLag ≤ 12)) = exSquare := by decide +kernel
  rw [clipLags, this]
  exact ofCells_of_sorted ex_sq_kinds ex_sq_sorted
theorem ex_sq_table : ataTable exSquare ["paid_loss"] = .ok [(12, [("paid_loss", [3 / 2, 2])])] := by
  simp only [ataTable, ex_sq_lags, List.tail_cons, List.zip_cons_cons, List.zip_nil_left, mapMExcept, ex_sq_clip]
  decide +kernel
theorem ex_sq_res : resampledAtas exSquare ["paid_loss"] (exDraws 0 0).I = .ok exF := by
  simp only [resampledAtas, ex_sq_table]
  decide +kernel
theorem ex_sq_loop : developLoop exSquare exF [] exSquare = .ok exDev := by
  rw [show developLoop exSquare exF [] exSquare = developLoop exSquare exF []
    [mkSq 2020 ⟨2020, 12, 31⟩ 100, mkSq 2020 ⟨2021, 12, 31⟩ 150,
     mkSq 2021 ⟨2021, 12, 31⟩ 80, mkSq 2021 ⟨2022, 12, 31⟩ 160] from rfl]
  simp only [developLoop, ex_sq_periods]
  decide +kernel
theorem ex_sq_dev : developByAtas exSquare exF = .ok exDev := by
  have hk : kindsConsistent exDev = true := by decide +kernel
  have hs : exDev.Pairwise (fun a b => Cell.le a b) := by decide +kernel
  rw [developByAtas, ex_sq_loop]
  exact ofCells_of_sorted hk hs
theorem ex_sq_tag : tagBootstrap exDev 0 = .ok (exDev.map (tagCell 0)) := by
  have hk : kindsConsistent (exDev.map (tagCell 0)) = true := by decide +kernel
  have hs : (exDev.map (tagCell 0)).Pairwise (fun a b => Cell.le a b) := by decide +kernel
  have hm : exDev.mapM (fun c => ({ c with md := c.md.edit (.detail "bootstrap" (.num ((0 : Nat) : Rat))) }).mk?) =
      .ok (exDev.map (tagCell 0)) := by decide +kernel
  simp only [tagBootstrap, Triangle.deriveMetadata, hm, bind, Except.bind]
  exact ofCells_of_sorted hk hs
theorem ex_sq_rep : replicateD exSquare ["paid_loss"] (exDraws 0 0) 0 = .ok (exDev.map (tagCell 0)) := by
  simp only [replicateD, ex_sq_use, if_true, ex_sq_res, replicate, ex_sq_dev, ex_sq_tag]

/-! ### a closed TWO-slice instance: `exSquare` (default metadata) and the same square under `country = "US"`;
slice 0 swaps its factors (draws `[1, 0]`), slice 1 keeps them (`[0, 1]`) -/

def exMd2 : Metadata := { (default : Metadata) with country := some "US" }
def exSquareB : List Cell := exSquare.map fun c => { c with md := exMd2 }
def exDevB : List Cell := exSquareB
def exTwo : List Cell := exSquare ++ exSquareB
/-- slice 0 swaps the factors, slice 1 keeps them (identity draws) -/
def exDraws2 : Nat → Nat → Draws := fun k _ =>
  if k = 0 then { I := [(12, [("paid_loss", [1, 0])])] } else { I := [(12, [("paid_loss", [0, 1])])] }
def exFB : Factors := [(12, [("paid_loss", [3 / 2, 2])])]

theorem ex_sqB_sorted : exSquareB.Pairwise (fun a b => Cell.le a b) := by decide +kernel
theorem ex_sqB_kinds : kindsConsistent exSquareB = true := by decide +kernel
theorem ex_two_kinds : kindsConsistent exTwo = true := by decide +kernel
theorem ex_two_slices : (Triangle.slices exTwo).map (·.2) = [exSquare, exSquareB] := by
  have hm : metasOf exTwo = [default, exMd2] := by decide +kernel
  have h1 : exTwo.filter (·.md == (default : Metadata)) = exSquare := by decide +kernel
  have h2 : exTwo.filter (·.md == exMd2) = exSquareB := by decide +kernel
  simp only [Triangle.slices, hm, List.map_cons, List.map_nil, h1, h2,
    List.mergeSort_of_pairwise ex_sq_sorted, List.mergeSort_of_pairwise ex_sqB_sorted]
theorem ex_sqB_fields : fieldsOf exSquareB = ["paid_loss"] := by
  have : dedup (exSquareB.flatMap (·.values.keys)) = ["paid_loss"] := by decide +kernel
  rw [fieldsOf, this, sortStrings]
  exact List.mergeSort_of_pairwise (by decide +kernel)
theorem ex_sqB_periods : periodsOf exSquareB = [(⟨2020, 1, 1⟩, ⟨2020, 12, 31⟩), (⟨2021, 1, 1⟩, ⟨2021, 12, 31⟩)] := by
  have : dedup (exSquareB.map fun c => (c.ps, c.pe)) =
      [(⟨2020, 1, 1⟩, ⟨2020, 12, 31⟩), (⟨2021, 1, 1⟩, ⟨2021, 12, 31⟩)] := by decide +kernel
  rw [periodsOf, this]
  exact List.mergeSort_of_pairwise (by decide +kernel)
theorem ex_sqB_use : useAtas exSquareB = true := by
  rw [useAtas, ex_sqB_periods]; decide +kernel
theorem ex_sqB_lags : sortedLags exSquareB = [0, 12] := by
  have : lagsOf exSquareB = [0, 12] := by decide +kernel
  rw [sortedLags, this, sortQ]
  exact List.mergeSort_of_pairwise (by decide +kernel)
theorem ex_sqB_clip : clipLags exSquareB 0 12 = .ok exSquareB := by
  have : (exSquareB.filter fun c => decide ((0:Rat) ≤ c.devLag) && decide (c.devLag ≤ 12)) = exSquareB := by decide +kernel
  rw [clipLags, this]
  exact ofCells_of_sorted ex_sqB_kinds ex_sqB_sorted
theorem ex_sqB_table : ataTable exSquareB ["paid_loss"] = .ok [(12, [("paid_loss", [3 / 2, 2])])] := by
  simp only [ataTable, ex_sqB_lags, List.tail_cons, List.zip_cons_cons, List.zip_nil_left, mapMExcept, ex_sqB_clip]
  decide +kernel
theorem ex_sqB_res : resampledAtas exSquareB ["paid_loss"] (exDraws2 1 0).I = .ok exFB := by
  simp only [resampledAtas, ex_sqB_table]
  decide +kernel
theorem ex_sqB_loop : developLoop exSquareB exFB [] exSquareB = .ok exDevB := by
  rw [show developLoop exSquareB exFB [] exSquareB = developLoop exSquareB exFB []
    [{ mkSq 2020 ⟨2020, 12, 31⟩ 100 with md := exMd2 }, { mkSq 2020 ⟨2021, 12, 31⟩ 150 with md := exMd2 },
     { mkSq 2021 ⟨2021, 12, 31⟩ 80 with md := exMd2 }, { mkSq 2021 ⟨2022, 12, 31⟩ 160 with md := exMd2 }] from rfl]
  simp only [developLoop, ex_sqB_periods]
  decide +kernel
theorem ex_sqB_dev : developByAtas exSquareB exFB = .ok exDevB := by
  rw [developByAtas, ex_sqB_loop]
  exact ofCells_of_sorted ex_sqB_kinds ex_sqB_sorted
theorem ex_sqB_tag : tagBootstrap exDevB 0 = .ok (exDevB.map (tagCell 0)) := by
  have hk : kindsConsistent (exDevB.map (tagCell 0)) = true := by decide +kernel
  have hs : (exDevB.map (tagCell 0)).Pairwise (fun a b => Cell.le a b) := by decide +kernel
  have hm : exDevB.mapM (fun c => ({ c with md := c.md.edit (.detail "bootstrap" (.num ((0 : Nat) : Rat))) }).mk?) =
      .ok (exDevB.map (tagCell 0)) := by decide +kernel
  simp only [tagBootstrap, Triangle.deriveMetadata, hm, bind, Except.bind]
  exact ofCells_of_sorted hk hs
theorem ex_sqB_rep : replicateD exSquareB ["paid_loss"] (exDraws2 1 0) 0 = .ok (exDevB.map (tagCell 0)) := by
  simp only [replicateD, ex_sqB_use, if_true, ex_sqB_res, replicate, ex_sqB_dev, ex_sqB_tag]
theorem ex_sqA_rep2 : replicateD exSquare ["paid_loss"] (exDraws2 0 0) 0 = .ok (exDev.map (tagCell 0)) := ex_sq_rep
theorem ex_two_sum : Triangle.ofCells (exDev.map (tagCell 0) ++ exDevB.map (tagCell 0)) =
    .ok (exDev.map (tagCell 0) ++ exDevB.map (tagCell 0)) :=
  ofCells_of_sorted (by decide +kernel) (by decide +kernel)

theorem ex_two_tagInj : ∀ i, TagInjective exTwo i := by
  intro i c1 h1 c2 h2 h
  have hmd : ∀ c ∈ exTwo, c.md = default ∨ c.md = exMd2 := by decide +kernel
  have hc : ∀ m : Metadata, (Spec.C17.tagMd m i).country = m.country := fun _ => rfl
  have hne : (default : Metadata).country ≠ exMd2.country := by decide +kernel
  have hcc : c1.md.country = c2.md.country := (hc c1.md).symm.trans ((congrArg (·.country) h).trans (hc c2.md))
  rcases hmd c1 h1 with e1 | e1 <;> rcases hmd c2 h2 with e2 | e2 <;> rw [e1, e2] at hcc ⊢
  · exact absurd hcc hne
  · exact absurd hcc.symm hne

theorem ex_sq_layout : SliceLayout exSquare :=
  ⟨ex_sq_sorted, by decide +kernel, by decide +kernel, by decide +kernel⟩
theorem ex_sqB_layout : SliceLayout exSquareB :=
  ⟨ex_sqB_sorted, by decide +kernel, by decide +kernel, by decide +kernel⟩
/-! ### from the chain clause to the clause of `Spec.C17.ataMembershipOk` -/

/-- the chain clause of one cell implies the membership clause of `ataMembershipOk` for that cell, given that the
factors of the table at that lag are among `R f` -/
theorem chainCellOk_membership {F : Factors} {fields : List String} {pidx : Nat} {c o : Cell} {pvals : Dict Val}
    {R : String → List Rat} (hR : ∀ f r, factorAt F c.devLag f pidx = some r → r ∈ R f)
    (h : chainCellOk F fields pidx c pvals o = true) :
    (c.values.all fun (f, v) =>
      if fields.contains f && pvals.contains f then
        if isFalsy (some v) then o.values.get? f == some .none
        else
          match num? (o.values.get? f), num? (pvals.get? f) with
          | some x, some y => (R f).any fun r => x == y * r
          | _, _ => false
      else o.values.get? f == some v) = true := by
  unfold chainCellOk at h
  rw [List.all_eq_true] at h ⊢
  rintro ⟨f, v⟩ hfv
  have := h (f, v) hfv
  dsimp only at this ⊢
  split
  · rename_i hc
    rw [if_pos hc] at this
    split
    · rename_i hfal
      rw [if_pos hfal] at this; exact this
    · rename_i hfal
      rw [if_neg hfal] at this
      split at this
      · rename_i x y r hx hy hr
        rw [hx, hy]
        simp only [List.any_eq_true]
        exact ⟨r, hR f r hr, this⟩
      · cases this
  · rename_i hc
    rw [if_neg hc] at this; exact this

/-- the clause of `Spec.C17.ataMembershipOk` for one cell `c` of an age-to-age slice `s` -/
def ataMembershipCell (s rep : List Cell) (i : Nat) (sel : List String) (c : Cell) : Bool :=
  let row := s.filter fun d => (d.ps, d.pe) == (c.ps, c.pe) && d.devLag < c.devLag
  match row.getLast?, repCell rep c i with
  | none, _ => true
  | _, none => false
  | some prev, some o =>
    match repCell rep prev i with
    | none => false
    | some po =>
      c.values.all fun (f, v) =>
        if sel.contains f && po.values.contains f then
          if isFalsy (some v) then o.values.get? f == some .none
          else
            match num? (o.values.get? f), num? (po.values.get? f) with
            | some x, some y => (ratios s prev.devLag c.devLag f).any fun r => x == y * r
            | _, _ => false
        else o.values.get? f == some v

theorem ataMembershipOk_eq (t rep : List Cell) (i : Nat) (field : Option (List String)) :
    ataMembershipOk t rep i field = t.all fun c =>
      if !useAtas (sliceOf t c) then true
      else ataMembershipCell (sliceOf t c) rep i (field.getD (fieldsOf (sliceOf t c))) c := rfl

/-- the model's empirical column into a lag is contained in the Spec's independent `ratios` from the row
predecessor's lag -/
def ColumnsInRatios (s : List Cell) (fields : List String) (I : IdxTable) : Prop :=
  ∀ F, resampledAtas s fields I = .ok F → ∀ c ∈ s, ∀ prev,
    (s.filter fun d => (d.ps, d.pe) == (c.ps, c.pe) && d.devLag < c.devLag).getLast? = some prev →
    ∀ f r, factorAt F c.devLag f ((periodsOf s).idxOf (c.ps, c.pe)) = some r → r ∈ ratios s prev.devLag c.devLag f

theorem ataMembershipCell_of_chain {s rep : List Cell} {i : Nat} {fields : List String} {I : IdxTable} {F : Factors}
    (hF : resampledAtas s fields I = .ok F) (hchain : chainOkSlice s rep i fields I = true)
    (hcol : ColumnsInRatios s fields I) : ∀ c ∈ s, ataMembershipCell s rep i fields c = true := by
  intro c hc
  simp only [chainOkSlice, hF, List.all_eq_true] at hchain
  have h := hchain c hc
  unfold ataMembershipCell
  dsimp only at h ⊢
  split
  · rfl
  · rename_i hnone hne
    rw [hnone] at h
    cases hl : (s.filter fun d => (d.ps, d.pe) == (c.ps, c.pe) && d.devLag < c.devLag).getLast? with
    | none => exact absurd hl hne
    | some p => rw [hl] at h; exact h
  · rename_i prev o hp ho
    rw [hp, ho] at h
    dsimp only at h
    split
    · rename_i hpo; rw [hpo] at h; exact h
    · rename_i po hpo
      rw [hpo] at h
      exact chainCellOk_membership (fun f r hr => hcol F hF c hc prev hp f r hr) h

theorem replicateD_resampled {s rep : List Cell} {fields : List String} {d : Draws} {i : Nat}
    (h : replicateD s fields d i = .ok rep) (hu : useAtas s = true) : ∃ F, resampledAtas s fields d.I = .ok F := by
  simp only [replicateD, hu, if_true] at h
  split at h
  · cases h
  · rename_i F hF; exact ⟨F, hF⟩

theorem ataMembershipOk_bootstrapD {t : List Cell} {n : Int} {field : Option (List String)}
    {D : Nat → Nat → Draws} {reps : List (List Cell)} (h : bootstrapD t n field D = .ok reps)
    (hk : kindsConsistent t = true) (hs : t.Pairwise (fun a b => Cell.le a b)) (hinj : ∀ i, TagInjective t i)
    (hlay : ∀ s ∈ (Triangle.slices t).map (·.2), useAtas s = true →
      SliceLayout s ∧ ∀ c ∈ s, c.values.keys.Nodup)
    (hcol : ∀ k (hks : k < ((Triangle.slices t).map (·.2)).length) i,
      ColumnsInRatios ((Triangle.slices t).map (·.2))[k]
        (field.getD (fieldsOf ((Triangle.slices t).map (·.2))[k])) (D k i).I) :
    ∀ i (hi : i < reps.length), ataMembershipOk t reps[i] i field = true := by
  intro i hi
  rw [ataMembershipOk_eq, List.all_eq_true]
  intro c hc
  obtain ⟨s, hsS, hcs⟩ := List.mem_flatten.mp ((slices_flatten_perm t).mem_iff.mpr hc)
  obtain ⟨k, hks, rfl⟩ := List.getElem_of_mem hsS
  rw [slice_is_sliceOf hs _ hsS c hcs]
  by_cases hu : useAtas ((Triangle.slices t).map (·.2))[k] = true
  · simp only [hu, Bool.not_true, Bool.false_eq_true, if_false]
    obtain ⟨H, hwf⟩ := hlay _ hsS hu
    obtain ⟨rep, hrep, hcell⟩ := bootstrapD_slice_repCell h hk hinj k hks i hi
    obtain ⟨F, hF⟩ := replicateD_resampled hrep hu
    have hchain : chainOkSlice ((Triangle.slices t).map (·.2))[k] reps[i] i
        (field.getD (fieldsOf ((Triangle.slices t).map (·.2))[k])) (D k i).I = true := by
      rw [chainOkSlice_congr hcell]
      exact spec_chain_replicate' hrep hu (slice_props hk _ hsS).1 H.sorted (coords_nodup_of_layout H) H.oneMd hwf
        (rowsByLag_of_layout H)
    exact ataMembershipCell_of_chain hF hchain (hcol k hks i) c hcs
  · rw [Bool.not_eq_true] at hu
    rw [hu]; rfl
/-! `ColumnsInRatios` is satisfiable: it holds on the closed instance -/

theorem ex_sq_ratios : ratios exSquare 0 12 "paid_loss" = [3 / 2, 2] := by
  simp only [ratios, ex_sq_periods]
  decide +kernel
theorem ex_sq_columns : ColumnsInRatios exSquare ["paid_loss"] (exDraws 0 0).I := by
  intro F hF c hc prev hp f r hr
  rw [ex_sq_res] at hF
  cases hF
  have hmem : ∀ lag f pidx r, factorAt exF lag f pidx = some r → lag = 12 ∧ f = "paid_loss" ∧ (r = 2 ∨ r = 3 / 2) := by
    intro lag f pidx r h
    unfold factorAt at h
    split at h
    · cases h
    · rename_i tbl ht
      have h1 := assoc?_mem ht
      simp only [exF, List.mem_cons, Prod.mk.injEq, List.not_mem_nil, or_false] at h1
      obtain ⟨rfl, rfl⟩ := h1
      split at h
      · cases h
      · rename_i arr ha
        have h2 := assoc?_mem ha
        simp only [List.mem_cons, Prod.mk.injEq, List.not_mem_nil, or_false] at h2
        obtain ⟨rfl, rfl⟩ := h2
        have := List.mem_of_getElem? h
        simp only [List.mem_cons, List.not_mem_nil, or_false] at this
        exact ⟨rfl, rfl, this⟩
  obtain ⟨hlag, rfl, hr2⟩ := hmem _ _ _ _ hr
  have hprev : ∀ c ∈ exSquare, c.devLag = 12 → ∀ prev,
      (exSquare.filter fun d => (d.ps, d.pe) == (c.ps, c.pe) && d.devLag < c.devLag).getLast? = some prev →
      prev.devLag = 0 := by decide +kernel
  rw [hprev c hc hlag prev hp, hlag, ex_sq_ratios]
  rcases hr2 with rfl | rfl <;> simp
/-! ### `ColumnsInRatios` from explicit regularity hypotheses (`RegularLags`) -/

/-- `_safe_ata_division` of the model and of the Spec agree on values that are not arrays -/
theorem safeAtaDiv_eq_safeDiv {x y : Option Val} {r : Rat} (h : safeAtaDiv x y = .ok r) : r = safeDiv x y := by
  unfold safeAtaDiv at h
  split at h
  · cases h
  · rename_i a ha
    split at h
    · cases h
    · rename_i b hb
      cases h
      have key : ∀ (z : Option Val) (q : Rat), safeOperand z = .ok q →
          q = (if isFalsy z then 1 else (num? z).getD 1) := by
        intro z q hz
        match z, hz with
        | none, hz => cases hz; rfl
        | some .none, hz => cases hz; rfl
        | some (.int i), hz =>
          simp only [safeOperand, Except.ok.injEq] at hz
          subst hz; simp [isFalsy, num?]
        | some (.flt v), hz =>
          simp only [safeOperand, Except.ok.injEq] at hz
          subst hz; simp [isFalsy, num?]
        | some (.arr _ _ _), hz => cases hz
      rw [safeDiv, ← key x a ha, ← key y b hb]

theorem mem_dedup_of_mem {α} [BEq α] [LawfulBEq α] {a : α} {l : List α} (h : a ∈ l) : a ∈ dedup l := by
  unfold dedup
  have gen : ∀ (l : List α) (acc : List α), (a ∈ acc ∨ a ∈ l) →
      a ∈ l.foldl (fun acc a => if acc.contains a then acc else acc ++ [a]) acc := by
    intro l
    induction l with
    | nil => intro acc h; simpa using h
    | cons b l ih =>
      intro acc h
      rw [List.foldl_cons]
      apply ih
      rcases h with h | h
      · left; split
        · exact h
        · exact List.mem_append_left _ h
      · rcases List.mem_cons.mp h with rfl | h
        · left; split
          · rename_i hc; simpa using hc
          · simp
        · right; exact h
  exact gen l [] (Or.inr h)

theorem mem_periodsOf {s : List Cell} {c : Cell} (hc : c ∈ s) : (c.ps, c.pe) ∈ periodsOf s := by
  unfold periodsOf
  rw [(List.mergeSort_perm _ _).mem_iff]
  refine mem_dedup_of_mem ?_
  exact List.mem_map.mpr ⟨c, hc, rfl⟩

/-- the factor of two cells of one period at lags `pl`, `l` is among the Spec's `ratios`, when (period, lag) is
unique in the slice -/
theorem mem_ratios {s : List Cell} {a b : Cell} {f : String}
    (huniq : ∀ x ∈ s, ∀ y ∈ s, (x.ps, x.pe) = (y.ps, y.pe) → x.devLag = y.devLag → x = y)
    (ha : a ∈ s) (hb : b ∈ s) (hp : (b.ps, b.pe) = (a.ps, a.pe)) :
    safeDiv (b.values.get? f) (a.values.get? f) ∈ ratios s a.devLag b.devLag f := by
  unfold ratios
  rw [List.mem_filterMap]
  refine ⟨(a.ps, a.pe), mem_periodsOf ha, ?_⟩
  have fa : s.find? (fun c => (c.ps, c.pe) == (a.ps, a.pe) && c.devLag == a.devLag) = some a := by
    cases hf : s.find? (fun c => (c.ps, c.pe) == (a.ps, a.pe) && c.devLag == a.devLag) with
    | none =>
      have := List.find?_eq_none.mp hf a ha
      simp at this
    | some x =>
      have hx := List.find?_some hf
      simp only [Bool.and_eq_true, beq_iff_eq] at hx
      rw [huniq x (List.mem_of_find?_eq_some hf) a ha hx.1 hx.2]
  have fb : s.find? (fun c => (c.ps, c.pe) == (a.ps, a.pe) && c.devLag == b.devLag) = some b := by
    cases hf : s.find? (fun c => (c.ps, c.pe) == (a.ps, a.pe) && c.devLag == b.devLag) with
    | none =>
      have := List.find?_eq_none.mp hf b hb
      simp [hp] at this
    | some x =>
      have hx := List.find?_some hf
      simp only [Bool.and_eq_true, beq_iff_eq] at hx
      rw [huniq x (List.mem_of_find?_eq_some hf) b hb (hx.1.trans hp.symm) hx.2]
  simp only [fa, fb]

/-- an entry of the model's empirical table comes from one pair of consecutive same-period cells of the clipped slice -/
theorem ataTable_entry {s : List Cell} {fields : List String} {A : Factors} {lag : Rat}
    {tbl : List (String × List Rat)} {f : String} {col : List Rat} {r : Rat}
    (hA : ataTable s fields = .ok A) (h1 : (lag, tbl) ∈ A) (h2 : (f, col) ∈ tbl) (h3 : r ∈ col) :
    ∃ pl cl nx pv, (lag, pl) ∈ (sortedLags s).tail.zip (sortedLags s) ∧ clipLags s pl lag = .ok cl ∧
      (nx, pv) ∈ lagPairs cl ∧ safeAtaDiv (nx.values.get? f) (pv.values.get? f) = .ok r := by
  unfold ataTable at hA
  obtain ⟨lp, hlp, hrel⟩ := forall₂_mem_right (mapMExcept_forall₂ hA) _ h1
  split at hrel
  · cases hrel
  · rename_i cl hcl
    split at hrel
    · cases hrel
    · rename_i t ht
      simp only [Except.ok.injEq, Prod.mk.injEq] at hrel
      obtain ⟨hl, rfl⟩ := hrel
      obtain ⟨f', _, hcolm⟩ := forall₂_mem_right (mapMExcept_forall₂ ht) _ h2
      unfold ataColumn at hcolm
      split at hcolm
      · cases hcolm
      · rename_i rs hrs
        simp only [Except.ok.injEq, Prod.mk.injEq] at hcolm
        obtain ⟨rfl, rfl⟩ := hcolm
        obtain ⟨p, hp, hdiv⟩ := forall₂_mem_right (mapMExcept_forall₂ hrs) _ h3
        refine ⟨lp.2, cl, p.1, p.2, ?_, ?_, hp, hdiv⟩
        · rw [← hl]; exact hlp
        · rw [← hl]; exact hcl

theorem lagPairs_mem {s cl : List Cell} {lo hi : Rat} (hcl : clipLags s lo hi = .ok cl) {nx pv : Cell}
    (h : (nx, pv) ∈ lagPairs cl) : nx ∈ s ∧ pv ∈ s ∧ (nx.ps, nx.pe) = (pv.ps, pv.pe) := by
  unfold lagPairs at h
  obtain ⟨hz, hper⟩ := List.mem_filter.mp h
  have hm := List.of_mem_zip hz
  have hsub : ∀ c ∈ cl, c ∈ s := fun c hc =>
    (List.mem_filter.mp ((ofCells_perm' hcl).mem_iff.mp hc)).1
  exact ⟨hsub _ (List.mem_of_mem_tail hm.1), hsub _ hm.2, by simpa using hper⟩

/-- regularity of an age-to-age slice, as far as the empirical factors are concerned -/
structure RegularLags (s : List Cell) : Prop where
  /-- a period has at most one cell at a development lag -/
  uniq : ∀ x ∈ s, ∀ y ∈ s, (x.ps, x.pe) = (y.ps, y.pe) → x.devLag = y.devLag → x = y
  /-- no period skips a lag: the lag of a cell's row predecessor is the lag preceding the cell's lag in
  `triangle.dev_lags()` -/
  noSkip : ∀ c ∈ s, ∀ prev,
    (s.filter fun d => (d.ps, d.pe) == (c.ps, c.pe) && d.devLag < c.devLag).getLast? = some prev →
    ∀ pl, (c.devLag, pl) ∈ (sortedLags s).tail.zip (sortedLags s) → pl = prev.devLag
  /-- in the triangle clipped to two consecutive lags `pl < l`, consecutive cells of one period sit at `pl` and `l`
  (derivable from `SliceLayout` and sortedness of the lags; taken as a hypothesis here) -/
  clipEnds : ∀ l pl, (l, pl) ∈ (sortedLags s).tail.zip (sortedLags s) → ∀ cl, clipLags s pl l = .ok cl →
    ∀ nx pv, (nx, pv) ∈ lagPairs cl → nx.devLag = l ∧ pv.devLag = pl

theorem columnsInRatios_of_regular {s : List Cell} (R : RegularLags s) (fields : List String) (I : IdxTable) :
    ColumnsInRatios s fields I := by
  intro F hF c hc prev hp f r hr
  obtain ⟨A, tbl, col, hA, h1, h2, h3⟩ := resampledAtas_member hF hr
  obtain ⟨pl, cl, nx, pv, hz, hcl, hpair, hdiv⟩ := ataTable_entry hA h1 h2 h3
  have hpl := R.noSkip c hc prev hp pl hz
  obtain ⟨hnl, hpvl⟩ := R.clipEnds _ _ hz cl hcl nx pv hpair
  obtain ⟨hnx, hpv, hper⟩ := lagPairs_mem hcl hpair
  rw [safeAtaDiv_eq_safeDiv hdiv, ← hpl, ← hnl, ← hpvl]
  exact mem_ratios R.uniq hpv hnx hper

theorem ex_sq_zip : (sortedLags exSquare).tail.zip (sortedLags exSquare) = [((12 : Rat), (0 : Rat))] := by
  rw [ex_sq_lags]; rfl

/-- closed inhabitant: the 2 × 2 square is regular -/
theorem ex_sq_regular : RegularLags exSquare := by
  refine ⟨by decide +kernel, ?_, ?_⟩
  · intro c hc prev hp pl hz
    rw [ex_sq_zip] at hz
    simp only [List.mem_cons, Prod.mk.injEq, List.not_mem_nil, or_false] at hz
    obtain ⟨hl, rfl⟩ := hz
    have hprev : ∀ c ∈ exSquare, c.devLag = 12 → ∀ prev,
        (exSquare.filter fun d => (d.ps, d.pe) == (c.ps, c.pe) && d.devLag < c.devLag).getLast? = some prev →
        prev.devLag = 0 := by decide +kernel
    exact (hprev c hc hl prev hp).symm
  · intro l pl hz cl hcl nx pv hpair
    rw [ex_sq_zip] at hz
    simp only [List.mem_cons, Prod.mk.injEq, List.not_mem_nil, or_false] at hz
    obtain ⟨rfl, rfl⟩ := hz
    rw [ex_sq_clip] at hcl
    cases hcl
    have : ∀ p ∈ lagPairs exSquare, p.1.devLag = 12 ∧ p.2.devLag = 0 := by decide +kernel
    exact this (nx, pv) hpair
/-! ### `uniq` from `SliceLayout`; what remains is `NoSkipLags` -/

/-- (period, lag) is unique in a well-formed slice -/
theorem uniq_of_layout {s : List Cell} (H : SliceLayout s) :
    ∀ x ∈ s, ∀ y ∈ s, (x.ps, x.pe) = (y.ps, y.pe) → x.devLag = y.devLag → x = y := by
  intro x hx y hy hp hl
  obtain ⟨i, hi, rfl⟩ := List.getElem_of_mem hx
  obtain ⟨j, hj, rfl⟩ := List.getElem_of_mem hy
  rcases Nat.lt_trichotomy i j with h | h | h
  · exact absurd hl (ne_of_lt (rows_lag_lt H h hj hp))
  · subst h; rfl
  · exact absurd hl.symm (ne_of_lt (rows_lag_lt H h hi hp.symm))

/-- what remains of `RegularLags` beyond `SliceLayout` -/
structure NoSkipLags (s : List Cell) : Prop where
  noSkip : ∀ c ∈ s, ∀ prev,
    (s.filter fun d => (d.ps, d.pe) == (c.ps, c.pe) && d.devLag < c.devLag).getLast? = some prev →
    ∀ pl, (c.devLag, pl) ∈ (sortedLags s).tail.zip (sortedLags s) → pl = prev.devLag
  clipEnds : ∀ l pl, (l, pl) ∈ (sortedLags s).tail.zip (sortedLags s) → ∀ cl, clipLags s pl l = .ok cl →
    ∀ nx pv, (nx, pv) ∈ lagPairs cl → nx.devLag = l ∧ pv.devLag = pl

theorem regular_of_layout {s : List Cell} (H : SliceLayout s) (N : NoSkipLags s) : RegularLags s :=
  ⟨uniq_of_layout H, N.noSkip, N.clipEnds⟩
theorem ex_sq_noskip : NoSkipLags exSquare := ⟨ex_sq_regular.noSkip, ex_sq_regular.clipEnds⟩
end Bermuda.Resample
