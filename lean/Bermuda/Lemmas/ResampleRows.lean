/-
`RowsByLag s` for a canonical single-metadata slice with valid evaluation dates that are distinct within a period.
-/
import Bermuda.Lemmas.ResampleChain
import Bermuda.Lemmas.Order
namespace Bermuda.Resample
open Std

theorem minRat_spec : ∀ (l : List Rat) (m : Rat), minRat l = some m → m ∈ l ∧ ∀ y ∈ l, m ≤ y := by
  intro l m h
  cases l with
  | nil => simp [minRat] at h
  | cons x xs =>
    simp only [minRat, Option.some.injEq] at h
    subst h
    have key : ∀ (rest : List Rat) (a : Rat),
        (rest.foldl (fun m y => if y < m then y else m) a) ∈ a :: rest ∧
        ∀ y ∈ a :: rest, rest.foldl (fun m y => if y < m then y else m) a ≤ y := by
      intro rest
      induction rest with
      | nil => intro a; simp
      | cons b rest ih =>
        intro a
        simp only [List.foldl_cons]
        obtain ⟨hm, hle⟩ := ih (if b < a then b else a)
        constructor
        · rcases List.mem_cons.mp hm with h | h
          · rw [h]; split <;> simp
          · simp [h]
        · intro y hy
          have hx := hle (if b < a then b else a) (by simp)
          rcases List.mem_cons.mp hy with h | h
          · subst h; refine _root_.le_trans hx ?_; split <;> linarith
          · rcases List.mem_cons.mp h with h | h
            · subst h; refine _root_.le_trans hx ?_; split <;> linarith
            · exact hle y (by simp [h])
    exact key xs x

theorem Date.cmp_antisymm {a b : Date} (h1 : Date.cmp a b ≠ .gt) (h2 : Date.cmp b a ≠ .gt) : a = b := by
  rw [← Date.cmp_eq_eq]
  have hs : Date.cmp a b = (Date.cmp b a).swap := OrientedCmp.eq_swap
  cases hab : Date.cmp a b <;> cases hba : Date.cmp b a <;> simp_all

theorem Date.cmp_self (a : Date) : Date.cmp a a = .eq := ReflCmp.compare_self

/-- what `Cell.le a b` says for two cells of one slice -/
theorem le_same_md {a b : Cell} (h : Cell.le a b = true) (hmd : a.md = b.md) :
    Date.cmp a.ps b.ps ≠ .gt ∧ (a.ps = b.ps → Date.cmp a.pe b.pe ≠ .gt ∧
      (a.pe = b.pe → Date.cmp a.ev b.ev ≠ .gt)) := by
  have hm : Metadata.cmp a.md b.md = .eq := by rw [hmd]; exact ReflCmp.compare_self
  simp only [Cell.le, Cell.cmp, compareLex, cmpOn, hm, Ordering.then, bne_iff_ne, ne_eq] at h
  refine ⟨?_, fun hps => ⟨?_, fun hpe => ?_⟩⟩
  · intro hgt; simp [hgt] at h
  · intro hgt; simp [hps, Date.cmp_self, hgt] at h
  · intro hgt; simp [hps, hpe, Date.cmp_self, hgt] at h

/-- a slice as `Triangle.slices` delivers it, with calendar-valid evaluation dates that are distinct within a period -/
structure SliceLayout (s : List Cell) : Prop where
  sorted : s.Pairwise (fun a b => Cell.le a b)
  oneMd : ∀ c ∈ s, ∀ c' ∈ s, c.md = c'.md
  valid : ∀ c ∈ s, c.ev.valid = true
  evDistinct : s.Pairwise (fun a b => (a.ps, a.pe) = (b.ps, b.pe) → a.ev ≠ b.ev)

section
variable {s : List Cell} (H : SliceLayout s)
include H

theorem rows_lag_lt {i j : Nat} (hi : i < j) (hj : j < s.length)
    (hp : (s[i].ps, s[i].pe) = (s[j].ps, s[j].pe)) : s[i].devLag < s[j].devLag := by
  have hle : Cell.le s[i] s[j] = true := List.pairwise_iff_getElem.mp H.sorted i j (by omega) hj hi
  have hne := List.pairwise_iff_getElem.mp H.evDistinct i j (by omega) hj hi hp
  simp only [Prod.mk.injEq] at hp
  have h3 := ((le_same_md hle (H.oneMd _ (List.getElem_mem _) _ (List.getElem_mem _))).2 hp.1).2 hp.2
  have hlt : Date.cmp s[i].ev s[j].ev = .lt := by
    cases hc : Date.cmp s[i].ev s[j].ev with
    | lt => rfl
    | eq => exact absurd (Date.cmp_eq_eq.mp hc) hne
    | gt => exact absurd hc h3
  have := devLag_strictMono (pe := s[j].pe) (H.valid _ (List.getElem_mem _)) (H.valid _ (List.getElem_mem _)) hlt
  simp only [Cell.devLag, hp.2]
  exact this

theorem rows_contiguous {i k j : Nat} (hik : i < k) (hkj : k < j) (hj : j < s.length)
    (hp : (s[i].ps, s[i].pe) = (s[j].ps, s[j].pe)) : (s[k].ps, s[k].pe) = (s[j].ps, s[j].pe) := by
  have mem : ∀ n (h : n < s.length), s[n] ∈ s := fun n h => List.getElem_mem h
  have h1 : Cell.le s[i] s[k] = true := List.pairwise_iff_getElem.mp H.sorted i k (by omega) (by omega) hik
  have h2 : Cell.le s[k] s[j] = true := List.pairwise_iff_getElem.mp H.sorted k j (by omega) hj hkj
  obtain ⟨a1, a2⟩ := le_same_md h1 (H.oneMd _ (mem _ _) _ (mem _ _))
  obtain ⟨b1, b2⟩ := le_same_md h2 (H.oneMd _ (mem _ _) _ (mem _ _))
  simp only [Prod.mk.injEq] at hp ⊢
  have hps : s[k].ps = s[j].ps := Date.cmp_antisymm b1 (by rw [← hp.1]; exact a1)
  have hps' : s[i].ps = s[k].ps := by rw [hp.1, hps]
  refine ⟨hps, Date.cmp_antisymm (b2 hps).1 ?_⟩
  rw [← hp.2]; exact (a2 hps').1

/-- **the row layout follows from sortedness** -/
theorem rowsByLag_of_layout : RowsByLag s := by
  intro j hj
  have hcmem : s[j] ∈ s.filter (fun c => (c.ps, c.pe) == (s[j].ps, s[j].pe)) := by
    simp [List.mem_filter]
  -- characterisation of the row predicate on positions
  have hq : ∀ i (hi : i < s.length),
      ((s[i].ps, s[i].pe) == (s[j].ps, s[j].pe) && decide (s[i].devLag < s[j].devLag)) = true ↔
        ((s[i].ps, s[i].pe) = (s[j].ps, s[j].pe) ∧ i < j) := by
    intro i hi
    simp only [Bool.and_eq_true, beq_iff_eq, decide_eq_true_eq]
    constructor
    · rintro ⟨hp, hl⟩
      refine ⟨hp, ?_⟩
      by_contra hge
      rcases Nat.lt_or_eq_of_le (Nat.le_of_not_lt hge) with h | h
      · have := rows_lag_lt H h hi hp.symm
        linarith
      · subst h; exact absurd hl (lt_irrefl _)
    · rintro ⟨hp, hl⟩
      exact ⟨hp, rows_lag_lt H hl hj hp⟩
  constructor
  · intro hinit
    rw [List.filter_eq_nil_iff]
    intro d hd hqd
    simp only [Bool.and_eq_true, beq_iff_eq, decide_eq_true_eq] at hqd
    obtain ⟨m1, m2⟩ := minRat_spec _ _ hinit
    have : s[j].devLag ≤ d.devLag := m2 _ (List.mem_map.mpr ⟨d, List.mem_filter.mpr ⟨hd, by simpa using hqd.1⟩, rfl⟩)
    linarith [hqd.2]
  · intro hni
    -- some cell of the period has a smaller lag
    obtain ⟨m, hm⟩ : ∃ m, initialLag s (s[j].ps, s[j].pe) = some m := by
      unfold initialLag
      cases hl : (s.filter fun c => (c.ps, c.pe) == (s[j].ps, s[j].pe)) with
      | nil => rw [hl] at hcmem; simp at hcmem
      | cons a l => exact ⟨_, rfl⟩
    obtain ⟨m1, m2⟩ := minRat_spec _ _ hm
    obtain ⟨d, hd, hdm⟩ := List.mem_map.mp m1
    have hle := m2 _ (List.mem_map.mpr ⟨s[j], hcmem, rfl⟩)
    have hlt : d.devLag < s[j].devLag := by
      rcases lt_or_eq_of_le hle with h | h
      · rw [hdm]; exact h
      · exact absurd (by rw [hm, h]) hni
    obtain ⟨hds, hdp⟩ := List.mem_filter.mp hd
    obtain ⟨i, hi, rfl⟩ := List.getElem_of_mem hds
    have hij : i < j := ((hq i hi).mp (by simp only [Bool.and_eq_true, decide_eq_true_eq]; exact ⟨hdp, hlt⟩)).2
    have hpi : (s[i].ps, s[i].pe) = (s[j].ps, s[j].pe) := by simpa using hdp
    obtain ⟨j', rfl⟩ : ∃ j', j = j' + 1 := ⟨j - 1, by omega⟩
    refine ⟨j', rfl, ?_⟩
    have hj' : j' < s.length := by omega
    have hpj' : (s[j'].ps, s[j'].pe) = (s[j' + 1].ps, s[j' + 1].pe) := by
      rcases Nat.lt_or_eq_of_le (Nat.le_of_lt_succ hij) with h | h
      · exact rows_contiguous H h (by omega) hj hpi
      · subst h; exact hpi
    have hsplit : s = s.take j' ++ s[j'] :: s.drop (j' + 1) := by
      rw [List.getElem_cons_drop]; exact (List.take_append_drop j' s).symm
    have hlastq := (hq j' hj').mpr ⟨hpj', by omega⟩
    have hdrop : (s.drop (j' + 1)).filter (fun d => (d.ps, d.pe) == (s[j' + 1].ps, s[j' + 1].pe) &&
        decide (d.devLag < s[j' + 1].devLag)) = [] := by
      rw [List.filter_eq_nil_iff]
      intro x hx hqx
      obtain ⟨k, hk, rfl⟩ := List.getElem_of_mem hx
      rw [List.getElem_drop] at hqx
      have hk' : j' + 1 + k < s.length := by simpa [List.length_drop] using (by
        have := hk; simp only [List.length_drop] at this; omega)
      have := ((hq (j' + 1 + k) hk').mp hqx).2
      omega
    conv => lhs; arg 1; arg 2; rw [hsplit]
    rw [List.filter_append, List.filter_cons, if_pos hlastq, hdrop, List.getElem?_eq_getElem hj']
    simp

end

theorem coords_nodup_of_layout {s : List Cell} (H : SliceLayout s) : (s.map (·.coord)).Nodup := by
  rw [List.Nodup, List.pairwise_map]
  refine H.evDistinct.imp ?_
  intro a b h e
  obtain ⟨_, e2, e3, e4, _⟩ := coord_eq_iff.mp e
  exact h (by rw [e2, e3]) e4

/-! ### a triangle with one slice: the summed replicate IS the slice's replicate -/

theorem metasOf_single {t : List Cell} {m : Metadata} (hne : t ≠ []) (hm : ∀ c ∈ t, c.md = m) :
    metasOf t = [m] := by
  have step : ∀ (cs : List Cell), (∀ c ∈ cs, c.md = m) →
      cs.foldl (fun acc c => if acc.contains c.md then acc else acc ++ [c.md]) [m] = [m] := by
    intro cs
    induction cs with
    | nil => intro _; rfl
    | cons c cs ih =>
      intro h
      rw [List.foldl_cons, h c (by simp)]
      simp only [List.contains_cons, beq_self_eq_true, Bool.true_or, if_true]
      exact ih (fun c' hc' => h c' (by simp [hc']))
  cases t with
  | nil => exact absurd rfl hne
  | cons c cs =>
    unfold metasOf
    rw [List.foldl_cons, hm c (by simp)]
    simp only [List.contains_nil, Bool.false_eq_true, if_false, List.nil_append]
    exact step cs (fun c' hc' => hm c' (by simp [hc']))

theorem slices_single {t : List Cell} {m : Metadata} (hne : t ≠ []) (hm : ∀ c ∈ t, c.md = m)
    (hs : t.Pairwise (fun a b => Cell.le a b)) : (Triangle.slices t).map (·.2) = [t] := by
  have hf : t.filter (·.md == m) = t := List.filter_eq_self.mpr (fun c hc => by simp [hm c hc])
  simp only [Triangle.slices, metasOf_single hne hm, List.map_cons, List.map_nil, hf,
    List.mergeSort_of_pairwise hs]

/-- on a one-slice triangle every replicate of `bootstrapD` is the slice's own replicate -/
theorem bootstrapD_single {t : List Cell} {m : Metadata} {n : Int} {field : Option (List String)}
    {D : Nat → Nat → Draws} {reps : List (List Cell)} (h : bootstrapD t n field D = .ok reps)
    (hne : t ≠ []) (hm : ∀ c ∈ t, c.md = m) (hs : t.Pairwise (fun a b => Cell.le a b)) :
    ∀ i (hi : i < reps.length), replicateD t (field.getD (fieldsOf t)) (D 0 i) i = .ok reps[i] := by
  unfold bootstrapD at h
  split at h
  · cases h
  · simp only [slices_single hne hm hs, List.zipIdx_cons, List.zipIdx_nil, mapMExcept] at h
    split at h
    · cases h
    · rename_i boots hboots
      split at hboots
      · cases hboots
      rename_i b hb
      cases hboots
      simp only [List.isEmpty_cons, Bool.false_eq_true, if_false, List.map_cons, List.map_nil] at h
      intro i hi
      have hlen := mapMExcept_length h
      have hi' : i < (List.range n.toNat).length := by rw [← hlen]; exact hi
      have hrep := mapMExcept_getElem h i hi'
      simp only [List.getElem_range, sumTriangles, sumFrom] at hrep
      have hin : i < n.toNat := by simpa using hi'
      have hbl := mapMExcept_length hb
      simp only [List.length_range] at hbl
      have hr := mapMExcept_getElem hb i (by simpa using hin)
      simp only [List.getElem_range] at hr
      have hget : b.getD i [] = b[i]'(by rw [hbl]; exact hin) := by
        simp [List.getD_eq_getElem?_getD, hbl, hin]
      rw [hget] at hrep
      rw [← Except.ok.inj hrep]
      exact hr

end Bermuda.Resample
