/-
Bridges between the C17 model (`Model/Resample.lean`) and the executable Spec predicates
(`Spec/C17.lean`): the predicates are TRUE on the model's own outputs.
-/
import Bermuda.Lemmas.Resample
import Bermuda.Spec.C17
namespace Bermuda.Resample
open Bermuda.Spec.C17


theorem sortQ_congr {a b : List Rat} (h : a.Perm b) : sortQ a = sortQ b := by
  apply List.Perm.eq_of_pairwise (le := fun x y : Rat => x ≤ y)
  · intro x y _ _ h1 h2; exact Rat.le_antisymm h1 h2
  · exact sortQ_sorted a
  · exact sortQ_sorted b
  · exact (sortQ_perm a).trans (h.trans (sortQ_perm b).symm)

theorem rankOrderOk_reimpose {xs qs : List Rat} (hl : qs.length = xs.length) :
    rankOrderOk xs (reimposeRank xs qs) = true := by
  simp only [rankOrderOk, Bool.and_eq_true, beq_iff_eq, List.all_eq_true, List.mem_range,
    Bool.or_eq_true, Bool.not_eq_true', decide_eq_false_iff_not, decide_eq_true_eq]
  refine ⟨Resample.reimposeRank_length xs qs, ?_⟩
  intro i hi j hj
  by_cases h : xs.getD i 0 < xs.getD j 0
  · exact Or.inr (reimposeRank_order' hl hi hj h)
  · exact Or.inl h

theorem sameMultiset_reimpose {xs qs : List Rat} (hl : qs.length = xs.length) :
    sameMultiset qs (reimposeRank xs qs) = true := by
  simp only [sameMultiset, beq_iff_eq]
  exact (sortQ_congr (reimposeRank_perm' hl)).symm

theorem rankFixed_reimpose {xs qs : List Rat} (hl : qs.length = xs.length) :
    rankFixed xs (reimposeRank xs qs) = true := by
  simp only [rankFixed, beq_iff_eq]
  unfold reimposeRank
  rw [show sortQ ((List.range xs.length).map fun i => (sortQ qs).getD (rank xs i) 0) = sortQ qs from
    sortQ_congr (reimposeRank_perm' hl)]


theorem zip_map_self {α β} (f : α → β) : ∀ l : List α, l.zip (l.map f) = l.map fun a => (a, f a)
  | [] => rfl
  | a :: l => by simp [zip_map_self f l]

theorem dget_map_vals {α β} (g : α → β) (d : Dict α) (k : String) :
    Dict.get? (d.map fun p => (p.1, g p.2)) k = (d.get? k).map g := by
  induction d with
  | nil => rfl
  | cons p d ih =>
    rw [List.map_cons, dget_cons, dget_cons, ih]
    split <;> rfl

theorem dget_of_mem_nodup {α} : ∀ {d : Dict α} {k : String} {v : α}, d.keys.Nodup → (k, v) ∈ d →
    d.get? k = some v := by
  intro d
  induction d with
  | nil => intro k v _ h; simp at h
  | cons p d ih =>
    intro k v hnd hmem
    rw [dget_cons]
    simp only [Dict.keys, List.map_cons, List.nodup_cons] at hnd
    rcases List.mem_cons.mp hmem with rfl | hmem
    · simp
    · have : p.1 ≠ k := by
        intro e; subst e
        exact hnd.1 (List.mem_map.mpr ⟨_, hmem, rfl⟩)
      have hb : (p.1 == k) = false := by simpa using this
      rw [hb]; exact ih hnd.2 hmem

theorem thinCell_keys (idx : List Nat) (c : Cell) : (thinCell idx c).values.keys = c.values.keys := by
  simp [thinCell, Dict.keys, List.map_map, Function.comp_def]

/-- **Spec bridge (thin).** On the model's output `t.map (thinCell idx)` the executable predicate
`Spec.C17.thinOk` is true, for every index vector of `k` distinct positions below `n` that the
predicate can read back (`recoverIdx`), on cells whose value dicts have distinct keys. -/
theorem thinOk_model {t : List Cell} {idx : List Nat} {k n : Nat}
    (hrec : recoverIdx t (t.map (thinCell idx)) = some idx) (hk : idx.length = k)
    (hnd : idx.Nodup) (hr : ∀ i ∈ idx, i < n) (hwf : ∀ c ∈ t, c.values.keys.Nodup) :
    thinOk t (t.map (thinCell idx)) k n = true := by
  unfold thinOk
  rw [hrec]
  simp only [List.length_map, beq_self_eq_true, Bool.true_and, Bool.and_eq_true, beq_iff_eq,
    decide_eq_true_eq, List.all_eq_true]
  refine ⟨⟨⟨hk, hnd⟩, fun i hi => by simpa using hr i hi⟩, ?_⟩
  rw [zip_map_self]
  intro p hp
  obtain ⟨c, hc, rfl⟩ := List.mem_map.mp hp
  refine ⟨⟨⟨rfl, rfl⟩, thinCell_keys idx c⟩, ?_⟩
  intro q hq
  obtain ⟨f, v⟩ := q
  have : (thinCell idx c).values = c.values.map fun p => (p.1, thinVal idx p.2) := rfl
  rw [this, dget_map_vals, dget_of_mem_nodup (hwf c hc) hq]
  rfl

/-- the index vector can be read back from the first field of the first cell when that is an
array of more than one pairwise distinct samples and the positions are in range -/
theorem recoverIdx_first {c : Cell} {rest : List Cell} {f : String} {isInt : Bool} {m : Nat}
    {d : List Rat} {vs : Dict Val} {idx : List Nat}
    (hv : c.values = (f, .arr isInt [m] d) :: vs) (hlen : d.length > 1) (hd : d.Nodup)
    (hr : ∀ i ∈ idx, i < d.length) :
    recoverIdx (c :: rest) ((c :: rest).map (thinCell idx)) = some idx := by
  have hfirst : (thinCell idx c).values.get? f = some (.arr isInt [idx.length] (gather idx d)) := by
    have : (thinCell idx c).values = c.values.map fun p => (p.1, thinVal idx p.2) := rfl
    rw [this, hv]
    simp [Dict.get?, thinVal, hlen]
  have hidx : (gather idx d).map (d.idxOf ·) = idx := by
    unfold gather
    rw [List.map_map]
    conv => rhs; rw [← List.map_id idx]
    apply List.map_congr_left
    intro i hi
    simp only [Function.comp, id]
    have hi' := hr i hi
    rw [List.getD_eq_getElem?_getD, List.getElem?_eq_getElem hi']
    simp only [Option.getD_some]
    exact List.Nodup.idxOf_getElem hd i hi'
  simp only [recoverIdx, List.map_cons, List.zip_cons_cons, List.findSome?_cons, hv, hfirst]
  simp [hlen, hd, hidx]


theorem forall₂_zip {α β} {R : α → β → Prop} : ∀ {l : List α} {l' : List β},
    List.Forall₂ R l l' → ∀ p ∈ l.zip l', R p.1 p.2
  | _, _, .nil, p, hp => by simp at hp
  | _, _, .cons h t, p, hp => by
    rw [List.zip_cons_cons] at hp
    rcases List.mem_cons.mp hp with rfl | hp
    · exact h
    · exact forall₂_zip t p hp

theorem forall₂_and {α β} {R S : α → β → Prop} : ∀ {l : List α} {l' : List β},
    List.Forall₂ R l l' → List.Forall₂ S l l' → List.Forall₂ (fun a b => R a b ∧ S a b) l l'
  | _, _, .nil, .nil => .nil
  | _, _, .cons h t, .cons h' t' => .cons ⟨h, h'⟩ (forall₂_and t t')

theorem rankOrderOk_reimpose_le {xs qs : List Rat} (hl : xs.length ≤ qs.length) :
    rankOrderOk xs (reimposeRank xs qs) = true := by
  simp only [rankOrderOk, Bool.and_eq_true, beq_iff_eq, List.all_eq_true, List.mem_range,
    Bool.or_eq_true, Bool.not_eq_true', decide_eq_false_iff_not, decide_eq_true_eq]
  refine ⟨Resample.reimposeRank_length xs qs, ?_⟩
  intro i hi j hj
  by_cases h : xs.getD i 0 < xs.getD j 0
  · exact Or.inr (reimposeRank_order_le hl hi hj h)
  · exact Or.inl h

/-- **Spec bridge (moment_match).** `Spec.C17.momentOk` is true on the model's output, for every
drawn vectors at least as long as the arrays they replace. -/
theorem momentOk_model {t out : List Cell} {fields : List String} {distOk : Bool}
    {draws : Nat → String → List Rat} (h : momentMatch t fields distOk draws = .ok out)
    (hnd : fields.Nodup) (hk : kindsConsistent t = true) (hs : t.Pairwise (fun a b => Cell.le a b))
    (hwf : ∀ c ∈ t, c.values.keys.Nodup)
    (hlen : ∀ c ∈ t, ∀ f isInt n d, (f, Val.arr isInt [n] d) ∈ c.values → ∀ j, d.length ≤ (draws j f).length) :
    momentOk t out fields = true := by
  have h1 : List.Forall₂ (fun c o => o.coord = c.coord ∧ o.kind = c.kind ∧ o.values.keys = c.values.keys ∧
      ∀ f, f ∉ fields → o.values.get? f = c.values.get? f) t out := by
    unfold momentMatch at h
    split at h
    · cases h
    · split at h
      · cases h
      · exact momentLoop_fields h hk hs
  have h2 : List.Forall₂ (fun c o => ∀ f ∈ fields, ∃ v drawn, (∃ j, drawn = draws j f) ∧
      c.values.get? f = some v ∧ o.values.get? f = some (generateSamples v drawn)) t out := by
    unfold momentMatch at h
    split at h
    · cases h
    · split at h
      · cases h
      · exact momentLoop_selected h hnd hk hs
  unfold momentOk
  simp only [Bool.and_eq_true, beq_iff_eq, List.all_eq_true]
  refine ⟨Blend.forall₂_length' h1, ?_⟩
  intro p hp
  have hc : p.1 ∈ t := (List.of_mem_zip hp).1
  obtain ⟨⟨g1, g2, g3, g4⟩, g5⟩ := forall₂_zip (forall₂_and h1 h2) p hp
  obtain ⟨c, o⟩ := p
  simp only at g1 g2 g3 g4 g5 hc ⊢
  refine ⟨⟨⟨g1, g2⟩, g3⟩, ?_⟩
  intro q hq
  obtain ⟨f, v⟩ := q
  have hget := dget_of_mem_nodup (hwf c hc) hq
  by_cases hf : f ∈ fields
  · obtain ⟨v', drawn, ⟨j, rfl⟩, hv', ho⟩ := g5 f hf
    rw [hget] at hv'; cases hv'
    have hcon : fields.contains f = true := List.contains_iff_mem.mpr hf
    cases v with
    | arr isInt shape d =>
      match shape with
      | [n] =>
        simp only [hcon, ho, generateSamples, beq_self_eq_true, Bool.true_and]
        exact rankOrderOk_reimpose_le (hlen c hc f isInt n d hq j)
      | [] => simp [ho, generateSamples]
      | _ :: _ :: _ => simp [ho, generateSamples]
    | none => simp [ho, generateSamples]
    | int i => simp [ho, generateSamples]
    | flt q => simp [ho, generateSamples]
  · have hcon : fields.contains f = false := by
      cases hcf : fields.contains f with
      | false => rfl
      | true => exact absurd (List.contains_iff_mem.mp hcf) hf
    rw [g4 f hf, hget]
    cases v with
    | arr isInt shape d =>
      match shape with
      | [n] => simp [hf]
      | [] => simp
      | _ :: _ :: _ => simp
    | none => simp
    | int i => simp
    | flt q => simp
end Bermuda.Resample
