/-
Helper lemmas for C11 (selection operators): dates (`<`, `≤`, `succ`), chained filters,
sub-lists of a canonical triangle, `toolz.groupby` (`groupBy`), `metasOf`, covering families of
filters.
-/
import Bermuda.Model.Select
import Bermuda.Spec.C11
import Bermuda.Lemmas.Sort
import Bermuda.Lemmas.Ops
namespace Bermuda
open Std

/-! ### dates -/
theorem Date.lt_iff_sel (a b : Date) :
    a < b ↔ a.y < b.y ∨ (a.y = b.y ∧ (a.m < b.m ∨ (a.m = b.m ∧ a.d < b.d))) := by
  show Date.cmp a b = .lt ↔ _
  simp only [Date.cmp, compareLex, cmpOn, Ordering.then_eq_lt, Int.compare_eq_lt, Nat.compare_eq_lt, compare_eq_iff_eq]

theorem Date.le_iff (a b : Date) :
    a ≤ b ↔ a.y < b.y ∨ (a.y = b.y ∧ (a.m < b.m ∨ (a.m = b.m ∧ a.d ≤ b.d))) := by
  show Date.cmp a b ≠ .gt ↔ _
  simp only [Date.cmp, compareLex, cmpOn, ne_eq, Ordering.then_eq_gt, Int.compare_eq_gt, Nat.compare_eq_gt, compare_eq_iff_eq]
  omega

theorem Date.not_le_iff_succ_le {b x : Date} (hb : b.valid = true) (hx : x.valid = true) :
    ¬ (x ≤ b) ↔ b.succ ≤ x := by
  simp only [Date.valid, Bool.and_eq_true, decide_eq_true_eq] at hb hx
  rw [Date.le_iff, Date.le_iff]
  unfold Date.succ
  split
  · simp only []; omega
  · split
    · simp only []
      constructor
      · intro h
        by_cases hy : x.y = b.y
        · by_cases hm : x.m = b.m
          · have : x.d ≤ dim b.y b.m := by rw [← hy, ← hm]; exact hx.2
            omega
          · omega
        · omega
      · omega
    · simp only []
      constructor
      · intro h
        by_cases hy : x.y = b.y
        · by_cases hm : x.m = b.m
          · have : x.d ≤ dim b.y b.m := by rw [← hy, ← hm]; exact hx.2
            omega
          · omega
        · omega
      · omega

theorem Date.le_refl (a : Date) : a ≤ a := by rw [Date.le_iff]; omega

theorem Date.le_trans {a b c : Date} (h₁ : a ≤ b) (h₂ : b ≤ c) : a ≤ c := by
  rw [Date.le_iff] at *; omega

theorem Date.lt_of_lt_of_le {a b c : Date} (h₁ : a < b) (h₂ : b ≤ c) : a < c := by
  rw [Date.lt_iff_sel] at *; rw [Date.le_iff] at h₂; omega

theorem Date.lt_of_le_of_lt {a b c : Date} (h₁ : a ≤ b) (h₂ : b < c) : a < c := by
  rw [Date.lt_iff_sel] at *; rw [Date.le_iff] at h₁; omega

theorem Date.not_le {a b : Date} : ¬ a ≤ b ↔ b < a := by
  rw [Date.le_iff, Date.lt_iff_sel]; omega

theorem Date.le_antisymm {a b : Date} (h₁ : a ≤ b) (h₂ : b ≤ a) : a = b := by
  rw [Date.le_iff] at *
  cases a; cases b; simp only [Date.mk.injEq] at *; omega

/-! ### chained filters -/
theorem optFilter_eq {β} (b : Option β) (p : β → Cell → Bool) (l : List Cell) :
    optFilter b p l = l.filter (fun c => b.all (fun x => p x c)) := by
  cases b
  · simp only [optFilter, Option.all_none]; exact (List.filter_eq_self.mpr (fun _ _ => rfl)).symm
  · simp [optFilter]

theorem devFilter_some (b : Option Rat) (u : LagUnit) (p : Rat → Rat → Bool) (l : List Cell) :
    devFilter b (some u) p l = .ok (l.filter (fun c => b.all (fun q => p q (c.devLag u)))) := by
  cases b
  · simp only [devFilter, Option.all_none]; congr 1; exact (List.filter_eq_self.mpr (fun _ _ => rfl)).symm
  · simp [devFilter]

theorem clipFull_eq (t : List Cell) (a : ClipFull) (u : LagUnit) (hu : a.unit = some u) :
    Triangle.clipFull t a = Triangle.ofCells (t.filter (Spec.C11.clipKeep a u)) := by
  unfold Triangle.clipFull
  simp only [hu, devFilter_some, optFilter_eq, bind, Except.bind, List.filter_filter]
  congr 1
  apply List.filter_congr
  intro c _
  simp only [Spec.C11.clipKeep, Spec.C11.inDates, Spec.C11.inLags, Option.all_none, Bool.true_and, Bool.and_true]
  cases a.minEval <;> cases a.maxEval <;> cases a.minPeriod <;> cases a.maxPeriod <;> cases a.minDev <;> cases a.maxDev <;> simp [Bool.and_comm, Bool.and_left_comm, Bool.and_assoc]

/-! ### sub-lists of a canonical triangle need no re-sorting -/

theorem kindsConsistent_sublist_sel {s l : List Cell} (hs : s.Sublist l)
    (hk : kindsConsistent l = true) : kindsConsistent s = true := by
  unfold kindsConsistent at *
  simp only [Bool.or_eq_true, List.all_eq_true] at *
  rcases hk with (hk | hk) | hk
  · exact Or.inl (Or.inl fun c hc => hk c (hs.subset hc))
  · exact Or.inl (Or.inr fun c hc => hk c (hs.subset hc))
  · exact Or.inr fun c hc => hk c (hs.subset hc)

theorem ofCells_sublist {t s : List Cell} (hs : s.Sublist t)
    (hsorted : t.Pairwise (fun a b => Cell.le a b)) (hk : kindsConsistent t = true) :
    Triangle.ofCells s = .ok s := by
  unfold Triangle.ofCells
  rw [kindsConsistent_sublist_sel hs hk]
  simp only [if_true]
  congr 1
  exact List.mergeSort_of_pairwise (hsorted.sublist hs)

/-! ### covering families of filters -/
theorem flatMap_filter_cons_of_not_mem {α κ} [BEq κ] [LawfulBEq κ] (key : α → κ) (a : α) (l : List α)
    (ks : List κ) (h : key a ∉ ks) :
    (ks.flatMap fun k => (a :: l).filter (fun x => key x == k)) =
      (ks.flatMap fun k => l.filter (fun x => key x == k)) := by
  induction ks with
  | nil => rfl
  | cons k ks ih =>
    have h1 : key a ≠ k := fun e => h (by simp [e])
    have h2 : key a ∉ ks := fun e => h (by simp [e])
    simp only [List.flatMap_cons, ih h2]
    simp [h1]

theorem flatMap_filter_cons_perm {α κ} [BEq κ] [LawfulBEq κ] (key : α → κ) (a : α) (l : List α)
    (ks : List κ) (hnd : ks.Nodup) (hk0 : key a ∈ ks) :
    (ks.flatMap fun k => (a :: l).filter (fun x => key x == k)).Perm
      (a :: ks.flatMap fun k => l.filter (fun x => key x == k)) := by
  induction ks with
  | nil => simp at hk0
  | cons k ks ihk =>
    have hnd' := (List.nodup_cons.mp hnd)
    simp only [List.flatMap_cons]
    by_cases hk : key a = k
    · subst hk
      rw [flatMap_filter_cons_of_not_mem key a l ks hnd'.1]
      simp
    · have hk0' : key a ∈ ks := by
        rcases List.mem_cons.mp hk0 with h | h
        · exact absurd h hk
        · exact h
      have := ihk hnd'.2 hk0'
      have hhead : (a :: l).filter (fun x => key x == k) = l.filter (fun x => key x == k) := by
        simp [hk]
      rw [hhead]
      exact (List.Perm.append_left _ this).trans List.perm_middle

/-- a covering family of filters (distinct keys) is a rearrangement of the list -/
theorem flatMap_filter_perm {α κ} [BEq κ] [LawfulBEq κ] (key : α → κ) (l : List α) (ks : List κ)
    (hnd : ks.Nodup) (hcov : ∀ a ∈ l, key a ∈ ks) :
    (ks.flatMap fun k => l.filter (fun a => key a == k)).Perm l := by
  induction l with
  | nil => simp
  | cons a l ih =>
    exact (flatMap_filter_cons_perm key a l ks hnd (hcov a (by simp))).trans
      (List.Perm.cons a (ih (fun x hx => hcov x (by simp [hx]))))

/-! ### `toolz.groupby` -/
/-- what `toolz.groupby` guarantees about its groups after reading the prefix `pre` -/
structure GInvSel {α κ} [BEq κ] (key : α → κ) (pre : List α) (acc : List (κ × List α)) : Prop where
  nodup : (acc.map (·.1)).Nodup
  grp : ∀ p ∈ acc, p.2 = pre.filter (fun a => key a == p.1) ∧ p.2 ≠ []
  cov : ∀ a ∈ pre, key a ∈ acc.map (·.1)

def gstepSel {α κ} [BEq κ] (key : α → κ) (acc : List (κ × List α)) (a : α) : List (κ × List α) :=
  let k := key a
  if acc.any (·.1 == k) then acc.map (fun p => if p.1 == k then (p.1, p.2 ++ [a]) else p)
  else acc ++ [(k, [a])]

theorem groupBy_eq_foldl_sel {α κ} [BEq κ] (key : α → κ) (l : List α) :
    groupBy key l = l.foldl (gstepSel key) [] := rfl

theorem gstep_inv {α κ} [BEq κ] [LawfulBEq κ] {key : α → κ} {pre : List α} {acc : List (κ × List α)}
    (a : α) (h : GInvSel key pre acc) : GInvSel key (pre ++ [a]) (gstepSel key acc a) := by
  unfold gstepSel
  simp only []
  split
  · rename_i hany
    have hmap : (acc.map (fun p => if p.1 == key a then (p.1, p.2 ++ [a]) else p)).map (·.1) = acc.map (·.1) := by
      rw [List.map_map]; apply List.map_congr_left; intro p _; simp only [Function.comp]; split <;> rfl
    refine ⟨by rw [hmap]; exact h.nodup, ?_, ?_⟩
    · intro p' hp'
      obtain ⟨p, hp, rfl⟩ := List.mem_map.mp hp'
      have := h.grp p hp
      split
      · rename_i hk
        have hk' : key a = p.1 := (eq_of_beq hk).symm
        simp [List.filter_append, this.1, hk']
      · rename_i hk
        have hk' : ¬ key a = p.1 := fun e => hk (by simp [e])
        simp [List.filter_append, hk']
        exact this
    · intro x hx
      rw [hmap]
      rcases List.mem_append.mp hx with hx | hx
      · exact h.cov x hx
      · simp at hx; subst hx
        obtain ⟨p, hp, hpk⟩ := List.any_eq_true.mp hany
        exact List.mem_map.mpr ⟨p, hp, eq_of_beq hpk⟩
  · rename_i hany
    have hnot : key a ∉ acc.map (·.1) := by
      intro hmem
      obtain ⟨p, hp, hpk⟩ := List.mem_map.mp hmem
      exact hany (List.any_eq_true.mpr ⟨p, hp, by simp [hpk]⟩)
    refine ⟨?_, ?_, ?_⟩
    · rw [List.map_append, List.nodup_append]
      refine ⟨h.nodup, by simp, ?_⟩
      intro x hx y hy
      simp at hy; subst hy
      intro e; exact hnot (e ▸ hx)
    · intro p hp
      rcases List.mem_append.mp hp with hp | hp
      · have := h.grp p hp
        have hk' : ¬ key a = p.1 := fun e => hnot (e ▸ List.mem_map.mpr ⟨p, hp, rfl⟩)
        simp [List.filter_append, hk']
        exact this
      · simp at hp; subst hp
        have : pre.filter (fun x => key x == key a) = [] := by
          apply List.filter_eq_nil_iff.mpr
          intro x hx hxk
          exact hnot ((eq_of_beq hxk) ▸ h.cov x hx)
        simp [List.filter_append, this]
    · intro x hx
      rw [List.map_append]
      rcases List.mem_append.mp hx with hx | hx
      · exact List.mem_append_left _ (h.cov x hx)
      · simp at hx; subst hx; simp

theorem foldl_gstep_inv {α κ} [BEq κ] [LawfulBEq κ] {key : α → κ} (l : List α) {pre : List α}
    {acc : List (κ × List α)} (h : GInvSel key pre acc) :
    GInvSel key (pre ++ l) (l.foldl (gstepSel key) acc) := by
  induction l generalizing pre acc with
  | nil => simpa using h
  | cons a l ih =>
    have := ih (gstep_inv a h)
    simpa [List.append_assoc] using this

theorem groupBy_inv_sel {α κ} [BEq κ] [LawfulBEq κ] (key : α → κ) (l : List α) :
    GInvSel key l (groupBy key l) := by
  have := foldl_gstep_inv (key := key) l (pre := []) (acc := []) ⟨by simp, by simp, by simp⟩
  simpa [groupBy_eq_foldl_sel] using this

/-! ### `metasOf` -/

theorem metasOf_foldl_inv (l : List Cell) (pre : List Cell) (acc : List Metadata)
    (h : acc.Nodup ∧ (∀ m ∈ acc, ∃ c ∈ pre, c.md = m) ∧ (∀ c ∈ pre, c.md ∈ acc)) :
    let r := l.foldl (fun acc c => if acc.contains c.md then acc else acc ++ [c.md]) acc
    r.Nodup ∧ (∀ m ∈ r, ∃ c ∈ pre ++ l, c.md = m) ∧ (∀ c ∈ pre ++ l, c.md ∈ r) := by
  induction l generalizing pre acc with
  | nil => simpa using h
  | cons a l ih =>
    simp only [List.foldl_cons]
    have key : pre ++ a :: l = (pre ++ [a]) ++ l := by simp
    rw [key]
    apply ih
    obtain ⟨h1, h2, h3⟩ := h
    split
    · rename_i hc
      have hc' : a.md ∈ acc := by simpa using hc
      refine ⟨h1, fun m hm => ?_, fun c hc => ?_⟩
      · obtain ⟨c, hc, e⟩ := h2 m hm; exact ⟨c, by simp [hc], e⟩
      · rcases List.mem_append.mp hc with hc | hc
        · exact h3 c hc
        · simp at hc; subst hc; exact hc'
    · rename_i hc
      have hc' : a.md ∉ acc := by simpa using hc
      refine ⟨?_, fun m hm => ?_, fun c hc => ?_⟩
      · rw [List.nodup_append]
        refine ⟨h1, by simp, ?_⟩
        intro x hx y hy
        simp at hy; subst hy
        intro e; exact hc' (e ▸ hx)
      · rcases List.mem_append.mp hm with hm | hm
        · obtain ⟨c, hc, e⟩ := h2 m hm; exact ⟨c, by simp [hc], e⟩
        · simp at hm; subst hm; exact ⟨a, by simp, rfl⟩
      · rcases List.mem_append.mp hc with hc | hc
        · exact List.mem_append_left _ (h3 c hc)
        · simp at hc; subst hc; simp

theorem metasOf_spec (t : List Cell) :
    (metasOf t).Nodup ∧ (∀ m ∈ metasOf t, ∃ c ∈ t, c.md = m) ∧ (∀ c ∈ t, c.md ∈ metasOf t) := by
  have := metasOf_foldl_inv t [] [] ⟨by simp, by simp, by simp⟩
  simpa [metasOf] using this

/-! ### the last element of a stable sort is a maximum -/

theorem lastBy?_spec {α : Type} {cmp : α → α → Ordering} [TransCmp cmp] {l : List α} (hl : l ≠ []) :
    ∃ c, lastBy? (leOf cmp) l = some c ∧ c ∈ l ∧ ∀ x ∈ l, leOf cmp x c = true := by
  unfold lastBy?
  have hperm : (l.mergeSort (leOf cmp)).Perm l := List.mergeSort_perm _ _
  have hs := sorted_mergeSort (cmp := cmp) l
  generalize l.mergeSort (leOf cmp) = s at hperm hs
  have hne : s ≠ [] := by
    intro h; subst h
    exact hl (List.Perm.nil_eq hperm).symm
  refine ⟨s.getLast hne, List.getLast?_eq_some_getLast hne, hperm.mem_iff.mp (List.getLast_mem hne), ?_⟩
  intro x hx
  have hx' : x ∈ s := hperm.mem_iff.mpr hx
  rw [← List.dropLast_concat_getLast hne] at hs hx'
  rcases List.mem_append.mp hx' with h | h
  · exact (List.pairwise_append.mp hs).2.2 x h _ (by simp)
  · simp at h; subst h
    have := leOf_total (cmp := cmp) (s.getLast hne) (s.getLast hne)
    simpa using this


end Bermuda
