/-
Auxiliary definitions and helper lemmas for the C11 property file (moved out of
`Properties/C11.lean` so that the property file holds property statements only). They keep the
namespace `Bermuda.Properties.C11`, so every fully qualified name is unchanged.
-/
import Bermuda.Model.Select
import Bermuda.Spec.C11
import Bermuda.Lemmas.Select
namespace Bermuda.Properties.C11
open Bermuda Std Bermuda.Spec.C11

/-- the triangle is in canonical form (what `Triangle(...)` always returns, C01): sorted and of
one cell class -/
def Canon (t : List Cell) : Prop :=
  t.Pairwise (fun a b => Cell.le a b) ∧ kindsConsistent t = true

theorem Canon.sublist {t s : List Cell} (ht : Canon t) (hs : s.Sublist t) : Canon s :=
  ⟨ht.1.sublist hs, kindsConsistent_sublist_sel hs ht.2⟩

/-- filter on a canonical triangle: the constructor has nothing to reorder -/
theorem filterP_canon {t : List Cell} (ht : Canon t) (p : Cell → Bool) :
    Triangle.filterP t p = .ok (t.filter p) :=
  ofCells_sublist List.filter_sublist ht.1 ht.2

theorem clipFull_canon {t : List Cell} (ht : Canon t) (a : ClipFull) (u : LagUnit) (hu : a.unit = some u) :
    Triangle.clipFull t a = .ok (t.filter (clipKeep a u)) := by
  rw [clipFull_eq t a u hu]
  exact ofCells_sublist List.filter_sublist ht.1 ht.2

theorem slices_eq_aux {t : List Cell} (ht : Canon t) :
    Triangle.slices t = (metasOf t).map fun m => (m, t.filter (fun c => c.md == m)) := by
  unfold Triangle.slices
  apply List.map_congr_left
  intro m _
  congr 1
  exact List.mergeSort_of_pairwise (ht.1.sublist List.filter_sublist)

theorem maskKeep_sublist (t : List Cell) (mask : List Bool) : (maskKeep t mask).Sublist t := by
  unfold maskKeep
  induction t generalizing mask with
  | nil => simp
  | cons c t ih =>
    cases mask with
    | nil => simp
    | cons b mask =>
      simp only [List.zip_cons_cons, List.filterMap_cons]
      cases b
      · simpa using (ih mask).cons c
      · simpa using (ih mask).cons_cons c

theorem flatMap_congr_mem {α β} (l : List α) (f g : α → List β) (h : ∀ a ∈ l, f a = g a) :
    l.flatMap f = l.flatMap g := by
  induction l with
  | nil => rfl
  | cons a l ih =>
    simp only [List.flatMap_cons, h a (by simp), ih (fun x hx => h x (by simp [hx]))]

theorem mapM_ok_of_forall {α β} (f : α → Except Err β) (g : α → β) (l : List α)
    (h : ∀ a ∈ l, f a = .ok (g a)) : l.mapM f = .ok (l.map g) := by
  induction l with
  | nil => rfl
  | cons a l ih =>
    rw [List.mapM_cons, h a (by simp), ih (fun x hx => h x (by simp [hx]))]
    rfl

theorem select_cmp (a b : Cell) (keys : List String) :
    Cell.cmp (a.select keys) (b.select keys) = Cell.cmp a b := rfl

/-- the result of `__getitem__` as a function of the filtered cell list -/
def itemResult (p e : DateIdx) (m : MetaIdx) (r : List Cell) : Except Err (List Cell ⊕ Cell) :=
  if p.isSlice || e.isSlice || m.isSlice then .ok (.inl r)
  else match r with
    | [] => .error .indexError
    | c :: _ => .ok (.inr c)

theorem date_between_self (d x : Date) : (decide (d ≤ x) && decide (x ≤ d)) = (x == d) := by
  by_cases h : x = d
  · subst h; simp [Date.le_refl]
  · have : ¬ (d ≤ x ∧ x ≤ d) := fun hh => h (Date.le_antisymm hh.2 hh.1)
    have h' : (x == d) = false := by simpa using h
    rw [h']
    by_cases h1 : d ≤ x <;> by_cases h2 : x ≤ d <;> simp_all

/-- what a period / evaluation index keeps -/
def idxKeep : DateIdx → Date → Bool
  | .scalar d, x => x == d
  | .slice lo hi, x => inDates lo hi x
  | .bad, _ => false

def metaKeep : MetaIdx → Cell → Bool
  | .is md, c => c.md == md
  | .junk _, _ => false
  | _, _ => true

theorem itemKeep_eq (p e : DateIdx) (m : MetaIdx) (c : Cell) :
    itemKeep p e m c = (metaKeep m c && idxKeep p c.ps && idxKeep e c.ev) := by
  cases m <;> cases p <;> cases e <;> rfl

theorem periodBounds_keep {p : DateIdx} {ps pe : Date} (h : p.periodBounds = .ok (ps, pe)) (x : Date)
    (hx : Date.min ≤ x ∧ x ≤ Date.max) : (decide (ps ≤ x) && decide (x ≤ pe)) = idxKeep p x := by
  cases p with
  | scalar d =>
    simp only [DateIdx.periodBounds, Except.ok.injEq, Prod.mk.injEq] at h
    obtain ⟨rfl, rfl⟩ := h
    exact date_between_self _ x
  | slice lo hi =>
    simp only [DateIdx.periodBounds, Except.ok.injEq, Prod.mk.injEq] at h
    obtain ⟨rfl, rfl⟩ := h
    cases lo <;> cases hi <;> simp [idxKeep, inDates, hx.1, hx.2]
  | bad => cases h

theorem evalBounds_keep {e : DateIdx} {es ee : Option Date} (h : e.evalBounds = .ok (es, ee)) (c : Cell) :
    clipKeep { minEval := es, maxEval := ee } .month c = idxKeep e c.ev := by
  cases e with
  | scalar d =>
    simp only [DateIdx.evalBounds, Except.ok.injEq, Prod.mk.injEq] at h
    obtain ⟨rfl, rfl⟩ := h
    simpa [clipKeep, inDates, inLags, idxKeep] using date_between_self d c.ev
  | slice lo hi =>
    simp only [DateIdx.evalBounds, Except.ok.injEq, Prod.mk.injEq] at h
    obtain ⟨rfl, rfl⟩ := h
    simp [clipKeep, inDates, inLags, idxKeep]
  | bad => cases h

/-- `__getitem__` after the metadata stage -/
def tailPipe (filtered : List Cell) (p e : DateIdx) (m : MetaIdx) : Except Err (List Cell ⊕ Cell) := do
  let (ps, pe) ← p.periodBounds
  let filtered ← Triangle.filterP filtered (fun c => ps ≤ c.ps && c.ps ≤ pe)
  let (es, ee) ← e.evalBounds
  let clipped ← Triangle.clipFull filtered { minEval := es, maxEval := ee }
  if p.isSlice || e.isSlice || m.isSlice then
    return .inl clipped
  else
    match clipped with
    | [] => throw .indexError
    | c :: _ => return .inr c

/-- the metadata stage of `__getitem__` -/
def metaStage (t : List Cell) (m : MetaIdx) : Except Err (List Cell) :=
  match m with
  | .is md => Triangle.filterP t (fun c => c.md == md)
  | .junk _ => Triangle.filterP t (fun _ => false)
  | _ => pure t

theorem getItem_unfold (t : List Cell) (p e : DateIdx) (m : MetaIdx) :
    Triangle.getItem t p e m = metaStage t m >>= fun f => tailPipe f p e m := by
  unfold Triangle.getItem tailPipe metaStage
  cases m <;> rfl

theorem metaStage_canon {t : List Cell} (ht : Canon t) (m : MetaIdx) :
    metaStage t m = .ok (t.filter (metaKeep m)) := by
  cases m with
  | is md => exact filterP_canon ht _
  | junk b => exact filterP_canon ht _
  | none => exact congrArg Except.ok (List.filter_eq_self.mpr (fun _ _ => rfl)).symm
  | all => exact congrArg Except.ok (List.filter_eq_self.mpr (fun _ _ => rfl)).symm

theorem tailPipe_eq {f : List Cell} (hf : Canon f) (hr : ∀ c ∈ f, Date.min ≤ c.ps ∧ c.ps ≤ Date.max)
    (p e : DateIdx) (m : MetaIdx) (hp : p ≠ .bad) (he : e ≠ .bad) :
    tailPipe f p e m = itemResult p e m (f.filter (fun c => idxKeep p c.ps && idxKeep e c.ev)) := by
  obtain ⟨ps, pe, hpb⟩ : ∃ ps pe, p.periodBounds = .ok (ps, pe) := by
    cases p with
    | scalar d => exact ⟨d, d, rfl⟩
    | slice s e => exact ⟨_, _, rfl⟩
    | bad => exact absurd rfl hp
  obtain ⟨es, ee, heb⟩ : ∃ es ee, e.evalBounds = .ok (es, ee) := by
    cases e with
    | scalar d => exact ⟨some d, some d, rfl⟩
    | slice s e => exact ⟨_, _, rfl⟩
    | bad => exact absurd rfl he
  have c2 : Canon (f.filter (fun c => decide (ps ≤ c.ps) && decide (c.ps ≤ pe))) :=
    hf.sublist List.filter_sublist
  have key : f.filter (fun c => idxKeep p c.ps && idxKeep e c.ev) =
      ((f.filter (fun c => decide (ps ≤ c.ps) && decide (c.ps ≤ pe))).filter
        (clipKeep { minEval := es, maxEval := ee } .month)) := by
    rw [List.filter_filter]
    apply List.filter_congr
    intro c hc
    rw [periodBounds_keep hpb c.ps (hr c hc), evalBounds_keep heb c]
    simp [Bool.and_comm]
  unfold tailPipe
  simp only [hpb, heb, bind, Except.bind, filterP_canon hf,
    clipFull_canon c2 { minEval := es, maxEval := ee } .month rfl, ← key]
  unfold itemResult
  split
  · rfl
  · cases f.filter (fun c => idxKeep p c.ps && idxKeep e c.ev) <;> rfl

/-- the list `right_edge` hands to the constructor: per slice, per period, the last cell by
evaluation date -/
def rightEdgeRows (t : List Cell) : List Cell :=
  (Triangle.slices t).flatMap fun p =>
    (groupBy (fun c : Cell => (c.ps, c.pe)) p.2).filterMap fun q =>
      lastBy? (fun a b => Date.cmp a.ev b.ev != .gt) q.2

theorem rightEdge_eq (t : List Cell) : Triangle.rightEdge t = Triangle.ofCells (rightEdgeRows t) := rfl

/-- comparison of cells by evaluation date, as used for the rows of `right_edge` -/
def evCmp : Cell → Cell → Ordering := cmpOn (·.ev) Date.cmp

instance : TransCmp evCmp := by unfold evCmp; infer_instance

theorem rows_eq (t : List Cell) (ht : Canon t) :
    rightEdgeRows t = (metasOf t).flatMap fun m =>
      (groupBy (fun c : Cell => (c.ps, c.pe)) (t.filter (fun c => c.md == m))).filterMap fun q =>
        lastBy? (leOf evCmp) q.2 := by
  unfold rightEdgeRows
  rw [slices_eq_aux ht, List.flatMap_map]
  rfl

theorem sameRow_iff (a b : Cell) : sameRow a b = true ↔ a.md = b.md ∧ (a.ps, a.pe) = (b.ps, b.pe) := by
  simp [sameRow, and_assoc]

theorem mem_rows {t : List Cell} (ht : Canon t) {c : Cell} (hc : c ∈ rightEdgeRows t) :
    ∃ m ∈ metasOf t, ∃ q ∈ groupBy (fun c : Cell => (c.ps, c.pe)) (t.filter (fun c => c.md == m)),
      lastBy? (leOf evCmp) q.2 = some c ∧
      q.2 = (t.filter (fun c => c.md == m)).filter (fun c => (c.ps, c.pe) == q.1) := by
  rw [rows_eq t ht] at hc
  obtain ⟨m, hm, hc⟩ := List.mem_flatMap.mp hc
  obtain ⟨q, hq, hl⟩ := List.mem_filterMap.mp hc
  exact ⟨m, hm, q, hq, hl, ((groupBy_inv_sel _ _).grp q hq).1⟩

theorem le_of_same_md {a b : Cell} (hm : a.md = b.md)
    (h : (compareLex (cmpOn (·.ps) Date.cmp) (compareLex (cmpOn (·.pe) Date.cmp)
      (compareLex (cmpOn (·.ev) Date.cmp) (cmpOn (·.prev) optDateCmp)))) a b ≠ .gt) :
    Cell.le a b = true := by
  unfold Cell.le Cell.cmp
  simp only [compareLex, cmpOn, hm, ReflCmp.compare_self (cmp := Metadata.cmp), Ordering.eq_then]
  simpa [compareLex, cmpOn] using h

theorem singleSlice_iff (t : List Cell) :
    singleSlice t = true ↔ ∀ a ∈ t, ∀ b ∈ t, a.md = b.md := by
  cases t with
  | nil => simp [singleSlice]
  | cons c rest =>
    simp only [singleSlice, List.all_eq_true, beq_iff_eq, List.mem_cons, forall_eq_or_imp]
    constructor
    · intro h
      refine ⟨⟨trivial, fun b hb => (h b hb).symm⟩, fun a ha => ⟨h a ha, fun b hb => (h a ha).trans (h b hb).symm⟩⟩
    · intro h b hb
      exact (h.2 b hb).1

theorem singleSlice_perm {a b : List Cell} (h : a.Perm b) : singleSlice a = singleSlice b := by
  rw [Bool.eq_iff_iff, singleSlice_iff, singleSlice_iff]
  constructor
  · intro H x hx y hy; exact H x (h.mem_iff.mpr hx) y (h.mem_iff.mpr hy)
  · intro H x hx y hy; exact H x (h.mem_iff.mp hx) y (h.mem_iff.mp hy)

theorem singleSlice_sublist {s t : List Cell} (hs : s.Sublist t) (h : singleSlice t = true) :
    singleSlice s = true := by
  rw [singleSlice_iff] at *
  exact fun a ha b hb => h a (hs.subset ha) b (hs.subset hb)

theorem slices_length (t : List Cell) : (Triangle.slices t).length = (metasOf t).length := by
  simp [Triangle.slices]

/-- the number of slices exceeds one exactly when two cells differ in metadata -/
theorem metasOf_length_le_one_iff (t : List Cell) :
    (metasOf t).length ≤ 1 ↔ singleSlice t = true := by
  obtain ⟨hnd, hmem, hcov⟩ := metasOf_spec t
  rw [singleSlice_iff]
  constructor
  · intro h a ha b hb
    have h1 := hcov a ha
    have h2 := hcov b hb
    match hm : metasOf t, h, h1, h2 with
    | [], _, h1, _ => simp at h1
    | [x], _, h1, h2 =>
      simp only [List.mem_singleton] at h1 h2
      exact h1.trans h2.symm
    | _ :: _ :: _, h, _, _ => simp at h
  · intro h
    match hm : metasOf t with
    | [] => simp
    | [x] => simp
    | x :: y :: rest =>
      exfalso
      rw [hm] at hnd hmem
      obtain ⟨a, ha, ea⟩ := hmem x (by simp)
      obtain ⟨b, hb, eb⟩ := hmem y (by simp)
      have : x = y := by rw [← ea, ← eb]; exact h a ha b hb
      simp [this] at hnd

theorem within_eq_idxKeep : within = idxKeep := by
  funext i x; cases i <;> rfl

theorem bounds_of_ne_bad {p e : DateIdx} (hp : p ≠ .bad) (he : e ≠ .bad) :
    (∃ ps pe, p.periodBounds = .ok (ps, pe)) ∧ (∃ es ee, e.evalBounds = .ok (es, ee)) := by
  constructor
  · cases p with
    | scalar d => exact ⟨d, d, rfl⟩
    | slice s e => exact ⟨_, _, rfl⟩
    | bad => exact absurd rfl hp
  · cases e with
    | scalar d => exact ⟨some d, some d, rfl⟩
    | slice s e => exact ⟨_, _, rfl⟩
    | bad => exact absurd rfl he

theorem pySlice_eq_clamp {α} (l : List α) (i j : Option Int) :
    pySlice l i j = (l.take (clampPos l.length j l.length)).drop (clampPos l.length i 0) := by
  have hn : ∀ (x : Int) (d : Nat),
      (if x < 0 then max 0 (x + (l.length : Int)) else min x l.length).toNat =
        clampPos l.length (some x) d := by
    intro x d; simp only [clampPos]; split <;> omega
  cases i <;> cases j <;> simp only [pySlice, hn _ 0] <;> simp [clampPos]

/-- a component that is neither a date nor a slice (a `Metadata`, `None`, a string …) in the
period or evaluation position is refused -/
theorem toDateIdx_bad_iff (x : IdxVal) :
    x.toDateIdx = .bad ↔ (∀ d, x ≠ .date d) ∧ (∀ s e, x ≠ .slice s e) := by
  cases x <;> simp [IdxVal.toDateIdx]

theorem kindsConsistent_of_subset {s l : List Cell} (hs : ∀ c ∈ s, c ∈ l)
    (hk : kindsConsistent l = true) : kindsConsistent s = true := by
  unfold kindsConsistent at *
  simp only [Bool.or_eq_true, List.all_eq_true] at *
  rcases hk with (hk | hk) | hk
  · exact Or.inl (Or.inl fun c hc => hk c (hs c hc))
  · exact Or.inl (Or.inr fun c hc => hk c (hs c hc))
  · exact Or.inr fun c hc => hk c (hs c hc)

theorem dedupFold_inv {α} [BEq α] [LawfulBEq α] (l acc : List α) (h : acc.Nodup) :
    (l.foldl (fun acc x => if acc.contains x then acc else acc ++ [x]) acc).Nodup ∧
    ∀ x, x ∈ l.foldl (fun acc x => if acc.contains x then acc else acc ++ [x]) acc ↔ x ∈ acc ∨ x ∈ l := by
  induction l generalizing acc with
  | nil => simp [h]
  | cons a l ih =>
    simp only [List.foldl_cons]
    by_cases hc : acc.contains a = true
    · have ha : a ∈ acc := by simpa using hc
      simp only [hc, if_true]
      refine ⟨(ih acc h).1, fun x => ?_⟩
      rw [(ih acc h).2 x]
      constructor
      · rintro (h | h)
        · exact Or.inl h
        · exact Or.inr (List.mem_cons_of_mem _ h)
      · rintro (h | h)
        · exact Or.inl h
        · rcases List.mem_cons.mp h with rfl | h
          · exact Or.inl ha
          · exact Or.inr h
    · have ha : a ∉ acc := by simpa using hc
      have hn : (acc ++ [a]).Nodup := by
        rw [List.nodup_append]
        refine ⟨h, by simp, ?_⟩
        intro x hx y hy
        simp at hy; subst hy
        intro e; exact ha (e ▸ hx)
      simp only [hc, Bool.false_eq_true, if_false]
      refine ⟨(ih _ hn).1, fun x => ?_⟩
      rw [(ih _ hn).2 x]
      simp only [List.mem_append, List.mem_cons, List.not_mem_nil, or_false]
      constructor
      · rintro ((h | h) | h)
        · exact Or.inl h
        · exact Or.inr (Or.inl h)
        · exact Or.inr (Or.inr h)
      · rintro (h | h | h)
        · exact Or.inl (Or.inl h)
        · exact Or.inl (Or.inr h)
        · exact Or.inr h

/-- `len(set(xs)) > 1` exactly when two entries differ -/
theorem distinctCount_gt_one_iff {α} [BEq α] [LawfulBEq α] (xs : List α) :
    1 < distinctCount xs ↔ ∃ a ∈ xs, ∃ b ∈ xs, a ≠ b := by
  obtain ⟨hnd, hmem⟩ := dedupFold_inv xs [] (by simp)
  unfold distinctCount
  generalize xs.foldl (fun acc x => if acc.contains x then acc else acc ++ [x]) [] = r at hnd hmem
  simp only [List.not_mem_nil, false_or] at hmem
  constructor
  · intro h
    match r, hnd, hmem, h with
    | x :: y :: rest, hnd, hmem, _ =>
      refine ⟨x, (hmem x).mp (by simp), y, (hmem y).mp (by simp), ?_⟩
      intro e; subst e; simp at hnd
  · rintro ⟨a, ha, b, hb, hne⟩
    match r, hnd, hmem with
    | [], _, hmem => exact absurd ((hmem a).mpr ha) (by simp)
    | [x], _, hmem =>
      have h1 := (hmem a).mpr ha
      have h2 := (hmem b).mpr hb
      simp only [List.mem_singleton] at h1 h2
      exact absurd (h1.trans h2.symm) hne
    | _ :: _ :: _, _, _ => simp

theorem raggedIn_eq (l : List (Metadata × List Cell)) (f : List Cell → List Cell)
    (h : ∀ p ∈ l, Triangle.rightEdge p.2 = .ok (f p.2)) :
    raggedIn l = .ok (l.any fun p => decide (1 < distinctCount ((f p.2).map (·.ev)))) := by
  induction l with
  | nil => rfl
  | cons p l ih =>
    obtain ⟨m, slc⟩ := p
    have h0 := h (m, slc) (by simp)
    simp only [] at h0
    simp only [raggedIn, h0, bind, Except.bind, List.any_cons]
    by_cases hd : 1 < distinctCount ((f slc).map (·.ev))
    · simp [hd, pure, Except.pure]
    · have : ¬ distinctCount ((f slc).map (·.ev)) > 1 := hd
      simp only [this, if_false, decide_false, Bool.false_or]
      exact ih (fun p hp => h p (by simp [hp]))

theorem nodupB_iff {α} [BEq α] [LawfulBEq α] (l : List α) : nodupB l = true ↔ l.Nodup := by
  induction l with
  | nil => simp [nodupB]
  | cons a l ih => simp [nodupB, ih]

theorem sum_length_eq {κ} (gs : List (κ × List Cell)) :
    (gs.map (·.2.length)).sum = (gs.flatMap (·.2)).length := by
  induction gs with
  | nil => rfl
  | cons g gs ih => simp only [List.map_cons, List.sum_cons, List.flatMap_cons, List.length_append, ih]

theorem detailKey_eq_splitKey (keys : List String) (c : Cell) : detailKey keys c = splitKey keys c := by
  unfold detailKey splitKey
  apply List.map_congr_left
  intro k _
  unfold Dict.get?
  cases c.md.details.find? (fun kv => kv.1 == k) <;> rfl

theorem countP_eq_one {α} {l : List α} {P : α → Bool} (hex : ∃ x ∈ l, P x = true)
    (hpw : l.Pairwise (fun a b => ¬ (P a = true ∧ P b = true))) : l.countP P = 1 := by
  induction l with
  | nil => obtain ⟨x, hx, _⟩ := hex; cases hx
  | cons a l ih =>
    rw [List.pairwise_cons] at hpw
    by_cases ha : P a = true
    · have : l.countP P = 0 := by
        rw [List.countP_eq_zero]
        intro x hx hpx
        exact hpw.1 x hx ⟨ha, hpx⟩
      simp [ha, this]
    · obtain ⟨x, hx, hpx⟩ := hex
      have hx' : x ∈ l := by
        rcases List.mem_cons.mp hx with rfl | h
        · exact absurd hpx ha
        · exact h
      simp [ha, ih ⟨x, hx', hpx⟩ hpw.2]

theorem le_of_md_lt {a b : Cell} (h : Metadata.cmp a.md b.md = .lt) : Cell.le a b = true := by
  unfold Cell.le Cell.cmp
  simp [compareLex, cmpOn, h]

end Bermuda.Properties.C11
