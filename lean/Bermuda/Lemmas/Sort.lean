/-
Facts about the stable sort (`List.mergeSort`) under a transitive, oriented comparison:
sortedness, permutation, and uniqueness of the result — which is why Python's Timsort need not
be modelled: any stable sort by a total preorder gives the same list.
-/
import Bermuda.Lemmas.Order
namespace Bermuda
open Std

variable {α : Type} {cmp : α → α → Ordering}

/-- `not (b < a)` as a Bool: the `le` handed to the sort -/
def leOf (cmp : α → α → Ordering) (a b : α) : Bool := cmp a b != .gt

theorem leOf_iff_isLE {a b : α} : leOf cmp a b = true ↔ (cmp a b).isLE = true := by
  unfold leOf; cases cmp a b <;> simp

theorem leOf_trans [TransCmp cmp] (a b c : α) : leOf cmp a b → leOf cmp b c → leOf cmp a c := by
  simp only [leOf_iff_isLE]; exact TransCmp.isLE_trans

theorem leOf_total [OrientedCmp cmp] (a b : α) : (leOf cmp a b || leOf cmp b a) = true := by
  unfold leOf
  rw [OrientedCmp.eq_swap (cmp := cmp) (a := b) (b := a)]
  cases cmp a b <;> simp

theorem leOf_antisymm [OrientedCmp cmp] {a b : α} (h1 : leOf cmp a b) (h2 : leOf cmp b a) :
    cmp a b = .eq := by
  unfold leOf at h1 h2
  rw [OrientedCmp.eq_swap (cmp := cmp) (a := b) (b := a)] at h2
  revert h1 h2
  cases cmp a b <;> simp

theorem sorted_mergeSort [TransCmp cmp] (l : List α) :
    (l.mergeSort (leOf cmp)).Pairwise (fun a b => leOf cmp a b) :=
  List.pairwise_mergeSort leOf_trans leOf_total l

/-- two sorted permutations of each other are equal when `cmp = .eq` means equality on the
elements -/
theorem sorted_perm_unique [TransCmp cmp] {l₁ l₂ : List α}
    (heq : ∀ a b, a ∈ l₁ → b ∈ l₂ → cmp a b = .eq → a = b)
    (h₁ : l₁.Pairwise (fun a b => leOf cmp a b)) (h₂ : l₂.Pairwise (fun a b => leOf cmp a b))
    (hp : l₁.Perm l₂) : l₁ = l₂ :=
  List.Perm.eq_of_pairwise (le := fun a b => leOf cmp a b = true)
    (fun a b ha hb hab hba => heq a b ha hb (leOf_antisymm hab hba)) h₁ h₂ hp

/-- the stable sort of a list depends only on the multiset when ties are identical elements -/
theorem mergeSort_perm_invariant [TransCmp cmp] {l₁ l₂ : List α} (hp : l₁.Perm l₂)
    (heq : ∀ a b, a ∈ l₁ → b ∈ l₁ → cmp a b = .eq → a = b) :
    l₁.mergeSort (leOf cmp) = l₂.mergeSort (leOf cmp) := by
  apply sorted_perm_unique (cmp := cmp)
  · intro a b ha hb
    have ha' : a ∈ l₁ := (List.mergeSort_perm l₁ _).mem_iff.mp ha
    have hb' : b ∈ l₁ := hp.mem_iff.mpr ((List.mergeSort_perm l₂ _).mem_iff.mp hb)
    exact heq a b ha' hb'
  · exact sorted_mergeSort l₁
  · exact sorted_mergeSort l₂
  · exact (List.mergeSort_perm l₁ _).trans (hp.trans (List.mergeSort_perm l₂ _).symm)

/-- a sub-list (order kept) of a sorted list is sorted, so sorting it again changes nothing -/
theorem mergeSort_sublist_sorted {l s : List α} (hs : s.Sublist l)
    (hl : l.Pairwise (fun a b => leOf cmp a b)) : s.mergeSort (leOf cmp) = s :=
  List.mergeSort_of_pairwise (hl.sublist hs)

/-- in a sorted list, elements between two `cmp`-equal elements are `cmp`-equal to them:
blocks of equal keys are contiguous -/
theorem sorted_contiguous [TransCmp cmp] {l : List α} (hl : l.Pairwise (fun a b => leOf cmp a b))
    {i j k : Nat} (hij : i < j) (hjk : j < k) (hk : k < l.length)
    (h : cmp l[i] l[k] = .eq) : cmp l[i] l[j] = .eq := by
  have h1 : leOf cmp l[i] l[j] = true := List.pairwise_iff_getElem.mp hl i j (by omega) (by omega) hij
  have h2 : leOf cmp l[j] l[k] = true := List.pairwise_iff_getElem.mp hl j k (by omega) hk hjk
  have h3 : leOf cmp l[k] l[i] = true := by
    unfold leOf; rw [OrientedCmp.eq_swap (cmp := cmp), h]; simp
  exact leOf_antisymm h1 (leOf_trans _ _ _ h2 h3)

end Bermuda
