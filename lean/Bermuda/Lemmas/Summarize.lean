/-
Helper lemmas for C09 / C08: sample-wise arithmetic of cell values, association lists, the
first-error sequencing combinators, `summarize_cell_values`, grouping, metadata gcd. Core Lean only.
-/
import Bermuda.Model.Summarize
import Bermuda.Lemmas.Ops
namespace Bermuda

/-! ### sample-wise arithmetic -/

theorem getD_zipWith' (f : Rat → Rat → Rat) (d d' : List Rat) (i : Nat) (h : i < d.length)
    (h' : i < d'.length) : (List.zipWith f d d').getD i 0 = f (d.getD i 0) (d'.getD i 0) := by
  have : i < (List.zipWith f d d').length := by simp [List.length_zipWith]; omega
  rw [List.getD_eq_getElem?_getD, List.getD_eq_getElem?_getD, List.getD_eq_getElem?_getD,
    List.getElem?_eq_getElem this, List.getElem?_eq_getElem h, List.getElem?_eq_getElem h']
  simp

/-- `a + b` adds sample-wise (scalars broadcast) and keeps the index in range -/
theorem nAdd_at {a b r : Val} {i : Nat} (h : Val.nAdd a b = .ok r)
    (ha : a.inRange i = true) (hb : b.inRange i = true) :
    r.at i = a.at i + b.at i ∧ r.inRange i = true := by
  cases a <;> cases b <;> simp only [Val.nAdd] at h
  case arr.arr i1 s1 d1 i2 s2 d2 =>
    split at h
    · cases h
      simp only [Val.inRange, decide_eq_true_eq] at ha hb
      simp only [Val.at, Val.inRange, getD_zipWith' _ _ _ _ ha hb, List.length_zipWith,
        decide_eq_true_eq]
      exact ⟨trivial, by omega⟩
    · cases h
  all_goals first
    | (cases h; done)
    | (cases h
       simp only [Val.inRange, decide_eq_true_eq] at ha hb
       simp [Val.at, Val.inRange, ha, hb, Rat.intCast_add, Rat.add_comm])

theorem iAdd_at {a b r : Val} {i : Nat} (h : Val.iAdd a b = .ok r)
    (ha : a.inRange i = true) (hb : b.inRange i = true) :
    r.at i = a.at i + b.at i ∧ r.inRange i = true := by
  unfold Val.iAdd at h
  split at h
  · cases h
  · rename_i r' hr
    have := nAdd_at hr ha hb
    split at h
    · cases h
    · cases h; exact this

theorem at_of_isNone {v : Val} (h : v.isNone = true) (i : Nat) : v.at i = 0 := by
  cases v <;> simp_all [Val.isNone, Val.at]

theorem sumStep_at {t v r : Val} {i : Nat} (h : sumStep t v = .ok r)
    (ht : t.inRange i = true) (hv : v.inRange i = true) :
    r.at i = t.at i + v.at i ∧ r.inRange i = true := by
  unfold sumStep at h
  split at h
  · rename_i hn
    cases h
    rw [at_of_isNone hn]
    exact ⟨by simp [Rat.add_zero], ht⟩
  · split at h
    · cases h
    · exact iAdd_at h ht hv

theorem foldE_sumStep_at {vs : List Val} {t r : Val} {i : Nat}
    (h : smFoldE sumStep t vs = .ok r) (ht : t.inRange i = true)
    (hv : ∀ v ∈ vs, v.inRange i = true) :
    r.at i = t.at i + (vs.map (·.at i)).sum ∧ r.inRange i = true := by
  induction vs generalizing t with
  | nil => simp only [smFoldE] at h; cases h; simp [ht, Rat.add_zero]
  | cons v rest ih =>
    simp only [smFoldE] at h
    split at h
    · cases h
    · rename_i t' ht'
      have h1 := sumStep_at ht' ht (hv v (by simp))
      have h2 := ih h h1.2 (fun w hw => hv w (by simp [hw]))
      refine ⟨?_, h2.2⟩
      rw [h2.1, h1.1, List.map_cons, List.sum_cons, Rat.add_assoc]

/-- **`_conforming_sum` is the sample-wise sum** (missing values count 0) -/
theorem conformingSum_at {vs : List Val} {r : Val} {i : Nat} (h : conformingSum vs = .ok r)
    (hv : ∀ v ∈ vs, v.inRange i = true) :
    r.at i = (vs.map (·.at i)).sum ∧ r.inRange i = true := by
  have := foldE_sumStep_at (i := i) h (by simp [Val.inRange]) hv
  simpa [Val.at, Rat.zero_add] using this


/-! ### association lists -/

theorem Dict.get?_nil_s {α} (k : String) : Dict.get? ([] : Dict α) k = none := rfl

theorem Dict.get?_cons_s {α} (p : String × α) (d : Dict α) (k : String) :
    Dict.get? (p :: d) k = if p.1 = k then some p.2 else Dict.get? d k := by
  unfold Dict.get?
  by_cases h : p.1 = k
  · simp [h]
  · have : (p.1 == k) = false := by simpa using h
    simp [this, h]

theorem Dict.get?_eq_none_of_not_mem_keys {α} {d : Dict α} {k : String} (h : k ∉ d.keys) :
    d.get? k = none := by
  induction d with
  | nil => rfl
  | cons p d ih =>
    simp only [Dict.keys, List.map_cons, List.mem_cons, not_or] at h
    rw [Dict.get?_cons_s, if_neg (fun e => h.1 e.symm)]
    exact ih h.2

theorem Dict.get?_append {α} (a b : Dict α) (k : String) :
    Dict.get? (a ++ b) k = match Dict.get? a k with
      | some v => some v
      | none => Dict.get? b k := by
  induction a with
  | nil => simp [Dict.get?_nil_s]
  | cons p a ih =>
    rw [List.cons_append, Dict.get?_cons_s, Dict.get?_cons_s]
    split <;> simp_all

theorem Dict.get?_map_mk {α} (keys : List String) (F : String → α) (k : String) :
    Dict.get? (keys.map fun x => (x, F x)) k = if k ∈ keys then some (F k) else none := by
  induction keys with
  | nil => simp [Dict.get?_nil_s]
  | cons x xs ih =>
    rw [List.map_cons, Dict.get?_cons_s, ih]
    by_cases h : x = k
    · subst h; simp
    · have : ¬ k = x := fun e => h e.symm
      simp [h, this]

/-! ### sequencing -/

theorem smMapE_cons_ok {α β} {f : α → Except Err β} {a : α} {l : List α} {out : List β}
    (h : smMapE f (a :: l) = .ok out) :
    ∃ b bs, f a = .ok b ∧ smMapE f l = .ok bs ∧ out = b :: bs := by
  simp only [smMapE] at h
  split at h
  · cases h
  · rename_i b hb
    split at h
    · cases h
    · rename_i bs hbs
      cases h
      exact ⟨b, bs, hb, hbs, rfl⟩

theorem smMapE_length {α β} {f : α → Except Err β} {l : List α} {out : List β}
    (h : smMapE f l = .ok out) : out.length = l.length := by
  induction l generalizing out with
  | nil => simp only [smMapE] at h; cases h; rfl
  | cons a l ih =>
    obtain ⟨b, bs, _, hbs, rfl⟩ := smMapE_cons_ok h
    simp [ih hbs]

/-- element-wise reading of a successful `smMapE` -/
theorem smMapE_getElem {α β} {f : α → Except Err β} {l : List α} {out : List β}
    (h : smMapE f l = .ok out) (i : Nat) (hi : i < l.length) :
    f l[i] = .ok (out[i]'(by rw [smMapE_length h]; exact hi)) := by
  induction l generalizing out i with
  | nil => simp at hi
  | cons a l ih =>
    obtain ⟨b, bs, hb, hbs, rfl⟩ := smMapE_cons_ok h
    cases i with
    | zero => simpa using hb
    | succ j => simpa using ih hbs j (by simpa using hi)

theorem smMapE_mem {α β} {f : α → Except Err β} {l : List α} {out : List β}
    (h : smMapE f l = .ok out) {b : β} (hb : b ∈ out) : ∃ a ∈ l, f a = .ok b := by
  induction l generalizing out with
  | nil => simp only [smMapE] at h; cases h; simp at hb
  | cons a l ih =>
    obtain ⟨b', bs, hb', hbs, rfl⟩ := smMapE_cons_ok h
    rcases List.mem_cons.mp hb with rfl | hb
    · exact ⟨a, by simp, hb'⟩
    · obtain ⟨x, hx, hfx⟩ := ih hbs hb
      exact ⟨x, by simp [hx], hfx⟩

theorem smMapE_mem' {α β} {f : α → Except Err β} {l : List α} {out : List β}
    (h : smMapE f l = .ok out) {a : α} (ha : a ∈ l) : ∃ b ∈ out, f a = .ok b := by
  induction l generalizing out with
  | nil => simp at ha
  | cons x l ih =>
    obtain ⟨b', bs, hb', hbs, rfl⟩ := smMapE_cons_ok h
    rcases List.mem_cons.mp ha with rfl | ha
    · exact ⟨b', by simp, hb'⟩
    · obtain ⟨b, hb, hfb⟩ := ih hbs ha
      exact ⟨b, by simp [hb], hfb⟩

/-- a failing element makes `smMapE` fail (with the error of the FIRST failing element) -/
theorem smMapE_error_of_mem {α β} {f : α → Except Err β} {l : List α} {a : α} {e : Err}
    (ha : a ∈ l) (hf : f a = .error e) : ∃ e', smMapE f l = .error e' := by
  cases h : smMapE f l with
  | error e' => exact ⟨e', rfl⟩
  | ok out =>
    obtain ⟨b, _, hb⟩ := smMapE_mem' h ha
    rw [hf] at hb; cases hb

/-- dictionary reading of a successful keyed `smMapE` -/
theorem smMapE_get? {g : String → Except Err (String × Val)} {keys : List String} {d : Dict Val}
    (h : smMapE g keys = .ok d) (hk : ∀ k r, g k = .ok r → r.1 = k) (f : String) :
    (f ∈ keys → ∃ v, g f = .ok (f, v) ∧ d.get? f = some v) ∧ (f ∉ keys → d.get? f = none) := by
  induction keys generalizing d with
  | nil => simp only [smMapE] at h; cases h; simp [Dict.get?_nil_s]
  | cons k ks ih =>
    obtain ⟨b, bs, hb, hbs, rfl⟩ := smMapE_cons_ok h
    have hb1 := hk k b hb
    have ih' := ih hbs
    rw [Dict.get?_cons_s]
    by_cases hkf : k = f
    · subst hkf
      refine ⟨fun _ => ⟨b.2, ?_, by simp [hb1]⟩, fun hn => absurd (List.mem_cons_self) hn⟩
      rw [hb]; congr 1; exact Prod.ext hb1 rfl
    · have hne : ¬ b.1 = f := by rw [hb1]; exact hkf
      rw [if_neg hne]
      refine ⟨fun hm => ?_, fun hn => ?_⟩
      · rcases List.mem_cons.mp hm with rfl | hm
        · exact absurd rfl hkf
        · exact ih'.1 hm
      · exact ih'.2 (fun hm => hn (List.mem_cons_of_mem _ hm))

theorem smMapE_keys {g : String → Except Err (String × Val)} {keys : List String} {d : Dict Val}
    (h : smMapE g keys = .ok d) (hk : ∀ k r, g k = .ok r → r.1 = k) : d.keys = keys := by
  induction keys generalizing d with
  | nil => simp only [smMapE] at h; cases h; rfl
  | cons k ks ih =>
    obtain ⟨b, bs, hb, hbs, rfl⟩ := smMapE_cons_ok h
    simp only [Dict.keys, List.map_cons]
    rw [hk k b hb]; congr 1; exact ih hbs


/-! ### first-occurrence dedup -/

theorem mem_smDedupAux {α} [BEq α] [LawfulBEq α] {seen l : List α} {a : α} :
    a ∈ smDedupAux seen l ↔ a ∈ l ∧ a ∉ seen := by
  induction l generalizing seen with
  | nil => simp [smDedupAux]
  | cons x l ih =>
    simp only [smDedupAux]
    split
    · rename_i hx
      have hx' : x ∈ seen := by simpa using hx
      rw [ih]
      constructor
      · rintro ⟨h1, h2⟩; exact ⟨List.mem_cons_of_mem _ h1, h2⟩
      · rintro ⟨h1, h2⟩
        rcases List.mem_cons.mp h1 with rfl | h1
        · exact absurd hx' h2
        · exact ⟨h1, h2⟩
    · rename_i hx
      have hx' : x ∉ seen := by simpa using hx
      rw [List.mem_cons, ih]
      constructor
      · rintro (rfl | ⟨h1, h2⟩)
        · exact ⟨by simp, hx'⟩
        · exact ⟨List.mem_cons_of_mem _ h1, fun h => h2 (List.mem_cons_of_mem _ h)⟩
      · rintro ⟨h1, h2⟩
        by_cases hax : a = x
        · exact Or.inl hax
        · right
          rcases List.mem_cons.mp h1 with rfl | h1
          · exact absurd rfl hax
          · exact ⟨h1, fun h => by rcases List.mem_cons.mp h with rfl | h; exact hax rfl; exact h2 h⟩

theorem mem_smDedup {α} [BEq α] [LawfulBEq α] {l : List α} {a : α} : a ∈ smDedup l ↔ a ∈ l := by
  simp [smDedup, mem_smDedupAux]

theorem nodup_smDedupAux {α} [BEq α] [LawfulBEq α] (seen l : List α) : (smDedupAux seen l).Nodup := by
  induction l generalizing seen with
  | nil => simp [smDedupAux]
  | cons x l ih =>
    simp only [smDedupAux]
    split
    · exact ih seen
    · refine List.nodup_cons.mpr ⟨?_, ih _⟩
      rw [mem_smDedupAux]
      simp

theorem nodup_smDedup {α} [BEq α] [LawfulBEq α] (l : List α) : (smDedup l).Nodup :=
  nodup_smDedupAux [] l

/-! ### `summarize_cell_values` -/

theorem mem_valueKeys {cells : List Cell} {k : String} :
    k ∈ valueKeys cells ↔ ∃ c ∈ cells, k ∈ c.values.keys := by
  simp [valueKeys, mem_smDedup, List.mem_flatMap]

theorem getV_eq_none_of_not_mem_valueKeys {cells : List Cell} {k : String}
    (h : k ∉ valueKeys cells) : ∀ c ∈ cells, c.getV k = .none := by
  intro c hc
  have : k ∉ c.values.keys := fun hk => h (mem_valueKeys.mpr ⟨c, hc, hk⟩)
  simp [Cell.getV, Dict.get?_eq_none_of_not_mem_keys this]

theorem rawGet_rawValues {cells : List Cell} {keys : List String} {k : String} (h : k ∈ keys) :
    rawGet (rawValues cells keys) k = .ok (cells.map fun c => c.getV k) := by
  unfold rawGet rawValues
  rw [Dict.get?_map_mk, if_pos h]

theorem rawGet_rawValues_not_mem {cells : List Cell} {keys : List String} {k : String} (h : k ∉ keys) :
    rawGet (rawValues cells keys) k = .error .keyError := by
  unfold rawGet rawValues
  rw [Dict.get?_map_mk, if_neg h]

theorem aggKey_fst {tr : Transc} {extra : List RuleEntry} {raw : Dict (List Val)} {k : String}
    {r : String × Val} (h : aggKey tr extra raw k = .ok r) : r.1 = k := by
  unfold aggKey at h
  split at h
  · cases h
  · split at h
    · cases h
    · cases h; rfl

/-- the entry a sum rule produces -/
theorem aggKey_sum {tr : Transc} {extra : List RuleEntry} {cells : List Cell} {keys : List String}
    {f : String} {v : Val} (hr : ruleOf extra (lowerKey f) = some ⟨.sum, [f]⟩) (hf : f ∈ keys)
    (h : aggKey tr extra (rawValues cells keys) f = .ok (f, v)) :
    conformingSum (cells.map fun c => c.getV f) = .ok v := by
  unfold aggKey at h
  rw [hr] at h
  simp only [applyRule, rawGet_rawValues hf] at h
  split at h
  · cases h
  · rename_i v' hv'
    cases h
    exact hv'

theorem sum_map_zero {α} (l : List α) (g : α → Rat) (h : ∀ a ∈ l, g a = 0) : (l.map g).sum = 0 := by
  induction l with
  | nil => rfl
  | cons a l ih =>
    rw [List.map_cons, List.sum_cons, h a (by simp), ih (fun b hb => h b (by simp [hb]))]
    exact Rat.add_zero 0

/-- the first statement: an unknown field name is refused before anything is computed -/
theorem summarizeCellValues_unknown {tr : Transc} {extra : List RuleEntry} {cells : List Cell}
    {prem : Bool} (h : ∃ c ∈ cells, ∃ k ∈ c.values.keys, ruleOf extra (lowerKey k) = none) :
    summarizeCellValues tr extra cells prem = .error .triangleError := by
  obtain ⟨c, hc, k, hk, hr⟩ := h
  unfold summarizeCellValues
  have : (valueKeys cells).any (fun k => (ruleOf extra (lowerKey k)).isNone) = true := by
    rw [List.any_eq_true]
    exact ⟨k, mem_valueKeys.mpr ⟨c, hc, hk⟩, by simp [hr]⟩
  simp [this]

/-- **cell-level sum clause** (`summarize_premium = True`): a field whose rule is the sum of itself comes out
as the sample-wise sum over all cells, cells without the field counting 0 -/
theorem summarizeCellValues_sum_at {tr : Transc} {extra : List RuleEntry} {cells : List Cell}
    {d : Dict Val} {f : String} {i : Nat}
    (h : summarizeCellValues tr extra cells true = .ok d)
    (hr : ruleOf extra (lowerKey f) = some ⟨.sum, [f]⟩)
    (hin : ∀ c ∈ cells, (c.getV f).inRange i = true) :
    ((d.get? f).getD .none).at i = (cells.map fun c => (c.getV f).at i).sum ∧
    ((d.get? f).getD .none).inRange i = true := by
  unfold summarizeCellValues at h
  simp only at h
  split at h
  · cases h
  · simp only [if_true] at h
    have hg := smMapE_get? h (fun k r hk => aggKey_fst hk) f
    by_cases hf : f ∈ valueKeys cells
    · obtain ⟨v, hv, hd⟩ := hg.1 hf
      rw [hd]
      have hs := aggKey_sum hr hf hv
      have := conformingSum_at (i := i) hs (by
        intro w hw
        obtain ⟨c, hc, rfl⟩ := List.mem_map.mp hw
        exact hin c hc)
      simpa [List.map_map, Function.comp_def] using this
    · rw [hg.2 hf]
      refine ⟨?_, rfl⟩
      rw [sum_map_zero]
      · rfl
      · intro c hc
        rw [getV_eq_none_of_not_mem_valueKeys hf c hc]; rfl


open Generated.Summarize

theorem Dict.get?_map_val {α β} (d : Dict α) (g : α → β) (k : String) :
    Dict.get? (d.map fun p => (p.1, g p.2)) k = (Dict.get? d k).map g := by
  induction d with
  | nil => rfl
  | cons p d ih =>
    rw [List.map_cons, Dict.get?_cons_s, Dict.get?_cons_s, ih]
    split <;> simp

theorem distinct_foldl_head (l : List (Metadata × Nat)) (st : List Metadata × List Nat) (i : Nat)
    (tl : List Nat) (h : st.2 = i :: tl) : ∃ tl', (l.foldl distinctStep st).2 = i :: tl' := by
  induction l generalizing st tl with
  | nil => exact ⟨tl, h⟩
  | cons x l ih =>
    rw [List.foldl_cons]
    unfold distinctStep
    split
    · exact ih st tl h
    · exact ih _ (tl ++ [x.2]) (by simp [h])

/-- the first distinct index is always 0 -/
theorem nonLossDistinctIndices_head (c : Cell) (rest : List Cell) :
    ∃ tl, nonLossDistinctIndices (c :: rest) = 0 :: tl := by
  unfold nonLossDistinctIndices
  simp only [List.map_cons, List.zipIdx_cons, List.foldl_cons]
  exact distinct_foldl_head _ _ 0 [] (by simp [distinctStep])

theorem pickIdx_head {α} (tl : List Nat) (v : α) (vs : List α) :
    ∃ r, pickIdx (0 :: tl) (v :: vs) = v :: r := by
  unfold pickIdx
  simp [List.zipIdx_cons]

theorem firstNonLoss_fst {nl : Dict (List Val)} {k : String} {r : String × Val}
    (h : firstNonLoss nl k = .ok r) : r.1 = k := by
  unfold firstNonLoss at h
  split at h
  · cases h; rfl
  · cases h

/-- **`summarize_premium = False`, loss fields**: still the sample-wise sum over ALL cells -/
theorem summarizeCellValues_noprem_sum_at {tr : Transc} {extra : List RuleEntry} {cells : List Cell}
    {d : Dict Val} {f : String} {i : Nat}
    (h : summarizeCellValues tr extra cells false = .ok d)
    (hnl : f ∉ nonLossMetrics)
    (hr : ruleOf extra (lowerKey f) = some ⟨.sum, [f]⟩)
    (hin : ∀ c ∈ cells, (c.getV f).inRange i = true) :
    ((d.get? f).getD .none).at i = (cells.map fun c => (c.getV f).at i).sum ∧
    ((d.get? f).getD .none).inRange i = true := by
  unfold summarizeCellValues at h
  simp only at h
  split at h
  · cases h
  · simp only [Bool.false_eq_true, if_false] at h
    split at h
    · cases h
    · rename_i loss hloss
      split at h
      · cases h
      · rename_i nonLoss hnon
        cases h
        have hg := smMapE_get? hloss (fun k r hk => aggKey_fst hk) f
        have hkn := smMapE_keys hnon (fun k r hk => firstNonLoss_fst hk)
        have hnone : Dict.get? nonLoss f = none := by
          apply Dict.get?_eq_none_of_not_mem_keys
          rw [hkn, List.mem_filter]
          simp [hnl]
        by_cases hf : f ∈ valueKeys cells
        · have hf' : f ∈ (valueKeys cells).filter (fun k => !nonLossMetrics.contains k) := by
            rw [List.mem_filter]; exact ⟨hf, by simp [hnl]⟩
          obtain ⟨v, hv, hd⟩ := hg.1 hf'
          rw [Dict.get?_append, hd]
          have hs := aggKey_sum hr hf hv
          have := conformingSum_at (i := i) hs (by
            intro w hw
            obtain ⟨c, hc, rfl⟩ := List.mem_map.mp hw
            exact hin c hc)
          simpa [List.map_map, Function.comp_def] using this
        · have hf' : f ∉ (valueKeys cells).filter (fun k => !nonLossMetrics.contains k) :=
            fun hm => hf (List.mem_filter.mp hm).1
          rw [Dict.get?_append, hg.2 hf', hnone]
          refine ⟨?_, rfl⟩
          rw [sum_map_zero]
          · rfl
          · intro c hc
            rw [getV_eq_none_of_not_mem_valueKeys hf c hc]; rfl

theorem firstValue_cons_of_ne_none {v : Val} (l : List Val) (h : v ≠ .none) : firstValue (v :: l) = v := by
  cases v <;> first | exact absurd rfl h | rfl

/-- the first non-`None` value: either every value is `None` (result `None`) or the result is a member that is not `None` -/
theorem firstValue_spec (l : List Val) :
    (firstValue l = .none ∧ ∀ v ∈ l, v = .none) ∨ (firstValue l ≠ .none ∧ firstValue l ∈ l) := by
  induction l with
  | nil => left; exact ⟨rfl, by simp⟩
  | cons v l ih =>
    by_cases hv : v = .none
    · subst hv
      have e : firstValue (Val.none :: l) = firstValue l := rfl
      rw [e]
      rcases ih with ⟨h1, h2⟩ | ⟨h1, h2⟩
      · left; exact ⟨h1, by intro x hx; rcases List.mem_cons.mp hx with rfl | hx; rfl; exact h2 x hx⟩
      · right; exact ⟨h1, List.mem_cons_of_mem _ h2⟩
    · right
      rw [firstValue_cons_of_ne_none l hv]
      exact ⟨hv, List.mem_cons_self⟩

/-- **`summarize_premium = False`, premium/exposure fields** (D28 repaired): the value of the FIRST cell of the group that
has one (`None` if none has), not a sum -/
theorem summarizeCellValues_noprem_first {tr : Transc} {extra : List RuleEntry} {cells : List Cell}
    {d : Dict Val} {f : String}
    (h : summarizeCellValues tr extra cells false = .ok d)
    (hnl : f ∈ nonLossMetrics) (hf : f ∈ valueKeys cells) :
    d.get? f = some (firstValue (cells.map fun c => c.getV f)) := by
  unfold summarizeCellValues at h
  simp only at h
  split at h
  · cases h
  · simp only [Bool.false_eq_true, if_false] at h
    split at h
    · cases h
    · rename_i loss hloss
      split at h
      · cases h
      · rename_i nonLoss hnon
        cases h
        have hkl := smMapE_keys hloss (fun k r hk => aggKey_fst hk)
        have hnone : Dict.get? loss f = none := by
          apply Dict.get?_eq_none_of_not_mem_keys
          rw [hkl, List.mem_filter]
          simp [hnl]
        have hf' : f ∈ (valueKeys cells).filter (fun k => nonLossMetrics.contains k) := by
          rw [List.mem_filter]; exact ⟨hf, by simpa using hnl⟩
        obtain ⟨v, hv, hd⟩ := (smMapE_get? hnon (fun k r hk => firstNonLoss_fst hk) f).1 hf'
        rw [Dict.get?_append, hnone, hd]
        -- what `firstNonLoss` read
        unfold firstNonLoss at hv
        rw [rawValues, Dict.get?_map_mk, if_pos hf] at hv
        simp only at hv
        cases hv
        rfl



/-! ### `toolz.groupby` in closed form -/

theorem smDedupAux_append_singleton {α} [BEq α] [LawfulBEq α] (seen l : List α) (x : α) :
    smDedupAux seen (l ++ [x]) =
      if x ∈ seen ∨ x ∈ l then smDedupAux seen l else smDedupAux seen l ++ [x] := by
  induction l generalizing seen with
  | nil =>
    simp only [List.nil_append, smDedupAux, List.not_mem_nil, or_false, List.contains_eq_mem,
      decide_eq_true_eq]
  | cons a l ih =>
    simp only [List.cons_append, smDedupAux]
    split
    · rename_i ha
      rw [ih]
      have ha' : a ∈ seen := by simpa using ha
      by_cases hx : x ∈ seen
      · simp [hx]
      · have : x ≠ a := fun e => hx (e ▸ ha')
        simp [hx, this]
    · rename_i ha
      rw [ih]
      by_cases hxa : x = a
      · subst hxa; simp
      · simp [hxa, List.cons_append]
        split <;> simp_all

theorem smDedup_append_singleton {α} [BEq α] [LawfulBEq α] (l : List α) (x : α) :
    smDedup (l ++ [x]) = if x ∈ l then smDedup l else smDedup l ++ [x] := by
  simp [smDedup, smDedupAux_append_singleton]

/-- the closed form: distinct keys in first-occurrence order, each with the sub-list of its elements -/
def groupsOf {α κ} [BEq κ] (key : α → κ) (l : List α) : List (κ × List α) :=
  (smDedup (l.map key)).map fun k => (k, l.filter fun a => key a == k)

theorem groupBy_step {α κ} [BEq κ] [LawfulBEq κ] (key : α → κ) (pre : List α) (a : α) :
    (let k := key a
     if (groupsOf key pre).any (·.1 == k) then
       (groupsOf key pre).map (fun p => if p.1 == k then (p.1, p.2 ++ [a]) else p)
     else groupsOf key pre ++ [(k, [a])]) = groupsOf key (pre ++ [a]) := by
  simp only
  have hany : (groupsOf key pre).any (·.1 == key a) = true ↔ key a ∈ pre.map key := by
    simp [groupsOf, List.any_map, List.any_eq_true, mem_smDedup]
  by_cases hk : key a ∈ pre.map key
  · rw [if_pos (hany.mpr hk)]
    unfold groupsOf
    rw [List.map_append, List.map_singleton, smDedup_append_singleton, if_pos hk, List.map_map]
    apply List.map_congr_left
    intro k _
    simp only [Function.comp, List.filter_append, List.filter_cons, List.filter_nil]
    by_cases hkk : k = key a
    · subst hkk; simp
    · have h1 : (k == key a) = false := by simpa using hkk
      have h2 : (key a == k) = false := by simpa using fun e => hkk e.symm
      simp [h1, h2]
  · have hany' : ¬ (groupsOf key pre).any (·.1 == key a) = true := fun h => hk (hany.mp h)
    rw [if_neg hany']
    unfold groupsOf
    rw [List.map_append, List.map_singleton, smDedup_append_singleton, if_neg hk, List.map_append,
      List.map_singleton]
    congr 1
    · apply List.map_congr_left
      intro k hkm
      have hkm' : k ∈ pre.map key := mem_smDedup.mp hkm
      have hne : ¬ key a = k := fun e => hk (e ▸ hkm')
      have : (key a == k) = false := by simpa using hne
      simp [List.filter_append, List.filter_cons, List.filter_nil, this]
    · have : pre.filter (fun x => key x == key a) = [] := by
        rw [List.filter_eq_nil_iff]
        intro x hx hxe
        exact hk (List.mem_map.mpr ⟨x, hx, by simpa using hxe⟩)
      simp [List.filter_append, this]

theorem groupBy_foldl {α κ} [BEq κ] [LawfulBEq κ] (key : α → κ) (pre l : List α) :
    l.foldl (fun acc a =>
        let k := key a
        if acc.any (·.1 == k) then acc.map (fun p => if p.1 == k then (p.1, p.2 ++ [a]) else p)
        else acc ++ [(k, [a])]) (groupsOf key pre) = groupsOf key (pre ++ l) := by
  induction l generalizing pre with
  | nil => simp
  | cons a l ih =>
    rw [List.foldl_cons]
    have := groupBy_step key pre a
    simp only at this
    rw [this, ih, List.append_assoc, List.singleton_append]

/-- **`toolz.groupby` = distinct keys in first-occurrence order, each with its elements in order** -/
theorem groupBy_eq_groupsOf {α κ} [BEq κ] [LawfulBEq κ] (key : α → κ) (l : List α) :
    groupBy key l = groupsOf key l := by
  have := groupBy_foldl key [] l
  simpa [groupBy, groupsOf, smDedup, smDedupAux] using this

/-! ### sums over a partition -/

theorem sum_perm {l₁ l₂ : List Rat} (h : l₁.Perm l₂) : l₁.sum = l₂.sum := by
  induction h with
  | nil => rfl
  | cons x _ ih => simp [List.sum_cons, ih]
  | swap x y l => simp only [List.sum_cons]; grind
  | trans _ _ ih₁ ih₂ => exact ih₁.trans ih₂

theorem sum_indicator {κ} [BEq κ] [LawfulBEq κ] (ks : List κ) (k0 : κ) (x : Rat) (hn : ks.Nodup)
    (hm : k0 ∈ ks) : (ks.map fun k => if k0 == k then x else 0).sum = x := by
  induction ks with
  | nil => simp at hm
  | cons k ks ih =>
    rw [List.map_cons, List.sum_cons]
    have hn' := List.nodup_cons.mp hn
    by_cases hk : k0 = k
    · subst hk
      have : (ks.map fun k => if k0 == k then x else 0).sum = 0 := by
        apply sum_map_zero
        intro a ha
        have : ¬ k0 = a := fun e => hn'.1 (e ▸ ha)
        simp [this]
      rw [this]; simp [Rat.add_zero]
    · have hm' : k0 ∈ ks := by
        rcases List.mem_cons.mp hm with h | h
        · exact absurd h hk
        · exact h
      rw [ih hn'.2 hm']
      simp [hk, Rat.zero_add]

theorem sum_map_add {α} (l : List α) (g h : α → Rat) :
    (l.map fun a => g a + h a).sum = (l.map g).sum + (l.map h).sum := by
  induction l with
  | nil => simp only [List.map_nil, List.sum_nil]; grind
  | cons a l ih => simp only [List.map_cons, List.sum_cons, ih]; grind

/-- summing group by group is summing the whole list -/
theorem sum_groups {α κ} [BEq κ] [LawfulBEq κ] (key : α → κ) (g : α → Rat) (ks : List κ) (l : List α)
    (hn : ks.Nodup) (hm : ∀ a ∈ l, key a ∈ ks) :
    (ks.map fun k => ((l.filter fun a => key a == k).map g).sum).sum = (l.map g).sum := by
  induction l with
  | nil => simp only [List.filter_nil, List.map_nil, List.sum_nil]; exact sum_map_zero _ _ (fun _ _ => rfl)
  | cons a l ih =>
    have ih' := ih (fun b hb => hm b (by simp [hb]))
    have : (ks.map fun k => (((a :: l).filter fun a => key a == k).map g).sum)
        = ks.map fun k => (if key a == k then g a else 0) + ((l.filter fun a => key a == k).map g).sum := by
      apply List.map_congr_left
      intro k _
      rw [List.filter_cons]
      split <;> simp [List.sum_cons, Rat.zero_add]
    rw [this, sum_map_add, ih', sum_indicator ks (key a) (g a) hn (hm a (by simp)), List.map_cons,
      List.sum_cons]


open Generated.Summarize in
/-- both branches of `summarize_premium` at once -/
theorem summarizeCellValues_sum_at' {tr : Transc} {extra : List RuleEntry} {cells : List Cell}
    {pf : Bool} {d : Dict Val} {f : String} {i : Nat}
    (h : summarizeCellValues tr extra cells pf = .ok d)
    (hc : pf = true ∨ f ∉ nonLossMetrics)
    (hr : ruleOf extra (lowerKey f) = some ⟨.sum, [f]⟩)
    (hin : ∀ c ∈ cells, (c.getV f).inRange i = true) :
    ((d.get? f).getD .none).at i = (cells.map fun c => (c.getV f).at i).sum ∧
    ((d.get? f).getD .none).inRange i = true := by
  cases pf with
  | true => exact summarizeCellValues_sum_at h hr hin
  | false =>
    rcases hc with hc | hc
    · cases hc
    · exact summarizeCellValues_noprem_sum_at h hc hr hin

theorem Cell.mk?_ok {c o : Cell} (h : Cell.mk? c = .ok o) : o = c := by
  unfold Cell.mk? at h
  split at h
  · cases h; rfl
  · cases h

theorem summaryCell_ok {tr : Transc} {extra : List RuleEntry} {incr prem : Bool} {md : Metadata}
    {g : CoordKey × List Cell} {o : Cell} (h : summaryCell tr extra incr prem md g = .ok o) :
    ∃ vals, summarizeCellValues tr extra g.2 (if incr then true else prem) = .ok vals ∧
      o = { kind := if incr then .incremental else .cumulative, ps := g.1.1, pe := g.1.2.1,
            ev := g.1.2.2.1, prev := g.1.2.2.2, values := vals, md := md } := by
  unfold summaryCell at h
  split at h
  · cases h
  · rename_i vals hv
    exact ⟨vals, hv, Cell.mk?_ok h⟩

theorem ofCells_ok_perm {l t : List Cell} (h : Triangle.ofCells l = .ok t) : t.Perm l := by
  unfold Triangle.ofCells at h
  split at h
  · cases h; exact List.mergeSort_perm l _
  · cases h

/-- the three stages of `summarize` -/
theorem summarize_decompose {tr : Transc} {extra : List RuleEntry} {t out : List Cell} {prem : Bool}
    (h : summarize tr extra t prem = .ok out) :
    ∃ md cells, metadataGcd t = .ok md ∧
      smMapE (summaryCell tr extra (smIsIncremental t) prem md)
        (groupsOf (coordKey (smIsIncremental t)) t) = .ok cells ∧ out.Perm cells := by
  unfold summarize at h
  split at h
  · cases h
  · rename_i md hmd
    simp only at h
    split at h
    · cases h
    · rename_i cells hcells
      rw [groupBy_eq_groupsOf] at hcells
      exact ⟨md, cells, hmd, hcells, ofCells_ok_perm h⟩

theorem smMapE_sum {α β} {F : α → Except Err β} {gs : List α} {cells : List β} (P : β → Rat)
    (Q : α → Rat) (h : smMapE F gs = .ok cells) (hpq : ∀ g ∈ gs, ∀ o, F g = .ok o → P o = Q g) :
    (cells.map P).sum = (gs.map Q).sum := by
  induction gs generalizing cells with
  | nil => simp only [smMapE] at h; cases h; rfl
  | cons g gs ih =>
    obtain ⟨b, bs, hb, hbs, rfl⟩ := smMapE_cons_ok h
    simp only [List.map_cons, List.sum_cons]
    rw [hpq g (by simp) b hb, ih hbs (fun g' hg' => hpq g' (by simp [hg']))]

theorem smMapE_map {α β γ} {F : α → Except Err β} {gs : List α} {cells : List β} (P : β → γ)
    (Q : α → γ) (h : smMapE F gs = .ok cells) (hpq : ∀ g ∈ gs, ∀ o, F g = .ok o → P o = Q g) :
    cells.map P = gs.map Q := by
  induction gs generalizing cells with
  | nil => simp only [smMapE] at h; cases h; rfl
  | cons g gs ih =>
    obtain ⟨b, bs, hb, hbs, rfl⟩ := smMapE_cons_ok h
    simp only [List.map_cons]
    rw [hpq g (by simp) b hb, ih hbs (fun g' hg' => hpq g' (by simp [hg']))]

theorem coordKey_false_prev (c : Cell) : (coordKey false c).2.2.2 = none := rfl

/-- the coordinate of a summary cell is the key of its group -/
theorem summaryCell_coordKey {tr : Transc} {extra : List RuleEntry} {prem : Bool} {md : Metadata}
    {t : List Cell} {g : CoordKey × List Cell} {o : Cell}
    (hg : g ∈ groupsOf (coordKey (smIsIncremental t)) t)
    (h : summaryCell tr extra (smIsIncremental t) prem md g = .ok o) :
    coordKey (smIsIncremental t) o = g.1 := by
  obtain ⟨vals, _, rfl⟩ := summaryCell_ok h
  unfold groupsOf at hg
  obtain ⟨k, hk, rfl⟩ := List.mem_map.mp hg
  obtain ⟨c, _, rfl⟩ := List.mem_map.mp (mem_smDedup.mp hk)
  cases hi : smIsIncremental t <;> simp [coordKey]


/-! ### metadata gcd -/

theorem allSame_map_iff {α β} [BEq β] [LawfulBEq β] (c0 : α) (rest : List α) (f : α → β) :
    allSame ((c0 :: rest).map f) = true ↔ ∀ c ∈ c0 :: rest, f c = f c0 := by
  simp [allSame, List.all_eq_true]

theorem allSame_nil {β} [BEq β] : allSame ([] : List β) = false := rfl

/-- `len({…}) == 1` fails as soon as two members differ -/
theorem allSame_false_of_ne {α β} [BEq β] [LawfulBEq β] {t : List α} {f : α → β} {a b : α}
    (ha : a ∈ t) (hb : b ∈ t) (hne : f a ≠ f b) : allSame (t.map f) = false := by
  cases t with
  | nil => simp at ha
  | cons c0 rest =>
    cases h : allSame ((c0 :: rest).map f) with
    | false => rfl
    | true =>
      have := (allSame_map_iff c0 rest f).mp h
      exact absurd ((this a ha).trans (this b hb).symm) hne

theorem attrGcd_eq_some_iff {α} [BEq α] [LawfulBEq α] (c0 : Cell) (rest : List Cell)
    (f : Metadata → Option α) (x : α) :
    attrGcd (c0 :: rest) f = some x ↔ ∀ c ∈ c0 :: rest, f c.md = some x := by
  unfold attrGcd
  simp only
  split
  · rename_i hall
    have hall' : ∀ c ∈ c0 :: rest, f c.md = f c0.md := by
      simpa [List.all_eq_true] using hall
    constructor
    · intro h c hc; rw [hall' c hc, h]
    · intro h; exact h c0 (by simp)
  · rename_i hall
    constructor
    · intro h; cases h
    · intro h
      exfalso; apply hall
      rw [List.all_eq_true]
      intro c hc
      simp [h c hc, h c0 (by simp)]

theorem Dict.get?_filter_s {α} (d : Dict α) (p : String × α → Bool) (k : String) (v : α)
    (hn : d.keys.Nodup) :
    Dict.get? (d.filter p) k = some v ↔ Dict.get? d k = some v ∧ p (k, v) = true := by
  induction d with
  | nil => simp [Dict.get?_nil_s]
  | cons q d ih =>
    simp only [Dict.keys, List.map_cons, List.nodup_cons] at hn
    have ih' := ih hn.2
    by_cases hp : p q = true
    · rw [List.filter_cons, if_pos hp, Dict.get?_cons_s, Dict.get?_cons_s]
      by_cases hq : q.1 = k
      · rw [if_pos hq, if_pos hq]
        constructor
        · intro h; cases h; refine ⟨rfl, ?_⟩; rw [← hq]; exact hp
        · intro h; exact h.1
      · rw [if_neg hq, if_neg hq]; exact ih'
    · rw [List.filter_cons, if_neg hp, Dict.get?_cons_s]
      by_cases hq : q.1 = k
      · have hnone' : Dict.get? (d.filter p) k = none := by
          apply Dict.get?_eq_none_of_not_mem_keys
          intro hm
          apply hn.1
          rw [hq]
          obtain ⟨x, hx, hxk⟩ := List.mem_map.mp hm
          exact List.mem_map.mpr ⟨x, (List.mem_filter.mp hx).1, hxk⟩
        rw [if_pos hq, hnone']
        constructor
        · intro h; cases h
        · rintro ⟨h1, h2⟩
          cases h1
          rw [← hq] at h2
          exact absurd h2 hp
      · rw [if_neg hq]; exact ih'

theorem detailsGcd_get? (d0 : Dict MVal) (rest : List (Dict MVal)) (k : String) (v : MVal)
    (hn : d0.keys.Nodup) :
    Dict.get? (detailsGcd (d0 :: rest)) k = some v ↔
      v ≠ .none ∧ ∀ d ∈ d0 :: rest, Dict.get? d k = some v := by
  unfold detailsGcd
  rw [Dict.get?_filter_s _ _ _ _ hn]
  simp only [Bool.and_eq_true, List.all_eq_true, beq_iff_eq, bne_iff_ne, ne_eq, List.mem_cons,
    forall_eq_or_imp]
  constructor
  · rintro ⟨h0, hr, hv⟩; exact ⟨hv, h0, hr⟩
  · rintro ⟨hv, h0, hr⟩; exact ⟨h0, hr, hv⟩


/-! ### weighted averages -/

theorem nMul_at {a b r : Val} {i : Nat} (h : Val.nMul a b = .ok r)
    (ha : a.inRange i = true) (hb : b.inRange i = true) :
    r.at i = a.at i * b.at i ∧ r.inRange i = true := by
  cases a <;> cases b <;> simp only [Val.nMul] at h
  case arr.arr i1 s1 d1 i2 s2 d2 =>
    split at h
    · cases h
      simp only [Val.inRange, decide_eq_true_eq] at ha hb
      simp only [Val.at, Val.inRange, getD_zipWith' _ _ _ _ ha hb, List.length_zipWith,
        decide_eq_true_eq]
      exact ⟨trivial, by omega⟩
    · cases h
  all_goals first
    | (cases h; done)
    | (cases h
       simp only [Val.inRange, decide_eq_true_eq] at ha hb
       simp [Val.at, Val.inRange, ha, hb, Rat.intCast_mul, Rat.mul_comm])

theorem getD_ne_zero {d : List Rat} {i : Nat} (hz : ¬ (d.any fun x => x == 0) = true) (hi : i < d.length) :
    d.getD i 0 ≠ 0 := by
  intro h0
  apply hz
  rw [List.any_eq_true]
  refine ⟨d[i], List.getElem_mem hi, ?_⟩
  rw [List.getD_eq_getElem?_getD, List.getElem?_eq_getElem hi] at h0
  simpa using h0

theorem getD_map'' (d : List Rat) (f : Rat → Rat) (i : Nat) (h : i < d.length) :
    (d.map f).getD i 0 = f (d.getD i 0) := by
  simp [List.getD_eq_getElem?_getD, h]

theorem nDiv_at {a b r : Val} {i : Nat} (h : Val.nDiv a b = .ok r)
    (ha : a.inRange i = true) (hb : b.inRange i = true) :
    r.at i = a.at i / b.at i ∧ b.at i ≠ 0 := by
  cases a <;> cases b <;> simp only [Val.nDiv] at h
  all_goals first
    | (cases h; done)
    | (split at h
       · cases h
       · rename_i hz
         cases h
         simp only [Val.inRange, decide_eq_true_eq] at ha hb
         simp_all [Val.at, Val.inRange])
    | skip
  case int.arr x b s d =>
    split at h
    · cases h
    · rename_i hz
      cases h
      simp only [Val.inRange, decide_eq_true_eq] at hb
      exact ⟨by simp only [Val.at]; rw [getD_map'' _ _ _ hb], getD_ne_zero hz hb⟩
  case flt.arr x b s d =>
    split at h
    · cases h
    · rename_i hz
      cases h
      simp only [Val.inRange, decide_eq_true_eq] at hb
      exact ⟨by simp only [Val.at]; rw [getD_map'' _ _ _ hb], getD_ne_zero hz hb⟩
  case arr.arr b1 s1 d1 b2 s2 d2 =>
    split at h
    · split at h
      · cases h
      · rename_i hz
        cases h
        simp only [Val.inRange, decide_eq_true_eq] at ha hb
        exact ⟨by simp only [Val.at]; rw [getD_zipWith' _ _ _ _ ha hb], getD_ne_zero hz hb⟩
    · cases h


theorem wavgStep_at {t r : Val} {vw : Val × Val} {i : Nat} (h : wavgStep t vw = .ok r)
    (ht : t.inRange i = true) (hv : vw.1.inRange i = true) (hw : vw.2.inRange i = true) :
    r.at i = t.at i + vw.1.at i * vw.2.at i ∧ r.inRange i = true := by
  unfold wavgStep at h
  split at h
  · rename_i hn
    cases h
    rw [at_of_isNone hn]
    exact ⟨by simp [Rat.zero_mul, Rat.add_zero], ht⟩
  · split at h
    · cases h
    · split at h
      · cases h
      · rename_i p hp
        have h1 := nMul_at hp hv hw
        have h2 := iAdd_at h ht h1.2
        exact ⟨by rw [h2.1, h1.1], h2.2⟩

theorem foldE_wavgStep_at {vws : List (Val × Val)} {t r : Val} {i : Nat}
    (h : smFoldE wavgStep t vws = .ok r) (ht : t.inRange i = true)
    (hv : ∀ p ∈ vws, p.1.inRange i = true ∧ p.2.inRange i = true) :
    r.at i = t.at i + (vws.map fun p => p.1.at i * p.2.at i).sum ∧ r.inRange i = true := by
  induction vws generalizing t with
  | nil => simp only [smFoldE] at h; cases h; simp [ht, Rat.add_zero]
  | cons p rest ih =>
    simp only [smFoldE] at h
    split at h
    · cases h
    · rename_i t' ht'
      have h1 := wavgStep_at ht' ht (hv p (by simp)).1 (hv p (by simp)).2
      have h2 := ih h h1.2 (fun w hw => hv w (by simp [hw]))
      refine ⟨?_, h2.2⟩
      rw [h2.1, h1.1, List.map_cons, List.sum_cons, Rat.add_assoc]

theorem foldE_nAdd_at {ws : List Val} {t r : Val} {i : Nat}
    (h : smFoldE Val.nAdd t ws = .ok r) (ht : t.inRange i = true)
    (hv : ∀ w ∈ ws, w.inRange i = true) :
    r.at i = t.at i + (ws.map (·.at i)).sum ∧ r.inRange i = true := by
  induction ws generalizing t with
  | nil => simp only [smFoldE] at h; cases h; simp [ht, Rat.add_zero]
  | cons w rest ih =>
    simp only [smFoldE] at h
    split at h
    · cases h
    · rename_i t' ht'
      have h1 := nAdd_at ht' ht (hv w (by simp))
      have h2 := ih h h1.2 (fun w' hw' => hv w' (by simp [hw']))
      refine ⟨?_, h2.2⟩
      rw [h2.1, h1.1, List.map_cons, List.sum_cons, Rat.add_assoc]

theorem sum_filter_none (ws : List Val) (i : Nat) :
    ((ws.filter fun w => !w.isNone).map (·.at i)).sum = (ws.map (·.at i)).sum := by
  induction ws with
  | nil => rfl
  | cons w ws ih =>
    rw [List.filter_cons]
    cases hn : w.isNone with
    | true => simp [ih, at_of_isNone hn, Rat.zero_add]
    | false => simp [ih]

theorem sumWeights_at {ws : List Val} {r : Val} {i : Nat} (h : sumWeights ws = .ok r)
    (hv : ∀ w ∈ ws, w.inRange i = true) :
    r.at i = (ws.map (·.at i)).sum ∧ r.inRange i = true := by
  unfold sumWeights at h
  have := foldE_nAdd_at (i := i) h (by simp [Val.inRange])
    (fun w hw => hv w (List.mem_filter.mp hw).1)
  refine ⟨?_, this.2⟩
  rw [this.1, sum_filter_none]
  simp [Val.at, Rat.zero_add]

/-- **`_conforming_weighted_average` is the weighted average**: result × Σ weights = Σ value × weight, sample by
sample, where the weights in the denominator are those of ALL cells (a missing value counts 0 in the numerator
only), and the denominator is not zero -/
theorem conformingWavg_at {vs ws : List Val} {r : Val} {i : Nat} (h : conformingWavg vs ws = .ok r)
    (hv : ∀ v ∈ vs, v.inRange i = true) (hw : ∀ w ∈ ws, w.inRange i = true) :
    r.at i * (ws.map (·.at i)).sum = ((vs.zip ws).map fun p => p.1.at i * p.2.at i).sum ∧
    (ws.map (·.at i)).sum ≠ 0 := by
  unfold conformingWavg at h
  split at h
  · cases h
  · rename_i total htot
    split at h
    · cases h
    · rename_i sw hsw
      have h1 := foldE_wavgStep_at (i := i) htot (by simp [Val.inRange])
        (fun p hp => ⟨hv p.1 (List.of_mem_zip hp).1, hw p.2 (List.of_mem_zip hp).2⟩)
      have h2 := sumWeights_at (i := i) hsw hw
      have h3 := nDiv_at h h1.2 h2.2
      rw [h2.1] at h3
      refine ⟨?_, h3.2⟩
      rw [h3.1, h1.1, Rat.div_mul_cancel h3.2]
      simp [Val.at, Rat.zero_add]


/-- the entry a weighted-average rule produces -/
theorem aggKey_wavg {tr : Transc} {extra : List RuleEntry} {cells : List Cell} {keys : List String}
    {f w : String} {v : Val} (hr : ruleOf extra (lowerKey f) = some ⟨.wavg, [f, w]⟩) (hf : f ∈ keys)
    (h : aggKey tr extra (rawValues cells keys) f = .ok (f, v)) :
    w ∈ keys ∧ conformingWavg (cells.map fun c => c.getV f) (cells.map fun c => c.getV w) = .ok v := by
  unfold aggKey at h
  rw [hr] at h
  simp only [applyRule, rawGet_rawValues hf] at h
  by_cases hw : w ∈ keys
  · simp only [rawGet_rawValues hw] at h
    split at h
    · cases h
    · rename_i v' hv'
      cases h
      exact ⟨hw, hv'⟩
  · simp only [rawGet_rawValues_not_mem hw] at h
    cases h

/-- **cell-level ratio clause**: a field whose rule is the `w`-weighted average of itself satisfies
`result × Σ w = Σ value × w` sample by sample (Σ w over ALL cells of the group; cells without the field count 0 in
the numerator), with a non-zero denominator -/
theorem summarizeCellValues_wavg_at {tr : Transc} {extra : List RuleEntry} {cells : List Cell}
    {d : Dict Val} {f w : String} {i : Nat}
    (h : summarizeCellValues tr extra cells true = .ok d)
    (hr : ruleOf extra (lowerKey f) = some ⟨.wavg, [f, w]⟩) (hf : f ∈ valueKeys cells)
    (hin : ∀ c ∈ cells, (c.getV f).inRange i = true ∧ (c.getV w).inRange i = true) :
    ∃ v, Dict.get? d f = some v ∧
      v.at i * (cells.map fun c => (c.getV w).at i).sum =
        (cells.map fun c => (c.getV f).at i * (c.getV w).at i).sum ∧
      (cells.map fun c => (c.getV w).at i).sum ≠ 0 := by
  unfold summarizeCellValues at h
  simp only at h
  split at h
  · cases h
  · simp only [if_true] at h
    obtain ⟨v, hv, hd⟩ := (smMapE_get? h (fun k r hk => aggKey_fst hk) f).1 hf
    obtain ⟨_, hs⟩ := aggKey_wavg hr hf hv
    have := conformingWavg_at (i := i) hs
      (by intro x hx; obtain ⟨c, hc, rfl⟩ := List.mem_map.mp hx; exact (hin c hc).1)
      (by intro x hx; obtain ⟨c, hc, rfl⟩ := List.mem_map.mp hx; exact (hin c hc).2)
    refine ⟨v, hd, ?_, ?_⟩
    · simpa [List.zip_map', List.map_map, Function.comp_def] using this.1
    · simpa [List.map_map, Function.comp_def] using this.2


end Bermuda
