/-
Helper lemmas for C09 / C08: sample-wise arithmetic of cell values, association lists, the
first-error sequencing combinators, `summarize_cell_values`, grouping, metadata gcd. Core Lean only.
-/
import Bermuda.Model.Summarize
import Bermuda.Lemmas.Ops
namespace Bermuda

/-! ### sample-wise arithmetic -/

theorem getD_zipWith' (f : Rat → Rat → Rat) (d d' : List Rat) (i : Nat) (h : i < d.length)
    (h' : i < d'.length) : (List.zipWith f d d').getD i 0 = f (d.getD i 0) (d'.getD i 0) := by
  have : i < (List.zipWith f d d').length := by simp [List.length_zipWith]; omega
  rw [List.getD_eq_getElem?_getD, List.getD_eq_getElem?_getD, List.getD_eq_getElem?_getD,
    List.getElem?_eq_getElem this, List.getElem?_eq_getElem h, List.getElem?_eq_getElem h']
  simp

/-- `a + b` adds sample-wise (scalars broadcast) and keeps the index in range -/
theorem nAdd_at {a b r : Val} {i : Nat} (h : Val.nAdd a b = .ok r)
    (ha : a.inRange i = true) (hb : b.inRange i = true) :
    r.at i = a.at i + b.at i ∧ r.inRange i = true := by
  cases a <;> cases b <;> simp only [Val.nAdd] at h
  case arr.arr i1 s1 d1 i2 s2 d2 =>
    split at h
    · cases h
      simp only [Val.inRange, decide_eq_true_eq] at ha hb
      simp only [Val.at, Val.inRange, getD_zipWith' _ _ _ _ ha hb, List.length_zipWith,
        decide_eq_true_eq]
      exact ⟨trivial, by omega⟩
    · cases h
  all_goals first
    | (cases h; done)
    | (cases h
       simp only [Val.inRange, decide_eq_true_eq] at ha hb
       simp [Val.at, Val.inRange, ha, hb, Rat.intCast_add, Rat.add_comm])

theorem iAdd_at {a b r : Val} {i : Nat} (h : Val.iAdd a b = .ok r)
    (ha : a.inRange i = true) (hb : b.inRange i = true) :
    r.at i = a.at i + b.at i ∧ r.inRange i = true := by
  unfold Val.iAdd at h
  split at h
  · cases h
  · rename_i r' hr
    have := nAdd_at hr ha hb
    split at h
    · cases h
    · cases h; exact this

theorem at_of_isNone {v : Val} (h : v.isNone = true) (i : Nat) : v.at i = 0 := by
  cases v <;> simp_all [Val.isNone, Val.at]

theorem sumStep_at {t v r : Val} {i : Nat} (h : sumStep t v = .ok r)
    (ht : t.inRange i = true) (hv : v.inRange i = true) :
    r.at i = t.at i + v.at i ∧ r.inRange i = true := by
  unfold sumStep at h
  split at h
  · rename_i hn
    cases h
    rw [at_of_isNone hn]
    exact ⟨by simp [Rat.add_zero], ht⟩
  · split at h
    · cases h
    · exact iAdd_at h ht hv

theorem foldE_sumStep_at {vs : List Val} {t r : Val} {i : Nat}
    (h : smFoldE sumStep t vs = .ok r) (ht : t.inRange i = true)
    (hv : ∀ v ∈ vs, v.inRange i = true) :
    r.at i = t.at i + (vs.map (·.at i)).sum ∧ r.inRange i = true := by
  induction vs generalizing t with
  | nil => simp only [smFoldE] at h; cases h; simp [ht, Rat.add_zero]
  | cons v rest ih =>
    simp only [smFoldE] at h
    split at h
    · cases h
    · rename_i t' ht'
      have h1 := sumStep_at ht' ht (hv v (by simp))
      have h2 := ih h h1.2 (fun w hw => hv w (by simp [hw]))
      refine ⟨?_, h2.2⟩
      rw [h2.1, h1.1, List.map_cons, List.sum_cons, Rat.add_assoc]

/-- **`_conforming_sum` is the sample-wise sum** (missing values count 0) -/
theorem conformingSum_at {vs : List Val} {r : Val} {i : Nat} (h : conformingSum vs = .ok r)
    (hv : ∀ v ∈ vs, v.inRange i = true) :
    r.at i = (vs.map (·.at i)).sum ∧ r.inRange i = true := by
  have := foldE_sumStep_at (i := i) h (by simp [Val.inRange]) hv
  simpa [Val.at, Rat.zero_add] using this


/-! ### association lists -/

theorem Dict.get?_nil {α} (k : String) : Dict.get? ([] : Dict α) k = none := rfl

theorem Dict.get?_cons {α} (p : String × α) (d : Dict α) (k : String) :
    Dict.get? (p :: d) k = if p.1 = k then some p.2 else Dict.get? d k := by
  unfold Dict.get?
  by_cases h : p.1 = k
  · simp [h]
  · have : (p.1 == k) = false := by simpa using h
    simp [this, h]

theorem Dict.get?_eq_none_of_not_mem_keys {α} {d : Dict α} {k : String} (h : k ∉ d.keys) :
    d.get? k = none := by
  induction d with
  | nil => rfl
  | cons p d ih =>
    simp only [Dict.keys, List.map_cons, List.mem_cons, not_or] at h
    rw [Dict.get?_cons, if_neg (fun e => h.1 e.symm)]
    exact ih h.2

theorem Dict.get?_append {α} (a b : Dict α) (k : String) :
    Dict.get? (a ++ b) k = match Dict.get? a k with
      | some v => some v
      | none => Dict.get? b k := by
  induction a with
  | nil => simp [Dict.get?_nil]
  | cons p a ih =>
    rw [List.cons_append, Dict.get?_cons, Dict.get?_cons]
    split <;> simp_all

theorem Dict.get?_map_mk {α} (keys : List String) (F : String → α) (k : String) :
    Dict.get? (keys.map fun x => (x, F x)) k = if k ∈ keys then some (F k) else none := by
  induction keys with
  | nil => simp [Dict.get?_nil]
  | cons x xs ih =>
    rw [List.map_cons, Dict.get?_cons, ih]
    by_cases h : x = k
    · subst h; simp
    · have : ¬ k = x := fun e => h e.symm
      simp [h, this]

/-! ### sequencing -/

theorem smMapE_cons_ok {α β} {f : α → Except Err β} {a : α} {l : List α} {out : List β}
    (h : smMapE f (a :: l) = .ok out) :
    ∃ b bs, f a = .ok b ∧ smMapE f l = .ok bs ∧ out = b :: bs := by
  simp only [smMapE] at h
  split at h
  · cases h
  · rename_i b hb
    split at h
    · cases h
    · rename_i bs hbs
      cases h
      exact ⟨b, bs, hb, hbs, rfl⟩

theorem smMapE_length {α β} {f : α → Except Err β} {l : List α} {out : List β}
    (h : smMapE f l = .ok out) : out.length = l.length := by
  induction l generalizing out with
  | nil => simp only [smMapE] at h; cases h; rfl
  | cons a l ih =>
    obtain ⟨b, bs, _, hbs, rfl⟩ := smMapE_cons_ok h
    simp [ih hbs]

/-- element-wise reading of a successful `smMapE` -/
theorem smMapE_getElem {α β} {f : α → Except Err β} {l : List α} {out : List β}
    (h : smMapE f l = .ok out) (i : Nat) (hi : i < l.length) :
    f l[i] = .ok (out[i]'(by rw [smMapE_length h]; exact hi)) := by
  induction l generalizing out i with
  | nil => simp at hi
  | cons a l ih =>
    obtain ⟨b, bs, hb, hbs, rfl⟩ := smMapE_cons_ok h
    cases i with
    | zero => simpa using hb
    | succ j => simpa using ih hbs j (by simpa using hi)

theorem smMapE_mem {α β} {f : α → Except Err β} {l : List α} {out : List β}
    (h : smMapE f l = .ok out) {b : β} (hb : b ∈ out) : ∃ a ∈ l, f a = .ok b := by
  induction l generalizing out with
  | nil => simp only [smMapE] at h; cases h; simp at hb
  | cons a l ih =>
    obtain ⟨b', bs, hb', hbs, rfl⟩ := smMapE_cons_ok h
    rcases List.mem_cons.mp hb with rfl | hb
    · exact ⟨a, by simp, hb'⟩
    · obtain ⟨x, hx, hfx⟩ := ih hbs hb
      exact ⟨x, by simp [hx], hfx⟩

theorem smMapE_mem' {α β} {f : α → Except Err β} {l : List α} {out : List β}
    (h : smMapE f l = .ok out) {a : α} (ha : a ∈ l) : ∃ b ∈ out, f a = .ok b := by
  induction l generalizing out with
  | nil => simp at ha
  | cons x l ih =>
    obtain ⟨b', bs, hb', hbs, rfl⟩ := smMapE_cons_ok h
    rcases List.mem_cons.mp ha with rfl | ha
    · exact ⟨b', by simp, hb'⟩
    · obtain ⟨b, hb, hfb⟩ := ih hbs ha
      exact ⟨b, by simp [hb], hfb⟩

/-- a failing element makes `smMapE` fail (with the error of the FIRST failing element) -/
theorem smMapE_error_of_mem {α β} {f : α → Except Err β} {l : List α} {a : α} {e : Err}
    (ha : a ∈ l) (hf : f a = .error e) : ∃ e', smMapE f l = .error e' := by
  cases h : smMapE f l with
  | error e' => exact ⟨e', rfl⟩
  | ok out =>
    obtain ⟨b, _, hb⟩ := smMapE_mem' h ha
    rw [hf] at hb; cases hb

/-- dictionary reading of a successful keyed `smMapE` -/
theorem smMapE_get? {g : String → Except Err (String × Val)} {keys : List String} {d : Dict Val}
    (h : smMapE g keys = .ok d) (hk : ∀ k r, g k = .ok r → r.1 = k) (f : String) :
    (f ∈ keys → ∃ v, g f = .ok (f, v) ∧ d.get? f = some v) ∧ (f ∉ keys → d.get? f = none) := by
  induction keys generalizing d with
  | nil => simp only [smMapE] at h; cases h; simp [Dict.get?_nil]
  | cons k ks ih =>
    obtain ⟨b, bs, hb, hbs, rfl⟩ := smMapE_cons_ok h
    have hb1 := hk k b hb
    have ih' := ih hbs
    rw [Dict.get?_cons]
    by_cases hkf : k = f
    · subst hkf
      refine ⟨fun _ => ⟨b.2, ?_, by simp [hb1]⟩, fun hn => absurd (List.mem_cons_self) hn⟩
      rw [hb]; congr 1; exact Prod.ext hb1 rfl
    · have hne : ¬ b.1 = f := by rw [hb1]; exact hkf
      rw [if_neg hne]
      refine ⟨fun hm => ?_, fun hn => ?_⟩
      · rcases List.mem_cons.mp hm with rfl | hm
        · exact absurd rfl hkf
        · exact ih'.1 hm
      · exact ih'.2 (fun hm => hn (List.mem_cons_of_mem _ hm))

theorem smMapE_keys {g : String → Except Err (String × Val)} {keys : List String} {d : Dict Val}
    (h : smMapE g keys = .ok d) (hk : ∀ k r, g k = .ok r → r.1 = k) : d.keys = keys := by
  induction keys generalizing d with
  | nil => simp only [smMapE] at h; cases h; rfl
  | cons k ks ih =>
    obtain ⟨b, bs, hb, hbs, rfl⟩ := smMapE_cons_ok h
    simp only [Dict.keys, List.map_cons]
    rw [hk k b hb]; congr 1; exact ih hbs

end Bermuda
