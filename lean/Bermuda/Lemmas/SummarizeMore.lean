/-
More helper lemmas for C09 (audit follow-up): the FIRST failing element of `smMapE` decides the error, erasing the
fields without a rule, `log(weighted average of exp)` for arbitrary `Transc`, shape/kind of `_conforming_sum`,
and the small executable helpers of the concrete witnesses. Core Lean only.
-/
import Bermuda.Spec.C09
import Bermuda.Lemmas.Summarize
import Bermuda.Lemmas.SummarizeSpec
namespace Bermuda
open Bermuda.Spec.C09

/-! ### first error of `smMapE`; the cell without its unknown fields -/

theorem Dict.get?_of_mem_keys {α} {d : Dict α} {k : String} (h : k ∈ d.keys) : ∃ v, d.get? k = some v := by
  induction d with
  | nil => simp [Dict.keys] at h
  | cons p d ih =>
    rw [Dict.get?_cons_s]
    by_cases hp : p.1 = k
    · exact ⟨p.2, by simp [hp]⟩
    · simp only [Dict.keys, List.map_cons, List.mem_cons] at h
      rcases h with h | h
      · exact absurd h.symm hp
      · simpa [hp] using ih h

theorem smMapE_first_error {α β} {f : α → Except Err β} {pre post : List α} {a : α} {e : Err}
    (hpre : ∀ x ∈ pre, ∃ b, f x = .ok b) (ha : f a = .error e) :
    smMapE f (pre ++ a :: post) = .error e := by
  induction pre with
  | nil => simp [smMapE, ha]
  | cons x pre ih =>
    obtain ⟨b, hb⟩ := hpre x (by simp)
    simp only [List.cons_append, smMapE, hb]
    rw [ih (fun y hy => hpre y (by simp [hy]))]

theorem smMapE_error_split {α β} {f : α → Except Err β} {l : List α} {e : Err}
    (h : smMapE f l = .error e) :
    ∃ pre a post, l = pre ++ a :: post ∧ (∀ x ∈ pre, ∃ b, f x = .ok b) ∧ f a = .error e := by
  induction l with
  | nil => simp [smMapE] at h
  | cons x l ih =>
    simp only [smMapE] at h
    split at h
    · rename_i e' he'
      cases h
      exact ⟨[], x, l, rfl, by simp, he'⟩
    · rename_i b hb
      split at h
      · rename_i e' he'
        cases h
        obtain ⟨pre, a, post, rfl, hpre, ha⟩ := ih he'
        refine ⟨x :: pre, a, post, rfl, ?_, ha⟩
        intro y hy
        rcases List.mem_cons.mp hy with rfl | hy
        · exact ⟨b, hb⟩
        · exact hpre y hy
      · cases h

theorem exists_first {α} {P : α → Prop} {l : List α} (h : ∃ a ∈ l, P a) :
    ∃ pre a post, l = pre ++ a :: post ∧ P a ∧ ∀ x ∈ pre, ¬ P x := by
  induction l with
  | nil => obtain ⟨a, ha, _⟩ := h; simp at ha
  | cons x l ih =>
    by_cases hx : P x
    · exact ⟨[], x, l, rfl, hx, by simp⟩
    · obtain ⟨a, ha, hpa⟩ := h
      have : ∃ a ∈ l, P a := by
        rcases List.mem_cons.mp ha with rfl | ha
        · exact absurd hpa hx
        · exact ⟨a, ha, hpa⟩
      obtain ⟨pre, a', post, rfl, hpa', hpre⟩ := ih this
      refine ⟨x :: pre, a', post, rfl, hpa', ?_⟩
      intro y hy
      rcases List.mem_cons.mp hy with rfl | hy
      · exact hx
      · exact hpre y hy

/-- the cell without its fields that have no aggregation rule -/
def eraseUnknown (extra : List RuleEntry) (c : Cell) : Cell :=
  { c with values := c.values.filter fun p => (ruleOf extra (lowerKey p.1)).isSome }

theorem eraseUnknown_id {extra : List RuleEntry} {c : Cell}
    (h : ∀ k ∈ c.values.keys, ruleOf extra (lowerKey k) ≠ none) : eraseUnknown extra c = c := by
  unfold eraseUnknown
  have : c.values.filter (fun p => (ruleOf extra (lowerKey p.1)).isSome) = c.values := by
    rw [List.filter_eq_self]
    intro p hp
    have := h p.1 (List.mem_map.mpr ⟨p, hp, rfl⟩)
    cases hr : ruleOf extra (lowerKey p.1) with
    | none => exact absurd hr this
    | some r => rfl
  rw [this]

theorem smIsIncremental_map {e : Cell → Cell} (he : ∀ c, (e c).kind = c.kind) (t : List Cell) :
    smIsIncremental (t.map e) = smIsIncremental t := by
  cases t with
  | nil => rfl
  | cons c t => simp [smIsIncremental, he]

theorem metadataGcd_map {e : Cell → Cell} (he : ∀ c, (e c).md = c.md) (t : List Cell) :
    metadataGcd (t.map e) = metadataGcd t := by
  cases t with
  | nil => rfl
  | cons c t =>
    simp [metadataGcd, attrGcd, List.map_map, Function.comp_def, he, List.all_map]

theorem groupsOf_map {α κ} [BEq κ] (key : α → κ) (e : α → α) (he : ∀ a, key (e a) = key a) (l : List α) :
    groupsOf key (l.map e) = (groupsOf key l).map fun g => (g.1, g.2.map e) := by
  unfold groupsOf
  simp only [List.map_map, Function.comp_def, he, List.filter_map]


/-! ### `log_industry_lr`: log of the weighted average of exp, for every `Transc` -/

theorem nDiv_inRange {a b r : Val} {i : Nat} (h : Val.nDiv a b = .ok r)
    (ha : a.inRange i = true) (hb : b.inRange i = true) : r.inRange i = true := by
  cases a <;> cases b <;> simp only [Val.nDiv] at h
  all_goals first
    | (cases h; done)
    | (split at h
       · cases h
       · cases h
         simp only [Val.inRange, decide_eq_true_eq] at ha hb
         simp_all [Val.inRange])
    | skip
  case arr.arr b1 s1 d1 b2 s2 d2 =>
    split at h
    · split at h
      · cases h
      · cases h
        simp only [Val.inRange, decide_eq_true_eq] at ha hb
        simp only [Val.inRange, List.length_zipWith, decide_eq_true_eq]
        omega
    · cases h

theorem conformingWavg_inRange {vs ws : List Val} {r : Val} {i : Nat} (h : conformingWavg vs ws = .ok r)
    (hv : ∀ v ∈ vs, v.inRange i = true) (hw : ∀ w ∈ ws, w.inRange i = true) : r.inRange i = true := by
  unfold conformingWavg at h
  split at h
  · cases h
  · rename_i total htot
    split at h
    · cases h
    · rename_i sw hsw
      have h1 := foldE_wavgStep_at (i := i) htot (by simp [Val.inRange])
        (fun p hp => ⟨hv p.1 (List.of_mem_zip hp).1, hw p.2 (List.of_mem_zip hp).2⟩)
      have h2 := sumWeights_at (i := i) hsw hw
      exact nDiv_inRange h h1.2 h2.2

/-- elementwise application applies the function to the sample -/
theorem mapF_at {f : Rat → Rat} {v r : Val} {i : Nat} (h : Val.mapF f v = .ok r)
    (hv : v.inRange i = true) : r.at i = f (v.at i) ∧ r.inRange i = true := by
  cases v <;> simp only [Val.mapF] at h
  · cases h
  · cases h; simp [Val.at, Val.inRange]
  · cases h; simp [Val.at, Val.inRange]
  · cases h
    simp only [Val.inRange, decide_eq_true_eq] at hv
    simp only [Val.at, Val.inRange, List.length_map, decide_eq_true_eq]
    exact ⟨getD_map'' _ _ _ hv, hv⟩

/-- a successful `np.exp(list)` is the elementwise `exp` of every entry -/
theorem expList_ok {tr : Transc} {vs es : List Val} (h : expList tr vs = .ok es) :
    smMapE (Val.mapF tr.exp) vs = .ok es := by
  unfold expList at h
  split at h
  · cases h
  · split at h
    · exact h
    · split at h
      · cases h; rfl
      · split at h
        · exact h
        · cases h

theorem smMapE_mapF_zip {f : Rat → Rat} {vs es : List Val} (ws : List Val) {i : Nat}
    (h : smMapE (Val.mapF f) vs = .ok es) (hv : ∀ v ∈ vs, v.inRange i = true) :
    ((es.zip ws).map fun p => p.1.at i * p.2.at i) = ((vs.zip ws).map fun p => f (p.1.at i) * p.2.at i) ∧
    ∀ e ∈ es, e.inRange i = true := by
  induction vs generalizing es ws with
  | nil => simp only [smMapE] at h; cases h; simp
  | cons v vs ih =>
    obtain ⟨b, bs, hb, hbs, rfl⟩ := smMapE_cons_ok h
    have h1 := mapF_at hb (hv v (by simp))
    cases ws with
    | nil =>
      refine ⟨by simp, ?_⟩
      intro e he
      rcases List.mem_cons.mp he with rfl | he
      · exact h1.2
      · exact (ih [] hbs (fun x hx => hv x (by simp [hx]))).2 e he
    | cons w ws =>
      have h2 := ih ws hbs (fun x hx => hv x (by simp [hx]))
      refine ⟨by simp [h1.1, h2.1], ?_⟩
      intro e he
      rcases List.mem_cons.mp he with rfl | he
      · exact h1.2
      · exact h2.2 e he

/-- **`log(weighted average of exp)`**: the `wavglog` closure -/
theorem wavglog_at {tr : Transc} {vs ws es : List Val} {a r : Val} {i : Nat}
    (he : expList tr vs = .ok es) (ha : conformingWavg es ws = .ok a) (hr : Val.mapF tr.log a = .ok r)
    (hv : ∀ v ∈ vs, v.inRange i = true) (hw : ∀ w ∈ ws, w.inRange i = true) :
    r.at i = tr.log (((vs.zip ws).map fun p => tr.exp (p.1.at i) * p.2.at i).sum / (ws.map (·.at i)).sum) ∧
    (ws.map (·.at i)).sum ≠ 0 ∧ r.inRange i = true := by
  have h1 := smMapE_mapF_zip ws (i := i) (expList_ok he) hv
  have h2 := conformingWavg_at (i := i) ha h1.2 hw
  have h3 := conformingWavg_inRange (i := i) ha h1.2 hw
  have h4 := mapF_at hr h3
  refine ⟨?_, h2.2, h4.2⟩
  rw [h4.1, ← h1.1, ← h2.1, Rat.mul_div_cancel h2.2]

/-- the entry a `wavglog` rule produces -/
theorem aggKey_wavglog {tr : Transc} {extra : List RuleEntry} {cells : List Cell} {keys : List String}
    {f w : String} {v : Val} (hr : ruleOf extra (lowerKey f) = some ⟨.wavglog, [f, w]⟩) (hf : f ∈ keys)
    (h : aggKey tr extra (rawValues cells keys) f = .ok (f, v)) :
    ∃ es a, expList tr (cells.map fun c => c.getV f) = .ok es ∧
      conformingWavg es (cells.map fun c => c.getV w) = .ok a ∧ Val.mapF tr.log a = .ok v := by
  unfold aggKey at h
  rw [hr] at h
  simp only [applyRule, rawGet_rawValues hf] at h
  split at h
  · cases h
  · rename_i v' hv'
    cases h
    split at hv'
    · cases hv'
    · rename_i es hes
      by_cases hw : w ∈ keys
      · simp only [rawGet_rawValues hw] at hv'
        split at hv'
        · cases hv'
        · rename_i a ha
          exact ⟨es, a, hes, ha, hv'⟩
      · simp only [rawGet_rawValues_not_mem hw] at hv'
        cases hv'

open Generated.Summarize in
/-- the entry of a field that goes through its rule (`summarize_premium = True`, or a field outside
NON_LOSS_METRICS): the rule of the lower-cased key applied to the raw values of ALL cells -/
theorem summarizeCellValues_entry {tr : Transc} {extra : List RuleEntry} {cells : List Cell} {pf : Bool}
    {d : Dict Val} {f : String} (h : summarizeCellValues tr extra cells pf = .ok d)
    (hc : pf = true ∨ f ∉ nonLossMetrics) (hf : f ∈ valueKeys cells) :
    ∃ v, aggKey tr extra (rawValues cells (valueKeys cells)) f = .ok (f, v) ∧ Dict.get? d f = some v := by
  unfold summarizeCellValues at h
  simp only at h
  split at h
  · cases h
  · cases pf with
    | true =>
      simp only [if_true] at h
      exact (smMapE_get? h (fun k r hk => aggKey_fst hk) f).1 hf
    | false =>
      have hnl : f ∉ nonLossMetrics := by
        rcases hc with hc | hc
        · cases hc
        · exact hc
      simp only [Bool.false_eq_true, if_false] at h
      split at h
      · cases h
      · rename_i loss hloss
        split at h
        · cases h
        · rename_i nonLoss hnon
          cases h
          have hf' : f ∈ (valueKeys cells).filter (fun k => !nonLossMetrics.contains k) := by
            rw [List.mem_filter]; exact ⟨hf, by simp [hnl]⟩
          obtain ⟨v, hv, hd⟩ := (smMapE_get? hloss (fun k r hk => aggKey_fst hk) f).1 hf'
          exact ⟨v, hv, by rw [Dict.get?_append, hd]⟩

open Generated.Summarize in
theorem summarizeCellValues_wavglog_at {tr : Transc} {extra : List RuleEntry} {cells : List Cell} {pf : Bool}
    {d : Dict Val} {f w : String} {i : Nat}
    (h : summarizeCellValues tr extra cells pf = .ok d) (hc : pf = true ∨ f ∉ nonLossMetrics)
    (hr : ruleOf extra (lowerKey f) = some ⟨.wavglog, [f, w]⟩) (hf : f ∈ valueKeys cells)
    (hin : ∀ c ∈ cells, (c.getV f).inRange i = true ∧ (c.getV w).inRange i = true) :
    ∃ v, Dict.get? d f = some v ∧
      v.at i = tr.log ((cells.map fun c => tr.exp ((c.getV f).at i) * (c.getV w).at i).sum /
        (cells.map fun c => (c.getV w).at i).sum) ∧
      (cells.map fun c => (c.getV w).at i).sum ≠ 0 ∧ v.inRange i = true ∧
      ∀ c ∈ cells, (c.getV f).isNone = false := by
  obtain ⟨v, hv, hd⟩ := summarizeCellValues_entry h hc hf
  obtain ⟨es, a, hes, ha, hl⟩ := aggKey_wavglog hr hf hv
  have := wavglog_at (i := i) hes ha hl
    (by intro x hx; obtain ⟨c, hc, rfl⟩ := List.mem_map.mp hx; exact (hin c hc).1)
    (by intro x hx; obtain ⟨c, hc, rfl⟩ := List.mem_map.mp hx; exact (hin c hc).2)
  refine ⟨v, hd, ?_, ?_, this.2.2, ?_⟩
  · simpa [List.zip_map', List.map_map, Function.comp_def] using this.1
  · simpa [List.map_map, Function.comp_def] using this.2.1
  · intro c hc
    unfold expList at hes
    split at hes
    · cases hes
    · rename_i hn
      simp only [List.any_map, Bool.not_eq_true, List.any_eq_false, Function.comp] at hn
      exact hn c hc

/-! ### shape and kind of a sum -/

/-- Python kind of the number(s): `int` / int64 array (`None` counts as integral: it adds nothing) -/
def Val.isIntKind : Val → Bool
  | .flt _ => false
  | .arr b _ _ => b
  | _ => true

def Val.isArr : Val → Bool
  | .arr _ _ _ => true
  | _ => false

theorem nAdd_shape {a b r : Val} (h : Val.nAdd a b = .ok r) :
    (∀ i, r.inRange i = true → a.inRange i = true ∧ b.inRange i = true) ∧
    r.isIntKind = (a.isIntKind && b.isIntKind) ∧ r.isArr = (a.isArr || b.isArr) := by
  cases a <;> cases b <;> simp only [Val.nAdd] at h
  case arr.arr i1 s1 d1 i2 s2 d2 =>
    split at h
    · cases h
      refine ⟨?_, rfl, rfl⟩
      intro i hi
      simp only [Val.inRange, List.length_zipWith, decide_eq_true_eq] at hi ⊢
      omega
    · cases h
  all_goals first
    | (cases h; done)
    | (cases h
       simp [Val.inRange, Val.isIntKind, Val.isArr])

theorem sumStep_shape {t v r : Val} (h : sumStep t v = .ok r) :
    (∀ i, r.inRange i = true → t.inRange i = true ∧ v.inRange i = true) ∧
    r.isIntKind = (t.isIntKind && v.isIntKind) ∧ r.isArr = (t.isArr || v.isArr) := by
  unfold sumStep at h
  split at h
  · rename_i hn
    cases h
    cases v <;> simp_all [Val.isNone, Val.inRange, Val.isIntKind, Val.isArr]
  · split at h
    · cases h
    · unfold Val.iAdd at h
      split at h
      · cases h
      · rename_i r' hr'
        split at h
        · cases h
        · cases h; exact nAdd_shape hr'

theorem foldE_sumStep_shape {vs : List Val} {t r : Val} (h : smFoldE sumStep t vs = .ok r) :
    (∀ i, r.inRange i = true → t.inRange i = true ∧ ∀ v ∈ vs, v.inRange i = true) ∧
    r.isIntKind = (t.isIntKind && vs.all Val.isIntKind) ∧ r.isArr = (t.isArr || vs.any Val.isArr) := by
  induction vs generalizing t with
  | nil => simp only [smFoldE] at h; cases h; simp
  | cons v vs ih =>
    simp only [smFoldE] at h
    split at h
    · cases h
    · rename_i t' ht'
      have h1 := sumStep_shape ht'
      have h2 := ih h
      refine ⟨?_, ?_, ?_⟩
      · intro i hi
        have := h2.1 i hi
        have h3 := h1.1 i this.1
        refine ⟨h3.1, ?_⟩
        intro x hx
        rcases List.mem_cons.mp hx with rfl | hx
        · exact h3.2
        · exact this.2 x hx
      · rw [h2.2.1, h1.2.1, List.all_cons, Bool.and_assoc]
      · rw [h2.2.2, h1.2.2, List.any_cons, Bool.or_assoc]

/-- **shape and kind of `_conforming_sum`** -/
theorem conformingSum_shape {vs : List Val} {r : Val} (h : conformingSum vs = .ok r) :
    (∀ i, r.inRange i = true → ∀ v ∈ vs, v.inRange i = true) ∧
    r.isIntKind = vs.all Val.isIntKind ∧ r.isArr = vs.any Val.isArr := by
  have := foldE_sumStep_shape h
  exact ⟨fun i hi => (this.1 i hi).2, by simpa [Val.isIntKind] using this.2.1,
    by simpa [Val.isArr] using this.2.2⟩
end Bermuda

namespace Bermuda.Properties.C09
open Bermuda Bermuda.Spec.C09 Generated.Summarize

theorem summarizeCellValues_sum_shape {tr : Transc} {extra : List RuleEntry} {cells : List Cell} {pf : Bool}
    {d : Dict Val} {f : String} (h : summarizeCellValues tr extra cells pf = .ok d)
    (hc : pf = true ∨ f ∉ nonLossMetrics) (hr : ruleOf extra (lowerKey f) = some ⟨.sum, [f]⟩) :
    (∀ i, ((d.get? f).getD .none).inRange i = true → ∀ c ∈ cells, (c.getV f).inRange i = true) ∧
    ((d.get? f).getD .none).isIntKind = cells.all (fun c => (c.getV f).isIntKind) ∧
    ((d.get? f).getD .none).isArr = cells.any (fun c => (c.getV f).isArr) := by
  by_cases hf : f ∈ valueKeys cells
  · obtain ⟨v, hv, hd⟩ := summarizeCellValues_entry h hc hf
    have := conformingSum_shape (aggKey_sum hr hf hv)
    rw [hd]
    refine ⟨?_, ?_, ?_⟩
    · intro i hi c hc'
      exact this.1 i hi _ (List.mem_map.mpr ⟨c, hc', rfl⟩)
    · simpa [List.all_map, Function.comp_def] using this.2.1
    · simpa [List.any_map, Function.comp_def] using this.2.2
  · have hnone : Dict.get? d f = none := by
      apply Dict.get?_eq_none_of_not_mem_keys
      intro hm
      exact hf ((summarizeCellValues_keys_perm h).mem_iff.mp hm)
    have hall := getV_eq_none_of_not_mem_valueKeys hf
    rw [hnone]
    refine ⟨?_, ?_, ?_⟩
    · intro i _ c hc'; rw [hall c hc']; rfl
    · symm
      show (cells.all fun c => (c.getV f).isIntKind) = true
      rw [List.all_eq_true]; intro c hc'; rw [hall c hc']; rfl
    · symm
      show (cells.any fun c => (c.getV f).isArr) = false
      rw [List.any_eq_false]; intro c hc'; rw [hall c hc']; simp [Val.isArr]


/-! ### `Summed` (moved here from `Properties/C09.lean` together with its helper) -/

/-- `f` is summed: with `summarize_premium = True`, on incremental triangles (the flag is not passed on),
or for every field outside NON_LOSS_METRICS -/
def Summed (prem incr : Bool) (f : String) : Prop :=
  prem = true ∨ incr = true ∨ f ∉ Generated.Summarize.nonLossMetrics

theorem summed_flag {prem incr : Bool} {f : String} (h : Summed prem incr f) :
    (if incr then true else prem) = true ∨ f ∉ Generated.Summarize.nonLossMetrics := by
  rcases h with h | h | h
  · subst h; cases incr <;> simp
  · subst h; simp
  · exact Or.inr h

/-! ### executable helpers of the concrete witnesses -/

/-- a cumulative cell at the one coordinate of the witnesses -/
def wCell (vals : Dict Val) (md : Metadata) : Cell :=
  { kind := .cumulative, ps := ⟨2020, 1, 1⟩, pe := ⟨2020, 12, 31⟩, ev := ⟨2020, 12, 31⟩, values := vals, md := md }

/-- a cumulative cell at a SECOND coordinate (a later evaluation date) -/
def wCell2 (vals : Dict Val) (md : Metadata) : Cell :=
  { kind := .cumulative, ps := ⟨2020, 1, 1⟩, pe := ⟨2020, 12, 31⟩, ev := ⟨2021, 12, 31⟩, values := vals, md := md }

/-- the model returns something (the sort inside `Triangle(...)` is not evaluated) -/
def succeeds (r : Except Err (List Cell)) : Bool :=
  match r with
  | .ok _ => true
  | .error _ => false

theorem succeeds_iff {r : Except Err (List Cell)} : succeeds r = true ↔ ∃ out, r = .ok out := by
  cases r <;> simp [succeeds]

/-- the model returns exactly `out` -/
def returns (r : Except Err (List Cell)) (out : List Cell) : Bool :=
  match r with
  | .ok o => decide (o = out)
  | .error _ => false

/-- the model raises exactly the class `e` -/
def refuses (r : Except Err (List Cell)) (e : Err) : Bool :=
  match r with
  | .ok _ => false
  | .error e' => decide (e' = e)

theorem refuses_iff {r : Except Err (List Cell)} {e : Err} : refuses r e = true ↔ r = .error e := by
  cases r <;> simp [refuses]

theorem returns_iff {r : Except Err (List Cell)} {out : List Cell} : returns r out = true ↔ r = .ok out := by
  cases r <;> simp [returns]

end Bermuda.Properties.C09
