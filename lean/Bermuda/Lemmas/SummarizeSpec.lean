/-
Small facts about the executable helpers of `Spec/C09.lean` (used by the Spec bridges of C09). Core Lean only.
-/
import Bermuda.Spec.C09
namespace Bermuda.Properties.C09
open Bermuda Bermuda.Spec.C09

theorem nodupB_of_nodup {α} [BEq α] [LawfulBEq α] {l : List α} (h : l.Nodup) : nodupB l = true := by
  induction l with
  | nil => rfl
  | cons a l ih =>
    have := List.nodup_cons.mp h
    simp [nodupB, this.1, ih this.2]

theorem Dict.contains_iff {α} (d : Dict α) (k : String) : Dict.contains d k = true ↔ k ∈ d.keys := by
  simp [Dict.contains, Dict.keys, List.any_eq_true, List.mem_map]

end Bermuda.Properties.C09
