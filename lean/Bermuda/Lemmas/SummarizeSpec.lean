/-
Small facts about the executable helpers of `Spec/C09.lean` (used by the Spec bridges of C09). Core Lean only.
-/
import Bermuda.Spec.C09
import Bermuda.Lemmas.Summarize
namespace Bermuda.Properties.C09
open Bermuda Bermuda.Spec.C09 Generated.Summarize

theorem nodupB_of_nodup {α} [BEq α] [LawfulBEq α] {l : List α} (h : l.Nodup) : nodupB l = true := by
  induction l with
  | nil => rfl
  | cons a l ih =>
    have := List.nodup_cons.mp h
    simp [nodupB, this.1, ih this.2]

theorem Dict.contains_iff {α} (d : Dict α) (k : String) : Dict.contains d k = true ↔ k ∈ d.keys := by
  simp [Dict.contains, Dict.keys, List.any_eq_true, List.mem_map]


/-- what `summarize` computed for one output cell -/
theorem summarize_out_cell {tr : Transc} {extra : List RuleEntry} {t out : List Cell} {prem : Bool}
    {o : Cell} (h : summarize tr extra t prem = .ok out) (ho : o ∈ out) :
    summarizeCellValues tr extra (groupOf (smIsIncremental t) t o)
      (if smIsIncremental t then true else prem) = .ok o.values ∧ groupOf (smIsIncremental t) t o ≠ [] := by
  obtain ⟨md, cells, hmd, hcells, hperm⟩ := summarize_decompose h
  obtain ⟨g, hg, hgo⟩ := smMapE_mem hcells (hperm.mem_iff.mp ho)
  have hk := summaryCell_coordKey hg hgo
  obtain ⟨vals, hvals, ho'⟩ := summaryCell_ok hgo
  unfold groupsOf at hg
  obtain ⟨k, hk', rfl⟩ := List.mem_map.mp hg
  simp only at hk hvals
  have hg2 : (t.filter fun a => coordKey (smIsIncremental t) a == k) = groupOf (smIsIncremental t) t o := by
    simp only [groupOf, hk]
  rw [hg2] at hvals
  refine ⟨by rw [hvals, ho'], ?_⟩
  obtain ⟨c, hc, rfl⟩ := List.mem_map.mp (mem_smDedup.mp hk')
  rw [← hg2]
  intro he
  have : c ∈ t.filter (fun a => coordKey (smIsIncremental t) a == coordKey (smIsIncremental t) c) :=
    List.mem_filter.mpr ⟨hc, by simp⟩
  rw [he] at this; simp at this

/-- the result of `summarize_cell_values` carries exactly the field names of its cells, each once -/
theorem summarizeCellValues_keys_perm {tr : Transc} {extra : List RuleEntry} {cells : List Cell}
    {pf : Bool} {d : Dict Val} (h : summarizeCellValues tr extra cells pf = .ok d) :
    d.keys.Perm (valueKeys cells) := by
  unfold summarizeCellValues at h
  simp only at h
  split at h
  · cases h
  · cases pf with
    | true =>
      simp only [if_true] at h
      rw [smMapE_keys h (fun k r hk => aggKey_fst hk)]
    | false =>
      simp only [Bool.false_eq_true, if_false] at h
      split at h
      · cases h
      · rename_i loss hloss
        split at h
        · cases h
        · rename_i nonLoss hnon
          cases h
          have h1 := smMapE_keys hloss (fun k r hk => aggKey_fst hk)
          have h2 := smMapE_keys hnon (fun k r hk => firstNonLoss_fst hk)
          have : Dict.keys (loss ++ nonLoss) = Dict.keys loss ++ Dict.keys nonLoss := by
            simp [Dict.keys]
          rw [this, h1, h2]
          have := List.filter_append_perm (fun k => !nonLossMetrics.contains k) (valueKeys cells)
          simpa using this

theorem Dict.get?_of_mem_nodup {α} {d : Dict α} {k : String} {v : α} (hn : d.keys.Nodup)
    (hm : (k, v) ∈ d) : Dict.get? d k = some v := by
  induction d with
  | nil => simp at hm
  | cons p d ih =>
    simp only [Dict.keys, List.map_cons, List.nodup_cons] at hn
    rw [Dict.get?_cons_s]
    rcases List.mem_cons.mp hm with rfl | hm
    · simp
    · have : p.1 ≠ k := by
        intro e; apply hn.1; rw [e]; exact List.mem_map.mpr ⟨(k, v), hm, rfl⟩
      rw [if_neg this]; exact ih hn.2 hm

theorem attrShared_of_iff {α} [BEq α] [LawfulBEq α] {t : List Cell} {f : Metadata → Option α}
    {m : Option α} (h : ∀ x, m = some x ↔ ∀ c ∈ t, f c.md = some x) : attrShared t f m = true := by
  unfold attrShared
  cases m with
  | some x => simpa [List.all_eq_true] using (h x).mp rfl
  | none =>
    simp only [Bool.not_eq_true', List.any_eq_false, List.all_eq_true, beq_iff_eq]
    intro x _ hall
    have := (h x).mpr hall
    cases this

theorem detailsShared_of_iff {ds : List (Dict MVal)} {m : Dict MVal} (hn : m.keys.Nodup)
    (h : ∀ k v, Dict.get? m k = some v ↔ v ≠ MVal.none ∧ ∀ d ∈ ds, Dict.get? d k = some v) :
    detailsShared ds m = true := by
  have hes : ∀ kv : String × MVal, entryShared ds kv = true ↔
      kv.2 ≠ MVal.none ∧ ∀ d ∈ ds, Dict.get? d kv.1 = some kv.2 := by
    intro kv
    simp [entryShared, List.all_eq_true]
  simp only [detailsShared, Bool.and_eq_true, List.all_eq_true]
  refine ⟨⟨nodupB_of_nodup hn, ?_⟩, ?_⟩
  · intro kv hkv
    rw [hes]
    exact (h kv.1 kv.2).mp (Dict.get?_of_mem_nodup hn hkv)
  · intro d _ kv _
    cases hs : entryShared ds kv with
    | false => simp
    | true =>
      have := (h kv.1 kv.2).mpr ((hes kv).mp hs)
      simp [this]

theorem detailsGcd_keys_nodup (d0 : Dict MVal) (rest : List (Dict MVal)) (hn : d0.keys.Nodup) :
    (detailsGcd (d0 :: rest)).keys.Nodup := by
  unfold detailsGcd Dict.keys
  exact hn.sublist (List.filter_sublist.map _)

theorem metadataGcd_keys_nodup {t : List Cell} {m : Metadata} (h : metadataGcd t = .ok m)
    (hn : ∀ c ∈ t, c.md.details.keys.Nodup ∧ c.md.lossDetails.keys.Nodup) :
    m.details.keys.Nodup ∧ m.lossDetails.keys.Nodup := by
  unfold metadataGcd at h
  split at h
  · cases h
  · split at h
    · cases h
    · cases t with
      | nil => cases h
      | cons c0 rest =>
        simp only at h
        cases h
        exact ⟨detailsGcd_keys_nodup _ _ (hn c0 (by simp)).1, detailsGcd_keys_nodup _ _ (hn c0 (by simp)).2⟩


theorem closeTo_self {tol a : Rat} (h0 : 0 ≤ tol) : closeTo tol a a = true := by
  unfold closeTo
  have h1 : a - a = 0 := by grind
  have h2 : 0 ≤ absR a := by unfold absR; split <;> grind
  rw [h1]
  simp only [decide_eq_true_eq]
  have : absR 0 = 0 := by unfold absR; split <;> grind
  rw [this]
  split <;> exact Rat.mul_nonneg h0 h2


end Bermuda.Properties.C09
