/-
C14, long table read back WITH `loss_detail_cols` (`from_long_data_frame(df, loss_detail_cols=L)`):
every row of the written long table reads back, through `_create_metadata`, as the metadata of the
cell it was written from — loss details as loss details, details as details (no folding).
-/
import Bermuda.Lemmas.FrameLong
namespace Bermuda.Frame
open Bermuda Bermuda.Spec.C14 Std

theorem rowMetadata_split {r : Row} {m : Metadata} {S L : List String}
    (hsix : ∀ k ∈ sixNames, Row.col r k = Row.col (sixDict m) k) (hrb : m.riskBasis.isSome = true)
    (hdet : rowDetails r (S.filter (!L.contains ·)) = m.details)
    (hloss : rowDetails r L = m.lossDetails) :
    rowMetadata r S L = m := by
  have e1 := hsix "risk_basis" (by decide)
  have e2 := hsix "country" (by decide)
  have e3 := hsix "currency" (by decide)
  have e4 := hsix "reinsurance_basis" (by decide)
  have e5 := hsix "loss_definition" (by decide)
  have e6 := hsix "per_occurrence_limit" (by decide)
  obtain ⟨rb, hrb'⟩ := Option.isSome_iff_exists.mp hrb
  unfold rowMetadata
  rw [hdet, hloss]
  unfold rowStr
  rw [e1, e2, e3, e4, e5, e6]
  cases m with
  | mk rb' co cu re ld lim det ldet =>
    simp only at hrb'
    subst hrb'
    simp only [sixDict, Row.col, Dict.get?, List.find?_cons]
    cases co <;> cases cu <;> cases re <;> cases ld <;> cases lim <;> simp [optStr, optNum, mvalNum?]

section ltableLoss
variable {t : List Cell} {DK LK : List String} (h : WFlong t DK LK) {E : Row → Row} (hE : KeepsOthers E)
include h hE

theorem mem_longDetailCols_loss {L : List String} {k : String} :
    k ∈ longDetailCols (colsOf (lrows t E)) L ↔ k ∈ ldetailCols t E ∧ k ∉ L := by
  unfold ldetailCols longDetailCols
  simp [List.mem_filter, and_assoc]

/-- a row whose metadata columns carry the flat metadata of a cell of the triangle reads back, with
`loss_detail_cols = L` (distinct loss-detail names covering every loss-detail key of the triangle), as
exactly that cell's metadata -/
theorem rowMetadata_long_loss {L : List String} (hLn : L.Nodup) (hsub : ∀ k ∈ L, k ∈ LK)
    (hcov : ∀ c ∈ t, ∀ k ∈ Dict.keys c.md.lossDetails, k ∈ L)
    {c : Cell} (hc : c ∈ t) {r : Row}
    (hcol : ∀ k, k ∈ sixNames ∨ k ∈ DK ∨ k ∈ LK → Row.col r k = Row.col (flatDict c.md) k) :
    rowMetadata r (longDetailCols (colsOf (lrows t E)) L) L = c.md := by
  have hm := h.md c hc
  have hsixnone : ∀ k ∈ sixNames, Dict.get? c.md.details k = none ∧ Dict.get? c.md.lossDetails k = none := by
    intro k hk
    constructor
    · rw [Dict.get?_eq_none_iff]; intro hkk
      exact (h.names.core k (Or.inl (hm.dkeys k hkk))).1 (six_core hk)
    · rw [Dict.get?_eq_none_iff]; intro hkk
      exact (h.names.core k (Or.inr (hm.lkeys k hkk))).1 (six_core hk)
  have h6none : ∀ k, k ∈ DK ∨ k ∈ LK → Dict.get? (sixDict c.md) k = none := by
    intro k hDL
    rw [Dict.get?_eq_none_iff]; intro hkk
    have : k ∈ sixNames := by
      simp only [sixDict, Dict.keys, List.map_cons, List.map_nil, List.mem_cons, List.not_mem_nil,
        or_false] at hkk
      rcases hkk with hh | hh | hh | hh | hh | hh <;> simp [sixNames, hh]
    exact (h.names.core k hDL).1 (six_core this)
  apply rowMetadata_split _ hm.rb
  · -- details
    rw [← sortItems_of_canon hm.canon.1]
    apply rowDetails_perm
    · exact List.Nodup.sublist List.filter_sublist
        (List.Nodup.sublist List.filter_sublist (colsOf_nodup _))
    · exact dictCanon_wf hm.canon.1
    · exact hm.dvals
    · intro k hk
      have hd : k ∈ DK := hm.dkeys k hk
      have hnL : k ∉ L := fun hl => h.names.dl k hd (hsub k hl)
      rw [List.mem_filter]
      refine ⟨(mem_longDetailCols_loss h hE).mpr ⟨?_, hnL⟩, by simpa using hnL⟩
      apply ldetailCols_of_nonNone h hE hc (Or.inl hd)
      unfold Row.col
      rw [get?_flat c.md hm.canon]
      obtain ⟨v, hv⟩ := get?_some_of_mem_keys hk
      have hl : Dict.get? c.md.lossDetails k = none := by
        rw [Dict.get?_eq_none_iff]; intro hkl
        exact h.names.dl k hd (hm.lkeys k hkl)
      rw [hl, hv]
      simpa using hm.dvals (k, v) (get?_mem hv)
    · intro k hk
      rw [List.mem_filter] at hk
      obtain ⟨hk1, hk2⟩ := hk
      obtain ⟨hk1, hnL⟩ := (mem_longDetailCols_loss h hE).mp hk1
      have hDL := ldetailCols_sub h hE hk1
      rw [hcol k (Or.inr hDL)]
      unfold Row.col
      rw [get?_flat c.md hm.canon, h6none k hDL]
      have : Dict.get? c.md.lossDetails k = none := by
        rw [Dict.get?_eq_none_iff]; intro hkl; exact hnL (hcov c hc k hkl)
      rw [this]
      cases Dict.get? c.md.details k <;> rfl
  · -- loss details
    rw [← sortItems_of_canon hm.canon.2]
    apply rowDetails_perm hLn
    · exact dictCanon_wf hm.canon.2
    · exact hm.lvals
    · exact hcov c hc
    · intro k hk
      have hl : k ∈ LK := hsub k hk
      rw [hcol k (Or.inr (Or.inr hl))]
      unfold Row.col
      rw [get?_flat c.md hm.canon, h6none k (Or.inr hl)]
      have : Dict.get? c.md.details k = none := by
        rw [Dict.get?_eq_none_iff]; intro hkd; exact h.names.dl k (hm.dkeys k hkd) hl
      rw [this]
      cases Dict.get? c.md.lossDetails k <;> rfl
  · intro k hk
    rw [hcol k (Or.inl hk)]
    unfold Row.col
    rw [get?_flat c.md hm.canon, (hsixnone k hk).1, (hsixnone k hk).2]
    rfl

end ltableLoss

/-- every row of the long table written from a `WFlong` triangle reads back, with
`loss_detail_cols = L`, as the metadata of a cell of the triangle, and every cell's metadata is read
from some row -/
theorem toLong_rowMetadata_loss {t : List Cell} {DK LK L : List String} (h : WFlong t DK LK)
    (hLn : L.Nodup) (hsub : ∀ k ∈ L, k ∈ LK)
    (hcov : ∀ c ∈ t, ∀ k ∈ Dict.keys c.md.lossDetails, k ∈ L) :
    ∃ tb, toLongRows t = .ok tb ∧
      (∀ r ∈ tb.rows, ∃ c ∈ t, rowMetadata r (longDetailCols tb.cols L) L = c.md) ∧
      (∀ c ∈ t, ∃ r ∈ tb.rows, rowMetadata r (longDetailCols tb.cols L) L = c.md) := by
  obtain ⟨E, hE, hok, _⟩ := toLongRows_ok h
  refine ⟨_, hok, ?_, ?_⟩
  · intro r hr
    change r ∈ lrows t E at hr
    obtain ⟨c, hc, i, _, kv, _, rfl⟩ := mem_lrows.mp hr
    exact ⟨c, hc, rowMetadata_long_loss h hE hLn hsub hcov hc (fun k hk => lcol_md h hc hE i _ hk)⟩
  · intro c hc
    obtain ⟨hokc, hne⟩ := h.cells c hc
    obtain ⟨kv, hkv⟩ := List.exists_mem_of_ne_nil _ hne
    refine ⟨E (longRow c (allMetadataNames t) 0 (kv.1, qAt kv.2 0)),
      mem_lrows.mpr ⟨c, hc, 0, hokc.pos, kv, hkv, rfl⟩, ?_⟩
    exact rowMetadata_long_loss h hE hLn hsub hcov hc (fun k hk => lcol_md h hc hE 0 _ hk)

end Bermuda.Frame
