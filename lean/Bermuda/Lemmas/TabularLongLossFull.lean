/-
C14, long table read back WITH `loss_detail_cols = L` (`from_long_data_frame(df, loss_detail_cols=L)`,
`L` = the loss-detail keys of the triangle): `fromLongRows (toLongRows t) L = t` up to the numeric
comparison of `Spec/C14.lean`. Port of `Lemmas/FrameLong.lean` (which fixes `L = []`): the group key
list now has the detail columns WITHOUT `L`, then `L`; a row reads back as its cell's metadata itself
(`rowMetadata_long_loss`), so nothing is folded and the constructor's sort leaves the order alone.
-/
import Bermuda.Lemmas.TabularLongLoss
namespace Bermuda.Frame

/-- the `loss_detail_cols` argument: distinct names, all loss-detail names (`LK`), covering every
loss-detail key of the triangle -/
structure LossCols (t : List Cell) (LK L : List String) : Prop where
  nodup : L.Nodup
  sub : ∀ k ∈ L, k ∈ LK
  cov : ∀ c ∈ t, ∀ k ∈ Dict.keys c.md.lossDetails, k ∈ L

namespace LL
open Bermuda Bermuda.Frame Bermuda.Spec.C14 Std Bermuda.JoinL

def ldc (t : List Cell) (E : Row → Row) (L : List String) : List String :=
  longDetailCols (colsOf (lrows t E)) L

theorem mem_ldc {t : List Cell} {E : Row → Row} {L : List String} {k : String} :
    k ∈ ldc t E L ↔ k ∈ ldetailCols t E ∧ k ∉ L := by
  unfold ldc ldetailCols longDetailCols
  simp [List.mem_filter, and_assoc]

theorem mem_longCols {D L : List String} {x : String}
    (hx : x ∈ groupCols "long_data_frame_to_triangle" D L) :
    x ∈ ["period_start", "period_end", "evaluation_date"] ∨ x = "field" ∨ x ∈ sixNames ∨ x ∈ D ∨ x ∈ L := by
  obtain ⟨k, hk, hxk⟩ := mem_groupCols_within long_keys_within hx
  simp only [requiredKeys, List.mem_append, List.mem_cons, List.not_mem_nil, or_false] at hk
  rcases hk with (rfl | rfl | rfl | rfl | rfl | rfl | rfl | rfl | rfl | rfl | rfl) | rfl <;>
    simp [expandKey] at hxk <;> simp [hxk, sixNames]

theorem mem_longCols_of {D L : List String} {k : String}
    (hk : k ∈ ["period_start", "period_end", "evaluation_date"] ∨ k = "field" ∨ k ∈ sixNames ∨ k ∈ D ∨ k ∈ L) :
    k ∈ groupCols "long_data_frame_to_triangle" D L := by
  rcases hk with hco | rfl | h6 | hd | hl
  · refine mem_groupCols long_keys_cover D L (k := k) ?_ ?_
    · simp only [List.mem_cons, List.not_mem_nil, or_false] at hco
      rcases hco with rfl | rfl | rfl <;> decide
    · simp only [List.mem_cons, List.not_mem_nil, or_false] at hco
      rcases hco with rfl | rfl | rfl <;> simp [expandKey]
  · exact mem_groupCols_present long_has_field D L (by simp [expandKey])
  · refine mem_groupCols long_keys_cover D L (k := k) ?_ ?_
    · simp only [sixNames, List.mem_cons, List.not_mem_nil, or_false] at h6
      rcases h6 with rfl | rfl | rfl | rfl | rfl | rfl <;> decide
    · simp only [sixNames, List.mem_cons, List.not_mem_nil, or_false] at h6
      rcases h6 with rfl | rfl | rfl | rfl | rfl | rfl <;> simp [expandKey]
  · exact mem_groupCols long_keys_cover D L (k := "$detail_cols") (by decide) (by simpa [expandKey] using hd)
  · exact mem_groupCols long_keys_cover D L (k := "$loss_detail_cols") (by decide) (by simpa [expandKey] using hl)

def lcellKey (c : Cell) (f : String) (D L : List String) : List MVal :=
  (groupCols "long_data_frame_to_triangle" D L).map (lkeyVal c f)

section lkey
variable {t : List Cell} {DK LK : List String} (h : WFlong t DK LK) {c : Cell} (hc : c ∈ t)
  {E : Row → Row} (hE : KeepsOthers E) {L : List String} (hL : LossCols t LK L) (i : Nat) (kv : String × Rat)
  (hcols : ∀ k ∈ ["period_start", "period_end", "evaluation_date", "field"],
    (colsOf (lrows t E)).contains k = true)
include h hc hE hL

theorem rowMd : rowMetadata (E (longRow c (allMetadataNames t) i kv)) (ldc t E L) L = c.md :=
  rowMetadata_long_loss h hE hL.nodup hL.sub hL.cov hc (fun _ hk => lcol_md h hc hE i kv hk)

include hcols

theorem longKey_row :
    longKey (colsOf (lrows t E)) (ldc t E L) L (E (longRow c (allMetadataNames t) i kv)) =
      lcellKey c kv.1 (ldc t E L) L := by
  unfold longKey lcellKey
  apply List.map_congr_left
  intro k hk
  unfold keyEntry lkeyVal
  have hmd := rowMd h hc hE hL i kv
  rcases mem_longCols hk with hco | rfl | h6 | hd | hl
  · rw [if_pos (hcols k (by
      simp only [List.mem_cons, List.not_mem_nil, or_false] at hco ⊢
      rcases hco with rfl | rfl | rfl <;> simp))]
    have hne : (k == "field") = false := by
      simp only [List.mem_cons, List.not_mem_nil, or_false] at hco
      rcases hco with rfl | rfl | rfl <;> decide
    rw [hne]
    unfold Row.col cellKeyVal
    rw [lget_coord h hc hE i kv (by
      simp only [List.mem_cons, List.not_mem_nil, or_false] at hco ⊢
      rcases hco with rfl | rfl | rfl <;> simp)]
    simp only [List.mem_cons, List.not_mem_nil, or_false] at hco
    rcases hco with rfl | rfl | rfl <;> simp [cumBase, Dict.get?]
  · rw [if_pos (hcols "field" (by simp))]
    unfold Row.col
    rw [(lget_field h hc hE i kv).1]
    simp
  · have hne : (k == "field") = false := by
      simp only [sixNames, List.mem_cons, List.not_mem_nil, or_false] at h6
      rcases h6 with rfl | rfl | rfl | rfl | rfl | rfl <;> decide
    rw [hne, hmd, lcol_md h hc hE i kv (Or.inl h6), cellKeyVal_md_long h c (Or.inl h6)]
    simp
  · have hDL := ldetailCols_sub h hE (mem_ldc.mp hd).1
    have hne : (k == "field") = false := by
      apply beq_false_of_ne; exact (h.names.core k hDL).2.1
    rw [hne, hmd, lcol_md h hc hE i kv (Or.inr hDL), cellKeyVal_md_long h c (Or.inr hDL)]
    simp
  · have hDL : k ∈ DK ∨ k ∈ LK := Or.inr (hL.sub k hl)
    have hne : (k == "field") = false := by
      apply beq_false_of_ne; exact (h.names.core k hDL).2.1
    rw [hne, hmd, lcol_md h hc hE i kv (Or.inr hDL), cellKeyVal_md_long h c (Or.inr hDL)]
    simp

end lkey

theorem lcellKey_inj {t : List Cell} {DK LK : List String} (h : WFlong t DK LK) {E : Row → Row}
    (hE : KeepsOthers E) {L : List String} (hL : LossCols t LK L) {a b : Cell} (ha : a ∈ t) (hb : b ∈ t)
    {f g : String}
    (hk : lcellKey a f (ldc t E L) L = lcellKey b g (ldc t E L) L) : a = b ∧ f = g := by
  unfold lcellKey at hk
  have hall := List.map_inj_left.mp hk
  have hf : f = g := by
    have := hall "field" (mem_longCols_of (Or.inr (Or.inl rfl)))
    simpa [lkeyVal] using this
  have c1 := hall "period_start" (mem_longCols_of (Or.inl (by simp)))
  have c2 := hall "period_end" (mem_longCols_of (Or.inl (by simp)))
  have c3 := hall "evaluation_date" (mem_longCols_of (Or.inl (by simp)))
  have c1' : a.ps = b.ps := by simpa [lkeyVal, cellKeyVal, cumBase, Dict.get?, List.find?_cons] using c1
  have c2' : a.pe = b.pe := by simpa [lkeyVal, cellKeyVal, cumBase, Dict.get?, List.find?_cons] using c2
  have c3' : a.ev = b.ev := by simpa [lkeyVal, cellKeyVal, cumBase, Dict.get?, List.find?_cons] using c3
  have hkeycols : ∀ k, k ∈ sixNames ∨ k ∈ ldc t E L ∨ k ∈ L →
      Row.col (flatDict a.md) k = Row.col (flatDict b.md) k := by
    intro k hk'
    have hmem : k ∈ groupCols "long_data_frame_to_triangle" (ldc t E L) L :=
      mem_longCols_of (Or.inr (Or.inr hk'))
    have hDL : k ∈ sixNames ∨ k ∈ DK ∨ k ∈ LK := by
      rcases hk' with h6 | hd | hl
      · exact Or.inl h6
      · exact Or.inr (ldetailCols_sub h hE (mem_ldc.mp hd).1)
      · exact Or.inr (Or.inr (hL.sub k hl))
    have hne : (k == "field") = false := by
      rcases hDL with h6 | hd
      · simp only [sixNames, List.mem_cons, List.not_mem_nil, or_false] at h6
        rcases h6 with rfl | rfl | rfl | rfl | rfl | rfl <;> decide
      · apply beq_false_of_ne; exact (h.names.core k hd).2.1
    have := hall k hmem
    simp only [lkeyVal, hne, Bool.false_eq_true, if_false] at this
    rw [cellKeyVal_md_long h a hDL, cellKeyVal_md_long h b hDL] at this
    exact this
  have hcols : ∀ k, k ∈ sixNames ∨ k ∈ DK ∨ k ∈ LK →
      Row.col (flatDict a.md) k = Row.col (flatDict b.md) k := by
    intro k hk'
    rcases hk' with h6 | hDL
    · exact hkeycols k (Or.inl h6)
    · by_cases hl : k ∈ L
      · exact hkeycols k (Or.inr (Or.inr hl))
      · by_cases hd : k ∈ ldetailCols t E
        · exact hkeycols k (Or.inr (Or.inl (mem_ldc.mpr ⟨hd, hl⟩)))
        · have na : Row.col (flatDict a.md) k = MVal.none := by
            apply Classical.byContradiction
            intro hv; exact hd (ldetailCols_of_nonNone h hE ha hDL hv)
          have nb : Row.col (flatDict b.md) k = MVal.none := by
            apply Classical.byContradiction
            intro hv; exact hd (ldetailCols_of_nonNone h hE hb hDL hv)
          rw [na, nb]
  have hmd : a.md = b.md := by
    rw [← rowMetadata_long_loss h hE hL.nodup hL.sub hL.cov ha (r := flatDict a.md) (fun _ _ => rfl),
      rowMetadata_long_loss h hE hL.nodup hL.sub hL.cov hb (r := flatDict a.md) hcols]
  have hcoord : (mergeCell a).coord = (mergeCell b).coord := by
    simp [mergeCell, Cell.coord, hmd, c1', c2', c3', (h.cum a ha).2, (h.cum b hb).2]
  exact ⟨List.inj_on_of_nodup_map h.inj ha hb hcoord, hf⟩

section lgroups
variable {t : List Cell} {DK LK : List String} (h : WFlong t DK LK) {E : Row → Row} (hE : KeepsOthers E) {L : List String} (hL : LossCols t LK L)
  (hcols : ∀ k ∈ ["period_start", "period_end", "evaluation_date", "field"],
    (colsOf (lrows t E)).contains k = true)
include h hE hL hcols


theorem key_lblock {c : Cell} (hc : c ∈ t) {r : Row} (hr : r ∈ lblock t E c) :
    ∃ kv ∈ c.values, longKey (colsOf (lrows t E)) (ldc t E L) L r = lcellKey c kv.1 (ldc t E L) L := by
  unfold lblock at hr
  obtain ⟨i, _, hri⟩ := List.mem_flatMap.mp hr
  obtain ⟨kv, hkv, rfl⟩ := List.mem_map.mp hri
  exact ⟨kv, hkv, longKey_row h hc hE hL i _ hcols⟩

theorem long_firstKeys :
    firstKeys (longKey (colsOf (lrows t E)) (ldc t E L) L) (lrows t E) =
      (t.map fun c => c.values.map fun kv => lcellKey c kv.1 (ldc t E L) L).flatten := by
  change firstKeys (longKey (colsOf (lrows t E)) (ldc t E L) L) ((t.map (lblock t E)).flatten) = _
  rw [firstKeys_flatten_disjoint]
  · rw [List.map_map]
    congr 1
    apply List.map_congr_left
    intro c hc
    simp only [Function.comp]
    obtain ⟨hok, _⟩ := h.cells c hc
    obtain ⟨m, hm⟩ : ∃ m, sampleCount c = m + 1 := ⟨sampleCount c - 1, by have := hok.pos; omega⟩
    have hsplit : lblock t E c =
        (c.values.map fun kv => E (longRow c (allMetadataNames t) 0 (kv.1, qAt kv.2 0))) ++
        ((List.range m).flatMap fun i =>
          c.values.map fun kv => E (longRow c (allMetadataNames t) (i + 1) (kv.1, qAt kv.2 (i + 1)))) := by
      unfold lblock
      rw [hm, List.range_succ_eq_map, List.flatMap_cons, List.flatMap_map]
    have hkey0 : (c.values.map fun kv => E (longRow c (allMetadataNames t) 0 (kv.1, qAt kv.2 0))).map
        (longKey (colsOf (lrows t E)) (ldc t E L) L) =
        c.values.map fun kv => lcellKey c kv.1 (ldc t E L) L := by
      rw [List.map_map]
      apply List.map_congr_left
      intro kv _
      exact longKey_row h hc hE hL 0 _ hcols
    rw [hsplit, firstKeys_chunk _ _ _ (by
      rw [hkey0]
      -- distinct fields give distinct keys
      have : (c.values.map fun kv => lcellKey c kv.1 (ldc t E L) L) =
          (Dict.keys c.values).map fun f => lcellKey c f (ldc t E L) L := by
        simp [Dict.keys, List.map_map, Function.comp_def]
      rw [this]
      exact List.Nodup.map_on (fun f _ g _ hfg => (lcellKey_inj h hE hL hc hc hfg).2) hok.nodup)
      (by
        intro r hr
        obtain ⟨i, _, hri⟩ := List.mem_flatMap.mp hr
        obtain ⟨kv, hkv, rfl⟩ := List.mem_map.mp hri
        rw [hkey0, longKey_row h hc hE hL (i + 1) _ hcols]
        exact List.mem_map.mpr ⟨kv, hkv, rfl⟩), hkey0]
  · -- blocks of different cells have different keys
    rw [List.pairwise_map]
    have hs : t.Pairwise (fun a b => a ∈ t ∧ b ∈ t ∧ a ≠ b) := by
      rw [List.pairwise_iff_getElem]
      intro i j hi hj hij
      exact ⟨List.getElem_mem hi, List.getElem_mem hj,
        List.pairwise_iff_getElem.mp h.nodup i j hi hj hij⟩
    refine hs.imp ?_
    intro a b ⟨ha, hb, hab⟩ x hx y hy hxy
    obtain ⟨kva, _, hka⟩ := key_lblock h hE hL hcols ha hx
    obtain ⟨kvb, _, hkb⟩ := key_lblock h hE hL hcols hb hy
    rw [hka, hkb] at hxy
    exact hab (lcellKey_inj h hE hL ha hb hxy).1

end lgroups


section lgroups2
variable {t : List Cell} {DK LK : List String} (h : WFlong t DK LK) {E : Row → Row} (hE : KeepsOthers E) {L : List String} (hL : LossCols t LK L)
  (hcols : ∀ k ∈ ["period_start", "period_end", "evaluation_date", "field"],
    (colsOf (lrows t E)).contains k = true)
include h hE hL hcols

theorem long_filter {c : Cell} (hc : c ∈ t) {kv : String × Val} (hkv : kv ∈ c.values) :
    (lrows t E).filter (fun r => longKey (colsOf (lrows t E)) (ldc t E L) L r ==
      lcellKey c kv.1 (ldc t E L) L) = fieldRows t E c kv := by
  change ((t.map (lblock t E)).flatten).filter _ = _
  rw [filter_flatten_one (lblock t E) _ t c h.nodup hc]
  · -- inside the cell's block
    unfold lblock fieldRows
    rw [List.filter_flatMap]
    rw [List.map_eq_flatMap]
    apply List.flatMap_congr
    intro i _
    rw [List.filter_map]
    have : c.values.filter ((fun r => longKey (colsOf (lrows t E)) (ldc t E L) L r ==
        lcellKey c kv.1 (ldc t E L) L) ∘ fun kv' => E (longRow c (allMetadataNames t) i (kv'.1, qAt kv'.2 i))) =
        c.values.filter (fun x => x.1 == kv.1) := by
      apply List.filter_congr
      intro kv' hkv'
      simp only [Function.comp, longKey_row h hc hE hL i _ hcols]
      by_cases he : kv'.1 = kv.1
      · simp [he]
      · have : lcellKey c kv'.1 (ldc t E L) L ≠ lcellKey c kv.1 (ldc t E L) L :=
          fun hk => he (lcellKey_inj h hE hL hc hc hk).2
        simp [this, he]
    rw [this, filter_key_single c.values (h.cells c hc).1.nodup hkv]
    rfl
  · -- other cells contribute nothing
    intro c' hc' hne
    rw [List.filter_eq_nil_iff]
    intro r hr
    obtain ⟨kv', _, hk⟩ := key_lblock h hE hL hcols hc' hr
    rw [hk]
    have : lcellKey c' kv'.1 (ldc t E L) L ≠ lcellKey c kv.1 (ldc t E L) L :=
      fun hkk => hne (lcellKey_inj h hE hL hc' hc hkk).1
    simpa using this

/-- **the groups of the long table**: one per cell and field, in the order of the cells and of
each cell's fields, each holding that field's rows in scenario order -/
theorem long_groups :
    groupBy (longKey (colsOf (lrows t E)) (ldc t E L) L) (lrows t E) =
      (t.map fun c => c.values.map fun kv => (lcellKey c kv.1 (ldc t E L) L, fieldRows t E c kv)).flatten := by
  rw [groupBy_eq_map, long_firstKeys h hE hL hcols, List.map_flatten, List.map_map]
  congr 1
  apply List.map_congr_left
  intro c hc
  simp only [Function.comp, List.map_map]
  apply List.map_congr_left
  intro kv hkv
  simp only [Function.comp]
  rw [long_filter h hE hL hcols hc hkv]

end lgroups2


/-! ### reading the groups back: one cell at a time, one field at a time -/

/-- what the long reader (with `loss_detail_cols`) makes of a cell -/
def lrecon (c : Cell) : Cell :=
  { kind := .cumulative, ps := c.ps, pe := c.pe, ev := c.ev, prev := none,
    values := c.values.map fun kv => (kv.1, reconVal (dataOf kv.2)), md := c.md }

def lpartial (c : Cell) (vals : Dict Val) : Cell :=
  { kind := .cumulative, ps := c.ps, pe := c.pe, ev := c.ev, prev := none, values := vals, md := c.md }

theorem lpartial_coord (c : Cell) (vals : Dict Val) (hp : c.prev = none) :
    (lpartial c vals).coord = c.coord := by
  simp [lpartial, Cell.coord, hp]

theorem addField_new {acc : List Cell} {c : Cell} {f : String} {v : Val} (hp : c.prev = none)
    (hd : c.datesOk = true)
    (hno : ∀ x ∈ acc, x.coord ≠ c.coord) :
    addField acc (lpartial c []) f v = .ok (acc ++ [lpartial c [(f, v)]]) := by
  unfold addField
  have hany : ¬ (acc.any (·.coord == (lpartial c []).coord) = true) := by
    intro ha
    obtain ⟨x, hx, hxc⟩ := List.any_eq_true.mp ha
    rw [lpartial_coord c [] hp] at hxc
    exact hno x hx (by simpa using hxc)
  rw [if_neg hany]
  have hdo : ({ lpartial c [] with values := [(f, v)] } : Cell).datesOk = true := by
    unfold Cell.datesOk at hd ⊢
    simp only [lpartial]
    rw [hp] at hd
    cases hck : c.kind <;> simp_all
  unfold Cell.mk?
  rw [if_pos hdo]
  rfl

theorem addField_more {pre : List Cell} {c : Cell} {vals : Dict Val} {f : String} {v : Val}
    (hp : c.prev = none) (hno : ∀ x ∈ pre, x.coord ≠ c.coord)
    (hf : f ∉ Dict.keys vals) :
    addField (pre ++ [lpartial c vals]) (lpartial c []) f v =
      .ok (pre ++ [lpartial c (vals ++ [(f, v)])]) := by
  unfold addField
  have hco : (lpartial c []).coord = c.coord := lpartial_coord c [] hp
  have hany : (pre ++ [lpartial c vals]).any (·.coord == (lpartial c []).coord) = true := by
    rw [List.any_append]
    simp [hco, lpartial_coord c vals hp]
  rw [if_pos hany]
  have hpre : pre.mapM (addFieldTo (lpartial c []) f v) = .ok pre := by
    have := mapM_ok_of_forall (addFieldTo (lpartial c []) f v) id pre (by
      intro x hx
      unfold addFieldTo
      have : (x.coord == (lpartial c []).coord) = false := by
        apply beq_false_of_ne; rw [hco]; exact hno x hx
      rw [this]; rfl)
    simpa using this
  rw [List.mapM_append, hpre]
  simp only [bind, Except.bind, List.mapM_cons, List.mapM_nil, pure, Except.pure]
  unfold addFieldTo
  have h1 : ((lpartial c vals).coord == (lpartial c []).coord) = true := by
    simp [hco, lpartial_coord c vals hp]
  have h2 : ((lpartial c vals).values.contains f) = false := by
    have : Dict.contains vals f = false := by
      cases hcn : Dict.contains vals f with
      | false => rfl
      | true => exact absurd ((Dict.contains_eq vals f).symm ▸ hcn |> fun h' => List.contains_iff_mem.mp h') hf
    simpa [lpartial] using this
  rw [h1, h2]
  rfl


section lfold
variable {t : List Cell} {DK LK : List String} (h : WFlong t DK LK) {E : Row → Row} (hE : KeepsOthers E) {L : List String} (hL : LossCols t LK L)
  (hmode : (E = id ∧ (colsOf (lrows t E)).contains "scenario" = true) ∨ ∀ c ∈ t, sampleCount c = 1)
  (hcols : ∀ k ∈ ["period_start", "period_end", "evaluation_date", "field"],
    (colsOf (lrows t E)).contains k = true)
include h hE hL hmode hcols

theorem longStep_field (acc : List Cell) {c : Cell} (hc : c ∈ t) {kv : String × Val} (hkv : kv ∈ c.values) :
    longStep (colsOf (lrows t E)) (ldc t E L) L acc
      (lcellKey c kv.1 (ldc t E L) L, fieldRows t E c kv) =
      addField acc (lpartial c []) kv.1 (reconVal (dataOf kv.2)) := by
  obtain ⟨hok, _⟩ := h.cells c hc
  have hflen : (fieldRows t E c kv).length = sampleCount c := by simp [fieldRows]
  have hsort : sortGroup (colsOf (lrows t E)) (fieldRows t E c kv) = .ok (fieldRows t E c kv) := by
    unfold sortGroup
    by_cases h1 : (fieldRows t E c kv).length > 1
    · rw [if_pos h1]
      obtain ⟨hid, hs, _⟩ := fieldRows_sorted h hE hmode hc hkv (by omega)
      rcases hmode with ⟨_, hsc⟩ | h1'
      · rw [if_pos hsc, List.mergeSort_of_pairwise hs]
      · have := h1' c hc; omega
    · rw [if_neg h1]
  unfold longStep
  rw [hsort]
  simp only [Except.bind]
  obtain ⟨m, hm⟩ : ∃ m, sampleCount c = m + 1 := ⟨sampleCount c - 1, by have := hok.pos; omega⟩
  have hcons : fieldRows t E c kv =
      E (longRow c (allMetadataNames t) 0 (kv.1, qAt kv.2 0)) ::
        ((List.range m).map fun i => E (longRow c (allMetadataNames t) (i + 1) (kv.1, qAt kv.2 (i + 1)))) := by
    unfold fieldRows
    rw [hm, List.range_succ_eq_map, List.map_cons, List.map_map]
    rfl
  have hval := longGroupVal_fieldRows h hE hmode hc hkv
  rw [hcons] at hval ⊢
  simp only
  have d1 : Row.col (E (longRow c (allMetadataNames t) 0 (kv.1, qAt kv.2 0))) "period_start" = .date c.ps := by
    unfold Row.col; rw [lget_coord h hc hE 0 _ (by simp)]; simp [cumBase, Dict.get?]
  have d2 : Row.col (E (longRow c (allMetadataNames t) 0 (kv.1, qAt kv.2 0))) "period_end" = .date c.pe := by
    unfold Row.col; rw [lget_coord h hc hE 0 _ (by simp)]; simp [cumBase, Dict.get?]
  have d3 : Row.col (E (longRow c (allMetadataNames t) 0 (kv.1, qAt kv.2 0))) "evaluation_date" = .date c.ev := by
    unfold Row.col; rw [lget_coord h hc hE 0 _ (by simp)]; simp [cumBase, Dict.get?]
  have d4 : Row.col (E (longRow c (allMetadataNames t) 0 (kv.1, qAt kv.2 0))) "field" = .str kv.1 := by
    unfold Row.col; rw [(lget_field h hc hE 0 (kv.1, qAt kv.2 0)).1]; rfl
  have hmd : rowMetadata (E (longRow c (allMetadataNames t) 0 (kv.1, qAt kv.2 0))) (ldc t E L) L =
      c.md := by
    exact rowMd h hc hE hL 0 _
  rw [d1, d2, d3, d4, hmd, hval]
  simp only [mvalDate?, longAdd]
  rfl

theorem fold_cell_fields {c : Cell} (hc : c ∈ t) (pre : List Cell)
    (hno : ∀ x ∈ pre, x.coord ≠ c.coord) :
    ∀ (rest : List (String × Val)) (vals : Dict Val), (∀ kv ∈ rest, kv ∈ c.values) →
      ((Dict.keys vals ++ rest.map (·.1)).Nodup) →
      (rest.map fun kv => (lcellKey c kv.1 (ldc t E L) L, fieldRows t E c kv)).foldlM
        (longStep (colsOf (lrows t E)) (ldc t E L) L) (pre ++ [lpartial c vals]) =
        .ok (pre ++ [lpartial c (vals ++ rest.map fun kv => (kv.1, reconVal (dataOf kv.2)))])
  | [], vals, _, _ => by simp [pure, Except.pure]
  | kv :: rest, vals, hmem, hnd => by
    rw [List.map_cons, List.foldlM_cons, longStep_field h hE hL hmode hcols _ hc (hmem kv List.mem_cons_self)]
    have hf : kv.1 ∉ Dict.keys vals := by
      intro hk
      rw [List.nodup_append] at hnd
      exact hnd.2.2 kv.1 hk kv.1 (by simp) rfl
    rw [addField_more (h.cum c hc).2 hno hf]
    simp only [bind, Except.bind]
    rw [fold_cell_fields hc pre hno rest (vals ++ [(kv.1, reconVal (dataOf kv.2))])
      (fun x hx => hmem x (List.mem_cons_of_mem _ hx)) (by
        simp only [Dict.keys, List.map_append, List.map_cons, List.map_nil, List.append_assoc,
          List.singleton_append] at hnd ⊢
        exact hnd)]
    simp [List.append_assoc]

theorem fold_cell {c : Cell} (hc : c ∈ t) (pre : List Cell)
    (hno : ∀ x ∈ pre, x.coord ≠ c.coord) :
    (c.values.map fun kv => (lcellKey c kv.1 (ldc t E L) L, fieldRows t E c kv)).foldlM
      (longStep (colsOf (lrows t E)) (ldc t E L) L) pre = .ok (pre ++ [lrecon c]) := by
  obtain ⟨hok, hne⟩ := h.cells c hc
  cases hv : c.values with
  | nil => exact absurd hv hne
  | cons kv rest =>
    have hkv : kv ∈ c.values := by rw [hv]; exact List.mem_cons_self
    rw [List.map_cons, List.foldlM_cons, longStep_field h hE hL hmode hcols _ hc hkv,
      addField_new (h.cum c hc).2 (h.dates c hc) hno]
    simp only [bind, Except.bind]
    have hnd := hok.nodup
    rw [hv] at hnd
    rw [fold_cell_fields h hE hL hmode hcols hc pre hno rest [(kv.1, reconVal (dataOf kv.2))]
      (fun x hx => by rw [hv]; exact List.mem_cons_of_mem _ hx)
      (by simpa [Dict.keys] using hnd)]
    simp [lrecon, lpartial, hv]

theorem fold_cells : ∀ (suffix pre : List Cell), (∀ c ∈ suffix, c ∈ t) →
    ((pre.map fun c => c.coord) ++ (suffix.map fun c => c.coord)).Nodup →
    (∀ c ∈ pre, c.prev = none) →
    ((suffix.map fun c => c.values.map fun kv =>
        (lcellKey c kv.1 (ldc t E L) L, fieldRows t E c kv)).flatten).foldlM
      (longStep (colsOf (lrows t E)) (ldc t E L) L) (pre.map lrecon) =
      .ok ((pre ++ suffix).map lrecon)
  | [], pre, _, _, _ => by simp [pure, Except.pure]
  | c :: rest, pre, hmem, hnd, hprev => by
    have hc : c ∈ t := hmem c List.mem_cons_self
    rw [List.map_cons, List.flatten_cons, List.foldlM_append]
    have hno : ∀ x ∈ pre.map lrecon, x.coord ≠ c.coord := by
      intro x hx
      obtain ⟨p, hp, rfl⟩ := List.mem_map.mp hx
      have : (lrecon p).coord = p.coord := by
        simp [lrecon, Cell.coord, hprev p hp]
      rw [this]
      intro he
      rw [List.nodup_append] at hnd
      exact hnd.2.2 _ (List.mem_map_of_mem hp) _ (List.mem_map.mpr ⟨c, List.mem_cons_self, rfl⟩) he
    rw [fold_cell h hE hL hmode hcols hc (pre.map lrecon) hno]
    simp only [bind, Except.bind]
    have := fold_cells rest (pre ++ [c]) (fun x hx => hmem x (List.mem_cons_of_mem _ hx))
      (by simpa [List.append_assoc] using hnd)
      (by
        intro x hx
        rcases List.mem_append.mp hx with h1 | h1
        · exact hprev x h1
        · simp only [List.mem_singleton] at h1; rw [h1]; exact (h.cum c hc).2)
    simp only [List.map_append, List.map_cons, List.map_nil, List.append_assoc, List.singleton_append] at this ⊢
    exact this

end lfold


/-! ### the whole long table and the round trip -/


/-! ### the round trip with `loss_detail_cols` -/

theorem coord_nodup {t : List Cell} {DK LK : List String} (h : WFlong t DK LK) :
    (t.map fun c => c.coord).Nodup := by
  have : (t.map fun c => (mergeCell c).coord) =
      (t.map fun c => c.coord).map fun x : Coord => (⟨mergeLossDetails x.1, x.2, x.3, x.4, x.5⟩ : Coord) := by
    rw [List.map_map]; rfl
  have hn := h.inj
  rw [this] at hn
  exact List.Nodup.of_map _ hn

theorem canonCell_lrecon {t : List Cell} {DK LK : List String} (h : WFlong t DK LK) {c : Cell} (hc : c ∈ t) :
    canonCell (lrecon c) = canonCell c := by
  obtain ⟨hk, hp⟩ := h.cum c hc
  have hkind : typedKind CellKind.cumulative = typedKind c.kind := by
    cases hck : c.kind <;> simp_all [typedKind]
  unfold canonCell
  simp only [lrecon, hp, hkind]
  congr 2
  rw [List.map_map]
  apply List.map_congr_left
  intro kv hkv
  obtain ⟨data, hd, hlen⟩ := (h.cells c hc).1.vals kv hkv
  simp only [Function.comp, dataOf, hd, Option.getD_some]
  rw [numV_reconVal hd (by
    intro he; rw [he] at hlen; have := (h.cells c hc).1.pos; simp at hlen; omega)]

end LL

open Bermuda.Spec.C14 Bermuda.JoinL in
/-- **fromLong_toLong_lossDetails** (cumulative triangles). Writing a well-formed triangle to the long
table and reading it back with `loss_detail_cols = L` (the triangle's loss-detail keys) gives the
triangle itself: same cells in the same order, metadata with loss details AS loss details. -/
theorem fromLong_toLong_lossDetails {t : List Cell} {DK LK L : List String} (h : WFlong t DK LK)
    (hL : LossCols t LK L) :
    okAnd (fun out => wideSpec t out && slicesSpec false t out)
      ((toLongRows t).bind fun tb => fromLongRows tb L) = true := by
  obtain ⟨E, hE, hw, hmode⟩ := toLongRows_ok h
  rw [hw]
  simp only [Except.bind]
  have hrowex : ∃ c ∈ t, ∃ kv ∈ c.values, E (longRow c (allMetadataNames t) 0 (kv.1, qAt kv.2 0)) ∈ lrows t E := by
    obtain ⟨c, hc⟩ := List.exists_mem_of_ne_nil _ h.ne
    obtain ⟨hok, hne⟩ := h.cells c hc
    obtain ⟨kv, hkv⟩ := List.exists_mem_of_ne_nil _ hne
    exact ⟨c, hc, kv, hkv, mem_lrows.mpr ⟨c, hc, 0, hok.pos, kv, hkv, rfl⟩⟩
  have hnoprev : (mkTable (lrows t E)).cols.contains "prev_evaluation_date" = false := by
    cases hcn : (mkTable (lrows t E)).cols.contains "prev_evaluation_date" with
    | false => rfl
    | true =>
      exfalso
      obtain ⟨r, hr, hk⟩ := mem_colsOf.mp (List.contains_iff_mem.mp hcn)
      obtain ⟨c, hc', i, _, kv, _, rfl⟩ := mem_lrows.mp hr
      have := lget_coord h hc' hE i (kv.1, qAt kv.2 i) (k := "prev_evaluation_date") (by simp)
      have hnone : Dict.get? (cumBase c) "prev_evaluation_date" = none := by simp [cumBase, Dict.get?]
      rw [hnone] at this
      exact (Dict.get?_eq_none_iff.mp this) hk
  have hcols : ∀ k ∈ ["period_start", "period_end", "evaluation_date", "field"],
      (colsOf (lrows t E)).contains k = true := by
    intro k hk
    obtain ⟨c, hc, kv, hkv, hr⟩ := hrowex
    apply List.contains_iff_mem.mpr
    refine mem_colsOf.mpr ⟨_, hr, ?_⟩
    simp only [List.mem_cons, List.not_mem_nil, or_false] at hk
    rcases hk with rfl | rfl | rfl | rfl
    · have := lget_coord h hc hE 0 (kv.1, qAt kv.2 0) (k := "period_start") (by simp)
      have hb : Dict.get? (cumBase c) "period_start" = some (.date c.ps) := by simp [cumBase, Dict.get?]
      rw [hb] at this
      exact mem_keys_of_get? this
    · have := lget_coord h hc hE 0 (kv.1, qAt kv.2 0) (k := "period_end") (by simp)
      have hb : Dict.get? (cumBase c) "period_end" = some (.date c.pe) := by simp [cumBase, Dict.get?]
      rw [hb] at this
      exact mem_keys_of_get? this
    · have := lget_coord h hc hE 0 (kv.1, qAt kv.2 0) (k := "evaluation_date") (by simp)
      have hb : Dict.get? (cumBase c) "evaluation_date" = some (.date c.ev) := by simp [cumBase, Dict.get?]
      rw [hb] at this
      exact mem_keys_of_get? this
    · exact mem_keys_of_get? (lget_field h hc hE 0 (kv.1, qAt kv.2 0)).1
  unfold fromLongRows
  rw [hnoprev]
  simp only [Bool.false_eq_true, if_false]
  unfold fromLongCum
  show okAnd _ (((groupBy (longKey (colsOf (lrows t E)) (LL.ldc t E L) L) (lrows t E)).foldlM
    (longStep (colsOf (lrows t E)) (LL.ldc t E L) L) []).bind Triangle.ofCells) = true
  rw [LL.long_groups h hE hL hcols]
  have hfold := LL.fold_cells h hE hL hmode hcols t [] (fun c hc => hc) (by simpa using LL.coord_nodup h)
    (by intro c hc; cases hc)
  simp only [List.map_nil, List.nil_append] at hfold
  rw [hfold]
  simp only [Except.bind]
  have hof : Triangle.ofCells (t.map LL.lrecon) = .ok (t.map LL.lrecon) := by
    unfold Triangle.ofCells
    have hk : kindsConsistent (t.map LL.lrecon) = true := by
      unfold kindsConsistent
      simp [LL.lrecon]
    rw [if_pos hk]
    congr 1
    apply List.mergeSort_of_pairwise
    rw [List.pairwise_map]
    have hs : t.Pairwise (fun a b => a ∈ t ∧ b ∈ t ∧ Cell.cmp a b = .lt) := by
      rw [List.pairwise_iff_getElem]
      intro i j hi hj hij
      exact ⟨List.getElem_mem hi, List.getElem_mem hj, List.pairwise_iff_getElem.mp h.sorted i j hi hj hij⟩
    refine hs.imp ?_
    intro a b ⟨ha, hb, hlt⟩
    have hcmp : Cell.cmp (LL.lrecon a) (LL.lrecon b) = Cell.cmp a b := by
      simp only [Cell.cmp, compareLex, cmpOn, LL.lrecon, (h.cum a ha).2, (h.cum b hb).2]
    unfold Cell.le
    rw [hcmp, hlt]
    rfl
  rw [hof]
  have hcanon : (t.map LL.lrecon).map canonCell = t.map canonCell := by
    rw [List.map_map]
    apply List.map_congr_left
    intro c hc
    exact LL.canonCell_lrecon h hc
  have hmds : (t.map LL.lrecon).map (·.md) = t.map (·.md) := by
    rw [List.map_map]; rfl
  simp only [okAnd, wideSpec, sameNumeric, hcanon, slicesSpec, hmds, Bool.and_eq_true, beq_self_eq_true,
    true_and, Bool.false_eq_true, if_false]
  simp

end Bermuda.Frame
