/-
Helper lemmas for C18 (Model/Units.lean): first-appearance de-duplication, slices partition the
cells, `mapM` in `Except`, list sums over ℚ.
-/
import Bermuda.Model.Units
import Bermuda.Spec.C18
import Mathlib.Tactic.Ring
import Mathlib.Tactic.Linarith
import Mathlib.Tactic.FieldSimp
namespace Bermuda.Units
open Bermuda

/-! ### first-appearance de-duplication (`metasOf`, `dedup`) -/

theorem dedupFold_spec {α β} [BEq β] [LawfulBEq β] (f : α → β) (l : List α) (init : List β)
    (hinit : init.Nodup) :
    let r := l.foldl (fun acc a => if acc.contains (f a) then acc else acc ++ [f a]) init
    r.Nodup ∧ ∀ x, x ∈ r ↔ x ∈ init ∨ ∃ a ∈ l, f a = x := by
  induction l generalizing init with
  | nil => simp [hinit]
  | cons a rest ih =>
    simp only [List.foldl_cons]
    by_cases hc : init.contains (f a) = true
    · rw [if_pos hc]
      obtain ⟨h1, h2⟩ := ih init hinit
      refine ⟨h1, fun x => ?_⟩
      rw [h2 x]
      constructor
      · rintro (h | ⟨b, hb, rfl⟩)
        · exact .inl h
        · exact .inr ⟨b, by simp [hb], rfl⟩
      · rintro (h | ⟨b, hb, rfl⟩)
        · exact .inl h
        · rcases List.mem_cons.mp hb with rfl | hb
          · exact .inl (by simpa using hc)
          · exact .inr ⟨b, hb, rfl⟩
    · rw [if_neg hc]
      have hn : (init ++ [f a]).Nodup := by
        rw [List.nodup_append]
        refine ⟨hinit, by simp, ?_⟩
        intro x hx y hy
        simp at hy; subst hy
        intro h; subst h
        exact hc (by simpa using hx)
      obtain ⟨h1, h2⟩ := ih (init ++ [f a]) hn
      refine ⟨h1, fun x => ?_⟩
      rw [h2 x]
      constructor
      · rintro (h | ⟨b, hb, rfl⟩)
        · rcases List.mem_append.mp h with h | h
          · exact .inl h
          · simp at h; subst h; exact .inr ⟨a, by simp, rfl⟩
        · exact .inr ⟨b, by simp [hb], rfl⟩
      · rintro (h | ⟨b, hb, rfl⟩)
        · exact .inl (by simp [h])
        · rcases List.mem_cons.mp hb with rfl | hb
          · exact .inl (by simp)
          · exact .inr ⟨b, hb, rfl⟩

theorem metasOf_nodup (t : List Cell) : (metasOf t).Nodup :=
  (dedupFold_spec (fun c : Cell => c.md) t [] (by simp)).1

theorem mem_metasOf {t : List Cell} {m : Metadata} : m ∈ metasOf t ↔ ∃ c ∈ t, c.md = m := by
  have := (dedupFold_spec (fun c : Cell => c.md) t [] (by simp)).2 m
  simpa [metasOf] using this


/-! ### slices partition the cells -/

theorem sum_indicator {α} [BEq α] [LawfulBEq α] (ms : List α) (x : α) (k : Nat) :
    (ms.map fun m => if x == m then k else 0).sum = k * ms.count x := by
  induction ms with
  | nil => simp
  | cons m rest ih =>
    simp only [List.map_cons, List.sum_cons, ih, List.count_cons]
    by_cases h : x == m
    · have hx : x = m := by simpa using h
      subst hx
      simp; ring
    · have hx : ¬ x = m := by simpa using h
      have : (m == x) = false := by simp; exact fun e => hx e.symm
      rw [if_neg h, this]; simp

theorem count_filter_md (t : List Cell) (a : Cell) (m : Metadata) :
    List.count a (t.filter (·.md == m)) = if a.md == m then List.count a t else 0 := by
  by_cases h : a.md == m
  · rw [if_pos h]; exact List.count_filter (p := fun c : Cell => c.md == m) h
  · rw [if_neg h, List.count_eq_zero]
    intro hm
    exact h (List.mem_filter.mp hm).2

/-- the slices' cells, concatenated, are a permutation of the triangle's cells -/
theorem slices_flatten_perm (t : List Cell) :
    ((Triangle.slices t).flatMap (·.2)).Perm t := by
  rw [List.perm_iff_count]
  intro a
  unfold Triangle.slices
  rw [List.flatMap_map, List.count_flatMap]
  have h1 : (List.map (List.count a ∘ fun m => (List.filter (fun x => x.md == m) t).mergeSort Cell.le) (metasOf t))
      = (metasOf t).map fun m => if a.md == m then List.count a t else 0 := by
    apply List.map_congr_left
    intro m _
    simp only [Function.comp]
    rw [(List.mergeSort_perm _ _).count_eq, count_filter_md]
  rw [h1, sum_indicator]
  by_cases ha : a ∈ t
  · have : a.md ∈ metasOf t := mem_metasOf.mpr ⟨a, ha, rfl⟩
    rw [(metasOf_nodup t).count, if_pos this]; simp
  · rw [List.count_eq_zero.mpr ha]; simp

theorem mem_slices_md {t : List Cell} {sl : Metadata × List Cell} (h : sl ∈ Triangle.slices t)
    {c : Cell} (hc : c ∈ sl.2) : c.md = sl.1 ∧ c ∈ t := by
  unfold Triangle.slices at h
  obtain ⟨m, _, rfl⟩ := List.mem_map.mp h
  have := (List.mergeSort_perm _ _).mem_iff.mp hc
  obtain ⟨h1, h2⟩ := List.mem_filter.mp this
  exact ⟨by simpa using h2, h1⟩

theorem slices_fst_mem {t : List Cell} {c : Cell} (hc : c ∈ t) :
    ∃ sl ∈ Triangle.slices t, sl.1 = c.md ∧ c ∈ sl.2 := by
  unfold Triangle.slices
  refine ⟨(c.md, _), List.mem_map.mpr ⟨c.md, mem_metasOf.mpr ⟨c, hc, rfl⟩, rfl⟩, rfl, ?_⟩
  exact (List.mergeSort_perm _ _).mem_iff.mpr (List.mem_filter.mpr ⟨hc, by simp⟩)

/-! ### `mapM` in `Except` -/

theorem mapM_error_of_mem {α β} {f : α → Except Err β} {l : List α} {a : α} (ha : a ∈ l)
    {e : Err} (he : f a = .error e) : ∃ e', l.mapM f = .error e' := by
  induction l with
  | nil => cases ha
  | cons x rest ih =>
    rw [List.mapM_cons]
    cases hx : f x with
    | error e₁ => exact ⟨e₁, rfl⟩
    | ok b =>
      rcases List.mem_cons.mp ha with rfl | ha
      · rw [hx] at he; cases he
      · obtain ⟨e', h'⟩ := ih ha
        exact ⟨e', by simp [h', bind, Except.bind]⟩

theorem mapM_ok_zip {α β} {f : α → Except Err β} {l : List α} {r : List β}
    (h : l.mapM f = .ok r) : r.length = l.length ∧ ∀ p ∈ l.zip r, f p.1 = .ok p.2 := by
  induction l generalizing r with
  | nil => simp [List.mapM_nil, pure, Except.pure] at h; subst h; simp
  | cons x rest ih =>
    rw [List.mapM_cons] at h
    cases hx : f x with
    | error e₁ => simp [hx, bind, Except.bind] at h
    | ok b =>
      cases hr : rest.mapM f with
      | error e₂ => simp [hx, hr, bind, Except.bind] at h
      | ok bs =>
        simp [hx, hr, bind, Except.bind, pure, Except.pure] at h
        subst h
        obtain ⟨h1, h2⟩ := ih hr
        refine ⟨by simp [h1], ?_⟩
        intro p hp
        simp only [List.zip_cons_cons, List.mem_cons] at hp
        rcases hp with rfl | hp
        · exact hx
        · exact h2 p hp


/-! ### pointwise relation between two lists -/

inductive Forall2 {α β} (R : α → β → Prop) : List α → List β → Prop
  | nil : Forall2 R [] []
  | cons {a b l₁ l₂} : R a b → Forall2 R l₁ l₂ → Forall2 R (a :: l₁) (b :: l₂)

theorem Forall2.length_eq {α β} {R : α → β → Prop} {l₁ l₂} (h : Forall2 R l₁ l₂) :
    l₁.length = l₂.length := by
  induction h <;> simp [*]

theorem Forall2.imp {α β} {R S : α → β → Prop} {l₁ l₂} (h : Forall2 R l₁ l₂)
    (hi : ∀ a b, a ∈ l₁ → R a b → S a b) : Forall2 S l₁ l₂ := by
  induction h with
  | nil => exact .nil
  | cons hr _ ih =>
    exact .cons (hi _ _ (by simp) hr) (ih fun a b ha => hi a b (by simp [ha]))

theorem Forall2.append {α β} {R : α → β → Prop} {a₁ a₂ b₁ b₂} (h₁ : Forall2 R a₁ b₁)
    (h₂ : Forall2 R a₂ b₂) : Forall2 R (a₁ ++ a₂) (b₁ ++ b₂) := by
  induction h₁ with
  | nil => simpa using h₂
  | cons hr _ ih => exact .cons hr ih

theorem Forall2.flatten {α β} {R : α → β → Prop} {as : List (List α)} {bs : List (List β)}
    (h : Forall2 (Forall2 R) as bs) : Forall2 R as.flatten bs.flatten := by
  induction h with
  | nil => exact .nil
  | cons hr _ ih => simpa using hr.append ih

theorem Forall2.refl_of {α} {R : α → α → Prop} (l : List α) (h : ∀ a ∈ l, R a a) : Forall2 R l l := by
  induction l with
  | nil => exact .nil
  | cons a rest ih => exact .cons (h a (by simp)) (ih fun b hb => h b (by simp [hb]))

theorem mapM_ok_forall2 {α β} {f : α → Except Err β} {l : List α} {r : List β}
    (h : l.mapM f = .ok r) : Forall2 (fun a b => f a = .ok b) l r := by
  induction l generalizing r with
  | nil => simp [List.mapM_nil, pure, Except.pure] at h; subst h; exact .nil
  | cons x rest ih =>
    rw [List.mapM_cons] at h
    cases hx : f x with
    | error e₁ => simp [hx, bind, Except.bind] at h
    | ok b =>
      cases hr : rest.mapM f with
      | error e₂ => simp [hx, hr, bind, Except.bind] at h
      | ok bs =>
        simp [hx, hr, bind, Except.bind, pure, Except.pure] at h
        subst h
        exact .cons hx (ih hr)

theorem ofCells_perm' {l t : List Cell} (h : Triangle.ofCells l = .ok t) : t.Perm l := by
  unfold Triangle.ofCells at h
  split at h
  · cases h; exact List.mergeSort_perm l _
  · cases h

theorem mk?_ok {c o : Cell} (h : c.mk? = .ok o) : o = c ∧ c.datesOk = true := by
  unfold Cell.mk? at h
  split at h
  · cases h; exact ⟨rfl, by assumption⟩
  · cases h

/-! ### currency -/

/-- what `v * rate` means numerically: same shape, every number times the rate -/
theorem mulNum_data {v v' : Val} {r : Num} (h : Val.mulNum v r = .ok v') :
    v ≠ .none ∧ v'.shape = v.shape ∧ Spec.C18.vdata v' = (Spec.C18.vdata v).map (· * r.toRat) := by
  unfold Val.mulNum at h
  split at h <;> cases h <;>
    simp [Spec.C18.vdata, Val.data, Val.shape, Num.toRat]

/-- `o` is the converted form of `c` -/
def Converted (target : String) (rates : List (String × Num)) (c o : Cell) : Prop :=
  (c.md.currency = some target ∧ o = c) ∨
  (∃ cur rate, c.md.currency = some cur ∧ cur ≠ target ∧
    (rates.find? (·.1 == cur)).map (·.2) = some rate ∧ convertCell c rate target = .ok o)

theorem convertSlice_ok {t : List Cell} {target : String} {rates : List (String × Num)}
    {sl : Metadata × List Cell} (hsl : sl ∈ Triangle.slices t) {part : List Cell}
    (h : convertSlice target rates sl = .ok part) : Forall2 (Converted target rates) sl.2 part := by
  unfold convertSlice at h
  split at h
  · cases h
  · rename_i cur hcur
    split at h
    · rename_i heq
      cases h
      have : cur = target := by simpa using heq
      subst this
      exact Forall2.refl_of _ fun c hc => .inl ⟨by rw [(mem_slices_md hsl hc).1, hcur], rfl⟩
    · rename_i hne
      split at h
      · cases h
      · rename_i x rate hfind
        refine (mapM_ok_forall2 h).imp fun c o hc hco => .inr ⟨cur, rate, ?_, ?_, ?_, hco⟩
        · rw [(mem_slices_md hsl hc).1, hcur]
        · simpa using hne
        · simp [hfind]



theorem Forall2.map_left {α β γ} {R : γ → β → Prop} {f : α → γ} {l : List α} {r : List β}
    (h : Forall2 (fun a b => R (f a) b) l r) : Forall2 R (l.map f) r := by
  induction h with
  | nil => exact .nil
  | cons hr _ ih => exact .cons hr ih

theorem Forall2.mem_right {α β} {R : α → β → Prop} {l₁ l₂} (h : Forall2 R l₁ l₂) {b : β}
    (hb : b ∈ l₂) : ∃ a ∈ l₁, R a b := by
  induction h with
  | nil => cases hb
  | cons hr _ ih =>
    rcases List.mem_cons.mp hb with rfl | hb
    · exact ⟨_, by simp, hr⟩
    · obtain ⟨a, ha, hab⟩ := ih hb
      exact ⟨a, by simp [ha], hab⟩

open Generated.Currency in
/-- one converted cell: class, dates and every non-currency field untouched; currency fields
multiplied; metadata equal except `currency = target` -/
theorem convertCell_spec {c o : Cell} {rate : Num} {target : String}
    (h : convertCell c rate target = .ok o) :
    o.kind = c.kind ∧ o.ps = c.ps ∧ o.pe = c.pe ∧ o.ev = c.ev ∧ o.prev = c.prev ∧
    o.md = { c.md with currency := some target } ∧
    Forall2 (fun kv kv' => kv'.1 = kv.1 ∧
      (if currencyFields.contains kv.1 then Val.mulNum kv.2 rate = .ok kv'.2 else kv'.2 = kv.2))
      c.values o.values := by
  unfold convertCell at h
  cases hv : convertValues c.values rate with
  | error e => simp [hv, bind, Except.bind] at h
  | ok vs =>
    simp only [hv, bind, Except.bind] at h
    obtain ⟨rfl, _⟩ := mk?_ok h
    refine ⟨rfl, rfl, rfl, rfl, rfl, rfl, ?_⟩
    unfold convertValues at hv
    refine (mapM_ok_forall2 hv).imp fun kv kv' _ hk => ?_
    split at hk
    · rename_i hc
      cases hm : Val.mulNum kv.2 rate with
      | error e => simp [hm, Except.map] at hk
      | ok v =>
        simp [hm, Except.map] at hk
        subst hk
        exact ⟨rfl, by rw [if_pos hc]⟩
    · rename_i hc
      cases hk
      exact ⟨rfl, by rw [if_neg hc]⟩



/-! ### sums over ℚ -/

theorem sum_map_mul_right (l : List Rat) (c : Rat) : (l.map (· * c)).sum = l.sum * c := by
  induction l with
  | nil => simp
  | cons a rest ih => simp only [List.map_cons, List.sum_cons, ih]; ring

theorem sum_map_mul_left (l : List Rat) (c : Rat) : (l.map (c * ·)).sum = c * l.sum := by
  induction l with
  | nil => simp
  | cons a rest ih => simp only [List.map_cons, List.sum_cons, ih]; ring

theorem sum_map_div (l : List Rat) (c : Rat) : (l.map (· / c)).sum = l.sum / c := by
  induction l with
  | nil => simp
  | cons a rest ih => simp only [List.map_cons, List.sum_cons, ih]; ring

theorem renorm_sum {ws : List Rat} (h : ws.sum ≠ 0) : (renorm ws).sum = 1 := by
  unfold renorm
  rw [sum_map_div]; exact div_self h

/-- `_weight_cell_values` on a scalar or 1-d array: the k-th part is the value times the k-th weight -/
theorem weightValue_data {v : Val} {ws : List Rat} {parts : List Val}
    (h : weightValue v ws = .ok parts) :
    parts.map Spec.C18.vdata = ws.map fun w => (Spec.C18.vdata v).map (· * w) := by
  unfold weightValue at h
  have := mapM_ok_forall2 h
  clear h
  induction this with
  | nil => rfl
  | cons hr _ ih =>
    simp only [List.map_cons, ih, List.cons.injEq, and_true]
    split at hr <;> cases hr <;> simp [Spec.C18.vdata, Val.data]

/-! ### foldlM / deriveMetadata -/

theorem foldlM_invariant {α β} {f : β → α → Except Err β} (P : β → Prop)
    (hstep : ∀ b a b', P b → f b a = .ok b' → P b') {l : List α} {b r : β} (h0 : P b)
    (h : l.foldlM f b = .ok r) : P r := by
  induction l generalizing b with
  | nil => simp [List.foldlM_nil, pure, Except.pure] at h; subst h; exact h0
  | cons a rest ih =>
    rw [List.foldlM_cons] at h
    cases hf : f b a with
    | error e => simp [hf, bind, Except.bind] at h
    | ok b' =>
      simp only [hf, bind, Except.bind] at h
      exact ih (hstep b a b' h0 hf) h

theorem deriveMetadata_riskBasis {t r : List Cell} {s : Option String}
    (h : Triangle.deriveMetadata t (.riskBasis s) = .ok r) : ∀ o ∈ r, o.md.riskBasis = s := by
  unfold Triangle.deriveMetadata at h
  cases hm : t.mapM (fun c => ({ c with md := c.md.edit (.riskBasis s) } : Cell).mk?) with
  | error e => simp [hm, bind, Except.bind] at h
  | ok cells =>
    simp only [hm, bind, Except.bind] at h
    intro o ho
    have ho' := (ofCells_perm' h).mem_iff.mp ho
    obtain ⟨c, _, hc⟩ := (mapM_ok_forall2 hm).mem_right ho'
    obtain ⟨rfl, _⟩ := mk?_ok hc
    rfl


/-- every row of the normalised share table sums to 1 (or to 0 when the raw total is 0) -/
theorem aqShares_row_sum {ps pys : List (Date × Date)} {len : Nat} {cont : Bool} :
    ∀ e ∈ aqShares ps pys len cont, (e.2.map (·.2)).sum = 1 ∨ (e.2.map (·.2)).sum = 0 := by
  intro e he
  unfold aqShares at he
  obtain ⟨aq, _, rfl⟩ := List.mem_map.mp he
  simp only [List.map_map]
  generalize (List.filterMap _ _ : List ((Date × Date) × Rat)) = raw
  have : (List.map ((fun x => x.2) ∘ fun x : (Date × Date) × Rat => (x.1, x.2 / (List.map (fun x => x.2) raw).sum)) raw)
      = (raw.map (·.2)).map (· / (raw.map (·.2)).sum) := by
    simp [List.map_map, Function.comp]
  rw [this, sum_map_div]
  by_cases h : (raw.map (·.2)).sum = 0
  · right; simp [h]
  · left; exact div_self h


/-! ### program_earned_premium -/

theorem sum_replicate (n : Nat) (x : Rat) : (List.replicate n x).sum = n * x := by
  induction n with
  | zero => simp
  | succ k ih => simp only [List.replicate_succ, List.sum_cons, ih]; push_cast; ring

theorem sum_append_rat (a b : List Rat) : (a ++ b).sum = a.sum + b.sum := by
  induction a with
  | nil => simp
  | cons x rest ih => simp only [List.cons_append, List.sum_cons, ih]; ring

theorem sum_repeatEach (l : List Rat) (n : Nat) : (repeatEach l n).sum = n * l.sum := by
  unfold repeatEach
  induction l with
  | nil => simp
  | cons a rest ih =>
    simp only [List.flatMap_cons, sum_append_rat, ih, sum_replicate, List.sum_cons]; ring

theorem sum_zipWith_add : ∀ (a b : List Rat), a.length = b.length →
    (List.zipWith (· + ·) a b).sum = a.sum + b.sum
  | [], [], _ => by simp
  | x :: a, y :: b, h => by
    simp only [List.zipWith_cons_cons, List.sum_cons]
    rw [sum_zipWith_add a b (by simpa using h)]; ring
  | [], _ :: _, h => by simp at h
  | _ :: _, [], h => by simp at h

theorem drop_split (l : List Rat) {a b : Nat} (hab : a ≤ b) :
    ((l.take b).drop a).sum + (l.drop b).sum = (l.drop a).sum := by
  rw [← sum_append_rat]
  congr 1
  by_cases h : a ≤ l.length
  · conv => rhs; rw [← List.take_append_drop b l]
    rw [List.drop_append_of_le_length (by simp; omega)]
  · have h1 : l.drop a = [] := List.drop_eq_nil_of_le (by omega)
    have h2 : l.drop b = [] := List.drop_eq_nil_of_le (by omega)
    have h3 : (l.take b).drop a = [] := List.drop_eq_nil_of_le (by simp; omega)
    rw [h1, h2, h3]; rfl

/-- the buckets visited by the loop cover the list exactly once -/
theorem bounds_sum (l : List Rat) (ores size : Nat) (hores : 1 ≤ ores) (hl : l.length ≤ size) :
    ∀ (fuel start stop : Nat), start ≤ stop → (start < stop ∨ size ≤ start) → size ≤ start + fuel →
      ((bounds ores size fuel start stop).map (bucket l)).sum = (l.drop start).sum := by
  intro fuel
  induction fuel with
  | zero =>
    intro start stop _ _ hf
    have : l.drop start = [] := List.drop_eq_nil_of_le (by omega)
    simp [bounds, this]
  | succ k ih =>
    intro start stop hle hlt hf
    unfold bounds
    by_cases hs : start < size
    · rw [if_pos hs]
      have hlt' : start < stop := by omega
      simp only [List.map_cons, List.sum_cons]
      rw [ih stop (stop + ores) (by omega) (by omega) (by omega)]
      unfold bucket
      exact drop_split l hle
    · rw [if_neg hs]
      have : l.drop start = [] := List.drop_eq_nil_of_le (by omega)
      simp [this]

theorem monthlyWriting_sum (vol : Rat) (wp : List Rat) (wres : Nat) (hs : wp.sum ≠ 0) (hr : wres ≠ 0) :
    (monthlyWriting vol wp wres).sum = vol := by
  unfold monthlyWriting
  rw [sum_repeatEach]
  have : (wp.map fun w => vol * (w / wp.sum) / (wres : Rat)) = wp.map (· * (vol / wp.sum / wres)) := by
    apply List.map_congr_left; intro w _; ring
  rw [this, sum_map_mul_right]
  have : (wres : Rat) ≠ 0 := by exact_mod_cast hr
  field_simp

theorem monthlyEarning_sum (ep : List Rat) (eres : Nat) (c : Bool) (hs : ep.sum ≠ 0) (hr : eres ≠ 0) :
    (monthlyEarning ep eres c).sum = 1 := by
  have hraw : (repeatEach (ep.map fun e => e / ep.sum / (eres : Rat)) eres).sum = 1 := by
    rw [sum_repeatEach]
    have : (ep.map fun e => e / ep.sum / (eres : Rat)) = ep.map (· * (1 / ep.sum / eres)) := by
      apply List.map_congr_left; intro w _; ring
    rw [this, sum_map_mul_right]
    have : (eres : Rat) ≠ 0 := by exact_mod_cast hr
    field_simp
  unfold monthlyEarning
  simp only
  cases c with
  | false => simpa using hraw
  | true =>
    simp only [if_true]
    rw [sum_zipWith_add _ _ (by simp), sum_append_rat, List.sum_cons, sum_map_div]
    simp only [List.sum_cons, List.sum_nil]
    rw [hraw, sum_map_div, hraw]; norm_num


theorem foldl_zipWith_sum (rows : List (List Rat)) (acc : List Rat)
    (h : ∀ r ∈ rows, r.length = acc.length) :
    (rows.foldl (fun acc r => List.zipWith (· + ·) acc r) acc).length = acc.length ∧
    (rows.foldl (fun acc r => List.zipWith (· + ·) acc r) acc).sum = acc.sum + (rows.map List.sum).sum := by
  induction rows generalizing acc with
  | nil => simp
  | cons r rest ih =>
    simp only [List.foldl_cons, List.map_cons, List.sum_cons]
    have hr : r.length = acc.length := h r (by simp)
    have hlen : (List.zipWith (· + ·) acc r).length = acc.length := by simp [hr]
    obtain ⟨h1, h2⟩ := ih (List.zipWith (· + ·) acc r) (fun r' hr' => by rw [hlen]; exact h r' (by simp [hr']))
    refine ⟨h1.trans hlen, ?_⟩
    rw [h2, sum_zipWith_add _ _ hr.symm]; ring

theorem map_getElem!_range (l : List Rat) : (List.range l.length).map (fun n => l[n]!) = l := by
  apply List.ext_getElem
  · simp
  · intro i h1 h2
    simp at h1
    simp [h1]

theorem monthlyCombined_spec (mw me : List Rat) :
    (monthlyCombined mw me).length = mw.length - 1 + me.length ∧
    (monthlyCombined mw me).sum = mw.sum * me.sum := by
  unfold monthlyCombined
  simp only
  have hrows : ∀ r ∈ (List.range mw.length).map (fun n =>
      ((List.replicate n (0 : Rat)) ++ me ++ List.replicate (mw.length - n - 1) 0).map (mw[n]! * ·)),
      r.length = (List.replicate (mw.length - 1 + me.length) (0 : Rat)).length := by
    intro r hr
    obtain ⟨n, hn, rfl⟩ := List.mem_map.mp hr
    have : n < mw.length := by simpa using hn
    simp; omega
  obtain ⟨h1, h2⟩ := foldl_zipWith_sum _ _ hrows
  refine ⟨by rw [h1]; simp, ?_⟩
  rw [h2, sum_replicate, List.map_map]
  have : (List.sum ∘ fun n => ((List.replicate n (0 : Rat)) ++ me ++ List.replicate (mw.length - n - 1) 0).map (mw[n]! * ·))
      = fun n => mw[n]! * me.sum := by
    funext n
    simp only [Function.comp, sum_map_mul_left, sum_append_rat, sum_replicate]; ring
  rw [this]
  have : (List.range mw.length).map (fun n => mw[n]! * me.sum) = ((List.range mw.length).map (fun n => mw[n]!)).map (· * me.sum) := by
    simp [List.map_map, Function.comp]
  rw [this, sum_map_mul_right, map_getElem!_range]; ring



/-! ### non-negativity -/

def NN (l : List Rat) : Prop := ∀ x ∈ l, 0 ≤ x

theorem NN.sum {l : List Rat} (h : NN l) : 0 ≤ l.sum := by
  induction l with
  | nil => simp
  | cons a rest ih =>
    simp only [List.sum_cons]
    have := h a (by simp)
    have := ih fun x hx => h x (by simp [hx])
    linarith

theorem NN.sublist {l l' : List Rat} (h : NN l) (hs : ∀ x ∈ l', x ∈ l) : NN l' := fun x hx => h x (hs x hx)

theorem NN.bucket {l : List Rat} (h : NN l) (b : Nat × Nat) : 0 ≤ bucket l b := by
  unfold Units.bucket
  exact (h.sublist fun x hx => List.mem_of_mem_take (List.mem_of_mem_drop hx)).sum

theorem NN.zipWith_add : ∀ {a b : List Rat}, NN a → NN b → NN (List.zipWith (· + ·) a b)
  | [], _, _, _ => by intro x hx; simp at hx
  | _ :: _, [], _, _ => by intro x hx; simp at hx
  | x :: a, y :: b, ha, hb => by
    intro z hz
    simp only [List.zipWith_cons_cons, List.mem_cons] at hz
    rcases hz with rfl | hz
    · have := ha x (by simp); have := hb y (by simp); linarith
    · exact NN.zipWith_add (fun u hu => ha u (by simp [hu])) (fun u hu => hb u (by simp [hu])) z hz

theorem NN.repeatEach {l : List Rat} (h : NN l) (n : Nat) : NN (repeatEach l n) := by
  intro x hx
  unfold Units.repeatEach at hx
  obtain ⟨a, ha, hxa⟩ := List.mem_flatMap.mp hx
  rw [(List.mem_replicate.mp hxa).2]; exact h a ha

theorem sum_pos_of_ne {l : List Rat} (h : NN l) (hne : l.sum ≠ 0) : 0 < l.sum :=
  lt_of_le_of_ne h.sum (Ne.symm hne)

theorem monthlyWriting_nn {vol : Rat} {wp : List Rat} {wres : Nat} (hv : 0 ≤ vol) (hw : NN wp)
    (hs : wp.sum ≠ 0) : NN (monthlyWriting vol wp wres) := by
  unfold monthlyWriting
  apply NN.repeatEach
  intro x hx
  obtain ⟨w, hwm, rfl⟩ := List.mem_map.mp hx
  have h1 := hw w hwm
  have h2 := sum_pos_of_ne hw hs
  have h3 : (0 : Rat) ≤ (wres : Rat) := by exact_mod_cast Nat.zero_le wres
  exact div_nonneg (mul_nonneg hv (div_nonneg h1 h2.le)) h3

theorem monthlyEarning_nn {ep : List Rat} {eres : Nat} {c : Bool} (he : NN ep) (hs : ep.sum ≠ 0) :
    NN (monthlyEarning ep eres c) := by
  have hraw : NN (repeatEach (ep.map fun e => e / ep.sum / (eres : Rat)) eres) := by
    apply NN.repeatEach
    intro x hx
    obtain ⟨w, hwm, rfl⟩ := List.mem_map.mp hx
    have h3 : (0 : Rat) ≤ (eres : Rat) := by exact_mod_cast Nat.zero_le eres
    exact div_nonneg (div_nonneg (he w hwm) (sum_pos_of_ne he hs).le) h3
  have hhalf : NN ((repeatEach (ep.map fun e => e / ep.sum / (eres : Rat)) eres).map (· / 2)) := by
    intro x hx
    obtain ⟨w, hwm, rfl⟩ := List.mem_map.mp hx
    exact div_nonneg (hraw w hwm) (by norm_num)
  unfold monthlyEarning
  simp only
  cases c with
  | false => simpa using hraw
  | true =>
    simp only [if_true]
    apply NN.zipWith_add
    · intro x hx
      rcases List.mem_append.mp hx with h | h
      · exact hhalf x h
      · simp at h; rw [h]
    · intro x hx
      rcases List.mem_cons.mp hx with h | h
      · rw [h]
      · exact hhalf x h

theorem foldl_zipWith_nn (rows : List (List Rat)) (acc : List Rat) (ha : NN acc)
    (h : ∀ r ∈ rows, NN r) : NN (rows.foldl (fun acc r => List.zipWith (· + ·) acc r) acc) := by
  induction rows generalizing acc with
  | nil => simpa using ha
  | cons r rest ih =>
    simp only [List.foldl_cons]
    exact ih _ (NN.zipWith_add ha (h r (by simp))) fun r' hr' => h r' (by simp [hr'])

theorem monthlyCombined_nn {mw me : List Rat} (hw : NN mw) (he : NN me) : NN (monthlyCombined mw me) := by
  unfold monthlyCombined
  simp only
  apply foldl_zipWith_nn
  · intro x hx; rw [(List.mem_replicate.mp hx).2]
  · intro r hr
    obtain ⟨n, hn, rfl⟩ := List.mem_map.mp hr
    have hn' : n < mw.length := by simpa using hn
    intro x hx
    obtain ⟨y, hy, rfl⟩ := List.mem_map.mp hx
    have h1 : 0 ≤ mw[n]! := by
      rw [getElem!_pos mw n hn']; exact hw _ (List.getElem_mem hn')
    have h2 : 0 ≤ y := by
      rcases List.mem_append.mp hy with h | h
      · rcases List.mem_append.mp h with h | h
        · rw [(List.mem_replicate.mp h).2]
        · exact he y h
      · rw [(List.mem_replicate.mp h).2]
    exact mul_nonneg h1 h2



/-! ### cumulative earned ≤ cumulative written -/

theorem NN.take_sum_le {l : List Rat} (h : NN l) (m : Nat) : (l.take m).sum ≤ l.sum := by
  have : l.sum = (l.take m).sum + (l.drop m).sum := by
    rw [← sum_append_rat, List.take_append_drop]
  have h2 : 0 ≤ (l.drop m).sum := (h.sublist fun _ hx => List.mem_of_mem_drop hx).sum
  linarith

theorem NN.take {l : List Rat} (h : NN l) (m : Nat) : NN (l.take m) :=
  h.sublist fun _ hx => List.mem_of_mem_take hx

theorem NN.replicate_zero (n : Nat) : NN (List.replicate n 0) := by
  intro x hx; rw [(List.mem_replicate.mp hx).2]

theorem NN.append {a b : List Rat} (ha : NN a) (hb : NN b) : NN (a ++ b) := by
  intro x hx
  rcases List.mem_append.mp hx with h | h
  · exact ha x h
  · exact hb x h

/-- prefix sums of a zero-padded earning pattern: at most the pattern's total, and 0 while still in
the leading padding -/
theorem padded_prefix {me : List Rat} (hme : NN me) (n k m : Nat) :
    ((List.replicate n (0 : Rat) ++ me ++ List.replicate k 0).take m).sum ≤
      (if n < m then me.sum else 0) := by
  split
  · have hnn : NN (List.replicate n (0 : Rat) ++ me ++ List.replicate k 0) :=
      ((NN.replicate_zero n).append hme).append (NN.replicate_zero k)
    refine (hnn.take_sum_le m).trans (le_of_eq ?_)
    simp
  · rename_i hm
    have : (List.replicate n (0 : Rat) ++ me ++ List.replicate k 0).take m = List.replicate m 0 := by
      rw [List.append_assoc, List.take_append_of_le_length (by simp; omega), List.take_replicate]
      congr 1; omega
    rw [this, sum_replicate]; simp

theorem take_foldl_zipWith (rows : List (List Rat)) (acc : List Rat) (m : Nat) :
    (rows.foldl (fun acc r => List.zipWith (· + ·) acc r) acc).take m =
      (rows.map (List.take m)).foldl (fun acc r => List.zipWith (· + ·) acc r) (acc.take m) := by
  induction rows generalizing acc with
  | nil => rfl
  | cons r rest ih =>
    simp only [List.foldl_cons, List.map_cons]
    rw [ih, List.take_zipWith]

theorem sum_le_sum {α} (l : List α) (F G : α → Rat) (h : ∀ a ∈ l, F a ≤ G a) :
    (l.map F).sum ≤ (l.map G).sum := by
  induction l with
  | nil => simp
  | cons a rest ih =>
    simp only [List.map_cons, List.sum_cons]
    have := h a (by simp)
    have := ih fun b hb => h b (by simp [hb])
    linarith

theorem sum_range_indicator (l : List Rat) (m : Nat) :
    ((List.range l.length).map fun n => l[n]! * (if n < m then 1 else 0)).sum = (l.take m).sum := by
  induction l generalizing m with
  | nil => simp
  | cons a rest ih =>
    rw [List.length_cons, List.range_succ_eq_map, List.map_cons, List.map_map, List.sum_cons]
    cases m with
    | zero =>
      have : ∀ (l : List Nat), (l.map ((fun _ => (0 : Rat)) ∘ Nat.succ)).sum = 0 := by
        intro l; induction l with
        | nil => rfl
        | cons x xs ih' => simp [ih']
      simpa using this _
    | succ k =>
      rw [List.take_succ_cons, List.sum_cons, ← ih k]
      simp only [List.getElem!_cons_zero, Nat.zero_lt_succ, if_true, mul_one]
      congr 1
      apply congrArg
      apply List.map_congr_left
      intro n _
      simp only [Function.comp, Nat.succ_eq_add_one, List.getElem!_cons_succ, Nat.add_lt_add_iff_right]

/-- cumulative earned never exceeds cumulative written, month by month -/
theorem monthlyCombined_prefix_le {mw me : List Rat} (hw : NN mw) (he : NN me) (hs : me.sum = 1)
    (m : Nat) : ((monthlyCombined mw me).take m).sum ≤ (mw.take m).sum := by
  unfold monthlyCombined
  simp only
  rw [take_foldl_zipWith]
  have hrows : ∀ r ∈ ((List.range mw.length).map (fun n =>
      ((List.replicate n (0 : Rat)) ++ me ++ List.replicate (mw.length - n - 1) 0).map (mw[n]! * ·))).map (List.take m),
      r.length = ((List.replicate (mw.length - 1 + me.length) (0 : Rat)).take m).length := by
    intro r hr
    obtain ⟨r0, hr0, rfl⟩ := List.mem_map.mp hr
    obtain ⟨n, hn, rfl⟩ := List.mem_map.mp hr0
    have : n < mw.length := by simpa using hn
    simp; omega
  rw [(foldl_zipWith_sum _ _ hrows).2, List.take_replicate, sum_replicate, List.map_map, List.map_map,
    ← sum_range_indicator]
  simp only [mul_zero, zero_add]
  apply sum_le_sum
  intro n hn
  have hn' : n < mw.length := by simpa using hn
  simp only [Function.comp]
  rw [← List.map_take, sum_map_mul_left]
  have h0 : 0 ≤ mw[n]! := by rw [getElem!_pos mw n hn']; exact hw _ (List.getElem_mem hn')
  have := padded_prefix he n (mw.length - n - 1) m
  rw [hs] at this
  exact mul_le_mul_of_nonneg_left this h0



/-- the first `j` buckets of the loop cover a prefix `[start, S)` -/
theorem bounds_prefix (ores size : Nat) :
    ∀ (fuel start stop j : Nat), start ≤ stop →
      ∃ S, start ≤ S ∧ ∀ l : List Rat,
        (((bounds ores size fuel start stop).take j).map (bucket l)).sum = ((l.take S).drop start).sum := by
  intro fuel
  induction fuel with
  | zero =>
    intro start stop j _
    exact ⟨start, le_refl _, fun l => by simp [bounds]⟩
  | succ k ih =>
    intro start stop j hle
    cases j with
    | zero => exact ⟨start, le_refl _, fun l => by simp⟩
    | succ j' =>
      unfold bounds
      by_cases hs : start < size
      · rw [if_pos hs]
        obtain ⟨S, hS, hl⟩ := ih stop (stop + ores) j' (by omega)
        refine ⟨S, by omega, fun l => ?_⟩
        rw [List.take_succ_cons, List.map_cons, List.sum_cons, hl l]
        have := drop_split (l.take S) hle
        rw [List.take_take, Nat.min_eq_left hS] at this
        exact this
      · rw [if_neg hs]
        exact ⟨start, le_refl _, fun l => by simp⟩



/-! ### error classes of convert_currency -/

theorem mapM_error_first {α β} {f : α → Except Err β} {l : List α} {e : Err}
    (h : l.mapM f = .error e) : ∃ x ∈ l, f x = .error e := by
  induction l with
  | nil => simp [List.mapM_nil, pure, Except.pure] at h
  | cons x rest ih =>
    rw [List.mapM_cons] at h
    cases hx : f x with
    | error e₁ =>
      simp [hx, bind, Except.bind] at h
      subst h; exact ⟨x, by simp, hx⟩
    | ok b =>
      cases hr : rest.mapM f with
      | error e₂ =>
        simp [hx, hr, bind, Except.bind] at h
        subst h
        obtain ⟨y, hy, hfy⟩ := ih hr
        exact ⟨y, by simp [hy], hfy⟩
      | ok bs => simp [hx, hr, bind, Except.bind, pure, Except.pure] at h

open Generated.Currency in
theorem convertCell_error {c : Cell} {rate : Num} {target : String} {e : Err}
    (h : convertCell c rate target = .error e) :
    e = .valueError ∨ (e = .typeError ∧ ∃ kv ∈ c.values, currencyFields.contains kv.1 = true ∧ kv.2 = .none) := by
  unfold convertCell at h
  cases hv : convertValues c.values rate with
  | error e' =>
    simp only [hv, bind, Except.bind, Except.error.injEq] at h
    subst h
    unfold convertValues at hv
    obtain ⟨kv, hkv, hf⟩ := mapM_error_first hv
    split at hf
    · rename_i hc
      cases hm : Val.mulNum kv.2 rate with
      | ok v => simp [hm, Except.map] at hf
      | error e'' =>
        simp only [hm, Except.map, Except.error.injEq] at hf
        subst hf
        right
        unfold Val.mulNum at hm
        split at hm <;> cases hm
        exact ⟨rfl, kv, hkv, hc, by assumption⟩
    · cases hf
  | ok vs =>
    simp only [hv, bind, Except.bind] at h
    unfold Cell.mk? at h
    split at h
    · cases h
    · cases h; exact .inl rfl

open Generated.Currency in
theorem convertSlice_error {target : String} {rates : List (String × Num)} {sl : Metadata × List Cell}
    {e : Err} (h : convertSlice target rates sl = .error e) :
    e = .valueError ∨ (e = .typeError ∧ ∃ c ∈ sl.2, ∃ kv ∈ c.values,
      currencyFields.contains kv.1 = true ∧ kv.2 = .none) := by
  unfold convertSlice at h
  split at h
  · cases h; exact .inl rfl
  · split at h
    · cases h
    · split at h
      · cases h; exact .inl rfl
      · obtain ⟨c, hc, hce⟩ := mapM_error_first h
        rcases convertCell_error hce with h1 | ⟨h1, kv, hkv, h2⟩
        · exact .inl h1
        · exact .inr ⟨h1, c, hc, kv, hkv, h2⟩


end Bermuda.Units
