/-
Towards `aggregate_disagg` (C18): the anchor and the windows of C08's `_aggregate_period` model on
month-aligned periods, and the disaggregation sums in C08/C09's `getV`/`at` vocabulary.
-/
import Bermuda.Lemmas.UnitsTiling
import Bermuda.Lemmas.Aggregate
namespace Bermuda.Units
open Bermuda Bermuda.Spec.C18 Std

/-- stepping back from a month end stays on month ends -/
theorem walkDown_monthEnd {q : Int} {bound : Date} :
    ∀ (n : Nat) (cur a : Date), cur.valid = true → cur.isMonthEnd = true →
      walkDown q .month bound n cur = some a →
      ∃ m : Nat, a = monthEndOf (monthToId cur - (m : Int) * q) ∧ ¬ (bound ≤ a) := by
  intro n
  induction n with
  | zero => intro cur a _ _ h; simp [walkDown] at h
  | succ n ih =>
    intro cur a hv he h
    simp only [walkDown] at h
    split at h
    · have hstep : resolutionDelta cur q .month true = monthEndOf (monthToId cur + (-q)) := by
        simp only [resolutionDelta]
        have := addMonths_monthEnd_all cur (-q) he
        simpa using this
      rw [hstep] at h
      obtain ⟨m, hm, hb⟩ := ih _ a (monthEndOf_valid _) (monthEndOf_isMonthEnd _) h
      refine ⟨m + 1, ?_, hb⟩
      rw [hm, monthToId_monthEndOf]
      congr 1; push_cast; ring
    · rename_i hn
      cases h
      exact ⟨0, by simpa using (monthEndOf_monthToId hv he).symm, hn⟩

/-- the anchor of `_aggregate_period` from a month-end origin is a month end on the origin's grid,
strictly before the bound -/
theorem anchorBefore_monthEnd {q : Int} {origin bound init : Date} (hv : origin.valid = true)
    (he : origin.isMonthEnd = true) (h : anchorBefore q .month origin bound = some init) :
    ∃ z : Int, init = monthEndOf (monthToId origin + z * q) ∧ init < bound := by
  unfold anchorBefore at h
  split at h
  · cases h
  · rename_i a hup
    obtain ⟨k, hk, _, _⟩ := walkUp_spec hup
    have ha : a = monthEndOf (monthToId origin + (k : Int) * q) := by
      rw [hk, iterD_month_monthEnd q k origin hv he]
    obtain ⟨m, hm, hb⟩ := walkDown_monthEnd _ a init (by rw [ha]; exact monthEndOf_valid _)
      (by rw [ha]; exact monthEndOf_isMonthEnd _) h
    refine ⟨(k : Int) - (m : Int), ?_, ?_⟩
    · rw [hm, ha, monthToId_monthEndOf]; congr 1; ring
    · rw [date_le_iff_not_lt, not_not] at hb; exact hb



theorem not_monthEndOf_lt_firstOf {N P : Int} (h : P ≤ N) : ¬ monthEndOf N < firstOf P := by
  intro hlt
  rcases Int.lt_or_eq_of_le h with h1 | h1
  · exact firstOf_le_monthEndOf N (Date.lt_trans_agg hlt (firstOf_lt h1))
  · subst h1; exact firstOf_le_monthEndOf P hlt

/-- on the month grid of a month-end anchor, the first window whose end is not before the first
of month `P` is the window that contains month `P` -/
theorem firstWindow_month {L : Int} (hL : 1 ≤ L) {I P : Int} {a k : Nat}
    (h1 : I + (a : Int) * L + 1 ≤ P) (h2 : P ≤ I + ((a : Int) + 1) * L)
    (hk : FirstWindow L .month (monthEndOf I) k (firstOf P)) : k = a := by
  have hv := monthEndOf_valid I
  have he := monthEndOf_isMonthEnd I
  refine FirstWindow.unique hk ⟨?_, ?_⟩
  · intro j hj
    rw [(window_month_shape_agg (q := L) hv he j).1, monthToId_monthEndOf]
    apply monthEndOf_lt_firstOf
    have : ((j : Int) + 1) * L ≤ (a : Int) * L :=
      Int.mul_le_mul_of_nonneg_right (by exact_mod_cast hj) (by omega)
    omega
  · rw [(window_month_shape_agg (q := L) hv he a).1, monthToId_monthEndOf]
    exact not_monthEndOf_lt_firstOf h2

/-- that window is `[first of month I + a·L + 1, last of month I + (a+1)·L]` -/
theorem windowAt_month (L I : Int) (a : Nat) :
    windowAt L .month (monthEndOf I) a = (firstOf (I + (a : Int) * L + 1), monthEndOf (I + ((a : Int) + 1) * L)) := by
  have hv := monthEndOf_valid I
  have he := monthEndOf_isMonthEnd I
  have := window_month_shape_agg (q := L) hv he a
  rw [monthToId_monthEndOf] at this
  rw [Prod.ext_iff]
  exact ⟨by rw [this.2, monthEndOf_succ], this.1⟩



/-- the stages of `_aggregate_period`, with the anchor exposed (C08's `aggregatePeriod_decompose` hides it) -/
theorem aggregatePeriod_anchor {tr : Transc} {t out : List Cell} {q : Int} {s : String}
    {origin : Date} {prem : Bool}
    (h : aggregatePeriod tr t (some (q, s)) origin prem = .ok out) :
    ∃ q' u c0 tl init rel newCells, standardizeResolution q s = .ok (q', u) ∧
      (t.mergeSort fun a b => coordCmp a b != .gt) = c0 :: tl ∧
      anchorBefore q' u origin c0.ps = some init ∧
      assignWindows q' u init (c0 :: tl) = .ok rel ∧
      smMapE (aggCell tr prem) (groupsOf key3 rel) = .ok newCells ∧ out.Perm newCells := by
  unfold aggregatePeriod at h
  simp only at h
  split at h
  · cases h
  · rename_i q' u hst
    split at h
    · cases h
    · rename_i c0 tl hsorted
      split at h
      · cases h
      · rename_i init hinit
        split at h
        · cases h
        · rename_i rel hrel
          split at h
          · cases h
          · rename_i newCells hnew
            rw [groupBy_eq_groupsOf] at hnew
            exact ⟨q', u, c0, tl, init, rel, newCells, hst, hsorted, hinit, by rw [← hsorted]; exact hrel, hnew,
              ofCells_ok_perm h⟩



theorem ratsum_zip {α β} (φ : α → Rat) (ψ : β → Rat) :
    ∀ (l : List α) (r : List β), l.length = r.length → (∀ p ∈ l.zip r, φ p.1 = ψ p.2) →
      (l.map φ).sum = (r.map ψ).sum
  | [], [], _, _ => rfl
  | a :: l, b :: r, hlen, h => by
    simp only [List.map_cons, List.sum_cons]
    rw [h (a, b) (by simp), ratsum_zip φ ψ l r (by simpa using hlen) fun p hp => h p (by simp [hp])]
  | [], _ :: _, hlen, _ => by simp at hlen
  | _ :: _, [], hlen, _ => by simp at hlen

theorem exists_zip_of_mem_right {α β} {l : List α} {r : List β} (hlen : l.length = r.length) {b : β}
    (hb : b ∈ r) : ∃ a, (a, b) ∈ l.zip r := by
  obtain ⟨i, hi, rfl⟩ := List.getElem_of_mem hb
  exact ⟨l[i]'(by omega), List.mem_iff_getElem.mpr ⟨i, by simp [hi]; omega, by simp⟩⟩

theorem zip_unique_right {α β} {l : List α} {r : List β} (hn : l.Nodup) {a : α} {b b' : β}
    (h : (a, b) ∈ l.zip r) (h' : (a, b') ∈ l.zip r) : b = b' := by
  induction l generalizing r with
  | nil => simp at h
  | cons x l ih =>
    cases r with
    | nil => simp at h
    | cons y r =>
      rw [List.nodup_cons] at hn
      simp only [List.zip_cons_cons, List.mem_cons, Prod.mk.injEq] at h h'
      rcases h with ⟨rfl, rfl⟩ | h
      · rcases h' with ⟨_, rfl⟩ | h'
        · rfl
        · exact absurd (List.of_mem_zip h').1 hn.1
      · rcases h' with ⟨rfl, _⟩ | h'
        · exact absurd (List.of_mem_zip h).1 hn.1
        · exact ih hn.2 h h'

theorem monthEndOf_inj {A B : Int} (h : monthEndOf A = monthEndOf B) : A = B := by
  have := congrArg monthToId h
  rwa [monthToId_monthEndOf, monthToId_monthEndOf] at this

theorem lt_of_monthEndOf_lt_firstOf {I P : Int} (h : monthEndOf I < firstOf P) : I < P := by
  by_contra hc
  exact not_monthEndOf_lt_firstOf (by omega) h

theorem sliceWF_pe {res : Nat} {sl : List Cell} {L : Int} (w : SliceWF res sl L) {c : Cell} (hc : c ∈ sl) :
    c.pe = monthEndOf (monthToId c.ps + L - 1) ∧ firstOf (monthToId c.ps) = c.ps := by
  obtain ⟨hv, hd, h70, hpe, _⟩ := w.cell c hc
  refine ⟨?_, firstOf_monthToId hv hd⟩
  have hL : ((L.toNat : Nat) : Int) = L := Int.toNat_of_nonneg (by have := w.hL; omega)
  rw [hpe]
  have c1 : (((L.toNat : Nat) : Rat)) = ((L : Int) : Rat) := by rw [← hL]; push_cast; rw [hL]
  rw [c1, addMonths_firstOf c.ps _ hd (by have := w.hL; omega)]
  have h := firstOf_pred (monthToId c.ps + L - 1)
  rw [show monthToId c.ps + L - 1 + 1 = monthToId c.ps + L by omega] at h
  exact h



/-- a sub-period cell of `c` is re-labelled by `_aggregate_period` to exactly the period of `c` -/
theorem relabel_to_parent {res : Nat} {sl : List Cell} {L : Int} (w : SliceWF res sl L)
    {F : List String} {origin init c0 : Date} {z0 : Int} {sorted rel : List Cell}
    (hinit : init = monthEndOf (monthToId origin + z0 * L)) (hlt : init < c0)
    (hgrid : ∀ c ∈ sl, ∃ z : Int, monthToId c.ps = monthToId origin + z * L + 1)
    (hsort : sorted.Pairwise (fun a b => ¬ b.ps < a.ps)) (hc0 : ∀ x ∈ sorted, ¬ x.ps < c0)
    (hrel : assignWindows L .month init sorted = .ok rel)
    {x rc : Cell} (hp : (x, rc) ∈ sorted.zip rel) {c : Cell} {part : List Cell} (hc : c ∈ sl)
    (hsub : SubCellsN res (L / (res : Int)).toNat F c part) (hx : x ∈ part) :
    rc.ps = c.ps ∧ rc.pe = c.pe ∧ rc.ev = c.ev ∧ rc.values = x.values ∧ rc.md = c.md := by
  obtain ⟨hlen, hall⟩ := assignWindows_spec hrel
  obtain ⟨k', hwin, _, _, hev, hvals, hmd, _, _⟩ := hall (x, rc) hp
  obtain ⟨k, hfirst, hpe⟩ := assignWindows_first (k0 := 0) (init0 := init) hsort (by intro _ _ j hj; omega)
    hrel (x, rc) hp
  simp only at hfirst hpe hwin hev hvals hmd
  obtain ⟨hv, hd, h70, _, _⟩ := w.cell c hc
  obtain ⟨hcpe, hcps⟩ := sliceWF_pe w hc
  obtain ⟨hn1, hLn⟩ := sliceWF_n w
  -- x is sub-period j of c
  have hxm : (x.ps, x.pe) ∈ obsSubs c res (L / (res : Int)).toNat := by
    rw [← hsub.1]; exact List.mem_map.mpr ⟨x, hx, rfl⟩
  unfold obsSubs at hxm
  rw [subperiods_firstOf hd h70] at hxm
  obtain ⟨j, hj, hje⟩ := List.mem_map.mp (List.mem_filter.mp hxm).1
  have hjn : j < (L / (res : Int)).toNat := by simpa using hj
  have hxps : x.ps = firstOf (monthToId c.ps + ((j * res : Nat) : Int)) := by
    have := congrArg Prod.fst hje; simpa [subOf] using this.symm
  -- month arithmetic
  obtain ⟨z, hz⟩ := hgrid c hc
  have hLpos := w.hL
  have hjr : ((j * res : Nat) : Int) + (res : Int) ≤ L := by
    have h1 : (j + 1) * res ≤ (L / (res : Int)).toNat * res := Nat.mul_le_mul_right _ (by omega)
    have : (((j + 1) * res : Nat) : Int) ≤ L := by rw [hLn]; exact_mod_cast h1
    push_cast at this ⊢; linarith
  have hres1 : (1 : Int) ≤ res := by exact_mod_cast w.hres
  have hI : monthToId origin + z0 * L < monthToId c.ps + ((j * res : Nat) : Int) := by
    apply lt_of_monthEndOf_lt_firstOf
    rw [← hinit, ← hxps]
    exact Date.lt_of_lt_of_not_lt_agg hlt (hc0 x (List.of_mem_zip hp).1)
  have hd0 : 0 ≤ z - z0 := by
    by_contra hneg
    have h1 : z - z0 ≤ -1 := by omega
    have h2 := Int.mul_le_mul_of_nonneg_right h1 (by omega : (0 : Int) ≤ L)
    have h3 : (z - z0) * L = z * L - z0 * L := by ring
    omega
  obtain ⟨a, ha⟩ : ∃ a : Nat, (a : Int) = z - z0 := ⟨(z - z0).toNat, Int.toNat_of_nonneg hd0⟩
  have hM0 : monthToId c.ps = (monthToId origin + z0 * L) + (a : Int) * L + 1 := by
    rw [ha, hz]; ring
  rw [hinit] at hfirst hpe hwin
  rw [hxps] at hfirst
  have hk : k = a := firstWindow_month hLpos (by omega) (by
    have : ((a : Int) + 1) * L = (a : Int) * L + L := by ring
    omega) hfirst
  subst hk
  rw [windowAt_month] at hpe hwin
  simp only at hpe
  have hk' : k' = k := by
    have h1 : rc.pe = monthEndOf (monthToId origin + z0 * L + ((k' : Int) + 1) * L) := by
      have := congrArg Prod.snd hwin; simpa using this
    rw [hpe] at h1
    have h2 := monthEndOf_inj h1
    have h3 : ((k : Int) + 1) * L = ((k' : Int) + 1) * L := by omega
    have h4 := Int.eq_of_mul_eq_mul_right (by omega : L ≠ 0) h3
    omega
  subst hk'
  have hps : rc.ps = firstOf (monthToId origin + z0 * L + (k' : Int) * L + 1) := by
    have := congrArg Prod.fst hwin; simpa using this
  refine ⟨?_, ?_, ?_, hvals, ?_⟩
  · rw [hps, ← hM0, hcps]
  · rw [hpe, hcpe]; congr 1
    have : ((k' : Int) + 1) * L = (k' : Int) * L + L := by ring
    omega
  · rw [hev, (hsub.2.1 x hx).2.1]
  · rw [hmd, (hsub.2.1 x hx).1]


end Bermuda.Units
