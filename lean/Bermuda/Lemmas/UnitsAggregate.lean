/-
Towards `aggregate_disagg` (C18): the anchor and the windows of C08's `_aggregate_period` model on
month-aligned periods, and the disaggregation sums in C08/C09's `getV`/`at` vocabulary.
-/
import Bermuda.Lemmas.UnitsTiling
import Bermuda.Lemmas.Aggregate
namespace Bermuda.Units
open Bermuda Bermuda.Spec.C18 Std

/-- stepping back from a month end stays on month ends -/
theorem walkDown_monthEnd {q : Int} {bound : Date} :
    ∀ (n : Nat) (cur a : Date), cur.valid = true → cur.isMonthEnd = true →
      walkDown q .month bound n cur = some a →
      ∃ m : Nat, a = monthEndOf (monthToId cur - (m : Int) * q) ∧ ¬ (bound ≤ a) := by
  intro n
  induction n with
  | zero => intro cur a _ _ h; simp [walkDown] at h
  | succ n ih =>
    intro cur a hv he h
    simp only [walkDown] at h
    split at h
    · have hstep : resolutionDelta cur q .month true = monthEndOf (monthToId cur + (-q)) := by
        simp only [resolutionDelta]
        have := addMonths_monthEnd_all cur (-q) he
        simpa using this
      rw [hstep] at h
      obtain ⟨m, hm, hb⟩ := ih _ a (monthEndOf_valid _) (monthEndOf_isMonthEnd _) h
      refine ⟨m + 1, ?_, hb⟩
      rw [hm, monthToId_monthEndOf]
      congr 1; push_cast; ring
    · rename_i hn
      cases h
      exact ⟨0, by simpa using (monthEndOf_monthToId hv he).symm, hn⟩

/-- the anchor of `_aggregate_period` from a month-end origin is a month end on the origin's grid,
strictly before the bound -/
theorem anchorBefore_monthEnd {q : Int} {origin bound init : Date} (hv : origin.valid = true)
    (he : origin.isMonthEnd = true) (h : anchorBefore q .month origin bound = some init) :
    ∃ z : Int, init = monthEndOf (monthToId origin + z * q) ∧ init < bound := by
  unfold anchorBefore at h
  split at h
  · cases h
  · rename_i a hup
    obtain ⟨k, hk, _, _⟩ := walkUp_spec hup
    have ha : a = monthEndOf (monthToId origin + (k : Int) * q) := by
      rw [hk, iterD_month_monthEnd q k origin hv he]
    obtain ⟨m, hm, hb⟩ := walkDown_monthEnd _ a init (by rw [ha]; exact monthEndOf_valid _)
      (by rw [ha]; exact monthEndOf_isMonthEnd _) h
    refine ⟨(k : Int) - (m : Int), ?_, ?_⟩
    · rw [hm, ha, monthToId_monthEndOf]; congr 1; ring
    · rw [date_le_iff_not_lt, not_not] at hb; exact hb



theorem not_monthEndOf_lt_firstOf {N P : Int} (h : P ≤ N) : ¬ monthEndOf N < firstOf P := by
  intro hlt
  rcases Int.lt_or_eq_of_le h with h1 | h1
  · exact firstOf_le_monthEndOf N (Date.lt_trans_agg hlt (firstOf_lt h1))
  · subst h1; exact firstOf_le_monthEndOf P hlt

/-- on the month grid of a month-end anchor, the first window whose end is not before the first
of month `P` is the window that contains month `P` -/
theorem firstWindow_month {L : Int} (hL : 1 ≤ L) {I P : Int} {a k : Nat}
    (h1 : I + (a : Int) * L + 1 ≤ P) (h2 : P ≤ I + ((a : Int) + 1) * L)
    (hk : FirstWindow L .month (monthEndOf I) k (firstOf P)) : k = a := by
  have hv := monthEndOf_valid I
  have he := monthEndOf_isMonthEnd I
  refine FirstWindow.unique hk ⟨?_, ?_⟩
  · intro j hj
    rw [(window_month_shape_agg (q := L) hv he j).1, monthToId_monthEndOf]
    apply monthEndOf_lt_firstOf
    have : ((j : Int) + 1) * L ≤ (a : Int) * L :=
      Int.mul_le_mul_of_nonneg_right (by exact_mod_cast hj) (by omega)
    omega
  · rw [(window_month_shape_agg (q := L) hv he a).1, monthToId_monthEndOf]
    exact not_monthEndOf_lt_firstOf h2

/-- that window is `[first of month I + a·L + 1, last of month I + (a+1)·L]` -/
theorem windowAt_month (L I : Int) (a : Nat) :
    windowAt L .month (monthEndOf I) a = (firstOf (I + (a : Int) * L + 1), monthEndOf (I + ((a : Int) + 1) * L)) := by
  have hv := monthEndOf_valid I
  have he := monthEndOf_isMonthEnd I
  have := window_month_shape_agg (q := L) hv he a
  rw [monthToId_monthEndOf] at this
  rw [Prod.ext_iff]
  exact ⟨by rw [this.2, monthEndOf_succ], this.1⟩


end Bermuda.Units
